/-
The whole expression pipeline from text: ExpressionParser.ParseString (trim, tokenize with the
expression tokenizer under the parser's options, completeLexicalAnalysis, syntax analysis, the
"tokens left over" check) and ExpressionCalculator.SetExpression + EvaluateUsingVariables.

New here (the other stages are Model/Tokenizer, Model/ExprParser, Model/ExprEval, Model/Calc):
  * `decodeFloat32`: the nearest (ties-to-even) IEEE binary32 of a decimal constant, in `Nat`
    arithmetic — what `strconv.ParseFloat(text, 32)` computes, `none` = out of range;
  * `lexTok` / `lexAnalysis`: `completeLexicalAnalysis` (after the `fix:` for numeric constants).
-/
import Verif.Model.Tokenizer
import Verif.Model.Calc

namespace Verif

/-! ### decimal constants -/

def isDigitR (c : Rune) : Bool := 48 ≤ c && c ≤ 57

/-- value of a digit string (no sign); `none` if a non-digit occurs or the string is empty -/
def decNat (ds : List Rune) : Option Nat :=
  if ds.isEmpty || !ds.all isDigitR then none
  else some (ds.foldl (fun acc c => acc * 10 + (c - 48)) 0)

/-- `strconv.ParseInt(text, 10, 64)` on a digit string -/
def decodeInt (ds : List Rune) : Option Int64 :=
  match decNat ds with
  | some n => if n < 9223372036854775808 then some (Int64.ofNat n) else none
  | none => none

/-- number of binary digits -/
def bitLen (n : Nat) : Nat := if n = 0 then 0 else Nat.log2 n + 1

/-- round-half-even of `num / den` (`den > 0`) -/
def divRoundEven (num den : Nat) : Nat :=
  let q := num / den
  let r := num % den
  if 2 * r > den || (2 * r == den && q % 2 == 1) then q + 1 else q

/-- bits of the binary32 nearest to `num / den` (`num, den > 0`), ties to even; `none` on overflow.
`u` is the exponent of the unit in the last place: the value is rounded to a multiple of `2^u`,
`u = max (e - 23) (-149)` where `2^e ≤ value < 2^(e+1)`. -/
def ratToF32Bits (num den : Nat) : Option UInt32 :=
  -- estimate e with bit lengths: 2^(e0-1) < num/den < 2^(e0+1) where e0 = bitLen num - bitLen den
  let e0 : Int := (bitLen num : Int) - (bitLen den : Int)
  -- exact floor(log2 (num/den)): e0 or e0 - 1
  let ge (e : Int) : Bool := -- num/den ≥ 2^e
    if e ≥ 0 then num ≥ den * 2 ^ e.toNat else num * 2 ^ (-e).toNat ≥ den
  let e : Int := if ge e0 then e0 else e0 - 1
  let u : Int := if e - 23 < -149 then -149 else e - 23
  -- q = round(num / (den * 2^u))
  let q : Nat := if u ≥ 0 then divRoundEven num (den * 2 ^ u.toNat) else divRoundEven (num * 2 ^ (-u).toNat) den
  -- rounding may carry into the next binade
  let (q, u) := if q ≥ 2 ^ 24 then (q / 2, u + 1) else (q, u)
  if q < 2 ^ 23 then some (UInt32.ofNat q)                 -- subnormal (u = -149) or zero
  else
    let biased : Int := u + 23 + 127
    if biased ≥ 255 then none
    else some (UInt32.ofNat (biased.toNat * 2 ^ 23 + (q - 2 ^ 23)))

structure DecLit where
  mant : Nat          -- all digits of the integer and fraction part
  exp10 : Int         -- value = mant * 10^exp10
  deriving Repr, DecidableEq

/-- split `digits [. digits] [(e|E) [+|-] digits]` (either digit group may be empty, not both) -/
def parseDecLit (v : List Rune) : Option DecLit :=
  let ip := v.takeWhile isDigitR
  let r1 := v.dropWhile isDigitR
  let (fp, r2) : List Rune × List Rune :=
    match r1 with
    | 46 :: rest => (rest.takeWhile isDigitR, rest.dropWhile isDigitR)
    | _ => ([], r1)
  if ip.isEmpty && fp.isEmpty then none else
  let mant := (ip ++ fp).foldl (fun acc c => acc * 10 + (c - 48)) 0
  match r2 with
  | [] => some ⟨mant, -(fp.length : Int)⟩
  | c :: rest =>
    if c == 101 || c == 69 then
      let (neg, ds) : Bool × List Rune :=
        match rest with
        | 43 :: ds => (false, ds)
        | 45 :: ds => (true, ds)
        | ds => (false, ds)
      match decNat ds with
      | some e => some ⟨mant, (if neg then -(e : Int) else (e : Int)) - (fp.length : Int)⟩
      | none => none
    else none

def decDigitCount (n : Nat) : Nat := (Nat.toDigits 10 n).length

/-- `strconv.ParseFloat(text, 32)` on a decimal constant: `none` = syntax or range error.
Magnitudes far outside the binary32 range are decided without building the power of ten. -/
def decodeFloat32 (v : List Rune) : Option UInt32 :=
  match parseDecLit v with
  | none => none
  | some ⟨m, e⟩ =>
    if m == 0 then some 0
    else
      let mag : Int := (decDigitCount m : Int) + e      -- 10^(mag-1) ≤ value < 10^mag
      if mag > 40 then none
      else if mag < -60 then some 0
      else if e ≥ 0 then ratToF32Bits (m * 10 ^ e.toNat) 1
      else ratToF32Bits m (10 ^ (-e).toNat)

/-! ### completeLexicalAnalysis -/

/-- keyword / symbol text → operator token type (`operators` / `operatorTypes`, first match) -/
def operatorTable : List (String × ET) :=
  [("(", .leftBrace), (")", .rightBrace), ("[", .leftSquareBrace), ("]", .rightSquareBrace),
   ("+", .plus), ("-", .minus), ("*", .star), ("/", .slash), ("%", .procent), ("^", .power),
   ("=", .equal), ("<>", .notEqual), ("!=", .notEqual), (">", .more), ("<", .less),
   (">=", .equalMore), ("<=", .equalLess), ("<<", .shiftLeft), (">>", .shiftRight),
   ("AND", .and), ("OR", .or), ("XOR", .xor), ("NOT", .not), ("IS", .is), ("IN", .in_),
   ("NULL", .null), ("LIKE", .like), (",", .comma)]

def lookupOperator (v : List Rune) : Option ET :=
  (operatorTable.find? (fun e => strOf e.1 == upperFullStr v)).map (·.2)

inductive LexErr where
  | unknownSymbol | constRange
  deriving Repr, DecidableEq

def LexErr.code : LexErr → String
  | .unknownSymbol => "UNKNOWN_SYMBOL" | .constRange => "ERROR_AT"

/-- one tokenizer token: `none` = skipped (whitespace) -/
def lexTok (t : Tok) : Except LexErr (Option (ETok V)) :=
  if t.typ == TT.whitespace then .ok none
  else if t.typ == TT.keyword then
    let up := upperFullStr t.value
    if up == strOf "TRUE" then .ok (some ⟨.constant, [], some (.bool true), 0⟩)
    else if up == strOf "FALSE" then .ok (some ⟨.constant, [], some (.bool false), 0⟩)
    else match lookupOperator t.value with
      | some ty => .ok (some ⟨ty, [], none, 0⟩)
      | none => .error .unknownSymbol
  else if t.typ == TT.word then
    if t.value.isEmpty then .error .unknownSymbol
    else .ok (some ⟨.variable, t.value, some (.str t.value), 0⟩)
  else if t.typ == TT.integer then
    match decodeInt t.value with
    | some i => .ok (some ⟨.constant, [], some (.int i), 0⟩)
    | none => .error .constRange
  else if t.typ == TT.float then
    match decodeFloat32 t.value with
    | some b => .ok (some ⟨.constant, [], some (.float (Float32.ofBits b)), 0⟩)
    | none => .error .constRange
  else if t.typ == TT.quoted then .ok (some ⟨.constant, [], some (.str t.value), 0⟩)
  else if t.typ == TT.symbol then
    match lookupOperator t.value with
    | some ty => .ok (some ⟨ty, [], none, 0⟩)
    | none => .error .unknownSymbol
  else .error .unknownSymbol   -- Comment (empty case), Eof, Eol, HexDecimal, Number, Special, Unknown

def lexAnalysis : List Tok → Except LexErr (List (ETok V))
  | [] => .ok []
  | t :: ts =>
    match lexTok t with
    | .error e => .error e
    | .ok none => lexAnalysis ts
    | .ok (some et) =>
      match lexAnalysis ts with
      | .error e => .error e
      | .ok rest => .ok (et :: rest)

/-! ### ParseString and the calculator -/

def isBlankR (c : Rune) : Bool := c == 32 || c == 9 || c == 13 || c == 10

/-- `strings.Trim(expression, " \t\r\n")` -/
def trimBlank (s : List Rune) : List Rune :=
  ((s.dropWhile isBlankR).reverse.dropWhile isBlankR).reverse

/-- the parser's tokenizer options: skipWhitespaces, skipComments, skipEof, decodeStrings -/
def exprOpts : Opts := ⟨false, true, true, true, false, false, true⟩

/-- `tokenizeExpression` -/
def tokenizeExpression (text : List Rune) : List Tok :=
  let t := trimBlank text
  if t.isEmpty then [] else tokenize expressionCfg exprOpts t

inductive ParseOutcome where
  | ok (result : List (ETok V)) (vars : List (List Rune))
  | lexErr (e : LexErr)
  | synErr (e : PErr)

def syntaxFuel (n : Nat) : Nat := 16 * (n + 2)

/-- `performParsing` on the tokenizer's tokens -/
def performParsing (orig : List Tok) : ParseOutcome :=
  if orig.isEmpty then .ok [] [] else
  match lexAnalysis orig with
  | .error e => .lexErr e
  | .ok initial =>
    match Parser.p0 (syntaxFuel initial.length) ⟨initial, [], []⟩ with
    | .error e => .synErr e
    | .ok st => if st.rest.isEmpty then .ok st.out st.vars else .synErr .errorNear

/-- `ExpressionParser.ParseString` -/
def parseString (text : List Rune) : ParseOutcome := performParsing (tokenizeExpression text)

def ParseOutcome.code : ParseOutcome → Option String
  | .ok _ _ => none
  | .lexErr e => some e.code
  | .synErr e => some e.code

/-- the environment of the text pipeline: constants carry their value -/
def textEnv (m : Mgr) (vars : List (List Rune × V)) : EvalEnv V V := calcEnvK m id vars

/-- `SetExpression(text)` then `EvaluateUsingVariables(vars)` (automatic variables do not matter
when a collection is passed): a parse error code, or the evaluation outcome -/
def calculate (m : Mgr) (text : List Rune) (vars : List (List Rune × V)) : Except String (Out V) :=
  match parseString text with
  | .ok prog _ => .ok (evaluate (textEnv m vars) prog)
  | .lexErr e => .error e.code
  | .synErr e => .error e.code

end Verif
