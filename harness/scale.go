package main

import (
	"github.com/pip-services3-gox/pip-services3-expressions-gox/tokenizers/utilities"
	"fmt"
	"strings"
	"time"

	"github.com/pip-services3-gox/pip-services3-expressions-gox/calculator"
	rio "github.com/pip-services3-gox/pip-services3-expressions-gox/io"
	"github.com/pip-services3-gox/pip-services3-expressions-gox/calculator/functions"

	"github.com/pip-services3-gox/pip-services3-expressions-gox/calculator/parsers"
	"github.com/pip-services3-gox/pip-services3-expressions-gox/tokenizers"
	"github.com/pip-services3-gox/pip-services3-expressions-gox/variants"
)

// Sizes.  The random and exhaustive streams keep inputs short; a threshold hidden at a "round" size (a buffer
// of 16, a table of 64, a byte counter, a page) would never be crossed.  Every property therefore also gets a
// small deterministic family of LARGE cases around such sizes, run through the same runners and oracles.

var scaleSizes = []int{16, 17, 63, 64, 65, 255, 256, 257, 1023, 1025, 4097}

func repeatTo(pattern string, n int) []rune {
	p := []rune(pattern)
	out := make([]rune, 0, n)
	for len(out) < n {
		out = append(out, p...)
	}
	return out[:n]
}

// scaleInputs: long tokenizer inputs of one lexical class and of mixed classes
func scaleInputs(kind string, sizes []int) [][]rune {
	var out [][]rune
	pats := []string{"a", "ab ", "7", "1.5 ", " ", "\n", "<=", "é世", "'x''y' ", "a,b\n", "\"q\"\"r\",", "ab 12 <= 'x' /*c*/ # \n", "{{a}} t {{#b}}{{/b}}", "x😀"}
	for _, n := range sizes {
		for _, p := range pats {
			out = append(out, repeatTo(p, n))
		}
		// one long quoted string / comment / tag that is never closed
		out = append(out, append([]rune("'"), repeatTo("z", n)...))
		out = append(out, append([]rune("/*"), repeatTo("z*", n)...))
		out = append(out, append([]rune("{{"), repeatTo("z ", n)...))
	}
	_ = kind
	return out
}

func propScaleTokenizers(c *Ctx, which string) {
	sizes := scaleSizes[:8]
	if c.Thorough {
		sizes = scaleSizes
	}
	for _, k := range []string{"g", "e", "m", "c:44:34"} {
		for _, in := range scaleInputs(k, sizes) {
			switch which {
			case "C04":
				runC04Case(c, k, in)
			case "C12":
				runC12Case(c, k, []int{0, 2 | 4 | 8, 16, 127}, in)
			case "C15":
				runC15Case(c, k, []int{1, 2, 4 | 2, 16 | 32 | 64, 127}, in)
			}
		}
	}
	if which == "C12" {
		// an LF CR / CR LF / LF LF pair across offsets 4095|4096 and 8191|8192, tokens ending directly before later line breaks
		for _, base := range []int{4096, 8192} {
			for _, pair := range []string{"\n\r", "\r\n", "\n\n", "\r\r", "x\n"} {
				body := strings.Repeat("ab ", base/3+1)[:base-1]
				in := []rune(body + pair + "ab\ncd ef\r\ngh\n\rij\nkl")
				for _, k := range []string{"g", "e"} {
					runC12Case(c, k, []int{0, 16 | 32, 127}, in)
				}
			}
		}
		// more than 2^24 lines: a token on line 16 777 218
		if func() bool { in := []rune(strings.Repeat("\n", 1<<24+1) + "x y"); runC12Case(c, "g", []int{0}, in); return true }() {
		}
		// more than 4096 / 65536 tokens, columns and lines in one input
		for _, b := range []struct {
			kind, pat string
			n         int
		}{{"g", "7 ", 4200}, {"g", "ab ", 23400}, {"g", "a \n", 66000}, {"e", "1.5 + ", 12000}, {"c:44:34", "a,b,", 17000}, {"m", "x", 72000}} {
			in := []rune(strings.Repeat(b.pat, b.n))
			if b.kind == "m" {
				in = append(in, []rune("{{name}} {{#a}}y{{/a}}")...)
			}
			runC12Case(c, b.kind, []int{0, 16 | 32, 127}, in)
		}
	}
	c.Notes = append(c.Notes, fmt.Sprintf("scale: inputs of %v characters (single-class runs, mixed lexemes, unclosed literals) for every tokenizer", sizes))
}

// long expressions: chains, nesting, long argument lists, long names and literals
func scaleTrees(sizes []int) []*ex {
	cst := func(s string) *ex { return &ex{k: 'c', text: s} }
	var out []*ex
	for _, n := range sizes {
		// left-associated chain 1 + 2 + ... and a mixed-precedence chain
		e := cst("1")
		m := cst("2")
		for i := 1; i < n; i++ {
			e = &ex{k: 'b', op: parsers.Plus, kids: []*ex{e, cst(fmt.Sprint(i % 7))}}
			op := []int{parsers.Star, parsers.Plus, parsers.Minus, parsers.And}[i%4]
			m = &ex{k: 'b', op: op, kids: []*ex{m, cst(fmt.Sprint(1 + i%3))}}
		}
		out = append(out, e, m)
		// right-nested (needs parentheses) and redundant parentheses n deep
		r := cst("1")
		p := cst("5")
		for i := 1; i < n && i < 300; i++ {
			r = &ex{k: 'b', op: parsers.Minus, kids: []*ex{cst("9"), r}}
			p = &ex{k: 'p', kids: []*ex{p}}
		}
		out = append(out, r, p)
		// a call with n arguments (written order), an array of n elements indexed at both ends
		call := &ex{k: 'f', text: "Sum"}
		arr := &ex{k: 'f', text: "Array"}
		for i := 0; i < n; i++ {
			call.kids = append(call.kids, cst(fmt.Sprint(i)))
			arr.kids = append(arr.kids, cst(fmt.Sprintf("'s%d'", i)))
		}
		out = append(out, call,
			&ex{k: 'i', kids: []*ex{arr, cst(fmt.Sprint(n - 1))}},
			&ex{k: 'i', kids: []*ex{arr, cst("0")}},
			&ex{k: 'i', kids: []*ex{arr, cst(fmt.Sprint(n))}})
		// flat chains of n+1 completed index operations, calls and parenthesised groups (nothing nested deeper than one level)
		ix := func() *ex { return &ex{k: 'i', kids: []*ex{{k: 'v', text: "a"}, cst("0")}} }
		cl := func() *ex { return &ex{k: 'f', text: "Abs", kids: []*ex{cst("1")}} }
		pr := func() *ex { return &ex{k: 'p', kids: []*ex{cst("2")}} }
		fi, fc, fp := ix(), cl(), pr()
		for i := 0; i < n; i++ {
			fi = &ex{k: 'b', op: parsers.Plus, kids: []*ex{fi, ix()}}
			fc = &ex{k: 'b', op: parsers.Plus, kids: []*ex{fc, cl()}}
			fp = &ex{k: 'b', op: parsers.Plus, kids: []*ex{fp, pr()}}
		}
		out = append(out, fi, fc, fp)
		// a long identifier and a long string literal
		out = append(out, &ex{k: 'b', op: parsers.Plus, kids: []*ex{{k: 'v', text: "v" + strings.Repeat("x", n)}, cst("'" + strings.Repeat("q''", n/3) + "'")}})
	}
	return out
}

func propScaleExpressions(c *Ctx, which string) {
	sizes := []int{17, 64, 65, 256}
	if c.Thorough {
		sizes = []int{17, 64, 65, 255, 256, 257, 1024}
	}
	g := newExGen(c)
	for _, e := range scaleTrees(sizes) {
		expr := g.render(g.toks(e, 0, 0), false)
		var vars []string
		var post []string
		e.postorder(&post, &vars)
		var binds []binding
		for _, v := range vars {
			binds = append(binds, binding{v, vStr("val")})
		}
		switch which {
		case "C02":
			o := runParseCase(c, expr, "scale")
			if o.status == "" && o.code != "" {
				c.fail(Failure{Kind: "oracle", Op: "expr " + strRunes(expr), Impl: o.implLine(), Note: fmt.Sprintf("a sentence of the grammar (%d characters: %s) was rejected with %s", len(expr), clip(expr), o.code)})
			} else if o.status == "" && strings.Join(o.result, " ") != strings.Join(post, " ") {
				c.fail(Failure{Kind: "oracle", Op: "expr " + strRunes(expr), Impl: clip(o.implLine()), Note: fmt.Sprintf("%s compiled to %s, the post-order of its syntax tree is %s", clip(expr), clip(strings.Join(o.result, " ")), clip(strings.Join(post, " ")))})
			}
			// the same text with one token too many or too few is no sentence
			if i := strings.LastIndexAny(expr, ")]"); i > 0 {
				for _, bad := range []string{expr[:i] + "," + expr[i:], expr[:i] + expr[i+1:], expr[:i] + expr[i:i+1] + expr[i:]} {
					if ob := runParseCase(c, bad, "scale-non-sentence"); ob.status == "" && ob.code == "" {
						c.fail(Failure{Kind: "oracle", Op: "expr " + strRunes(bad), Impl: clip(ob.implLine()), Note: fmt.Sprintf("%s is not a sentence of the grammar (a stray ',' / a missing or doubled bracket near the end) but was accepted", clip(bad))})
					}
				}
			}
		case "C18":
			runVarsCase(c, e, expr)
		default:
			runEvalCase(c, e, expr, "u", binds, "scale")
		}
	}
	c.Notes = append(c.Notes, fmt.Sprintf("scale: chains, nesting, argument lists, arrays, identifiers and literals of sizes %v", sizes))
}

func propScaleTemplates(c *Ctx) {
	sizes := []int{17, 64, 65, 256}
	if c.Thorough {
		sizes = append(sizes, 1024, 4097)
	}
	for _, n := range sizes {
		// n tags in a row, a text of n characters, n-deep nesting (capped), a value of n characters
		var flat []*tnode
		for i := 0; i < n; i++ {
			flat = append(flat, &tnode{k: 'v', text: "a", open: "{{a}}"}, &tnode{k: 't', text: "."})
		}
		runTplCase(c, flat, printTpl(flat), map[string]string{"a": "x"}, "scale")
		long := []*tnode{{k: 't', text: strings.Repeat("t ", n) + "."}, {k: 'e', text: "name", open: "{{{ name }}}"}}
		runTplCase(c, long, printTpl(long), map[string]string{"NAME": strings.Repeat("\"/\t", n)}, "scale")
		d := n
		if d > 200 {
			d = 200
		}
		inner := []*tnode{{k: 'v', text: "a", open: "{{a}}"}}
		for i := 0; i < d; i++ {
			name := []string{"a", "B", "zz"}[i%3]
			nd := &tnode{k: 's', text: name, open: "{{#" + name + "}}", close: "{{/" + name + "}}", kids: inner}
			if i%3 == 2 {
				nd.k, nd.open, nd.close = 'i', "{{^"+name+"}}", "{{/unless}}"
			} else if i%3 == 1 {
				nd.open, nd.close = "{{#if "+name+"}}", "{{/if}}"
			}
			inner = []*tnode{nd}
		}
		runTplCase(c, inner, printTpl(inner), map[string]string{"a": "1", "b": "2"}, "scale")
	}
	c.Notes = append(c.Notes, fmt.Sprintf("scale: templates with %v tags / characters / nesting levels (nesting capped at 200)", sizes))
}

func propScaleCsv(c *Ctx) {
	cfg := csvCfgT{[]rune{',', ';'}, []rune{'"', '\''}}
	sizes := []int{17, 64, 65, 256}
	if c.Thorough {
		sizes = append(sizes, 1024, 4097)
	}
	for _, n := range sizes {
		row := make([]string, n)
		for i := range row {
			row[i] = []string{"a", "", "x,y", "q\"r", "é", "a#b", "%c%", "_d_|"}[i%8]
		}
		rows := [][]string{row, {strings.Repeat("long ", n), "b"}, {strings.Repeat("\"", n)}}
		for _, eol := range []string{"\n", "\r\n"} {
			runCsvCase(c, cfg, eol, rows, writeCsv(c, cfg, eol, rows, false))
		}
	}
	c.Notes = append(c.Notes, fmt.Sprintf("scale: rows of %v fields, fields of that many characters / quotes", sizes))
}

func propScaleVariants(c *Ctx) {
	sizes := []int{16, 17, 63, 64, 65, 255, 256, 257}
	for _, n := range sizes {
		runVarCase(c, []string{"set:0:a[]", fmt.Sprintf("sidx:0:%d:i7", n), fmt.Sprintf("gidx:0:%d", n), fmt.Sprintf("gidx:0:%d", n-1), "cln:1:0", fmt.Sprintf("midx:1:%d:s97", n/2), "obs:0", "eq:0:1", fmt.Sprintf("len:0:%d", n+1), fmt.Sprintf("len:1:%d", 2*n), "eq:1:0", "asg:2:1", fmt.Sprintf("sidx:2:%d:b1", n-1), "obs:1"})
		runVarCase(c, []string{fmt.Sprintf("len:3:%d", n), "set:3:a[i1/i2]", fmt.Sprintf("len:3:%d", n), fmt.Sprintf("gidx:3:%d", n-1), fmt.Sprintf("gidx:3:%d", n), "cln:0:3", "eq:0:3", "clr:3", "obs:0"})
	}
	c.Notes = append(c.Notes, fmt.Sprintf("scale: arrays grown to %v elements by indexed writes and SetLength, cloned, compared, mutated in place", sizes))
}

func propScaleHistories(c *Ctx) {
	// many inputs on one instance, many presence queries before each fetch
	for _, k := range []string{"g", "e", "m", "c:44:34"} {
		pool := historyPool(k)
		for _, n := range []int{17, 64, 257} {
			var ins [][]rune
			for i := 0; i < n; i++ {
				ins = append(ins, pool[(i*7+3)%len(pool)])
			}
			runHistoryCase(c, k, 0, ins, 0)
			runHistoryCase(c, k, 2|4|8|64, ins, 0)
		}
		runHasNextCase(c, k, 0, "9", repeatTo("ab <= 1 ", 300))
		runHasNextCase(c, k, 127, "39", repeatTo("a 'q' # \n", 300))
	}
	var exprs []string
	for i := 0; i < 300; i++ {
		exprs = append(exprs, []string{"a + b", "a <= b", "1 +", "x", "Max(a, b) * 2", "a / 0", "'s' + x", ""}[(i*5+1)%8])
	}
	runParserHistory(c, exprs[:17])
	runParserHistory(c, exprs[:65])
	runParserHistory(c, exprs)
	var tpls []string
	for i := 0; i < 300; i++ {
		tpls = append(tpls, []string{"{{a}}", "x{{#a}}y{{/a}}", "{{#a}}x", "plain", "{{{name}}}", "{{a"}[(i*5+1)%6])
	}
	runTemplateHistory(c, tpls[:17])
	runTemplateHistory(c, tpls)
	c.Notes = append(c.Notes, "scale: histories of 17 / 64 / 257 / 300 inputs on one tokenizer / parser+calculator / template object; 9 presence queries before every fetch over 300-character inputs")
}

func propScaleTables(c *Ctx, which string) {
	if which == "C16" {
		for _, n := range []int{17, 64, 256} {
			var regs []symReg
			for i := 0; i < n; i++ {
				// symbols over three characters, lengths 1..4, a few types
				s := []rune{rune('<' + i%3)}
				for j := 0; j < i%4; j++ {
					s = append(s, rune('<'+(i/(j+1))%3))
				}
				regs = append(regs, symReg{s, []int{tokenizers.Symbol, tokenizers.Special, tokenizers.Keyword}[i%3]})
			}
			runSymCase(c, regs, repeatTo("<=><<=>>=<>", 64), 1)
			runSymCase(c, regs, repeatTo("=>", 17), 1)
			// long symbols: the reported text is the whole symbol whatever its length
			long := repeatTo("<=>", n)
			runSymCase(c, []symReg{{long, tokenizers.Special}, {long[:n-1], tokenizers.Keyword}, {[]rune("<="), tokenizers.Symbol}}, append(append([]rune(nil), long...), long[:n-1]...), 1)
			runSymCase(c, []symReg{{long, tokenizers.Special}}, append(long[:n-2], 'x'), 1)
		}
		return
	}
	for _, n := range []int{17, 64, 256} {
		var ops []mapOp
		var probes []int
		for i := 0; i < n; i++ {
			lo := (i * 37) % 0x600
			hi := lo + (i*11)%0x180
			ops = append(ops, mapOp{'a', lo, hi, []string{"1", "2", "n"}[i%3]})
			probes = append(probes, lo, hi, hi+1)
			if i%50 == 49 {
				ops = append(ops, mapOp{kind: 'd', ref: "2"})
			}
		}
		runCmapCase(c, ops, probes)
	}
	// hundreds of small registrations above U+00FF on top of a wide one, then a range that covers only the
	// beginning of the wide one: what the wide one still covers beyond it must survive
	for _, n := range []int{17, 255, 256, 300} {
		ops := []mapOp{{'a', 0x100, 0xfffe, "1"}}
		for i := 0; i < n; i++ {
			ops = append(ops, mapOp{'a', 0x2000 + 3*i, 0x2000 + 3*i, []string{"2", "n"}[i%2]})
		}
		ops = append(ops, mapOp{'a', 0x100, 0x17f, "2"})
		runCmapCase(c, ops, []int{0xff, 0x100, 0x17f, 0x180, 0x416, 0x2000, 0x2001, 0x2003, 0x4e16, 0xfffe})
	}
	if c.Thorough {
		// more than 100 000 registrations on one map (no Clear): an early wide range whose two END POINTS were re-registered
		// narrowly later still answers for its middle (direct oracle only; the library copies its list on every registration)
		op := "cmapbig 100100"
		c.record(op, true)
		c.count("cmap-100k-registrations")
		note := ""
		st := safeCallT(600*time.Second, func() string {
			m := utilities.NewCharReferenceMap()
			m.AddInterval(0x5000, 0x5fff, refA)
			m.AddInterval(0x5000, 0x5000, refB)
			m.AddInterval(0x5fff, 0x5fff, refB)
			m.AddInterval(0x7000, 0x7fff, refB)
			m.AddInterval(0x6ff0, 0x7010, refA)
			m.AddInterval(0x7ff0, 0x8010, refA)
			for i := 0; i < 100100; i++ {
				lo := rune(0x100 + (i*7)%0x3000)
				m.AddInterval(lo, lo+2, []any{refA, refB, nil}[i%3])
			}
			m.AddInterval(0x100, 0x4fff, nil)
			for _, pr := range []struct {
				ch   rune
				want string
			}{{0x5800, "1"}, {0x5000, "2"}, {0x5fff, "2"}, {0x5001, "1"}, {0x7800, "2"}, {0x7000, "1"}, {0x8000, "1"}, {0x2000, "n"}, {0x6000, "n"}} {
				if got := showRefAny(m.Lookup(pr.ch)); got != pr.want {
					note = fmt.Sprintf("after 100 107 registrations Lookup(%#x) = %s, the latest covering registration says %s", pr.ch, got, pr.want)
					return ""
				}
			}
			return ""
		})
		if st != "" || note != "" {
			c.fail(Failure{Kind: "oracle", Op: op, Impl: st, Note: note})
		}
	}
	// two different reference objects with equal content registered for the same range one after the other, re-registration of
	// a range after an overlapping one (below and above U+0100)
	for _, r := range [][2]int{{0x61, 0x7a}, {0x400, 0x4ff}, {0xf0, 0x110}} {
		mid := (r[0] + r[1]) / 2
		runCmapCase(c, []mapOp{{'a', r[0], r[1], "1"}, {'a', r[0], r[1], "3"}}, []int{r[0], mid, r[1], r[1] + 1})
		runCmapCase(c, []mapOp{{'a', r[0], r[1], "3"}, {'a', r[0], r[1], "1"}, {'a', r[0], r[1], "3"}}, []int{r[0], mid, r[1]})
		runCmapCase(c, []mapOp{{'a', r[0], r[1], "1"}, {'a', mid, r[1] + 0x20, "n"}, {'a', r[0], r[1], "1"}}, []int{r[0], mid, r[1], r[1] + 1, r[1] + 0x20})
		runCmapCase(c, []mapOp{{'a', r[0], r[1], "1"}, {'a', mid, r[1] + 0x20, "2"}, {'a', r[0], r[1], "3"}, {'a', mid, mid, "n"}, {'a', r[0], r[1], "1"}}, []int{r[0], mid, r[1], r[1] + 1})
	}
	// partly overlapping ranges before, in the middle of and after hundreds of other registrations: every probe is
	// answered by the latest registration that covers it - the uncovered head and tail of an older range stay with it
	for _, n := range []int{10, 250, 257, 300, 520} {
		for _, where := range []int{0, n / 2, n} {
			var ops []mapOp
			for i := 0; i <= n; i++ {
				if i == where {
					ops = append(ops, mapOp{'a', 0x1000, 0x1fff, "1"}, mapOp{'a', 0x0f00, 0x10ff, "2"}, mapOp{'a', 0x1800, 0x2800, "n"}, mapOp{'a', 0x1400, 0x14ff, "2"})
				}
				if i < n {
					ops = append(ops, mapOp{'a', 0x3000 + 5*i, 0x3000 + 5*i + 2, []string{"2", "1"}[i%2]})
				}
			}
			ops = append(ops, mapOp{'a', 0x0e80, 0x0f7f, "1"})
			runCmapCase(c, ops, []int{0xe7f, 0xe80, 0xeff, 0xf00, 0xf7f, 0xf80, 0xfff, 0x1000, 0x10ff, 0x1100, 0x13ff, 0x1400, 0x14ff, 0x1500, 0x17ff, 0x1800, 0x1fff, 0x2000, 0x2800, 0x2801, 0x3000, 0x3003})
		}
	}
}

func propScaleValues(c *Ctx, which string) {
	for _, n := range []int{16, 17, 64, 65, 256, 4097} {
		s := vStr(strings.Repeat("abé", n/3) + strings.Repeat("z", n%3))
		var elems []*variants.Variant
		for i := 0; i < n; i++ {
			elems = append(elems, vInt(i))
		}
		arr := vArr(elems...)
		switch which {
		case "C06":
			for _, i := range []int{0, n/3*3 - 1, n - 1, n, n + 1} {
				runOpCase(c, "u", opIndex("getElement"), s, vInt(i))
				runOpCase(c, "u", opIndex("getElement"), arr, vInt(i))
				runOpCase(c, "u", opIndex("in"), arr, vInt(i))
				runOpCase(c, "s", opIndex("in"), arr, vLong(int64(i)))
			}
			runOpCase(c, "u", opIndex("add"), s, s)
			runOpCase(c, "u", opIndex("less"), s, vStr(s.AsString()+"a"))
			runOpCase(c, "u", opIndex("equal"), s, vStr(s.AsString()))
			runOpCase(c, "u", opIndex("lsh"), vLong(1), vInt(n))
			runOpCase(c, "u", opIndex("rsh"), vLong(-1), vInt(n))
		case "C07":
			digits := strings.Repeat("9", n)
			for _, t := range []variants.VariantType{variants.Integer, variants.Long, variants.Double, variants.Boolean, variants.String} {
				runConvCase(c, "u", vStr(digits), t)
				runConvCase(c, "u", s, t)
				runConvCase(c, "u", arr, t)
			}
		case "C08":
			runFnCase(c, "u", "Sum", elems)
			runFnCase(c, "u", "Max", elems)
			runFnCase(c, "s", "Min", elems)
			runFnCase(c, "u", "Array", elems)
			runFnCase(c, "u", "Choose", append([]*variants.Variant{vInt(n - 1)}, elems...))
			runFnCase(c, "u", "Choose", append([]*variants.Variant{vInt(n)}, elems...))
			runFnCase(c, "u", "Contains", []*variants.Variant{s, vStr("z")})
			runFnCase(c, "u", "Contains", []*variants.Variant{s, vStr("béa")})
		}
	}
}

func propScaleScanner(c *Ctx) {
	for _, n := range []int{17, 64, 65, 256, 1025} {
		content := repeatTo("ab\r\nc\n\rd\re", n)
		var ops []string
		for i := 0; i < n+2; i++ {
			ops = append(ops, "r")
			if i%7 == 6 {
				ops = append(ops, "u", "u", "r")
			}
		}
		ops = append(ops, fmt.Sprintf("m%d", n/2), "r", "p", fmt.Sprintf("m%d", n), "r", "x")
		runScanCase(c, content, ops)
	}
	propScanHuge(c, 1<<24+37)
	propScanBlocks(c)
	// long multi-unreads, from the end-of-input slot, from the last character and from the middle, over tails with and
	// without a line break
	for _, t := range []int{15, 16, 17, 31, 32, 33, 34, 40, 64, 65, 130} {
		for _, head := range []string{"ab\n", "ab\r\n", "", "ab\ncd\r"} {
			content := []rune(head + strings.Repeat("x", t))
			for _, extra := range []int{0, 1, 2} {
				for _, k := range []int{t - 1, t, t + 1, t + 2, t + 3, t + 5, len(content) + 1} {
					var ops []string
					for i := 0; i < len(content)+extra; i++ {
						ops = append(ops, "r")
					}
					ops = append(ops, fmt.Sprintf("m%d", k), "p", "r", "r", fmt.Sprintf("m%d", k/2+1), "r")
					runScanCase(c, content, ops)
				}
			}
		}
	}
	// the cursor right after the CR of a CR LF pair (and after LF of LF CR) at the end of a long line, then long multi-unreads
	for _, brk := range []string{"\r\n", "\n\r", "\r", "\n"} {
		for _, ll := range []int{20, 40, 70} {
			content := []rune("ab\n" + strings.Repeat("x", ll) + brk + "yy" + brk + "z")
			for _, stop := range []int{3 + ll + 1, 3 + ll + len(brk), 3 + ll + len(brk) + 1} {
				for _, k := range []int{16, 17, 18, ll - 1, ll, ll + 1, ll + 2} {
					var ops []string
					for i := 0; i < stop; i++ {
						ops = append(ops, "r")
					}
					ops = append(ops, fmt.Sprintf("m%d", k), "p", "r", "r")
					runScanCase(c, content, ops)
				}
			}
		}
	}
	// characters that a "clean-up" might drop at the very start of the content
	for _, first := range []rune{0xfeff, 0xfffe, 0, 0x2028, 0x200b, 0xa0} {
		for _, rest := range []string{"", "a", "\nb", string(first) + "a\r\nb"} {
			content := append([]rune{first}, []rune(rest)...)
			runScanCase(c, content, []string{"r", "r", "r", "u", "u", "u", "r", "m2", "r", "r", "r", "r", "x", "r"})
			scanSpecCase(c, content)
		}
	}
	// positions around multiples of 4096 with every pair of {x, LF, CR} across the boundary, walked over backwards
	// one step at a time (un-reading a line break is where line and column are recomputed) and forwards again
	for _, base := range []int{4096, 8192} {
		if base == 8192 && !c.Thorough {
			continue
		}
		for _, a := range []rune{'x', '\n', '\r'} {
			for _, b := range []rune{'x', '\n', '\r'} {
				content := []rune(strings.Repeat("x", base-1))
				if base == 8192 {
					copy(content[4090:], []rune("ab\n\rcd\r\n"))
				}
				content = append(content, a, b)
				content = append(content, []rune("ab\ncd\re\r\nf")...)
				var ops []string
				for i := 0; i < len(content)+1; i++ {
					ops = append(ops, "r")
				}
				for i := 0; i < 16; i++ {
					ops = append(ops, "u")
				}
				ops = append(ops, "r", "r", "r", "r", "m3", "r", "u", "u", "r")
				runScanCase(c, content, ops)
			}
		}
	}
}

// line-break pairs across the multiples of large block sizes: the content is read to its end, then walked backwards over the
// boundary one step at a time and forwards again; every position is compared with ONE forward scan (linear time)
func propScanBlocks(c *Ctx) {
	bases := []int{1 << 16, 1 << 17}
	if c.Thorough {
		bases = append(bases, 1<<15, 3<<16, 1<<20)
	}
	for _, base := range bases {
		for _, a := range []rune{'x', '\n', '\r'} {
			for _, b := range []rune{'x', '\n', '\r'} {
				op := fmt.Sprintf("scanblock %d %d %d", base, a, b)
				c.record(op, a != 'x' || b != 'x')
				c.count("content-len:block-boundary")
				note := ""
				st := safeCallT(60*time.Second, func() string {
					content := []rune(strings.Repeat("x", base-1))
					content = append(content, a, b)
					content = append(content, []rune("ab\ncd\re\r\nf")...)
					n := len(content)
					cs := string(content)
					ls, cl := make([]int, n+2), make([]int, n+2)
					f := rio.NewStringScanner(cs)
					for k := 0; k <= n+1; k++ {
						ls[k], cl[k] = f.Line(), f.Column()
						f.Read()
					}
					s := rio.NewStringScanner(cs)
					pos := 0
					for pos <= n {
						s.Read()
						pos++
					}
					chk := func(what string) bool {
						if s.Line() != ls[pos] || s.Column() != cl[pos] {
							note = fmt.Sprintf("%s: at cursor %d the scanner reports %d:%d, a fresh forward scan %d:%d", what, pos, s.Line(), s.Column(), ls[pos], cl[pos])
							return false
						}
						return true
					}
					for i := 0; i < 18 && pos > 0; i++ {
						s.Unread()
						pos--
						if !chk(fmt.Sprintf("unread #%d from the end", i+1)) {
							return ""
						}
					}
					for i := 0; i < 6; i++ {
						s.Read()
						pos++
						if !chk("read after the walk back") {
							return ""
						}
					}
					s.UnreadMany(9)
					pos -= 9
					chk("UnreadMany(9) across the boundary")
					return ""
				})
				if st != "" || note != "" {
					c.fail(Failure{Kind: "oracle", Op: op, Impl: st, Note: fmt.Sprintf("content of %d x, then %q %q, then \"ab\\ncd\\re\\r\\nf\": %s%s", base-1, string(a), string(b), note, st)})
				}
			}
		}
	}
}

// one content of more than 2^24 characters read to its end: every character is delivered, the end-of-input slot comes after
// the last one, line and column are those of a forward count
func propScanHuge(c *Ctx, n int) {
	op := fmt.Sprintf("scanhuge %d", n)
	c.record(op, true)
	c.count("content-len:huge")
	note := ""
	st := safeCallT(60*time.Second, func() string {
		big := make([]rune, n)
		for i := range big {
			big[i] = 'x'
		}
		breaks := []int{5, 1<<16 - 1, 1 << 16, 1<<24 - 2, 1 << 24, n - 3}
		for _, b := range breaks {
			big[b] = '\n'
		}
		s := rio.NewStringScanner(string(big))
		reads, line, col := 0, 1, 0
		for {
			r := s.Read()
			if r == -1 {
				break
			}
			if r != big[reads] {
				note = fmt.Sprintf("read #%d returned %d, the content has %d there", reads, r, big[reads])
				return ""
			}
			reads++
			if r == '\n' {
				line, col = line+1, 0
			} else {
				col++
			}
			if reads > n {
				break
			}
		}
		if reads != n {
			note = fmt.Sprintf("end of input reported after %d characters, the content has %d", reads, n)
			return ""
		}
		if s.Line() != line || s.Column() != col {
			note = fmt.Sprintf("at the end of input the scanner reports %d:%d, a forward count gives %d:%d", s.Line(), s.Column(), line, col)
			return ""
		}
		s.UnreadMany(3)
		if r := s.Read(); r != big[n-2] {
			note = fmt.Sprintf("after UnreadMany(3) from the end-of-input slot, read returned %d, expected the character at offset %d (%d)", r, n-2, big[n-2])
		}
		return ""
	})
	if st != "" || note != "" {
		c.fail(Failure{Kind: "oracle", Op: op, Impl: st, Note: fmt.Sprintf("content of %d characters: %s%s", n, note, st)})
	}
}

// large collections: add / locate / find / remove on lists of 17..257 entries
func propScaleCollections(c *Ctx) {
	for _, n := range []int{17, 32, 33, 64, 257} {
		var ops []string
		for i := 0; i < n; i++ {
			ops = append(ops, "a:"+strRunes(fmt.Sprintf("v%d", i)))
		}
		ops = append(ops, "l:"+strRunes("fresh"), "f:"+strRunes("FRESH"), "l:"+strRunes("Fresh"), "f:"+strRunes("v0"), "f:"+strRunes(fmt.Sprintf("V%d", n-1)),
			"n:"+strRunes("v1"), "f:"+strRunes("v2"), "l:"+strRunes("v1"), "f:"+strRunes("v1"), "r:0", "f:"+strRunes(fmt.Sprintf("v%d", n-1)), "l:"+strRunes("another"), "f:"+strRunes("another"))
		runCollCase(c, ops)
	}
}

// the same compiled expression evaluated with different function tables in turn: each evaluation uses the
// table it was given (what a fresh calculator gives with that table)
func propScaleFunctionTables(c *Ctx) {
	mk := func(k int) *functions.FunctionCollection {
		fc := functions.NewFunctionCollection()
		if k == 0 {
			return fc // no functions at all
		}
		fc.Add(functions.NewDelegatedFunction("F", func(p []*variants.Variant, o variants.IVariantOperations) (*variants.Variant, error) {
			return variants.VariantFromInteger(10 * k), nil
		}))
		fc.Add(functions.NewDelegatedFunction("G", func(p []*variants.Variant, o variants.IVariantOperations) (*variants.Variant, error) {
			return variants.VariantFromInteger(k), nil
		}))
		return fc
	}
	for _, expr := range []string{"F() + G()", "F(1) * 2", "G() + 1 + F()", "Max(F(), 3)"} {
		for _, seq := range [][]int{{1, 1, 2, 0, 1, 2}, {0, 1, 0}, {2, 1}} {
			op := fmt.Sprintf("ftables %s %v", strRunes(expr), seq)
			c.record(op, true)
			c.count("function-table-sequence")
			var note string
			st := safeCallT(5*time.Second, func() string {
				calc := calculator.NewExpressionCalculator()
				calc.SetExpression(expr)
				for i, k := range seq {
					tbl := mk(k)
					if strings.HasPrefix(expr, "Max") && k != 0 {
						tbl.Add(functions.NewDefaultFunctionCollection().FindByName("Max"))
					}
					got := outcome(calc.EvaluateUsingVariablesAndFunctions(nil, tbl))
					fresh := calculator.NewExpressionCalculator()
					fresh.SetExpression(expr)
					want := outcome(fresh.EvaluateUsingVariablesAndFunctions(nil, tbl))
					if got != want && note == "" {
						note = fmt.Sprintf("evaluation #%d with function table %d gives %s; a calculator that never saw another table gives %s", i, k, got, want)
					}
				}
				return ""
			})
			if st != "" || note != "" {
				c.fail(Failure{Kind: "oracle", Op: op, Impl: st, Note: note})
			}
		}
	}
}
