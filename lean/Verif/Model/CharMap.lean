/-
Model of /repo/tokenizers/utilities/CharReferenceMap.go (+ CharReferenceInterval.go), after the
`fix:` repair of Lookup (returns the stored reference, not the accessor method value).

A reference is `Option α`: `none` is Go's `nil` reference ("disable this range").
-/
import Verif.Model.Scanner

namespace Verif

structure CharMap (α : Type) where
  /-- Go `initialInterval`: 256 entries for U+0000 … U+00FF. -/
  initial : List (Option α)
  /-- Go `otherIntervals` (most recent first): `(start, end, reference)`. -/
  others : List (Nat × Nat × Option α)

namespace CharMap
variable {α : Type}

/-- Go `Clear` / `NewCharReferenceMap`. -/
def empty : CharMap α := { initial := List.replicate 256 none, others := [] }

/-- the loop `for index := start; index < 0x100 && index <= end; index++ { initial[index] = ref }`
as structural recursion over the list with a running index. -/
def setRange (ref : Option α) (lo hi : Nat) : Nat → List (Option α) → List (Option α)
  | _, [] => []
  | i, x :: xs => (if lo ≤ i ∧ i ≤ hi then ref else x) :: setRange ref lo hi (i+1) xs

/-- Go's clamp `if end >= 0xffff { end = 0xfffe }`. -/
def clampEnd (hi : Nat) : Nat := if hi ≥ 0xffff then 0xfffe else hi

/-- The inputs on which Go's `AddInterval` does not panic. -/
def addOk (lo hi : Nat) : Bool :=
  lo ≤ hi && (!(clampEnd hi ≥ 0x100) || (max lo 0x100) ≤ clampEnd hi)

/-- Go `AddInterval` (on inputs where it does not panic; see `addOk`). -/
def add (m : CharMap α) (lo hi : Nat) (ref : Option α) : CharMap α :=
  let hi' := clampEnd hi
  let ini := setRange ref lo hi' 0 m.initial
  if hi' ≥ 0x100 then
    { initial := ini, others := (max lo 0x100, hi', ref) :: m.others }
  else
    { initial := ini, others := m.others }

def addDefault (m : CharMap α) (ref : Option α) : CharMap α := m.add 0 0xfffe ref

def findOther (c : Nat) : List (Nat × Nat × Option α) → Option α
  | [] => none
  | (lo, hi, r) :: rest => if lo ≤ c ∧ c ≤ hi then r else findOther c rest

/-- Go `Lookup` for a non-negative symbol. -/
def lookup (m : CharMap α) (c : Nat) : Option α :=
  if c < 0x100 then (m.initial[c]?).join else findOther c m.others

/-- Go `Lookup` including the EOF (`-1`) case. -/
def lookupO (m : CharMap α) : Option Nat → Option α
  | none => none
  | some c => m.lookup c

end CharMap

/-- Registration histories. -/
inductive MapOp (α : Type) where
  | add (lo hi : Nat) (ref : Option α)
  | addDefault (ref : Option α)
  | clear

namespace MapOp
variable {α : Type}

def ok : MapOp α → Bool
  | .add lo hi _ => CharMap.addOk lo hi
  | .addDefault _ => true
  | .clear => true

def apply (m : CharMap α) : MapOp α → CharMap α
  | .add lo hi r => m.add lo hi r
  | .addDefault r => m.addDefault r
  | .clear => CharMap.empty

def run (m : CharMap α) (h : List (MapOp α)) : CharMap α := h.foldl apply m

/-- SPEC: the reference of the most recent registration (after the last clear) whose clamped
range contains `c`; `d` is the answer when the (reversed, i.e. newest-first) history is
exhausted. -/
def specRevD (d : Option α) (c : Nat) : List (MapOp α) → Option α
  | [] => d
  | .clear :: _ => none
  | .addDefault r :: rest => if c ≤ 0xfffe then r else specRevD d c rest
  | .add lo hi r :: rest => if lo ≤ c ∧ c ≤ CharMap.clampEnd hi then r else specRevD d c rest

/-- SPEC for a history given oldest-first, starting from the empty map. -/
def spec (h : List (MapOp α)) (c : Nat) : Option α := specRevD none c h.reverse

end MapOp
end Verif
