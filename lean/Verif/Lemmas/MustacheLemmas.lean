/-
Helper lemmas for property C10 (Mustache templates): escaping, equations of the section parser,
parsing of flattened reference trees, error propagation, the lexical state machine, `getVariable`.
-/
import Verif.Spec.Template
import Verif.Lemmas.ValueLemmas

namespace Verif

/-! ### escaping -/


theorem replaceRune_flatMap (c : Rune) (rep : List Rune) (s : List Rune) (f : Rune → List Rune) :
    replaceRune c rep (s.flatMap f) = s.flatMap (fun x => replaceRune c rep (f x)) := by
  simp [replaceRune, List.flatMap_assoc]

theorem replaceRune_nil (c : Rune) (rep : List Rune) : replaceRune c rep [] = [] := rfl

theorem replaceRune_cons (c : Rune) (rep : List Rune) (x : Rune) (s : List Rune) :
    replaceRune c rep (x :: s) = (if x = c then rep else [x]) ++ replaceRune c rep s := by
  simp [replaceRune, List.flatMap_cons]

theorem replaceRune_single_ne {c x : Rune} (rep : List Rune) (h : x ≠ c) :
    replaceRune c rep [x] = [x] := by
  simp [replaceRune, h]

/-- the eight sequential replacements on a single rune -/
theorem escapeSeq_single (x : Rune) :
    replaceRune 9 [92, 116] (replaceRune 13 [92, 114] (replaceRune 10 [92, 110] (replaceRune 12 [92, 102]
      (replaceRune 8 [92, 98] (replaceRune 47 [92, 47] (replaceRune 34 [92, 34] (replaceRune 92 [92, 92] [x])))))))
    = escRune x := by
  by_cases h1 : x = 92
  · subst h1; rfl
  by_cases h2 : x = 34
  · subst h2; rfl
  by_cases h3 : x = 47
  · subst h3; rfl
  by_cases h4 : x = 8
  · subst h4; rfl
  by_cases h5 : x = 12
  · subst h5; rfl
  by_cases h6 : x = 10
  · subst h6; rfl
  by_cases h7 : x = 13
  · subst h7; rfl
  by_cases h8 : x = 9
  · subst h8; rfl
  rw [replaceRune_single_ne _ h1, replaceRune_single_ne _ h2, replaceRune_single_ne _ h3,
    replaceRune_single_ne _ h4, replaceRune_single_ne _ h5, replaceRune_single_ne _ h6,
    replaceRune_single_ne _ h7, replaceRune_single_ne _ h8]
  simp [escRune, h1, h2, h3, h4, h5, h6, h7, h8]

theorem escapeSeq_eq_escapeStr (s : List Rune) : escapeSeq s = escapeStr s := by
  unfold escapeSeq escapeStr
  split
  · rename_i h; simp at h; subst h; rfl
  · have h0 : s = s.flatMap (fun x => [x]) := by simp
    conv => lhs; rw [h0]
    simp only [replaceRune_flatMap, escapeSeq_single]


/-! ### equations of the section parser -/

theorem parseSection_zero (v : List Rune) (toks : List MFlat) :
    parseSection 0 v toks = .error .outOfFuel := by
  unfold parseSection; rfl

theorem parseSection_nil (f : Nat) (v : List Rune) :
    parseSection (f+1) v [] = .error .notClosedSection := by
  unfold parseSection; rfl

theorem parseSection_end (f : Nat) (v e : List Rune) (rest : List MFlat) :
    parseSection (f+1) v (⟨.sectionEnd, e⟩ :: rest) =
      if e == v || e == [] then .ok (.nil, rest) else .error .unexpectedSectionEnd := by
  rw [parseSection.eq_def]; simp

theorem parseSection_leaf (f : Nat) (v : List Rune) (t : MFlat) (rest : List MFlat)
    (h1 : t.typ ≠ .sectionEnd) (h2 : isSection t.typ = false) :
    parseSection (f+1) v (t :: rest) =
      match parseSection f v rest with
      | .error e => .error e
      | .ok (sibs, rest2) => .ok (.cons (.mk t.typ t.value .nil) sibs, rest2) := by
  rw [parseSection.eq_def]; simp only [h1, h2, beq_iff_eq, if_false]
  rfl

theorem parseSection_sec (f : Nat) (v : List Rune) (t : MFlat) (rest : List MFlat)
    (h2 : isSection t.typ = true) (h3 : rest ≠ []) :
    parseSection (f+1) v (t :: rest) =
      match parseSection f t.value rest with
      | .error e => .error e
      | .ok (kids, rest1) =>
        match parseSection f v rest1 with
        | .error e => .error e
        | .ok (sibs, rest2) => .ok (.cons (.mk t.typ t.value kids) sibs, rest2) := by
  have h1 : t.typ ≠ .sectionEnd := by
    intro h; rw [h] at h2; simp [isSection] at h2
  rw [parseSection.eq_def]; simp only [h1, h2, beq_iff_eq, if_false, if_true]
  cases rest with
  | nil => exact absurd rfl h3
  | cons a b => rfl

theorem parseTop_zero (toks : List MFlat) : parseTop 0 toks = .error .outOfFuel := by
  unfold parseTop; rfl

theorem parseTop_nil (f : Nat) : parseTop (f+1) [] = .ok .nil := by
  unfold parseTop; rfl

theorem parseTop_end (f : Nat) (e : List Rune) (rest : List MFlat) :
    parseTop (f+1) (⟨.sectionEnd, e⟩ :: rest) = .error .unexpectedSectionEnd := by
  rw [parseTop.eq_def]; simp

theorem parseTop_leaf (f : Nat) (t : MFlat) (rest : List MFlat)
    (h1 : t.typ ≠ .sectionEnd) (h2 : isSection t.typ = false) :
    parseTop (f+1) (t :: rest) =
      match parseTop f rest with
      | .error e => .error e
      | .ok sibs => .ok (.cons (.mk t.typ t.value .nil) sibs) := by
  rw [parseTop.eq_def]; simp only [h1, h2, beq_iff_eq, if_false]
  rfl

theorem parseTop_sec_nil (f : Nat) (t : MFlat) (h2 : isSection t.typ = true) :
    parseTop (f+1) [t] = .error .unexpectedEnd := by
  have h1 : t.typ ≠ .sectionEnd := by
    intro h; rw [h] at h2; simp [isSection] at h2
  rw [parseTop.eq_def]; simp only [h1, h2, beq_iff_eq, if_false, if_true]

theorem parseTop_sec (f : Nat) (t : MFlat) (rest : List MFlat)
    (h2 : isSection t.typ = true) (h3 : rest ≠ []) :
    parseTop (f+1) (t :: rest) =
      match parseSection f t.value rest with
      | .error e => .error e
      | .ok (kids, rest1) =>
        match parseTop f rest1 with
        | .error e => .error e
        | .ok sibs => .ok (.cons (.mk t.typ t.value kids) sibs) := by
  have h1 : t.typ ≠ .sectionEnd := by
    intro h; rw [h] at h2; simp [isSection] at h2
  rw [parseTop.eq_def]; simp only [h1, h2, beq_iff_eq, if_false, if_true]
  cases rest with
  | nil => exact absurd rfl h3
  | cons a b => rfl

theorem isSection_secTyp (inv : Bool) : isSection (secTyp inv) = true := by
  cases inv <;> rfl

theorem secTyp_ne_end (inv : Bool) : secTyp inv ≠ .sectionEnd := by
  cases inv <;> simp [secTyp]

/-- the body of a section, its end tag (by name or anonymous), and whatever follows -/
theorem parseSection_flatten (ns : TNodes) :
    ∀ (f : Nat) (name e : List Rune) (rest : List MFlat), (e = name ∨ e = []) →
      (flatten ns).length + 1 ≤ f →
      parseSection f name (flatten ns ++ ⟨.sectionEnd, e⟩ :: rest) = .ok (toMToks ns, rest) := by
  induction ns using flatten.induct with
  | case1 =>
    intro f name e rest he hf
    cases f with
    | zero => omega
    | succ f =>
      simp only [flatten, List.nil_append, toMToks]
      rw [parseSection_end]
      rcases he with he | he <;> simp [he]
  | case2 s r ih =>
    intro f name e rest he hf
    simp only [flatten, List.length_cons] at hf
    cases f with
    | zero => omega
    | succ f =>
      simp only [flatten, List.cons_append, toMToks]
      rw [parseSection_leaf _ _ _ _ (by simp) (by simp [isSection]), ih f name e rest he (by omega)]
  | case3 s r ih =>
    intro f name e rest he hf
    simp only [flatten, List.length_cons] at hf
    cases f with
    | zero => omega
    | succ f =>
      simp only [flatten, List.cons_append, toMToks]
      rw [parseSection_leaf _ _ _ _ (by simp) (by simp [isSection]), ih f name e rest he (by omega)]
  | case4 s r ih =>
    intro f name e rest he hf
    simp only [flatten, List.length_cons] at hf
    cases f with
    | zero => omega
    | succ f =>
      simp only [flatten, List.cons_append, toMToks]
      rw [parseSection_leaf _ _ _ _ (by simp) (by simp [isSection]), ih f name e rest he (by omega)]
  | case5 r ih =>
    intro f name e rest he hf
    simp only [flatten, List.length_cons] at hf
    cases f with
    | zero => omega
    | succ f =>
      simp only [flatten, List.cons_append, toMToks]
      rw [parseSection_leaf _ _ _ _ (by simp) (by simp [isSection]), ih f name e rest he (by omega)]
  | case6 inv nm body cbn r ihb ihr =>
    intro f name e rest he hf
    simp only [flatten, List.length_cons, List.length_append] at hf
    cases f with
    | zero => omega
    | succ f =>
      simp only [flatten, List.cons_append, List.append_assoc, toMToks]
      rw [parseSection_sec _ _ _ _ (isSection_secTyp inv) (by simp)]
      simp only
      rw [ihb f nm (if cbn then nm else []) _ (by cases cbn <;> simp) (by omega)]
      simp only
      rw [ihr f name e rest he (by omega)]


/-- the leaf tokens: neither a section opener nor an end tag -/
def isLeaf (t : MFlat) : Prop := t.typ ≠ .sectionEnd ∧ isSection t.typ = false

/-- generic induction over `flatten ns ++ k`: a property of token lists that holds for `k` and is
stable under prepending a leaf token or a whole closed section -/
theorem flatten_append_induct (P : List MFlat → Prop) (ns : TNodes) (k : List MFlat)
    (base : P k)
    (leaf : ∀ t l, isLeaf t → P l → P (t :: l))
    (sec : ∀ (inv : Bool) (nm : List Rune) (body : TNodes) (cbn : Bool) (l : List MFlat), P l →
      P (⟨secTyp inv, nm⟩ :: (flatten body ++ ⟨.sectionEnd, if cbn then nm else []⟩ :: l))) :
    P (flatten ns ++ k) := by
  induction ns using flatten.induct with
  | case1 => exact base
  | case2 s r ih => exact leaf _ _ ⟨by simp, by simp [isSection]⟩ ih
  | case3 s r ih => exact leaf _ _ ⟨by simp, by simp [isSection]⟩ ih
  | case4 s r ih => exact leaf _ _ ⟨by simp, by simp [isSection]⟩ ih
  | case5 r ih => exact leaf _ _ ⟨by simp, by simp [isSection]⟩ ih
  | case6 inv nm body cbn r _ ihr =>
    simp only [flatten, List.cons_append, List.append_assoc]
    exact sec inv nm body cbn _ ihr

theorem parseTop_flatten (ns : TNodes) :
    ∀ (f : Nat), (flatten ns).length + 1 ≤ f → parseTop f (flatten ns) = .ok (toMToks ns) := by
  induction ns using flatten.induct with
  | case1 =>
    intro f hf
    cases f with
    | zero => omega
    | succ f => simp only [flatten, toMToks, parseTop_nil]
  | case2 s r ih =>
    intro f hf
    simp only [flatten, List.length_cons] at hf
    cases f with
    | zero => omega
    | succ f =>
      simp only [flatten, toMToks]
      rw [parseTop_leaf _ _ _ (by simp) (by simp [isSection]), ih f (by omega)]
  | case3 s r ih =>
    intro f hf
    simp only [flatten, List.length_cons] at hf
    cases f with
    | zero => omega
    | succ f =>
      simp only [flatten, toMToks]
      rw [parseTop_leaf _ _ _ (by simp) (by simp [isSection]), ih f (by omega)]
  | case4 s r ih =>
    intro f hf
    simp only [flatten, List.length_cons] at hf
    cases f with
    | zero => omega
    | succ f =>
      simp only [flatten, toMToks]
      rw [parseTop_leaf _ _ _ (by simp) (by simp [isSection]), ih f (by omega)]
  | case5 r ih =>
    intro f hf
    simp only [flatten, List.length_cons] at hf
    cases f with
    | zero => omega
    | succ f =>
      simp only [flatten, toMToks]
      rw [parseTop_leaf _ _ _ (by simp) (by simp [isSection]), ih f (by omega)]
  | case6 inv nm body cbn r _ ihr =>
    intro f hf
    simp only [flatten, List.length_cons, List.length_append] at hf
    cases f with
    | zero => omega
    | succ f =>
      simp only [flatten, toMToks]
      rw [parseTop_sec _ _ _ (isSection_secTyp inv) (by simp)]
      simp only
      rw [parseSection_flatten body f nm _ _ (by cases cbn <;> simp) (by omega)]
      simp only
      rw [ihr f (by omega)]

/-! ### error propagation through a well-formed prefix -/

/-- "rejected with error `e` by `parseTop` for every fuel that is large enough" -/
def TopRejects (e : MErr) (l : List MFlat) : Prop :=
  ∀ f, l.length + 1 ≤ f → parseTop f l = .error e

/-- "rejected with error `e` by `parseSection` (inside a section named `v`) for every fuel that
is large enough" -/
def SecRejects (v : List Rune) (e : MErr) (l : List MFlat) : Prop :=
  ∀ f, l.length + 1 ≤ f → parseSection f v l = .error e

theorem TopRejects.leaf {e : MErr} {l : List MFlat} (t : MFlat) (ht : isLeaf t)
    (h : TopRejects e l) : TopRejects e (t :: l) := by
  intro f hf
  simp only [List.length_cons] at hf
  cases f with
  | zero => omega
  | succ f => rw [parseTop_leaf _ _ _ ht.1 ht.2, h f (by omega)]

theorem TopRejects.closedSection {e : MErr} {l : List MFlat} (inv : Bool) (nm : List Rune)
    (body : TNodes) (cbn : Bool) (h : TopRejects e l) :
    TopRejects e (⟨secTyp inv, nm⟩ :: (flatten body ++ ⟨.sectionEnd, if cbn then nm else []⟩ :: l)) := by
  intro f hf
  simp only [List.length_cons, List.length_append] at hf
  cases f with
  | zero => omega
  | succ f =>
    rw [parseTop_sec _ _ _ (isSection_secTyp inv) (by simp)]
    simp only
    rw [parseSection_flatten body f nm _ _ (by cases cbn <;> simp) (by omega)]
    simp only
    rw [h f (by omega)]

/-- a well-formed prefix does not rescue a rejected rest (top level) -/
theorem TopRejects.prefix {e : MErr} {l : List MFlat} (ns : TNodes) (h : TopRejects e l) :
    TopRejects e (flatten ns ++ l) :=
  flatten_append_induct (TopRejects e) ns l h
    (fun t _ ht ih => ih.leaf t ht) (fun inv nm body cbn _ ih => ih.closedSection inv nm body cbn)

theorem SecRejects.leaf {v : List Rune} {e : MErr} {l : List MFlat} (t : MFlat) (ht : isLeaf t)
    (h : SecRejects v e l) : SecRejects v e (t :: l) := by
  intro f hf
  simp only [List.length_cons] at hf
  cases f with
  | zero => omega
  | succ f => rw [parseSection_leaf _ _ _ _ ht.1 ht.2, h f (by omega)]

theorem SecRejects.closedSection {v : List Rune} {e : MErr} {l : List MFlat} (inv : Bool)
    (nm : List Rune) (body : TNodes) (cbn : Bool) (h : SecRejects v e l) :
    SecRejects v e
      (⟨secTyp inv, nm⟩ :: (flatten body ++ ⟨.sectionEnd, if cbn then nm else []⟩ :: l)) := by
  intro f hf
  simp only [List.length_cons, List.length_append] at hf
  cases f with
  | zero => omega
  | succ f =>
    rw [parseSection_sec _ _ _ _ (isSection_secTyp inv) (by simp)]
    simp only
    rw [parseSection_flatten body f nm _ _ (by cases cbn <;> simp) (by omega)]
    simp only
    rw [h f (by omega)]

/-- a well-formed prefix does not rescue a rejected rest (inside a section) -/
theorem SecRejects.prefix {v : List Rune} {e : MErr} {l : List MFlat} (ns : TNodes)
    (h : SecRejects v e l) : SecRejects v e (flatten ns ++ l) :=
  flatten_append_induct (SecRejects v e) ns l h
    (fun t _ ht ih => ih.leaf t ht) (fun inv nm body cbn _ ih => ih.closedSection inv nm body cbn)

/-- an opened section whose body is rejected is rejected, inside a section … -/
theorem SecRejects.openSection {v n : List Rune} {e : MErr} {l : List MFlat} (inv : Bool)
    (hl : l ≠ []) (h : SecRejects n e l) : SecRejects v e (⟨secTyp inv, n⟩ :: l) := by
  intro f hf
  simp only [List.length_cons] at hf
  cases f with
  | zero => omega
  | succ f =>
    rw [parseSection_sec _ _ _ _ (isSection_secTyp inv) hl]
    simp only
    rw [h f (by omega)]

/-- … and at top level -/
theorem SecRejects.openTop {n : List Rune} {e : MErr} {l : List MFlat} (inv : Bool)
    (hl : l ≠ []) (h : SecRejects n e l) : TopRejects e (⟨secTyp inv, n⟩ :: l) := by
  intro f hf
  simp only [List.length_cons] at hf
  cases f with
  | zero => omega
  | succ f =>
    rw [parseTop_sec _ _ _ (isSection_secTyp inv) hl]
    simp only
    rw [h f (by omega)]

/-- an opening tag at the very end -/
theorem SecRejects.openEnd (v n : List Rune) (inv : Bool) :
    SecRejects v .unexpectedEnd [⟨secTyp inv, n⟩] := by
  intro f hf
  simp only [List.length_cons, List.length_nil] at hf
  cases f with
  | zero => omega
  | succ f =>
    rw [parseSection.eq_def]
    have h1 : secTyp inv ≠ .sectionEnd := secTyp_ne_end inv
    simp [h1, isSection_secTyp]

theorem TopRejects.openEnd (n : List Rune) (inv : Bool) :
    TopRejects .unexpectedEnd [⟨secTyp inv, n⟩] := by
  intro f hf
  simp only [List.length_cons, List.length_nil] at hf
  cases f with
  | zero => omega
  | succ f => exact parseTop_sec_nil f _ (isSection_secTyp inv)

/-- the end of the input inside a section -/
theorem SecRejects.nil (v : List Rune) : SecRejects v .notClosedSection [] := by
  intro f hf
  cases f with
  | zero => simp at hf
  | succ f => exact parseSection_nil f v

/-- an end tag with a different name -/
theorem SecRejects.mismatch (v x : List Rune) (rest : List MFlat) (h1 : x ≠ v) (h2 : x ≠ []) :
    SecRejects v .unexpectedSectionEnd (⟨.sectionEnd, x⟩ :: rest) := by
  intro f hf
  cases f with
  | zero => omega
  | succ f => rw [parseSection_end]; simp [h1, h2]

/-- an end tag at top level -/
theorem TopRejects.endTag (x : List Rune) (rest : List MFlat) :
    TopRejects .unexpectedSectionEnd (⟨.sectionEnd, x⟩ :: rest) := by
  intro f hf
  cases f with
  | zero => omega
  | succ f => exact parseTop_end f x rest

/-! ### unclosed sections, at any depth -/

/-- token lists in which every end tag closes a section but (when read as the body of an enclosing
section) the end of the input comes too early: a well-formed sequence, optionally followed by an
opened section that is never closed, and so on.  The index is the error the parser reports. -/
inductive OpenBody : List MFlat → MErr → Prop where
  | closed (ns : TNodes) : OpenBody (flatten ns) .notClosedSection
  | openedEnd (ns : TNodes) (inv : Bool) (n : List Rune) :
      OpenBody (flatten ns ++ [⟨secTyp inv, n⟩]) .unexpectedEnd
  | opened (ns : TNodes) (inv : Bool) (n : List Rune) (tail : List MFlat) (e : MErr) :
      tail ≠ [] → OpenBody tail e → OpenBody (flatten ns ++ ⟨secTyp inv, n⟩ :: tail) e

theorem OpenBody.err {l : List MFlat} {e : MErr} (h : OpenBody l e) :
    e = .notClosedSection ∨ e = .unexpectedEnd := by
  induction h with
  | closed ns => exact .inl rfl
  | openedEnd ns inv n => exact .inr rfl
  | opened ns inv n tail e _ _ ih => exact ih

theorem OpenBody.rejects {l : List MFlat} {e : MErr} (h : OpenBody l e) :
    ∀ v, SecRejects v e l := by
  induction h with
  | closed ns =>
    intro v
    have := (SecRejects.nil v).prefix ns
    simpa using this
  | openedEnd ns inv n => intro v; exact (SecRejects.openEnd v n inv).prefix ns
  | opened ns inv n tail e ht _ ih => intro v; exact ((ih n).openSection inv ht).prefix ns

/-- an unclosed section at top level (possibly with further unclosed sections inside) -/
theorem OpenBody.topRejects {l : List MFlat} {e : MErr} (h : OpenBody l e) (pre : TNodes)
    (inv : Bool) (n : List Rune) :
    ∃ e', (e' = .notClosedSection ∨ e' = .unexpectedEnd) ∧
      TopRejects e' (flatten pre ++ ⟨secTyp inv, n⟩ :: l) := by
  cases l with
  | nil => exact ⟨_, .inr rfl, (TopRejects.openEnd n inv).prefix pre⟩
  | cons a l => exact ⟨e, h.err, ((h.rejects n).openTop inv (by simp)).prefix pre⟩

/-! ### rendering -/

theorem renderToks_cons_ok (vars : List (List Rune × List Rune)) (t : MTok) (rest : MToks)
    (a b : List Rune) (h1 : renderTok vars t = .ok a) (h2 : renderToks vars rest = .ok b) :
    renderToks vars (.cons t rest) = .ok (a ++ b) := by
  rw [renderToks, h1, h2]


/-! ### the lexical state machine -/

def sym (v : List Rune) : Tok := ⟨TT.symbol, v, 0, 0⟩
def wrd (v : List Rune) : Tok := ⟨TT.word, v, 0, 0⟩
def ws : Tok := ⟨TT.whitespace, [32], 0, 0⟩

/-- the state between tags: state `value`, operator and variable registers cleared -/
def LexState.Ready (s : LexState) : Prop := s.st = .value ∧ s.op1 = [] ∧ s.op2 = [] ∧ s.var = []

/-- the state after a complete tag that produced the flat token `t` -/
def LexState.emit (s : LexState) (closing : List Rune) (t : MFlat) : LexState :=
  ⟨.value, closing, [], [], [], s.out ++ [t]⟩

theorem LexState.emit_ready (s : LexState) (c : List Rune) (t : MFlat) : (s.emit c t).Ready :=
  ⟨rfl, rfl, rfl, rfl⟩

/-- the two brace spellings -/
def Braces (o c : List Rune) : Prop := (o = sOpen2 ∧ c = sClose2) ∨ (o = sOpen3 ∧ c = sClose3)

/-- `{{x}}` is a variable, `{{{x}}}` an escaped variable -/
def varTyp (c : List Rune) : MT := if c = sClose3 then .escapedVariable else .variable

set_option linter.unusedSimpArgs false

/-- evaluate the state machine on a concrete tag -/
macro "lex_eval" : tactic => `(tactic|
  simp [lexAll, lexStep, lexClose, sym, wrd, ws, TT.symbol, TT.word, TT.special, TT.whitespace,
    isCloser, sOpen2, sOpen3, sClose2, sClose3, sBang, sSlash, sHash, sCaret, sIf, sUnless,
    LexState.emit, varTyp])

set_option hygiene false in
/-- destructure a ready state and the brace spelling -/
macro "lex_start" s:ident h:ident hb:ident : tactic => `(tactic|
  (obtain ⟨st, closing, op1, op2, var, out⟩ := $s
   obtain ⟨h1, h2, h3, h4⟩ := $h
   simp only at h1 h2 h3 h4
   subst h1 h2 h3 h4
   obtain ⟨rfl, rfl⟩ | ⟨rfl, rfl⟩ := $hb))

theorem lexStep_pos (s : LexState) (ty : Nat) (v : List Rune) (l c : Nat) :
    lexStep s ⟨ty, v, l, c⟩ = lexStep s ⟨ty, v, 0, 0⟩ := rfl

/-- whitespace is skipped in every state -/
theorem lexStep_whitespace (s : LexState) (t : Tok) (ht : t.typ = TT.whitespace)
    (hv : isCloser t.value = false) : lexStep s t = .ok s := by
  unfold lexStep
  simp only [ht, hv]
  by_cases hc : s.st = .comment <;> simp [hc, TT.whitespace, TT.special, TT.symbol, TT.word]

theorem lexStep_ws (s : LexState) : lexStep s ws = .ok s :=
  lexStep_whitespace s ws rfl (by decide)

theorem lexAll_append (s : LexState) (a b : List Tok) :
    lexAll s (a ++ b) = match lexAll s a with
      | .error e => .error e
      | .ok s' => lexAll s' b := by
  induction a generalizing s with
  | nil => rfl
  | cons t a ih =>
    simp only [List.cons_append, lexAll]
    cases lexStep s t with
    | error e => rfl
    | ok s' => exact ih s'

/-- a whitespace token (that is not made of closing braces) -/
def isWsTok (t : Tok) : Bool := t.typ == TT.whitespace && !isCloser t.value

/-- whitespace tokens may be inserted anywhere, also inside tags -/
theorem lexAll_filter_ws (s : LexState) (toks : List Tok) :
    lexAll s toks = lexAll s (toks.filter (fun t => !isWsTok t)) := by
  induction toks generalizing s with
  | nil => rfl
  | cons t ts ih =>
    by_cases h : isWsTok t = true
    · have h' := h
      simp only [isWsTok, Bool.and_eq_true, beq_iff_eq, Bool.not_eq_true'] at h'
      simp only [lexAll, lexStep_whitespace s t h'.1 h'.2, List.filter_cons, h, Bool.not_true]
      exact ih s
    · simp only [Bool.not_eq_true] at h
      simp only [List.filter_cons, h, Bool.not_false, if_true, lexAll]
      cases lexStep s t with
      | error e => rfl
      | ok s' => exact ih s'

/-- inside a comment everything but closing braces is skipped -/
theorem lexAll_comment_skip (s : LexState) (h : s.st = .comment) (junk : List Tok)
    (hj : ∀ t ∈ junk, isCloser t.value = false) : lexAll s junk = .ok s := by
  induction junk with
  | nil => rfl
  | cons t ts ih =>
    have h1 : lexStep s t = .ok s := by
      unfold lexStep
      simp [h, hj t (List.mem_cons_self)]
    simp only [lexAll, h1]
    exact ih (fun t' ht' => hj t' (List.mem_cons_of_mem _ ht'))

/-! #### between tags the registers are always cleared -/

def LexState.Inv (s : LexState) : Prop := s.st = .value → s.Ready

theorem lexClose_inv (s : LexState) (v : List Rune) (s' : LexState)
    (h : lexClose s v = .ok s') : s'.Ready := by
  unfold lexClose at h
  split at h
  · cases h
  · have key : ∀ t : MT, (if t == .unknown then (.error .internal : Except MErr LexState)
        else .ok { s with st := .value, op1 := [], op2 := [], var := [],
                          out := s.out ++ [⟨t, if t == .comment then [] else s.var⟩] }) = .ok s' →
        s'.Ready := by
      intro t ht
      split at ht
      · cases ht
      · cases ht; exact ⟨rfl, rfl, rfl, rfl⟩
    exact key _ h

theorem lexStep_inv (s : LexState) (t : Tok) (s' : LexState) (hi : s.Inv)
    (h : lexStep s t = .ok s') : s'.Inv := by
  obtain ⟨st, cl, o1, o2, vr, out⟩ := s
  cases st <;> simp [lexStep] at h <;> (repeat' split at h) <;>
    first
    | (cases h; done)
    | (cases h; intro hv; cases hv; done)
    | (exact fun _ => lexClose_inv _ _ _ h)
    | (cases h; intro hv; exact hi hv)

theorem lexAll_inv (toks : List Tok) (s s' : LexState) (hi : s.Inv)
    (h : lexAll s toks = .ok s') : s'.Inv := by
  induction toks generalizing s with
  | nil => cases h; exact hi
  | cons t ts ih =>
    simp only [lexAll] at h
    cases hs : lexStep s t with
    | error e => rw [hs] at h; cases h
    | ok s1 => rw [hs] at h; exact ih s1 (lexStep_inv s t s1 hi hs) h

/-- whenever the state machine is between tags, the registers are cleared -/
theorem lexAll_ready (toks : List Tok) (s : LexState) (h : lexAll {} toks = .ok s)
    (hv : s.st = .value) : s.Ready :=
  lexAll_inv toks {} s (fun _ => ⟨rfl, rfl, rfl, rfl⟩) h hv

/-! ### `getVariable` -/

abbrev Vars := List (List Rune × List Rune)

/-- the keys of a Go map are pairwise distinct -/
def DistinctKeys (vars : Vars) : Prop := (vars.map Prod.fst).Nodup

/-- the running minimum of `getVariable` -/
def minKey (m : List Rune × List Rune) (rest : Vars) : List Rune × List Rune :=
  rest.foldl (fun best e => if strLt e.1 best.1 then e else best) m

theorem minKey_nil (m : List Rune × List Rune) : minKey m [] = m := rfl

theorem minKey_cons_lt (m x : List Rune × List Rune) (rest : Vars) (h : strLt x.1 m.1 = true) :
    minKey m (x :: rest) = minKey x rest := by
  simp only [minKey, List.foldl_cons, h, if_true]

theorem minKey_cons_ge (m x : List Rune × List Rune) (rest : Vars) (h : strLt x.1 m.1 = false) :
    minKey m (x :: rest) = minKey m rest := by
  simp [minKey, List.foldl_cons, h]

theorem minKey_mem (m : List Rune × List Rune) (rest : Vars) : minKey m rest ∈ m :: rest := by
  induction rest generalizing m with
  | nil => simp [minKey]
  | cons e rest ih =>
    cases h : strLt e.1 m.1 with
    | true =>
      rw [minKey_cons_lt _ _ _ h]
      exact List.mem_cons_of_mem _ (ih e)
    | false =>
      rw [minKey_cons_ge _ _ _ h]
      have := ih m
      simp only [List.mem_cons] at this ⊢
      rcases this with h' | h'
      · exact .inl h'
      · exact .inr (.inr h')

/-- `a ≤ b` in the lexicographic order -/
def strLe (a b : List Rune) : Prop := strLt b a = false

theorem strLe_refl (a : List Rune) : strLe a a := strLt_irrefl a

theorem strLe_trans {a b c : List Rune} (h1 : strLe a b) (h2 : strLe b c) : strLe a c := by
  unfold strLe at *
  cases h : strLt c a with
  | false => rfl
  | true =>
    -- c < a, a ≤ b  ⇒  c < b, contradiction with b ≤ c
    rcases strLt_total a b with hab | hab | hab
    · rw [strLt_trans h hab] at h2; cases h2
    · subst hab; rw [h] at h2; cases h2
    · rw [hab] at h1; cases h1

theorem strLe_antisymm {a b : List Rune} (h1 : strLe a b) (h2 : strLe b a) : a = b := by
  unfold strLe at *
  rcases strLt_total a b with h | h | h
  · rw [h] at h2; cases h2
  · exact h
  · rw [h] at h1; cases h1

theorem minKey_le_start (m : List Rune × List Rune) (rest : Vars) : strLe (minKey m rest).1 m.1 := by
  induction rest generalizing m with
  | nil => exact strLe_refl _
  | cons e rest ih =>
    cases h : strLt e.1 m.1 with
    | true =>
      rw [minKey_cons_lt _ _ _ h]
      exact strLe_trans (ih e) (strLt_asymm h)
    | false =>
      rw [minKey_cons_ge _ _ _ h]
      exact ih m

theorem minKey_le (m : List Rune × List Rune) (rest : Vars) :
    ∀ e ∈ m :: rest, strLe (minKey m rest).1 e.1 := by
  induction rest generalizing m with
  | nil =>
    intro e he
    simp only [List.mem_singleton] at he
    subst he
    exact strLe_refl _
  | cons x rest ih =>
    intro e he
    simp only [List.mem_cons] at he
    cases h : strLt x.1 m.1 with
    | true =>
      rw [minKey_cons_lt _ _ _ h]
      rcases he with he | he | he
      · subst he; exact strLe_trans (minKey_le_start x rest) (strLt_asymm h)
      · subst he; exact minKey_le_start _ rest
      · exact ih x e (List.mem_cons_of_mem _ he)
    | false =>
      rw [minKey_cons_ge _ _ _ h]
      rcases he with he | he | he
      · subst he; exact minKey_le_start _ rest
      · subst he; exact strLe_trans (minKey_le_start m rest) h
      · exact ih m e (List.mem_cons_of_mem _ he)

theorem getVariable_def (vars : Vars) (name : List Rune) :
    getVariable vars name =
      if name.isEmpty then none
      else match vars.find? (fun e => e.1 == name) with
        | some e => some e.2
        | none =>
          match vars.filter (fun e => lowerFullStr e.1 == lowerFullStr name) with
          | [] => none
          | m :: rest => some (minKey m rest).2 := rfl

theorem DistinctKeys.eq_of_key_eq {vars : Vars} (hd : DistinctKeys vars)
    {e e' : List Rune × List Rune} (he : e ∈ vars) (he' : e' ∈ vars) (hk : e.1 = e'.1) : e = e' := by
  induction vars with
  | nil => cases he
  | cons x vs ih =>
    simp only [DistinctKeys, List.map_cons, List.nodup_cons, List.mem_map, not_exists, not_and] at hd
    simp only [List.mem_cons] at he he'
    rcases he with rfl | he <;> rcases he' with rfl | he'
    · rfl
    · exact absurd hk.symm (hd.1 e' he')
    · exact absurd hk (hd.1 e he)
    · exact ih hd.2 he he'

theorem DistinctKeys.perm {vars vars' : Vars} (hd : DistinctKeys vars) (hp : vars.Perm vars') :
    DistinctKeys vars' :=
  (hp.map Prod.fst).nodup_iff.mp hd

/-- the candidates of the case-insensitive lookup -/
def matches_ (vars : Vars) (name : List Rune) : Vars :=
  vars.filter (fun e => lowerFullStr e.1 == lowerFullStr name)

/-- `e` is the entry the case-insensitive lookup must choose: a match whose key is `≤` the key
of every match -/
def IsBest (vars : Vars) (name : List Rune) (e : List Rune × List Rune) : Prop :=
  e ∈ vars ∧ lowerFullStr e.1 = lowerFullStr name ∧
    ∀ e' ∈ vars, lowerFullStr e'.1 = lowerFullStr name → strLe e.1 e'.1

theorem IsBest.unique {vars : Vars} {name : List Rune} (hd : DistinctKeys vars)
    {e e' : List Rune × List Rune} (h : IsBest vars name e) (h' : IsBest vars name e') : e = e' :=
  hd.eq_of_key_eq h.1 h'.1 (strLe_antisymm (h.2.2 e' h'.1 h'.2.1) (h'.2.2 e h.1 h.2.1))

theorem minKey_isBest (vars : Vars) (name : List Rune) (m : List Rune × List Rune) (rest : Vars)
    (h : vars.filter (fun e => lowerFullStr e.1 == lowerFullStr name) = m :: rest) :
    IsBest vars name (minKey m rest) := by
  have hm := minKey_mem m rest
  rw [← h, List.mem_filter, beq_iff_eq] at hm
  refine ⟨hm.1, hm.2, ?_⟩
  intro e' he' hl
  apply minKey_le m rest e'
  rw [← h, List.mem_filter, beq_iff_eq]
  exact ⟨he', hl⟩

/-- full characterisation of `getVariable` -/
theorem getVariable_spec (vars : Vars) (name : List Rune) :
    (name = [] ∧ getVariable vars name = none) ∨
    (name ≠ [] ∧ ∃ e ∈ vars, e.1 = name ∧ getVariable vars name = some e.2) ∨
    (name ≠ [] ∧ (∀ e ∈ vars, e.1 ≠ name) ∧
      (∀ e ∈ vars, lowerFullStr e.1 ≠ lowerFullStr name) ∧ getVariable vars name = none) ∨
    (name ≠ [] ∧ (∀ e ∈ vars, e.1 ≠ name) ∧
      ∃ e, IsBest vars name e ∧ getVariable vars name = some e.2) := by
  rw [getVariable_def]
  cases name with
  | nil => exact .inl ⟨rfl, rfl⟩
  | cons c cs =>
    right
    simp only [List.isEmpty_cons, Bool.false_eq_true, if_false]
    cases hf : vars.find? (fun e => e.1 == c :: cs) with
    | some e =>
      left
      refine ⟨by simp, e, List.mem_of_find?_eq_some hf, ?_, rfl⟩
      have := List.find?_some hf
      simpa using this
    | none =>
      right
      have hne : ∀ e ∈ vars, e.1 ≠ c :: cs := by
        intro e he
        have := List.find?_eq_none.mp hf e he
        simpa using this
      cases hm : vars.filter (fun e => lowerFullStr e.1 == lowerFullStr (c :: cs)) with
      | nil =>
        left
        refine ⟨by simp, hne, ?_, rfl⟩
        intro e he hl
        have : e ∈ vars.filter (fun e => lowerFullStr e.1 == lowerFullStr (c :: cs)) := by
          rw [List.mem_filter, beq_iff_eq]; exact ⟨he, hl⟩
        rw [hm] at this
        cases this
      | cons m rest =>
        right
        exact ⟨by simp, hne, minKey m rest, minKey_isBest vars _ m rest hm, rfl⟩

/-- the result does not depend on the order of the entries (a Go map has no order) -/
theorem getVariable_perm {vars vars' : Vars} (hd : DistinctKeys vars) (hp : vars.Perm vars')
    (name : List Rune) : getVariable vars name = getVariable vars' name := by
  have hd' := hd.perm hp
  have isBest_perm : ∀ e, IsBest vars name e → IsBest vars' name e := by
    intro e ⟨h1, h2, h3⟩
    exact ⟨hp.mem_iff.mp h1, h2, fun e' he' => h3 e' (hp.mem_iff.mpr he')⟩
  rcases getVariable_spec vars name with ⟨hn, h⟩ | ⟨hn, e, he, hk, h⟩ | ⟨hn, hne, hnl, h⟩ | ⟨hn, hne, e, hb, h⟩ <;>
  rcases getVariable_spec vars' name with ⟨hn', h'⟩ | ⟨hn', e', he', hk', h'⟩ | ⟨hn', hne', hnl', h'⟩ | ⟨hn', hne', e', hb', h'⟩
  all_goals first
    | (rw [h, h']; done)
    | exact absurd hn hn'
    | exact absurd hn' hn
    | skip
  · have : e = e' := hd.eq_of_key_eq he (hp.mem_iff.mpr he') (hk.trans hk'.symm)
    rw [h, h', this]
  · exact absurd hk (hne' e (hp.mem_iff.mp he))
  · exact absurd hk (hne' e (hp.mem_iff.mp he))
  · exact absurd hk' (hne e' (hp.mem_iff.mpr he'))
  · exact absurd hb'.2.1 (hnl e' (hp.mem_iff.mpr hb'.1))
  · exact absurd hk' (hne e' (hp.mem_iff.mpr he'))
  · exact absurd hb.2.1 (hnl' e (hp.mem_iff.mp hb.1))
  · rw [h, h', IsBest.unique hd' (isBest_perm e hb) hb']

end Verif
