/-
Helper lemmas for the text-level end-to-end theorem (Props/C01Text.lean):

* §A  `strings.ToUpper` is the identity below `a` (one kernel evaluation of the generated case
      table), hence operator lookup on canonical spellings is a plain table search;
* §B  the parser is parametric in the token payloads (`Parser.p0_map`: all 14 functions commute
      with a token map that keeps types and names), and the evaluator reads the payload of
      Constant tokens only (`run_map_congr`);
* §C  integer constants: a non-negative `Int64` is the decoding of its own decimal digits, and a
      digit string is an Integer lexeme of the expression tokenizer;
* §D  `trimBlank`, lexemes separated by blank runs (`interleave`): they cannot merge
      (`separated_interleave`), and lexical analysis of the tokenizer's output under the parser's
      options yields exactly the expected expression tokens (`lexAnalysis_interleave`);
* §E  a copy of Lemmas/Totality.lean §1-§2 (evaluator correctness with the argument-count round
      trip required only below a bound) under new names (`…T`, `argcBelow`): Totality cannot be
      imported next to Props/C13 (`Verif.isWs` is defined both in Spec/Lexemes.lean and in
      Lemmas/MustacheLemmas.lean).
-/
import Verif.Model.Pipeline
import Verif.Lemmas.ParserEqns
import Verif.Model.ExprEval
import Verif.Props.C01Lit
import Verif.Lemmas.LexNum
import Verif.Props.C13
import Verif.Props.C15
import Verif.Props.C01

/-! # §A case table and operator lookup -/

namespace Verif

/-- `strings.ToUpper` leaves every rune below `a` alone (one kernel evaluation of the generated
case table) -/
theorem upperFull_lt97 : ∀ c, c < 97 → upperFull c = c := by decide +kernel

theorem upperFullStr_id (v : List Rune) (h : ∀ c ∈ v, c < 97) : upperFullStr v = v := by
  induction v with
  | nil => rfl
  | cons c v ih =>
    simp only [upperFullStr, List.map_cons] at ih ⊢
    rw [upperFull_lt97 c (h c List.mem_cons_self), ih (fun x hx => h x (List.mem_cons_of_mem _ hx))]

/-- operator lookup on a spelling without lower-case letters: plain table search -/
theorem lookupOperator_upper (v : List Rune) (h : ∀ c ∈ v, c < 97) :
    lookupOperator v = (operatorTable.find? (fun e => strOf e.1 == v)).map (·.2) := by
  rw [lookupOperator, upperFullStr_id v h]

end Verif

/-! # §B the parser and the evaluator do not read Variable payloads -/

namespace Verif
variable {κ : Type}

namespace Parser

/-- a token map the parser cannot observe: token type and name kept, the tokens the parser
itself emits (payload-free ones and Function tokens) fixed -/
structure TokMap (g : ETok κ → ETok κ) : Prop where
  typ : ∀ t, (g t).typ = t.typ
  name : ∀ t, (g t).name = t.name
  plain : ∀ ty n, g ⟨ty, [], none, n⟩ = ⟨ty, [], none, n⟩
  fn : ∀ nm, g ⟨.function, nm, none, 0⟩ = ⟨.function, nm, none, 0⟩

def mapSt (g : ETok κ → ETok κ) (st : PState κ) : PState κ :=
  ⟨st.rest.map g, st.out.map g, st.vars⟩

def mapStN (g : ETok κ → ETok κ) (r : PState κ × Nat) : PState κ × Nat := (mapSt g r.1, r.2)

def mapE {α : Type} (φ : α → α) : Except PErr α → Except PErr α
  | .error e => .error e
  | .ok x => .ok (φ x)

theorem mapE_andThen {α β : Type} (φ : α → α) (ψ : β → β) (a : Except PErr α)
    (k k' : α → Except PErr β) (h : ∀ x, k' (φ x) = mapE ψ (k x)) :
    andThen (mapE φ a) k' = mapE ψ (andThen a k) := by
  cases a with
  | error e => rfl
  | ok x => exact h x

theorem mapE_ite {α : Type} (φ : α → α) (c : Prop) [Decidable c] (a b : Except PErr α) :
    mapE φ (if c then a else b) = if c then mapE φ a else mapE φ b := by
  split <;> rfl

theorem ite_congr2 {α : Type} {c : Prop} [Decidable c] {a a' b b' : α} (h1 : a = a') (h2 : b = b') :
    (if c then a else b) = (if c then a' else b') := by rw [h1, h2]

variable {g : ETok κ → ETok κ}

theorem mapSt_emit (hg : TokMap g) (st : PState κ) (ty : ET) :
    emit (mapSt g st) ty = mapSt g (emit st ty) := by
  simp only [emit, mapSt, List.map_append, List.map_cons, List.map_nil, hg.plain]

theorem mapSt_emitTok (st : PState κ) (t : ETok κ) :
    emitTok (mapSt g st) (g t) = mapSt g (emitTok st t) := by
  simp only [emitTok, mapSt, List.map_append, List.map_cons, List.map_nil]

theorem matchTypes_map (hg : TokMap g) (tys : List ET) (rest : List (ETok κ)) :
    matchTypes tys (rest.map g) = (matchTypes tys rest).map (List.map g) := by
  have h : (List.map (fun x => x.typ) (List.take tys.length (List.map g rest))) =
      (List.map (fun x => x.typ) (List.take tys.length rest)) := by
    rw [← List.map_take, List.map_map]
    congr 1
    funext x
    exact hg.typ x
  rw [matchTypes_spec, matchTypes_spec, h]
  split
  · simp [List.map_drop]
  · rfl

/-- all 14 functions commute with the token map at fuel `f` -/
structure NatAt (g : ETok κ → ETok κ) (f : Nat) : Prop where
  p0 : ∀ st : PState κ, p0 f (mapSt g st) = mapE (mapSt g) (p0 f st)
  p0loop : ∀ st : PState κ, p0loop f (mapSt g st) = mapE (mapSt g) (p0loop f st)
  p1 : ∀ st : PState κ, p1 f (mapSt g st) = mapE (mapSt g) (p1 f st)
  p2 : ∀ st : PState κ, p2 f (mapSt g st) = mapE (mapSt g) (p2 f st)
  p2loop : ∀ st : PState κ, p2loop f (mapSt g st) = mapE (mapSt g) (p2loop f st)
  p3 : ∀ st : PState κ, p3 f (mapSt g st) = mapE (mapSt g) (p3 f st)
  p3loop : ∀ st : PState κ, p3loop f (mapSt g st) = mapE (mapSt g) (p3loop f st)
  p4 : ∀ st : PState κ, p4 f (mapSt g st) = mapE (mapSt g) (p4 f st)
  p4loop : ∀ st : PState κ, p4loop f (mapSt g st) = mapE (mapSt g) (p4loop f st)
  p5 : ∀ st : PState κ, p5 f (mapSt g st) = mapE (mapSt g) (p5 f st)
  p5loop : ∀ st : PState κ, p5loop f (mapSt g st) = mapE (mapSt g) (p5loop f st)
  p6 : ∀ st : PState κ, p6 f (mapSt g st) = mapE (mapSt g) (p6 f st)
  p6prim : ∀ st : PState κ, p6prim f (mapSt g st) = mapE (mapSt g) (p6prim f st)
  pArgs : ∀ (st : PState κ) (n : Nat), pArgs f (mapSt g st) n = mapE (mapStN g) (pArgs f st n)

theorem natAt_zero (g : ETok κ → ETok κ) : NatAt g 0 := by
  constructor <;> intros <;> simp [Parser.p0, Parser.p0loop, Parser.p1, Parser.p2,
    Parser.p2loop, Parser.p3, Parser.p3loop, Parser.p4, Parser.p4loop, Parser.p5, Parser.p5loop,
    Parser.p6, Parser.p6prim, Parser.pArgs, mapE]

/-- the shape shared by the entry functions of levels 0, 2, 3, 4, 5 -/
theorem entry_nat (sub loop : PState κ → PRes κ)
    (hsub : ∀ st, sub (mapSt g st) = mapE (mapSt g) (sub st))
    (hloop : ∀ st, loop (mapSt g st) = mapE (mapSt g) (loop st)) (st : PState κ) :
    (if (mapSt g st).rest.isEmpty then .error .unexpectedEnd else andThen (sub (mapSt g st)) loop) =
      mapE (mapSt g) (if st.rest.isEmpty then .error .unexpectedEnd else andThen (sub st) loop) := by
  have he : (mapSt g st).rest.isEmpty = st.rest.isEmpty := by simp [mapSt]
  rw [he, mapE_ite, hsub]
  exact ite_congr2 rfl (mapE_andThen _ _ _ _ _ hloop)

/-- the shape shared by the loops of levels 0, 2, 4, 5 -/
theorem loop_nat (hg : TokMap g) (ops : List ET) (sub loop : PState κ → PRes κ)
    (hsub : ∀ st, sub (mapSt g st) = mapE (mapSt g) (sub st))
    (hloop : ∀ st, loop (mapSt g st) = mapE (mapSt g) (loop st)) (st : PState κ) :
    (match (mapSt g st).rest with
      | [] => .ok (mapSt g st)
      | t :: rest =>
        if ops.contains t.typ then
          andThen (sub { mapSt g st with rest := rest }) (fun st1 => loop (emit st1 t.typ))
        else .ok (mapSt g st)) =
      mapE (mapSt g) (match st.rest with
      | [] => .ok st
      | t :: rest =>
        if ops.contains t.typ then
          andThen (sub { st with rest := rest }) (fun st1 => loop (emit st1 t.typ))
        else .ok st) := by
  obtain ⟨rest, out, vars⟩ := st
  cases rest with
  | nil => rfl
  | cons t rest =>
    simp only [mapSt, List.map_cons, hg.typ]
    rw [mapE_ite]
    refine ite_congr2 ?_ rfl
    rw [show sub ⟨rest.map g, out.map g, vars⟩ = mapE (mapSt g) (sub ⟨rest, out, vars⟩) from
      hsub ⟨rest, out, vars⟩]
    refine mapE_andThen _ _ _ _ _ ?_
    intro x
    rw [mapSt_emit hg, hloop]


theorem natAt_succ (hg : TokMap g) (f : Nat) (ih : NatAt g f) : NatAt g (f+1) := by
  constructor
  · intro st; rw [p0_succ, p0_succ]; exact entry_nat _ _ ih.p1 ih.p0loop st
  · intro st; rw [p0loop_succ, p0loop_succ]; exact loop_nat hg ops0 _ _ ih.p1 ih.p0loop st
  · -- p1
    intro st; rw [p1_succ, p1_succ]
    obtain ⟨rest, out, vars⟩ := st
    cases rest with
    | nil => rfl
    | cons t rest =>
      simp only [mapSt, List.map_cons, hg.typ]
      rw [mapE_ite]
      refine ite_congr2 ?_ (ih.p2 ⟨t :: rest, out, vars⟩)
      rw [show p2 f ⟨rest.map g, out.map g, vars⟩ = mapE (mapSt g) (p2 f ⟨rest, out, vars⟩) from
        ih.p2 ⟨rest, out, vars⟩]
      refine mapE_andThen _ _ _ _ _ ?_
      intro x
      rw [mapSt_emit hg]; rfl
  · intro st; rw [p2_succ, p2_succ]; exact entry_nat _ _ ih.p3 ih.p2loop st
  · intro st; rw [p2loop_succ, p2loop_succ]; exact loop_nat hg ops2 _ _ ih.p3 ih.p2loop st
  · intro st; rw [p3_succ, p3_succ]; exact entry_nat _ _ ih.p4 ih.p3loop st
  · -- p3loop
    intro st; rw [p3loop_succ, p3loop_succ]
    obtain ⟨rest, out, vars⟩ := st
    cases rest with
    | nil => rfl
    | cons t rest =>
      simp only [mapSt, List.map_cons, hg.typ]
      rw [mapE_ite]
      refine ite_congr2 ?_ ?_
      · rw [show p4 f ⟨rest.map g, out.map g, vars⟩ = mapE (mapSt g) (p4 f ⟨rest, out, vars⟩) from
          ih.p4 ⟨rest, out, vars⟩]
        refine mapE_andThen _ _ _ _ _ ?_
        intro x
        rw [mapSt_emit hg, ih.p3loop]
      · unfold p3extra
        have hm : ∀ tys, matchTypes tys (g t :: rest.map g) =
            (matchTypes tys (t :: rest)).map (List.map g) := by
          intro tys
          rw [← List.map_cons, matchTypes_map hg]
        simp only [hm]
        have hp4 : ∀ r : List (ETok κ), p4 f ⟨r.map g, out.map g, vars⟩ =
            mapE (mapSt g) (p4 f ⟨r, out, vars⟩) := fun r => ih.p4 ⟨r, out, vars⟩
        have hk : ∀ ty (x : PState κ), p3loop f (emit (mapSt g x) ty) =
            mapE (mapSt g) (p3loop f (emit x ty)) := by
          intro ty x; rw [mapSt_emit hg, ih.p3loop]
        cases matchTypes [.not, .like] (t :: rest) with
        | some r =>
          simp only [Option.map_some]
          rw [hp4]
          exact mapE_andThen _ _ _ _ _ (hk _)
        | none =>
          simp only [Option.map_none]
          cases matchTypes [.is, .null] (t :: rest) with
          | some r =>
            simp only [Option.map_some]
            exact hk _ ⟨r, out, vars⟩
          | none =>
            simp only [Option.map_none]
            cases matchTypes [.is, .not, .null] (t :: rest) with
            | some r =>
              simp only [Option.map_some]
              exact hk _ ⟨r, out, vars⟩
            | none =>
              simp only [Option.map_none]
              cases matchTypes [.not, .in_] (t :: rest) with
              | some r =>
                simp only [Option.map_some]
                rw [hp4]
                exact mapE_andThen _ _ _ _ _ (hk _)
              | none => rfl
  · intro st; rw [p4_succ, p4_succ]; exact entry_nat _ _ ih.p5 ih.p4loop st
  · intro st; rw [p4loop_succ, p4loop_succ]; exact loop_nat hg ops4 _ _ ih.p5 ih.p4loop st
  · intro st; rw [p5_succ, p5_succ]; exact entry_nat _ _ ih.p6 ih.p5loop st
  · intro st; rw [p5loop_succ, p5loop_succ]; exact loop_nat hg ops5 _ _ ih.p6 ih.p5loop st
  · -- p6
    intro st; rw [p6_succ, p6_succ]
    have hhead : p6head f (mapSt g st) = mapE (mapSt g) (p6head f st) := by
      unfold p6head
      obtain ⟨rest, out, vars⟩ := st
      cases rest with
      | nil => rfl
      | cons t rest =>
        simp only [mapSt, List.map_cons, hg.typ]
        have : (if (t.typ == ET.plus || t.typ == ET.minus) = true then
              ({ rest := rest.map g, out := out.map g, vars := vars } : PState κ)
            else { rest := g t :: rest.map g, out := out.map g, vars := vars }) =
            mapSt g (if (t.typ == ET.plus || t.typ == ET.minus) = true then
              { rest := rest, out := out, vars := vars }
            else { rest := t :: rest, out := out, vars := vars }) := by
          split <;> rfl
        rw [this, ih.p6prim]
        refine mapE_andThen _ _ _ _ _ ?_
        intro x
        split
        · rw [mapSt_emit hg]; rfl
        · rfl
    rw [hhead]
    refine mapE_andThen _ _ _ _ _ ?_
    intro st3
    unfold p6tail
    obtain ⟨rest, out, vars⟩ := st3
    cases rest with
    | nil => rfl
    | cons t rest =>
      simp only [mapSt, List.map_cons, hg.typ]
      rw [mapE_ite]
      refine ite_congr2 ?_ rfl
      rw [show p0 f ⟨rest.map g, out.map g, vars⟩ = mapE (mapSt g) (p0 f ⟨rest, out, vars⟩) from
        ih.p0 ⟨rest, out, vars⟩]
      refine mapE_andThen _ _ _ _ _ ?_
      intro st4
      unfold closeSquare
      obtain ⟨rest4, out4, vars4⟩ := st4
      cases rest4 with
      | nil => rfl
      | cons c rest4 =>
        simp only [mapSt, List.map_cons, hg.typ]
        rw [mapE_ite]
        refine ite_congr2 ?_ rfl
        exact congrArg Except.ok (mapSt_emit hg ⟨rest4, out4, vars4⟩ .element)
  · -- p6prim
    intro st; rw [p6prim_succ, p6prim_succ]
    obtain ⟨rest, out, vars⟩ := st
    cases rest with
    | nil => rfl
    | cons p rest =>
      have hhd : (List.map g rest).head?.map (·.typ) = rest.head?.map (·.typ) := by
        cases rest with
        | nil => rfl
        | cons a r => simp [hg.typ]
      simp only [mapSt, List.map_cons, hg.typ, hhd, hg.name]
      rw [mapE_ite, mapE_ite, mapE_ite, mapE_ite]
      refine ite_congr2 ?_ (ite_congr2 ?_ (ite_congr2 ?_ (ite_congr2 ?_ rfl)))
      · rw [show pArgs f ⟨List.drop 1 (rest.map g), out.map g, vars⟩ 0 =
            mapE (mapStN g) (pArgs f ⟨List.drop 1 rest, out, vars⟩ 0) from by
          rw [← List.map_drop]; exact ih.pArgs ⟨List.drop 1 rest, out, vars⟩ 0]
        refine mapE_andThen _ _ _ _ _ ?_
        intro r
        unfold closeCall
        obtain ⟨⟨rest1, out1, vars1⟩, n⟩ := r
        cases rest1 with
        | nil => rfl
        | cons c rest1 =>
          simp only [mapStN, mapSt, List.map_cons, hg.typ, hg.name]
          rw [mapE_ite]
          refine ite_congr2 ?_ rfl
          refine congrArg Except.ok ?_
          simp only [emitTok, mapSt, List.map_append, List.map_cons, List.map_nil, hg.plain, hg.fn]
      · exact congrArg Except.ok (mapSt_emitTok ⟨rest, out, vars⟩ p)
      · exact congrArg Except.ok (mapSt_emitTok ⟨rest, out, addVar vars p.name⟩ p)
      · rw [show p0 f ⟨rest.map g, out.map g, vars⟩ = mapE (mapSt g) (p0 f ⟨rest, out, vars⟩) from
          ih.p0 ⟨rest, out, vars⟩]
        refine mapE_andThen _ _ _ _ _ ?_
        intro st1
        unfold closeParen
        obtain ⟨rest1, out1, vars1⟩ := st1
        cases rest1 with
        | nil => rfl
        | cons c rest1 =>
          simp only [mapSt, List.map_cons, hg.typ]
          rw [mapE_ite]
          exact ite_congr2 rfl rfl
  · -- pArgs
    intro st n; rw [pArgs_succ, pArgs_succ]
    obtain ⟨rest, out, vars⟩ := st
    cases rest with
    | nil => rfl
    | cons t rest =>
      simp only [mapSt, List.map_cons, hg.typ]
      rw [mapE_ite]
      refine ite_congr2 rfl ?_
      rw [show p0 f ⟨g t :: rest.map g, out.map g, vars⟩ =
          mapE (mapSt g) (p0 f ⟨t :: rest, out, vars⟩) from ih.p0 ⟨t :: rest, out, vars⟩]
      refine mapE_andThen _ _ _ _ _ ?_
      intro st1
      unfold argsNext
      obtain ⟨rest1, out1, vars1⟩ := st1
      cases rest1 with
      | nil => rfl
      | cons c rest1 =>
        simp only [mapSt, List.map_cons, hg.typ]
        rw [mapE_ite]
        exact ite_congr2 (ih.pArgs ⟨rest1, out1, vars1⟩ (n + 1)) rfl

theorem natAt (hg : TokMap g) (f : Nat) : NatAt g f := by
  induction f with
  | zero => exact natAt_zero g
  | succ f ih => exact natAt_succ hg f ih

/-- **the parser is parametric in the token payloads**: mapping the input tokens with a map that
keeps types and names (and fixes the tokens the parser itself creates) maps the result -/
theorem p0_map (hg : TokMap g) (f : Nat) (st : PState κ) :
    p0 f (mapSt g st) = mapE (mapSt g) (p0 f st) := (natAt hg f).p0 st

end Parser

/-! ### the evaluator reads the payload of Constant tokens only -/

theorem evalStep_congr {V : Type} (env : EvalEnv κ V) (t t' : ETok κ) (h1 : t'.typ = t.typ)
    (h2 : t'.name = t.name) (h3 : t'.argc = t.argc) (h4 : t.typ = .constant → t'.cst = t.cst)
    (st : List V) : evalStep env t' st = evalStep env t st := by
  obtain ⟨ty, nm, c, a⟩ := t
  obtain ⟨ty', nm', c', a'⟩ := t'
  simp only at h1 h2 h3 h4
  subst h1; subst h2; subst h3
  cases ty' with
  | constant => rw [h4 rfl]
  | _ => rfl

theorem run_map_congr {V : Type} (env : EvalEnv κ V) (g : ETok κ → ETok κ)
    (hg : ∀ t st, evalStep env (g t) st = evalStep env t st) :
    ∀ (prog : List (ETok κ)) (st : List V), run env (prog.map g) st = run env prog st
  | [], st => rfl
  | t :: ts, st => by
    simp only [List.map_cons, run, hg]
    congr 1
    funext st'
    exact run_map_congr env g hg ts st'

end Verif

/-! # §C integer constants -/

namespace Verif

/-! ### integer constants as lexemes -/

theorem natDigits_digits (n : Nat) : ∀ c ∈ natDigits n, isDigitR c = true :=
  List.all_eq_true.mp (natDigits_all n)

/-- a non-negative `Int64` is the decoding of its own digits -/
theorem decodeInt_int64 (i : Int64) (h : 0 ≤ i.toInt) :
    decodeInt (natDigits i.toInt.toNat) = some i := by
  have hlt := Int64.toInt_lt i
  rw [decodeInt_natDigits_lt (by omega)]
  congr 1
  apply Int64.toInt_inj.mp
  rw [Int64.toInt_ofNat_of_lt (by omega)]
  omega

/-- a digit string is an (unsigned) integer lexeme of the expression tokenizer in front of
anything that is not a digit, `.`, `e` or `E` -/
theorem numShapeE_digits (ds : List Rune) (hne : ds ≠ []) (hd : ∀ c ∈ ds, isDigitR c = true)
    (nx : Option Rune) (hnx : !headIs isDigit nx && nx != some 46 && nx != some 101 && nx != some 69) :
    numShapeE TT.integer ds nx = true := by
  have hall : allDigits ds = true := by
    rw [allDigits_iff]
    intro x hx
    exact hd x hx
  have hok : (⟨[], ds, false, []⟩ : NumShape).ok = true := by
    cases ds with
    | nil => exact absurd rfl hne
    | cons a t =>
      simp [NumShape.ok, allDigits]
      exact ⟨hd a List.mem_cons_self, fun x hx => hd x (List.mem_cons_of_mem _ hx)⟩
  have hp := parseNum_text ⟨[], ds, false, []⟩ [] hok (by simp [NumShape.boundary, headIs])
  simp only [NumShape.text, List.nil_append, Bool.false_eq_true, if_false, List.append_nil] at hp
  simp only [Bool.and_eq_true] at hnx
  simp only [numShapeE, hp, hok, NumShape.text, NumShape.typ, NumShape.boundary, Bool.and_eq_true]
  simp [hnx.1.1.1, hnx.1.1.2, hnx.1.2, hnx.2]

end Verif

/-! # §D blank-separated lexemes -/

namespace Verif

/-! ### `trimBlank` -/

theorem dropWhile_head_false {α : Type} (p : α → Bool) (l : List α) (c : α)
    (h : l.head? = some c) (hc : p c = false) : l.dropWhile p = l := by
  cases l with
  | nil => cases h
  | cons a t =>
    simp only [List.head?_cons, Option.some.injEq] at h
    subst h
    simp [List.dropWhile, hc]

/-- trimming is the identity on a text that starts and ends with a non-blank rune -/
theorem trimBlank_id (s : List Rune) (c d : Rune) (h1 : s.head? = some c) (hc : isBlankR c = false)
    (h2 : s.getLast? = some d) (hd : isBlankR d = false) : trimBlank s = s := by
  unfold trimBlank
  rw [dropWhile_head_false isBlankR s c h1 hc,
    dropWhile_head_false isBlankR s.reverse d (by rw [List.head?_reverse]; exact h2) hd,
    List.reverse_reverse]

/-! ### lexemes separated by blank runs -/

/-- a non-empty run of blanks, tabs, carriage returns and line feeds -/
def blankRun (w : List Rune) : Bool := !w.isEmpty && w.all isBlankR

def wsLex (w : List Rune) : Lexeme := ⟨TT.whitespace, w, none⟩

/-- the lexemes `ls` with a whitespace lexeme in every gap: the i-th gap is `ws[i]`, a single
blank once `ws` has run out -/
def interleave : List Lexeme → List (List Rune) → List Lexeme
  | [], _ => []
  | [l], _ => [l]
  | l :: l' :: ls, [] => l :: wsLex [32] :: interleave (l' :: ls) []
  | l :: l' :: ls, w :: ws => l :: wsLex w :: interleave (l' :: ls) ws

/-- the i-th gap -/
def gapHead (ws : List (List Rune)) : List Rune := ws.head?.getD [32]

theorem interleave_cons2 (l l' : Lexeme) (ls : List Lexeme) (ws : List (List Rune)) :
    interleave (l :: l' :: ls) ws = l :: wsLex (gapHead ws) :: interleave (l' :: ls) ws.tail := by
  cases ws <;> rfl

theorem blankRun_gapHead (ws : List (List Rune)) (h : ∀ w ∈ ws, blankRun w = true) :
    blankRun (gapHead ws) = true := by
  cases ws with
  | nil => decide
  | cons w ws => exact h w List.mem_cons_self

theorem blankRun_tail (ws : List (List Rune)) (h : ∀ w ∈ ws, blankRun w = true) :
    ∀ w ∈ ws.tail, blankRun w = true := fun w hw => h w (List.mem_of_mem_tail hw)

theorem isBlankR_isWs (c : Rune) (h : isBlankR c = true) : isWs c = true := by
  simp only [isBlankR, Bool.or_eq_true, beq_iff_eq] at h
  rcases h with ((h | h) | h) | h <;> subst h <;> decide

theorem blankRun_cases (w : List Rune) (h : blankRun w = true) :
    ∃ c w', w = c :: w' ∧ isBlankR c = true ∧ ∀ x ∈ w', isBlankR x = true := by
  cases w with
  | nil => simp [blankRun] at h
  | cons c w' =>
    simp only [blankRun, List.isEmpty_cons, Bool.not_false, Bool.true_and, List.all_cons,
      Bool.and_eq_true, List.all_eq_true] at h
    exact ⟨c, w', rfl, h.1, h.2⟩

/-- a blank run in front of a rune that is not whitespace is a whitespace lexeme -/
theorem lexOKE_wsLex (w : List Rune) (h : blankRun w = true) (nx : Option Rune)
    (hnx : headIs isWs nx = false) : lexOKE (wsLex w) nx = true := by
  obtain ⟨c, w', rfl, hc, hw'⟩ := blankRun_cases w h
  have h1 : wsShape (c :: w') = true := by
    simp only [wsShape, Bool.and_eq_true, List.all_eq_true]
    exact ⟨isBlankR_isWs c hc, fun x hx => isBlankR_isWs x (hw' x hx)⟩
  simp [lexOKE, wsLex, h1, hnx]

/-- what the text pipeline needs from one non-blank lexeme `l` that stands for the expression
token `et` -/
structure TokLexOK (l : Lexeme) (et : ETok V) : Prop where
  notWs : l.typ ≠ TT.whitespace
  notComment : l.typ ≠ TT.comment
  /-- well formed in front of a blank or the end of the text -/
  ok : ∀ nx : Option Rune, (∀ c, nx = some c → isBlankR c = true) → lexOKE l nx = true
  /-- the token made of it is analysed to `et` -/
  lex : ∀ ln col : Nat,
    lexTok ⟨l.typ, (match l.quote with
                    | some q => decodeFor expressionCfg q l.text
                    | none => l.text), ln, col⟩ = .ok (some et)
  /-- starts with a rune that is not whitespace … -/
  first : ∃ c, l.text.head? = some c ∧ isWs c = false
  /-- … and ends with one that is not a blank -/
  last : ∃ d, l.text.getLast? = some d ∧ isBlankR d = false

theorem lexText_cons' (l : Lexeme) (ls : List Lexeme) : lexText (l :: ls) = l.text ++ lexText ls := by
  simp [lexText]

theorem isWs_false_isBlankR (c : Rune) (h : isWs c = false) : isBlankR c = false := by
  cases hb : isBlankR c with
  | false => rfl
  | true => rw [isBlankR_isWs c hb] at h; cases h

/-- the text starts with the first rune of the first lexeme -/
theorem interleave_head (p : Lexeme × ETok V) (ps : List (Lexeme × ETok V))
    (hp : TokLexOK p.1 p.2) (ws : List (List Rune)) :
    ∃ c, (lexText (interleave ((p :: ps).map (·.1)) ws)).head? = some c ∧ isWs c = false := by
  obtain ⟨c, hc, hw⟩ := hp.first
  refine ⟨c, ?_, hw⟩
  have hne : p.1.text ≠ [] := by intro h; rw [h] at hc; cases hc
  cases ps with
  | nil =>
    simp only [List.map_cons, List.map_nil, interleave, lexText_cons']
    rw [List.head?_append, hc]; rfl
  | cons p' ps =>
    simp only [List.map_cons, interleave_cons2, lexText_cons']
    rw [List.head?_append, hc]; rfl

/-- … and ends with the last rune of the last one -/
theorem interleave_last : ∀ (ps : List (Lexeme × ETok V)), ps ≠ [] →
    (∀ p ∈ ps, TokLexOK p.1 p.2) → ∀ ws : List (List Rune),
    ∃ d, (lexText (interleave (ps.map (·.1)) ws)).getLast? = some d ∧ isBlankR d = false
  | [], h, _, _ => absurd rfl h
  | [p], _, hp, ws => by
    obtain ⟨d, hd, hb⟩ := (hp p List.mem_cons_self).last
    refine ⟨d, ?_, hb⟩
    simp only [List.map_cons, List.map_nil, interleave, lexText, List.flatten_cons,
      List.flatten_nil, List.append_nil]
    exact hd
  | p :: p' :: ps, _, hp, ws => by
    obtain ⟨d, hd, hb⟩ := interleave_last (p' :: ps) (List.cons_ne_nil _ _)
      (fun q hq => hp q (List.mem_cons_of_mem _ hq)) ws.tail
    refine ⟨d, ?_, hb⟩
    simp only [List.map_cons, interleave_cons2, lexText_cons'] at hd ⊢
    rw [List.getLast?_append, List.getLast?_append, hd]
    rfl

/-- **separation**: non-blank lexemes with blank runs in the gaps cannot merge -/
theorem separated_interleave : ∀ (ps : List (Lexeme × ETok V)),
    (∀ p ∈ ps, TokLexOK p.1 p.2) → ∀ ws : List (List Rune), (∀ w ∈ ws, blankRun w = true) →
    SeparatedE (interleave (ps.map (·.1)) ws)
  | [], _, _, _ => trivial
  | [p], hp, ws, _ => by
    refine ⟨?_, trivial⟩
    exact (hp p List.mem_cons_self).ok _ (fun c hc => by cases hc)
  | p :: p' :: ps, hp, ws, hws => by
    have ih := separated_interleave (p' :: ps) (fun q hq => hp q (List.mem_cons_of_mem _ hq))
      ws.tail (blankRun_tail ws hws)
    have hg := blankRun_gapHead ws hws
    simp only [List.map_cons, interleave_cons2] at ih ⊢
    refine ⟨?_, ?_, ih⟩
    · -- the lexeme in front of the gap
      apply (hp p List.mem_cons_self).ok
      intro c hc
      obtain ⟨c0, w', hw, hc0, _⟩ := blankRun_cases _ hg
      simp only [lexText_cons', wsLex, hw, List.cons_append, List.head?_cons,
        Option.some.injEq] at hc
      rw [← hc]; exact hc0
    · -- the gap in front of the next lexeme
      apply lexOKE_wsLex _ hg
      obtain ⟨c, hc, hw⟩ := interleave_head p' ps (hp p' (by simp)) ws.tail
      simp only [List.map_cons] at hc
      rw [hc]; exact hw

/-! ### the parser's tokenizer options on such a text -/

theorem processSpec_exprOpts (c : List Rune) (last : Nat) (r : RawTok)
    (h1 : r.typ ≠ TT.comment) (h2 : r.typ ≠ TT.whitespace ∨ last ≠ TT.whitespace) :
    processSpec expressionCfg exprOpts c last r =
      some ⟨r.typ, (match r.quote with
                    | some q => decodeFor expressionCfg q r.value
                    | none => r.value), (posOf c r.start).1, (posOf c r.start).2⟩ := by
  have h1' : (r.typ == TT.comment) = false := beq_false_of_ne h1
  have h2' : (r.typ == TT.whitespace && last == TT.whitespace) = false := by
    rcases h2 with h | h
    · rw [beq_false_of_ne h]; rfl
    · rw [beq_false_of_ne h, Bool.and_false]
  unfold processSpec
  simp only [exprOpts, Bool.and_false, Bool.false_eq_true, if_false, h1', Bool.false_and,
    Bool.and_true, h2', if_true]
  cases r.quote <;> rfl

/-- **lexical analysis of the tokenizer's output**: the blank runs survive tokenization (the
"skip whitespaces" option only drops a whitespace token that follows another one) and are
dropped by the lexical analysis; every other lexeme yields its expression token -/
theorem lexAnalysis_interleave (c : List Rune) : ∀ (ps : List (Lexeme × ETok V)),
    (∀ p ∈ ps, TokLexOK p.1 p.2) → ∀ (ws : List (List Rune)) (off last : Nat),
    lexAnalysis (postSpec expressionCfg exprOpts c last
      (expectRaw off (interleave (ps.map (·.1)) ws))) = .ok (ps.map (·.2))
  | [], _, _, _, _ => rfl
  | [p], hp, ws, off, last => by
    have h := hp p List.mem_cons_self
    simp only [List.map_cons, List.map_nil, interleave, expectRaw]
    rw [postSpec_cons, processSpec_exprOpts c last _ h.notComment (Or.inl h.notWs)]
    simp only [postSpec, lexAnalysis, h.lex]
  | p :: p' :: ps, hp, ws, off, last => by
    have h := hp p List.mem_cons_self
    have ih := lexAnalysis_interleave c (p' :: ps) (fun q hq => hp q (List.mem_cons_of_mem _ hq))
      ws.tail (off + p.1.text.length + (gapHead ws).length) TT.whitespace
    simp only [List.map_cons, interleave_cons2, expectRaw, wsLex] at ih ⊢
    rw [postSpec_cons, processSpec_exprOpts c last _ h.notComment (Or.inl h.notWs)]
    simp only
    rw [postSpec_cons, processSpec_exprOpts c p.1.typ ⟨TT.whitespace, (gapHead ws), _, none⟩
      (show TT.whitespace ≠ TT.comment by decide) (Or.inr h.notWs)]
    simp only
    rw [lexAnalysis, h.lex]
    simp only
    rw [lexAnalysis]
    have hws : ∀ v ln col, lexTok ⟨TT.whitespace, v, ln, col⟩ = .ok none := fun _ _ _ => rfl
    rw [hws]
    simp only
    rw [ih]

end Verif

/-! # §E bounded argument-count round trip (copy of Totality §1-§2) -/

namespace Verif

section boundedArgc
variable {κ V : Type}

/-! ## §1 compiler correctness with a bounded argument-count round trip -/

namespace Expr

mutual
/-- every call node of the tree has fewer than `N` written arguments -/
def argcBelow (N : Nat) : Expr κ → Bool
  | .const _ => true
  | .var _ => true
  | .paren e => argcBelow N e
  | .call _ args => decide (argsLength args < N) && argcBelowArgs N args
  | .neg e => argcBelow N e
  | .pos e => argcBelow N e
  | .index e i => argcBelow N e && argcBelow N i
  | .bin _ l r => argcBelow N l && argcBelow N r
  | .notLike l r => argcBelow N l && argcBelow N r
  | .notIn l r => argcBelow N l && argcBelow N r
  | .not e => argcBelow N e
  | .isNull e => argcBelow N e
  | .isNotNull e => argcBelow N e
def argcBelowArgs (N : Nat) : Args κ → Bool
  | .nil => true
  | .cons e rest => argcBelow N e && argcBelowArgs N rest
end

end Expr

/-- a Function token on a stack that holds the written arguments (last on top) under the count;
only the round trip of THIS count is needed -/
theorem evalStep_functionT (env : EvalEnv κ V) (name : List Rune) (vs st : List V)
    (hargc : env.asArgc (env.ofArgc vs.length) = some vs.length) :
    evalStep env ⟨.function, name, none, 0⟩ (env.ofArgc vs.length :: (vs.reverse ++ st)) =
      if env.hasFn name then (env.callFn name vs).bind fun r => .ok (r :: st)
      else .err "FUNC_NOT_FOUND" := by
  simp only [evalStep, hargc, popN_reverse]
  cases env.hasFn name <;> simp

open Expr in
mutual
/-- `run_postorder_bind` (Lemmas/EvalCorrect.lean) with the round trip of the argument count
required only below a bound `N` that dominates every argument count of the tree -/
theorem run_postorder_bindT (env : EvalEnv κ V) (N : Nat)
    (hargc : ∀ n, n < N → env.asArgc (env.ofArgc n) = some n) :
    ∀ (t : Expr κ), opsOk t = true → argcBelow N t = true → ∀ (k : List (ETok κ)) (st : List V),
      run env (t.postorder ++ k) st = (evalTree env t).bind fun v => run env k (v :: st)
  | .const c, _, _, k, st => by
    simp only [postorder, evalTree, List.cons_append, List.nil_append, run_cons, evalStep_const,
      Out.bind_ok]
  | .var n, _, _, k, st => by
    simp only [postorder, evalTree, List.cons_append, List.nil_append, run_cons, evalStep_var]
    cases env.lookupVar n <;> rfl
  | .paren e, h, hb, k, st => by
    simp only [opsOk] at h
    simp only [argcBelow] at hb
    simp only [postorder, evalTree]
    exact run_postorder_bindT env N hargc e h hb k st
  | .pos e, h, hb, k, st => by
    simp only [opsOk] at h
    simp only [argcBelow] at hb
    simp only [postorder, evalTree]
    exact run_postorder_bindT env N hargc e h hb k st
  | .call n args, h, hb, k, st => by
    simp only [opsOk] at h
    simp only [argcBelow, Bool.and_eq_true, decide_eq_true_eq] at hb
    simp only [postorder, evalTree, List.append_assoc, List.cons_append, List.nil_append]
    rw [run_postorderArgs_bindT env N hargc args h hb.2]
    cases ha : evalArgs env args with
    | err c => rfl
    | panic s => rfl
    | ok vs =>
      simp only [Out.bind_ok]
      have hlen := evalArgs_length env args vs ha
      rw [run_cons, evalStep_argc, Out.bind_ok, run_cons, ← hlen,
        evalStep_functionT env n vs st (hargc _ (by rw [hlen]; exact hb.1))]
      cases env.hasFn n
      · rfl
      · simp only [if_true, Out.bind_assoc, Out.bind_ok]
  | .neg e, h, hb, k, st => by
    simp only [opsOk] at h
    simp only [argcBelow] at hb
    simp only [postorder, evalTree, List.append_assoc, List.cons_append, List.nil_append]
    rw [run_postorder_bindT env N hargc e h hb, Out.bind_assoc]
    congr 1; funext v
    rw [run_cons, evalStep_tk_unary env .unary (by decide), Out.bind_assoc]
    simp only [Out.bind_ok]
  | .not e, h, hb, k, st => by
    simp only [opsOk] at h
    simp only [argcBelow] at hb
    simp only [postorder, evalTree, List.append_assoc, List.cons_append, List.nil_append]
    rw [run_postorder_bindT env N hargc e h hb, Out.bind_assoc]
    congr 1; funext v
    rw [run_cons, evalStep_tk_unary env .not (by decide), Out.bind_assoc]
    simp only [Out.bind_ok]
  | .isNull e, h, hb, k, st => by
    simp only [opsOk] at h
    simp only [argcBelow] at hb
    simp only [postorder, evalTree, List.append_assoc, List.cons_append, List.nil_append]
    rw [run_postorder_bindT env N hargc e h hb, Out.bind_assoc]
    congr 1; funext v
    rw [run_cons, evalStep_tk_unary env .isNull (by decide), Out.bind_assoc]
    simp only [Out.bind_ok]
  | .isNotNull e, h, hb, k, st => by
    simp only [opsOk] at h
    simp only [argcBelow] at hb
    simp only [postorder, evalTree, List.append_assoc, List.cons_append, List.nil_append]
    rw [run_postorder_bindT env N hargc e h hb, Out.bind_assoc]
    congr 1; funext v
    rw [run_cons, evalStep_tk_unary env .isNotNull (by decide), Out.bind_assoc]
    simp only [Out.bind_ok]
  | .index e i, h, hb, k, st => by
    simp only [opsOk, Bool.and_eq_true] at h
    simp only [argcBelow, Bool.and_eq_true] at hb
    simp only [postorder, evalTree, List.append_assoc, List.cons_append, List.nil_append]
    rw [run_postorder_bindT env N hargc e h.1 hb.1, Out.bind_assoc]
    congr 1; funext v
    rw [run_postorder_bindT env N hargc i h.2 hb.2, Out.bind_assoc]
    congr 1; funext w
    rw [run_cons, evalStep_tk_binary env .element (by decide), Out.bind_assoc]
    simp only [Out.bind_ok]
  | .notIn l r, h, hb, k, st => by
    simp only [opsOk, Bool.and_eq_true] at h
    simp only [argcBelow, Bool.and_eq_true] at hb
    simp only [postorder, evalTree, List.append_assoc, List.cons_append, List.nil_append]
    rw [run_postorder_bindT env N hargc l h.1 hb.1, Out.bind_assoc]
    congr 1; funext v
    rw [run_postorder_bindT env N hargc r h.2 hb.2, Out.bind_assoc]
    congr 1; funext w
    rw [run_cons, evalStep_tk_binary env .notIn (by decide), Out.bind_assoc]
    simp only [Out.bind_ok]
  | .notLike l r, h, hb, k, st => by
    simp only [opsOk, Bool.and_eq_true] at h
    simp only [argcBelow, Bool.and_eq_true] at hb
    simp only [postorder, evalTree, List.append_assoc, List.cons_append, List.nil_append]
    rw [run_postorder_bindT env N hargc l h.1 hb.1, Out.bind_assoc]
    congr 1; funext v
    rw [run_postorder_bindT env N hargc r h.2 hb.2, Out.bind_assoc]
    cases evalTree env r <;> rfl
  | .bin op l r, h, hb, k, st => by
    simp only [opsOk, Bool.and_eq_true, Option.isSome_iff_ne_none] at h
    simp only [argcBelow, Bool.and_eq_true] at hb
    simp only [postorder, evalTree, List.append_assoc, List.cons_append, List.nil_append]
    rw [run_postorder_bindT env N hargc l h.1.2 hb.1, Out.bind_assoc]
    congr 1; funext v
    rw [run_postorder_bindT env N hargc r h.2 hb.2, Out.bind_assoc]
    congr 1; funext w
    rw [run_cons, evalStep_tk_op env op h.1.1, Out.bind_assoc]
    simp only [Out.bind_ok]
theorem run_postorderArgs_bindT (env : EvalEnv κ V) (N : Nat)
    (hargc : ∀ n, n < N → env.asArgc (env.ofArgc n) = some n) :
    ∀ (a : Args κ), opsOkArgs a = true → argcBelowArgs N a = true →
      ∀ (k : List (ETok κ)) (st : List V),
      run env (postorderArgs a ++ k) st =
        (evalArgs env a).bind fun vs => run env k (vs.reverse ++ st)
  | .nil, _, _, k, st => by
    simp only [postorderArgs, evalArgs, List.nil_append, Out.bind_ok, List.reverse_nil]
  | .cons e rest, h, hb, k, st => by
    simp only [opsOkArgs, Bool.and_eq_true] at h
    simp only [argcBelowArgs, Bool.and_eq_true] at hb
    simp only [postorderArgs, evalArgs, List.append_assoc]
    rw [run_postorder_bindT env N hargc e h.1 hb.1, Out.bind_assoc]
    congr 1; funext v
    rw [run_postorderArgs_bindT env N hargc rest h.2 hb.2, Out.bind_assoc]
    congr 1; funext vs
    simp only [Out.bind_ok, List.reverse_cons, List.append_assoc, List.cons_append,
      List.nil_append]
end

/-- C01 (`C01_calc_eq_tree`) under the bounded round trip -/
theorem calc_eq_treeT (env : EvalEnv κ V) (N : Nat)
    (hargc : ∀ n, n < N → env.asArgc (env.ofArgc n) = some n)
    (t : Expr κ) (ht : Expr.opsOk t = true) (hb : Expr.argcBelow N t = true) :
    evaluate env t.postorder = Expr.evalTree env t := by
  have h := run_postorder_bindT env N hargc t ht hb [] []
  rw [List.append_nil] at h
  rw [evaluate, h]
  cases Expr.evalTree env t <;> rfl

/-! ## §2 the argument counts of a tree are bounded by the length of its token sequence -/

namespace Expr

theorem unparse_length_posT : ∀ t : Expr κ, 1 ≤ (unparse t).length := by
  intro t
  cases t <;> simp only [unparse, List.length_append, List.length_cons, List.length_nil] <;> omega

theorem unparseArgs_cons_lengthT (e : Expr κ) (rest : Args κ) :
    (unparse e).length + (unparseArgs rest).length ≤ (unparseArgs (.cons e rest)).length := by
  cases rest with
  | nil => simp only [unparseArgs, List.length_nil]; omega
  | cons e' r =>
    simp only [unparseArgs, List.length_append, List.length_cons, List.length_nil]; omega

theorem argsLength_leT : ∀ a : Args κ, argsLength a ≤ (unparseArgs a).length
  | .nil => by simp only [argsLength, unparseArgs, List.length_nil]; omega
  | .cons e rest => by
    have h1 := unparse_length_posT e
    have h2 := argsLength_leT rest
    have h3 := unparseArgs_cons_lengthT e rest
    simp only [argsLength]; omega

mutual
theorem argcBelow_of_length (N : Nat) : ∀ t : Expr κ, (unparse t).length < N → argcBelow N t = true
  | .const _, _ => rfl
  | .var _, _ => rfl
  | .paren e, h => by
    simp only [unparse, List.length_append, List.length_cons, List.length_nil] at h
    simp only [argcBelow]; exact argcBelow_of_length N e (by omega)
  | .call _ args, h => by
    simp only [unparse, List.length_append, List.length_cons, List.length_nil] at h
    have := argsLength_leT args
    simp only [argcBelow, Bool.and_eq_true, decide_eq_true_eq]
    exact ⟨by omega, argcBelowArgs_of_length N args (by omega)⟩
  | .neg e, h => by
    simp only [unparse, List.length_append, List.length_cons, List.length_nil] at h
    simp only [argcBelow]; exact argcBelow_of_length N e (by omega)
  | .pos e, h => by
    simp only [unparse, List.length_append, List.length_cons, List.length_nil] at h
    simp only [argcBelow]; exact argcBelow_of_length N e (by omega)
  | .index e i, h => by
    simp only [unparse, List.length_append, List.length_cons, List.length_nil] at h
    simp only [argcBelow, Bool.and_eq_true]
    exact ⟨argcBelow_of_length N e (by omega), argcBelow_of_length N i (by omega)⟩
  | .bin _ l r, h => by
    simp only [unparse, List.length_append, List.length_cons, List.length_nil] at h
    simp only [argcBelow, Bool.and_eq_true]
    exact ⟨argcBelow_of_length N l (by omega), argcBelow_of_length N r (by omega)⟩
  | .notLike l r, h => by
    simp only [unparse, List.length_append, List.length_cons, List.length_nil] at h
    simp only [argcBelow, Bool.and_eq_true]
    exact ⟨argcBelow_of_length N l (by omega), argcBelow_of_length N r (by omega)⟩
  | .notIn l r, h => by
    simp only [unparse, List.length_append, List.length_cons, List.length_nil] at h
    simp only [argcBelow, Bool.and_eq_true]
    exact ⟨argcBelow_of_length N l (by omega), argcBelow_of_length N r (by omega)⟩
  | .not e, h => by
    simp only [unparse, List.length_append, List.length_cons, List.length_nil] at h
    simp only [argcBelow]; exact argcBelow_of_length N e (by omega)
  | .isNull e, h => by
    simp only [unparse, List.length_append, List.length_cons, List.length_nil] at h
    simp only [argcBelow]; exact argcBelow_of_length N e (by omega)
  | .isNotNull e, h => by
    simp only [unparse, List.length_append, List.length_cons, List.length_nil] at h
    simp only [argcBelow]; exact argcBelow_of_length N e (by omega)
theorem argcBelowArgs_of_length (N : Nat) :
    ∀ a : Args κ, (unparseArgs a).length < N → argcBelowArgs N a = true
  | .nil, _ => rfl
  | .cons e rest, h => by
    have h3 := unparseArgs_cons_lengthT e rest
    simp only [argcBelowArgs, Bool.and_eq_true]
    exact ⟨argcBelow_of_length N e (by omega), argcBelowArgs_of_length N rest (by omega)⟩
end

end Expr

end boundedArgc


end Verif

