/-
Model of tokenizers/AbstractTokenizer.go (ReadNextToken with the seven options, HasNextToken /
NextToken, TokenizeBuffer), of the four built-in tokenizer constructors (generic, expression,
csv, mustache) and of MustacheTokenizer.ReadNextToken, after the `fix:` repairs
(D05 stale token, D06 per-iteration position, D07 LastTokenType of skipped tokens, D23 mustache
mode tracking).
-/
import Verif.Model.States

namespace Verif

inductive StateId where
  | symbol | whitespace | word | number | quote | comment
  deriving Repr, DecidableEq

inductive Kind where
  | generic | expression | csv | mustache
  deriving Repr, DecidableEq

structure Cfg where
  kind : Kind
  dispatch : CharMap StateId
  wordChars : CharMap Unit
  wsChars : CharMap Unit
  symbols : SymTab

def inMap (m : CharMap Unit) (c : Rune) : Bool := (m.lookup c).isSome

def setChars (m : CharMap Unit) (lo hi : Nat) (enable : Bool) : CharMap Unit :=
  m.add lo hi (if enable then some () else none)

/-- ASCII-targeted part of `strings.ToUpper` (the only runes whose upper case is an ASCII
letter are a–z, U+0131 and U+017F; checked against Go's unicode tables by the harness). -/
def upperRune (c : Rune) : Rune :=
  if 97 ≤ c && c ≤ 122 then c - 32 else if c == 0x131 then 73 else if c == 0x17F then 83 else c

def strOf (s : String) : List Rune := s.toList.map Char.toNat

/-- calculator/tokenizers/ExpressionWordState.go `Keywords` -/
def keywords : List (List Rune) :=
  ["AND", "OR", "NOT", "XOR", "LIKE", "IS", "IN", "NULL", "TRUE", "FALSE"].map strOf

def isKeyword (v : List Rune) : Bool := keywords.contains (v.map upperRune)

/-! ### the four constructors -/

def genericWordChars : CharMap Unit :=
  ((((((setChars CharMap.empty 97 122 true) |> (setChars · 65 90 true)) |> (setChars · 48 57 true))
    |> (setChars · 45 45 true)) |> (setChars · 95 95 true)) |> (setChars · 0xc0 0xff true))
    |> (setChars · 0x100 0xffff true)

def exprWordChars : CharMap Unit :=
  (((((setChars CharMap.empty 97 122 true) |> (setChars · 65 90 true)) |> (setChars · 48 57 true))
    |> (setChars · 95 95 true)) |> (setChars · 0xc0 0xff true)) |> (setChars · 0x100 0xffff true)

def defaultWsChars : CharMap Unit := setChars CharMap.empty 0 32 true

def addSyms (t : SymTab) (l : List (String × Nat)) : SymTab :=
  l.foldl (fun t e => t.add (strOf e.1) e.2) t

def setStates (m : CharMap StateId) (l : List (Nat × Nat × StateId)) : CharMap StateId :=
  l.foldl (fun m e => m.add e.1 e.2.1 (some e.2.2)) m

def genericCfg : Cfg :=
  { kind := .generic
    dispatch := setStates CharMap.empty
      [(0, 0xff, .symbol), (0, 32, .whitespace), (97, 122, .word), (65, 90, .word),
       (0xc0, 0xff, .word), (0x100, 0xffff, .word), (45, 45, .number), (48, 57, .number),
       (46, 46, .number), (34, 34, .quote), (39, 39, .quote), (35, 35, .comment)]
    wordChars := genericWordChars
    wsChars := defaultWsChars
    symbols := addSyms SymTab.empty [("<>", TT.symbol), ("<=", TT.symbol), (">=", TT.symbol)] }

def expressionCfg : Cfg :=
  { kind := .expression
    dispatch := setStates CharMap.empty
      [(0, 0xffff, .symbol), (0, 32, .whitespace), (97, 122, .word), (65, 90, .word),
       (0xc0, 0xff, .word), (95, 95, .word), (48, 57, .number), (45, 45, .number),
       (46, 46, .number), (34, 34, .quote), (39, 39, .quote), (47, 47, .comment)]
    wordChars := exprWordChars
    wsChars := defaultWsChars
    symbols := addSyms SymTab.empty
      [("<=", TT.symbol), (">=", TT.symbol), ("<>", TT.symbol), ("!=", TT.symbol),
       (">>", TT.symbol), ("<<", TT.symbol)] }

def csvWordChars (seps quotes : List Rune) : CharMap Unit :=
  let m0 := setChars (setChars (setChars CharMap.empty 0 0xffff true) 13 13 false) 10 10 false
  let m1 := seps.foldl (fun m c => setChars m c c false) m0
  quotes.foldl (fun m c => setChars m c c false) m1

def csvSymbols : SymTab :=
  addSyms SymTab.empty [("\n", TT.eol), ("\r", TT.eol), ("\r\n", TT.eol), ("\n\r", TT.eol)]

/-- `AssignStates` -/
def csvDispatch (seps quotes : List Rune) : CharMap StateId :=
  let m0 := setStates CharMap.empty [(0, 0xffff, .word), (13, 13, .symbol), (10, 10, .symbol)]
  let m1 := seps.foldl (fun m c => m.add c c (some .symbol)) m0
  quotes.foldl (fun m c => m.add c c (some .quote)) m1

/-- the validity predicate enforced by `SetFieldSeparators` / `SetQuoteSymbols` -/
def csvValid (seps quotes : List Rune) : Bool :=
  (seps ++ quotes).all (fun c => c != 13 && c != 10 && c != 0) &&
  seps.all (fun c => !quotes.contains c)

def csvCfg (seps quotes : List Rune) : Cfg :=
  { kind := .csv
    dispatch := csvDispatch seps quotes
    wordChars := csvWordChars seps quotes
    wsChars := CharMap.empty
    symbols := csvSymbols }

def mustacheCfg : Cfg :=
  { kind := .mustache
    dispatch := setStates CharMap.empty
      [(0, 0xff, .symbol), (0, 32, .whitespace), (97, 122, .word), (65, 90, .word),
       (48, 57, .word), (95, 95, .word), (0xc0, 0xff, .word), (0x100, 0xfffe, .word),
       (34, 34, .quote), (39, 39, .quote)]
    wordChars := genericWordChars
    wsChars := defaultWsChars
    symbols := addSyms SymTab.empty
      [("{{", TT.symbol), ("}}", TT.symbol), ("{{{", TT.symbol), ("}}}", TT.symbol)] }

/-! ### user configuration of a constructed tokenizer

`SetCharacterState` / `ClearCharacterStates` on the tokenizer, `SetWordChars` / `ClearWordChars` on its
word state, `SetWhitespaceChars` / `ClearWhitespaceChars` on its whitespace state and `Add` on its symbol
state. A `nil` state is `none`. -/

inductive CfgOp where
  | state (lo hi : Nat) (st : Option StateId)
  | clearStates
  | wordChars (lo hi : Nat) (enable : Bool)
  | clearWordChars
  | wsChars (lo hi : Nat) (enable : Bool)
  | clearWsChars
  | symbol (v : List Rune) (typ : Nat)
  deriving Repr

/-- the inputs on which the Go setter does not panic (`AddInterval`'s range check) -/
def CfgOp.ok : CfgOp → Bool
  | .state lo hi _ => CharMap.addOk lo hi
  | .wordChars lo hi _ => CharMap.addOk lo hi
  | .wsChars lo hi _ => CharMap.addOk lo hi
  | .symbol v _ => !v.isEmpty
  | _ => true

def Cfg.configure (cfg : Cfg) : CfgOp → Cfg
  | .state lo hi st => { cfg with dispatch := cfg.dispatch.add lo hi st }
  | .clearStates => { cfg with dispatch := CharMap.empty }
  | .wordChars lo hi en => { cfg with wordChars := setChars cfg.wordChars lo hi en }
  | .clearWordChars => { cfg with wordChars := CharMap.empty }
  | .wsChars lo hi en => { cfg with wsChars := setChars cfg.wsChars lo hi en }
  | .clearWsChars => { cfg with wsChars := CharMap.empty }
  | .symbol v t => { cfg with symbols := cfg.symbols.add v t }

def Cfg.configureAll (cfg : Cfg) (ops : List CfgOp) : Cfg := ops.foldl Cfg.configure cfg

/-! ### state dispatch -/

def symState (cfg : Cfg) (fuel : Nat) (s : Scanner) : Tok × Scanner :=
  match cfg.kind with
  | .csv => csvSymbolState cfg.symbols fuel s
  | _ => cfg.symbols.nextToken fuel s

/-- ExpressionWordState.NextToken -/
def exprWordState (cfg : Cfg) (fuel : Nat) (s : Scanner) : Tok × Scanner :=
  let r := spanState TT.word (inMap cfg.wordChars) fuel s
  if isKeyword r.1.value then
    ({ typ := TT.keyword, value := r.1.value, line := s.peekLine, col := s.peekColumn }, r.2)
  else r

def notEol (c : Rune) : Bool := c != 10 && c != 13

def runState (cfg : Cfg) (sid : StateId) (fuel : Nat) (s : Scanner) : Tok × Scanner :=
  match sid with
  | .symbol => symState cfg fuel s
  | .whitespace => spanState TT.whitespace (inMap cfg.wsChars) fuel s
  | .word =>
    match cfg.kind with
    | .expression => exprWordState cfg fuel s
    | _ => spanState TT.word (inMap cfg.wordChars) fuel s
  | .number =>
    match cfg.kind with
    | .expression => exprNumberState (symState cfg fuel) fuel s
    | _ => numberState (symState cfg fuel) fuel s
  | .quote =>
    match cfg.kind with
    | .expression => escQuoteState true fuel s
    | .csv => escQuoteState false fuel s
    | _ => genericQuoteState fuel s
  | .comment =>
    match cfg.kind with
    | .expression => cCommentState (symState cfg fuel) fuel s
    | _ => spanState TT.comment notEol fuel s

def decodeFor (cfg : Cfg) (q : Rune) (v : List Rune) : List Rune :=
  match cfg.kind with
  | .expression => decodeEsc q v
  | .csv => decodeEsc q v
  | _ => decodeGeneric q v

/-- A raw token: what one state invocation (plus the Unknown fall-back) cuts off the input.
`quote` = the look-ahead character when the dispatched state is the quote state. -/
structure Raw where
  tok : Tok
  quote : Option Rune
  deriving Repr

/-- One segmentation step at a position where a next character `c` exists. -/
def rawNext (cfg : Cfg) (c : Rune) (s : Scanner) : Raw × Scanner :=
  let fuel := s.content.length + 2
  let sid := cfg.dispatch.lookup c
  let r : Tok × Scanner :=
    match sid with
    | some id => runState cfg id fuel s
    | none => ({ typ := TT.unknown, value := [], line := 0, col := 0 }, s)
  let q : Option Rune := if sid == some .quote then some c else none
  if r.1.value.isEmpty then
    let rr := r.2.read
    (⟨{ typ := TT.unknown, value := [rr.1.getD 0xFFFD], line := s.peekLine, col := s.peekColumn }, q⟩, rr.2)
  else (⟨r.1, q⟩, r.2)

structure Opts where
  skipUnknown : Bool
  skipWhitespaces : Bool
  skipComments : Bool
  skipEof : Bool
  mergeWhitespaces : Bool
  unifyNumbers : Bool
  decodeStrings : Bool
  deriving Repr, DecidableEq

def Opts.allOff : Opts := ⟨false, false, false, false, false, false, false⟩

def isNumTyp (t : Nat) : Bool := t == TT.integer || t == TT.float || t == TT.hexDecimal

/-- the per-token option processing of ReadNextToken: `none` = skipped -/
def processRaw (cfg : Cfg) (o : Opts) (last : Nat) (r : Raw) (pl pc : Nat) : Option Tok :=
  if r.tok.typ == TT.unknown && o.skipUnknown then none
  else
    let t1 : Tok :=
      match r.quote with
      | some q => if o.decodeStrings then { typ := r.tok.typ, value := decodeFor cfg q r.tok.value, line := pl, col := pc } else r.tok
      | none => r.tok
    if t1.typ == TT.comment && o.skipComments then none
    else if t1.typ == TT.whitespace && last == TT.whitespace && o.skipWhitespaces then none
    else
      let t2 : Tok := if t1.typ == TT.whitespace && o.mergeWhitespaces then { typ := TT.whitespace, value := [32], line := pl, col := pc } else t1
      let t3 : Tok := if o.unifyNumbers && isNumTyp t2.typ then { typ := TT.number, value := t2.value, line := pl, col := pc } else t2
      some t3

/-- tokenizer instance state -/
structure TState where
  s : Scanner
  last : Nat
  special : Bool
  cached : Option Tok

def TState.start (content : List Rune) : TState :=
  { s := Scanner.new content, last := TT.unknown, special := true, cached := none }

/-- AbstractTokenizer.ReadNextToken -/
def readNextA (cfg : Cfg) (o : Opts) : Nat → TState → Option Tok × TState
  | 0, st => (none, st)
  | f+1, st =>
    match st.s.peek with
    | none =>
      if st.last != TT.eof && !o.skipEof then
        (some { typ := TT.eof, value := [], line := st.s.peekLine, col := st.s.peekColumn },
         { st with last := TT.eof })
      else (none, { st with last := TT.eof })
    | some c =>
      let r := rawNext cfg c st.s
      match processRaw cfg o st.last r.1 st.s.peekLine st.s.peekColumn with
      | none => readNextA cfg o f { st with s := r.2 }
      | some t => (some t, { st with s := r.2, last := t.typ })

def isClose (v : List Rune) : Bool := v == [125, 125] || v == [125, 125, 125]

/-- `Overrides.ReadNextToken` : MustacheTokenizer.ReadNextToken for the mustache kind -/
def readNext (cfg : Cfg) (o : Opts) (st : TState) : Option Tok × TState :=
  let fuel := st.s.content.length + 3
  match cfg.kind with
  | .mustache =>
    let sp := if st.special then specialState (st.s.content.length + 2) st.s
              else ({ typ := TT.special, value := [], line := 0, col := 0 }, st.s)
    if st.special && !sp.1.value.isEmpty then (some sp.1, { st with s := sp.2 })
    else
      let r := readNextA cfg o fuel { st with s := sp.2, special := false }
      match r.1 with
      | some t => if t.typ == TT.symbol && isClose t.value then (r.1, { r.2 with special := true }) else r
      | none => r
  | _ => readNextA cfg o fuel st

/-- HasNextToken -/
def hasNext (cfg : Cfg) (o : Opts) (st : TState) : Bool × TState :=
  match st.cached with
  | some _ => (true, st)
  | none =>
    let r := readNext cfg o st
    (r.1.isSome, { r.2 with cached := r.1 })

/-- NextToken -/
def nextTok (cfg : Cfg) (o : Opts) (st : TState) : Option Tok × TState :=
  match st.cached with
  | some t => (some t, { st with cached := none })
  | none => readNext cfg o st

/-- TokenizeStream loop -/
def drain (cfg : Cfg) (o : Opts) : Nat → TState → List Tok
  | 0, _ => []
  | f+1, st =>
    match (nextTok cfg o st).1 with
    | none => []
    | some t => t :: drain cfg o f (nextTok cfg o st).2

/-- TokenizeBuffer on a fresh reader -/
def tokenize (cfg : Cfg) (o : Opts) (content : List Rune) : List Tok :=
  drain cfg o (content.length + 3) (TState.start content)

/-! ### misuse of the C comment state

`CCommentState.NextToken` panics ("Incorrect usage of CppCommentState") when the character it is handed is
not '/'. The built-in expression table hands it only '/', (`Props/C17.lean: builtin_never_misused`); a user
configuration can hand it other characters, and tokenizing then panics at the first such token start. -/

def Cfg.misuse (cfg : Cfg) (c : Rune) : Bool :=
  cfg.kind == .expression && cfg.dispatch.lookup c == some .comment && c != 47

/-- does the segmentation reach a token start at which the comment state is misused? -/
def misuseAt (cfg : Cfg) : Nat → Scanner → Bool
  | 0, _ => false
  | f+1, s =>
    match s.peek with
    | none => false
    | some c => cfg.misuse c || misuseAt cfg f (rawNext cfg c s).2

/-- `TokenizeBuffer` of a (possibly user-configured) tokenizer: `none` = the explicit panic -/
def tokenizeChecked (cfg : Cfg) (o : Opts) (content : List Rune) : Option (List Tok) :=
  if misuseAt cfg (content.length + 2) (Scanner.new content) then none
  else some (tokenize cfg o content)

/-! ### SPEC side of C15: the raw (option-free, Eof-less) segmentation and the one-pass
post-processing that the options amount to. -/

/-- raw segmentation: all-off stream without Eof, each token with its start-of-iteration
peeked position (what re-created tokens report). -/
def rawAllA (cfg : Cfg) : Nat → Scanner → List (Raw × Nat × Nat)
  | 0, _ => []
  | f+1, s =>
    match s.peek with
    | none => []
    | some c => ((rawNext cfg c s).1, s.peekLine, s.peekColumn) :: rawAllA cfg f (rawNext cfg c s).2

/-- post-processing for the non-mustache tokenizers -/
def post (cfg : Cfg) (o : Opts) : Nat → List (Raw × Nat × Nat) → List Tok
  | _, [] => []
  | last, (r, pl, pc) :: rest =>
    match processRaw cfg o last r pl pc with
    | none => post cfg o last rest
    | some t => t :: post cfg o t.typ rest

end Verif
