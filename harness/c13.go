package main

import (
	"time"
	"fmt"
	"strings"

	"github.com/pip-services3-gox/pip-services3-expressions-gox/tokenizers"
)

// C13: lexeme sequences tokenize back to themselves with the right classes (generic, expression).

type lexeme struct {
	text  string
	class int
}

var wordStartG = []rune("abzAZxyéÀÿЖ世￾Ā")
var wordRestG = []rune("abzAZ019_-éЖ世￾")
var wordStartE = []rune("abzAZxy_éÀÿ")
var wordRestE = []rune("abzAZ019_éЖ世￾Ā")
var keywordsE = []string{"AND", "OR", "NOT", "XOR", "LIKE", "IS", "IN", "NULL", "TRUE", "FALSE"}

func pick(c *Ctx, rs []rune) rune { return rs[c.Rng.Intn(len(rs))] }

func digits(c *Ctx, min, max int) string {
	n := min + c.Rng.Intn(max-min+1)
	var sb strings.Builder
	for i := 0; i < n; i++ {
		sb.WriteByte(byte('0' + c.Rng.Intn(10)))
	}
	return sb.String()
}

func randCase(c *Ctx, s string) string {
	var sb strings.Builder
	for _, r := range s {
		if c.Rng.Intn(2) == 0 {
			sb.WriteString(strings.ToLower(string(r)))
		} else {
			sb.WriteString(strings.ToUpper(string(r)))
		}
	}
	return sb.String()
}

// configured letters: the expression tokenizer after the user registered Cyrillic and Greek as word
// start characters ("identifiers may start with any configured letter, Latin or not"); two separate
// registrations over the built-in 0..0xffff symbol range, so the latest-registration rule matters
var c13CfgOps = []cfgOp{{k: "D", lo: 0x400, hi: 0x4ff, x: "w"}, {k: "D", lo: 0x370, hi: 0x3ff, x: "w"}}
var c13Sym4Ops = []cfgOp{{k: "Y", v: []rune("<!--"), typ: tokenizers.Symbol}, {k: "Y", v: []rune("=:=:"), typ: tokenizers.Symbol}, {k: "Y", v: []rune("->>>>"), typ: tokenizers.Symbol}}
var c13FoldOps = []cfgOp{{k: "W", lo: 0x400, hi: 0x4ff, x: "0"}, {k: "W", lo: 0x370, hi: 0x3ff, x: "1"}, {k: "W", lo: 0x500, hi: 0x52f, x: "1"}}
var c13EdgeOps = []cfgOp{{k: "W", lo: 0x3b1, hi: 0x3c9, x: "1"}, {k: "W", lo: 0x3c9, hi: 0x3c9, x: "0"}, {k: "W", lo: 0x430, hi: 0x44f, x: "0"}, {k: "W", lo: 0x42f, hi: 0x430, x: "1"}}
var c13ClearOps = []cfgOp{{k: "WC"}, {k: "W", lo: 'a', hi: 'z', x: "1"}, {k: "W", lo: 0x3b1, hi: 0x3c9, x: "1"}, {k: "W", lo: 0x3c9, hi: 0x3c9, x: "0"}, {k: "W", lo: 0x430, hi: 0x44f, x: "1"}, {k: "W", lo: 0x44f, hi: 0x460, x: "0"}, {k: "W", lo: 0x420, hi: 0x430, x: "0"}}
var c13SymOps = []cfgOp{{k: "Y", v: []rune("=:="), typ: tokenizers.Symbol}, {k: "Y", v: []rune("..."), typ: tokenizers.Symbol}}
var wordStartCfg = []rune("abzAZxy_éÀÿЖцλΔ")

func genLexeme(c *Ctx, kind string) lexeme {
	expr := kind == "e" || kind == "E"
	cfg := kind == "E"
	switch c.Rng.Intn(9) {
	case 0: // identifier
		var sb strings.Builder
		if expr {
			if cfg {
				sb.WriteRune(pick(c, wordStartCfg))
			} else {
				sb.WriteRune(pick(c, wordStartE))
			}
			for i := c.Rng.Intn(6); i > 0; i-- {
				sb.WriteRune(pick(c, wordRestE))
			}
			w := sb.String()
			up := strings.ToUpper(w)
			for _, k := range keywordsE {
				if up == k {
					return lexeme{w, tokenizers.Keyword}
				}
			}
			return lexeme{w, tokenizers.Word}
		}
		sb.WriteRune(pick(c, wordStartG))
		for i := c.Rng.Intn(6); i > 0; i-- {
			sb.WriteRune(pick(c, wordRestG))
		}
		return lexeme{sb.String(), tokenizers.Word}
	case 1: // keyword (expression) / plain word (generic)
		k := randCase(c, keywordsE[c.Rng.Intn(len(keywordsE))])
		if expr {
			return lexeme{k, tokenizers.Keyword}
		}
		return lexeme{k, tokenizers.Word}
	case 2: // integer
		s := digits(c, 1, 6)
		if !expr && c.Rng.Intn(3) == 0 {
			s = "-" + s
		}
		return lexeme{s, tokenizers.Integer}
	case 3: // decimal
		var s string
		switch c.Rng.Intn(3) {
		case 0:
			s = digits(c, 1, 4) + "." + digits(c, 1, 4)
		case 1:
			s = "." + digits(c, 1, 4)
		default:
			s = digits(c, 1, 4) + "."
		}
		if !expr && c.Rng.Intn(3) == 0 {
			s = "-" + s
		}
		return lexeme{s, tokenizers.Float}
	case 4: // scientific (expression only; generic: a plain decimal)
		if expr {
			m := digits(c, 1, 3)
			if c.Rng.Intn(2) == 0 {
				m += "." + digits(c, 0, 3)
			}
			e := []string{"e", "E"}[c.Rng.Intn(2)] + []string{"", "+", "-"}[c.Rng.Intn(3)] + digits(c, 1, 3)
			return lexeme{m + e, tokenizers.Float}
		}
		return lexeme{digits(c, 1, 3) + "." + digits(c, 1, 3), tokenizers.Float}
	case 5: // quoted string
		q := []rune{'\'', '"'}[c.Rng.Intn(2)]
		body := []rune("ab \né世\U0001F600,<=#/*")
		var sb strings.Builder
		sb.WriteRune(q)
		for i := c.Rng.Intn(6); i > 0; i-- {
			if expr && c.Rng.Intn(4) == 0 {
				sb.WriteRune(q)
				sb.WriteRune(q) // doubled-quote escape
			} else if c.Rng.Intn(5) == 0 {
				other := '"'
				if q == '"' {
					other = '\''
				}
				sb.WriteRune(other)
			} else {
				sb.WriteRune(pick(c, body))
			}
		}
		sb.WriteRune(q)
		cl := tokenizers.Quoted
		if expr && q == '"' {
			cl = tokenizers.Word
		}
		return lexeme{sb.String(), cl}
	case 6: // comment
		body := []rune("ab 1*<=é世'/")
		var sb strings.Builder
		if expr {
			sb.WriteString("/*")
			for i := c.Rng.Intn(6); i > 0; i-- {
				r := pick(c, body)
				sb.WriteRune(r)
			}
			s := strings.ReplaceAll(sb.String()[2:], "*/", "* /")
			return lexeme{"/*" + s + "*/", tokenizers.Comment}
		}
		sb.WriteString("#")
		for i := c.Rng.Intn(6); i > 0; i-- {
			sb.WriteRune(pick(c, body))
		}
		return lexeme{sb.String(), tokenizers.Comment}
	case 7: // multi-character symbol
		if expr {
			return lexeme{[]string{"<=", ">=", "<>", "!=", ">>", "<<"}[c.Rng.Intn(6)], tokenizers.Symbol}
		}
		return lexeme{[]string{"<>", "<=", ">="}[c.Rng.Intn(3)], tokenizers.Symbol}
	default: // single-character symbol
		if expr {
			rs := []rune("+*%^=<>()[],!-;:&§世Ж")
			if cfg {
				rs = []rune("+*%^=<>()[],!-;:&§世→")
			}
			return lexeme{string(rs[c.Rng.Intn(len(rs))]), tokenizers.Symbol}
		}
		rs := []rune("+*%^=<>()[],!;:&/§")
		return lexeme{string(rs[c.Rng.Intn(len(rs))]), tokenizers.Symbol}
	}
}

func genWhitespace(c *Ctx) lexeme {
	// every character from U+0000 to U+0020 is whitespace for both tokenizers
	ws := []rune{' ', ' ', '\t', '\n', '\r', ' ', '\t', 0x00, 0x01, 0x0b, 0x0c, 0x1b, 0x1f}
	var sb strings.Builder
	for i := 1 + c.Rng.Intn(3); i > 0; i-- {
		sb.WriteRune(pick(c, ws))
	}
	return lexeme{sb.String(), tokenizers.Whitespace}
}

// conservative "neighbours cannot merge" predicate: may b follow a directly?
func separated(kind string, a, b lexeme) bool {
	if a.class == tokenizers.Whitespace || b.class == tokenizers.Whitespace {
		return a.class != b.class
	}
	ar := []rune(a.text)
	br := []rune(b.text)
	last, first := ar[len(ar)-1], br[0]
	switch a.class {
	case tokenizers.Comment:
		if kind == "e" {
			return true // closed by */
		}
		return false // '#' comment runs to end of line: needs a line break
	case tokenizers.Quoted:
		return first != last
	case tokenizers.Word, tokenizers.Keyword:
		if a.text[0] == '"' { // expression "quoted identifier"
			return first != '"'
		}
		// a word absorbs word characters
		return b.class == tokenizers.Symbol && strings.ContainsRune("+*%^=<>()[],!;:&", first) || b.class == tokenizers.Quoted || (b.class == tokenizers.Word && first == '"')
	case tokenizers.Integer, tokenizers.Float:
		return (b.class == tokenizers.Symbol && strings.ContainsRune("+*%^=<>()[],!;:&", first)) || b.class == tokenizers.Quoted || (b.class == tokenizers.Word && first == '"')
	case tokenizers.Symbol:
		if strings.ContainsRune("()[],;:&+*%^", last) && len(ar) == 1 {
			// cannot start a longer symbol, comment or number
			return b.class == tokenizers.Word || b.class == tokenizers.Keyword || b.class == tokenizers.Quoted ||
				b.class == tokenizers.Integer || b.class == tokenizers.Float || (b.class == tokenizers.Symbol && strings.ContainsRune("()[],;:&+*%^", first))
		}
		return b.class == tokenizers.Word || b.class == tokenizers.Keyword || b.class == tokenizers.Quoted
	}
	return false
}

func runLexCase(c *Ctx, kind string, lexs []lexeme) {
	var sb strings.Builder
	for _, l := range lexs {
		sb.WriteString(l.text)
	}
	input := []rune(sb.String())
	op := tokOpLine(kind, 0, input)
	var ts []tk
	var st string
	if kind == "E" {
		op = tokcLine("e", 0, c13CfgOps, input)
		ts, st = tokenizeCfg("e", 0, c13CfgOps, input)
	} else if kind == "E4" {
		// a removal that begins exactly at the last character of an enabled block, an enabling that ends at the first of a disabled one
		op = tokcLine("e", 0, c13EdgeOps, input)
		ts, st = tokenizeCfg("e", 0, c13EdgeOps, input)
	} else if kind == "E5" {
		// the word characters cleared and rebuilt block by block, removals that touch a block at its first / last character only
		op = tokcLine("e", 0, c13ClearOps, input)
		ts, st = tokenizeCfg("e", 0, c13ClearOps, input)
	} else if kind == "E3" {
		// word characters re-configured in three steps: a block disabled, an adjacent block (re-)enabled afterwards
		op = tokcLine("e", 0, c13FoldOps, input)
		ts, st = tokenizeCfg("e", 0, c13FoldOps, input)
	} else if kind == "E2" {
		// the same configuration applied to a tokenizer that was USED before (on a text with the characters concerned)
		op = tokcLine("e", 0, c13CfgOps, input)
		st = safeCallT(5*time.Second, func() string {
			t := newTokenizer("e").(cfgTokzr)
			setOpts(t, 0)
			t.TokenizeBuffer("я2 + ядро λ1 世 Δ")
			for _, o := range c13CfgOps {
				applyCfgOp(t, o)
			}
			ts = conv(t.TokenizeBuffer(string(input)))
			return ""
		})
	} else if kind == "Y4" || kind == "Z4" {
		// user-registered symbols of four and five characters whose longer proper prefixes are not symbols
		k := map[string]string{"Y4": "e", "Z4": "g"}[kind]
		op = tokcLine(k, 0, c13Sym4Ops, input)
		ts, st = tokenizeCfg(k, 0, c13Sym4Ops, input)
	} else if kind == "Y" || kind == "Z" {
		// a user-registered three-character symbol whose two-character prefix is not a symbol
		k := map[string]string{"Y": "e", "Z": "g"}[kind]
		op = tokcLine(k, 0, c13SymOps, input)
		ts, st = tokenizeCfg(k, 0, c13SymOps, input)
	} else {
		ts, st = tokenizeImpl(kind, 0, string(input))
	}
	classes := map[int]bool{}
	for _, l := range lexs {
		classes[l.class] = true
		c.count(fmt.Sprintf("lexclass:%d", l.class))
	}
	c.record(op, len(classes) >= 3)
	c.count("kind:" + kind)
	impl := implLine(ts, st)
	if st != "" {
		c.fail(Failure{Kind: "oracle", Op: op, Impl: impl, Note: "tokenizer did not return normally"})
		return
	}
	bad := ""
	if len(ts) != len(lexs)+1 {
		bad = fmt.Sprintf("%d lexemes tokenized into %d tokens", len(lexs), len(ts)-1)
	} else {
		for i, l := range lexs {
			if ts[i].Typ != l.class || string(ts[i].Val) != l.text {
				bad = fmt.Sprintf("lexeme #%d %d:%q came back as %d:%q", i, l.class, l.text, ts[i].Typ, string(ts[i].Val))
				break
			}
		}
	}
	if bad != "" {
		var ex []string
		for _, l := range lexs {
			ex = append(ex, fmt.Sprintf("%d:%q", l.class, l.text))
		}
		c.fail(Failure{Kind: "oracle", Op: op, Impl: impl, Note: bad + "; lexemes: " + strings.Join(ex, " ")})
		return
	}
	c.model(op, impl, "model")
}

func propC13(c *Ctx) {
	n := 6000
	if c.Thorough {
		n = 150000
	}
	for i := 0; i < n; i++ {
		kind := []string{"g", "e"}[i%2]
		if i%10 == 9 {
			kind = "E"
		}
		runKind := kind
		if i%20 == 19 {
			runKind = "E2"
		}
		sepKind := strings.ToLower(kind)
		k := 1 + c.Rng.Intn(10)
		if c.Thorough && c.Rng.Intn(50) == 0 {
			k = 50 + c.Rng.Intn(200)
		}
		var lexs []lexeme
		for len(lexs) < k {
			l := genLexeme(c, kind)
			if len(lexs) > 0 {
				prev := lexs[len(lexs)-1]
				if !separated(sepKind, prev, l) || c.Rng.Intn(2) == 0 {
					w := genWhitespace(c)
					if prev.class == tokenizers.Comment && kind == "g" {
						w.text = "\n" + w.text // a '#' comment needs a line break
					}
					if prev.class != tokenizers.Whitespace {
						lexs = append(lexs, w)
					}
				}
			}
			lexs = append(lexs, l)
		}
		runLexCase(c, runKind, lexs)
	}
	for _, let := range []string{"Ж", "ц", "λ", "Δ", "я"} {
		runLexCase(c, "E2", []lexeme{{let + "2", tokenizers.Word}, {" ", tokenizers.Whitespace}, {"+", tokenizers.Symbol}, {" ", tokenizers.Whitespace}, {let + "дро", tokenizers.Word}})
		runLexCase(c, "E2", []lexeme{{let, tokenizers.Word}})
	}
	// configured letters next to characters of the ranges they were carved out of, in both orders
	W, S, Sp := tokenizers.Word, tokenizers.Symbol, tokenizers.Whitespace
	for _, sym := range []string{"世", "→", "≠", "€", "Ѐ", "Ϳ"} {
		for _, let := range []string{"Ж", "ц", "λ", "Δ"} {
			if sym == "Ѐ" || sym == "Ϳ" { // these two lie INSIDE the configured ranges: they are letters too
				runLexCase(c, "E", []lexeme{{sym + "a", W}, {" ", Sp}, {let, W}})
				continue
			}
			runLexCase(c, "E", []lexeme{{sym, S}, {" ", Sp}, {let + "x1", W}})
			runLexCase(c, "E", []lexeme{{let, W}, {" ", Sp}, {sym, S}, {" ", Sp}, {let + let, W}, {" ", Sp}, {sym, S}})
			runLexCase(c, "E", []lexeme{{sym, S}, {let, W}, {" ", Sp}, {sym, S}, {let + "_", W}})
		}
	}
	K := tokenizers.Keyword
	for _, x := range []struct {
		text  string
		class int
	}{{"li\u212ae", W}, {"o\u212a", W}, {"I\u017f", K}, {"i\u017f", K}, {"l\u0131ke", K}, {"fal\u017fe", K}, {"i\u0307s", W}, {"stra\u00dfe", W}, {"nu\u0142l", W}, {"x\u01c5", W}, {"tr\u00fce", W}, {"\u00ecs", W}} {
		runLexCase(c, "e", []lexeme{{"a", W}, {" ", Sp}, {x.text, x.class}, {" ", Sp}, {"b", W}})
		runLexCase(c, "e", []lexeme{{x.text, x.class}})
	}
	for _, k := range []string{"Y", "Z"} {
		runLexCase(c, k, []lexeme{{"a", W}, {" ", Sp}, {"=:=", S}, {" ", Sp}, {"b", W}})
		runLexCase(c, k, []lexeme{{"a", W}, {" ", Sp}, {"=", S}, {":", S}})
		runLexCase(c, k, []lexeme{{"a", W}, {"=", S}, {":", S}, {" ", Sp}, {"b", W}})
		runLexCase(c, k, []lexeme{{"=", S}, {":", S}})
		runLexCase(c, k, []lexeme{{"=:=", S}, {"=", S}, {":", S}})
	}
	runLexCase(c, "E4", []lexeme{{"xαβ", W}, {"ω", S}, {"γ", S}})
	runLexCase(c, "E4", []lexeme{{"aψ", W}, {"ω", S}, {" ", Sp}, {"bω"[:1], W}, {"ω", S}})
	runLexCase(c, "E4", []lexeme{{"xЯа", W}, {"б", S}, {"в", S}, {" ", Sp}, {"yа", W}})
	runLexCase(c, "E5", []lexeme{{"xαβ", W}, {"ω", S}, {"γ", S}})
	runLexCase(c, "E5", []lexeme{{"aψ", W}, {"ω", S}, {" ", Sp}, {"bб", W}, {"я", S}, {"а", S}})
	runLexCase(c, "E5", []lexeme{{"xюэ", W}, {"я", S}, {" ", Sp}, {"yб", W}, {"а", S}})
	runLexCase(c, "E3", []lexeme{{"total", W}, {"Ж", S}, {"xλ1", W}})
	runLexCase(c, "E3", []lexeme{{"aλ", W}, {" ", Sp}, {"bЖ"[:1], W}, {"Ж", S}, {"ц", S}, {" ", Sp}, {"cԀ", W}})
	runLexCase(c, "E3", []lexeme{{"xλ", W}, {"Ѐ", S}, {"y", W}})
	I := tokenizers.Integer
	for _, k := range []string{"Y4", "Z4"} {
		runLexCase(c, k, []lexeme{{"a", W}, {" ", Sp}, {"<!--", S}, {" ", Sp}, {"b", W}})
		runLexCase(c, k, []lexeme{{"a", W}, {" ", Sp}, {"<", S}, {"!", S}, {"-", S}, {" ", Sp}, {"b", W}})
		runLexCase(c, k, []lexeme{{"a", W}, {"<", S}, {"!", S}, {" ", Sp}, {"b", W}})
		runLexCase(c, k, []lexeme{{"<", S}, {"!", S}, {"-", S}})
		runLexCase(c, k, []lexeme{{"<", S}, {"!", S}, {"x", W}})
		runLexCase(c, k, []lexeme{{"=", S}, {":", S}, {"=", S}, {" ", Sp}, {"1", I}})
		runLexCase(c, k, []lexeme{{"=", S}, {":", S}, {"=", S}, {"x", W}})
		runLexCase(c, k, []lexeme{{"x", W}, {"=", S}, {":", S}, {"=", S}, {"1", I}})
		runLexCase(c, k, []lexeme{{"=:=:", S}, {"=", S}, {":", S}})
		runLexCase(c, k, []lexeme{{"=:=:", S}, {"=", S}, {":", S}, {"=", S}})
		runLexCase(c, k, []lexeme{{"<!--", S}, {"<", S}, {"!", S}, {"-", S}, {" ", Sp}, {"<", S}, {"!", S}})
		runLexCase(c, k, []lexeme{{"->>>>", S}, {" ", Sp}, {"a", W}})
		runLexCase(c, k, []lexeme{{"a", W}, {" ", Sp}, {"<", S}, {"!", S}, {"-", S}, {"<!--", S}})
	}
	c.Notes = append(c.Notes, "random lexeme sequences (1..10 lexemes; thorough also 50..250) from the lexical grammar of the generic and the expression tokenizer: identifiers (Latin-1 and non-Latin), keywords in random case, integers, decimals (1.5 .5 1.), scientific numbers, quoted strings with doubled quotes / other quote / newlines / non-ASCII, comments, whitespace runs, every multi-character symbol, single-character symbols; neighbours are separated by whitespace unless a conservative `cannot merge` predicate allows direct adjacency")
}

func replayC13(c *Ctx, op string) {
	// replays re-check model agreement and losslessness only (the lexeme list is not recoverable)
	if replayTokC(c, op) {
		return
	}
	f := strings.Fields(op)
	if len(f) == 4 {
		runC04Case(c, f[1], parseRunes(f[3]))
	}
}

func init() {
	props["C13"] = propC13
	replays["C13"] = replayC13
}
