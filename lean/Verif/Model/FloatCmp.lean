/-
IEEE-754 comparisons on bit patterns.

Lean's `Float` / `Float32` comparison operators are opaque to the kernel, so nothing can be proved
about them.  Here the comparisons of binary64 / binary32 are defined on the *bit patterns*
(`Float.toBits`, `Float32.toBits`) with `Nat` / `Int` arithmetic only, so that the kernel and
`decide` can evaluate them and the order laws are theorems (`Verif/Lemmas/FloatCmpLemmas.lean`).

Layout of a pattern `n` with `e` exponent bits and `f` fraction bits (binary64: 11 / 52,
binary32: 8 / 23):   sign = bit `e+f`,  exponent field = bits `f … e+f-1`,  fraction = bits `0 … f-1`.

* NaN  ⇔  exponent field all ones and fraction ≠ 0.  NaN is unordered: every `=`, `<`, `<=` with a
  NaN operand is false (so `!=` is true).
* otherwise the value order is the order of the signed *key*
  `key n = if sign then -(magnitude) else magnitude`, magnitude = the low `e+f` bits
  (exponent field and fraction read as one number: subnormals < normals < infinity);
  `+0` and `-0` both have key 0, hence are equal.
-/

namespace Verif

/-! ### generic in the field widths (on the numeric value of the pattern) -/

/-- exponent field -/
def fpExp (e f n : Nat) : Nat := (n / 2 ^ f) % 2 ^ e
/-- fraction field -/
def fpFrac (f n : Nat) : Nat := n % 2 ^ f
/-- sign bit -/
def fpSign (e f n : Nat) : Bool := (n / 2 ^ (e + f)) % 2 == 1
/-- exponent field and fraction as one number -/
def fpMag (e f n : Nat) : Nat := n % 2 ^ (e + f)

def fpIsNaN (e f n : Nat) : Bool := fpExp e f n == 2 ^ e - 1 && fpFrac f n != 0

/-- the signed key whose order is the IEEE order of the non-NaN patterns -/
def fpKey (e f n : Nat) : Int := if fpSign e f n then -(fpMag e f n : Int) else (fpMag e f n : Int)

def fpEq (e f a b : Nat) : Bool :=
  !fpIsNaN e f a && !fpIsNaN e f b && decide (fpKey e f a = fpKey e f b)
def fpLt (e f a b : Nat) : Bool :=
  !fpIsNaN e f a && !fpIsNaN e f b && decide (fpKey e f a < fpKey e f b)
def fpLe (e f a b : Nat) : Bool :=
  !fpIsNaN e f a && !fpIsNaN e f b && decide (fpKey e f a ≤ fpKey e f b)

/-! ### binary64 -/

def f64IsNaN (a : UInt64) : Bool := fpIsNaN 11 52 a.toNat
def f64Key (a : UInt64) : Int := fpKey 11 52 a.toNat
/-- IEEE `==` -/
def f64Eq (a b : UInt64) : Bool := fpEq 11 52 a.toNat b.toNat
/-- IEEE `<` -/
def f64Lt (a b : UInt64) : Bool := fpLt 11 52 a.toNat b.toNat
/-- IEEE `<=` -/
def f64Le (a b : UInt64) : Bool := fpLe 11 52 a.toNat b.toNat

/-! ### binary32 -/

def f32IsNaN (a : UInt32) : Bool := fpIsNaN 8 23 a.toNat
def f32Key (a : UInt32) : Int := fpKey 8 23 a.toNat
def f32Eq (a b : UInt32) : Bool := fpEq 8 23 a.toNat b.toNat
def f32Lt (a b : UInt32) : Bool := fpLt 8 23 a.toNat b.toNat
def f32Le (a b : UInt32) : Bool := fpLe 8 23 a.toNat b.toNat

/-! ### on the float types (Go `float64` = `Float`, Go `float32` = `Float32`) -/

def fIsNaN (x : Float) : Bool := f64IsNaN x.toBits
/-- Go `x == y` on `float64` -/
def fEq (x y : Float) : Bool := f64Eq x.toBits y.toBits
/-- Go `x < y` on `float64` -/
def fLt (x y : Float) : Bool := f64Lt x.toBits y.toBits
/-- Go `x <= y` on `float64` -/
def fLe (x y : Float) : Bool := f64Le x.toBits y.toBits
/-- Go `x != 0` on `float64` (`+0` is the pattern 0; NaN is non-zero) -/
def fNonZero (x : Float) : Bool := !f64Eq x.toBits 0

def fIsNaN32 (x : Float32) : Bool := f32IsNaN x.toBits
/-- Go `x == y` on `float32` -/
def fEq32 (x y : Float32) : Bool := f32Eq x.toBits y.toBits
/-- Go `x < y` on `float32` -/
def fLt32 (x y : Float32) : Bool := f32Lt x.toBits y.toBits
/-- Go `x <= y` on `float32` -/
def fLe32 (x y : Float32) : Bool := f32Le x.toBits y.toBits
/-- Go `x != 0` on `float32` -/
def fNonZero32 (x : Float32) : Bool := !f32Eq x.toBits 0

end Verif
