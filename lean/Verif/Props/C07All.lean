/-
C07: types and round trips (Props/C07.lean), the units the statement names (Props/C07Clauses.lean) and the double leg of
the integer round trip on bit patterns (Props/C07Float.lean).
-/
import Verif.Props.C07
import Verif.Props.C07Clauses
import Verif.Props.C07Float
