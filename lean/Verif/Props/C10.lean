/-
Property C10: Mustache templates.

For every well-formed template (a `TNodes` tree: literal text, variables, escaped variables,
comments, arbitrarily nested sections and inverted sections in each of their spellings) and every
variable map, the rendering is the reference rendering `refRender`; ill-formed templates (unclosed
tag, unclosed / unopened / mismatched section, mismatched brace counts) are rejected.

Layers:
* tokens of a tag  →  flat token            (`C10_lex_*`, the lexical state machine)
* `flatten ns`     →  `toMToks ns`          (`C10_parse_complete`, rejection `C10_reject_*`)
* `toMToks ns`     →  `refRender vars ns`   (`C10_render_ref`, `C10_semantics`, `C10_pipeline`)
* escaping: eight sequential replacements = one pass (`C10_escape_is_map`)
* variable lookup: order independent, case-insensitive (`C10_getVariable_*`, `C10_case_insensitive`,
  `C10_missing`)
-/
import Verif.Lemmas.MustacheLemmas

namespace Verif

set_option linter.unusedSimpArgs false

/-! ### 1. escaping -/

/-- the eight sequential `ReplaceAll` calls of the code equal the one-pass JSON-style escaping -/
theorem C10_escape_is_map (s : List Rune) : escapeSeq s = escapeStr s :=
  escapeSeq_eq_escapeStr s

/-! ### 2. every well-formed template is parsed into the expected tree -/

/-- with the fuel `parseTemplate` uses; sections nested to any depth, no side condition -/
theorem C10_parse_complete (ns : TNodes) :
    parseTop ((flatten ns).length + 1) (flatten ns) = .ok (toMToks ns) :=
  parseTop_flatten ns _ (Nat.le_refl _)

/-- … and with every larger fuel -/
theorem C10_parse_complete_fuel (ns : TNodes) (f : Nat) (hf : (flatten ns).length + 1 ≤ f) :
    parseTop f (flatten ns) = .ok (toMToks ns) :=
  parseTop_flatten ns f hf

/-- the generalisation to section bodies: body, end tag (by name or anonymous), rest -/
theorem C10_parse_section (body : TNodes) (f : Nat) (name e : List Rune) (rest : List MFlat)
    (he : e = name ∨ e = []) (hf : (flatten body).length + 1 ≤ f) :
    parseSection f name (flatten body ++ ⟨.sectionEnd, e⟩ :: rest) = .ok (toMToks body, rest) :=
  parseSection_flatten body f name e rest he hf

/-! ### 3. rendering -/

theorem C10_render_ref (vars : List (List Rune × List Rune)) (ns : TNodes) :
    renderToks vars (toMToks ns) = .ok (refRender vars ns) := by
  induction ns using flatten.induct with
  | case1 => simp only [toMToks, refRender, renderToks]
  | case2 s r ih =>
    simp only [toMToks, refRender]
    exact renderToks_cons_ok vars _ _ _ _ (by simp only [renderTok]) ih
  | case3 n r ih =>
    simp only [toMToks, refRender]
    exact renderToks_cons_ok vars _ _ _ _ (by simp only [renderTok]) ih
  | case4 n r ih =>
    simp only [toMToks, refRender]
    exact renderToks_cons_ok vars _ _ _ _ (by simp only [renderTok, escapeSeq_eq_escapeStr]) ih
  | case5 r ih =>
    simp only [toMToks, refRender]
    exact renderToks_cons_ok vars _ _ [] _ (by simp only [renderTok]) ih
  | case6 inv nm body cbn r ihb ihr =>
    simp only [toMToks, refRender]
    refine renderToks_cons_ok vars _ _ _ _ ?_ ihr
    cases inv <;> cases hd : isDefined vars nm <;> simp [secTyp, renderTok, hd, ihb]

/-- parse, then render: the reference rendering -/
theorem C10_semantics (vars : List (List Rune × List Rune)) (ns : TNodes) (f : Nat) (t : MToks)
    (hf : (flatten ns).length + 1 ≤ f) (h : parseTop f (flatten ns) = .ok t) :
    renderToks vars t = .ok (refRender vars ns) := by
  rw [parseTop_flatten ns f hf] at h
  cases h
  exact C10_render_ref vars ns

/-- the whole pipeline `renderTemplate` (SetTemplate + EvaluateWithVariables), given that the
lexical analysis of the source yields the flat tokens of a well-formed, non-empty template -/
theorem C10_pipeline (src : List Rune) (vars : List (List Rune × List Rune)) (ns : TNodes)
    (h1 : (trimStr src).isEmpty = false)
    (h2 : (tokenize mustacheCfg mustacheOpts (trimStr src)).isEmpty = false)
    (h3 : lexical (tokenize mustacheCfg mustacheOpts (trimStr src)) = .ok (flatten ns))
    (h4 : flatten ns ≠ []) :
    renderTemplate src vars = .ok (refRender vars ns) := by
  have hp : parseTemplate src = .ok ⟨toMToks ns, lookupVars (flatten ns)⟩ := by
    unfold parseTemplate
    simp only [h1, h2, h3, Bool.false_eq_true, if_false]
    cases hfl : flatten ns with
    | nil => exact absurd hfl h4
    | cons a l =>
      rw [← hfl, C10_parse_complete ns]
  unfold renderTemplate
  rw [hp]
  exact C10_render_ref vars ns

/-! ### 4. rejection at the flat-token level

`TopRejects e l` : `parseTop f l = .error e` for every fuel `f ≥ l.length + 1`;
`SecRejects v e l` : the same for `parseSection f v l`. -/

/-- unopened: an end tag at top level, after any well-formed prefix -/
theorem C10_reject_unopened (ns : TNodes) (x : List Rune) (rest : List MFlat) (f : Nat)
    (hf : (flatten ns ++ ⟨.sectionEnd, x⟩ :: rest).length + 1 ≤ f) :
    parseTop f (flatten ns ++ ⟨.sectionEnd, x⟩ :: rest) = .error .unexpectedSectionEnd :=
  (TopRejects.endTag x rest).prefix ns f hf

/-- unclosed: a section (or inverted section) whose body is well-formed but never closed -/
theorem C10_reject_unclosed (inv : Bool) (n : List Rune) (body : TNodes) (f : Nat)
    (hf : (flatten body).length + 2 ≤ f) :
    ∃ e, parseTop f (⟨secTyp inv, n⟩ :: flatten body) = .error e ∧
      (e = .notClosedSection ∨ e = .unexpectedEnd) := by
  obtain ⟨e, he, hr⟩ := (OpenBody.closed body).topRejects .nil inv n
  exact ⟨e, hr f (by simpa [flatten] using hf), he⟩

/-- … precisely: `unexpectedEnd` when nothing follows the opening tag, `notClosedSection` otherwise -/
theorem C10_reject_unclosed_precise (inv : Bool) (n : List Rune) (body : TNodes) (f : Nat)
    (hf : (flatten body).length + 2 ≤ f) :
    parseTop f (⟨secTyp inv, n⟩ :: flatten body) =
      .error (if flatten body = [] then .unexpectedEnd else .notClosedSection) := by
  cases hb : flatten body with
  | nil =>
    simp only [if_true]
    exact TopRejects.openEnd n inv f (by rw [hb] at hf; simpa using hf)
  | cons a l =>
    have hne : flatten body ≠ [] := by rw [hb]; simp
    rw [← hb]
    simp only [hne, if_false]
    exact ((OpenBody.closed body).rejects n).openTop inv hne f (by simpa using hf)

/-- unclosed, in general: after any well-formed prefix, any number of unclosed sections nested in
each other (`OpenBody`) -/
theorem C10_reject_unclosed_nested (pre : TNodes) (inv : Bool) (n : List Rune) (l : List MFlat)
    (e : MErr) (h : OpenBody l e) (f : Nat)
    (hf : (flatten pre ++ ⟨secTyp inv, n⟩ :: l).length + 1 ≤ f) :
    ∃ e', parseTop f (flatten pre ++ ⟨secTyp inv, n⟩ :: l) = .error e' ∧
      (e' = .notClosedSection ∨ e' = .unexpectedEnd) := by
  obtain ⟨e', he, hr⟩ := h.topRejects pre inv n
  exact ⟨e', hr f hf, he⟩

/-- mismatched: inside section `n` an end tag with another name -/
theorem C10_reject_mismatched_section (n x : List Rune) (body : TNodes) (rest : List MFlat)
    (h1 : x ≠ n) (h2 : x ≠ []) (f : Nat)
    (hf : (flatten body ++ ⟨.sectionEnd, x⟩ :: rest).length + 1 ≤ f) :
    parseSection f n (flatten body ++ ⟨.sectionEnd, x⟩ :: rest) = .error .unexpectedSectionEnd :=
  (SecRejects.mismatch n x rest h1 h2).prefix body f hf

/-- mismatched, at top level: `pre {{#n}} body {{/x}} rest` with `x ≠ n` -/
theorem C10_reject_mismatched (pre : TNodes) (inv : Bool) (n x : List Rune) (body : TNodes)
    (rest : List MFlat) (h1 : x ≠ n) (h2 : x ≠ []) (f : Nat)
    (hf : (flatten pre ++ ⟨secTyp inv, n⟩ :: (flatten body ++ ⟨.sectionEnd, x⟩ :: rest)).length + 1 ≤ f) :
    parseTop f (flatten pre ++ ⟨secTyp inv, n⟩ :: (flatten body ++ ⟨.sectionEnd, x⟩ :: rest)) =
      .error .unexpectedSectionEnd :=
  ((((SecRejects.mismatch n x rest h1 h2).prefix body).openTop inv (by simp)).prefix pre) f hf

/-- mismatched, one level deeper (the error propagates through every enclosing open section:
`SecRejects.openSection`, `SecRejects.prefix`) -/
theorem C10_reject_mismatched_nested (pre : TNodes) (inv inv' : Bool) (m n x : List Rune)
    (pre' body : TNodes) (rest : List MFlat) (h1 : x ≠ n) (h2 : x ≠ []) (f : Nat)
    (hf : (flatten pre ++ ⟨secTyp inv', m⟩ ::
      (flatten pre' ++ ⟨secTyp inv, n⟩ :: (flatten body ++ ⟨.sectionEnd, x⟩ :: rest))).length + 1 ≤ f) :
    parseTop f (flatten pre ++ ⟨secTyp inv', m⟩ ::
      (flatten pre' ++ ⟨secTyp inv, n⟩ :: (flatten body ++ ⟨.sectionEnd, x⟩ :: rest))) =
      .error .unexpectedSectionEnd :=
  ((((((SecRejects.mismatch n x rest h1 h2).prefix body).openSection (v := m) inv (by simp)).prefix
    pre').openTop inv' (by simp)).prefix pre) f hf

/-! ### 5. the lexical state machine on the token sequences of tags

`s.Ready` : state `value` with cleared registers — by `lexAll_ready` every reachable state with
`st = value` is ready.  `s.emit c t` : the ready state with `closing = c` and `t` appended to the
output.  `Braces o c` : `o c = {{ }}` or `{{{ }}}`. -/

/-- positions are irrelevant -/
theorem C10_lex_pos (s : LexState) (ty : Nat) (v : List Rune) (l c : Nat) :
    lexStep s ⟨ty, v, l, c⟩ = lexStep s ⟨ty, v, 0, 0⟩ := rfl

/-- a whitespace token is skipped in every state (also inside tags and comments) -/
theorem C10_lex_ws (s : LexState) : lexStep s ws = .ok s := lexStep_ws s

/-- hence whitespace tokens may be inserted anywhere: only the non-whitespace tokens count -/
theorem C10_lex_ws_anywhere (s : LexState) (toks tag : List Tok)
    (h : toks.filter (fun t => !isWsTok t) = tag) : lexAll s toks = lexAll s tag := by
  rw [← h]; exact lexAll_filter_ws s toks

/-- literal text between tags -/
theorem C10_lex_text (s : LexState) (h : s.st = .value) (v : List Rune) (l c : Nat) :
    lexStep s ⟨TT.special, v, l, c⟩ = .ok { s with out := s.out ++ [⟨.value, v⟩] } := by
  obtain ⟨st, closing, op1, op2, var, out⟩ := s
  simp only at h
  subst h
  simp [lexStep, TT.special]

theorem C10_lex_variable (s : LexState) (h : s.Ready) (o c : List Rune) (hb : Braces o c) (n : List Rune) :
    lexAll s [sym o, wrd n, sym c] = .ok (s.emit c ⟨varTyp c, n⟩) := by
  lex_start s h hb <;> lex_eval

/-- `{{#n}}`, for every `n` (also `if` and `unless`: `{{#if}}` is the section named "if") -/
theorem C10_lex_section (s : LexState) (h : s.Ready) (o c : List Rune) (hb : Braces o c) (n : List Rune) :
    lexAll s [sym o, sym sHash, wrd n, sym c] = .ok (s.emit c ⟨.section, n⟩) := by
  by_cases hi : n = sIf
  · subst hi; lex_start s h hb <;> lex_eval
  by_cases hu : n = sUnless
  · subst hu; lex_start s h hb <;> lex_eval
  simp only [sIf, sUnless] at hi hu
  lex_start s h hb <;> lex_eval <;> simp [hi, hu]

/-- `{{#if n}}` -/
theorem C10_lex_section_if (s : LexState) (h : s.Ready) (o c : List Rune) (hb : Braces o c) (n : List Rune) :
    lexAll s [sym o, sym sHash, wrd sIf, wrd n, sym c] = .ok (s.emit c ⟨.section, n⟩) := by
  lex_start s h hb <;> lex_eval

/-- `{{^n}}`, for every `n` -/
theorem C10_lex_inverted (s : LexState) (h : s.Ready) (o c : List Rune) (hb : Braces o c) (n : List Rune) :
    lexAll s [sym o, sym sCaret, wrd n, sym c] = .ok (s.emit c ⟨.invertedSection, n⟩) := by
  by_cases hi : n = sIf
  · subst hi; lex_start s h hb <;> lex_eval
  by_cases hu : n = sUnless
  · subst hu; lex_start s h hb <;> lex_eval
  simp only [sIf, sUnless] at hi hu
  lex_start s h hb <;> lex_eval <;> simp [hi, hu]

/-- `{{#unless n}}` -/
theorem C10_lex_inverted_unless (s : LexState) (h : s.Ready) (o c : List Rune) (hb : Braces o c)
    (n : List Rune) :
    lexAll s [sym o, sym sHash, wrd sUnless, wrd n, sym c] = .ok (s.emit c ⟨.invertedSection, n⟩) := by
  lex_start s h hb <;> lex_eval

/-- `{{/n}}` -/
theorem C10_lex_end (s : LexState) (h : s.Ready) (o c : List Rune) (hb : Braces o c) (n : List Rune)
    (hi : n ≠ sIf) (hu : n ≠ sUnless) :
    lexAll s [sym o, sym sSlash, wrd n, sym c] = .ok (s.emit c ⟨.sectionEnd, n⟩) := by
  simp only [sIf, sUnless, ne_eq] at hi hu
  lex_start s h hb <;> lex_eval <;> simp [hi, hu]

/-- `{{/if}}` -/
theorem C10_lex_end_if (s : LexState) (h : s.Ready) (o c : List Rune) (hb : Braces o c) :
    lexAll s [sym o, sym sSlash, wrd sIf, sym c] = .ok (s.emit c ⟨.sectionEnd, []⟩) := by
  lex_start s h hb <;> lex_eval

/-- `{{/unless}}` -/
theorem C10_lex_end_unless (s : LexState) (h : s.Ready) (o c : List Rune) (hb : Braces o c) :
    lexAll s [sym o, sym sSlash, wrd sUnless, sym c] = .ok (s.emit c ⟨.sectionEnd, []⟩) := by
  lex_start s h hb <;> lex_eval

/-- `{{/if n}}`, `{{/unless n}}`: the name wins -/
theorem C10_lex_end_kw_name (s : LexState) (h : s.Ready) (o c : List Rune) (hb : Braces o c)
    (kw n : List Rune) (hk : kw = sIf ∨ kw = sUnless) :
    lexAll s [sym o, sym sSlash, wrd kw, wrd n, sym c] = .ok (s.emit c ⟨.sectionEnd, n⟩) := by
  rcases hk with rfl | rfl <;> lex_start s h hb <;> lex_eval

/-- `{{^if n}}`, `{{^unless n}}` are rejected -/
theorem C10_lex_caret_kw_name (s : LexState) (h : s.Ready) (o c : List Rune) (hb : Braces o c)
    (kw n : List Rune) (hk : kw = sIf ∨ kw = sUnless) :
    lexAll s [sym o, sym sCaret, wrd kw, wrd n, sym c] = .error .internal := by
  rcases hk with rfl | rfl <;> lex_start s h hb <;> lex_eval

/-- `{{x}}}` -/
theorem C10_lex_brace_mismatch23 (s : LexState) (h : s.st = .value) (n : List Rune) :
    lexAll s [sym sOpen2, wrd n, sym sClose3] = .error .mismatchedBrackets := by
  obtain ⟨st, closing, op1, op2, var, out⟩ := s
  simp only at h
  subst h
  lex_eval

/-- `{{{x}}` -/
theorem C10_lex_brace_mismatch32 (s : LexState) (h : s.st = .value) (n : List Rune) :
    lexAll s [sym sOpen3, wrd n, sym sClose2] = .error .mismatchedBrackets := by
  obtain ⟨st, closing, op1, op2, var, out⟩ := s
  simp only at h
  subst h
  lex_eval

/-- `{{! … }}` -/
theorem C10_lex_comment (s : LexState) (h : s.Ready) (o c : List Rune) (hb : Braces o c)
    (junk : List Tok) (hj : ∀ t ∈ junk, isCloser t.value = false) :
    lexAll s ([sym o, sym sBang] ++ junk ++ [sym c]) = .ok (s.emit c ⟨.comment, []⟩) := by
  rw [List.append_assoc, lexAll_append]
  lex_start s h hb
  · have h1 : lexAll ⟨.value, closing, [], [], [], out⟩ [sym sOpen2, sym sBang] =
        .ok ⟨.comment, sClose2, sBang, [], [], out⟩ := by lex_eval
    rw [h1]
    simp only
    rw [lexAll_append, lexAll_comment_skip _ rfl junk hj]
    lex_eval
  · have h1 : lexAll ⟨.value, closing, [], [], [], out⟩ [sym sOpen3, sym sBang] =
        .ok ⟨.comment, sClose3, sBang, [], [], out⟩ := by lex_eval
    rw [h1]
    simp only
    rw [lexAll_append, lexAll_comment_skip _ rfl junk hj]
    lex_eval

/-- the input ends inside a tag -/
theorem C10_lex_unclosed_tag (pre : List Tok) (s : LexState) (hp : lexAll {} pre = .ok s)
    (hs : s.st = .value) (o c : List Rune) (hb : Braces o c) (n : List Rune) :
    lexical (pre ++ [sym o, wrd n]) = .error .unexpectedEnd := by
  unfold lexical
  rw [lexAll_append, hp]
  obtain ⟨st, closing, op1, op2, var, out⟩ := s
  simp only at hs
  subst hs
  rcases hb with ⟨rfl, rfl⟩ | ⟨rfl, rfl⟩ <;> lex_eval

/-- the input ends right after the opening braces -/
theorem C10_lex_unclosed_open (pre : List Tok) (s : LexState) (hp : lexAll {} pre = .ok s)
    (hs : s.st = .value) (o c : List Rune) (hb : Braces o c) :
    lexical (pre ++ [sym o]) = .error .unexpectedEnd := by
  unfold lexical
  rw [lexAll_append, hp]
  obtain ⟨st, closing, op1, op2, var, out⟩ := s
  simp only at hs
  subst hs
  rcases hb with ⟨rfl, rfl⟩ | ⟨rfl, rfl⟩ <;> lex_eval


/-- between tags the registers are cleared, so the tag theorems apply in every reachable state -/
theorem C10_lex_ready (toks : List Tok) (s : LexState) (h : lexAll {} toks = .ok s)
    (hv : s.st = .value) : s.Ready := lexAll_ready toks s h hv

/-! ### 5b. whole templates: every spelling of every tag, whitespace anywhere -/

/-- the spellings (as tokenizer tokens) of one flat token -/
inductive TagSpelling : List Tok → MFlat → Prop where
  | text (v : List Rune) (l c : Nat) : TagSpelling [⟨TT.special, v, l, c⟩] ⟨.value, v⟩
  | var (o c : List Rune) (hb : Braces o c) (n : List Rune) :
      TagSpelling [sym o, wrd n, sym c] ⟨varTyp c, n⟩
  | sectionHash (o c : List Rune) (hb : Braces o c) (n : List Rune) :
      TagSpelling [sym o, sym sHash, wrd n, sym c] ⟨.section, n⟩
  | sectionIf (o c : List Rune) (hb : Braces o c) (n : List Rune) :
      TagSpelling [sym o, sym sHash, wrd sIf, wrd n, sym c] ⟨.section, n⟩
  | invertedCaret (o c : List Rune) (hb : Braces o c) (n : List Rune) :
      TagSpelling [sym o, sym sCaret, wrd n, sym c] ⟨.invertedSection, n⟩
  | invertedUnless (o c : List Rune) (hb : Braces o c) (n : List Rune) :
      TagSpelling [sym o, sym sHash, wrd sUnless, wrd n, sym c] ⟨.invertedSection, n⟩
  | endName (o c : List Rune) (hb : Braces o c) (n : List Rune) (hi : n ≠ sIf) (hu : n ≠ sUnless) :
      TagSpelling [sym o, sym sSlash, wrd n, sym c] ⟨.sectionEnd, n⟩
  | endIf (o c : List Rune) (hb : Braces o c) :
      TagSpelling [sym o, sym sSlash, wrd sIf, sym c] ⟨.sectionEnd, []⟩
  | endUnless (o c : List Rune) (hb : Braces o c) :
      TagSpelling [sym o, sym sSlash, wrd sUnless, sym c] ⟨.sectionEnd, []⟩
  | comment (o c : List Rune) (hb : Braces o c) (junk : List Tok)
      (hj : ∀ t ∈ junk, isCloser t.value = false) :
      TagSpelling ([sym o, sym sBang] ++ junk ++ [sym c]) ⟨.comment, []⟩
  /-- whitespace tokens and token positions do not matter -/
  | padded (toks toks' : List Tok) (t : MFlat) (h : TagSpelling toks t)
      (hw : toks'.filter (fun t => !isWsTok t) = toks.filter (fun t => !isWsTok t)) : TagSpelling toks' t

/-- the spellings of a sequence of flat tokens -/
inductive Spelling : List Tok → List MFlat → Prop where
  | nil : Spelling [] []
  | cons (toks rest : List Tok) (t : MFlat) (fl : List MFlat) :
      TagSpelling toks t → Spelling rest fl → Spelling (toks ++ rest) (t :: fl)

theorem TagSpelling.lex {toks : List Tok} {t : MFlat} (h : TagSpelling toks t) :
    ∀ s : LexState, s.Ready →
      ∃ s', lexAll s toks = .ok s' ∧ s'.Ready ∧ s'.out = s.out ++ [t] := by
  induction h with
  | text v l c =>
    intro s hs
    refine ⟨{ s with out := s.out ++ [⟨.value, v⟩] }, ?_, ?_, rfl⟩
    · simp only [lexAll, C10_lex_text s hs.1 v l c]
    · exact ⟨hs.1, hs.2.1, hs.2.2.1, hs.2.2.2⟩
  | var o c hb n => intro s hs; exact ⟨_, C10_lex_variable s hs o c hb n, s.emit_ready _ _, rfl⟩
  | sectionHash o c hb n => intro s hs; exact ⟨_, C10_lex_section s hs o c hb n, s.emit_ready _ _, rfl⟩
  | sectionIf o c hb n => intro s hs; exact ⟨_, C10_lex_section_if s hs o c hb n, s.emit_ready _ _, rfl⟩
  | invertedCaret o c hb n => intro s hs; exact ⟨_, C10_lex_inverted s hs o c hb n, s.emit_ready _ _, rfl⟩
  | invertedUnless o c hb n =>
    intro s hs; exact ⟨_, C10_lex_inverted_unless s hs o c hb n, s.emit_ready _ _, rfl⟩
  | endName o c hb n hi hu => intro s hs; exact ⟨_, C10_lex_end s hs o c hb n hi hu, s.emit_ready _ _, rfl⟩
  | endIf o c hb => intro s hs; exact ⟨_, C10_lex_end_if s hs o c hb, s.emit_ready _ _, rfl⟩
  | endUnless o c hb => intro s hs; exact ⟨_, C10_lex_end_unless s hs o c hb, s.emit_ready _ _, rfl⟩
  | comment o c hb junk hj => intro s hs; exact ⟨_, C10_lex_comment s hs o c hb junk hj, s.emit_ready _ _, rfl⟩
  | padded toks toks' t _ hw ih =>
    intro s hs
    rw [lexAll_filter_ws s toks', hw, ← lexAll_filter_ws s toks]
    exact ih s hs

theorem Spelling.lex {toks : List Tok} {fl : List MFlat} (h : Spelling toks fl) :
    ∀ s : LexState, s.Ready →
      ∃ s', lexAll s toks = .ok s' ∧ s'.Ready ∧ s'.out = s.out ++ fl := by
  induction h with
  | nil => intro s hs; exact ⟨s, rfl, hs, by simp⟩
  | cons toks rest t fl ht _ ih =>
    intro s hs
    obtain ⟨s1, h1, hr1, ho1⟩ := ht.lex s hs
    obtain ⟨s2, h2, hr2, ho2⟩ := ih s1 hr1
    refine ⟨s2, ?_, hr2, ?_⟩
    · rw [lexAll_append, h1]; exact h2
    · rw [ho2, ho1]; simp

/-- the lexical analysis of any spelling of a flat token sequence yields that sequence -/
theorem C10_lexical_spelling {toks : List Tok} {fl : List MFlat} (h : Spelling toks fl) :
    lexical toks = .ok fl := by
  obtain ⟨s', h1, hr, ho⟩ := h.lex {} ⟨rfl, rfl, rfl, rfl⟩
  unfold lexical
  rw [h1]
  simp only [hr.1, ho]
  simp

/-- tokens → tree → text, for every spelling of a well-formed template -/
theorem C10_tokens_semantics (toks : List Tok) (ns : TNodes) (vars : List (List Rune × List Rune))
    (h : Spelling toks (flatten ns)) :
    ∃ fl t, lexical toks = .ok fl ∧ parseTop (fl.length + 1) fl = .ok t ∧
      renderToks vars t = .ok (refRender vars ns) :=
  ⟨flatten ns, toMToks ns, C10_lexical_spelling h, C10_parse_complete ns, C10_render_ref vars ns⟩

/-! ### 6. the variable lookup does not depend on the iteration order of the map -/

theorem C10_getVariable_order_independent {vars vars' : List (List Rune × List Rune)}
    (hd : (vars.map Prod.fst).Nodup) (hp : vars.Perm vars') (name : List Rune) :
    getVariable vars name = getVariable vars' name :=
  getVariable_perm hd hp name

/-- hence neither does the rendering -/
theorem C10_render_order_independent {vars vars' : List (List Rune × List Rune)}
    (hd : (vars.map Prod.fst).Nodup) (hp : vars.Perm vars') (ns : TNodes) :
    refRender vars ns = refRender vars' ns := by
  have hg : ∀ name, getVariable vars name = getVariable vars' name :=
    fun name => getVariable_perm hd hp name
  have hi : ∀ name, isDefined vars name = isDefined vars' name := by
    intro name; simp only [isDefined, hg]
  induction ns using flatten.induct with
  | case1 => rfl
  | case2 s r ih => simp only [refRender, ih]
  | case3 n r ih => simp only [refRender, ih, hg]
  | case4 n r ih => simp only [refRender, ih, hg]
  | case5 r ih => simp only [refRender, ih]
  | case6 inv nm body cbn r ihb ihr => simp only [refRender, ihb, ihr, hi]

/-- the full characterisation of the lookup: empty name → nothing; an exact key wins; otherwise
nothing if no key matches case-insensitively, else the match with the smallest key -/
theorem C10_getVariable_spec (vars : List (List Rune × List Rune)) (name : List Rune) :
    (name = [] ∧ getVariable vars name = none) ∨
    (name ≠ [] ∧ ∃ e ∈ vars, e.1 = name ∧ getVariable vars name = some e.2) ∨
    (name ≠ [] ∧ (∀ e ∈ vars, e.1 ≠ name) ∧
      (∀ e ∈ vars, lowerFullStr e.1 ≠ lowerFullStr name) ∧ getVariable vars name = none) ∨
    (name ≠ [] ∧ (∀ e ∈ vars, e.1 ≠ name) ∧
      ∃ e, IsBest vars name e ∧ getVariable vars name = some e.2) :=
  getVariable_spec vars name

/-! ### 7. names are matched case-insensitively -/

theorem C10_case_insensitive (k v name : List Rune) (h : lowerFullStr k = lowerFullStr name)
    (hn : name ≠ []) : getVariable [(k, v)] name = some v := by
  rcases getVariable_spec [(k, v)] name with ⟨h0, _⟩ | ⟨_, e, he, _, hr⟩ | ⟨_, _, hnl, _⟩ |
      ⟨_, _, e, hb, hr⟩
  · exact absurd h0 hn
  · simp only [List.mem_singleton] at he
    subst he
    exact hr
  · exact absurd h (hnl (k, v) (List.mem_singleton.mpr rfl))
  · have he := hb.1
    simp only [List.mem_singleton] at he
    subst he
    exact hr

theorem C10_missing (vars : List (List Rune × List Rune)) (name : List Rune)
    (h : ∀ e ∈ vars, lowerFullStr e.1 ≠ lowerFullStr name) : getVariable vars name = none := by
  rcases getVariable_spec vars name with ⟨_, hr⟩ | ⟨_, e, he, hk, _⟩ | ⟨_, _, _, hr⟩ |
      ⟨_, _, e, hb, _⟩
  · exact hr
  · exact absurd (by rw [hk]) (h e he)
  · exact hr
  · exact absurd hb.2.1 (h e hb.1)

/-- an exact key wins over every case-insensitive match -/
theorem C10_exact_first (vars : List (List Rune × List Rune)) (name v : List Rune)
    (hd : (vars.map Prod.fst).Nodup) (hn : name ≠ []) (h : (name, v) ∈ vars) :
    getVariable vars name = some v := by
  rcases getVariable_spec vars name with ⟨h0, _⟩ | ⟨_, e, he, hk, hr⟩ | ⟨_, hne, _, _⟩ |
      ⟨_, hne, _, _, _⟩
  · exact absurd h0 hn
  · have : e = (name, v) := DistinctKeys.eq_of_key_eq hd he h hk
    rw [hr, this]
  · exact absurd rfl (hne _ h)
  · exact absurd rfl (hne _ h)

/-- a variable that is missing or empty: sections are skipped, inverted sections rendered -/
theorem C10_isDefined_iff (vars : List (List Rune × List Rune)) (name : List Rune) :
    isDefined vars name = true ↔ ∃ v, getVariable vars name = some v ∧ v ≠ [] := by
  unfold isDefined
  cases getVariable vars name with
  | none => simp
  | some v => cases v <;> simp

/-! ### 8. non-vacuity: concrete templates, evaluated by the kernel -/

/-- `a{{#x}}{{y}}{{/x}}{{^x}}{{{y}}}{{/unless}}` -/
def exTree : TNodes :=
  .cons (.text [97]) (.cons (.section false [120] (.cons (.var [121]) .nil) true)
    (.cons (.section true [120] (.cons (.escaped [121]) .nil) false) .nil))

example : flatten exTree =
    [⟨.value, [97]⟩, ⟨.section, [120]⟩, ⟨.variable, [121]⟩, ⟨.sectionEnd, [120]⟩,
     ⟨.invertedSection, [120]⟩, ⟨.escapedVariable, [121]⟩, ⟨.sectionEnd, []⟩] := by decide

example : parseTop 8 (flatten exTree) = .ok (toMToks exTree) := by rfl

/-- `x = "1"`, `y = "b/"`: the section is rendered, the inverted section is not -/
example : renderToks [([120], [49]), ([121], [98, 47])] (toMToks exTree) = .ok [97, 98, 47] := by rfl

/-- `x = ""`, `y = "b/"`: the section is skipped, the inverted section rendered with escaping -/
example : renderToks [([120], []), ([121], [98, 47])] (toMToks exTree) = .ok [97, 98, 92, 47] := by rfl

/-- no variables at all -/
example : renderToks [] (toMToks exTree) = .ok [97] := by rfl

/-- rejection: `{{#x}}a{{/y}}` -/
example : parseTop 4 [⟨.section, [120]⟩, ⟨.value, [97]⟩, ⟨.sectionEnd, [121]⟩] =
    .error .unexpectedSectionEnd := by rfl

/-- the lexical analysis of `a{{#if x}}{{ y }}{{/if}}` -/
example : lexical [⟨TT.special, [97], 1, 1⟩, sym sOpen2, sym sHash, wrd sIf, ws, wrd [120], sym sClose2,
      sym sOpen2, ws, wrd [121], ws, sym sClose2, sym sOpen2, sym sSlash, wrd sIf, sym sClose2] =
    .ok [⟨.value, [97]⟩, ⟨.section, [120]⟩, ⟨.variable, [121]⟩, ⟨.sectionEnd, []⟩] := by rfl

end Verif
