package main

import (
	"fmt"
	"sort"
	"strings"

	rio "github.com/pip-services3-gox/pip-services3-expressions-gox/io"
	"github.com/pip-services3-gox/pip-services3-expressions-gox/tokenizers"
	"github.com/pip-services3-gox/pip-services3-expressions-gox/tokenizers/generic"
)

// C16: symbol tables return the longest registered symbol with its own type.

type symReg struct {
	sym []rune
	typ int
}

// symMaxTokens > 0: only that many tokens of an input are read (very long symbols make every later token as expensive as the first)
var symMaxTokens = 0

type symStateTable struct{ st *generic.GenericSymbolState }

func (t symStateTable) Add(value string, tokenType int) { t.st.Add(value, tokenType) }
func (t symStateTable) NextToken(scanner rio.IScanner) *tokenizers.Token {
	return t.st.NextToken(scanner, nil)
}

func runSymCase(c *Ctx, regs []symReg, input []rune, rereads int) {
	var sb strings.Builder
	sb.WriteString("sym")
	for _, r := range regs {
		fmt.Fprintf(&sb, " %s:%d", runesStr(r.sym), r.typ)
	}
	sb.WriteString(" ! ")
	sb.WriteString(runesStr(input))
	op := sb.String()
	var oracle string
	impl := safeCall(func() string {
		// the table is filled and read through the symbol STATE (the public way) or directly through its root node
		var root interface {
			Add(value string, tokenType int)
			NextToken(scanner rio.IScanner) *tokenizers.Token
		} = generic.NewSymbolRootNode()
		if (len(input)+len(regs))%2 == 1 {
			root = symStateTable{generic.NewGenericSymbolState()}
		}
		for i, r := range regs {
			root.Add(string(r.sym), r.typ)
			if i < len(regs)-1 {
				// use / register / use: the table is used between registrations (nothing a scan looked up
				// before a registration may be remembered after it)
				sc := rio.NewStringScanner(string(input))
				for n := 0; sc.Peek() != -1 && n < len(input)+2 && (symMaxTokens == 0 || n < symMaxTokens); n++ {
					root.NextToken(sc)
				}
			}
		}
		var first string
		// repeated reads from one tree (the D03 pattern): every pass must give the same tokens
		for pass := 0; pass <= rereads; pass++ {
			sc := rio.NewStringScanner(string(input))
			var ts []tk
			pos := 0
			for sc.Peek() != -1 {
				t := root.NextToken(sc)
				v := []rune(t.Value())
				ts = append(ts, tk{Typ: t.Type(), Val: v, Line: t.Line(), Col: t.Column()})
				// direct oracle: longest registered prefix of the remaining input, else one char
				rest := input[pos:]
				best := []rune(nil)
				bestTyp := tokenizers.Symbol
				for _, r := range regs { // later registrations override the type
					if len(r.sym) <= len(rest) && sameRunes(r.sym, rest[:len(r.sym)]) && len(r.sym) >= len(best) {
						best = r.sym
						bestTyp = r.typ
					}
				}
				if best == nil {
					best = rest[:1]
				} else {
					// type: that of the latest registration of exactly `best`
					for _, r := range regs {
						if sameRunes(r.sym, best) {
							bestTyp = r.typ
						}
					}
				}
				if oracle == "" && (!sameRunes(v, best) || t.Type() != bestTyp) {
					oracle = fmt.Sprintf("pass %d at offset %d: got %d:%q, longest registered prefix is %d:%q", pass, pos, t.Type(), string(v), bestTyp, string(best))
				}
				pos += len(v)
				if len(v) == 0 || (symMaxTokens > 0 && len(ts) >= symMaxTokens) {
					break
				}
			}
			s := showTks(ts)
			if pass == 0 {
				first = s
			} else if s != first && oracle == "" {
				oracle = fmt.Sprintf("pass %d over the same tree gives %s, first pass gave %s", pass, s, first)
			}
		}
		return first
	})
	multi := 0
	for _, r := range regs {
		if len(r.sym) > 1 {
			multi++
		}
	}
	c.record(op, multi >= 1 && len(input) >= 2)
	c.count(fmt.Sprintf("regs:%d", len(regs)))
	if strings.HasPrefix(impl, "panic:") {
		c.fail(Failure{Kind: "oracle", Op: op, Impl: impl, Note: "symbol table panicked"})
		return
	}
	if oracle != "" {
		c.fail(Failure{Kind: "oracle", Op: op, Impl: impl, Note: oracle})
		return
	}
	for _, r := range regs {
		if r.typ < 0 || len(r.sym) > 5000 {
			return // negative type codes / symbols of tens of thousands of characters: judged by the direct oracle only
		}
	}
	c.model(op, impl, "model")
}

func propC16(c *Ctx) {
	propScaleTables(c, "C16")
	alpha := []rune{'<', '=', '>'}
	var pool [][]rune
	enumStrings(alpha, 3, func(s []rune) {
		if len(s) > 0 {
			pool = append(pool, append([]rune(nil), s...))
		}
	})
	var inputs [][]rune
	maxIn := 4
	enumStrings(alpha, maxIn, func(s []rune) {
		if len(s) > 0 {
			inputs = append(inputs, append([]rune(nil), s...))
		}
	})
	types := []int{tokenizers.Symbol, tokenizers.Special, tokenizers.Eol, tokenizers.Keyword, tokenizers.Word}
	// exhaustive: every subset of size <= 2 (quick) / <= 3 (thorough) of the 39 strings, every order, distinct types
	maxSet := 2
	if c.Thorough {
		maxSet = 3
	}
	var rec func(cur []symReg, used map[string]bool)
	rec = func(cur []symReg, used map[string]bool) {
		if len(cur) > 0 {
			for _, in := range inputs {
				if c.Thorough || len(in) <= 3 || c.Rng.Intn(4) == 0 {
					runSymCase(c, append([]symReg(nil), cur...), in, 1)
				}
			}
		}
		if len(cur) == maxSet {
			return
		}
		for _, p := range pool {
			if used[string(p)] {
				continue
			}
			used[string(p)] = true
			rec(append(cur, symReg{p, types[len(cur)%len(types)]}), used)
			used[string(p)] = false
		}
	}
	rec(nil, map[string]bool{})
	c.Notes = append(c.Notes, fmt.Sprintf("exhaustive: every ordered selection of <= %d of the 39 strings of length 1..3 over {<,=,>} with distinct token types x inputs of length <= %d, each tree read twice", maxSet, maxIn))
	// random larger sets incl. re-registration, non-Latin symbols, longer inputs
	n := 4000
	if c.Thorough {
		n = 100000
	}
	// type codes are the caller's: codes beyond the built-in ones and beyond 32 bits come back unchanged; a multi-character
	// symbol registered with the code of Unknown (0) is a registered symbol like any other
	for _, big := range []int{1<<32 | 7, 1 << 40, 1<<31 + 9, 255, 256, 65536 + 7, tokenizers.Unknown} {
		for _, in := range []string{"<=x", "<=>", "<<=", "=<=", "<"} {
			runSymCase(c, []symReg{{[]rune("<"), tokenizers.Symbol}, {[]rune("<="), big}, {[]rune("<=>"), tokenizers.Keyword}}, []rune(in), 1)
			runSymCase(c, []symReg{{[]rune("<=>"), big}, {[]rune("<="), tokenizers.Symbol}}, []rune(in), 1)
		}
	}
	// characters that share their low 16 bits with a symbol character are other characters; a symbol may begin with any
	// character, U+FEFF and NUL included
	for _, in := range [][]rune{{'<', 0x1003d}, {'<', 0x1003d, '>'}, {'<', '=', 0x1003e}, {0x1003c, '='}, {'<', 0x2003d, 0x1003e}, {'<', 0x10003d}} {
		runSymCase(c, []symReg{{[]rune("<"), tokenizers.Symbol}, {[]rune("<="), tokenizers.Keyword}, {[]rune("<=>"), tokenizers.Special}}, in, 1)
		runSymCase(c, []symReg{{[]rune("<=>"), tokenizers.Special}}, in, 1)
	}
	for _, first := range []rune{0xfeff, 0, 0xfffe, 0x2028, ' ', '\n'} {
		two := []rune{first, '='}
		for _, in := range [][]rune{{first, '=', 'x'}, {'=', first, '='}, {first}, {first, first, '='}, {'=', '='}} {
			runSymCase(c, []symReg{{[]rune("="), tokenizers.Symbol}, {two, tokenizers.Keyword}}, in, 1)
			runSymCase(c, []symReg{{two, tokenizers.Keyword}, {[]rune("="), tokenizers.Symbol}, {[]rune{first, '=', '='}, tokenizers.Special}}, in, 1)
		}
	}
	// a symbol longer than 65536 characters: an input that follows it almost to its end falls back over all those characters
	{
		long := repeatTo("<=>", 65540)
		regs := []symReg{{long, tokenizers.Keyword}, {[]rune("<="), tokenizers.Symbol}}
		symMaxTokens = 3
		for _, cut := range []int{65538} {
			in := append(append([]rune(nil), long[:cut]...), 'x')
			runSymCase(c, regs, in[:cut+1], 0)
		}
		runSymCase(c, regs, append(append([]rune(nil), long...), '<', '='), 0)
		symMaxTokens = 0
	}
	for _, neg := range []int{-1, -7, -1 << 40} {
		for _, in := range []string{"@x", "@@", "@", "@@@", "x@"} {
			runSymCase(c, []symReg{{[]rune("@"), neg}, {[]rune("@@"), tokenizers.Keyword}}, []rune(in), 1)
			runSymCase(c, []symReg{{[]rune("@@"), tokenizers.Keyword}, {[]rune("@"), neg}, {[]rune("@@@"), neg - 1}}, []rune(in), 1)
		}
	}
	wide := []rune{'<', '=', '>', '!', 0x4e16, 0xe9, 'a'}
	for i := 0; i < n; i++ {
		k := 1 + c.Rng.Intn(7)
		regs := make([]symReg, k)
		for j := range regs {
			l := 1 + c.Rng.Intn(4)
			s := make([]rune, l)
			for x := range s {
				s[x] = wide[c.Rng.Intn(len(wide))]
			}
			regs[j] = symReg{s, types[c.Rng.Intn(len(types))]}
		}
		var in []rune
		m := c.Rng.Intn(12)
		for len(in) < m {
			if c.Rng.Intn(2) == 0 {
				in = append(in, regs[c.Rng.Intn(k)].sym...)
			} else {
				in = append(in, wide[c.Rng.Intn(len(wide))])
			}
		}
		if len(in) == 0 {
			in = []rune{'<'}
		}
		runSymCase(c, regs, in, 2)
	}
	_ = sort.Ints
}

func replayC16(c *Ctx, op string) {
	f := strings.Fields(op)
	var regs []symReg
	i := 1
	for ; i < len(f) && f[i] != "!"; i++ {
		p := strings.Split(f[i], ":")
		var t int
		fmt.Sscanf(p[1], "%d", &t)
		regs = append(regs, symReg{parseRunes(p[0]), t})
	}
	var in []rune
	if i+1 < len(f) {
		in = parseRunes(f[i+1])
	}
	runSymCase(c, regs, in, 2)
}

func init() {
	props["C16"] = propC16
	replays["C16"] = replayC16
}
