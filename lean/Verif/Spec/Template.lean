/-
Reference semantics of Mustache templates (property C10): a well-formed template is a tree of
`TNode`s; its flat token sequence is `flatten`, its expected parse result `toMToks`, its expected
rendering `refRender`.
-/
import Verif.Model.Mustache

namespace Verif

mutual
inductive TNode where
  | text (s : List Rune)
  | var (name : List Rune)
  | escaped (name : List Rune)
  | comment
  /-- `inverted = false`: '#', '#if';  `true`: '^', '#unless'.  `closeByName = true`: closed by
  `/name`, otherwise by `/if` / `/unless` (an end tag without a name) -/
  | section (inverted : Bool) (name : List Rune) (body : TNodes) (closeByName : Bool)
inductive TNodes where
  | nil
  | cons (n : TNode) (rest : TNodes)
end

/-- the token type of a section opener -/
def secTyp (inverted : Bool) : MT := if inverted then .invertedSection else .section

/-- the flat token sequence (after lexical analysis) of a well-formed template -/
def flatten : TNodes → List MFlat
  | .nil => []
  | .cons (.text s) rest => ⟨.value, s⟩ :: flatten rest
  | .cons (.var n) rest => ⟨.variable, n⟩ :: flatten rest
  | .cons (.escaped n) rest => ⟨.escapedVariable, n⟩ :: flatten rest
  | .cons .comment rest => ⟨.comment, []⟩ :: flatten rest
  | .cons (.section inv name body cbn) rest =>
    ⟨secTyp inv, name⟩ :: (flatten body ++ ⟨.sectionEnd, if cbn then name else []⟩ :: flatten rest)

/-- the expected result tree -/
def toMToks : TNodes → MToks
  | .nil => .nil
  | .cons (.text s) rest => .cons (.mk .value s .nil) (toMToks rest)
  | .cons (.var n) rest => .cons (.mk .variable n .nil) (toMToks rest)
  | .cons (.escaped n) rest => .cons (.mk .escapedVariable n .nil) (toMToks rest)
  | .cons .comment rest => .cons (.mk .comment [] .nil) (toMToks rest)
  | .cons (.section inv name body _) rest =>
    .cons (.mk (secTyp inv) name (toMToks body)) (toMToks rest)

/-- reference rendering: text verbatim, a variable its value or nothing, an escaped variable its
JSON-style escaped value (one pass, `escapeStr`), a comment nothing, a section its body iff its
variable is defined (present and non-empty), an inverted section its body iff it is not -/
def refRender (vars : List (List Rune × List Rune)) : TNodes → List Rune
  | .nil => []
  | .cons (.text s) rest => s ++ refRender vars rest
  | .cons (.var n) rest => (getVariable vars n).getD [] ++ refRender vars rest
  | .cons (.escaped n) rest => escapeStr ((getVariable vars n).getD []) ++ refRender vars rest
  | .cons .comment rest => refRender vars rest
  | .cons (.section inv name body _) rest =>
    (if isDefined vars name != inv then refRender vars body else []) ++ refRender vars rest

end Verif
