#!/usr/bin/env python3
"""Regenerates seeded/RESULTS.md and the per-property bullet list of DESIGN.md section 5 (between the
markers <!-- seeded-list:begin --> and <!-- seeded-list:end -->) from seeded/*/meta.json."""
import json, os, re, glob
ROOT = os.path.dirname(os.path.dirname(os.path.abspath(__file__)))
metas = {}
for p in sorted(glob.glob(os.path.join(ROOT, "seeded", "C*-*", "meta.json"))):
    d = json.load(open(p)); metas[d["id"]] = d
def strengthened(v):
    return "VIOLATION" in v and (v.startswith(("missed", "not caught at first", "tie", "correspondence")) or " after " in v[:250]
                                 or "first run:" in v or "added" in v[:250] or "at first" in v[:250])
def clean(s):
    s = re.sub(r"^(C\d\d\s*/\s*)?[Mm]utant\s+[AB]\s*[—-]+\s*", "", s.strip())
    return s
rows = ["# Seeded changes and which checks catch them", "",
        "Each row is a source change produced by a sub-agent from the text of one property only (scratch worktree, nothing from /verif), confirmed here: it applies, `go test ./...` passes with it, its demonstration test fails with it and passes without it.  `tools/mutcheck.sh /verif/seeded/<id>/patch.diff Cxx …` runs the quick checks on a private copy against a scratch worktree carrying the change.  \"VIOLATION with failing input\" = the check exits 1 with a replay file holding a concrete input; \"tie/correspondence only\" = exits 1 with `no-failing-input-found`.  Suffixes: A/B round 1, C/D round 2, E/F round 3, G/H round 4, I/J round 5, K/L round 6, M/N round 7, O/P round 8, Q/R round 9, S/T round 10, U/V round 11 and W/X round 12 (ten properties each).", "",
        "| id | change | detection |", "|---|---|---|"]
for k, d in metas.items():
    det = "; ".join("**%s**: %s" % (p, v.replace("|", "\\|")[:420]) for p, v in d["detection"].items())
    rows.append("| %s | %s | %s |" % (k, d["summary"].replace("|", "\\|")[:200], det))
open(os.path.join(ROOT, "seeded", "RESULTS.md"), "w").write("\n".join(rows) + "\n")
# DESIGN list
byprop = {}
for k, d in metas.items():
    byprop.setdefault(k[:3], []).append((k[4:], d))
lines = []
for p in sorted(byprop):
    parts = []
    for suf, d in sorted(byprop[p]):
        marks = []
        for q, v in d["detection"].items():
            m = q
            if strengthened(v):
                m += "*"
            if "no-failing-input-found" in v and "VIOLATION with failing input" not in v:
                m += "°"
            if v.startswith("not caught") and "VIOLATION" not in v:
                continue
            marks.append(m)
        parts.append("**%s** %s → %s" % (suf, clean(d["summary"])[:100], ", ".join(marks)))
    lines.append("* **%s** — %s" % (p, "; ".join(parts)))
dp = os.path.join(ROOT, "DESIGN.md")
s = open(dp).read()
b, e = "<!-- seeded-list:begin -->", "<!-- seeded-list:end -->"
if b in s:
    s = s[:s.index(b) + len(b)] + "\n" + "\n".join(lines) + "\n" + s[s.index(e):]
    open(dp, "w").write(s)
own = sum(1 for k, d in metas.items() if "VIOLATION with failing input" in d["detection"].get(k[:3], ""))
star = sum(1 for k, d in metas.items() if strengthened(d["detection"].get(k[:3], "")))
print(len(metas), "changes;", own, "reported with a failing input by their own property;", star, "only after strengthening")
