HOOK_COMMITS = []

_NOTE = ("Trusted: Lean kernel; axioms propext/Classical.choice/Quot.sound only; the Go harness and generators; "
         "the Lean compiler producing the model driver. The model is hand-written and tied to /repo by the "
         "differential run of this check on every invocation (not proved).")

LEVEL = {
    "C11": {
        "text": "Lean theorems over a statement-level model of StringScanner: for every content and every operation history, line/column are a function of the cursor position (= fresh forward scan), read/unread/peek/reset behave as a cursor with one EOF slot, peeked line/column = those after the next read. Model tied to the Go code by exhaustive small-scope + random differential runs and a direct forward-scan oracle.",
        "design_ref": "DESIGN.md 4/C11", "note": _NOTE, "technique": "Lean 4 proof (invariant by induction over operation histories) + model/implementation correspondence check",
    },
    "C17": {
        "text": "Second sentence of the property as theorems over the configuration model (Props/C17Tok.lean): after any history of SetCharacterState / ClearCharacterStates / SetWordChars / SetWhitespaceChars on a constructed tokenizer every character is handed to the state of the latest covering registration, a nil registration disables it; tied by 3000+ user-configured tokenizers per run. Lean theorem C17_lookup_latest: for every registration history and every character the model's Lookup equals the reference of the most recent covering registration after the last Clear; tied to CharReferenceMap by exhaustive histories over the boundary endpoint set and random histories, comparing returned references by identity.",
        "design_ref": "DESIGN.md 4/C17", "note": _NOTE, "technique": "Lean 4 proof (induction over registration histories, refinement to a latest-registration spec) + correspondence check",
    },
}

LEVEL["C14"] = {
    "text": "Lean theorems: decode∘encode = id for every string and quote character for all three quote states, decode is total and shape-preserving on non-literals, and for the expression/CSV states the encoded form placed in a stream is read back as exactly one token that decodes to the original (induction over the string). Tied to the Go quote states by exhaustive small-scope and random differential runs plus a direct round-trip oracle.",
    "design_ref": "DESIGN.md 4/C14", "note": _NOTE, "technique": "Lean 4 proof (round-trip laws by structural induction) + model/implementation correspondence check",
}

LEVEL["C16"] = {
    "text": "Lean theorems over the symbol-trie model: invariant of the table after any registration list, and C16_next_is_longest — for all registration lists (any order, shared prefixes, re-registration) and all inputs the symbol state returns the longest registered prefix (or one character) with the type of its latest registration and consumes exactly that many characters; later registrations never change existing symbols. Tied to SymbolRootNode by exhaustive small-scope and random differential runs with repeated reads.",
    "design_ref": "DESIGN.md 4/C16", "note": _NOTE, "technique": "Lean 4 proof (data-structure invariant by induction over registrations + longest-match characterisation) + correspondence check",
}

_TOKNOTE = _NOTE + " Theorems cover all four built-in tokenizers: generic, expression, csv (every separator/quote configuration) through tokenize_eq_streamSpec, and the mustache tokenizer's mode-alternating override through tokenize_mustache_eq (Props/MustacheTok.lean)."
LEVEL["C04"] = {
    "text": "Lean theorem C04_lossless for every input: token values concatenate to the input, only the final Eof is empty — proved from per-state segment lemmas (every state, incl. fall-back paths and the EOF slot, moves exactly a contiguous slice) and a main-loop induction. Tied to the Go tokenizers by exhaustive class-alphabet strings, lexeme soup and random inputs, compared token by token with the compiled model and with the concatenation oracle.",
    "design_ref": "DESIGN.md 4/C04", "note": _TOKNOTE, "technique": "Lean 4 proof (loop invariants / segment lemmas, induction over the input) + correspondence check",
}
LEVEL["C12"] = {
    "text": "Lean theorem C12_positions for every input and all 128 option sets: each token reports the forward-scan line/column of the first character of a whole raw token, the Eof token one column past the end; built on C11 and the C15 factorisation. Tied to the Go tokenizers by exhaustive multi-line small-scope strings and random inputs x option sets with a position oracle.",
    "design_ref": "DESIGN.md 4/C12", "note": _TOKNOTE, "technique": "Lean 4 proof (position lemmas per state + main-loop factorisation) + correspondence check",
}
LEVEL["C15"] = {
    "text": "Lean theorem C15_options_factor: for all 2^7 option sets and every input the token stream is the option-free segmentation with whole tokens dropped or rewritten (segmentation independent of options), with the per-option postconditions as corollaries. Tied to the Go tokenizers by all strings up to a small length x 128 option sets x 4 tokenizers and random/lexeme-soup inputs, with an oracle that post-processes the implementation's own option-free stream.",
    "design_ref": "DESIGN.md 4/C15", "note": _TOKNOTE, "technique": "Lean 4 proof (factorisation through a raw-segmentation spec, fuel-independence, induction on remaining input) + correspondence check",
}

LEVEL["C01"] = {
    "text": "Text level too (Props/C01Text.lean, C01Lit.lean): for every well-levelled tree with printable leaves the calculator applied to the characters of the rendered tree — trim, expression tokenizer under the parser's options, lexical analysis with exact decoding of numeric constants, parser, stack evaluator — returns the value of the tree (C01_text_calculate), any blank runs between lexemes give the same program, decimal constants are decoded exactly (nearest-even binary32 proved globally optimal). Lean theorems: compiler correctness of the RPN evaluator (run on post-order = direct tree evaluation, for every tree, environment and variant-operation table), parentheses/unary-plus irrelevance, left associativity, the precedence table; with C02_complete this is calculator = syntax-tree value. Tied to the Go calculator by generated trees in three parenthesisation modes under random typed assignments, the full operator-pair matrix, a Go-side tree evaluator as oracle and the Lean evaluator model run on the implementation's own compiled program.",
    "design_ref": "DESIGN.md 4/C01", "note": _NOTE, "technique": "Lean 4 proof (compiler correctness by mutual structural induction over syntax trees) + correspondence check",
}
LEVEL["C02"] = {
    "text": "Lean theorems: completeness (every sentence of the grammar is accepted and compiled to the post-order of its tree, explicit fuel bound = termination) and soundness (every accepted token sequence is the unparse of a well-levelled tree and the output its post-order) of the 7-level recursive-descent parser model. Tied to the Go parser by exhaustive token-class sequences, generated sentences and token-level mutants, with an independent CFG recogniser as accept/reject oracle.",
    "design_ref": "DESIGN.md 4/C02", "note": _NOTE, "technique": "Lean 4 proof (parser completeness + soundness w.r.t. a tree grammar, fuel monotonicity) + correspondence check",
}

LEVEL["C06"] = {
    "text": "Lean theorems for every operand pair and both managers: never a panic; Null propagation; second operand converted to the first operand's type; the same-type table is the host arithmetic (rfl-facts per operator and type); result types; comparison consistency (string order proved total, integer/date orders via omega); undefined operations are errors; list semantics of IN and indexing. Tied to the Go operators by the full boundary matrix compared bit-exactly with the compiled model plus direct consistency oracles. Partial: order consistency of float <=/>= and the numerical meaning of '^' rest on the host (checked by the stream, not proved).",
    "design_ref": "DESIGN.md 4/C06", "note": _NOTE, "technique": "Lean 4 proof (decision logic stated outright, case analysis over operator x type) + correspondence check",
}
LEVEL["C07"] = {
    "text": "Lean theorems: a successful conversion has the requested type; Object/own type return the value unchanged; the type-safe manager permits exactly the six numeric widenings and agrees with the type-unsafe one; integer<->long, boolean<->integer/long/string, integer/long<->time span (tight range), <->date-time and <->decimal string (all 64-bit values) round-trip. Tied to the Go converters by the full boundary matrix x 11 targets x 2 managers and direct round-trip oracles. Partial: round trips through float/double are host facts (stream only).",
    "design_ref": "DESIGN.md 4/C07", "note": _NOTE, "technique": "Lean 4 proof (case analysis over source x target, decimal print/parse inverse) + correspondence check",
}

LEVEL["C05"] = {
    "text": "Lean theorems over the tokenizer instance model: SetReader resets every mutable field so a re-used instance in any earlier state produces the tokens of a fresh one; HasNextToken is idempotent and transparent; every interleaving of has-next queries with next-token calls yields the same token sequence (all four tokenizers). Tied to the code — and extended to parser, calculator and template instances — by exhaustive ordered pairs from adversarial pools, aborted iterations, has-next patterns and random histories compared step by step with fresh instances.",
    "design_ref": "DESIGN.md 4/C05", "note": _NOTE + " Parser, calculator and template objects are modelled as state machines over the generated field lists (Model/Objects.lean) and proved history-independent (Props/C05Obj.lean); the reset-completeness of the Go structs is a Tie A fact, the behaviour is checked by the history streams.", "technique": "Lean 4 proof (state-machine invariants of the token cache, schedule-independence of has-next queries) + correspondence check",
}
LEVEL["C19"] = {
    "text": "PARTIAL. Lean theorems over an explicit-heap evaluator: evaluation only allocates (old cells unchanged on all paths), refines the pure evaluator, is repeatable after arbitrary other evaluations, and an abstract interleaving theorem (threads reading shared-immutable and writing private state get their sequential results under every schedule). Tied to the code by the write-effect inventory regenerated from the source on every run and by sequential purity checks; goroutine schedules are explored under the Go race detector as supporting evidence only.",
    "design_ref": "DESIGN.md 4/C19", "note": _NOTE + " The Go memory model, the scheduler and the completeness of the race detector are outside the model.", "technique": "Lean 4 proof (frame property of an allocating evaluator, refinement, schedule independence) + write-effect inventory + race-detector runs",
}

LEVEL["C10"] = {
    "text": "Lean theorems: escaping is a one-pass map; the section parser is complete for trees of any depth; rendering equals the reference semantics; every tag spelling is lexed to its flat token with blanks anywhere; unopened / unclosed / mismatched sections, mismatched brace counts and unclosed tags are rejected; variable lookup is case-insensitive and independent of the map's iteration order. Tied to the Go engine by generated template trees x variable maps against an independent reference renderer, exhaustive lexeme strings for accept/reject, and comparison of rendering, parse tree and variable list with the compiled model.",
    "design_ref": "DESIGN.md 4/C10", "note": _NOTE + " Text level included: parse after print is the identity and rendering the printed text of a tree equals the reference semantics (Props/C10Text.lean, on top of tokenize_mustache_eq).", "technique": "Lean 4 proof (refinement of parser+renderer to a reference semantics on template trees, state-machine lemmas per tag spelling) + correspondence check",
}

LEVEL["C08"] = {
    "text": "PARTIAL in the host functions. Lean theorems for all 37 functions: never a panic and always a value or one of 8 error codes; case-insensitive first-registration lookup; the exact arity table; Min/Max/Sum as folds, If/Choose selection, exact type-preserving Abs, rounding/sqrt/trunc and the transcendental functions as the host function applied to the converted argument, Contains = sublist, Empty, Array, TimeSpan, Date, DayOfWeek; fixed result types. Tied to the Go functions by names x argument lists x managers with direct oracles against Go's math, the call interval and the folds. The numerical meaning of libm, the clock and the random source are host terms.",
    "design_ref": "DESIGN.md 4/C08", "note": _NOTE, "technique": "Lean 4 proof (decision logic per function, folds, arity table) + correspondence check with host-term resolution",
}
LEVEL["C18"] = {
    "text": "Lean theorems: the parser reports exactly the identifiers in variable position once each in first-occurrence order (from the parser completeness/soundness proof); automatic variables keep existing entries and end with exactly one entry per case-insensitive name; lookups are case-insensitive with the first added winning; add/locate/remove/clear are the list operations. Tied to the code by generated expressions/templates with identifiers in every position and letter case, resolution cases and random collection operation sequences against list models.",
    "design_ref": "DESIGN.md 4/C18", "note": _NOTE, "technique": "Lean 4 proof (refinement of the collections to list operations; variable discovery from parser soundness) + correspondence check",
}
LEVEL["C20"] = {
    "text": "Lean theorems over a value model of Variant: host-type table and payload preservation (with the exact range for unsigned values and a kernel-checked counter-witness = known finding D30), growth with nulls and the pointwise specification of indexed writes, reflexivity/symmetry/array characterisation of Equals on float-free values. Copy-isolation is by construction in the value model and is what the differential run checks after every operation against a deep value model (no aliasing).",
    "design_ref": "DESIGN.md 4/C20", "note": _NOTE + " Aliasing is expressed in the pointer-level heap model (C20Heap.lean) which the operation stream is compared with.", "technique": "Lean 4 proof (value model laws + pointer-level heap model: invariant, isolation, refinement) + correspondence check",
}

LEVEL["C13"] = {
    "text": "Lean theorems: for each lexical class of the generic and the expression tokenizer a one-step theorem (the state cuts exactly that lexeme with that class when the following rune cannot extend it), and the sequence theorems: every pairwise-separated lexeme list tokenizes back to exactly those lexemes, classes and positions. Built on the segment lemmas, the symbol-table theorem (longest registered symbol wins) and the quote round trip. Tied to the Go tokenizers by random lexeme sequences from both lexical grammars with a lexeme-list oracle.",
    "design_ref": "DESIGN.md 4/C13", "note": _TOKNOTE, "technique": "Lean 4 proof (per-class lexeme lemmas + induction over separated lexeme sequences) + correspondence check",
}
LEVEL["C09"] = {
    "text": "Lean theorem C09_roundtrip: for every valid separator/quote configuration, line ending and table, regrouping the tokens of the written CSV text returns the original rows and fields (raw fields, quoted fields with embedded separators/line breaks/doubled quotes, empty fields, non-ASCII text; each line ending is one Eol token). Tied to the Go CSV tokenizer by random tables over 5 configurations and 4 line endings with a regrouping oracle.",
    "design_ref": "DESIGN.md 4/C09", "note": _TOKNOTE, "technique": "Lean 4 proof (round trip by induction over rows and fields from per-token lemmas) + correspondence check",
}

LEVEL["C03"] = {
    "text": "Lean theorems for every entry point of the model: parsing terminates with a coded result; every accepted program evaluates to a value or an error (no stack underflow, no failing assertion) for all managers and variable assignments; operators, conversions and functions never panic; all four tokenizers under all option sets produce a complete token list without running out of loop fuel; decoding is total; templates parse with a coded result and a parsed template always renders. Tied to the code by the panic-site inventory regenerated from the source on every run and by exhaustive/soup streams that classify every call as value / error / panic / neither / both / hang.",
    "design_ref": "DESIGN.md 4/C03", "note": _NOTE + " Process-level failures (stack exhaustion, out of memory) are not modelled.", "technique": "Lean 4 proof (totality / fuel-sufficiency theorems assembled from the parser, evaluator, value, tokenizer and mustache developments) + panic-site inventory + correspondence check",
}

NOT_APPLICABLE = {}
