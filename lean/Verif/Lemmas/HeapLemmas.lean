/-
Helper lemmas about the pointer-level variant model (Verif/Model/VariantHeap.lean) for C20Heap.

Vocabulary
* `refs c`        : the references stored in a cell
* `Reach h a b`   : `b` is reachable from `a` (reflexive, transitive) along stored references
* `ClosedOn h Q`  : the set of cells `Q` is closed under stored references
* `Closed h`      : every stored reference is in bounds
* `Acyclic h`     : no object is reachable from one of its own elements
* `WFh h`         : `Closed h ∧ Acyclic h` (the invariant; preserved by every operation, `assign`
                    under the condition that the destination is not nested inside the source)
* `FreshExt h h1` : `h1` extends `h` by fresh cells that refer only to EARLIER FRESH cells
* `trunc f v`     : the value `v` cut off below nesting level `f` (what `read` with fuel `f` sees)
-/
import Verif.Model.VariantHeap

namespace Verif

/-! ## nesting depth and truncation of values -/

mutual
/-- nesting depth: scalars (also `V.host`) 0, an array one more than its deepest element -/
def depth : V → Nat
  | .array es => depthList es + 1
  | _ => 0
def depthList : List V → Nat
  | [] => 0
  | e :: es => max (depth e) (depthList es)
end

mutual
/-- what remains visible of a value with `f` levels of fuel -/
def trunc : Nat → V → V
  | 0, _ => .null
  | f+1, .array es => .array (truncList f es)
  | _+1, v => v
def truncList : Nat → List V → List V
  | _, [] => []
  | f, e :: es => trunc f e :: truncList f es
end

theorem truncList_eq_map (f : Nat) : (es : List V) → truncList f es = es.map (trunc f)
  | [] => by simp [truncList]
  | e :: es => by simp [truncList, truncList_eq_map f es]

theorem trunc_zero (v : V) : trunc 0 v = .null := by
  cases v <;> simp [trunc]

theorem trunc_succ_array (f : Nat) (es : List V) :
    trunc (f+1) (.array es) = .array (es.map (trunc f)) := by
  simp [trunc, truncList_eq_map]

theorem trunc_succ_scalar (f : Nat) (v : V) (hv : ∀ es, v ≠ .array es) : trunc (f+1) v = v := by
  cases v <;> simp_all [trunc]

theorem depth_array (es : List V) : depth (.array es) = depthList es + 1 := by
  simp [depth]

theorem depth_le_depthList : (es : List V) → ∀ e ∈ es, depth e ≤ depthList es
  | [], _, h => by simp at h
  | a :: as, e, h => by
    simp only [List.mem_cons] at h
    simp only [depthList]
    rcases h with h | h
    · subst h; omega
    · have := depth_le_depthList as e h; omega

mutual
/-- enough fuel: nothing is cut off -/
theorem trunc_of_depth_lt : (v : V) → (f : Nat) → depth v < f → trunc f v = v
  | .array es, f, h => by
    cases f with
    | zero => omega
    | succ g =>
      simp only [depth] at h
      simp only [trunc]
      rw [truncList_of_depth_lt es g (by omega)]
  | .null, f, h | .int _, f, h | .long _, f, h | .float _, f, h | .double _, f, h
  | .str _, f, h | .bool _, f, h | .dateTime _ _, f, h | .timeSpan _, f, h | .object _, f, h
  | .host _ _, f, h => by
    cases f with
    | zero => omega
    | succ g => simp [trunc]
theorem truncList_of_depth_lt : (es : List V) → (f : Nat) → depthList es < f → truncList f es = es
  | [], _, _ => by simp [truncList]
  | e :: es, f, h => by
    simp only [depthList] at h
    simp only [truncList]
    rw [trunc_of_depth_lt e f (by omega), truncList_of_depth_lt es f (by omega)]
end

namespace VHeap

/-! ## cells, references, reading one level -/

/-- the references stored in a cell -/
def refs : HCell → List Nat
  | .scalar _ => []
  | .arr es => es

/-- the deep value of a cell whose elements are read with fuel `f` -/
def readCell (h : VHeap) (f : Nat) : HCell → V
  | .scalar v => v
  | .arr es => .array (es.map (read h f))

theorem read_zero (h : VHeap) (r : Nat) : read h 0 r = .null := rfl

theorem read_succ (h : VHeap) (f r : Nat) : read h (f+1) r = readCell h f (h.cell r) := by
  simp only [read]
  cases h.cell r <;> rfl

theorem cell_eq_getD (h : VHeap) (a : Nat) : h.cell a = (h.cells[a]?).getD (.scalar .null) := by
  simp [cell, List.getD_eq_getElem?_getD]

theorem cell_of_ge (h : VHeap) (a : Nat) (ha : h.cells.length ≤ a) : h.cell a = .scalar .null := by
  simp [cell_eq_getD, List.getElem?_eq_none ha]

theorem lt_of_cell_arr {h : VHeap} {a : Nat} {es : List Nat} (hc : h.cell a = .arr es) :
    a < h.cells.length := by
  apply Nat.lt_of_not_le
  intro hge
  rw [cell_of_ge h a hge] at hc
  cases hc

theorem lt_of_mem_refs {h : VHeap} {a e : Nat} (he : e ∈ refs (h.cell a)) : a < h.cells.length := by
  apply Nat.lt_of_not_le
  intro hge
  rw [cell_of_ge h a hge] at he
  simp [refs] at he

theorem cell_alloc (h : VHeap) (c : HCell) (a : Nat) :
    (h.alloc c).1.cell a = if a = h.cells.length then c else h.cell a := by
  simp only [alloc, cell_eq_getD]
  by_cases h1 : a < h.cells.length
  · have : a ≠ h.cells.length := by omega
    simp [List.getElem?_append_left h1, this]
  · by_cases h2 : a = h.cells.length
    · subst h2; simp
    · have h3 : h.cells.length + 1 ≤ a := by omega
      have : (h.cells ++ [c])[a]? = none := List.getElem?_eq_none (by simpa using h3)
      have h4 : h.cells[a]? = none := List.getElem?_eq_none (by omega)
      simp [this, h4, h2]

theorem alloc_snd (h : VHeap) (c : HCell) : (h.alloc c).2 = h.cells.length := rfl
theorem alloc_cells (h : VHeap) (c : HCell) : (h.alloc c).1.cells = h.cells ++ [c] := rfl
theorem alloc_prefix (h : VHeap) (c : HCell) : h.cells <+: (h.alloc c).1.cells := ⟨[c], rfl⟩
theorem alloc_length (h : VHeap) (c : HCell) : (h.alloc c).1.cells.length = h.cells.length + 1 := by
  simp [alloc]

theorem write_length (h : VHeap) (r : Nat) (c : HCell) : (h.write r c).cells.length = h.cells.length := by
  simp [write]

theorem cell_write (h : VHeap) (r : Nat) (c : HCell) (a : Nat) :
    (h.write r c).cell a = if a = r ∧ r < h.cells.length then c else h.cell a := by
  simp only [write, cell_eq_getD, List.getElem?_set]
  by_cases h1 : r = a
  · subst h1
    by_cases h2 : r < h.cells.length
    · simp [h2]
    · simp [h2]
  · have : ¬ (a = r ∧ r < h.cells.length) := fun h => h1 h.1.symm
    simp [h1, this]

theorem cell_write_self (h : VHeap) (r : Nat) (c : HCell) (hr : r < h.cells.length) :
    (h.write r c).cell r = c := by simp [cell_write, hr]

theorem cell_write_ne (h : VHeap) (r : Nat) (c : HCell) (a : Nat) (ha : a ≠ r) :
    (h.write r c).cell a = h.cell a := by
  simp [cell_write, ha]

theorem cell_of_prefix {h h1 : VHeap} (hp : h.cells <+: h1.cells) (a : Nat) (ha : a < h.cells.length) :
    h1.cell a = h.cell a := by
  obtain ⟨t, ht⟩ := hp
  simp only [cell_eq_getD, ← ht, List.getElem?_append_left ha]

theorem length_le_of_prefix {h h1 : VHeap} (hp : h.cells <+: h1.cells) :
    h.cells.length ≤ h1.cells.length := hp.length_le

/-! ## reachability and regions -/

/-- `b` is reachable from `a` along stored references (reflexive, transitive) -/
inductive Reach (h : VHeap) : Nat → Nat → Prop
  | refl (a : Nat) : Reach h a a
  | step {a e b : Nat} : e ∈ refs (h.cell a) → Reach h e b → Reach h a b

theorem Reach.trans {h : VHeap} {a b c : Nat} (h1 : Reach h a b) (h2 : Reach h b c) : Reach h a c := by
  induction h1 with
  | refl => exact h2
  | step he _ ih => exact .step he (ih h2)

theorem Reach.snoc {h : VHeap} {a b e : Nat} (h1 : Reach h a b) (he : e ∈ refs (h.cell b)) :
    Reach h a e := h1.trans (.step he (.refl e))

/-- the set of cells `Q` is closed under stored references -/
def ClosedOn (h : VHeap) (Q : Nat → Prop) : Prop := ∀ x, Q x → ∀ e ∈ refs (h.cell x), Q e

theorem closedOn_reach (h : VHeap) (r : Nat) : ClosedOn h (Reach h r) :=
  fun _ hx _ he => hx.snoc he

theorem reach_closedOn {h : VHeap} {Q : Nat → Prop} (hQ : ClosedOn h Q) {a b : Nat}
    (hr : Reach h a b) (ha : Q a) : Q b := by
  induction hr with
  | refl => exact ha
  | step he _ ih => exact ih (hQ _ ha _ he)

/-- reachability only looks at the cells of a closed region containing the start -/
theorem reach_congr {h h' : VHeap} {Q : Nat → Prop} (hQ : ClosedOn h Q)
    (heq : ∀ x, Q x → h'.cell x = h.cell x) {a b : Nat} (ha : Q a) :
    Reach h' a b ↔ Reach h a b := by
  constructor
  · intro hr
    induction hr with
    | refl => exact .refl _
    | step he _ ih =>
      rw [heq _ ha] at he
      exact .step he (ih (hQ _ ha _ he))
  · intro hr
    induction hr with
    | refl => exact .refl _
    | step he _ ih =>
      have he' := he
      rw [← heq _ ha] at he'
      exact .step he' (ih (hQ _ ha _ he))

/-- `read` only looks at the cells of a closed region containing the object -/
theorem read_congr {h h' : VHeap} {Q : Nat → Prop} (hQ : ClosedOn h Q)
    (heq : ∀ x, Q x → h'.cell x = h.cell x) : ∀ (f r : Nat), Q r → read h' f r = read h f r
  | 0, _, _ => rfl
  | f+1, r, hr => by
    rw [read_succ, read_succ, heq r hr]
    cases hc : h.cell r with
    | scalar v => rfl
    | arr es =>
      simp only [readCell]
      congr 1
      apply List.map_congr_left
      intro e he
      exact read_congr hQ heq f e (hQ r hr e (by simp [hc, refs, he]))

/-- `read` only looks at the cells reachable from the object -/
theorem read_frame {h h' : VHeap} {r : Nat} (heq : ∀ x, Reach h r x → h'.cell x = h.cell x)
    (f : Nat) : read h' f r = read h f r :=
  read_congr (closedOn_reach h r) heq f r (.refl r)

theorem readCell_congr {h h' : VHeap} {Q : Nat → Prop} (hQ : ClosedOn h Q)
    (heq : ∀ x, Q x → h'.cell x = h.cell x) (f : Nat) (c : HCell) (hc : ∀ e ∈ refs c, Q e) :
    readCell h' f c = readCell h f c := by
  cases c with
  | scalar v => rfl
  | arr es =>
    simp only [readCell]
    congr 1
    apply List.map_congr_left
    intro e he
    exact read_congr hQ heq f e (hc e (by simp [refs, he]))

/-! ## the invariant -/

/-- every stored reference is in bounds -/
def Closed (h : VHeap) : Prop := ∀ a, ∀ e ∈ refs (h.cell a), e < h.cells.length

/-- no object is reachable from one of its own elements -/
def Acyclic (h : VHeap) : Prop := ∀ a, ∀ e ∈ refs (h.cell a), ¬ Reach h e a

/-- well-formed heap: references in bounds, reference structure acyclic -/
def WFh (h : VHeap) : Prop := Closed h ∧ Acyclic h

theorem closedOn_lt {h : VHeap} (hc : Closed h) : ClosedOn h (· < h.cells.length) :=
  fun x _ e he => hc x e he

theorem reach_lt {h : VHeap} (hc : Closed h) {a b : Nat} (hr : Reach h a b) (ha : a < h.cells.length) :
    b < h.cells.length := reach_closedOn (closedOn_lt hc) hr ha

theorem wfh_empty : WFh ⟨[]⟩ := by
  constructor
  · intro a e he; simp [cell, refs] at he
  · intro a e he; simp [cell, refs] at he

/-! ## extension by fresh cells -/

/-- `h1` extends `h` by fresh cells that refer only to earlier fresh cells -/
def FreshExt (h h1 : VHeap) : Prop :=
  h.cells <+: h1.cells ∧
  ∀ x, h.cells.length ≤ x → ∀ e ∈ refs (h1.cell x), h.cells.length ≤ e ∧ e < x

theorem freshExt_refl (h : VHeap) : FreshExt h h := by
  refine ⟨List.prefix_refl _, ?_⟩
  intro x hx e he
  rw [cell_of_ge h x hx] at he
  simp [refs] at he

theorem FreshExt.length_le {h h1 : VHeap} (hx : FreshExt h h1) : h.cells.length ≤ h1.cells.length :=
  length_le_of_prefix hx.1

theorem FreshExt.cell_old {h h1 : VHeap} (hx : FreshExt h h1) {a : Nat} (ha : a < h.cells.length) :
    h1.cell a = h.cell a := cell_of_prefix hx.1 a ha

theorem FreshExt.trans {h h1 h2 : VHeap} (h01 : FreshExt h h1) (h12 : FreshExt h1 h2) :
    FreshExt h h2 := by
  refine ⟨h01.1.trans h12.1, ?_⟩
  intro x hx e he
  by_cases hx1 : x < h1.cells.length
  · rw [h12.cell_old hx1] at he
    exact h01.2 x hx e he
  · have := h12.2 x (by omega) e he
    have := h01.length_le
    omega

theorem freshExt_alloc {h h1 : VHeap} (h01 : FreshExt h h1) (c : HCell)
    (hc : ∀ e ∈ refs c, h.cells.length ≤ e ∧ e < h1.cells.length) : FreshExt h (h1.alloc c).1 := by
  refine ⟨h01.1.trans ⟨[c], rfl⟩, ?_⟩
  intro x hx e he
  rw [cell_alloc] at he
  split at he
  · subst x; exact hc e he
  · exact h01.2 x hx e he

theorem closed_freshExt {h h1 : VHeap} (hc : Closed h) (h01 : FreshExt h h1) : Closed h1 := by
  intro a e he
  by_cases ha : a < h.cells.length
  · rw [h01.cell_old ha] at he
    have := hc a e he
    have := h01.length_le
    omega
  · have := h01.2 a (by omega) e he
    have := lt_of_mem_refs he
    omega

/-- from a fresh cell only fresh (and not younger) cells are reachable -/
theorem reach_fresh {h h1 : VHeap} (h01 : FreshExt h h1) {a b : Nat} (hr : Reach h1 a b)
    (ha : h.cells.length ≤ a) : h.cells.length ≤ b ∧ b ≤ a := by
  induction hr with
  | refl => exact ⟨ha, Nat.le_refl _⟩
  | step he _ ih =>
    have h1 := h01.2 _ ha _ he
    have h2 := ih h1.1
    omega

/-- from an old cell exactly the old reachable cells are reachable -/
theorem reach_old {h h1 : VHeap} (hc : Closed h) (hp : h.cells <+: h1.cells) {a b : Nat}
    (ha : a < h.cells.length) : Reach h1 a b ↔ Reach h a b :=
  reach_congr (closedOn_lt hc) (fun x hx => cell_of_prefix hp x hx) ha

theorem acyclic_freshExt {h h1 : VHeap} (hw : WFh h) (h01 : FreshExt h h1) : Acyclic h1 := by
  intro a e he hr
  by_cases ha : a < h.cells.length
  · rw [h01.cell_old ha] at he
    have he' := hw.1 a e he
    exact hw.2 a e he ((reach_old hw.1 h01.1 he').1 hr)
  · have h1 := h01.2 a (by omega) e he
    have h2 := reach_fresh h01 hr h1.1
    omega

theorem wfh_freshExt {h h1 : VHeap} (hw : WFh h) (h01 : FreshExt h h1) : WFh h1 :=
  ⟨closed_freshExt hw.1 h01, acyclic_freshExt hw h01⟩

/-- frame: an object of a closed heap reads the same through any extension -/
theorem read_of_prefix {h h1 : VHeap} (hc : Closed h) (hp : h.cells <+: h1.cells) (f : Nat) {r : Nat}
    (hr : r < h.cells.length) : read h1 f r = read h f r :=
  read_congr (closedOn_lt hc) (fun x hx => cell_of_prefix hp x hx) f r hr

/-- the region of fresh cells of an extension is closed -/
theorem closedOn_fresh {h h1 : VHeap} (h01 : FreshExt h h1) :
    ClosedOn h1 (fun x => h.cells.length ≤ x ∧ x < h1.cells.length) := by
  intro x hx e he
  have := h01.2 x hx.1 e he
  omega

/-- frame for fresh cells: a fresh object reads the same through a further extension
(no assumption on the old heap) -/
theorem read_fresh_prefix {h h1 h2 : VHeap} (h01 : FreshExt h h1) (hp : h1.cells <+: h2.cells)
    (f : Nat) {r : Nat} (hr : h.cells.length ≤ r) (hr1 : r < h1.cells.length) :
    read h2 f r = read h1 f r :=
  read_congr (closedOn_fresh h01) (fun x hx => cell_of_prefix hp x hx.2) f r ⟨hr, hr1⟩

theorem readCell_fresh_prefix {h h1 h2 : VHeap} (h01 : FreshExt h h1) (hp : h1.cells <+: h2.cells)
    (f : Nat) (c : HCell) (hc : ∀ e ∈ refs c, h.cells.length ≤ e ∧ e < h1.cells.length) :
    readCell h2 f c = readCell h1 f c :=
  readCell_congr (closedOn_fresh h01) (fun x hx => cell_of_prefix hp x hx.2) f c hc

/-! ## `pad` -/

theorem pad_eq : (k : Nat) → (h : VHeap) → (es : List Nat) →
    pad h es k = (⟨h.cells ++ List.replicate k (.scalar .null)⟩, es ++ List.range' h.cells.length k)
  | 0, h, es => by simp [pad]
  | k+1, h, es => by
    rw [pad, pad_eq k]
    simp [alloc, List.replicate_succ, List.range'_succ]

theorem pad_cells (h : VHeap) (es : List Nat) (k : Nat) :
    (pad h es k).1.cells = h.cells ++ List.replicate k (.scalar .null) := by rw [pad_eq]

theorem pad_snd (h : VHeap) (es : List Nat) (k : Nat) :
    (pad h es k).2 = es ++ List.range' h.cells.length k := by rw [pad_eq]

theorem pad_length (h : VHeap) (es : List Nat) (k : Nat) :
    (pad h es k).1.cells.length = h.cells.length + k := by simp [pad_cells]

theorem pad_prefix (h : VHeap) (es : List Nat) (k : Nat) : h.cells <+: (pad h es k).1.cells := by
  rw [pad_cells]; exact List.prefix_append _ _

/-- the cells `pad` allocates hold Null -/
theorem pad_cell_new (h : VHeap) (es : List Nat) (k : Nat) (x : Nat) (hx : h.cells.length ≤ x) :
    (pad h es k).1.cell x = .scalar .null := by
  rw [cell_eq_getD, pad_cells, List.getElem?_append_right hx, List.getElem?_replicate]
  split <;> rfl

theorem freshExt_pad (h : VHeap) (es : List Nat) (k : Nat) : FreshExt h (pad h es k).1 := by
  refine ⟨pad_prefix h es k, ?_⟩
  intro x hx e he
  rw [pad_cell_new h es k x hx] at he
  simp [refs] at he

/-! ## `build`, `buildList`, `allocV` -/

theorem build_array (h : VHeap) (es : List V) :
    build h (.array es) = ((buildList h es).1, .arr (buildList h es).2) := by
  simp [build]

theorem build_scalar (h : VHeap) (v : V) (hv : ∀ es, v ≠ .array es) : build h v = (h, .scalar v) := by
  cases v <;> simp_all [build]

theorem buildList_nil (h : VHeap) : buildList h [] = (h, []) := by simp [buildList]

theorem buildList_cons (h : VHeap) (e : V) (es : List V) :
    buildList h (e :: es) =
      ((buildList ((build h e).1.alloc (build h e).2).1 es).1,
        (build h e).1.cells.length :: (buildList ((build h e).1.alloc (build h e).2).1 es).2) := by
  simp [buildList, alloc]

/-- what `build` guarantees: only fresh cells are added, they refer to earlier fresh cells, the
returned cell refers to fresh cells, and its deep value is the value built (up to the fuel) -/
structure BuildSpec (h h1 : VHeap) (c : HCell) (v : V) : Prop where
  ext : FreshExt h h1
  refs_fresh : ∀ e ∈ refs c, h.cells.length ≤ e ∧ e < h1.cells.length
  value : ∀ g, readCell h1 g c = trunc (g+1) v

structure BuildListSpec (h h1 : VHeap) (rs : List Nat) (vs : List V) : Prop where
  ext : FreshExt h h1
  refs_fresh : ∀ e ∈ rs, h.cells.length ≤ e ∧ e < h1.cells.length
  value : ∀ g, rs.map (read h1 g) = vs.map (trunc g)

mutual
theorem build_spec : (v : V) → (h : VHeap) → BuildSpec h (build h v).1 (build h v).2 v
  | .array es, h => by
    have ih := buildList_spec es h
    rw [build_array]
    exact ⟨ih.ext, ih.refs_fresh, fun g => by simp [readCell, ih.value g, trunc_succ_array]⟩
  | .null, h | .int _, h | .long _, h | .float _, h | .double _, h
  | .str _, h | .bool _, h | .dateTime _ _, h | .timeSpan _, h | .object _, h
  | .host _ _, h => by
    rw [build_scalar _ _ (by intro es; simp)]
    exact ⟨freshExt_refl h, by simp [refs], fun g => by simp [readCell, trunc]⟩
theorem buildList_spec : (vs : List V) → (h : VHeap) →
    BuildListSpec h (buildList h vs).1 (buildList h vs).2 vs
  | [], h => by
    rw [buildList_nil]
    exact ⟨freshExt_refl h, by simp, fun g => by simp⟩
  | e :: es, h => by
    have ih1 := build_spec e h
    have ih2 := buildList_spec es ((build h e).1.alloc (build h e).2).1
    rw [buildList_cons]
    have hx1 : FreshExt h ((build h e).1.alloc (build h e).2).1 :=
      freshExt_alloc ih1.ext _ ih1.refs_fresh
    have hl1 := ih1.ext.length_le
    have hl2 := ih2.ext.length_le
    rw [alloc_length] at hl2
    refine ⟨hx1.trans ih2.ext, ?_, ?_⟩
    · intro x hx
      simp only [List.mem_cons] at hx
      rcases hx with hx | hx
      · subst hx; dsimp only; omega
      · have := ih2.refs_fresh x hx
        rw [alloc_length] at this
        dsimp only; omega
    · intro g
      simp only [List.map_cons, ih2.value g]
      congr 1
      -- the element object reads as `trunc g e` in the final heap
      have hlt : (build h e).1.cells.length < ((build h e).1.alloc (build h e).2).1.cells.length := by
        rw [alloc_length]; omega
      rw [read_fresh_prefix hx1 ih2.ext.1 g hl1 hlt]
      cases g with
      | zero => simp [read_zero, trunc_zero]
      | succ g =>
        rw [read_succ, cell_alloc, if_pos rfl,
          readCell_fresh_prefix ih1.ext (alloc_prefix _ _) g _ ih1.refs_fresh]
        exact ih1.value g
end

theorem allocV_eq (h : VHeap) (v : V) : allocV h v = (build h v).1.alloc (build h v).2 := rfl

theorem allocV_snd (h : VHeap) (v : V) : (allocV h v).2 = (build h v).1.cells.length := rfl

theorem freshExt_allocV (h : VHeap) (v : V) : FreshExt h (allocV h v).1 :=
  freshExt_alloc (build_spec v h).ext _ (build_spec v h).refs_fresh

theorem allocV_snd_ge (h : VHeap) (v : V) : h.cells.length ≤ (allocV h v).2 :=
  (build_spec v h).ext.length_le

theorem allocV_snd_lt (h : VHeap) (v : V) : (allocV h v).2 < (allocV h v).1.cells.length := by
  rw [allocV_eq, alloc_length]; exact Nat.lt_succ_self _

/-- reading back a freshly built value, any fuel -/
theorem read_allocV (h : VHeap) (v : V) (f : Nat) : read (allocV h v).1 f (allocV h v).2 = trunc f v := by
  cases f with
  | zero => simp [read_zero, trunc_zero]
  | succ g =>
    have sp := build_spec v h
    rw [read_succ, allocV_eq, alloc_snd, cell_alloc, if_pos rfl,
      readCell_fresh_prefix sp.ext (alloc_prefix _ _) g _ sp.refs_fresh]
    exact sp.value g

/-! ## overwriting one cell -/

/-- reachability after overwriting the cell `w`: either an old path, or an old path to `w`,
one of the new references, and an old path from there -/
theorem reach_write {h : VHeap} {w : Nat} {c : HCell} {a b : Nat} (hr : Reach (h.write w c) a b) :
    Reach h a b ∨ (Reach h a w ∧ ∃ e', e' ∈ refs c ∧ Reach h e' b) := by
  induction hr with
  | refl a => exact .inl (.refl a)
  | @step a e b he _ ih =>
    rw [cell_write] at he
    split at he
    · rename_i hw
      obtain ⟨rfl, _⟩ := hw
      rcases ih with ih | ⟨_, e', he', hr'⟩
      · exact .inr ⟨.refl _, e, he, ih⟩
      · exact .inr ⟨.refl _, e', he', hr'⟩
    · rcases ih with ih | ⟨h1, e', he', hr'⟩
      · exact .inl (.step he ih)
      · exact .inr ⟨.step he h1, e', he', hr'⟩

/-- overwriting `w` with references from which `w` is not reachable keeps the heap acyclic -/
theorem acyclic_write {h : VHeap} (ha : Acyclic h) {w : Nat} {c : HCell}
    (hc : ∀ e ∈ refs c, ¬ Reach h e w) : Acyclic (h.write w c) := by
  intro a e he hr
  rw [cell_write] at he
  split at he
  · rename_i hw
    obtain ⟨rfl, _⟩ := hw
    rcases reach_write hr with h1 | ⟨h1, _⟩
    · exact hc e he h1
    · exact hc e he h1
  · rcases reach_write hr with h1 | ⟨h1, e', he', h2⟩
    · exact ha a e he h1
    · exact hc e' he' (h2.trans (.step he h1))

theorem closed_write {h : VHeap} (hc : Closed h) {w : Nat} {c : HCell}
    (hcr : ∀ e ∈ refs c, e < h.cells.length) : Closed (h.write w c) := by
  intro a e he
  rw [write_length]
  rw [cell_write] at he
  split at he
  · exact hcr e he
  · exact hc a e he

/-! ## the common shape of all mutating operations: fresh cells, then one overwrite -/

/-- `h'` arises from `h` by allocating fresh cells (forming `h1`) and then overwriting the
existing cell `w` with `c` -/
structure StepTo (h h' : VHeap) (w : Nat) (c : HCell) : Prop where
  mid : ∃ h1, FreshExt h h1 ∧ h' = h1.write w c
  target_old : w < h.cells.length

namespace StepTo
variable {h h' : VHeap} {w : Nat} {c : HCell}

theorem length_le (st : StepTo h h' w c) : h.cells.length ≤ h'.cells.length := by
  obtain ⟨h1, hx, rfl⟩ := st.mid
  rw [write_length]; exact hx.length_le

theorem cell_target (st : StepTo h h' w c) : h'.cell w = c := by
  obtain ⟨h1, hx, rfl⟩ := st.mid
  exact cell_write_self _ _ _ (Nat.lt_of_lt_of_le st.target_old hx.length_le)

/-- no other existing cell changes -/
theorem cell_other (st : StepTo h h' w c) {x : Nat} (hx : x < h.cells.length) (hne : x ≠ w) :
    h'.cell x = h.cell x := by
  obtain ⟨h1, hx1, rfl⟩ := st.mid
  rw [cell_write_ne _ _ _ _ hne, hx1.cell_old hx]

/-- the fresh cells refer to earlier fresh cells -/
theorem cell_fresh (st : StepTo h h' w c) {x : Nat} (hx : h.cells.length ≤ x) :
    ∀ e ∈ refs (h'.cell x), h.cells.length ≤ e ∧ e < x := by
  obtain ⟨h1, hx1, rfl⟩ := st.mid
  have : x ≠ w := by have := st.target_old; omega
  rw [cell_write_ne _ _ _ _ this]
  exact hx1.2 x hx

theorem closed (st : StepTo h h' w c) (hc : Closed h) (hr : ∀ e ∈ refs c, e < h'.cells.length) :
    Closed h' := by
  obtain ⟨h1, hx1, rfl⟩ := st.mid
  rw [write_length] at hr
  exact closed_write (closed_freshExt hc hx1) hr

/-- well-formedness is preserved when `w` is not reachable from the old references stored -/
theorem wfh (st : StepTo h h' w c) (hw : WFh h) (hr : ∀ e ∈ refs c, e < h'.cells.length)
    (hc : ∀ e ∈ refs c, e < h.cells.length → ¬ Reach h e w) : WFh h' := by
  refine ⟨st.closed hw.1 hr, ?_⟩
  obtain ⟨h1, hx1, rfl⟩ := st.mid
  apply acyclic_write (acyclic_freshExt hw hx1)
  intro e he hre
  by_cases hlt : e < h.cells.length
  · exact hc e he hlt ((reach_old hw.1 hx1.1 hlt).1 hre)
  · have := reach_fresh hx1 hre (by omega)
    have := st.target_old
    omega

/-- frame: an existing object from which `w` is not reachable keeps its deep value -/
theorem read_other (st : StepTo h h' w c) (hc : Closed h) {o : Nat} (ho : o < h.cells.length)
    (hnr : ¬ Reach h o w) (f : Nat) : read h' f o = read h f o := by
  apply read_frame
  intro x hx
  apply st.cell_other (reach_lt hc hx ho)
  rintro rfl
  exact hnr hx

/-- a fresh cell keeps the deep value it had before the overwrite -/
theorem read_fresh (st : StepTo h h' w c) {h1 : VHeap} (hx1 : FreshExt h h1) (he : h' = h1.write w c)
    {o : Nat} (ho : h.cells.length ≤ o) (f : Nat) : read h' f o = read h1 f o := by
  subst he
  by_cases ho1 : o < h1.cells.length
  · apply read_congr (closedOn_fresh hx1) _ f o ⟨ho, ho1⟩
    intro x hx
    apply cell_write_ne
    have := st.target_old
    omega
  · cases f with
    | zero => rfl
    | succ g =>
      rw [read_succ, read_succ, cell_of_ge _ _ (by rw [write_length]; omega), cell_of_ge _ _ (by omega)]
      rfl

/-- the deep value of the overwritten object -/
theorem read_target (st : StepTo h h' w c) (f : Nat) : read h' (f+1) w = readCell h' f c := by
  rw [read_succ, st.cell_target]

end StepTo

/-- the references of the new cell are among `old` or fresh -/
def RefsFrom (h h' : VHeap) (c : HCell) (old : List Nat) : Prop :=
  ∀ e ∈ refs c, e ∈ old ∨ (h.cells.length ≤ e ∧ e < h'.cells.length)

namespace StepTo
variable {h h' : VHeap} {w : Nat} {c : HCell}

/-- preservation of the invariant, in the form the operations use -/
theorem wfh_of_refsFrom (st : StepTo h h' w c) (hw : WFh h) {old : List Nat}
    (hrf : RefsFrom h h' c old) (hold : ∀ e ∈ old, e < h.cells.length ∧ ¬ Reach h e w) : WFh h' := by
  apply st.wfh hw
  · intro e he
    rcases hrf e he with h1 | h1
    · have := (hold e h1).1
      have := st.length_le
      omega
    · exact h1.2
  · intro e he hlt
    rcases hrf e he with h1 | h1
    · exact (hold e h1).2
    · omega

end StepTo

/-! ## the operations as steps -/

theorem setLength_some {h h' : VHeap} {r n : Nat} (hs : setLength h r n = some h') :
    ∃ es, h.cell r = .arr es ∧
      h' = (pad h es (n - es.length)).1.write r
        (.arr (es ++ List.range' h.cells.length (n - es.length))) := by
  unfold setLength at hs
  split at hs
  · rename_i es hc
    simp only [Option.some.injEq] at hs
    exact ⟨es, hc, by rw [← hs, pad_snd]⟩
  · cases hs

theorem setLength_none {h : VHeap} {r n : Nat} (hs : setLength h r n = none) :
    ∃ v, h.cell r = .scalar v := by
  unfold setLength at hs
  split at hs
  · cases hs
  · cases hc : h.cell r with
    | scalar v => exact ⟨v, rfl⟩
    | arr es => rename_i hne; exact absurd hc (hne es)

theorem setLength_step {h h' : VHeap} {r n : Nat} (hs : setLength h r n = some h') :
    ∃ es, h.cell r = .arr es ∧
      StepTo h h' r (.arr (es ++ List.range' h.cells.length (n - es.length))) ∧
      h'.cells.length = h.cells.length + (n - es.length) ∧
      (∀ x, h.cells.length ≤ x → h'.cell x = .scalar .null) := by
  obtain ⟨es, hc, rfl⟩ := setLength_some hs
  have hr := lt_of_cell_arr hc
  refine ⟨es, hc, ⟨⟨_, freshExt_pad h es _, rfl⟩, hr⟩, by rw [write_length, pad_length], ?_⟩
  intro x hx
  rw [cell_write_ne _ _ _ _ (by omega), pad_cell_new _ _ _ _ hx]

theorem setByIndex_some {h h' : VHeap} {r : Nat} {i : Int} {e : V}
    (hs : setByIndex h r i e = some h') :
    ∃ es, h.cell r = .arr es ∧ 0 ≤ i ∧
      h' = (allocV (pad h es (i.toNat + 1 - es.length)).1 e).1.write r
        (.arr ((es ++ List.range' h.cells.length (i.toNat + 1 - es.length)).set i.toNat
          (allocV (pad h es (i.toNat + 1 - es.length)).1 e).2)) := by
  unfold setByIndex at hs
  split at hs
  · rename_i es hc
    split at hs
    · cases hs
    · rename_i hi
      simp only [Option.some.injEq] at hs
      exact ⟨es, hc, by omega, by rw [← hs, pad_snd]⟩
  · cases hs

theorem setByIndex_none {h : VHeap} {r : Nat} {i : Int} {e : V} (hs : setByIndex h r i e = none) :
    (∃ v, h.cell r = .scalar v) ∨ i < 0 := by
  unfold setByIndex at hs
  split at hs
  · split at hs
    · rename_i hi; exact .inr hi
    · cases hs
  · cases hc : h.cell r with
    | scalar v => exact .inl ⟨v, rfl⟩
    | arr es => rename_i hne; exact absurd hc (hne es)

theorem mutElem_some {h h' : VHeap} {r : Nat} {i : Int} {v : V} (hs : mutElem h r i v = some h') :
    ∃ er, elemRef h r i = some er ∧ h' = (build h v).1.write er (build h v).2 := by
  unfold mutElem at hs
  split at hs
  · rename_i er he
    simp only [Option.some.injEq] at hs
    exact ⟨er, he, hs.symm⟩
  · cases hs

theorem elemRef_some {h : VHeap} {r : Nat} {i : Int} {er : Nat} (he : elemRef h r i = some er) :
    ∃ es, h.cell r = .arr es ∧ 0 ≤ i ∧ es[i.toNat]? = some er := by
  unfold elemRef at he
  split at he
  · rename_i es hc
    split at he
    · cases he
    · exact ⟨es, hc, by omega, he⟩
  · cases he

theorem elemRef_mem_refs {h : VHeap} {r : Nat} {i : Int} {er : Nat} (he : elemRef h r i = some er) :
    er ∈ refs (h.cell r) := by
  obtain ⟨es, hc, _, hi⟩ := elemRef_some he
  rw [hc]
  exact List.mem_of_getElem? hi

theorem setByIndex_step {h h' : VHeap} {r : Nat} {i : Int} {e : V}
    (hs : setByIndex h r i e = some h') :
    ∃ es a, h.cell r = .arr es ∧ 0 ≤ i ∧
      StepTo h h' r (.arr ((es ++ List.range' h.cells.length (i.toNat + 1 - es.length)).set i.toNat a)) ∧
      h.cells.length + (i.toNat + 1 - es.length) ≤ a ∧ a < h'.cells.length ∧
      (∀ f, read h' f a = trunc f e) ∧
      (∀ x, h.cells.length ≤ x → x < h.cells.length + (i.toNat + 1 - es.length) →
        h'.cell x = .scalar .null) := by
  obtain ⟨es, hc, hi, rfl⟩ := setByIndex_some hs
  have hr := lt_of_cell_arr hc
  have hx1 := freshExt_pad h es (i.toNat + 1 - es.length)
  have hx2 := freshExt_allocV (pad h es (i.toNat + 1 - es.length)).1 e
  have hx := hx1.trans hx2
  have st : StepTo h ((allocV (pad h es (i.toNat + 1 - es.length)).1 e).1.write r
      (.arr ((es ++ List.range' h.cells.length (i.toNat + 1 - es.length)).set i.toNat
        (allocV (pad h es (i.toNat + 1 - es.length)).1 e).2))) r _ := ⟨⟨_, hx, rfl⟩, hr⟩
  have hge := allocV_snd_ge (pad h es (i.toNat + 1 - es.length)).1 e
  rw [pad_length] at hge
  refine ⟨es, _, hc, hi, st, hge, by rw [write_length]; exact allocV_snd_lt _ _, ?_, ?_⟩
  · intro f
    rw [st.read_fresh hx rfl (by omega) f, read_allocV]
  · intro x hx0 hx1'
    rw [cell_write_ne _ _ _ _ (by omega), hx2.cell_old (by rw [pad_length]; exact hx1'),
      pad_cell_new _ _ _ _ hx0]

theorem mutElem_step {h h' : VHeap} {r : Nat} {i : Int} {v : V} (hcl : Closed h)
    (hs : mutElem h r i v = some h') :
    ∃ er, elemRef h r i = some er ∧ StepTo h h' er (build h v).2 ∧
      RefsFrom h h' (build h v).2 [] ∧ ∀ f, readCell h' f (build h v).2 = trunc (f+1) v := by
  obtain ⟨er, he, rfl⟩ := mutElem_some hs
  have sp := build_spec v h
  have herlt : er < h.cells.length := hcl r er (elemRef_mem_refs he)
  refine ⟨er, he, ⟨⟨_, sp.ext, rfl⟩, herlt⟩, ?_, ?_⟩
  · intro e hm
    right
    rw [write_length]
    exact sp.refs_fresh e hm
  · intro f
    rw [← sp.value f]
    apply readCell_congr (closedOn_fresh sp.ext) _ f _ sp.refs_fresh
    intro x hx
    exact cell_write_ne _ _ _ _ (by omega)

theorem assign_step {h : VHeap} {dst src : Nat} (hd : dst < h.cells.length) :
    StepTo h (assign h dst src) dst (h.cell src) ∧
      RefsFrom h (assign h dst src) (h.cell src) (refs (h.cell src)) :=
  ⟨⟨⟨h, freshExt_refl h, rfl⟩, hd⟩, fun _ he => .inl he⟩

theorem write_step {h : VHeap} {r : Nat} (c : HCell) (hd : r < h.cells.length) :
    StepTo h (h.write r c) r c := ⟨⟨h, freshExt_refl h, rfl⟩, hd⟩

/-- `Assign` to itself changes nothing -/
theorem assign_self (h : VHeap) (r : Nat) : assign h r r = h := by
  cases h with
  | mk cells =>
    simp only [assign, write, cell, VHeap.mk.injEq]
    apply List.ext_getElem?
    intro j
    rw [List.getElem?_set]
    split
    · rename_i hj
      subst hj
      split
      · rename_i hl
        simp [List.getD_eq_getElem?_getD, List.getElem?_eq_getElem hl]
      · rename_i hl
        exact (List.getElem?_eq_none (by omega)).symm
    · rfl

/-! ## typing of scalar cells -/

/-- a scalar cell does not hold an array value (arrays are `arr` cells) -/
def CellTyped (c : HCell) : Prop := ∀ v, c = .scalar v → ∀ es, v ≠ .array es

/-- no scalar cell of the heap holds an array value -/
def Typed (h : VHeap) : Prop := ∀ a, CellTyped (h.cell a)

theorem cellTyped_arr (es : List Nat) : CellTyped (.arr es) := by
  intro v hv; cases hv

theorem cellTyped_null : CellTyped (.scalar .null) := by
  intro v hv es; cases hv; simp

theorem typed_alloc {h : VHeap} (ht : Typed h) {c : HCell} (hc : CellTyped c) : Typed (h.alloc c).1 := by
  intro a
  rw [cell_alloc]
  split
  · exact hc
  · exact ht a

theorem typed_write {h : VHeap} (ht : Typed h) {c : HCell} (hc : CellTyped c) (w : Nat) :
    Typed (h.write w c) := by
  intro a
  rw [cell_write]
  split
  · exact hc
  · exact ht a

theorem typed_pad {h : VHeap} (ht : Typed h) (es : List Nat) (k : Nat) : Typed (pad h es k).1 := by
  intro a
  by_cases ha : a < h.cells.length
  · rw [cell_of_prefix (pad_prefix h es k) a ha]; exact ht a
  · rw [pad_cell_new h es k a (by omega)]; exact cellTyped_null

mutual
theorem typed_build : (v : V) → (h : VHeap) → Typed h →
    Typed (build h v).1 ∧ CellTyped (build h v).2
  | .array es, h, ht => by
    rw [build_array]
    exact ⟨typed_buildList es h ht, cellTyped_arr _⟩
  | .null, h, ht | .int _, h, ht | .long _, h, ht | .float _, h, ht | .double _, h, ht
  | .str _, h, ht | .bool _, h, ht | .dateTime _ _, h, ht | .timeSpan _, h, ht | .object _, h, ht
  | .host _ _, h, ht => by
    rw [build_scalar _ _ (by intro es; simp)]
    refine ⟨ht, ?_⟩
    intro v hv es
    cases hv
    simp
theorem typed_buildList : (vs : List V) → (h : VHeap) → Typed h → Typed (buildList h vs).1
  | [], h, ht => by rw [buildList_nil]; exact ht
  | e :: es, h, ht => by
    rw [buildList_cons]
    have h1 := typed_build e h ht
    exact typed_buildList es _ (typed_alloc h1.1 h1.2)
end

theorem typed_allocV {h : VHeap} (ht : Typed h) (v : V) : Typed (allocV h v).1 :=
  typed_alloc (typed_build v h ht).1 (typed_build v h ht).2

theorem typed_empty : Typed ⟨[]⟩ := by
  intro a; simp only [cell, List.getD_nil]; exact cellTyped_null

/-- in a typed heap the deep value read with fuel `f` is already cut off at `f` -/
theorem trunc_read {h : VHeap} (ht : Typed h) : ∀ (f r : Nat), trunc f (read h f r) = read h f r
  | 0, _ => by simp [read_zero, trunc_zero]
  | f+1, r => by
    rw [read_succ]
    cases hc : h.cell r with
    | scalar v =>
      simp only [readCell]
      exact trunc_succ_scalar f v (ht r v hc)
    | arr es =>
      simp only [readCell, trunc_succ_array, List.map_map]
      congr 1
      apply List.map_congr_left
      intro e _
      exact trunc_read ht f e

/-- with enough fuel the deep value does not depend on the fuel -/
theorem read_stable {h : VHeap} : ∀ (f r : Nat), depth (read h f r) < f →
    ∀ g, f ≤ g → read h g r = read h f r
  | 0, _, hd, _, _ => by omega
  | f+1, r, hd, g, hg => by
    cases g with
    | zero => omega
    | succ g =>
      rw [read_succ] at hd ⊢
      rw [read_succ]
      cases hc : h.cell r with
      | scalar v => rfl
      | arr es =>
        rw [hc] at hd
        simp only [readCell, depth_array] at hd ⊢
        congr 1
        apply List.map_congr_left
        intro e he
        apply read_stable f e _ g (by omega)
        have := depth_le_depthList (es.map (read h f)) (read h f e) (List.mem_map_of_mem he)
        omega

/-! ## more on steps -/

theorem write_of_ge (h : VHeap) (r : Nat) (c : HCell) (hr : h.cells.length ≤ r) : h.write r c = h := by
  cases h with
  | mk cells => simp only [write, VHeap.mk.injEq]; exact List.set_eq_of_length_le hr

namespace StepTo
variable {h h' : VHeap} {w : Nat} {c : HCell}

/-- reachability from an object from which `w` is not reachable is unchanged -/
theorem reach_other (st : StepTo h h' w c) (hc : Closed h) {o : Nat} (ho : o < h.cells.length)
    (hnr : ¬ Reach h o w) (x : Nat) : Reach h' o x ↔ Reach h o x := by
  apply reach_congr (closedOn_reach h o) _ (.refl o)
  intro y hy
  apply st.cell_other (reach_lt hc hy ho)
  rintro rfl
  exact hnr hy

end StepTo

/-! ## regions: a set of cells closed under references that contains all future cells -/

def RegInv (h : VHeap) (P : Nat → Prop) : Prop :=
  ClosedOn h P ∧ ∀ x, h.cells.length ≤ x → P x

theorem StepTo.regInv {h h' : VHeap} {w : Nat} {c : HCell} (st : StepTo h h' w c) {P : Nat → Prop}
    (hP : RegInv h P) (hw : P w) {old : List Nat} (hrf : RefsFrom h h' c old)
    (hold : ∀ e ∈ old, P e) : RegInv h' P ∧ ∀ x, ¬ P x → h'.cell x = h.cell x := by
  refine ⟨⟨?_, ?_⟩, ?_⟩
  · intro x hx e he
    by_cases hxw : x = w
    · subst hxw
      rw [st.cell_target] at he
      rcases hrf e he with h1 | h1
      · exact hold e h1
      · exact hP.2 e h1.1
    · by_cases hxl : x < h.cells.length
      · rw [st.cell_other hxl hxw] at he
        exact hP.1 x hx e he
      · exact hP.2 e (st.cell_fresh (by omega) e he).1
  · intro x hx
    exact hP.2 x (Nat.le_trans st.length_le hx)
  · intro x hx
    have hxl : x < h.cells.length := by
      apply Nat.lt_of_not_le
      intro hge
      exact hx (hP.2 x hge)
    apply st.cell_other hxl
    rintro rfl
    exact hx hw

end VHeap
end Verif
