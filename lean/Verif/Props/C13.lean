/-
C13 — lexeme round trip for the generic and the expression tokenizer.

Per lexical class, a "one step" theorem: for a well-formed scanner `s` whose remaining input is
`lexeme ++ rest`, with the class's boundary condition on `rest`, the segmentation step
`rawNext` returns exactly `(class, lexeme)` and leaves the scanner right after the lexeme
(`Cuts`, Lemmas/LexStep.lean).  Then the sequence theorem `C13_lexemes_roundtrip_*`: any list of
well-formed lexemes whose neighbours cannot merge is tokenized back into exactly those lexemes,
classes and positions.
-/
import Verif.Lemmas.LexSym
import Verif.Lemmas.LexNum

namespace Verif
open Scanner

/-! ## 1. `readWhile` = `takeWhile`

`readWhile_takeWhile` (Lemmas/LexBase.lean) is the characterisation; restated here for the
record with the `LoopInv` of Lemmas/Seg.lean. -/

theorem C13_readWhile_takeWhile (p : Rune → Bool) (f : Nat) {c : List Rune} {p0 : Nat}
    (acc : List Rune) (ch : Rune) (s : Scanner) (h : LoopInv c p0 acc (some ch) s)
    (hf : c.length + 2 ≤ f + s.pos) :
    (readWhile p f acc (some ch) s).acc = acc ++ (ch :: c.drop s.pos).takeWhile p ∧
    (readWhile p f acc (some ch) s).nx = ((ch :: c.drop s.pos).dropWhile p).head? ∧
    (readWhile p f acc (some ch) s).s.pos = s.pos + ((ch :: c.drop s.pos).takeWhile p).length :=
  let h' := readWhile_takeWhile p f acc ch s h hf
  ⟨h'.1, h'.2.1, h'.2.2.1⟩

/-! ## 2. identifiers and keywords -/

/-- **generic identifier**: a word start followed by word characters, in front of something
that is not a word character, is one `Word` token. -/
theorem C13_word_generic (s : Scanner) (hw : s.WF) (c : Rune) (w rest : List Rune)
    (hin : s.content.drop s.pos = (c :: w) ++ rest)
    (hstart : isWordStartG c = true) (hall : ∀ x ∈ w, isWordCharG x = true)
    (hb : ∀ x, rest.head? = some x → isWordCharG x = false) :
    Cuts genericCfg s TT.word (c :: w) none rest := by
  have h := rawNext_span genericCfg s hw .word TT.word (inMap genericCfg.wordChars) c w rest hin
    (generic_dispatch_word c hstart) (by decide) rfl
    (by
      intro x hx
      show inMap genericWordChars x = true
      rw [inMap_genericWordChars]
      rcases List.mem_cons.mp hx with rfl | hx
      · exact isWordCharG_of_start _ hstart
      · exact hall x hx)
    (by intro x hx; show inMap genericWordChars x = false; rw [inMap_genericWordChars]; exact hb x hx)
  apply Cuts.of_value genericCfg rawContract_generic s hw c w rest hin
  refine ⟨?_, h.2.1, h.2.2⟩
  rw [h.1]; rfl

/-- **expression identifier / keyword**: the token keeps the spelling `c :: w`; its class is
`Keyword` iff the upper-cased spelling is one of the ten keywords (any letter case), else
`Word`. -/
theorem C13_word_expression (s : Scanner) (hw : s.WF) (c : Rune) (w rest : List Rune)
    (hin : s.content.drop s.pos = (c :: w) ++ rest)
    (hstart : isWordStartE c = true) (hall : ∀ x ∈ w, isWordCharE x = true)
    (hb : ∀ x, rest.head? = some x → isWordCharE x = false) :
    Cuts expressionCfg s (if isKeyword (c :: w) then TT.keyword else TT.word) (c :: w) none rest := by
  have hval : (runState expressionCfg .word (s.content.length + 2) s).1.value =
      (spanState TT.word (inMap expressionCfg.wordChars) (s.content.length + 2) s).1.value := by
    show (exprWordState expressionCfg _ s).1.value = _
    unfold exprWordState
    simp only
    split <;> rfl
  have h := rawNext_span expressionCfg s hw .word TT.word (inMap expressionCfg.wordChars) c w rest
    hin (expression_dispatch_word c hstart) (by decide) hval
    (by
      intro x hx
      show inMap exprWordChars x = true
      rw [inMap_exprWordChars]
      rcases List.mem_cons.mp hx with rfl | hx
      · exact isWordCharE_of_start _ hstart
      · exact hall x hx)
    (by intro x hx; show inMap exprWordChars x = false; rw [inMap_exprWordChars]; exact hb x hx)
  apply Cuts.of_value expressionCfg rawContract_expression s hw c w rest hin
  refine ⟨?_, h.2.1, h.2.2⟩
  have hv := h.2.1
  rw [h.1] at hv ⊢
  have hsv : (spanState TT.word (inMap expressionCfg.wordChars) (s.content.length + 2) s).1.value
      = c :: w := by rw [← hval]; exact hv
  show (exprWordState expressionCfg _ s).1.typ = _
  unfold exprWordState
  simp only [hsv]
  split <;> rfl

/-- keywords are recognised in any letter case -/
theorem C13_keyword_any_case (v : List Rune) :
    isKeyword v = keywords.contains (v.map upperRune) := rfl

theorem upperRune_idem (c : Nat) : upperRune (upperRune c) = upperRune c := by
  unfold upperRune
  by_cases h1 : (decide (97 ≤ c) && decide (c ≤ 122)) = true
  · rw [if_pos h1]
    simp only [Bool.and_eq_true, decide_eq_true_eq] at h1
    have h2 : (decide (97 ≤ c - 32) && decide (c - 32 ≤ 122)) = false := by
      simp only [Bool.and_eq_false_iff, decide_eq_false_iff_not]; omega
    have h3 : (c - 32 == 0x131) = false := by simp only [beq_eq_false_iff_ne, ne_eq]; omega
    have h4 : (c - 32 == 0x17F) = false := by simp only [beq_eq_false_iff_ne, ne_eq]; omega
    rw [h2, h3, h4]; rfl
  · rw [if_neg h1]
    by_cases h2 : (c == 0x131) = true
    · rw [if_pos h2]; rfl
    · rw [if_neg h2]
      by_cases h3 : (c == 0x17F) = true
      · rw [if_pos h3]; rfl
      · rw [if_neg h3, if_neg h1, if_neg h2, if_neg h3]

/-- keyword recognition ignores the letter case: upper-casing the spelling does not change it -/
theorem C13_keyword_case_insensitive (w : List Rune) : isKeyword (w.map upperRune) = isKeyword w := by
  unfold isKeyword
  rw [List.map_map]
  congr 1
  apply List.map_congr_left
  intro c _
  exact upperRune_idem c

example : isKeyword (strOf "nOt") = true ∧ isKeyword (strOf "Like") = true ∧
    isKeyword (strOf "note") = false := by decide
/-! ## 3. whitespace -/

theorem C13_whitespace_generic (s : Scanner) (hw : s.WF) (c : Rune) (w rest : List Rune)
    (hin : s.content.drop s.pos = (c :: w) ++ rest)
    (hall : ∀ x ∈ c :: w, isWs x = true) (hb : ∀ x, rest.head? = some x → isWs x = false) :
    Cuts genericCfg s TT.whitespace (c :: w) none rest := by
  have h := rawNext_span genericCfg s hw .whitespace TT.whitespace (inMap genericCfg.wsChars) c w
    rest hin (generic_dispatch_ws c (hall c List.mem_cons_self)) (by decide) rfl
    (by intro x hx; show inMap defaultWsChars x = true; rw [inMap_defaultWsChars]; exact hall x hx)
    (by intro x hx; show inMap defaultWsChars x = false; rw [inMap_defaultWsChars]; exact hb x hx)
  apply Cuts.of_value genericCfg rawContract_generic s hw c w rest hin
  refine ⟨?_, h.2.1, h.2.2⟩
  rw [h.1]; rfl

theorem C13_whitespace_expression (s : Scanner) (hw : s.WF) (c : Rune) (w rest : List Rune)
    (hin : s.content.drop s.pos = (c :: w) ++ rest)
    (hall : ∀ x ∈ c :: w, isWs x = true) (hb : ∀ x, rest.head? = some x → isWs x = false) :
    Cuts expressionCfg s TT.whitespace (c :: w) none rest := by
  have h := rawNext_span expressionCfg s hw .whitespace TT.whitespace
    (inMap expressionCfg.wsChars) c w
    rest hin (expression_dispatch_ws c (hall c List.mem_cons_self)) (by decide) rfl
    (by intro x hx; show inMap defaultWsChars x = true; rw [inMap_defaultWsChars]; exact hall x hx)
    (by intro x hx; show inMap defaultWsChars x = false; rw [inMap_defaultWsChars]; exact hb x hx)
  apply Cuts.of_value expressionCfg rawContract_expression s hw c w rest hin
  refine ⟨?_, h.2.1, h.2.2⟩
  rw [h.1]; rfl

/-! ## 4. symbols: the longest registered symbol wins -/

theorem genericRegs_eq : genericRegs = [([60, 62], 7), ([60, 61], 7), ([62, 61], 7)] := by decide

theorem expressionRegs_eq : expressionRegs =
    [([60, 61], 7), ([62, 61], 7), ([60, 62], 7), ([33, 61], 7), ([62, 62], 7), ([60, 60], 7)] := by
  decide

theorem genericRegs_ok : ∀ r ∈ genericRegs, regOk r = true := by decide
theorem expressionRegs_ok : ∀ r ∈ expressionRegs, regOk r = true := by decide
theorem genericRegs_len : ∀ r ∈ genericRegs, r.1.length ≤ 2 := by decide
theorem expressionRegs_len : ∀ r ∈ expressionRegs, r.1.length ≤ 2 := by decide
theorem genericRegs_typ : ∀ r ∈ genericRegs, r.2 = TT.symbol := by decide
theorem expressionRegs_typ : ∀ r ∈ expressionRegs, r.2 = TT.symbol := by decide

/-- shared core: a symbol step of a tokenizer whose table holds only `Symbol` entries -/
theorem symbol_step (cfg : Cfg) (hc : RawContract cfg) (regs : Regs)
    (hsyms : cfg.symbols = build regs) (hok : ∀ r ∈ regs, regOk r = true)
    (htyp : ∀ r ∈ regs, r.2 = TT.symbol) (hkind : cfg.kind ≠ .csv)
    (s : Scanner) (hw : s.WF) (c : Rune) (lex rest : List Rune) (hhead : lex.head? = some c)
    (hin : s.content.drop s.pos = lex ++ rest)
    (hd : cfg.dispatch.lookup c = some .symbol)
    (hcut : symCut regs (lex ++ rest) = lex) :
    Cuts cfg s TT.symbol lex none rest := by
  have hpk : s.peek = some c := by
    rw [peek_drop, hin]
    cases lex with
    | nil => cases hhead
    | cons a t => simpa using hhead
  obtain ⟨h1, h2, h3⟩ := rawNext_symbol cfg regs hsyms hok hkind s c hpk hd
  apply Cuts.of_value' cfg hc s hw c lex rest hhead hin
  refine ⟨?_, by rw [h1, hin, hcut], h3⟩
  rw [h2]
  split
  · exact specType_const regs TT.symbol htyp rfl _
  · rfl

/-- **generic symbol**: at a rune dispatched to the symbol state, the token is the longest
registered symbol that is a prefix of the input (`<>`, `<=`, `>=`), else that single rune.
`symCut` is the SPEC `longest … |>.getD (take 1)` of C16. -/
theorem C13_symbol_generic (s : Scanner) (hw : s.WF) (c : Rune) (lex rest : List Rune)
    (hhead : lex.head? = some c) (hin : s.content.drop s.pos = lex ++ rest)
    (hsym : isSymStartG c = true) (hcut : symCut genericRegs (lex ++ rest) = lex) :
    Cuts genericCfg s TT.symbol lex none rest :=
  symbol_step genericCfg rawContract_generic genericRegs generic_symbols genericRegs_ok
    genericRegs_typ (by decide) s hw c lex rest hhead hin (generic_dispatch_symbol c hsym) hcut

/-- **expression symbol** (`<=`, `>=`, `<>`, `!=`, `>>`, `<<`, else one rune) -/
theorem C13_symbol_expression (s : Scanner) (hw : s.WF) (c : Rune) (lex rest : List Rune)
    (hhead : lex.head? = some c) (hin : s.content.drop s.pos = lex ++ rest)
    (hsym : isSymStartE c = true) (hcut : symCut expressionRegs (lex ++ rest) = lex) :
    Cuts expressionCfg s TT.symbol lex none rest :=
  symbol_step expressionCfg rawContract_expression expressionRegs expression_symbols
    expressionRegs_ok expressionRegs_typ (by decide) s hw c lex rest hhead hin
    (expression_dispatch_symbol c hsym) hcut

/-- the cut only depends on the lexeme and the first rune after it -/
theorem C13_symCut_local_generic (lex rest : List Rune) (hne : lex ≠ []) :
    symCut genericRegs (lex ++ rest) = symCut genericRegs (lex ++ rest.head?.toList) :=
  symCut_head genericRegs genericRegs_len lex rest hne

theorem C13_symCut_local_expression (lex rest : List Rune) (hne : lex ≠ []) :
    symCut expressionRegs (lex ++ rest) = symCut expressionRegs (lex ++ rest.head?.toList) :=
  symCut_head expressionRegs expressionRegs_len lex rest hne

/-- a registered two-rune symbol always wins, whatever follows -/
theorem symCut_two (regs : Regs) (hlen : ∀ r ∈ regs, r.1.length ≤ 2) (a b : Rune)
    (rest : List Rune) (hreg : registered regs [a, b] = true) :
    symCut regs (a :: b :: rest) = [a, b] := by
  rw [symCut_take regs 2 (by omega) hlen]
  show symCut regs [a, b] = [a, b]
  unfold symCut
  rw [longest_eq]
  have hret : returnable regs [a, b] = true := (returnable_iff regs _).mpr (Or.inl hreg)
  simp [longestUpTo, hret]

/-- a rune not followed by a rune completing a registered symbol stands alone -/
theorem symCut_one (regs : Regs) (hlen : ∀ r ∈ regs, r.1.length ≤ 2) (a : Rune)
    (rest : List Rune) (hreg : ∀ x, rest.head? = some x → registered regs [a, x] = false) :
    symCut regs (a :: rest) = [a] := by
  rw [symCut_take regs 2 (by omega) hlen]
  unfold symCut
  rw [longest_eq]
  have h1 : ∀ l : List Rune, l.take 1 = [a] → (longestUpTo regs l 1).getD [a] = [a] := by
    intro l hl
    show (if returnable regs (l.take 1) then some (l.take 1) else longestUpTo regs l 0).getD [a] = [a]
    rw [hl]
    by_cases h : returnable regs [a] = true
    · rw [if_pos h]; rfl
    · rw [if_neg h]; rfl
  cases rest with
  | nil => exact h1 [a] rfl
  | cons x xs =>
    show (longestUpTo regs [a, x] 2).getD [a] = [a]
    have hr : returnable regs [a, x] = false := by
      rw [Bool.eq_false_iff]
      intro h
      rcases (returnable_iff regs _).mp h with h | ⟨h, _⟩
      · rw [hreg x rfl] at h; cases h
      · simp at h
    have e : longestUpTo regs [a, x] 2 = longestUpTo regs [a, x] 1 := by
      show (if returnable regs [a, x] then some [a, x] else longestUpTo regs [a, x] 1) = _
      rw [hr]; rfl
    rw [e]
    exact h1 [a, x] rfl

/-- **expression: `<=` is one symbol** -/
theorem C13_le_expression (s : Scanner) (hw : s.WF) (rest : List Rune)
    (hin : s.content.drop s.pos = [60, 61] ++ rest) :
    Cuts expressionCfg s TT.symbol [60, 61] none rest :=
  C13_symbol_expression s hw 60 [60, 61] rest rfl hin (by decide)
    (symCut_two expressionRegs expressionRegs_len 60 61 rest (by decide))

/-- **expression: `<` alone** when the next rune is none of `=`, `>`, `<` -/
theorem C13_lt_expression (s : Scanner) (hw : s.WF) (rest : List Rune)
    (hin : s.content.drop s.pos = [60] ++ rest)
    (hb : ∀ x, rest.head? = some x → x ≠ 61 ∧ x ≠ 62 ∧ x ≠ 60) :
    Cuts expressionCfg s TT.symbol [60] none rest := by
  apply C13_symbol_expression s hw 60 [60] rest rfl hin (by decide)
  apply symCut_one expressionRegs expressionRegs_len
  intro x hx
  obtain ⟨h1, h2, h3⟩ := hb x hx
  rw [expressionRegs_eq]
  simp [registered, Ne.symm h1, Ne.symm h2, Ne.symm h3]

/-! ## 5. numbers -/

theorem NumShape.got (n : NumShape) (hok : n.ok = true) :
    (!n.ip.isEmpty || !n.fp.isEmpty) = true := by
  obtain ⟨sign, ip, dot, fp⟩ := n
  simp only [NumShape.ok, Bool.and_eq_true, Bool.or_eq_true, Bool.not_eq_true'] at hok
  obtain ⟨⟨_, hsome⟩, _⟩ := hok
  simp only [Bool.or_eq_true, Bool.not_eq_true']
  rcases hsome with h | h
  · exact Or.inl h
  · exact Or.inr h.2

/-- the generic number state on a written number -/
theorem numberState_written (sym : Scanner → Tok × Scanner) (s : Scanner) (hw : s.WF)
    (n : NumShape) (rest : List Rune) (hok : n.ok = true) (hb : n.boundary rest.head? = true)
    (hin : s.content.drop s.pos = n.text ++ rest) (f : Nat) (hf : s.content.length + 1 ≤ f + s.pos) :
    (numberState sym f s).1.value = n.text ∧ (numberState sym f s).1.typ = n.typ ∧
    SegOK s.content s.pos (numberState sym f s).1.value (numberState sym f s).2 := by
  have hp : s.pos ≤ s.content.length := by
    apply Classical.byContradiction
    intro h
    rw [List.drop_eq_nil_of_le (by omega)] at hin
    have := congrArg List.length hin
    simp only [List.length_nil, List.length_append] at this
    have := List.length_pos_iff.mpr (n.text_ne_nil hok)
    omega
  have hparse := parseNum_text n rest hok hb
  have h := numberState_parse sym f s hw hp hf (by rw [hin, hparse]; exact n.got hok)
  rw [hin, hparse] at h
  exact h

/-- **generic integer / decimal**: `[-] digits` (Integer) or `[-] digits . digits` with a digit
on at least one side of the `.` (Float) is one token.  The sign is part of the number.
Boundary: no digit follows, and after an integer no `.` follows. -/
theorem C13_number_generic (s : Scanner) (hw : s.WF) (n : NumShape) (rest : List Rune)
    (hok : n.ok = true) (hb : n.boundary rest.head? = true)
    (hin : s.content.drop s.pos = n.text ++ rest) :
    Cuts genericCfg s n.typ n.text none rest := by
  cases htxt : n.text with
  | nil => exact absurd htxt (n.text_ne_nil hok)
  | cons c w =>
    have hlt : s.pos < s.content.length := pos_lt_of_drop (by rw [hin, htxt]; rfl)
    have hnum := numberState_written (symState genericCfg (s.content.length + 2)) s hw n rest hok hb
      hin (s.content.length + 2) (by omega)
    have hd := generic_dispatch_number c (n.head_class hok c (by rw [htxt]; rfl))
    have hrun : runState genericCfg .number (s.content.length + 2) s
        = numberState (symState genericCfg (s.content.length + 2)) (s.content.length + 2) s := rfl
    obtain ⟨h1, h2, _⟩ := rawNext_of_state genericCfg c s .number hd
      (by rw [hrun, hnum.1]; exact n.text_ne_nil hok)
    rw [← htxt]
    apply Cuts.of_value' genericCfg rawContract_generic s hw c n.text rest (by rw [htxt]; rfl) hin
    refine ⟨by rw [h1, hrun]; exact hnum.2.1, by rw [h1, hrun]; exact hnum.1, ?_⟩
    rw [h2]; rfl

/-- integers: the `dot = false` instance -/
theorem C13_integer_generic (s : Scanner) (hw : s.WF) (sign ds rest : List Rune)
    (hsign : sign = [] ∨ sign = [45]) (hds : ds ≠ []) (hdig : ∀ x ∈ ds, isDigit x = true)
    (hb : ∀ x, rest.head? = some x → isDigit x = false ∧ x ≠ 46)
    (hin : s.content.drop s.pos = sign ++ ds ++ rest) :
    Cuts genericCfg s TT.integer (sign ++ ds) none rest := by
  have h := C13_number_generic s hw ⟨sign, ds, false, []⟩ rest
    (by
      simp only [NumShape.ok, Bool.and_eq_true, Bool.or_eq_true, beq_iff_eq, allDigits_iff,
        Bool.not_eq_true']
      refine ⟨⟨⟨⟨hsign, hdig⟩, by simp⟩, Or.inl ?_⟩, Or.inr rfl⟩
      cases ds with
      | nil => exact absurd rfl hds
      | cons a t => rfl)
    (by
      simp only [NumShape.boundary, Bool.and_eq_true, Bool.not_eq_true', headIs_false_iff,
        Bool.or_eq_true, bne_iff_ne, ne_eq]
      refine ⟨fun x hx => (hb x hx).1, Or.inr ?_⟩
      intro h
      exact (hb 46 h).2 rfl)
    (by simpa [NumShape.text] using hin)
  simpa [NumShape.text, NumShape.typ] using h

/-- decimals: the `dot = true` instance -/
theorem C13_decimal_generic (s : Scanner) (hw : s.WF) (sign ip fp rest : List Rune)
    (hsign : sign = [] ∨ sign = [45]) (hsome : ip ≠ [] ∨ fp ≠ [])
    (hip : ∀ x ∈ ip, isDigit x = true) (hfp : ∀ x ∈ fp, isDigit x = true)
    (hb : ∀ x, rest.head? = some x → isDigit x = false)
    (hin : s.content.drop s.pos = sign ++ ip ++ 46 :: fp ++ rest) :
    Cuts genericCfg s TT.float (sign ++ ip ++ 46 :: fp) none rest := by
  have h := C13_number_generic s hw ⟨sign, ip, true, fp⟩ rest
    (by
      simp only [NumShape.ok, Bool.and_eq_true, Bool.or_eq_true, beq_iff_eq, allDigits_iff,
        Bool.not_eq_true', Bool.true_and]
      refine ⟨⟨⟨⟨hsign, hip⟩, hfp⟩, ?_⟩, Or.inl trivial⟩
      rcases hsome with h | h
      · left; cases ip with
        | nil => exact absurd rfl h
        | cons a t => rfl
      · right; cases fp with
        | nil => exact absurd rfl h
        | cons a t => rfl)
    (by
      simp only [NumShape.boundary, Bool.and_eq_true, Bool.not_eq_true', headIs_false_iff,
        Bool.or_eq_true]
      exact ⟨hb, Or.inl trivial⟩)
    (by simpa [NumShape.text] using hin)
  simpa [NumShape.text, NumShape.typ] using h

/-! ### expression numbers: the sign is a symbol, exponents -/

/-- **expression: a `-` is always the symbol `-`**, never part of a number -/
theorem C13_minus_expression (s : Scanner) (hw : s.WF) (rest : List Rune)
    (hin : s.content.drop s.pos = [45] ++ rest) :
    Cuts expressionCfg s TT.symbol [45] none rest := by
  have hpk : s.peek = some 45 := peek_of_drop hin
  have hrun : runState expressionCfg .number (s.content.length + 2) s
      = (build expressionRegs).nextToken (s.content.length + 2) s := by
    show exprNumberState (symState expressionCfg _) _ s = _
    rw [exprNumberState_eq, hpk]
    simp only [beq_self_eq_true, if_true]
    exact symState_eq_build expressionCfg expressionRegs expression_symbols (by decide) _ s
  obtain ⟨h1, h2, h3⟩ := rawNext_via_symbol expressionCfg expressionRegs expressionRegs_ok s 45 hpk
    .number (expression_dispatch_number 45 (Or.inr (Or.inl rfl))) (by decide) hrun
  have hcut : symCut expressionRegs ([45] ++ rest) = [45] := by
    apply symCut_one expressionRegs expressionRegs_len
    intro x _
    rw [expressionRegs_eq]
    simp [registered]
  apply Cuts.of_value expressionCfg rawContract_expression s hw 45 [] rest hin
  refine ⟨?_, by rw [h1, hin, hcut], h3⟩
  rw [h2]
  split
  · exact specType_const expressionRegs TT.symbol expressionRegs_typ rfl _
  · rfl

/-- the expression number state on an unsigned written number, up to the exponent check -/
theorem exprNumber_mantissa (s : Scanner) (hw : s.WF) (n : NumShape) (rest : List Rune)
    (hok : n.ok = true) (hsign : n.sign = []) (hb : n.boundary rest.head? = true)
    (hin : s.content.drop s.pos = n.text ++ rest) (sym : Scanner → Tok × Scanner) :
    (s.peek == some 45) = false ∧
    (numberState sym (s.content.length + 2) s).1.value = n.text ∧
    (numberState sym (s.content.length + 2) s).1.typ = n.typ ∧
    SegOK s.content s.pos n.text (numberState sym (s.content.length + 2) s).2 ∧
    (numberState sym (s.content.length + 2) s).2.content.drop
      (numberState sym (s.content.length + 2) s).2.pos = rest := by
  have hne := n.text_ne_nil hok
  cases htxt : n.text with
  | nil => exact absurd htxt hne
  | cons c w =>
    have hlt : s.pos < s.content.length := pos_lt_of_drop (by rw [hin, htxt]; rfl)
    have hpk : s.peek = some c := peek_of_drop (by rw [hin, htxt]; rfl)
    have hc45 : c ≠ 45 := by
      intro h
      have hh : n.text.head? = some 45 := by rw [htxt, h]; rfl
      obtain ⟨sign, ip, dot, fp⟩ := n
      simp only at hsign
      subst hsign
      simp only [NumShape.ok, Bool.and_eq_true, Bool.or_eq_true, allDigits_iff] at hok
      obtain ⟨⟨⟨⟨_, hip⟩, _⟩, _⟩, _⟩ := hok
      simp only [NumShape.text, List.nil_append] at hh
      cases ip with
      | cons a t =>
        simp only [List.cons_append, List.head?_cons, Option.some.injEq] at hh
        have := hip a List.mem_cons_self
        rw [hh] at this; exact absurd this (by decide)
      | nil =>
        cases dot with
        | true => simp at hh
        | false => simp at hh
    have hnum := numberState_written sym s hw n rest hok hb hin (s.content.length + 2) (by omega)
    rw [← htxt]
    refine ⟨?_, hnum.1, hnum.2.1, by rw [← hnum.1]; exact hnum.2.2, ?_⟩
    · rw [hpk]; simp [hc45]
    · rw [hnum.2.2.drop_eq (Nat.le_of_lt hlt), hnum.1, hin, List.drop_left]

/-- **expression integer / decimal** (no sign, no exponent): `digits` or `digits . digits`.
Boundary as in the generic case, and no `e` / `E` follows. -/
theorem C13_number_expression (s : Scanner) (hw : s.WF) (n : NumShape) (rest : List Rune)
    (hok : n.ok = true) (hsign : n.sign = []) (hb : n.boundary rest.head? = true)
    (he : rest.head? ≠ some 101 ∧ rest.head? ≠ some 69)
    (hin : s.content.drop s.pos = n.text ++ rest) :
    Cuts expressionCfg s n.typ n.text none rest := by
  have hne := n.text_ne_nil hok
  obtain ⟨hm1, hm2, hm3, _, hm5⟩ := exprNumber_mantissa s hw n rest hok hsign hb hin
    (symState expressionCfg (s.content.length + 2))
  have hrun : runState expressionCfg .number (s.content.length + 2) s
      = numberState (symState expressionCfg (s.content.length + 2)) (s.content.length + 2) s := by
    show exprNumberState (symState expressionCfg _) _ s = _
    rw [exprNumberState_eq, hm1]
    simp only [Bool.false_eq_true, if_false]
    have hpk2 : (numberState (symState expressionCfg (s.content.length + 2))
        (s.content.length + 2) s).2.peek = rest.head? := by rw [peek_drop, hm5]
    rw [hpk2]
    have h3 : (rest.head? != some 101 && rest.head? != some 69) = true := by
      simp [he.1, he.2]
    rw [h3]
    simp
  cases htxt : n.text with
  | nil => exact absurd htxt hne
  | cons c w =>
    have hd := expression_dispatch_number c (n.head_class hok c (by rw [htxt]; rfl))
    obtain ⟨h1, h2, _⟩ := rawNext_of_state expressionCfg c s .number hd
      (by rw [hrun, hm2]; exact hne)
    rw [← htxt]
    apply Cuts.of_value' expressionCfg rawContract_expression s hw c n.text rest
      (by rw [htxt]; rfl) hin
    refine ⟨by rw [h1, hrun]; exact hm3, by rw [h1, hrun]; exact hm2, ?_⟩
    rw [h2]; rfl

/-- **expression scientific number**: mantissa `digits [. digits]`, `e` or `E`, optional sign,
at least one digit: one `Float` token.  Boundary: no digit follows. -/
theorem C13_scientific_expression (s : Scanner) (hw : s.WF) (n : NumShape) (e d : Rune)
    (sgn ds rest : List Rune)
    (hok : n.ok = true) (hsign : n.sign = []) (he : e = 101 ∨ e = 69)
    (hsgn : sgn = [] ∨ sgn = [45] ∨ sgn = [43]) (hd : isDigit d = true)
    (hds : ∀ x ∈ ds, isDigit x = true) (hb : ∀ x, rest.head? = some x → isDigit x = false)
    (hin : s.content.drop s.pos = (n.text ++ e :: (sgn ++ d :: ds)) ++ rest) :
    Cuts expressionCfg s TT.float (n.text ++ e :: (sgn ++ d :: ds)) none rest := by
  have hne := n.text_ne_nil hok
  have hin' : s.content.drop s.pos = n.text ++ (e :: (sgn ++ d :: (ds ++ rest))) := by
    rw [hin]; simp
  have hbe : n.boundary (e :: (sgn ++ d :: (ds ++ rest))).head? = true := by
    simp only [List.head?_cons, NumShape.boundary, headIs, Bool.and_eq_true, Bool.not_eq_true',
      Bool.or_eq_true, bne_iff_ne, ne_eq, Option.some.injEq]
    rcases he with rfl | rfl
    · exact ⟨by decide, Or.inr (by decide)⟩
    · exact ⟨by decide, Or.inr (by decide)⟩
  obtain ⟨hm1, hm2, hm3, hm4, hm5⟩ := exprNumber_mantissa s hw n _ hok hsign hbe hin'
    (symState expressionCfg (s.content.length + 2))
  have hlt : s.pos < s.content.length := by
    cases htxt : n.text with
    | nil => exact absurd htxt hne
    | cons c w => exact pos_lt_of_drop (by rw [hin', htxt]; rfl)
  -- the state after the mantissa
  generalize hg : numberState (symState expressionCfg (s.content.length + 2))
    (s.content.length + 2) s = g at hm2 hm3 hm4 hm5
  have hgc : g.2.content = s.content := hm4.content
  have hpk1 : g.2.peek = some e := peek_of_drop hm5
  obtain ⟨hacc, hdrop3⟩ := exp_part g.2 e d sgn (ds ++ rest) hm5 hsgn hd
  have hpk3 : (expS3 g.2).peek = some d := peek_of_drop hdrop3
  have hinv := exp_inv g.2 hm4.wf hgc hpk1
  have hw3 := readWhilePeek_value isDigit (s.content.length + 2) (expAcc2 g.2) (expS3 g.2)
    (by
      have h1 := hinv.content
      have : ((expS3 g.2).content.drop (expS3 g.2).pos).length ≤ s.content.length := by
        rw [h1, List.length_drop]; omega
      omega)
  rw [hdrop3, hacc] at hw3
  have htw : (d :: (ds ++ rest)).takeWhile isDigit = d :: ds := by
    have := takeWhile_append_stop isDigit (d :: ds) rest
      (by intro x hx; rcases List.mem_cons.mp hx with rfl | hx
          · exact hd
          · exact hds x hx) hb
    simpa using this
  rw [htw] at hw3
  have hrun : (runState expressionCfg .number (s.content.length + 2) s).1.value
        = n.text ++ e :: (sgn ++ d :: ds) ∧
      (runState expressionCfg .number (s.content.length + 2) s).1.typ = TT.float := by
    show (exprNumberState (symState expressionCfg _) _ s).1.value = _ ∧
      (exprNumberState (symState expressionCfg _) _ s).1.typ = _
    rw [exprNumberState_eq, hm1, hg]
    have ht : (g.1.typ != TT.integer && g.1.typ != TT.float) = false := by
      rw [hm3]; unfold NumShape.typ; cases n.dot <;> rfl
    have h3 : (g.2.peek != some 101 && g.2.peek != some 69) = false := by
      rw [hpk1]; rcases he with rfl | rfl <;> rfl
    simp only [Bool.false_eq_true, if_false, ht, h3, hpk3, hd, Bool.not_true]
    refine ⟨?_, trivial⟩
    show g.1.value ++ _ = _
    rw [hm2, hacc, hw3]
    simp
  cases htxt : n.text with
  | nil => exact absurd htxt hne
  | cons c w =>
    have hdisp := expression_dispatch_number c (n.head_class hok c (by rw [htxt]; rfl))
    obtain ⟨h1, h2, _⟩ := rawNext_of_state expressionCfg c s .number hdisp
      (by rw [hrun.1]; simp)
    rw [← htxt]
    apply Cuts.of_value' expressionCfg rawContract_expression s hw c _ rest
      (by rw [htxt]; rfl) hin
    refine ⟨by rw [h1]; exact hrun.2, by rw [h1]; exact hrun.1, ?_⟩
    rw [h2]; rfl

/-! ## 6. quoted strings -/

/-- **expression quoted string** (doubled-quote escapes): `encodeEsc q v` for `q` = `'` or `"`,
in front of anything but another `q`, is one token whose text is the encoded form; class
`Quoted` for `'`, `Word` for `"`; it decodes back to `v`. -/
theorem C13_quoted_expression (s : Scanner) (hw : s.WF) (q : Rune) (hq : q = 39 ∨ q = 34)
    (v rest : List Rune) (hrest : rest.head? ≠ some q)
    (hin : s.content.drop s.pos = encodeEsc q v ++ rest) :
    Cuts expressionCfg s (if q = 34 then TT.word else TT.quoted) (encodeEsc q v) (some q) rest ∧
    decodeFor expressionCfg q (encodeEsc q v) = v := by
  refine ⟨?_, C14_decode_encode_esc q v⟩
  have henc : encodeEsc q v = q :: (doubleQ q v ++ [q]) := by simp [encodeEsc]
  have hin' : s.content.drop s.pos = (q :: (doubleQ q v ++ [q])) ++ rest := by rw [← henc]; exact hin
  have hrt := C14_token_roundtrip true q v rest hrest s hw hin (s.content.length + 2) (Nat.le_refl _)
  have hrun : runState expressionCfg .quote (s.content.length + 2) s
      = escQuoteState true (s.content.length + 2) s := rfl
  have hd := expression_dispatch_quote q hq.symm
  obtain ⟨h1, h2, _⟩ := rawNext_of_state expressionCfg q s .quote hd
    (by rw [hrun, hrt.1, henc]; exact List.cons_ne_nil _ _)
  rw [henc]
  apply Cuts.of_value expressionCfg rawContract_expression s hw q _ rest hin'
  refine ⟨?_, by rw [h1, hrun, hrt.1, henc], by rw [h2]; rfl⟩
  rw [h1, hrun]
  obtain ⟨hr0, _, _⟩ := read_drop_cons s q _ hin'
  simp only [escQuoteState, hr0, Option.getD_some, Bool.true_and]
  rcases hq with rfl | rfl <;> rfl

/-- the generic quote loop on `body ++ q :: rest` with no `q` in `body` -/
theorem quoteLoop_plain (q : Rune) (rest : List Rune) :
    ∀ (body : List Rune) (f : Nat) (acc : List Rune) (c : Rune) (s : Scanner),
      c :: s.content.drop s.pos = body ++ q :: rest → (∀ x ∈ body, x ≠ q) → body.length + 1 ≤ f →
      (quoteLoop q f acc (some c) s).1 = acc ++ body ++ [q] := by
  intro body
  induction body with
  | nil =>
    intro f acc c s h _ hf
    obtain ⟨hc, _⟩ := List.cons.inj h
    cases f with
    | zero => simp at hf
    | succ f => subst hc; simp [quoteLoop]
  | cons a body ih =>
    intro f acc c s h hnq hf
    obtain ⟨hc, ht⟩ := List.cons.inj h
    subst hc
    cases f with
    | zero => simp at hf
    | succ f =>
      have hcq : (c == q) = false := by simpa using hnq c List.mem_cons_self
      cases hd : s.content.drop s.pos with
      | nil =>
        rw [hd] at ht
        have := congrArg List.length ht
        simp at this
      | cons c' t' =>
        obtain ⟨hr1, _, hd1⟩ := read_drop_cons s c' t' hd
        have hih := ih f (acc ++ [c]) c' (s.read).2 (by rw [hd1, ← hd, ht]; rfl)
          (fun x hx => hnq x (List.mem_cons_of_mem _ hx)) (by simpa using hf)
        simp only [quoteLoop, hcq, Bool.false_eq_true, if_false, hr1]
        rw [hih]; simp

/-- **generic quoted string** (no escapes): `q body q` with no `q` inside `body` is one
`Quoted` token, whatever follows. -/
theorem C13_quoted_generic (s : Scanner) (hw : s.WF) (q : Rune) (hq : q = 39 ∨ q = 34)
    (body rest : List Rune) (hbody : ∀ x ∈ body, x ≠ q)
    (hin : s.content.drop s.pos = encodeGeneric q body ++ rest) :
    Cuts genericCfg s TT.quoted (encodeGeneric q body) (some q) rest ∧
    decodeFor genericCfg q (encodeGeneric q body) = body := by
  refine ⟨?_, C14_decode_encode_generic q body⟩
  have henc : encodeGeneric q body = q :: (body ++ [q]) := by simp [encodeGeneric]
  have hin' : s.content.drop s.pos = (q :: (body ++ [q])) ++ rest := by rw [← henc]; exact hin
  have hin2 : s.content.drop s.pos = q :: (body ++ q :: rest) := by rw [hin']; simp
  obtain ⟨hr0, hp0, hd0⟩ := read_drop_cons s q _ hin2
  have hlen : (body ++ q :: rest).length ≤ s.content.length := by
    have := congrArg List.length hin2
    rw [List.length_drop, List.length_cons] at this
    omega
  have hval : (genericQuoteState (s.content.length + 2) s).1.value = q :: (body ++ [q]) := by
    cases hd : (s.read).2.content.drop (s.read).2.pos with
    | nil =>
      rw [hd] at hd0
      have := congrArg List.length hd0
      simp at this
    | cons c' t' =>
      obtain ⟨hr1, _, hd1⟩ := read_drop_cons (s.read).2 c' t' hd
      have hl := quoteLoop_plain q rest body (s.content.length + 2) [q] c' ((s.read).2.read).2
        (by rw [hd1, ← hd, hd0]) hbody
        (by rw [List.length_append, List.length_cons] at hlen; omega)
      simp only [genericQuoteState, hr0, hr1, Option.getD_some]
      rw [hl]; simp
  have hrun : runState genericCfg .quote (s.content.length + 2) s
      = genericQuoteState (s.content.length + 2) s := rfl
  have hd := generic_dispatch_quote q hq.symm
  obtain ⟨h1, h2, _⟩ := rawNext_of_state genericCfg q s .quote hd
    (by rw [hrun, hval]; exact List.cons_ne_nil _ _)
  rw [henc]
  apply Cuts.of_value genericCfg rawContract_generic s hw q _ rest hin'
  exact ⟨by rw [h1, hrun]; rfl, by rw [h1, hrun, hval], by rw [h2]; rfl⟩

/-! ## 7. comments -/

/-- **generic `#` comment**: `#` and everything up to (not including) the next line break -/
theorem C13_comment_generic (s : Scanner) (hw : s.WF) (body rest : List Rune)
    (hbody : ∀ x ∈ body, notEol x = true) (hb : ∀ x, rest.head? = some x → notEol x = false)
    (hin : s.content.drop s.pos = (35 :: body) ++ rest) :
    Cuts genericCfg s TT.comment (35 :: body) none rest := by
  have h := rawNext_span genericCfg s hw .comment TT.comment notEol 35 body rest hin
    generic_dispatch_comment (by decide) rfl
    (by
      intro x hx
      rcases List.mem_cons.mp hx with rfl | hx
      · rfl
      · exact hbody x hx) hb
  apply Cuts.of_value genericCfg rawContract_generic s hw 35 body rest hin
  refine ⟨?_, h.2.1, h.2.2⟩
  rw [h.1]; rfl

/-- the C-comment loop on `body ++ */ ++ rest` with no `*/` inside `body` -/
theorem mlLoop_plain (rest : List Rune) :
    ∀ (body : List Rune) (last : Rune) (f : Nat) (acc : List Rune) (c : Rune) (s : Scanner),
      c :: s.content.drop s.pos = body ++ 42 :: 47 :: rest → noStarSlash last body = true →
      body.length + 2 ≤ f →
      (mlLoop f acc last (some c) s).1 = acc ++ body ++ [42, 47] := by
  intro body
  induction body with
  | nil =>
    intro last f acc c s h _ hf
    obtain ⟨hc, ht⟩ := List.cons.inj h
    subst hc
    obtain ⟨hr1, _, _⟩ := read_drop_cons s 47 rest ht
    obtain ⟨f', rfl⟩ : ∃ k, f = k + 2 := ⟨f - 2, by simp at hf; omega⟩
    simp [mlLoop, hr1]
  | cons a body ih =>
    intro last f acc c s h hns hf
    obtain ⟨hc, ht⟩ := List.cons.inj h
    subst hc
    cases f with
    | zero => simp at hf
    | succ f =>
      simp only [noStarSlash, Bool.and_eq_true, Bool.not_eq_true'] at hns
      cases hd : s.content.drop s.pos with
      | nil =>
        rw [hd] at ht
        have := congrArg List.length ht
        simp at this
      | cons c' t' =>
        obtain ⟨hr1, _, hd1⟩ := read_drop_cons s c' t' hd
        have hih := ih c f (acc ++ [c]) c' (s.read).2 (by rw [hd1, ← hd, ht]; rfl) hns.2
          (by simpa using hf)
        simp only [mlLoop, hns.1, Bool.false_eq_true, if_false, hr1]
        rw [hih]; simp

/-- **expression `/* … */` comment** with no `*/` inside the body: one `Comment` token -/
theorem C13_comment_expression (s : Scanner) (hw : s.WF) (body rest : List Rune)
    (hbody : noStarSlash 0 body = true)
    (hin : s.content.drop s.pos = (47 :: 42 :: (body ++ [42, 47])) ++ rest) :
    Cuts expressionCfg s TT.comment (47 :: 42 :: (body ++ [42, 47])) none rest := by
  have hin2 : s.content.drop s.pos = 47 :: 42 :: (body ++ 42 :: 47 :: rest) := by rw [hin]; simp
  obtain ⟨hr0, _, hd0⟩ := read_drop_cons s 47 _ hin2
  obtain ⟨hr1, _, hd1⟩ := read_drop_cons (s.read).2 42 _ hd0
  have hlen : (body ++ 42 :: 47 :: rest).length + 2 ≤ s.content.length := by
    have := congrArg List.length hin2
    rw [List.length_drop, List.length_cons, List.length_cons] at this
    omega
  have hval : (cCommentState (symState expressionCfg (s.content.length + 2))
      (s.content.length + 2) s).1.value = 47 :: 42 :: (body ++ [42, 47]) ∧
      (cCommentState (symState expressionCfg (s.content.length + 2))
      (s.content.length + 2) s).1.typ = TT.comment := by
    cases hd : ((s.read).2.read).2.content.drop ((s.read).2.read).2.pos with
    | nil =>
      rw [hd] at hd1
      have := congrArg List.length hd1
      simp at this
    | cons c' t' =>
      obtain ⟨hr2, _, hd2⟩ := read_drop_cons ((s.read).2.read).2 c' t' hd
      have hl := mlLoop_plain rest body 0 (s.content.length + 2) [47, 42] c'
        (((s.read).2.read).2.read).2 (by rw [hd2, ← hd, hd1]) hbody
        (by rw [List.length_append] at hlen; omega)
      simp only [cCommentState, hr1, beq_self_eq_true, if_true, hr2]
      rw [hl]; simp
  have hrun : runState expressionCfg .comment (s.content.length + 2) s
      = cCommentState (symState expressionCfg (s.content.length + 2)) (s.content.length + 2) s := rfl
  obtain ⟨h1, h2, _⟩ := rawNext_of_state expressionCfg 47 s .comment expression_dispatch_comment
    (by rw [hrun, hval.1]; exact List.cons_ne_nil _ _)
  apply Cuts.of_value expressionCfg rawContract_expression s hw 47 _ rest hin
  exact ⟨by rw [h1, hrun]; exact hval.2, by rw [h1, hrun]; exact hval.1, by rw [h2]; rfl⟩

/-- **expression: a `/` not followed by `*` is the symbol `/`** (the comment state falls back
to the symbol state on the scanner it was entered with) -/
theorem C13_slash_expression (s : Scanner) (hw : s.WF) (rest : List Rune)
    (hb : rest.head? ≠ some 42) (hin : s.content.drop s.pos = [47] ++ rest) :
    Cuts expressionCfg s TT.symbol [47] none rest := by
  have hpk : s.peek = some 47 := peek_of_drop hin
  have hlt := (peek_some_lt hpk).1
  obtain ⟨_, _, hd0⟩ := read_drop_cons s 47 rest hin
  have hr1 : ((s.read).2.read).1 = rest.head? := by
    rw [← C11_peek_is_next, peek_drop, hd0]
  have hback : ((s.read).2.read).2.unread.unread = s :=
    Scanner.wf_ext s _ hw (unread_wf _ (unread_wf _ (read_wf _ (read_wf _ hw))))
      (by rw [unread_content, unread_content, read_content, read_content])
      (read_read_unread_unread_pos s hlt)
  have hrun : runState expressionCfg .comment (s.content.length + 2) s
      = (build expressionRegs).nextToken (s.content.length + 2) s := by
    show cCommentState (symState expressionCfg _) _ s = _
    have hne : (((s.read).2.read).1 == some 42) = false := by
      rw [hr1]; simpa using hb
    simp only [cCommentState, hne, Bool.false_eq_true, if_false, hback]
    exact symState_eq_build expressionCfg expressionRegs expression_symbols (by decide) _ s
  obtain ⟨h1, h2, h3⟩ := rawNext_via_symbol expressionCfg expressionRegs expressionRegs_ok s 47 hpk
    .comment expression_dispatch_comment (by decide) hrun
  have hcut : symCut expressionRegs ([47] ++ rest) = [47] := by
    apply symCut_one expressionRegs expressionRegs_len
    intro x _
    rw [expressionRegs_eq]
    simp [registered]
  apply Cuts.of_value expressionCfg rawContract_expression s hw 47 [] rest hin
  refine ⟨?_, by rw [h1, hin, hcut], h3⟩
  rw [h2]
  split
  · exact specType_const expressionRegs TT.symbol expressionRegs_typ rfl _
  · rfl

/-! ### lone `-` and `.`: the number state falls back to the symbol state -/

/-- without a digit the number state hands the scanner it was entered with to the symbol state -/
theorem numberState_fallback (sym : Scanner → Tok × Scanner) (f : Nat) (s : Scanner) (hw : s.WF)
    (hp : s.pos ≤ s.content.length) (hf : s.content.length + 1 ≤ f + s.pos)
    (hgot : (!(parseNum (s.content.drop s.pos)).ip.isEmpty ||
      !(parseNum (s.content.drop s.pos)).fp.isEmpty) = false) :
    numberState sym f s = sym s := by
  have hg := nsGot_parse f s hw hp hf
  rw [hgot] at hg
  rw [numberState_eq, hg, nsBack_eq f s hw hp]
  rfl

/-- `-` or `.` not followed by a digit (and `-` not by `.`): no digit is found -/
theorem parseNum_lone (c : Rune) (hc : c = 45 ∨ c = 46) (rest : List Rune)
    (hb : ∀ x, rest.head? = some x → isDigit x = false ∧ (c = 45 → x ≠ 46)) :
    (!(parseNum (c :: rest)).ip.isEmpty || !(parseNum (c :: rest)).fp.isEmpty) = false := by
  have htw : rest.takeWhile isDigit = [] := by
    cases rest with
    | nil => rfl
    | cons x xs => simp [List.takeWhile, (hb x rfl).1]
  rcases hc with rfl | rfl
  · have hsign : (parseNum (45 :: rest)).sign = [45] := rfl
    have hip : (parseNum (45 :: rest)).ip = [] := by
      rw [parseNum_ip, hsign]; exact htw
    have hdot : (parseNum (45 :: rest)).dot = false := by
      rw [parseNum_dot, hsign, hip]
      show (rest.head? == some 46) = false
      cases hr : rest.head? with
      | none => rfl
      | some x => simpa using (hb x hr).2 rfl
    have hfp : (parseNum (45 :: rest)).fp = [] := by rw [parseNum_fp, hdot]; rfl
    rw [hip, hfp]; rfl
  · have hsign : (parseNum (46 :: rest)).sign = [] := rfl
    have hip : (parseNum (46 :: rest)).ip = [] := by
      rw [parseNum_ip, hsign]; rfl
    have hfp : (parseNum (46 :: rest)).fp = [] := by
      rw [parseNum_fp, parseNum_dot, hsign, hip]
      exact htw
    rw [hip, hfp]; rfl

/-- **generic: a lone `-` or `.`** (no digit follows, and no `.` after the `-`) is a one-rune
Symbol: the number state falls back to the symbol state. -/
theorem C13_lone_sign_generic (s : Scanner) (hw : s.WF) (c : Rune) (hc : c = 45 ∨ c = 46)
    (rest : List Rune)
    (hb : ∀ x, rest.head? = some x → isDigit x = false ∧ (c = 45 → x ≠ 46))
    (hin : s.content.drop s.pos = [c] ++ rest) :
    Cuts genericCfg s TT.symbol [c] none rest := by
  have hpk : s.peek = some c := peek_of_drop hin
  have hlt := (peek_some_lt hpk).1
  have hrun : runState genericCfg .number (s.content.length + 2) s
      = (build genericRegs).nextToken (s.content.length + 2) s := by
    show numberState (symState genericCfg _) _ s = _
    rw [numberState_fallback _ _ s hw (Nat.le_of_lt hlt) (by omega)
      (by rw [hin]; exact parseNum_lone c hc rest hb)]
    exact symState_eq_build genericCfg genericRegs generic_symbols (by decide) _ s
  obtain ⟨h1, h2, h3⟩ := rawNext_via_symbol genericCfg genericRegs genericRegs_ok s c hpk
    .number (generic_dispatch_number c (Or.inr hc)) (by decide) hrun
  have hcut : symCut genericRegs ([c] ++ rest) = [c] := by
    apply symCut_one genericRegs genericRegs_len
    intro x _
    rw [genericRegs_eq]
    rcases hc with rfl | rfl <;> simp [registered]
  apply Cuts.of_value genericCfg rawContract_generic s hw c [] rest hin
  refine ⟨?_, by rw [h1, hin, hcut], h3⟩
  rw [h2]
  split
  · exact specType_const genericRegs TT.symbol genericRegs_typ rfl _
  · rfl

/-- **expression: a lone `.`** (no digit follows) is a one-rune Symbol -/
theorem C13_lone_dot_expression (s : Scanner) (hw : s.WF) (rest : List Rune)
    (hb : ∀ x, rest.head? = some x → isDigit x = false)
    (hin : s.content.drop s.pos = [46] ++ rest) :
    Cuts expressionCfg s TT.symbol [46] none rest := by
  have hpk : s.peek = some 46 := peek_of_drop hin
  have hlt := (peek_some_lt hpk).1
  have hnum : numberState (symState expressionCfg (s.content.length + 2)) (s.content.length + 2) s
      = (build expressionRegs).nextToken (s.content.length + 2) s := by
    rw [numberState_fallback _ _ s hw (Nat.le_of_lt hlt) (by omega)
      (by rw [hin]; exact parseNum_lone 46 (Or.inr rfl) rest
            (fun x hx => ⟨hb x hx, fun h => absurd h (by decide)⟩))]
    exact symState_eq_build expressionCfg expressionRegs expression_symbols (by decide) _ s
  have hcut : symCut expressionRegs ([46] ++ rest) = [46] := by
    apply symCut_one expressionRegs expressionRegs_len
    intro x _
    rw [expressionRegs_eq]
    simp [registered]
  -- the symbol token the fall-back produces
  have hcore := C16_core expressionRegs expressionRegs_ok s hlt
  have htyp : ((build expressionRegs).nextToken (s.content.length + 2) s).1.typ = TT.symbol := by
    rcases hcore with ⟨_, _, ht, _⟩ | ⟨p, _, _, _, ht, _⟩
    · exact ht
    · rw [ht]; exact specType_const expressionRegs TT.symbol expressionRegs_typ rfl _
  have hrun : runState expressionCfg .number (s.content.length + 2) s
      = (build expressionRegs).nextToken (s.content.length + 2) s := by
    show exprNumberState (symState expressionCfg _) _ s = _
    rw [exprNumberState_eq, hpk, hnum]
    have h1 : ((some (46 : Rune)) == some 45) = false := by decide
    have h2 : (((build expressionRegs).nextToken (s.content.length + 2) s).1.typ != TT.integer &&
        ((build expressionRegs).nextToken (s.content.length + 2) s).1.typ != TT.float) = true := by
      rw [htyp]; decide
    rw [h1, h2]
    rfl
  obtain ⟨h1, h2, h3⟩ := rawNext_via_symbol expressionCfg expressionRegs expressionRegs_ok s 46 hpk
    .number (expression_dispatch_number 46 (Or.inr (Or.inr rfl))) (by decide) hrun
  apply Cuts.of_value expressionCfg rawContract_expression s hw 46 [] rest hin
  refine ⟨?_, by rw [h1, hin, hcut], h3⟩
  rw [h2]
  split
  · exact specType_const expressionRegs TT.symbol expressionRegs_typ rfl _
  · rfl

/-! ## 8. the sequence theorem -/

theorem all_iff {α : Type} (p : α → Bool) (l : List α) : l.all p = true ↔ ∀ x ∈ l, p x = true := by
  simp

/-- every well-formed generic lexeme in front of a non-merging continuation is cut off by one
step -/
theorem lexOKG_step (s : Scanner) (l : Lexeme) (rest : List Rune) (hw : s.WF)
    (hin : s.content.drop s.pos = l.text ++ rest) (hok : lexOKG l rest.head? = true) :
    Cuts genericCfg s l.typ l.text l.quote rest := by
  obtain ⟨typ, text, quote⟩ := l
  simp only at hin ⊢
  unfold lexOKG at hok
  simp only at hok
  cases quote with
  | some q =>
    simp only [Bool.and_eq_true, beq_iff_eq, quotedShapeG, Bool.or_eq_true, Bool.not_eq_true'] at hok
    obtain ⟨htyp, ⟨hq, henc⟩, hnc⟩ := hok
    subst htyp
    have hbody : ∀ x ∈ decodeGeneric q text, x ≠ q := by
      intro x hx hxq
      subst hxq
      have : (decodeGeneric x text).contains x = true := List.contains_iff_mem.mpr hx
      rw [hnc] at this; cases this
    rw [henc] at hin ⊢
    exact (C13_quoted_generic s hw q hq (decodeGeneric q text) rest hbody hin).1
  | none =>
    simp only [Bool.or_eq_true, Bool.and_eq_true, beq_iff_eq, Bool.not_eq_true',
      headIs_false_iff, bne_iff_ne, ne_eq] at hok
    rcases hok with (((h | h) | h) | h) | h
    · obtain ⟨⟨htyp, hshape⟩, hb⟩ := h
      subst htyp
      cases text with
      | nil => simp [wordShape] at hshape
      | cons c w =>
        simp only [wordShape, Bool.and_eq_true, all_iff] at hshape
        exact C13_word_generic s hw c w rest hin hshape.1 hshape.2 hb
    · obtain ⟨⟨htyp, hshape⟩, hb⟩ := h
      subst htyp
      cases text with
      | nil => simp [wsShape] at hshape
      | cons c w =>
        simp only [wsShape, Bool.and_eq_true, all_iff] at hshape
        refine C13_whitespace_generic s hw c w rest hin ?_ hb
        intro x hx
        rcases List.mem_cons.mp hx with rfl | hx
        · exact hshape.1
        · exact hshape.2 x hx
    · obtain ⟨htyp, hshape⟩ := h
      subst htyp
      rcases hshape with (hshape | hshape) | hshape
      · cases text with
        | nil => simp [symShape] at hshape
        | cons c w =>
          simp only [symShape, Bool.and_eq_true, beq_iff_eq] at hshape
          refine C13_symbol_generic s hw c (c :: w) rest rfl hin hshape.1 ?_
          rw [C13_symCut_local_generic (c :: w) rest (List.cons_ne_nil _ _)]
          exact hshape.2
      · obtain ⟨⟨rfl, hdig⟩, hdot⟩ := hshape
        refine C13_lone_sign_generic s hw 45 (Or.inl rfl) rest ?_ hin
        intro x hx
        refine ⟨hdig x hx, fun _ h => ?_⟩
        rw [hx, h] at hdot
        exact hdot rfl
      · obtain ⟨rfl, hdig⟩ := hshape
        refine C13_lone_sign_generic s hw 46 (Or.inr rfl) rest ?_ hin
        intro x hx
        exact ⟨hdig x hx, fun h => absurd h (by decide)⟩
    · obtain ⟨htyp, hshape⟩ := h
      simp only [numShapeG, Bool.and_eq_true, beq_iff_eq] at hshape
      obtain ⟨⟨⟨hnok, htext⟩, hty⟩, hbd⟩ := hshape
      have h := C13_number_generic s hw (parseNum text) rest hnok hbd (by rw [htext]; exact hin)
      rw [htext, ← hty] at h
      exact h
    · obtain ⟨⟨htyp, hshape⟩, hb⟩ := h
      subst htyp
      cases text with
      | nil => simp [commentShapeG] at hshape
      | cons c body =>
        simp only [commentShapeG, Bool.and_eq_true, beq_iff_eq, all_iff] at hshape
        obtain ⟨rfl, hbody⟩ := hshape
        exact C13_comment_generic s hw body rest hbody hb hin

theorem sgn_cases (more : List Rune) :
    expSign more = [] ∨ expSign more = [45] ∨ expSign more = [43] := by
  unfold expSign
  cases more with
  | nil => left; rfl
  | cons x xs =>
    simp only [List.head?_cons, Bool.or_eq_true, beq_iff_eq, Option.some.injEq]
    by_cases h1 : x = 45
    · subst h1; right; left; simp
    · by_cases h2 : x = 43
      · subst h2; right; right; simp
      · left; simp [h1, h2]

/-- every well-formed expression lexeme in front of a non-merging continuation is cut off by
one step -/
theorem lexOKE_step (s : Scanner) (l : Lexeme) (rest : List Rune) (hw : s.WF)
    (hin : s.content.drop s.pos = l.text ++ rest) (hok : lexOKE l rest.head? = true) :
    Cuts expressionCfg s l.typ l.text l.quote rest := by
  obtain ⟨typ, text, quote⟩ := l
  simp only at hin ⊢
  unfold lexOKE at hok
  simp only at hok
  cases quote with
  | some q =>
    simp only [Bool.and_eq_true, beq_iff_eq, quotedShapeE, Bool.or_eq_true, bne_iff_ne, ne_eq] at hok
    obtain ⟨hq, henc, hnx⟩ := hok
    rw [henc] at hin ⊢
    have hqq : q = 39 ∨ q = 34 := by
      rcases hq with h | h
      · exact Or.inl h.1
      · exact Or.inr h.1
    have h := (C13_quoted_expression s hw q hqq (decodeEsc q text) rest hnx hin).1
    rcases hq with ⟨rfl, rfl⟩ | ⟨rfl, rfl⟩
    · exact h
    · exact h
  | none =>
    simp only [Bool.or_eq_true, Bool.and_eq_true, beq_iff_eq, Bool.not_eq_true',
      headIs_false_iff, bne_iff_ne, ne_eq] at hok
    rcases hok with ((((h | h) | h) | h) | h) | h
    · obtain ⟨⟨⟨_, hshape⟩, htyp⟩, hb⟩ := h
      cases text with
      | nil => simp [wordShape] at hshape
      | cons c w =>
        simp only [wordShape, Bool.and_eq_true, all_iff] at hshape
        rw [htyp]
        exact C13_word_expression s hw c w rest hin hshape.1 hshape.2 hb
    · obtain ⟨⟨htyp, hshape⟩, hb⟩ := h
      subst htyp
      cases text with
      | nil => simp [wsShape] at hshape
      | cons c w =>
        simp only [wsShape, Bool.and_eq_true, all_iff] at hshape
        refine C13_whitespace_expression s hw c w rest hin ?_ hb
        intro x hx
        rcases List.mem_cons.mp hx with rfl | hx
        · exact hshape.1
        · exact hshape.2 x hx
    · obtain ⟨htyp, hshape⟩ := h
      subst htyp
      rcases hshape with ((hshape | hshape) | hshape) | hshape
      · cases text with
        | nil => simp [symShape] at hshape
        | cons c w =>
          simp only [symShape, Bool.and_eq_true, beq_iff_eq] at hshape
          refine C13_symbol_expression s hw c (c :: w) rest rfl hin hshape.1 ?_
          rw [C13_symCut_local_expression (c :: w) rest (List.cons_ne_nil _ _)]
          exact hshape.2
      · subst hshape
        exact C13_minus_expression s hw rest hin
      · obtain ⟨rfl, hnx⟩ := hshape
        exact C13_slash_expression s hw rest hnx hin
      · obtain ⟨rfl, hdig⟩ := hshape
        exact C13_lone_dot_expression s hw rest hdig hin
    · obtain ⟨htyp, hshape⟩ := h
      simp only [numShapeE, Bool.and_eq_true, beq_iff_eq, bne_iff_ne, ne_eq] at hshape
      obtain ⟨⟨⟨⟨⟨⟨hnok, hsg⟩, htext⟩, hty⟩, hbd⟩, he1⟩, he2⟩ := hshape
      have h := C13_number_expression s hw (parseNum text) rest hnok hsg hbd ⟨he1, he2⟩
        (by rw [htext]; exact hin)
      rw [htext, ← hty] at h
      exact h
    · obtain ⟨htyp, hshape⟩ := h
      subst htyp
      unfold sciShapeE at hshape
      simp only at hshape
      cases hdr : text.drop (parseNum text).text.length with
      | nil => rw [hdr] at hshape; cases hshape
      | cons e more =>
        rw [hdr] at hshape
        simp only at hshape
        have hsg := sgn_cases more
        generalize expSign more = sgn at hshape hsg
        cases hdr2 : more.drop sgn.length with
        | nil => rw [hdr2] at hshape; cases hshape
        | cons d ds =>
          rw [hdr2] at hshape
          simp only [Bool.and_eq_true, beq_iff_eq, Bool.or_eq_true, all_iff, Bool.not_eq_true',
            headIs_false_iff] at hshape
          obtain ⟨⟨⟨⟨⟨⟨hnok, hsign⟩, he⟩, hd⟩, hds⟩, htext⟩, hb⟩ := hshape
          have h := C13_scientific_expression s hw (parseNum text) e d sgn ds rest hnok hsign he
            hsg hd hds hb (by rw [← htext]; exact hin)
          rw [← htext] at h
          exact h
    · obtain ⟨htyp, hshape⟩ := h
      subst htyp
      simp only [commentShapeE, Bool.and_eq_true, beq_iff_eq] at hshape
      obtain ⟨htext, hbody⟩ := hshape
      rw [htext] at hin ⊢
      exact C13_comment_expression s hw _ rest hbody hin

/-- the lexemes are written so that neighbours cannot merge: each one passes the class /
boundary check against the first rune of the text that follows it -/
def SeparatedG (ls : List Lexeme) : Prop := Chain (fun l rest => lexOKG l rest.head? = true) ls
def SeparatedE (ls : List Lexeme) : Prop := Chain (fun l rest => lexOKE l rest.head? = true) ls

/-- **C13, generic tokenizer**: any sequence of well-formed lexemes (identifiers, whitespace
runs, single- and multi-character symbols including a lone `-` or `.`, signed integers and
decimals, quoted strings without an inner quote, `#` comments) written so that neighbours cannot merge is tokenized, all
options off, into exactly those lexemes with exactly those classes, each at the line/column of
its first rune, followed by the Eof token. -/
theorem C13_lexemes_roundtrip_generic (ls : List Lexeme) (h : SeparatedG ls) :
    tokenize genericCfg Opts.allOff (lexText ls) =
      expectToks (lexText ls) 0 ls ++ [eofTok (lexText ls)] :=
  tokenize_of_chain genericCfg (by decide) rawContract_generic _
    (fun s l rest hw hin hok => lexOKG_step s l rest hw hin hok) ls h

/-- **C13, expression tokenizer**: identifiers, keywords in any letter case (class `Keyword`,
spelling kept), whitespace, symbols (longest of `<= >= <> != >> <<` wins; `-`, a `/` not
followed by `*` and a `.` not followed by a digit are symbols), unsigned integers, decimals and scientific numbers, `'…'`
(`Quoted`) and `"…"` (`Word`) strings with doubled-quote escapes, `/* … */` comments. -/
theorem C13_lexemes_roundtrip_expression (ls : List Lexeme) (h : SeparatedE ls) :
    tokenize expressionCfg Opts.allOff (lexText ls) =
      expectToks (lexText ls) 0 ls ++ [eofTok (lexText ls)] :=
  tokenize_of_chain expressionCfg (by decide) rawContract_expression _
    (fun s l rest hw hin hok => lexOKE_step s l rest hw hin hok) ls h

/-- classes and texts only (positions dropped) -/
theorem expectToks_typ_value (c : List Rune) (off : Nat) (ls : List Lexeme) :
    (expectToks c off ls).map (fun t => (t.typ, t.value)) = ls.map (fun l => (l.typ, l.text)) := by
  induction ls generalizing off with
  | nil => rfl
  | cons l ls ih => simp only [expectToks, List.map_cons, ih]

theorem C13_lexemes_roundtrip_partial (ls : List Lexeme) :
    (SeparatedG ls → (tokenize genericCfg Opts.allOff (lexText ls)).map (fun t => (t.typ, t.value))
      = ls.map (fun l => (l.typ, l.text)) ++ [(TT.eof, [])]) ∧
    (SeparatedE ls → (tokenize expressionCfg Opts.allOff (lexText ls)).map (fun t => (t.typ, t.value))
      = ls.map (fun l => (l.typ, l.text)) ++ [(TT.eof, [])]) := by
  constructor
  · intro h
    rw [C13_lexemes_roundtrip_generic ls h, List.map_append, expectToks_typ_value]; rfl
  · intro h
    rw [C13_lexemes_roundtrip_expression ls h, List.map_append, expectToks_typ_value]; rfl

/-! ## decidability of the hypotheses, non-vacuity, and the deviations from the prose claim -/

theorem chainB_iff (p : Lexeme → Option Rune → Bool) (ls : List Lexeme) :
    chainB p ls = true ↔ Chain (fun l rest => p l rest.head? = true) ls := by
  induction ls with
  | nil => simp [chainB, Chain]
  | cons l ls ih => simp [chainB, Chain, ih]

/-- `SeparatedG` / `SeparatedE` are decidable: they are the Boolean checks `chainB lexOK…` -/
theorem SeparatedG_iff (ls : List Lexeme) : SeparatedG ls ↔ chainB lexOKG ls = true :=
  (chainB_iff lexOKG ls).symm

theorem SeparatedE_iff (ls : List Lexeme) : SeparatedE ls ↔ chainB lexOKE ls = true :=
  (chainB_iff lexOKE ls).symm

/-- non-vacuity (expression): `abc <=-1.5e+3 'it''s'/* c */Not "w"<12/éα_1` — identifier,
`<=`, the sign as a symbol, a scientific number, both string kinds, a comment, a mixed-case
keyword, `<` in front of a digit, `/` as a symbol, an identifier starting with a Latin-1
letter and containing a Greek one. -/
def exampleE : List Lexeme :=
  [⟨TT.word, strOf "abc", none⟩, ⟨TT.whitespace, strOf " ", none⟩, ⟨TT.symbol, strOf "<=", none⟩,
   ⟨TT.symbol, strOf "-", none⟩, ⟨TT.float, strOf "1.5e+3", none⟩, ⟨TT.whitespace, strOf " ", none⟩,
   ⟨TT.quoted, strOf "'it''s'", some 39⟩, ⟨TT.comment, strOf "/* c */", none⟩,
   ⟨TT.keyword, strOf "Not", none⟩, ⟨TT.whitespace, strOf " ", none⟩, ⟨TT.word, strOf "\"w\"", some 34⟩,
   ⟨TT.symbol, strOf "<", none⟩, ⟨TT.integer, strOf "12", none⟩, ⟨TT.symbol, strOf "/", none⟩,
   ⟨TT.word, [0xe9, 0x3b1, 95, 49], none⟩]

example : SeparatedE exampleE := (SeparatedE_iff _).mpr (by decide)

/-- non-vacuity (generic): `αβ-1 <>-12.5 'a b'>=x #c⏎_` — an identifier starting with a Greek
letter and containing `-`, `<>`, a signed decimal, a quoted string, `>=`, a `#` comment up to
the line break, `_` as a symbol, a lone `-` and a lone `.` (symbols), `7<.5`. -/
def exampleG : List Lexeme :=
  [⟨TT.word, [0x3b1, 0x3b2, 45, 49], none⟩, ⟨TT.whitespace, strOf " ", none⟩,
   ⟨TT.symbol, strOf "<>", none⟩, ⟨TT.float, strOf "-12.5", none⟩, ⟨TT.whitespace, strOf " ", none⟩,
   ⟨TT.quoted, strOf "'a b'", some 39⟩, ⟨TT.symbol, strOf ">=", none⟩, ⟨TT.word, strOf "x", none⟩,
   ⟨TT.whitespace, strOf " ", none⟩, ⟨TT.comment, strOf "#c", none⟩,
   ⟨TT.whitespace, [10], none⟩, ⟨TT.symbol, strOf "_", none⟩, ⟨TT.symbol, strOf "-", none⟩,
   ⟨TT.whitespace, strOf " ", none⟩, ⟨TT.symbol, strOf ".", none⟩, ⟨TT.whitespace, strOf " ", none⟩,
   ⟨TT.integer, strOf "7", none⟩, ⟨TT.symbol, strOf "<", none⟩, ⟨TT.float, strOf ".5", none⟩]

example : SeparatedG exampleG := (SeparatedG_iff _).mpr (by decide)

/-- neighbours that CAN merge are rejected by the check: `<` directly followed by `=` -/
example : chainB lexOKE [⟨TT.symbol, strOf "<", none⟩, ⟨TT.symbol, strOf "=", none⟩] = false := by
  decide

/-- … and so is the integer `7` directly followed by the decimal `.5` (they read as `7.5`) -/
example : chainB lexOKG [⟨TT.integer, strOf "7", none⟩, ⟨TT.float, strOf ".5", none⟩] = false := by
  decide

/-- **deviation 1** (generic tokenizer has no scientific notation): `1e5` is the Integer `1`
followed by the Word `e5`. -/
example : (tokenize genericCfg Opts.allOff (strOf "1e5")).map (fun t => (t.typ, t.value))
    = [(TT.integer, strOf "1"), (TT.word, strOf "e5"), (TT.eof, [])] := by decide

/-- **deviation 2** (expression identifiers cannot START with a rune ≥ U+0100): such a rune is
dispatched to the symbol state and is a one-rune Symbol; it is a word character only *inside*
an identifier. -/
theorem C13_expression_nonlatin_start_is_symbol (s : Scanner) (hw : s.WF) (c : Nat)
    (rest : List Rune) (hc : inR 0x100 0xfffe c = true)
    (hin : s.content.drop s.pos = [c] ++ rest) :
    Cuts expressionCfg s TT.symbol [c] none rest := by
  have hc' : 0x100 ≤ c ∧ c ≤ 0xfffe := (inR_iff _ _ _).mp hc
  have hsym : isSymStartE c = true := by
    rw [isSymStartE_iff]
    omega
  apply C13_symbol_expression s hw c [c] rest rfl hin hsym
  apply symCut_one expressionRegs expressionRegs_len
  intro x _
  rw [expressionRegs_eq]
  have h60 : c ≠ 60 := by intro h; rw [h] at hc'; omega
  have h62 : c ≠ 62 := by intro h; rw [h] at hc'; omega
  have h33 : c ≠ 33 := by intro h; rw [h] at hc'; omega
  simp [registered, Ne.symm h60, Ne.symm h62, Ne.symm h33]

example : (tokenize expressionCfg Opts.allOff [0x3b1, 98]).map (fun t => (t.typ, t.value))
    = [(TT.symbol, [0x3b1]), (TT.word, [98]), (TT.eof, [])] := by decide

/-- the sign: part of the number generically, a separate symbol in expressions -/
example : (tokenize genericCfg Opts.allOff (strOf "-5")).map (fun t => (t.typ, t.value))
    = [(TT.integer, strOf "-5"), (TT.eof, [])] := by decide

example : (tokenize expressionCfg Opts.allOff (strOf "-5")).map (fun t => (t.typ, t.value))
    = [(TT.symbol, strOf "-"), (TT.integer, strOf "5"), (TT.eof, [])] := by decide

end Verif
