package main

import (
	"fmt"
	"math"
	"math/big"
	"regexp"
	"runtime"
	"strconv"
	"strings"
	"sync"
	"time"

	"github.com/pip-services3-gox/pip-services3-expressions-gox/calculator"
	"github.com/pip-services3-gox/pip-services3-expressions-gox/calculator/functions"
	"github.com/pip-services3-gox/pip-services3-expressions-gox/calculator/parsers"
	"github.com/pip-services3-gox/pip-services3-expressions-gox/calculator/variables"
	"github.com/pip-services3-gox/pip-services3-expressions-gox/variants"
)

// C08 functions, C01 evaluation, C03 no-crash, C18 variables/collections

var fnNames = []string{"Ticks", "TimeSpan", "Now", "Date", "DayOfWeek", "Min", "Max", "Sum", "If", "Choose", "E", "Pi",
	"Rnd", "Random", "Abs", "Acos", "Asin", "Atan", "Exp", "Log", "Ln", "Log10", "Ceil", "Ceiling",
	"Floor", "Round", "Trunc", "Truncate", "Cos", "Sin", "Tan", "Sqr", "Sqrt", "Empty", "Null",
	"Contains", "Array"}

var mathHost = map[string]func(float64) float64{
	"Acos": math.Acos, "Asin": math.Asin, "Atan": math.Atan, "Exp": math.Exp, "Log": math.Log,
	"Log10": math.Log10, "Cos": math.Cos, "Sin": math.Sin, "Tan": math.Tan,
}

var mathRe = regexp.MustCompile(`H(Acos|Asin|Atan|Exp|Log10|Log|Cos|Sin|Tan)\(d([0-9a-fNa]+)\)`)
var dateRe = regexp.MustCompile(`Hdate\(i(-?\d+);i(-?\d+);i(-?\d+);i(-?\d+);i(-?\d+);i(-?\d+);i(-?\d+)\)`)

func init() {
	hostFns = append(hostFns, func(model string) string {
		for {
			m := mathRe.FindStringSubmatchIndex(model)
			if m == nil {
				break
			}
			f := mathHost[model[m[2]:m[3]]]
			model = model[:m[0]] + encF64(f(bitsToF64(model[m[4]:m[5]]))) + model[m[1]:]
		}
		for {
			m := dateRe.FindStringSubmatch(model)
			if m == nil {
				break
			}
			var a [7]int
			for i := 0; i < 7; i++ {
				n, _ := strconv.ParseInt(m[i+1], 10, 64)
				a[i] = int(n)
			}
			t := time.Date(a[0], time.Month(a[1]), a[2], a[3], a[4], a[5], a[6], time.Local)
			model = strings.Replace(model, m[0], encTime(t), 1)
		}
		return model
	})
}

func argsStr(args []*variants.Variant) string {
	var p []string
	for _, a := range args {
		p = append(p, encArg(a))
	}
	return strings.Join(p, " ")
}

func runFnCase(c *Ctx, m string, name string, args []*variants.Variant) {
	op := strings.TrimSpace(fmt.Sprintf("fn %s %s %s", m, strRunes(name), argsStr(args)))
	canon := ""
	for _, f := range fnNames {
		if strings.EqualFold(f, name) {
			canon = f
		}
	}
	var t0, t1 time.Time
	var res *variants.Variant
	// the arguments are handed over as the front of a larger buffer (as `buf[:n]` of a reused list would be)
	sentinels := []*variants.Variant{vStr("spare-0"), vStr("spare-1"), vStr("spare-2"), vStr("spare-3")}
	full := make([]*variants.Variant, len(args)+len(sentinels))
	copy(full, args)
	copy(full[len(args):], sentinels)
	buf := full[:len(args)]
	impl := safeCall(func() string {
		coll := functions.NewDefaultFunctionCollection()
		f := coll.FindByName(name)
		if f == nil {
			return "err FUNC_NOT_FOUND"
		}
		t0 = time.Now()
		r, err := f.Calculate(buf, mgrOf(m))
		t1 = time.Now()
		res = r
		return outcome(r, err)
	})
	// the argument list belongs to the caller: neither its elements nor the spare capacity behind them may be written
	for i := range full {
		want := (*variants.Variant)(nil)
		if i < len(args) {
			want = args[i]
		} else {
			want = sentinels[i-len(args)]
		}
		if full[i] != want {
			c.fail(Failure{Kind: "oracle", Op: op, Impl: impl, Note: fmt.Sprintf("the call wrote slot %d of the caller's argument buffer (length %d, capacity %d): a later call on that buffer silently computes with substituted values", i, len(args), len(full))})
			break
		}
	}
	c.record(op, len(args) > 0)
	c.count("fn:" + canon)
	if c.Prop == "C08" && canon != "" && canon != "Ticks" && canon != "Now" && canon != "Rnd" && canon != "Random" && c.Rng.Intn(3) == 0 {
		// "looked up by name": the same call on a default collection the user edited (another function removed,
		// one of their own added) must find the same function
		other := fnNames[c.Rng.Intn(len(fnNames))]
		if !strings.EqualFold(other, canon) {
			runFnEdited(c, m, name, other, args, impl)
		}
	}
	if strings.HasPrefix(impl, "panic:") || impl == "both" || impl == "neither" {
		c.fail(Failure{Kind: "oracle", Op: op, Impl: impl, Note: "a function must return exactly one of a result or an error, never a nil result without error"})
		return
	}
	if strings.HasPrefix(impl, "ok") {
		c.count("fn-outcome:value")
	} else {
		c.count("fn-outcome:" + impl)
	}
	// the argument-count table of the property: a wrong count is WRONG_PARAM_COUNT and nothing else is
	if canon != "" {
		n := len(args)
		okCount := true
		switch canon {
		case "Ticks", "Now", "Rnd", "Random", "E", "Pi", "Null":
			okCount = n == 0
		case "TimeSpan":
			okCount = n == 1 || n == 3 || n == 4 || n == 5
		case "Date":
			okCount = n >= 1 && n <= 7
		case "Min", "Max", "Sum":
			okCount = n >= 2
		case "If":
			okCount = n == 3
		case "Choose":
			okCount = n >= 3 // (and the selector must address one of the alternatives: checked by the model)
		case "Contains":
			okCount = n == 2
		case "Array":
			okCount = true
		default:
			okCount = n == 1
		}
		if !okCount && impl != "err WRONG_PARAM_COUNT" {
			c.fail(Failure{Kind: "oracle", Op: op, Impl: impl, Note: fmt.Sprintf("%s does not take %d argument(s): the call must fail with WRONG_PARAM_COUNT", canon, n)})
			return
		}
		if okCount && impl == "err WRONG_PARAM_COUNT" && canon != "Choose" {
			c.fail(Failure{Kind: "oracle", Op: op, Impl: impl, Note: fmt.Sprintf("%s takes %d argument(s) but the call failed with WRONG_PARAM_COUNT", canon, n)})
			return
		}
	}
	// a successful call returns the fixed result type of the function (Null arguments may propagate as Null)
	if strings.HasPrefix(impl, "ok") && res != nil && res.Type() != variants.Null {
		// the table of Props/C08.lean (C08_result_type_table) plus what the model leaves to the host
		fixed := map[string]variants.VariantType{"Ticks": variants.Long, "Now": variants.DateTime, "Date": variants.DateTime, "TimeSpan": variants.TimeSpan, "DayOfWeek": variants.Integer,
			"E": variants.Float, "Pi": variants.Float, "Rnd": variants.Float, "Random": variants.Float, "Acos": variants.Double, "Asin": variants.Double, "Atan": variants.Double,
			"Exp": variants.Double, "Log": variants.Double, "Ln": variants.Double, "Log10": variants.Double, "Ceil": variants.Double, "Ceiling": variants.Double, "Floor": variants.Double,
			"Round": variants.Double, "Trunc": variants.Long, "Truncate": variants.Long, "Cos": variants.Double, "Sin": variants.Double, "Tan": variants.Double, "Sqr": variants.Double,
			"Sqrt": variants.Double, "Empty": variants.Boolean, "Contains": variants.Boolean, "Array": variants.Array}
		if want, ok := fixed[canon]; ok && res.Type() != want {
			c.fail(Failure{Kind: "oracle", Op: op, Impl: impl, Note: fmt.Sprintf("%s must return a value of type %d, it returned type %d", canon, want, res.Type())})
			return
		}
	}
	// construction and string functions on plain integer / string arguments: what their names denote, spelled independently
	if strings.HasPrefix(impl, "ok") && res != nil {
		allInt, allStr := len(args) > 0, len(args) > 0
		var iv []int64
		for _, a := range args {
			switch a.Type() {
			case variants.Integer:
				iv = append(iv, int64(a.AsInteger()))
				allStr = false
			case variants.String:
				allInt = false
			default:
				allInt, allStr = false, false
			}
		}
		small := true
		for _, v := range iv {
			if v < -100000 || v > 100000 {
				small = false
			}
		}
		bad := ""
		switch {
		case canon == "TimeSpan" && allInt && small && res.Type() == variants.TimeSpan:
			var want time.Duration
			units := []time.Duration{24 * time.Hour, time.Hour, time.Minute, time.Second, time.Millisecond}
			if len(iv) == 1 {
				want = time.Duration(iv[0]) * time.Millisecond
			} else {
				for i, v := range iv {
					want += time.Duration(v) * units[i]
				}
			}
			if res.AsTimeSpan() != want {
				bad = fmt.Sprintf("TimeSpan of %v (milliseconds, or days, hours, minutes, seconds, milliseconds) is %v, got %v", iv, want, res.AsTimeSpan())
			}
		case canon == "Date" && allInt && small && len(iv) >= 2 && len(iv) <= 6 && res.Type() == variants.DateTime:
			f := append(append([]int64(nil), iv...), []int64{1, 1, 0, 0, 0}[len(iv)-1:]...)
			if want := time.Date(int(f[0]), time.Month(f[1]), int(f[2]), int(f[3]), int(f[4]), int(f[5]), 0, time.Local); !res.AsDateTime().Equal(want) {
				bad = fmt.Sprintf("Date of %v (year, month, day, hour, minute, second) is %v, got %v", iv, want, res.AsDateTime())
			}
		case canon == "Date" && allInt && len(iv) == 1 && res.Type() == variants.DateTime:
			if want := time.Unix(iv[0], 0); !res.AsDateTime().Equal(want) {
				bad = fmt.Sprintf("Date(%d) is the instant %d seconds after the epoch, got %v", iv[0], iv[0], res.AsDateTime())
			}
		case canon == "Contains" && allStr && len(args) == 2 && res.Type() == variants.Boolean:
			if want := strings.Contains(args[0].AsString(), args[1].AsString()); res.AsBoolean() != want {
				bad = fmt.Sprintf("Contains(%q, %q) must be %v", args[0].AsString(), args[1].AsString(), want)
			}
		case canon == "Array" && res.Type() == variants.Array:
			if res.Length() != len(args) {
				bad = fmt.Sprintf("Array of %d arguments has %d elements", len(args), res.Length())
			} else {
				for i, a := range args {
					if encVariant(res.GetByIndex(i)) != encVariant(a) {
						bad = fmt.Sprintf("Array element %d is %s, argument %d was %s", i, encVariant(res.GetByIndex(i)), i, encVariant(a))
						break
					}
				}
			}
		case canon == "Empty" && len(args) == 1 && res.Type() == variants.Boolean:
			// "empty" is the library's notion of a variant without a value (Variant.IsEmpty): Null - not an empty string or list
			a := args[0]
			if want := a.Type() == variants.Null; res.AsBoolean() != want {
				bad = fmt.Sprintf("Empty(%s) must be %v (a variant is empty iff it holds no value)", encVariant(a), want)
			}
		}
		if bad != "" {
			c.fail(Failure{Kind: "oracle", Op: op, Impl: impl, Note: bad})
			return
		}
	}
	// clock / random: check the range here, compare symbolically with the model
	if strings.HasPrefix(impl, "ok") {
		switch canon {
		case "Ticks":
			v := res.AsLong()
			if res.Type() != variants.Long || v < t0.Unix() || v > t1.Unix() {
				c.fail(Failure{Kind: "oracle", Op: op, Impl: impl, Note: "Ticks outside the call interval"})
				return
			}
			impl = "ok Hticks()"
		case "Now":
			v := res.AsDateTime()
			if v.Before(t0) || v.After(t1) {
				c.fail(Failure{Kind: "oracle", Op: op, Impl: impl, Note: "Now outside the call interval"})
				return
			}
			impl = "ok Hnow()"
		case "Rnd", "Random":
			v := res.AsFloat()
			if res.Type() != variants.Float || v < 0 || v >= 1 {
				c.fail(Failure{Kind: "oracle", Op: op, Impl: impl, Note: "Rnd outside [0,1)"})
				return
			}
			impl = "ok Hrnd()"
		case "Abs":
			a := args[0]
			if (a.Type() == variants.Integer || a.Type() == variants.Long || a.Type() == variants.Float || a.Type() == variants.Double) && res.Type() != a.Type() {
				c.fail(Failure{Kind: "oracle", Op: op, Impl: impl, Note: "Abs must preserve the numeric type"})
				return
			}
			if a.Type() == variants.Long && a.AsLong() != math.MinInt64 {
				w := a.AsLong()
				if w < 0 {
					w = -w
				}
				if res.AsLong() != w {
					c.fail(Failure{Kind: "oracle", Op: op, Impl: impl, Note: fmt.Sprintf("Abs(%d) must be %d", a.AsLong(), w)})
					return
				}
			}
			// floats: the IEEE absolute value, bit for bit (the sign of zero and of NaN cleared)
			if a.Type() == variants.Double && res.Type() == variants.Double && math.Float64bits(res.AsDouble()) != math.Float64bits(math.Abs(a.AsDouble())) && !(a.AsDouble() != a.AsDouble()) {
				c.fail(Failure{Kind: "oracle", Op: op, Impl: impl, Note: fmt.Sprintf("Abs(%v) must be %v with a cleared sign bit", a.AsDouble(), math.Abs(a.AsDouble()))})
				return
			}
			if a.Type() == variants.Float && res.Type() == variants.Float && math.Float32bits(res.AsFloat()) != math.Float32bits(float32(math.Abs(float64(a.AsFloat())))) && !(a.AsFloat() != a.AsFloat()) {
				c.fail(Failure{Kind: "oracle", Op: op, Impl: impl, Note: fmt.Sprintf("Abs(%v) must be %v with a cleared sign bit", a.AsFloat(), math.Abs(float64(a.AsFloat())))})
				return
			}
		case "Min", "Max", "Sum":
			// left fold with the manager's own More / Less / Add
			ops := mgrOf(m)
			acc := args[0]
			okFold := true
			for _, a := range args[1:] {
				var r *variants.Variant
				var err error
				switch canon {
				case "Min":
					r, err = ops.More(acc, a)
				case "Max":
					r, err = ops.Less(acc, a)
				default:
					r, err = ops.Add(acc, a)
				}
				if err != nil || r == nil {
					okFold = false
					break
				}
				if canon == "Sum" {
					acc = r
				} else if r.Type() != variants.Boolean {
					okFold = false
					break
				} else if r.AsBoolean() {
					acc = a
				}
			}
			if okFold && encVariant(acc) != encVariant(res) {
				c.fail(Failure{Kind: "oracle", Op: op, Impl: impl, Note: canon + " differs from the left fold over all arguments: " + encVariant(acc)})
				return
			}
		}
		// rounding family and square root: IEEE functions of the converted argument
		if rf, ok := map[string]func(float64) float64{"Ceil": math.Ceil, "Ceiling": math.Ceil, "Floor": math.Floor, "Round": math.Round, "Sqrt": math.Sqrt, "Sqr": math.Sqrt}[canon]; ok && len(args) == 1 {
			if d, err := mgrOf(m).Convert(args[0], variants.Double); err == nil && args[0].Type() != variants.Null {
				want := "ok " + encF64(rf(d.AsDouble()))
				if impl != want {
					c.fail(Failure{Kind: "oracle", Op: op, Impl: impl, Note: canon + " must be the IEEE double function of the converted argument: " + want})
					return
				}
			}
		}
		if f, ok := mathHost[map[string]string{"Ln": "Log"}[canon]+canon]; ok && canon != "Ln" || canon == "Ln" {
			if canon == "Ln" {
				f = math.Log
			}
			if d, err := mgrOf(m).Convert(args[0], variants.Double); err == nil && len(args) == 1 {
				want := "ok " + encF64(f(d.AsDouble()))
				if impl != want {
					c.fail(Failure{Kind: "oracle", Op: op, Impl: impl, Note: canon + " must be the IEEE double function of the converted argument: " + want})
					return
				}
			}
		}
	}
	for _, a := range args {
		if a.Type() == variants.DateTime {
			if _, off := a.AsDateTime().Zone(); off != 0 {
				if canon == "DayOfWeek" && len(args) == 1 {
					if want := fmt.Sprintf("ok i%d", int(a.AsDateTime().Weekday())); impl != want {
						c.fail(Failure{Kind: "oracle", Op: op, Impl: impl, Note: "DayOfWeek must be the week day of the value in its own zone: " + want})
					}
				}
				c.count("fn-zoned-argument(not compared with the model)")
				return
			}
		}
	}
	c.model(op, impl, "model-host")
}

func randCaseName(c *Ctx, s string) string {
	switch c.Rng.Intn(4) {
	case 0:
		return s
	case 1:
		return strings.ToUpper(s)
	case 2:
		return strings.ToLower(s)
	}
	return randCase(c, s)
}

func propC08(c *Ctx) {
	propScaleValues(c, "C08")
	pool := valuePool()
	// calendar functions (DayOfWeek) read a date-time in its own zone; the model has instants only, so calls
	// with a zoned argument are checked against the direct oracle (the week day in the value's own zone)
	// and not compared with the model (runFnCase)
	pool["time"] = append(pool["time"], vTime(time.Date(2020, 1, 1, 23, 30, 0, 0, time.FixedZone("EST", -5*3600))),
		vTime(time.Date(2021, 3, 8, 1, 15, 0, 0, time.FixedZone("JST", 9*3600))))
	for _, t := range pool["time"] {
		runFnCase(c, "u", "DayOfWeek", []*variants.Variant{t})
		runFnCase(c, "s", "dayofweek", []*variants.Variant{t})
	}
	// the week day is that of the value AS GIVEN (its own zone), also within a zone offset of midnight, whatever the zone of
	// the machine: compared with the time.Time the variant was made from, not with what the variant hands back
	for _, off := range []int{-12, -9, -5, -1, 0, 1, 3, 9, 12, 14} {
		for _, hm := range [][2]int{{0, 30}, {23, 30}, {11, 45}, {0, 0}, {23, 59}} {
			raw := time.Date(2024, 1, 1, hm[0], hm[1], 0, 0, time.FixedZone(fmt.Sprintf("Z%+d", off), off*3600))
			arg := vTime(raw)
			op := fmt.Sprintf("fn u %s %s", strRunes("DayOfWeek"), encArg(arg))
			got := safeCall(func() string {
				return outcome(functions.NewDefaultFunctionCollection().FindByName("DayOfWeek").Calculate([]*variants.Variant{arg}, mgrOf("u")))
			})
			c.record(op, true)
			if want := fmt.Sprintf("ok i%d", int(raw.Weekday())); got != want {
				c.fail(Failure{Kind: "oracle", Op: op, Impl: got, Note: fmt.Sprintf("DayOfWeek(%s) must be the week day of the value in its own zone: %s", raw.Format(time.RFC3339), want)})
			}
		}
	}
	var all []*variants.Variant
	for _, tn := range typeNames {
		all = append(all, pool[tn]...)
	}
	reps := 40
	if c.Thorough {
		reps = 1500
	}
	arity := map[string][]int{"TimeSpan": {1, 3, 4, 5}, "Date": {1, 2, 3, 7}, "DayOfWeek": {1}, "Min": {2, 3, 5}, "Max": {2, 3, 5}, "Sum": {2, 3, 6},
		"If": {3}, "Choose": {3, 4, 6}, "Abs": {1}, "Empty": {1}, "Contains": {2}, "Array": {0, 1, 3, 8}}
	for _, f := range fnNames {
		for r := 0; r < reps; r++ {
			m := []string{"u", "s"}[c.Rng.Intn(2)]
			n := c.Rng.Intn(9)
			if ar, ok := arity[f]; ok && c.Rng.Intn(4) != 0 {
				n = ar[c.Rng.Intn(len(ar))]
			} else if !ok && c.Rng.Intn(3) != 0 {
				n = 1
				if f == "Ticks" || f == "Now" || f == "E" || f == "Pi" || f == "Rnd" || f == "Random" || f == "Null" {
					n = 0
				}
			}
			args := make([]*variants.Variant, n)
			sameType := c.Rng.Intn(2) == 0
			tn := typeNames[1+c.Rng.Intn(4)]
			for i := range args {
				if sameType {
					args[i] = pool[tn][c.Rng.Intn(len(pool[tn]))]
				} else {
					args[i] = all[c.Rng.Intn(len(all))]
				}
				if f == "Choose" && i == 0 && c.Rng.Intn(2) == 0 {
					args[i] = vInt(c.Rng.Intn(n+2) - 1)
				}
			}
			runFnCase(c, m, randCaseName(c, f), args)
		}
	}
	// every one-argument numeric function on every numeric boundary value (ties, half-ulp neighbours, signed
	// zeros, 2^52..2^53, extremes), both managers
	for _, f := range []string{"Abs", "Ceil", "Ceiling", "Floor", "Round", "Trunc", "Truncate", "Sqr", "Sqrt", "Exp", "Log", "Ln", "Log10", "Sin", "Cos", "Tan", "Asin", "Acos", "Atan"} {
		for _, tn := range []string{"int", "long", "float", "double"} {
			for _, v := range pool[tn] {
				runFnCase(c, "u", f, []*variants.Variant{v})
				if tn == "double" || tn == "float" {
					runFnCase(c, "s", f, []*variants.Variant{v})
				}
			}
		}
	}
	// Min / Max / Sum over every ordered pair (and some triples) of a mixed-type pool: the running value is the
	// FIRST operand of each comparison, the candidate is converted to its type
	mixed := []*variants.Variant{vInt(2), vInt(-7), vLong(3), vFloat(2.5), vDouble(2.25), vDouble(-0.5), vStr("10"), vStr("9"), vStr("abc"), vBool(true), vNull(),
		vSpan(1500 * time.Millisecond), vTime(time.Unix(5, 0)), vDouble(math.NaN()), vLong(1<<53 + 1)}
	for _, f := range []string{"Min", "Max", "Sum"} {
		for _, a := range mixed {
			for _, b := range mixed {
				runFnCase(c, "u", f, []*variants.Variant{a, b})
				runFnCase(c, "s", f, []*variants.Variant{a, b})
			}
			runFnCase(c, "u", f, []*variants.Variant{a, mixed[c.Rng.Intn(len(mixed))], mixed[c.Rng.Intn(len(mixed))]})
		}
	}
	// every function with every argument count 0..8 (plain integer arguments): the exact arity table
	for _, f := range fnNames {
		for n := 0; n <= 8; n++ {
			args := make([]*variants.Variant, n)
			for i := range args {
				args[i] = vInt(i + 1)
			}
			runFnCase(c, "u", f, args)
		}
	}
	// every function looked up on a collection from which an EARLIER entry was removed by index after a first lookup
	for i, name := range fnNames {
		if name == "Ticks" || name == "Now" || name == "Rnd" || name == "Random" {
			continue
		}
		args := []*variants.Variant{vInt(2)}
		switch name {
		case "Min", "Max", "Sum", "Contains":
			args = []*variants.Variant{vInt(3), vInt(7)}
		case "If", "Choose", "TimeSpan":
			args = []*variants.Variant{vInt(1), vInt(5), vInt(6)}
		case "E", "Pi", "Null":
			args = nil
		}
		plain := safeCall(func() string {
			return outcome(functions.NewDefaultFunctionCollection().FindByName(name).Calculate(args, mgrOf("u")))
		})
		for h := 4; h <= 7; h++ {
			for _, removed := range fnNames[:i] {
				if (len(removed)+len(name))%8 == h {
					runFnEdited(c, "u", name, removed, args, plain)
					break
				}
			}
		}
	}
	for _, a := range []string{"", "a", "abc", "héllo", "日本語abc", "ABC"} {
		for _, b := range []string{"", "a", "bc", "é", "本語", "abc", "abcd", "A"} {
			runFnCase(c, "u", "Contains", []*variants.Variant{vStr(a), vStr(b)})
			runFnCase(c, "s", "contains", []*variants.Variant{vStr(a), vStr(b)})
		}
	}
	for _, z := range []*variants.Variant{vDouble(math.Copysign(0, -1)), vFloat(float32(math.Copysign(0, -1))), vDouble(0), vDouble(-2.5), vFloat(-1.5), vDouble(math.Inf(-1))} {
		runFnCase(c, "u", "Abs", []*variants.Variant{z})
		runFnCase(c, "s", "abs", []*variants.Variant{z})
	}
	for _, a := range all {
		runFnCase(c, "u", "Empty", []*variants.Variant{a})
		runFnCase(c, "u", "Array", []*variants.Variant{a, vInt(1), a})
	}
	for _, tsArgs := range [][]int{{0}, {1500}, {-1}, {1, 0, 0}, {0, 1, 0}, {0, 0, 1}, {0, 0, 0, 1}, {0, 0, 0, 0, 1}, {2, 3, 4, 5, 6}, {-1, 25, 61, 61, 1001}, {1, 2, 3, 4}} {
		var as []*variants.Variant
		for _, v := range tsArgs {
			as = append(as, vInt(v))
		}
		runFnCase(c, "u", "TimeSpan", as)
	}
	for _, dArgs := range [][]int{{0}, {86400}, {-1}, {2024, 2}, {2024, 2, 29}, {2023, 2, 29}, {2024, 13, 1}, {1999, 12, 31, 23}, {1999, 12, 31, 23, 59}, {1999, 12, 31, 23, 59, 60}, {1, 1, 1}, {2024, 0, 0}} {
		var as []*variants.Variant
		for _, v := range dArgs {
			as = append(as, vInt(v))
		}
		runFnCase(c, "u", "Date", as)
	}
	dateAfterZoneChange(c, "")
	draws := 200000000
	if c.Thorough {
		draws = 2000000000
	}
	rndRange(c, "Rnd", draws)
	rndRange(c, "random", draws/4)
	c.Notes = append(c.Notes, fmt.Sprintf("Rnd range: %d draws on all cores, each checked against [0,1)", draws+draws/4))
	runFnCase(c, "u", "nosuchfunction", nil)
	runFnCase(c, "u", "sın", []*variants.Variant{vInt(1)}) // dotless i upper-cases to I
	c.Notes = append(c.Notes, fmt.Sprintf("37 registered names in random letter case x %d argument lists each (valid arities 3/4 of the time, otherwise 0..8 arguments) from the boundary pool of 10 types, both managers; clock/random checked against the call interval / [0,1); transcendental functions checked against Go's math on the converted argument; Min/Max/Sum against the left fold", reps))
}

func runFnEdited(c *Ctx, m, name, removed string, args []*variants.Variant, plain string) {
	op := strings.TrimSpace(fmt.Sprintf("fnedit %s %s %s %s", m, strRunes(name), strRunes(removed), argsStr(args)))
	found := ""
	got := safeCall(func() string {
		coll := functions.NewDefaultFunctionCollection()
		user := functions.NewDelegatedFunction("UserDefined", func(params []*variants.Variant, ops variants.IVariantOperations) (*variants.Variant, error) {
			return variants.VariantFromString("user"), nil
		})
		// six edit histories (chosen by the removed name): remove only; remove then add; add then remove; find, remove;
		// find, remove BY INDEX; find in another letter case, remove by index, add
		shadow := functions.NewDelegatedFunction(swapCase(name), func(params []*variants.Variant, ops variants.IVariantOperations) (*variants.Variant, error) {
			return variants.VariantFromString("user function of the same name"), nil
		})
		switch (len(removed) + len(name)) % 8 {
		case 6:
			// a user function whose name equals the looked-up one up to letter case, added AFTER a lookup: the first one
			// added (the standard function) keeps winning
			coll.FindByName(removed)
			coll.Add(shadow)
		case 7:
			coll.Add(shadow)
			coll.FindByName(removed)
			coll.RemoveByName(removed)
		case 4:
			idx := coll.FindIndexByName(removed) // the index is known before; the last lookup before the removal is `name`
			coll.FindByName(name)
			coll.Remove(idx)
		case 5:
			idx := coll.FindIndexByName(removed)
			coll.FindByName(strings.ToLower(name))
			coll.FindByName(strings.ToUpper(name))
			coll.Remove(idx)
			coll.Add(user)
		case 0:
			coll.RemoveByName(removed)
		case 1:
			coll.RemoveByName(removed)
			coll.Add(user)
		case 2:
			coll.Add(user)
			coll.RemoveByName(removed)
		default:
			coll.FindByName(name)
			coll.RemoveByName(removed)
		}
		f := coll.FindByName(name)
		if f == nil {
			return "err FUNC_NOT_FOUND"
		}
		found = f.Name()
		r, err := f.Calculate(args, mgrOf(m))
		return outcome(r, err)
	})
	c.count("fn-edited-collection")
	if found != "" && !strings.EqualFold(found, name) {
		c.fail(Failure{Kind: "oracle", Op: op, Impl: got, Spec: plain, Note: fmt.Sprintf("after RemoveByName(%q) the name %q resolves to the function %q", removed, name, found)})
		return
	}
	if got != plain {
		c.fail(Failure{Kind: "oracle", Op: op, Impl: got, Spec: plain, Note: fmt.Sprintf("after removing %q (edit history %d), %s(...) gives %s; on the untouched default collection it gives %s", removed, (len(removed)+len(name))%8, name, got, plain)})
	}
}

// the range of Rnd / Random over a large sample: a value outside [0,1) that a generator produces once in tens of millions
// of draws (a rounded-up 1.0) is seen with high probability; n draws on all cores
func rndRange(c *Ctx, name string, n int) {
	op := fmt.Sprintf("rndrange %s %d", name, n)
	c.record(op, true)
	c.count("rnd-range-sample")
	workers := runtime.NumCPU()
	bad := make(chan string, workers)
	var wg sync.WaitGroup
	for w := 0; w < workers; w++ {
		wg.Add(1)
		go func() {
			defer wg.Done()
			defer func() {
				if r := recover(); r != nil {
					bad <- fmt.Sprint("panic: ", r)
				}
			}()
			fn := functions.NewDefaultFunctionCollection().FindByName(name)
			ops := mgrOf("u")
			for i := 0; i < n/workers; i++ {
				r, err := fn.Calculate(nil, ops)
				if err != nil || r == nil || r.Type() != variants.Float {
					bad <- fmt.Sprintf("call %d did not return a Float", i)
					return
				}
				if v := r.AsFloat(); !(v >= 0 && v < 1) {
					bad <- fmt.Sprintf("draw %d of this worker returned %v, outside [0,1)", i, v)
					return
				}
			}
		}()
	}
	wg.Wait()
	close(bad)
	if msg, ok := <-bad; ok {
		c.fail(Failure{Kind: "oracle", Op: op, Impl: msg, Note: fmt.Sprintf("%s() over %d draws: %s", name, n, msg)})
	}
}

// Date builds the instant in the process's local zone AS IT IS AT THE CALL: a program may assign time.Local after start-up.
// The cases run with time.Local set to two fixed zones in turn and are judged by time.Date(..., time.Local) directly.
func dateAfterZoneChange(c *Ctx, only string) {
	old := time.Local
	defer func() { time.Local = old }()
	n := 0
	for _, z := range []*time.Location{time.FixedZone("VERIF+0530", 19800), time.FixedZone("VERIF-0900", -32400), time.UTC} {
		time.Local = z
		for _, dArgs := range [][]int{{2024, 2}, {2024, 2, 29}, {1999, 12, 31, 23}, {1999, 12, 31, 23, 59}, {1999, 12, 31, 23, 59, 60}, {1, 1, 1}, {2024, 0, 0}, {1970, 1, 1, 0, 0, 0, 0}} {
			for _, m := range []string{"u", "s"} {
				var as []*variants.Variant
				strs := []string{}
				for _, v := range dArgs {
					as = append(as, vInt(v))
					strs = append(strs, strconv.Itoa(v))
				}
				op := fmt.Sprintf("fnzone %s %s %s", m, z.String(), strings.Join(strs, ","))
				if only != "" && only != op {
					continue
				}
				f := append(append([]int(nil), dArgs...), []int{1, 1, 0, 0, 0, 0}[len(dArgs)-1:]...)
				want := time.Date(f[0], time.Month(f[1]), f[2], f[3], f[4], f[5], f[6]*1000000, z)
				var res *variants.Variant
				impl := safeCall(func() string {
					r, err := functions.NewDefaultFunctionCollection().FindByName("date").Calculate(as, mgrOf(m))
					res = r
					return outcome(r, err)
				})
				c.record(op, true)
				n++
				if res == nil || !strings.HasPrefix(impl, "ok") || res.Type() != variants.DateTime || !res.AsDateTime().Equal(want) {
					c.fail(Failure{Kind: "oracle", Op: op, Impl: impl, Note: fmt.Sprintf("with time.Local = %v, Date of %v is %v", z, dArgs, want)})
				}
			}
		}
	}
	if only == "" {
		c.Notes = append(c.Notes, fmt.Sprintf("Date construction after the program assigned time.Local (two fixed zones and UTC in turn): %d calls against time.Date(..., time.Local)", n))
	}
}

func replayC08(c *Ctx, op string) {
	if strings.HasPrefix(op, "fnzone ") {
		dateAfterZoneChange(c, op)
		return
	}
	if f := strings.Fields(op); len(f) == 3 && f[0] == "rndrange" {
		n, _ := strconv.Atoi(f[2])
		rndRange(c, f[1], 4*n) // a statistical finding: the replay draws four times as many
		return
	}
	if f := strings.Fields(op); len(f) >= 4 && f[0] == "fnedit" {
		var args []*variants.Variant
		for _, a := range f[4:] {
			args = append(args, decVariant(a))
		}
		name := string(parseRunes(f[2]))
		plain := safeCall(func() string {
			fn := functions.NewDefaultFunctionCollection().FindByName(name)
			if fn == nil {
				return "err FUNC_NOT_FOUND"
			}
			r, err := fn.Calculate(args, mgrOf(f[1]))
			return outcome(r, err)
		})
		c.record(op, true)
		runFnEdited(c, f[1], name, string(parseRunes(f[3])), args, plain)
		return
	}
	f := strings.Fields(op)
	if len(f) >= 3 && f[0] == "fn" {
		var args []*variants.Variant
		for _, a := range f[3:] {
			args = append(args, decVariant(a))
		}
		runFnCase(c, f[1], string(parseRunes(f[2])), args)
	}
}

// ---- evaluation (C01 / C03) ---------------------------------------------------------------------

type binding struct {
	name string
	val  *variants.Variant
}

func evalWith(expr string, m string, binds []binding) (out string, result []string, perr string) {
	out = safeCallT(3*time.Second, func() string {
		calc := calculator.NewExpressionCalculator()
		calc.SetVariantOperations(mgrOf(m))
		err := calc.SetExpression(expr)
		if err != nil {
			perr = errCode(err)
			return "parse-err " + perr
		}
		for _, t := range calc.ResultTokens() {
			result = append(result, encETok(t))
		}
		vars := variables.NewVariableCollection()
		for _, b := range binds {
			vars.Add(variables.NewVariable(b.name, b.val))
		}
		r, err := calc.EvaluateUsingVariables(vars)
		return outcome(r, err)
	})
	return
}

// constValue decodes a constant lexeme of the expression language: decimal integers exactly (64-bit),
// numbers with a fraction or exponent as the nearest float32, quoted strings with doubled quotes,
// TRUE / FALSE.  ok = false when the value is not representable (an error is the only honest answer).
func constValue(lex string) (*variants.Variant, bool) {
	up := strings.ToUpper(lex)
	switch {
	case up == "TRUE":
		return vBool(true), true
	case up == "FALSE":
		return vBool(false), true
	case strings.HasPrefix(lex, "'"):
		return vStr(strings.ReplaceAll(lex[1:len(lex)-1], "''", "'")), true
	case strings.ContainsAny(lex, ".eE"):
		f, err := strconv.ParseFloat(lex, 32)
		if err != nil {
			return nil, false
		}
		return vFloat(float32(f)), true
	}
	n, ok := new(big.Int).SetString(lex, 10)
	if !ok || !n.IsInt64() {
		return nil, false
	}
	return vInt(int(n.Int64())), true
}

// Go-side reference: evaluate the abstract tree directly with the manager's operations
func (e *ex) evalRef(ops variants.IVariantOperations, m string, binds []binding) (*variants.Variant, string) {
	bin := func(f func(a, b *variants.Variant) (*variants.Variant, error)) (*variants.Variant, string) {
		a, er := e.kids[0].evalRef(ops, m, binds)
		if er != "" {
			return nil, er
		}
		b, er := e.kids[1].evalRef(ops, m, binds)
		if er != "" {
			return nil, er
		}
		r, err := f(a, b)
		if err != nil {
			return nil, errCode(err)
		}
		return r, ""
	}
	switch e.k {
	case 'c':
		// the value a constant denotes, decoded independently of the library
		v, ok := constValue(e.text)
		if !ok {
			return nil, "CONST_OUT_OF_RANGE"
		}
		return v, ""
	case 'v':
		name := e.text
		if strings.HasPrefix(name, "\"") {
			name = strings.ReplaceAll(name[1:len(name)-1], "\"\"", "\"")
		}
		for _, b := range binds {
			if strings.ToUpper(b.name) == strings.ToUpper(name) {
				return b.val, ""
			}
		}
		return nil, "VAR_NOT_FOUND"
	case 'p':
		return e.kids[0].evalRef(ops, m, binds)
	case 'u', 'n', 'q', 'Q':
		a, er := e.kids[0].evalRef(ops, m, binds)
		if er != "" {
			return nil, er
		}
		switch e.k {
		case 'u':
			r, err := ops.Negative(a)
			if err != nil {
				return nil, errCode(err)
			}
			return r, ""
		case 'n':
			r, err := ops.Not(a)
			if err != nil {
				return nil, errCode(err)
			}
			return r, ""
		case 'q':
			return vBool(a.IsNull()), ""
		}
		return vBool(!a.IsNull()), ""
	case 'i':
		return bin(ops.GetElement)
	case 'f':
		var args []*variants.Variant
		for _, k := range e.kids {
			a, er := k.evalRef(ops, m, binds)
			if er != "" {
				return nil, er
			}
			args = append(args, a)
		}
		f := functions.NewDefaultFunctionCollection().FindByName(e.text)
		if f == nil {
			return nil, "FUNC_NOT_FOUND"
		}
		r, err := f.Calculate(args, ops)
		if err != nil {
			return nil, errCode(err)
		}
		return r, ""
	case 'b':
		switch e.op {
		case parsers.And:
			return bin(ops.And)
		case parsers.Or:
			return bin(ops.Or)
		case parsers.Xor:
			return bin(ops.Xor)
		case parsers.Equal:
			return bin(ops.Equal)
		case parsers.NotEqual:
			return bin(ops.NotEqual)
		case parsers.More:
			return bin(ops.More)
		case parsers.Less:
			return bin(ops.Less)
		case parsers.EqualMore:
			return bin(ops.MoreEqual)
		case parsers.EqualLess:
			return bin(ops.LessEqual)
		case parsers.Plus:
			return bin(ops.Add)
		case parsers.Minus:
			return bin(ops.Sub)
		case parsers.Star:
			return bin(ops.Mul)
		case parsers.Slash:
			return bin(ops.Div)
		case parsers.Procent:
			return bin(ops.Mod)
		case parsers.Power:
			return bin(ops.Pow)
		case parsers.ShiftLeft:
			return bin(ops.Lsh)
		case parsers.ShiftRight:
			return bin(ops.Rsh)
		case parsers.In:
			return bin(func(a, b *variants.Variant) (*variants.Variant, error) { return refIn(ops, a, b) })
		case parsers.NotIn:
			return bin(func(a, b *variants.Variant) (*variants.Variant, error) {
				r, err := refIn(ops, a, b)
				if err == nil && r.Type() == variants.Boolean {
					r = vBool(!r.AsBoolean())
				}
				return r, err
			})
		default: // LIKE / NOT LIKE have no variant operation
			_, er := bin(func(a, b *variants.Variant) (*variants.Variant, error) { return a, nil })
			if er != "" {
				return nil, er
			}
			return nil, "INTERNAL"
		}
	}
	return nil, "INTERNAL"
}

// refIn: the reference meaning of `item IN container`, spelled out with the manager's equality only: Null if either
// side is Null; for an array, true iff the item equals some element (the element converted to the item's type, the first
// failing comparison being the error); for any other container, the container's equality with the item
func refIn(ops variants.IVariantOperations, item, container *variants.Variant) (*variants.Variant, error) {
	if item.Type() == variants.Null || container.Type() == variants.Null {
		return vNull(), nil
	}
	if container.Type() == variants.Array {
		for _, e := range container.AsArray() {
			eq, err := ops.Equal(item, e)
			if err != nil {
				return nil, err
			}
			if eq.Type() == variants.Boolean && eq.AsBoolean() {
				return vBool(true), nil
			}
		}
		return vBool(false), nil
	}
	return ops.Equal(container, item)
}

func bindsStr(binds []binding) string {
	var p []string
	for _, b := range binds {
		p = append(p, strRunes(b.name)+"="+encVariant(b.val))
	}
	return strings.Join(p, " ")
}

var evalVarValues = func() []*variants.Variant {
	return []*variants.Variant{vInt(0), vInt(1), vInt(-3), vInt(7), vInt(64), vLong(5), vFloat(1.5), vDouble(2.5), vDouble(-0.5),
		vStr("ab"), vStr(""), vStr("12"), vStr("é"), vBool(true), vBool(false), vNull(), vArr(vInt(1), vInt(2), vStr("ab")), vArr(),
		vInt(math.MaxInt64), vInt(math.MinInt64), vDouble(math.NaN()), vDouble(math.Inf(1)), vSpan(1500 * time.Millisecond), vTime(time.Unix(1000000000, 0))}
}()

func randBinds(c *Ctx, names []string) []binding {
	var binds []binding
	seen := map[string]bool{}
	for _, n := range names {
		if strings.HasPrefix(n, "\"") {
			n = strings.ReplaceAll(n[1:len(n)-1], "\"\"", "\"")
		}
		if seen[strings.ToUpper(n)] || c.Rng.Intn(12) == 0 {
			continue
		}
		seen[strings.ToUpper(n)] = true
		binds = append(binds, binding{n, evalVarValues[c.Rng.Intn(len(evalVarValues))]})
	}
	return binds
}

func runEvalCase(c *Ctx, e *ex, expr string, m string, binds []binding, label string) {
	opLabel := fmt.Sprintf("evalx %s %s ; %s", m, strRunes(expr), bindsStr(binds))
	out, result, perr := evalWith(expr, m, binds)
	c.record(opLabel, len(result) >= 3)
	c.count(label)
	if out == "hang" || strings.HasPrefix(out, "panic:") || out == "both" || out == "neither" {
		c.fail(Failure{Kind: "oracle", Op: opLabel, Impl: out, Note: fmt.Sprintf("evaluating %q must yield exactly one of a result or an error", expr)})
		return
	}
	if c.Prop == "C01" {
		reuseEval(c, m, evalStep{expr: expr, binds: binds}, out)
		if c.Evals%2 == 0 {
			checkEvalEntryPoints(c, m, expr, binds, out)
		}
	}
	// the whole pipeline from text in the model: trim, tokenize, lexical analysis, syntax analysis, evaluation
	c.model(strings.TrimSpace(fmt.Sprintf("calc %s %s ; %s", m, strRunes(expr), bindsStr(binds))), out, "model-host")
	if perr != "" {
		if e != nil {
			c.fail(Failure{Kind: "oracle", Op: opLabel, Impl: out, Note: fmt.Sprintf("well-formed expression %q was rejected", expr)})
		}
		return
	}
	if strings.HasPrefix(out, "ok") {
		c.count("eval-outcome:value")
	} else {
		c.count("eval-outcome:" + out)
	}
	if e != nil {
		want, er := e.evalRef(mgrOf(m), m, binds)
		ws := "err " + er
		if er == "" {
			ws = "ok " + encVariant(want)
		}
		if ws != out {
			c.fail(Failure{Kind: "oracle", Op: opLabel, Impl: out, Spec: ws, Note: fmt.Sprintf("%q evaluates to %s, the value of its syntax tree is %s", expr, out, ws)})
			return
		}
	}
	op := fmt.Sprintf("eval %s %s ; %s", m, strings.Join(result, " "), bindsStr(binds))
	c.model(strings.TrimSpace(op), out, "model-host")
}

// "each node applies its operation to its operands in written order": a user function that assigns a variable makes the
// order of evaluation visible - the operand to its left holds the old value, the operand to its right the new one;
// a program handed over as tokens is evaluated as THAT program, whatever text was evaluated before
func propOperandOrderEffects(c *Ctx) {
	for _, sc := range []struct {
		expr string
		want int
	}{{"n * 100 + NEXT() + n", 102}, {"n + NEXT() * 10 + n * 1000", 2001}, {"NEXT() + n", 2}, {"n + NEXT()", 1}, {"Array(n, NEXT(), n)[0] * 10 + Array(n, NEXT(), n)[2]", 13}, {"(n + NEXT()) * n", 2}} {
		op := "ordereff " + strRunes(sc.expr)
		c.record(op, true)
		c.count("operand-order-effects")
		note := ""
		st := safeCall(func() string {
			calc := calculator.NewExpressionCalculator()
			calc.SetAutoVariables(false)
			vars := variables.NewVariableCollection()
			vars.Add(variables.NewVariable("n", variants.VariantFromInteger(1)))
			fns := functions.NewDefaultFunctionCollection()
			// NEXT(): n := n + 1 (a NEW value object is assigned to the variable), returns 0
			fns.Add(functions.NewDelegatedFunction("NEXT", func(p []*variants.Variant, o variants.IVariantOperations) (*variants.Variant, error) {
				v := vars.FindByName("n")
				v.SetValue(variants.VariantFromInteger(v.Value().AsInteger() + 1))
				return variants.VariantFromInteger(0), nil
			}))
			if err := calc.SetExpression(sc.expr); err != nil {
				return "parse error " + errCode(err)
			}
			r, err := calc.EvaluateUsingVariablesAndFunctions(vars, fns)
			if err != nil || r.Type() != variants.Integer || r.AsInteger() != sc.want {
				note = fmt.Sprintf("%q with n = 1 and NEXT() assigning n + 1 to n (and returning 0): evaluating the tree in written order gives %d, the calculator gives %s", sc.expr, sc.want, outcome(r, err))
			}
			return ""
		})
		if st != "" || note != "" {
			c.fail(Failure{Kind: "oracle", Op: op, Impl: st, Note: note})
		}
	}
	// a function that REPLACES the variable's entry in the collection (remove + add); a function that assigns its ARGUMENT in
	// place (every literal of a program is a value of its own: writing into one changes no other, here or in another calculator)
	for _, sc := range []struct{ expr, want string }{{"x + Rebind() + x", "ok i101"}, {"Rebind() + x * 2", "ok i200"}, {"x * 2 + Rebind()", "ok i2"},
		{"Flip(TRUE) = TRUE", "ok b0"}, {"Flip(TRUE) OR FALSE", "ok b0"}, {"Flip(FALSE) AND TRUE", "ok b1"}, {"Bump(1) + 1", "ok i12"}, {"Bump('a') + 'a'", "ok s98.97"}} {
		op := "ordereff " + strRunes(sc.expr)
		c.record(op, true)
		c.count("operand-order-effects")
		note := ""
		st := safeCall(func() string {
			calc := calculator.NewExpressionCalculator()
			calc.SetAutoVariables(false)
			vars := variables.NewVariableCollection()
			vars.Add(variables.NewVariable("x", variants.VariantFromInteger(1)))
			fns := functions.NewDefaultFunctionCollection()
			fns.Add(functions.NewDelegatedFunction("Rebind", func(p []*variants.Variant, o variants.IVariantOperations) (*variants.Variant, error) {
				vars.RemoveByName("x")
				vars.Add(variables.NewVariable("x", variants.VariantFromInteger(100)))
				return variants.VariantFromInteger(0), nil
			}))
			fns.Add(functions.NewDelegatedFunction("Flip", func(p []*variants.Variant, o variants.IVariantOperations) (*variants.Variant, error) {
				p[0].SetAsBoolean(!p[0].AsBoolean())
				return p[0], nil
			}))
			fns.Add(functions.NewDelegatedFunction("Bump", func(p []*variants.Variant, o variants.IVariantOperations) (*variants.Variant, error) {
				if p[0].Type() == variants.Integer {
					p[0].SetAsInteger(p[0].AsInteger() + 10)
				} else {
					p[0].SetAsString("b")
				}
				return p[0], nil
			}))
			if err := calc.SetExpression(sc.expr); err != nil {
				return "parse error " + errCode(err)
			}
			if got := outcome(calc.EvaluateUsingVariablesAndFunctions(vars, fns)); got != sc.want {
				note = fmt.Sprintf("%q (x = 1; Rebind() replaces the entry x by one holding 100; Flip / Bump assign their argument in place): written-order evaluation of the tree gives %s, the calculator gives %s", sc.expr, sc.want, got)
				return ""
			}
			// literals of OTHER programs and calculators are untouched
			for _, e := range [][2]string{{"TRUE AND (1 < 2)", "ok b1"}, {"FALSE OR 1 > 2", "ok b0"}, {"1 + 1", "ok i2"}, {"'a' + 'a'", "ok s97.97"}} {
				other := calculator.NewExpressionCalculator()
				other.SetExpression(e[0])
				if got := outcome(other.Evaluate()); got != e[1] {
					note = fmt.Sprintf("after %q was evaluated (a user function wrote into its argument), a NEW calculator evaluates %q to %s instead of %s", sc.expr, e[0], got, e[1])
					return ""
				}
			}
			return ""
		})
		if st != "" || note != "" {
			c.fail(Failure{Kind: "oracle", Op: op, Impl: st, Note: note})
		}
	}
	// a function KEEPS the argument list it was handed: it still holds exactly its written arguments after the evaluation went on
	for _, expr := range []string{"K(1, 2) + K(3, 4)", "K(K(1, 2), 5) * K(6, 7)", "K(1, 2) + Max(10, 20, 30) + K(3, 4) * Sum(5, 6, 7, 8)", "Array(K(1, 2), K(3, 4), K(5, 6))[1]"} {
		op := "ordereff " + strRunes(expr)
		c.record(op, true)
		c.count("operand-order-effects")
		note := ""
		st := safeCall(func() string {
			var kept [][]*variants.Variant
			var seen []string
			fns := functions.NewDefaultFunctionCollection()
			fns.Add(functions.NewDelegatedFunction("K", func(p []*variants.Variant, o variants.IVariantOperations) (*variants.Variant, error) {
				kept = append(kept, p)
				var xs []string
				for _, a := range p {
					xs = append(xs, encVariant(a))
				}
				seen = append(seen, strings.Join(xs, ","))
				return p[0], nil
			}))
			calc := calculator.NewExpressionCalculator()
			if err := calc.SetExpression(expr); err != nil {
				return "parse error " + errCode(err)
			}
			calc.EvaluateUsingVariablesAndFunctions(nil, fns)
			for i, p := range kept {
				var xs []string
				for _, a := range p {
					xs = append(xs, encVariant(a))
				}
				if now := strings.Join(xs, ","); now != seen[i] {
					note = fmt.Sprintf("%q: call #%d of K received the arguments %s; the list it was handed reads %s after the evaluation went on", expr, i, seen[i], now)
					return ""
				}
			}
			return ""
		})
		if st != "" || note != "" {
			c.fail(Failure{Kind: "oracle", Op: op, Impl: st, Note: note})
		}
	}
	// text, then the tokens of another program that spell the same characters once decoded - and the other way round
	for _, pr := range [][2]string{{"1+2", "'1'+'2'"}, {"7*3", "'7'*3"}, {"2+3*4", "'2'+3*4"}, {"10", "'10'"}, {"1<2", "'1'<'2'"}} {
		for _, order := range [][]evalStep{{{expr: pr[0]}, {expr: pr[1], viaTokens: true}}, {{expr: pr[1], viaTokens: true}, {expr: pr[0]}}, {{expr: pr[0]}, {expr: pr[0]}, {expr: pr[1], viaTokens: true}, {expr: pr[0]}}} {
			last := order[len(order)-1]
			fresh := evalSeq("u", []evalStep{last})
			got := evalSeq("u", order)
			op := evalSeqOp("u", order)
			c.record(op, true)
			c.count("text-then-tokens")
			if got != fresh {
				c.fail(Failure{Kind: "oracle", Op: op, Impl: got, Spec: fresh, Note: fmt.Sprintf("a calculator that evaluated %d other program(s) before gives %s for %q (handed over as tokens: %v); a new calculator gives %s", len(order)-1, got, last.expr, last.viaTokens, fresh)})
			}
		}
	}
}

// A double-quoted identifier is a variable whatever it spells: a variable named like a keyword, a boolean or null literal,
// in any letter case, takes part in the expression with its value.
func propKeywordNamedVariables(c *Ctx) {
	n := 0
	for _, name := range []string{"true", "TRUE", "True", "false", "FALSE", "null", "NULL", "and", "OR", "not", "xor", "is", "in", "like", "Max", "e", "pi"} {
		for _, m := range []string{"u", "s"} {
			for _, tc := range []struct{ tpl, want string }{{"%s + 1", "ok i42"}, {"1 + %s * 2", "ok i83"}, {"(%s) - 1", "ok i40"}, {"%s = 41", "ok b1"}, {"-%s", "ok i-41"}, {"%s IS NULL", "ok b0"}} {
				expr := fmt.Sprintf(tc.tpl, "\""+name+"\"")
				op := fmt.Sprintf("kwvar %s %s", m, strRunes(expr))
				got, _, _ := evalWith(expr, m, []binding{{name, vInt(41)}})
				c.record(op, true)
				n++
				if got != tc.want {
					c.fail(Failure{Kind: "oracle", Op: op, Impl: got, Note: fmt.Sprintf("with the variable %s = 41 the value of %s is %s", name, expr, tc.want)})
				}
			}
		}
	}
	c.Notes = append(c.Notes, fmt.Sprintf("quoted identifiers spelled like keywords / literals / function names as variables: %d evaluations against the written value", n))
}

func propC01(c *Ctx) {
	propKeywordNamedVariables(c)
	g := newExGen(c)
	g.funcs = []string{"Max", "min", "SUM", "If", "Array", "abs", "Choose", "nosuch", "Contains", "Trunc"}
	// names that are different variables for the collection (upper-case comparison) although their lower-case forms coincide
	g.vars = append(g.vars, "T\u212a", "Tk", "x\u212b", "xå")
	n := 1200
	if c.Thorough {
		n = 40000
	}
	for i := 0; i < n; i++ {
		depth := 1 + c.Rng.Intn(5)
		if c.Thorough && c.Rng.Intn(30) == 0 {
			depth = 8 + c.Rng.Intn(3)
		}
		e := g.gen(depth)
		binds := randBinds(c, g.vars)
		m := []string{"u", "u", "s"}[c.Rng.Intn(3)]
		// the three parenthesisation modes of one tree must all give the value of the tree
		for mode := 0; mode < 3; mode++ {
			expr := g.render(g.toks(e, 0, mode), c.Rng.Intn(2) == 0)
			runEvalCase(c, e, expr, m, binds, fmt.Sprintf("tree:mode%d", mode))
		}
	}
	propScaleExpressions(c, "C01")
	propLiterals(c)
	propDefaultTableEdits(c)
	propOperandOrderEffects(c)
	for _, pr := range [][2]string{{"T\u212a", "Tk"}, {"x\u212b", "xå"}, {"Tk", "T\u212a"}} {
		for _, tpl := range []string{"%s - %s", "Array(%s, %s)[0] * 10 + Array(%s, %s)[1]", "%s + %s * 2 - %s"} {
			expr := strings.ReplaceAll(strings.ReplaceAll(strings.Replace(strings.Replace(tpl, "%s", pr[0], 1), "%s", pr[1], 1), "%s", pr[0]), "%s", pr[1])
			if strings.Count(tpl, "%s") == 3 {
				expr = fmt.Sprintf(tpl, pr[0], pr[1], pr[0])
			} else if strings.Count(tpl, "%s") == 4 {
				expr = fmt.Sprintf(tpl, pr[0], pr[1], pr[0], pr[1])
			}
			runEvalCase(c, nil, expr, "u", []binding{{pr[0], vInt(300)}, {pr[1], vInt(27)}}, "variables-with-coinciding-lower-case")
		}
	}
	// operator-pair matrix: a op1 b op2 c for every ordered pair of binary operators
	vals := []string{"7", "2", "3"}
	for _, o1 := range binOps {
		for _, o2 := range binOps {
			e := &ex{k: 'b', op: o2, kids: []*ex{{k: 'b', op: o1, kids: []*ex{{k: 'c', text: vals[0]}, {k: 'c', text: vals[1]}}}, {k: 'c', text: vals[2]}}}
			// printed minimally: parentheses appear exactly when precedence/associativity demands
			expr := g.render(g.toks(e, 0, 0), false)
			runEvalCase(c, e, expr, "u", nil, "operator-pair-matrix")
			e2 := &ex{k: 'b', op: o1, kids: []*ex{{k: 'c', text: vals[0]}, {k: 'b', op: o2, kids: []*ex{{k: 'c', text: vals[1]}, {k: 'c', text: vals[2]}}}}}
			runEvalCase(c, e2, g.render(g.toks(e2, 0, 0), false), "u", nil, "operator-pair-matrix")
		}
	}
	// every binary operator over constants of two different types, in both orders (the second operand is converted to the
	// first operand's type: the order of the operands decides the result)
	for _, o := range binOps {
		for _, pr := range [][2]string{{"2.5", "2"}, {"2", "2.5"}, {"'2'", "2"}, {"2", "'2'"}, {"TRUE", "1"}, {"1", "TRUE"}, {"'abc'", "1"}, {"2", "2"}, {"'1.5'", "1.5"}, {"1.5", "'1.5'"}} {
			e := &ex{k: 'b', op: o, kids: []*ex{{k: 'c', text: pr[0]}, {k: 'c', text: pr[1]}}}
			for _, m := range []string{"u", "s"} {
				runEvalCase(c, e, g.render(g.toks(e, 0, 0), false), m, nil, "mixed-type-operands")
			}
		}
	}
	c.Notes = append(c.Notes, fmt.Sprintf("%d random syntax trees (depth 1..5, thorough up to 10; all 21 binary operators, NOT, unary sign, IS [NOT] NULL, calls of arity 0..3, indexes) each printed with minimal, random and full parenthesisation, random spacing/comments/keyword case, evaluated under random assignments of integer/long/float/double/string/boolean/null/array/time values with both managers; plus the full operator-pair matrix a op1 b op2 c in both nestings; oracle = direct evaluation of the tree with the manager's own operations", n))
}

// numeric constants: the model's exact decimal -> int64 / binary32 decoding and the calculator against strconv
func runLitCase(c *Ctx, lex string) {
	op := "lit " + strRunes(lex)
	c.record(op, len(lex) >= 3)
	c.count("literal")
	want := "range"
	if v, ok := constValue(lex); ok {
		want = encVariant(v)
	}
	// the calculator on the bare constant
	got := safeCallT(3*time.Second, func() string {
		calc := calculator.NewExpressionCalculator()
		if err := calc.SetExpression(lex); err != nil {
			return "range"
		}
		r, err := calc.Evaluate()
		if err != nil {
			return "err " + errCode(err)
		}
		return encVariant(r)
	})
	if got != want {
		c.fail(Failure{Kind: "oracle", Op: "evalx u " + strRunes(lex) + " ;", Impl: got, Spec: want, Note: fmt.Sprintf("the constant %s evaluates to %s; it denotes %s", lex, got, want)})
		return
	}
	c.model(op, want, "model")
}

func propLiterals(c *Ctx) {
	n := 3000
	if c.Thorough {
		n = 200000
	}
	fixed := []string{"0", "007", "9007199254740993", "9223372036854775807", "9223372036854775808", "99999999999999999999", "4611686018427387905",
		"0.1", "0.3", "1.", ".5", "1e38", "3.4028235e38", "3.4028236e38", "3.40282356779733661637539395458142568447e38", "3.40282356779733661637539395458142568448e38",
		"1e39", "1e400", "1e-45", "7e-46", "7.1e-46", "7.006492321624085e-46", "7.006492321624086e-46", "1.1754943508222875e-38", "1.1754942e-38", "1e-50", "0e999", "0.0e-999",
		"16777217.0", "16777217.000000001", "33554433.5", "33554434.5", "123456789.125", "1.00000017881393421514957253748434595763683319091796875", "1.0000001788139343", "1.0000001788139342",
		"2e3", "2E+3", "2e-3", "00001.50000", "1e0", "1e+00038", "340282346638528859811704183484516925440.0", "340282356779733661637539395458142568447.9", "340282356779733661637539395458142568448.0"}
	for _, f := range fixed {
		runLitCase(c, f)
	}
	digits := func(k int) string {
		b := make([]byte, k)
		for i := range b {
			b[i] = byte('0' + c.Rng.Intn(10))
		}
		return string(b)
	}
	for i := 0; i < n; i++ {
		var s string
		switch c.Rng.Intn(8) {
		case 0: // integers around 2^53 and 2^63
			base := []uint64{1 << 53, 1<<63 - 1, 1 << 62, 1 << 24, 1 << 31}[c.Rng.Intn(5)]
			s = strconv.FormatUint(base+uint64(c.Rng.Intn(5))-2, 10)
		case 1:
			s = digits(1 + c.Rng.Intn(22))
		case 2: // float32 midpoints: (2k+1) * 2^e printed exactly, then nudged in the last place
			k := uint64(1<<23 + c.Rng.Intn(1<<23))
			mid := new(big.Float).SetPrec(200).SetUint64(2*k + 1)
			e := c.Rng.Intn(60) - 40
			mid.SetMantExp(mid, e)
			s = mid.Text('f', 70)
			if strings.Contains(s, ".") {
				s = strings.TrimRight(s, "0")
			}
			if strings.HasSuffix(s, ".") {
				s += "0"
			}
			switch c.Rng.Intn(3) {
			case 0:
				s += "1"
			case 1: // just below: drop the last digit (rounds the text down)
				if len(s) > 3 {
					s = s[:len(s)-1]
				}
			}
		case 3: // scientific with random exponent incl. the edges of the range
			s = digits(1+c.Rng.Intn(9)) + "." + digits(c.Rng.Intn(9)) + []string{"e", "E"}[c.Rng.Intn(2)] + []string{"", "+", "-"}[c.Rng.Intn(3)] + strconv.Itoa(c.Rng.Intn(50))
		case 4:
			s = digits(1+c.Rng.Intn(12)) + "." + digits(c.Rng.Intn(30))
		case 5:
			s = "." + digits(1+c.Rng.Intn(50))
		case 6: // near the subnormal boundary and the smallest subnormal
			s = digits(1) + "." + digits(c.Rng.Intn(12)) + "e-" + strconv.Itoa(36+c.Rng.Intn(12))
		default: // near overflow
			s = "3.4028" + digits(c.Rng.Intn(12)) + "e38"
		}
		runLitCase(c, s)
	}
	c.Notes = append(c.Notes, fmt.Sprintf("%d numeric constants (integers around 2^24, 2^53, 2^63 and of 1..22 digits; decimals and scientific forms; exact float32 midpoints and their neighbours in the last place; the subnormal and overflow boundaries) evaluated by the calculator and compared with strconv.ParseInt / ParseFloat(.., 32) and with the model's exact decoding (lit)", n+len(fixed)))
}

func replayEval(c *Ctx, op string) {
	if replaySeq(c, op) || replayEntry(c, op) {
		return
	}
	if strings.HasPrefix(op, "deftable ") {
		propDefaultTableEdits(c)
		return
	}
	if strings.HasPrefix(op, "ordereff ") {
		propOperandOrderEffects(c)
		return
	}
	if strings.HasPrefix(op, "kwvar ") {
		propKeywordNamedVariables(c)
		return
	}
	if f := strings.Fields(op); len(f) == 2 && f[0] == "lit" {
		runLitCase(c, string(parseRunes(f[1])))
		return
	}
	f := strings.Fields(op)
	if len(f) >= 3 && (f[0] == "evalx" || f[0] == "calc") {
		var binds []binding
		for _, b := range f[4:] {
			p := strings.SplitN(b, "=", 2)
			binds = append(binds, binding{string(parseRunes(p[0])), decVariant(p[1])})
		}
		runEvalCase(c, nil, string(parseRunes(f[2])), f[1], binds, "replay")
	} else if len(f) >= 2 && (f[0] == "expr" || f[0] == "lex") {
		runParseCase(c, string(parseRunes(f[1])), "replay")
	} else if f[0] == "fn" {
		replayC08(c, op)
	} else if f[0] == "op" || f[0] == "conv" {
		replayC06(c, op)
	}
}

func init() {
	props["C08"] = propC08
	props["C01"] = propC01
	replays["C08"] = replayC08
	replays["C01"] = replayEval
}
