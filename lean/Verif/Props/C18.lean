/-
C18 (collections part) — "Variables and functions are resolved case-insensitively with the first
one added winning … adding, locating, removing and clearing entries behave as on an ordered list
… with automatic variables on the default collection ends up with exactly one entry per such
name compared case-insensitively, keeping entries and values that were already there."

Model: `Coll` in `Verif/Model/Calc.lean`.  `upperStr` is never unfolded: everything below holds
for an arbitrary case mapping `List Rune → List Rune`.
-/
import Verif.Props.C02
import Verif.Props.C10
import Verif.Model.Calc
namespace Verif
namespace Coll
variable {α : Type}

/-- the entry test used by every lookup: same name after upper-casing -/
def keyEq (n : List Rune) (e : List Rune × α) : Bool := upperStr e.1 == upperStr n

theorem keyEq_iff (n : List Rune) (e : List Rune × α) :
    keyEq n e = true ↔ upperStr e.1 = upperStr n := by
  simp [keyEq]

theorem find_eq (c : Coll α) (n : List Rune) : c.find n = (c.items.find? (keyEq n)).map (·.2) := rfl

theorem findIndex_eq (c : Coll α) (n : List Rune) :
    c.findIndex n =
      if c.items.findIdx (keyEq n) < c.items.length then some (c.items.findIdx (keyEq n))
      else none := rfl

end Coll
open Coll

variable {α : Type}

/-! ## lookup: case-insensitive, first added wins -/

theorem C18_find_first (c : Coll α) (n : List Rune) :
    c.find n = ((c.items.filter fun e => upperStr e.1 == upperStr n).head?).map (·.2) := by
  rw [List.head?_filter]
  rfl

/-- only the upper-cased name matters -/
theorem C18_find_case (c : Coll α) {n n' : List Rune} (h : upperStr n = upperStr n') :
    c.find n = c.find n' ∧ c.findIndex n = c.findIndex n' := by
  unfold Coll.find Coll.findIndex
  rw [h]
  exact ⟨rfl, rfl⟩

/-- first added wins: entries before the first match are skipped, entries after it ignored -/
theorem C18_find_split (pre post : List (List Rune × α)) (k : List Rune) (v : α) (n : List Rune)
    (hpre : ∀ e ∈ pre, upperStr e.1 ≠ upperStr n) (hk : upperStr k = upperStr n) :
    Coll.find ⟨pre ++ (k, v) :: post⟩ n = some v ∧
    Coll.findIndex ⟨pre ++ (k, v) :: post⟩ n = some pre.length := by
  have h1 : List.find? (keyEq n) pre = none := by
    rw [List.find?_eq_none]
    intro e he
    simpa [keyEq] using hpre e he
  have h2 : ∀ x ∈ pre, keyEq n x = false := by
    intro e he
    simpa [keyEq] using hpre e he
  have h3 : keyEq n (k, v) = true := by simpa [keyEq] using hk
  constructor
  · rw [find_eq]
    simp [List.find?_append, h1, h3]
  · rw [findIndex_eq]
    have : List.findIdx (keyEq n) (pre ++ (k, v) :: post) = pre.length := by
      rw [List.findIdx_append, (List.findIdx_eq_length).2 h2]
      simp [List.findIdx_cons, h3]
    simp [this]

theorem C18_find_none_iff (c : Coll α) (n : List Rune) :
    c.find n = none ↔ ∀ e ∈ c.items, upperStr e.1 ≠ upperStr n := by
  simp [Coll.find, List.find?_eq_none]

theorem C18_find_isSome_iff (c : Coll α) (n : List Rune) :
    (c.find n).isSome = true ↔ ∃ e ∈ c.items, upperStr e.1 = upperStr n := by
  simp [Coll.find]

/-- `findIndex` agrees with `find` -/
theorem C18_findIndex_isSome (c : Coll α) (n : List Rune) :
    (c.findIndex n).isSome = (c.find n).isSome := by
  rw [findIndex_eq, find_eq, Bool.eq_iff_iff]
  simp only [Option.isSome_map, List.find?_isSome]
  rw [← List.findIdx_lt_length]
  split <;> simp [*]

/-- the found index points at the first matching entry, whose value is what `find` returns -/
theorem C18_findIndex_first (c : Coll α) (n : List Rune) (i : Nat) (h : c.findIndex n = some i) :
    ∃ hi : i < c.items.length,
      upperStr (c.items[i]).1 = upperStr n ∧
      (∀ j (hj : j < i), upperStr (c.items[j]'(Nat.lt_trans hj hi)).1 ≠ upperStr n) ∧
      c.find n = some (c.items[i]).2 := by
  rw [findIndex_eq] at h
  split at h
  · rename_i hlt
    injection h with h
    subst h
    refine ⟨hlt, ?_, ?_, ?_⟩
    · have := @List.findIdx_getElem _ (keyEq n) c.items hlt
      simpa [keyEq] using this
    · intro j hj
      have := @List.not_of_lt_findIdx _ (keyEq n) c.items j hj
      simpa [keyEq] using this
    · rw [find_eq, List.find?_eq_getElem?_findIdx, List.getElem?_eq_getElem hlt]
      rfl
  · cases h

theorem C18_findIndex_none_iff (c : Coll α) (n : List Rune) :
    c.findIndex n = none ↔ c.find n = none := by
  have := C18_findIndex_isSome c n
  cases h1 : c.findIndex n <;> cases h2 : c.find n <;> simp [h1, h2] at this ⊢

/-! ## add / remove / clear / locate -/

theorem C18_add_appends (c : Coll α) (n : List Rune) (v : α) :
    (c.add n v).items = c.items ++ [(n, v)] := rfl

/-- adding never shadows an existing entry; a fresh name finds the added value -/
theorem C18_add_find (c : Coll α) (n : List Rune) (v : α) (k : List Rune) :
    (c.add n v).find k =
      match c.find k with
      | some x => some x
      | none => if upperStr n == upperStr k then some v else none := by
  simp only [Coll.find, Coll.add, List.find?_append]
  cases h : List.find? (fun e => upperStr e.1 == upperStr k) c.items with
  | some x => simp
  | none =>
    by_cases hk : upperStr n = upperStr k <;> simp [hk]

theorem C18_remove_erases (c : Coll α) (i : Nat) : (c.removeAt i).items = c.items.eraseIdx i := rfl

/-- `removeByName` erases the first entry that matches (`List.eraseP`), nothing if none does -/
theorem C18_removeByName_eraseP (c : Coll α) (n : List Rune) :
    (c.removeByName n).items = c.items.eraseP (fun e => upperStr e.1 == upperStr n) := by
  rw [List.eraseP_eq_eraseIdx]
  unfold Coll.removeByName
  rw [findIndex_eq]
  split
  · rename_i i h
    split at h
    · rename_i hlt
      injection h with h
      have : List.findIdx? (keyEq n) c.items = some i :=
        List.findIdx?_eq_some_iff_findIdx_eq.2 ⟨h ▸ hlt, h⟩
      unfold keyEq at this
      rw [this]
      rfl
    · cases h
  · rename_i h
    split at h
    · cases h
    · rename_i hge
      have : List.findIdx? (keyEq n) c.items = none := by
        rw [List.findIdx?_eq_none_iff]
        intro x hx
        have hlen : List.findIdx (keyEq n) c.items = c.items.length := by
          have := @List.findIdx_le_length _ (keyEq n) c.items
          omega
        exact (List.findIdx_eq_length.1 hlen) x hx
      unfold keyEq at this
      rw [this]

/-- removes exactly the first matching entry … -/
theorem C18_removeByName_first (pre post : List (List Rune × α)) (k : List Rune) (v : α)
    (n : List Rune) (hpre : ∀ e ∈ pre, upperStr e.1 ≠ upperStr n) (hk : upperStr k = upperStr n) :
    (Coll.removeByName ⟨pre ++ (k, v) :: post⟩ n).items = pre ++ post := by
  rw [C18_removeByName_eraseP]
  rw [List.eraseP_append_right]
  · simp [hk]
  · intro e he
    simpa using hpre e he

/-- … and nothing if there is none -/
theorem C18_removeByName_none (c : Coll α) (n : List Rune) (h : c.find n = none) :
    c.removeByName n = c := by
  unfold Coll.removeByName
  rw [(C18_findIndex_none_iff c n).2 h]

theorem C18_clear (c : Coll α) : c.clear.items = [] ∧ ∀ n, c.clear.find n = none := ⟨rfl, fun _ => rfl⟩

/-- `clearValues` keeps the names (and their order) and resets every value -/
theorem C18_clearValues (c : Coll α) (d : α) :
    (c.clearValues d).items.map (·.1) = c.items.map (·.1) ∧
    (∀ e ∈ (c.clearValues d).items, e.2 = d) ∧
    (∀ n, (c.clearValues d).find n = (c.find n).map fun _ => d) := by
  refine ⟨?_, ?_, ?_⟩
  · simp [Coll.clearValues, List.map_map, Function.comp_def]
  · intro e he
    simp only [Coll.clearValues, List.mem_map] at he
    obtain ⟨e', _, rfl⟩ := he
    rfl
  · intro n
    simp only [Coll.clearValues, Coll.find]
    induction c.items with
    | nil => rfl
    | cons e es ih =>
      simp only [List.map_cons, List.find?_cons]
      split <;> simp_all

/-- `locate`: an existing name leaves the collection unchanged; a missing one is appended with
the default value -/
theorem C18_locate (c : Coll α) (n : List Rune) (d : α) :
    ((c.find n).isSome = true → c.locate n d = c) ∧
    (c.find n = none → (c.locate n d).items = c.items ++ [(n, d)]) := by
  constructor
  · intro h; simp [Coll.locate, h]
  · intro h; simp [Coll.locate, h, Coll.add]

theorem locate_prefix (c : Coll α) (n : List Rune) (d : α) : c.items <+: (c.locate n d).items := by
  unfold Coll.locate
  split
  · exact List.prefix_refl _
  · exact List.prefix_append _ _

theorem find_isSome_of_prefix {c c' : Coll α} (h : c.items <+: c'.items) (n : List Rune)
    (hf : (c.find n).isSome = true) : (c'.find n).isSome = true := by
  rw [C18_find_isSome_iff] at hf ⊢
  obtain ⟨e, he, hm⟩ := hf
  exact ⟨e, h.subset he, hm⟩

/-- an entry that was there keeps its value under every later lookup -/
theorem find_of_prefix {c c' : Coll α} (h : c.items <+: c'.items) (n : List Rune) (v : α)
    (hf : c.find n = some v) : c'.find n = some v := by
  obtain ⟨t, ht⟩ := h
  simp only [Coll.find] at hf ⊢
  rw [← ht, List.find?_append]
  cases h' : List.find? (fun e => upperStr e.1 == upperStr n) c.items with
  | none => simp [h'] at hf
  | some x => simpa [h'] using hf

theorem locate_find_self (c : Coll α) (n : List Rune) (d : α) :
    ((c.locate n d).find n).isSome = true := by
  unfold Coll.locate
  split
  · assumption
  · rw [C18_find_isSome_iff]
    exact ⟨(n, d), by simp [Coll.add], rfl⟩

theorem locate_nodup (c : Coll α) (n : List Rune) (d : α)
    (h : (c.items.map fun e => upperStr e.1).Nodup) :
    ((c.locate n d).items.map fun e => upperStr e.1).Nodup := by
  unfold Coll.locate
  split
  · exact h
  · rename_i hf
    have hnone : c.find n = none := by simpa using hf
    rw [C18_find_none_iff] at hnone
    simp only [Coll.add, List.map_append, List.map_cons, List.map_nil, List.nodup_append]
    refine ⟨h, by simp, ?_⟩
    intro a ha b hb
    simp only [List.mem_map] at ha
    obtain ⟨e, he, rfl⟩ := ha
    simp only [List.mem_singleton] at hb
    subst hb
    exact hnone e he

theorem locate_mem (c : Coll α) (n : List Rune) (d : α) :
    ∀ e ∈ (c.locate n d).items, e ∈ c.items ∨ e = (n, d) := by
  intro e he
  unfold Coll.locate at he
  split at he
  · exact .inl he
  · simpa [Coll.add] using he

/-! ## automatic variables -/

/-- (i) existing entries and their values are kept, in place -/
theorem C18_createVariables_prefix (c : Coll α) (names : List (List Rune)) (d : α) :
    c.items <+: (c.createVariables names d).items := by
  unfold Coll.createVariables
  induction names generalizing c with
  | nil => exact List.prefix_refl _
  | cons n ns ih => exact (locate_prefix c n d).trans (ih (c.locate n d))

/-- (ii) every requested name is found afterwards -/
theorem C18_createVariables_found (c : Coll α) (names : List (List Rune)) (d : α) :
    ∀ n ∈ names, ((c.createVariables names d).find n).isSome = true := by
  induction names generalizing c with
  | nil => intro n hn; cases hn
  | cons k ks ih =>
    intro n hn
    have hstep : c.createVariables (k :: ks) d = (c.locate k d).createVariables ks d := rfl
    rw [hstep]
    rcases List.mem_cons.1 hn with rfl | hn
    · exact find_isSome_of_prefix (C18_createVariables_prefix (c.locate n d) ks d) n
        (locate_find_self c n d)
    · exact ih _ n hn

/-- (iii) no second entry for a name that already matches: distinct keys stay distinct -/
theorem C18_createVariables_nodup (c : Coll α) (names : List (List Rune)) (d : α)
    (h : (c.items.map (upperStr ∘ Prod.fst)).Nodup) :
    ((c.createVariables names d).items.map (upperStr ∘ Prod.fst)).Nodup := by
  unfold Coll.createVariables
  induction names generalizing c with
  | nil => exact h
  | cons n ns ih => exact ih (c.locate n d) (locate_nodup c n d h)

/-- nothing else is added: a new entry carries a requested name and the default value -/
theorem C18_createVariables_mem (c : Coll α) (names : List (List Rune)) (d : α) :
    ∀ e ∈ (c.createVariables names d).items, e ∈ c.items ∨ (e.1 ∈ names ∧ e.2 = d) := by
  unfold Coll.createVariables
  induction names generalizing c with
  | nil => intro e he; exact .inl he
  | cons n ns ih =>
    intro e he
    rcases ih (c.locate n d) e he with h | h
    · rcases locate_mem c n d e h with h | rfl
      · exact .inl h
      · exact .inr ⟨List.mem_cons_self, rfl⟩
    · exact .inr ⟨List.mem_cons_of_mem _ h.1, h.2⟩

/-- values that were already there are what lookups still return -/
theorem C18_createVariables_keeps_value (c : Coll α) (names : List (List Rune)) (d : α)
    (n : List Rune) (v : α) (h : c.find n = some v) :
    (c.createVariables names d).find n = some v :=
  find_of_prefix (C18_createVariables_prefix c names d) n v h

private theorem filter_key_le_one {β γ : Type} [BEq γ] [LawfulBEq γ] (f : β → γ) (k : γ) :
    ∀ (l : List β), (l.map f).Nodup → (l.filter fun e => f e == k).length ≤ 1
  | [], _ => by simp
  | e :: es, h => by
    rw [List.map_cons, List.nodup_cons] at h
    have ih := filter_key_le_one f k es h.2
    by_cases hk : f e = k
    · have : es.filter (fun e => f e == k) = [] := by
        rw [List.filter_eq_nil_iff]
        intro x hx hxk
        have hxk' : f x = k := by simpa using hxk
        exact h.1 (hk ▸ hxk' ▸ List.mem_map_of_mem hx)
      simp [hk, this]
    · simp [hk, ih]

/-- hence exactly one entry per requested name, compared case-insensitively -/
theorem C18_createVariables_exactly_one (c : Coll α) (names : List (List Rune)) (d : α)
    (h : (c.items.map (upperStr ∘ Prod.fst)).Nodup) :
    ∀ n ∈ names,
      ((c.createVariables names d).items.filter fun e => upperStr e.1 == upperStr n).length = 1 := by
  intro n hn
  have hle := filter_key_le_one (upperStr ∘ Prod.fst) (upperStr n) _
    (C18_createVariables_nodup c names d h)
  have hfound := C18_createVariables_found c names d n hn
  rw [C18_find_first] at hfound
  simp only [Option.isSome_map] at hfound
  have hpos : 0 < ((c.createVariables names d).items.filter
      fun e => upperStr e.1 == upperStr n).length := by
    cases hl : (c.createVariables names d).items.filter fun e => upperStr e.1 == upperStr n with
    | nil => rw [hl] at hfound; cases hfound
    | cons _ _ => simp
  simp only [Function.comp_apply] at hle
  omega

/-! ## variables of the calculator -/

theorem C18_findVar_is_find (vars : List (List Rune × V)) (n : List Rune) :
    findVar vars n = Coll.find ⟨vars⟩ n := rfl

end Verif
