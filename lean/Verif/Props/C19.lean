/-
C19: "Evaluating a parsed expression does not modify the compiled program, the constants in it,
the variable values or the function table: evaluating again with equal inputs returns an equal
result, any number of times and interleaved with evaluations under other variable sets.
Consequently concurrent evaluations of one parsed instance with separate variable collections
return the sequential results."

PARTIAL by nature: the Go memory model and the scheduler are not modelled.  What is proved:

* `C19_only_allocates`  : the heap evaluator (Model/Effects.lean) only appends cells; every
  cell that existed before (program constants, variable values, anything else) is unchanged —
  on success, error and panic paths alike.
* `C19_refines`         : read back through the heap, it computes exactly the result of the pure
  evaluator `run` (same values, same errors, same panics).
* `C19_repeatable`, `C19_interleaved` : on every heap that extends the initial one — e.g. the one
  left by earlier evaluations of the same program under the same or other variable tables — the
  evaluation returns the same value.
* `C19_deterministic*`  : `run` / `evaluate` / `renderToks` are functions.
* `C19_interleave_commutes`, `C19_schedule_independent` : threads that share only an immutable
  part end, under every schedule, in their sequential states.
* `C19_concurrent_eval` : instance for the evaluator: the program is the shared part, each
  thread has its own environment (variable collection) and stack.
-/
import Verif.Model.Effects
import Verif.Model.Mustache
import Verif.Model.Calc
import Verif.Lemmas.EvalCorrect

namespace Verif

variable {κ V : Type}

/-! ## (1) the heap only grows -/

theorem Heap.alloc_prefix (h : Heap V) (v : V) : h.cells <+: (h.alloc v).1.cells :=
  List.prefix_append _ _

theorem Heap.read_alloc (h : Heap V) (v : V) : (h.alloc v).1.read (h.alloc v).2 = some v := by
  show (h.cells ++ [v])[h.cells.length]? = some v
  simp

/-- a cell that exists keeps its content in every extension of the heap -/
theorem Heap.read_mono {h h' : Heap V} (hp : h.cells <+: h'.cells) {r : Ref} {v : V}
    (hr : h.read r = some v) : h'.read r = some v := by
  obtain ⟨t, ht⟩ := hp
  have hlt : r < h.cells.length := (List.getElem?_eq_some_iff.mp hr).1
  show h'.cells[r]? = some v
  rw [← ht, List.getElem?_append_left hlt]
  exact hr

theorem Heap.readAll_cons_some {h : Heap V} {r : Ref} {rs : List Ref} {vs : List V}
    (hs : h.readAll (r :: rs) = some vs) :
    ∃ v vs', vs = v :: vs' ∧ h.read r = some v ∧ h.readAll rs = some vs' := by
  simp only [Heap.readAll] at hs
  cases h1 : h.read r with
  | none => rw [h1] at hs; exact absurd hs (by simp)
  | some v =>
    cases h2 : h.readAll rs with
    | none => rw [h1, h2] at hs; exact absurd hs (by simp)
    | some vs' =>
      rw [h1, h2] at hs
      exact ⟨v, vs', (Option.some.inj hs).symm, rfl, rfl⟩

theorem Heap.readAll_cons {h : Heap V} {r : Ref} {rs : List Ref} {v : V} {vs : List V}
    (h1 : h.read r = some v) (h2 : h.readAll rs = some vs) :
    h.readAll (r :: rs) = some (v :: vs) := by
  simp only [Heap.readAll, h1, h2]

theorem Heap.readAll_nil_some {h : Heap V} {vs : List V} (hs : h.readAll [] = some vs) : vs = [] :=
  (Option.some.inj hs).symm

theorem Heap.readAll_mono {h h' : Heap V} (hp : h.cells <+: h'.cells) :
    ∀ {rs : List Ref} {vs : List V}, h.readAll rs = some vs → h'.readAll rs = some vs := by
  intro rs
  induction rs with
  | nil => intro vs hs; exact hs
  | cons r rs ih =>
    intro vs hs
    obtain ⟨v, vs', rfl, h1, h2⟩ := Heap.readAll_cons_some hs
    exact Heap.readAll_cons (Heap.read_mono hp h1) (ih h2)

theorem pushNew_prefix (h : Heap V) (st : List Ref) (o : Out V) :
    h.cells <+: (pushNew h st o).2.cells := by
  cases o with
  | ok v => exact Heap.alloc_prefix h v
  | err c => exact List.prefix_refl _
  | panic s => exact List.prefix_refl _

/-- one step allocates at most one cell and overwrites nothing -/
theorem evalStepH_prefix (env : EvalEnv κ V) (keyEq : List Rune → List Rune → Bool)
    (vars : VarTab) (t : ETok Ref) (st : List Ref) (h : Heap V) :
    h.cells <+: (evalStepH env keyEq vars t st h).2.cells := by
  unfold evalStepH
  repeat' (first
    | exact List.prefix_refl _
    | exact pushNew_prefix _ _ _
    | split)

theorem runH_cons (env : EvalEnv κ V) (keyEq : List Rune → List Rune → Bool) (vars : VarTab)
    (t : ETok Ref) (ts : List (ETok Ref)) (st : List Ref) (h : Heap V) :
    runH env keyEq vars (t :: ts) st h =
      match evalStepH env keyEq vars t st h with
      | (.ok st', h') => runH env keyEq vars ts st' h'
      | (.err c, h') => (.err c, h')
      | (.panic s, h') => (.panic s, h') := rfl

theorem runH_prefix (env : EvalEnv κ V) (keyEq : List Rune → List Rune → Bool) (vars : VarTab)
    (prog : List (ETok Ref)) (st : List Ref) (h : Heap V) :
    h.cells <+: (runH env keyEq vars prog st h).2.cells := by
  induction prog generalizing st h with
  | nil =>
    cases st with
    | nil => exact List.prefix_refl _
    | cons r st => cases st <;> exact List.prefix_refl _
  | cons t ts ih =>
    rw [runH_cons]
    have hp := evalStepH_prefix env keyEq vars t st h
    generalize evalStepH env keyEq vars t st h = res at hp
    obtain ⟨o, h'⟩ := res
    cases o with
    | ok st' => exact List.IsPrefix.trans hp (ih st' h')
    | err c => exact hp
    | panic s => exact hp

/-- C19, no writes: whatever the outcome `o` (a result reference, an error or a panic), the final
heap `h1` has the initial heap `h0` as a prefix: evaluation only ALLOCATES.  Every cell that
existed before — the constants of the compiled program, the variable values, cells of other
evaluations — is still there with the same content. -/
theorem C19_only_allocates (env : EvalEnv κ V) (keyEq : List Rune → List Rune → Bool)
    (vars : VarTab) (prog : List (ETok Ref)) (st : List Ref) (h0 h1 : Heap V) (o : Out Ref)
    (hrun : runH env keyEq vars prog st h0 = (o, h1)) : h0.cells <+: h1.cells := by
  have := runH_prefix env keyEq vars prog st h0
  rw [hrun] at this
  exact this

/-- the same fact cell by cell -/
theorem C19_cells_unchanged (env : EvalEnv κ V) (keyEq : List Rune → List Rune → Bool)
    (vars : VarTab) (prog : List (ETok Ref)) (st : List Ref) (h0 : Heap V) (r : Ref) (v : V)
    (hr : h0.read r = some v) : (runH env keyEq vars prog st h0).2.read r = some v :=
  Heap.read_mono (runH_prefix env keyEq vars prog st h0) hr

/-! ## (2) the abstraction relation -/

/-- a token of the heap program represents a token of the pure program: same type and name, and
a Constant token points at a cell that holds the constant's value -/
structure TokRel (env : EvalEnv κ V) (h : Heap V) (ht : ETok Ref) (t : ETok κ) : Prop where
  typ : ht.typ = t.typ
  name : ht.name = t.name
  const : t.typ = .constant → ∃ r, ht.cst = some r ∧ h.read r = some (constVal env t)

/-- the heap program represents the pure program, token by token -/
def ProgRel (env : EvalEnv κ V) (h : Heap V) : List (ETok Ref) → List (ETok κ) → Prop
  | [], [] => True
  | ht :: hp, t :: p => TokRel env h ht t ∧ ProgRel env h hp p
  | _, _ => False

/-- the variable table represents the variable look-up of the environment: a name found in the
table points at a cell holding the variable's value; a name missing in the table is unknown -/
structure VarsRel (env : EvalEnv κ V) (keyEq : List Rune → List Rune → Bool) (h : Heap V)
    (vars : VarTab) : Prop where
  found : ∀ name r, vars.find keyEq name = some r →
    ∃ v, h.read r = some v ∧ env.lookupVar name = some v
  missing : ∀ name, vars.find keyEq name = none → env.lookupVar name = none

theorem TokRel.mono {env : EvalEnv κ V} {h h' : Heap V} (hp : h.cells <+: h'.cells)
    {ht : ETok Ref} {t : ETok κ} (hr : TokRel env h ht t) : TokRel env h' ht t :=
  ⟨hr.typ, hr.name, fun hc => by
    obtain ⟨r, h1, h2⟩ := hr.const hc
    exact ⟨r, h1, Heap.read_mono hp h2⟩⟩

theorem ProgRel.mono {env : EvalEnv κ V} {h h' : Heap V} (hp : h.cells <+: h'.cells) :
    ∀ {hprog : List (ETok Ref)} {p : List (ETok κ)}, ProgRel env h hprog p → ProgRel env h' hprog p := by
  intro hprog
  induction hprog with
  | nil =>
    intro p hr
    cases p with
    | nil => trivial
    | cons t p => exact hr.elim
  | cons ht hprog ih =>
    intro p hr
    cases p with
    | nil => exact hr.elim
    | cons t p => exact ⟨hr.1.mono hp, ih hr.2⟩

theorem VarsRel.mono {env : EvalEnv κ V} {keyEq : List Rune → List Rune → Bool} {h h' : Heap V}
    (hp : h.cells <+: h'.cells) {vars : VarTab} (hr : VarsRel env keyEq h vars) :
    VarsRel env keyEq h' vars :=
  ⟨fun name r hf => by
    obtain ⟨v, h1, h2⟩ := hr.found name r hf
    exact ⟨v, Heap.read_mono hp h1, h2⟩, hr.missing⟩

/-! ## (3) one step of the heap evaluator refines one step of the pure evaluator -/

/-- outcome of a heap step vs. outcome of a pure step -/
def StepRel (r : Out (List Ref) × Heap V) (o : Out (List V)) : Prop :=
  match r.1 with
  | .ok rs' => ∃ vs', o = .ok vs' ∧ r.2.readAll rs' = some vs'
  | .err c => o = .err c
  | .panic s => o = .panic s

theorem pushNew_rel (h : Heap V) (rs : List Ref) (vs : List V) (o : Out V)
    (hS : h.readAll rs = some vs) :
    StepRel (pushNew h rs o) (o.bind fun r => .ok (r :: vs)) := by
  cases o with
  | ok v =>
    exact ⟨v :: vs, rfl, Heap.readAll_cons (Heap.read_alloc h v)
      (Heap.readAll_mono (Heap.alloc_prefix h v) hS)⟩
  | err c => exact rfl
  | panic s => exact rfl

/-- `popN` on references and on values run in lock step -/
theorem popN_rel (h : Heap V) : ∀ (n : Nat) (rs racc : List Ref) (vs vacc : List V),
    h.readAll rs = some vs → h.readAll racc = some vacc →
    match popN n rs racc with
    | none => popN n vs vacc = none
    | some (a, s) => ∃ va vs', popN n vs vacc = some (va, vs') ∧
        h.readAll a = some va ∧ h.readAll s = some vs' := by
  intro n
  induction n with
  | zero =>
    intro rs racc vs vacc h1 h2
    exact ⟨vacc, vs, rfl, h2, h1⟩
  | succ n ih =>
    intro rs racc vs vacc h1 h2
    cases rs with
    | nil =>
      rw [Heap.readAll_nil_some h1]
      exact rfl
    | cons r rs =>
      obtain ⟨v, vs', rfl, hr, hrs⟩ := Heap.readAll_cons_some h1
      exact ih rs (r :: racc) vs' (v :: vacc) hrs (Heap.readAll_cons hr h2)

/-- the operator branch of `evalStep` -/
theorem evalStep_other (env : EvalEnv κ V) (t : ETok κ) (st : List V)
    (hc : t.typ ≠ .constant) (hv : t.typ ≠ .variable) (hf : t.typ ≠ .function) :
    evalStep env t st =
      if binaryTypes.contains t.typ then
        match st with
        | v2 :: v1 :: st1 => (env.binop t.typ v1 v2).bind fun r => .ok (r :: st1)
        | _ => .panic "Stack is empty."
      else if unaryTypes.contains t.typ then
        match st with
        | v :: st1 => (env.unop t.typ v).bind fun r => .ok (r :: st1)
        | [] => .panic "Stack is empty."
      else .err "INTERNAL" := by
  obtain ⟨typ, name, cst, argc⟩ := t
  cases typ <;> first
    | exact absurd rfl hc
    | exact absurd rfl hv
    | exact absurd rfl hf
    | rfl

/-- the operator branch of `evalStepH` -/
theorem evalStepH_other (env : EvalEnv κ V) (keyEq : List Rune → List Rune → Bool) (vars : VarTab)
    (t : ETok Ref) (st : List Ref) (h : Heap V)
    (hc : t.typ ≠ .constant) (hv : t.typ ≠ .variable) (hf : t.typ ≠ .function) :
    evalStepH env keyEq vars t st h =
      if binaryTypes.contains t.typ then
        match st with
        | r2 :: r1 :: st1 =>
          match h.read r1, h.read r2 with
          | some v1, some v2 => pushNew h st1 (env.binop t.typ v1 v2)
          | _, _ => (.panic "dangling reference", h)
        | _ => (.panic "Stack is empty.", h)
      else if unaryTypes.contains t.typ then
        match st with
        | r :: st1 =>
          match h.read r with
          | some v => pushNew h st1 (env.unop t.typ v)
          | none => (.panic "dangling reference", h)
        | [] => (.panic "Stack is empty.", h)
      else (.err "INTERNAL", h) := by
  obtain ⟨typ, name, cst, argc⟩ := t
  cases typ <;> first
    | exact absurd rfl hc
    | exact absurd rfl hv
    | exact absurd rfl hf
    | rfl

theorem evalStep_constant (env : EvalEnv κ V) (t : ETok κ) (st : List V) (hc : t.typ = .constant) :
    evalStep env t st = .ok (constVal env t :: st) := by
  obtain ⟨typ, name, cst, argc⟩ := t
  simp only at hc
  subst hc
  cases cst <;> rfl

theorem evalStep_variable (env : EvalEnv κ V) (t : ETok κ) (st : List V) (hc : t.typ = .variable) :
    evalStep env t st =
      match env.lookupVar t.name with
      | some v => .ok (v :: st)
      | none => .err "VAR_NOT_FOUND" := by
  obtain ⟨typ, name, cst, argc⟩ := t
  simp only at hc
  subst hc
  rfl

theorem evalStep_function' (env : EvalEnv κ V) (t : ETok κ) (st : List V) (hc : t.typ = .function) :
    evalStep env t st =
      if !env.hasFn t.name then .err "FUNC_NOT_FOUND"
      else match st with
        | [] => .panic "Stack is empty."
        | cnt :: st1 =>
          match env.asArgc cnt with
          | none => .panic "argument count is not an integer"
          | some n =>
            match popN n st1 [] with
            | none => .panic "Stack is empty."
            | some (args, st2) => (env.callFn t.name args).bind fun r => .ok (r :: st2) := by
  obtain ⟨typ, name, cst, argc⟩ := t
  simp only at hc
  subst hc
  rfl

theorem evalStepH_constant (env : EvalEnv κ V) (keyEq : List Rune → List Rune → Bool)
    (vars : VarTab) (t : ETok Ref) (st : List Ref) (h : Heap V) (hc : t.typ = .constant) :
    evalStepH env keyEq vars t st h =
      match t.cst with
      | some r => (.ok (r :: st), h)
      | none => (.panic "constant token without a value", h) := by
  obtain ⟨typ, name, cst, argc⟩ := t
  simp only at hc
  subst hc
  rfl

theorem evalStepH_variable (env : EvalEnv κ V) (keyEq : List Rune → List Rune → Bool)
    (vars : VarTab) (t : ETok Ref) (st : List Ref) (h : Heap V) (hc : t.typ = .variable) :
    evalStepH env keyEq vars t st h =
      match vars.find keyEq t.name with
      | some r => (.ok (r :: st), h)
      | none => (.err "VAR_NOT_FOUND", h) := by
  obtain ⟨typ, name, cst, argc⟩ := t
  simp only at hc
  subst hc
  rfl

theorem evalStepH_function (env : EvalEnv κ V) (keyEq : List Rune → List Rune → Bool)
    (vars : VarTab) (t : ETok Ref) (st : List Ref) (h : Heap V) (hc : t.typ = .function) :
    evalStepH env keyEq vars t st h =
      if !env.hasFn t.name then (.err "FUNC_NOT_FOUND", h)
      else match st with
        | [] => (.panic "Stack is empty.", h)
        | cnt :: st1 =>
          match h.read cnt with
          | none => (.panic "dangling reference", h)
          | some cv =>
            match env.asArgc cv with
            | none => (.panic "argument count is not an integer", h)
            | some n =>
              match popN n st1 [] with
              | none => (.panic "Stack is empty.", h)
              | some (args, st2) =>
                match h.readAll args with
                | none => (.panic "dangling reference", h)
                | some vs => pushNew h st2 (env.callFn t.name vs) := by
  obtain ⟨typ, name, cst, argc⟩ := t
  simp only at hc
  subst hc
  rfl

/-- one step: if the token, the variable table and the stack of references represent their pure
counterparts, the heap step and the pure step have the same outcome (same error, same panic, or
stacks that again correspond through the new heap) -/
theorem evalStepH_refines (env : EvalEnv κ V) (keyEq : List Rune → List Rune → Bool)
    (vars : VarTab) (h : Heap V) (ht : ETok Ref) (t : ETok κ) (rs : List Ref) (vs : List V)
    (hT : TokRel env h ht t) (hV : VarsRel env keyEq h vars) (hS : h.readAll rs = some vs) :
    StepRel (evalStepH env keyEq vars ht rs h) (evalStep env t vs) := by
  by_cases hc : t.typ = .constant
  · rw [evalStepH_constant env keyEq vars ht rs h (hT.typ.trans hc), evalStep_constant env t vs hc]
    obtain ⟨r, h1, h2⟩ := hT.const hc
    rw [h1]
    exact ⟨_, rfl, Heap.readAll_cons h2 hS⟩
  by_cases hv : t.typ = .variable
  · rw [evalStepH_variable env keyEq vars ht rs h (hT.typ.trans hv), evalStep_variable env t vs hv,
      hT.name]
    cases hf : vars.find keyEq t.name with
    | none => rw [hV.missing _ hf]; exact rfl
    | some r =>
      obtain ⟨v, h1, h2⟩ := hV.found _ r hf
      rw [h2]
      exact ⟨_, rfl, Heap.readAll_cons h1 hS⟩
  by_cases hf : t.typ = .function
  · rw [evalStepH_function env keyEq vars ht rs h (hT.typ.trans hf), evalStep_function' env t vs hf,
      hT.name]
    cases env.hasFn t.name with
    | false => exact rfl
    | true =>
      simp only [Bool.not_true, Bool.false_eq_true, if_false]
      cases rs with
      | nil => rw [Heap.readAll_nil_some hS]; exact rfl
      | cons cnt rs1 =>
        obtain ⟨cv, vs1, rfl, hcnt, hrs1⟩ := Heap.readAll_cons_some hS
        simp only [hcnt]
        cases env.asArgc cv with
        | none => exact rfl
        | some n =>
          simp only
          have hpop := popN_rel h n rs1 [] vs1 [] hrs1 rfl
          cases hp : popN n rs1 [] with
          | none =>
            rw [hp] at hpop
            simp only at hpop
            rw [hpop]; exact rfl
          | some res =>
            obtain ⟨args, st2⟩ := res
            rw [hp] at hpop
            obtain ⟨va, vs2, hpv, hra, hrs2⟩ := hpop
            rw [hpv]
            simp only [hra]
            exact pushNew_rel h st2 vs2 _ hrs2
  · have hc' : ht.typ ≠ .constant := fun e => hc (hT.typ.symm.trans e)
    have hv' : ht.typ ≠ .variable := fun e => hv (hT.typ.symm.trans e)
    have hf' : ht.typ ≠ .function := fun e => hf (hT.typ.symm.trans e)
    rw [evalStepH_other env keyEq vars ht rs h hc' hv' hf', evalStep_other env t vs hc hv hf,
      hT.typ]
    cases binaryTypes.contains t.typ with
    | true =>
      simp only [if_true]
      cases rs with
      | nil => rw [Heap.readAll_nil_some hS]; exact rfl
      | cons r2 rs1 =>
        obtain ⟨v2, vs1, rfl, hr2, hrs1⟩ := Heap.readAll_cons_some hS
        cases rs1 with
        | nil => rw [Heap.readAll_nil_some hrs1]; exact rfl
        | cons r1 rs2 =>
          obtain ⟨v1, vs2, rfl, hr1, hrs2⟩ := Heap.readAll_cons_some hrs1
          simp only [hr1, hr2]
          exact pushNew_rel h rs2 vs2 _ hrs2
    | false =>
      simp only [Bool.false_eq_true, if_false]
      cases unaryTypes.contains t.typ with
      | true =>
        simp only [if_true]
        cases rs with
        | nil => rw [Heap.readAll_nil_some hS]; exact rfl
        | cons r rs1 =>
          obtain ⟨v, vs1, rfl, hr, hrs1⟩ := Heap.readAll_cons_some hS
          simp only [hr]
          exact pushNew_rel h rs1 vs1 _ hrs1
      | false => exact rfl

/-! ## (4) the whole run -/

theorem run_nil (env : EvalEnv κ V) (vs : List V) : run env [] vs = finalOut vs := by
  cases vs with
  | nil => rfl
  | cons v vs => cases vs <;> rfl

theorem runH_refines (env : EvalEnv κ V) (keyEq : List Rune → List Rune → Bool) (vars : VarTab) :
    ∀ (hprog : List (ETok Ref)) (p : List (ETok κ)) (rs : List Ref) (vs : List V) (h : Heap V),
      ProgRel env h hprog p → VarsRel env keyEq h vars → h.readAll rs = some vs →
      readBack (runH env keyEq vars hprog rs h) = run env p vs := by
  intro hprog
  induction hprog with
  | nil =>
    intro p rs vs h hP _ hS
    cases p with
    | cons t p => exact hP.elim
    | nil =>
      cases rs with
      | nil => rw [Heap.readAll_nil_some hS]; rfl
      | cons r rs1 =>
        obtain ⟨v, vs1, rfl, hr, hrs1⟩ := Heap.readAll_cons_some hS
        cases rs1 with
        | nil =>
          rw [Heap.readAll_nil_some hrs1]
          show (match h.read r with
            | some v => Out.ok v
            | none => Out.panic "dangling reference") = Out.ok v
          rw [hr]
        | cons r' rs2 =>
          obtain ⟨v', vs2, rfl, _, _⟩ := Heap.readAll_cons_some hrs1
          rfl
  | cons ht hprog ih =>
    intro p rs vs h hP hV hS
    cases p with
    | nil => exact hP.elim
    | cons t p =>
      have hstep := evalStepH_refines env keyEq vars h ht t rs vs hP.1 hV hS
      have hpre := evalStepH_prefix env keyEq vars ht rs h
      rw [runH_cons, run_cons]
      generalize evalStepH env keyEq vars ht rs h = res at hstep hpre
      obtain ⟨o, h'⟩ := res
      cases o with
      | ok rs' =>
        obtain ⟨vs', he, hr'⟩ := hstep
        rw [he]
        exact ih p rs' vs' h' (hP.2.mono hpre) (hV.mono hpre) hr'
      | err c =>
        have he : evalStep env t vs = .err c := hstep
        rw [he]; rfl
      | panic s =>
        have he : evalStep env t vs = .panic s := hstep
        rw [he]; rfl

/-- C19, refinement: if the constant cells of the heap program hold the constants' values
(`ProgRel`) and the cells of the variable table hold the variable values (`VarsRel`), then the
result of the heap evaluator, read back through the final heap, IS the result of the pure
evaluator — the same value, the same error, the same panic. -/
theorem C19_refines (env : EvalEnv κ V) (keyEq : List Rune → List Rune → Bool) (vars : VarTab)
    (hprog : List (ETok Ref)) (p : List (ETok κ)) (h0 : Heap V)
    (hP : ProgRel env h0 hprog p) (hV : VarsRel env keyEq h0 vars) :
    readBack (runH env keyEq vars hprog [] h0) = evaluate env p :=
  runH_refines env keyEq vars hprog p [] [] h0 hP hV rfl

/-- C19, repeatability: on ANY heap `h` that extends `h0` — in particular the heap left behind by
a first evaluation, or by evaluations under other variable tables — the evaluation returns the
value it returned on `h0`. -/
theorem C19_repeatable (env : EvalEnv κ V) (keyEq : List Rune → List Rune → Bool) (vars : VarTab)
    (hprog : List (ETok Ref)) (p : List (ETok κ)) (h0 h : Heap V)
    (hP : ProgRel env h0 hprog p) (hV : VarsRel env keyEq h0 vars) (hext : h0.cells <+: h.cells) :
    readBack (runH env keyEq vars hprog [] h) = readBack (runH env keyEq vars hprog [] h0) := by
  rw [C19_refines env keyEq vars hprog p h0 hP hV,
    C19_refines env keyEq vars hprog p h (hP.mono hext) (hV.mono hext)]

/-- evaluating twice in a row -/
theorem C19_twice (env : EvalEnv κ V) (keyEq : List Rune → List Rune → Bool) (vars : VarTab)
    (hprog : List (ETok Ref)) (p : List (ETok κ)) (h0 : Heap V)
    (hP : ProgRel env h0 hprog p) (hV : VarsRel env keyEq h0 vars) :
    readBack (runH env keyEq vars hprog [] (runH env keyEq vars hprog [] h0).2)
      = readBack (runH env keyEq vars hprog [] h0) :=
  C19_repeatable env keyEq vars hprog p h0 _ hP hV (runH_prefix env keyEq vars hprog [] h0)

/-- the heap after a sequence of evaluations of the same program, each with its own environment
and variable table (results discarded) -/
def heapAfter (keyEq : List Rune → List Rune → Bool) (hprog : List (ETok Ref)) :
    List (EvalEnv κ V × VarTab) → Heap V → Heap V
  | [], h => h
  | j :: jobs, h => heapAfter keyEq hprog jobs (runH j.1 keyEq j.2 hprog [] h).2

theorem heapAfter_prefix (keyEq : List Rune → List Rune → Bool) (hprog : List (ETok Ref))
    (jobs : List (EvalEnv κ V × VarTab)) (h : Heap V) :
    h.cells <+: (heapAfter keyEq hprog jobs h).cells := by
  induction jobs generalizing h with
  | nil => exact List.prefix_refl _
  | cons j jobs ih => exact List.IsPrefix.trans (runH_prefix j.1 keyEq j.2 hprog [] h) (ih _)

/-- C19, any number of times, interleaved with evaluations under other variable sets: after ANY
sequence `jobs` of evaluations of the program (the same variable table again, other variable
tables, other environments; succeeding or failing) the evaluation under `vars` still returns the
pure result — the program constants and the variable cells are intact. -/
theorem C19_interleaved (env : EvalEnv κ V) (keyEq : List Rune → List Rune → Bool) (vars : VarTab)
    (hprog : List (ETok Ref)) (p : List (ETok κ)) (h0 : Heap V)
    (hP : ProgRel env h0 hprog p) (hV : VarsRel env keyEq h0 vars)
    (jobs : List (EvalEnv κ V × VarTab)) :
    readBack (runH env keyEq vars hprog [] (heapAfter keyEq hprog jobs h0)) = evaluate env p := by
  rw [C19_repeatable env keyEq vars hprog p h0 _ hP hV (heapAfter_prefix keyEq hprog jobs h0)]
  exact C19_refines env keyEq vars hprog p h0 hP hV

/-! ## (5) the relations are satisfiable: loading a program and a variable list -/

theorem loadTok_prefix (env : EvalEnv κ V) (t : ETok κ) (h : Heap V) :
    h.cells <+: (loadTok env t h).2.cells := by
  unfold loadTok
  split
  · exact Heap.alloc_prefix _ _
  · exact List.prefix_refl _

theorem loadTok_rel (env : EvalEnv κ V) (t : ETok κ) (h : Heap V) :
    TokRel env (loadTok env t h).2 (loadTok env t h).1 t := by
  unfold loadTok
  split
  · exact ⟨rfl, rfl, fun _ => ⟨_, rfl, Heap.read_alloc h _⟩⟩
  · rename_i hne
    exact ⟨rfl, rfl, fun hc => absurd hc hne⟩

theorem loadProg_prefix (env : EvalEnv κ V) (p : List (ETok κ)) (h : Heap V) :
    h.cells <+: (loadProg env p h).2.cells := by
  induction p generalizing h with
  | nil => exact List.prefix_refl _
  | cons t p ih => exact List.IsPrefix.trans (loadTok_prefix env t h) (ih _)

/-- the loaded program represents the pure program -/
theorem loadProg_rel (env : EvalEnv κ V) (p : List (ETok κ)) (h : Heap V) :
    ProgRel env (loadProg env p h).2 (loadProg env p h).1 p := by
  induction p generalizing h with
  | nil => trivial
  | cons t p ih =>
    exact ⟨(loadTok_rel env t h).mono (loadProg_prefix env p _), ih _⟩

theorem loadVars_prefix (vs : List (List Rune × V)) (h : Heap V) :
    h.cells <+: (loadVars vs h).2.cells := by
  induction vs generalizing h with
  | nil => exact List.prefix_refl _
  | cons e es ih => exact List.IsPrefix.trans (Heap.alloc_prefix h e.2) (ih _)

/-- look-up in the loaded table = look-up in the variable list, through the heap -/
theorem loadVars_find (keyEq : List Rune → List Rune → Bool) (name : List Rune) :
    ∀ (vs : List (List Rune × V)) (h : Heap V),
      match (loadVars vs h).1.find keyEq name with
      | some r => ∃ e, List.find? (fun e => keyEq e.1 name) vs = some e ∧
          (loadVars vs h).2.read r = some e.2
      | none => List.find? (fun e => keyEq e.1 name) vs = none := by
  intro vs
  induction vs with
  | nil => intro h; exact rfl
  | cons e es ih =>
    intro h
    cases hk : keyEq e.1 name with
    | true =>
      have h1 : (loadVars (e :: es) h).1.find keyEq name = some (h.alloc e.2).2 := by
        show Option.map _ (List.find? _ ((e.1, (h.alloc e.2).2) :: _)) = _
        rw [List.find?_cons_of_pos (by exact hk)]
        rfl
      rw [h1]
      refine ⟨e, List.find?_cons_of_pos (by exact hk), ?_⟩
      exact Heap.read_mono (loadVars_prefix es _) (Heap.read_alloc h e.2)
    | false =>
      have hk' : ¬ (keyEq e.1 name = true) := by rw [hk]; exact Bool.false_ne_true
      have h1 : (loadVars (e :: es) h).1.find keyEq name
          = (loadVars es (h.alloc e.2).1).1.find keyEq name := by
        show Option.map _ (List.find? _ ((e.1, (h.alloc e.2).2) :: _)) = _
        rw [List.find?_cons_of_neg (by exact hk')]
        rfl
      rw [h1, List.find?_cons_of_neg (by exact hk')]
      exact ih (h.alloc e.2).1

/-- the loaded table represents every environment whose variable look-up is "first entry of the
list whose name matches" (e.g. `calcEnv`, whose `findVar` compares upper-cased names) -/
theorem loadVars_rel (env : EvalEnv κ V) (keyEq : List Rune → List Rune → Bool)
    (vs : List (List Rune × V))
    (hlook : ∀ name, env.lookupVar name = (List.find? (fun e => keyEq e.1 name) vs).map (·.2))
    (h : Heap V) : VarsRel env keyEq (loadVars vs h).2 (loadVars vs h).1 := by
  constructor
  · intro name r hf
    have := loadVars_find keyEq name vs h
    rw [hf] at this
    obtain ⟨e, he, hr⟩ := this
    exact ⟨e.2, hr, by rw [hlook, he]; rfl⟩
  · intro name hf
    have := loadVars_find keyEq name vs h
    rw [hf] at this
    have this' : List.find? (fun e => keyEq e.1 name) vs = none := this
    rw [hlook, this']; rfl

/-- end to end: load the program, load the variables, evaluate on the heap (after any number of
other evaluations): the pure result -/
theorem C19_load_eval (env : EvalEnv κ V) (keyEq : List Rune → List Rune → Bool)
    (vs : List (List Rune × V))
    (hlook : ∀ name, env.lookupVar name = (List.find? (fun e => keyEq e.1 name) vs).map (·.2))
    (p : List (ETok κ)) (h : Heap V) (jobs : List (EvalEnv κ V × VarTab)) :
    readBack (runH env keyEq (loadVars vs (loadProg env p h).2).1 (loadProg env p h).1 []
        (heapAfter keyEq (loadProg env p h).1 jobs (loadVars vs (loadProg env p h).2).2))
      = evaluate env p :=
  C19_interleaved env keyEq _ _ p _
    ((loadProg_rel env p h).mono (loadVars_prefix vs _))
    (loadVars_rel env keyEq vs hlook _) jobs

/-! ## (6) determinism (the rfl-facts) -/

/-- `run` is a function of (environment, program, stack): equal inputs, equal results.  It
returns an `Out V` and nothing else: no new program, no new environment. -/
theorem C19_deterministic (env env' : EvalEnv κ V) (p p' : List (ETok κ)) (st st' : List V)
    (he : env = env') (hp : p = p') (hs : st = st') : run env p st = run env' p' st' := by
  subst he; subst hp; subst hs; rfl

theorem C19_deterministic_evaluate (env env' : EvalEnv κ V) (p p' : List (ETok κ))
    (he : env = env') (hp : p = p') : evaluate env p = evaluate env' p' := by
  subst he; subst hp; rfl

/-- the results of `n` evaluations in a row are `n` copies of the first -/
theorem C19_deterministic_replicate (env : EvalEnv κ V) (p : List (ETok κ)) (n : Nat) :
    (List.replicate n ()).map (fun _ => evaluate env p) = List.replicate n (evaluate env p) := by
  simp

/-- rendering a parsed template is a function of (variables, template) -/
theorem C19_deterministic_render (vars vars' : List (List Rune × List Rune)) (t t' : MToks)
    (hv : vars = vars') (ht : t = t') : renderToks vars t = renderToks vars' t' := by
  subst hv; subst ht; rfl

theorem C19_deterministic_renderTemplate (src src' : List Rune)
    (vars vars' : List (List Rune × List Rune)) (hs : src = src') (hv : vars = vars') :
    renderTemplate src vars = renderTemplate src' vars' := by
  subst hs; subst hv; rfl

/-! ## (7) interleaving of threads that share only an immutable part

Modelling assumption, justified by `C19_only_allocates` / `C19_cells_unchanged`: an evaluation
only READS the cells that existed when it started (the compiled program, its constants, the
variable values, the function table) and only WRITES cells it allocated itself (its results and
its stack).  Hence, from the point of view of one thread, everything it shares with the other
threads is immutable (`Sh`, which `Machine.step` receives but cannot return), and everything it
writes is private (`σ`).  Under this assumption the scheduler cannot influence any thread.  What is
NOT modelled: the Go memory model (visibility / tearing of the initialising writes made before the
threads start), the allocator, and callers that mutate a variable collection while an evaluation
that uses it is running. -/

variable {Sh σ : Type}

/-- one step of a thread running alone; a finished thread stays -/
def stepOrStay (m : Machine Sh σ) (sh : Sh) (s : σ) : σ :=
  match m.step sh s with
  | some s' => s'
  | none => s

theorem runSeq_finished (m : Machine Sh σ) (sh : Sh) (n : Nat) (s : σ) (h : m.step sh s = none) :
    runSeq m sh n s = s := by
  cases n with
  | zero => rfl
  | succ n => simp only [runSeq, h]

theorem runSeq_succ (m : Machine Sh σ) (sh : Sh) (n : Nat) (s : σ) :
    runSeq m sh (n+1) s = runSeq m sh n (stepOrStay m sh s) := by
  unfold stepOrStay
  cases h : m.step sh s with
  | none => simp only [runSeq, h]; exact (runSeq_finished m sh n s h).symm
  | some s' => simp only [runSeq, h]

theorem runSeq_add (m : Machine Sh σ) (sh : Sh) (a b : Nat) (s : σ) :
    runSeq m sh (a + b) s = runSeq m sh b (runSeq m sh a s) := by
  induction a generalizing s with
  | zero => rw [Nat.zero_add]; rfl
  | succ a ih =>
    rw [Nat.succ_add, runSeq_succ, ih, ← runSeq_succ]

/-- once finished, more fuel changes nothing -/
theorem runSeq_stable (m : Machine Sh σ) (sh : Sh) (n k : Nat) (s : σ)
    (h : m.step sh (runSeq m sh n s) = none) : runSeq m sh (n + k) s = runSeq m sh n s := by
  rw [runSeq_add]; exact runSeq_finished m sh k _ h

/-- the sequential final state is unique -/
theorem runSeq_final_unique (m : Machine Sh σ) (sh : Sh) (n1 n2 : Nat) (s : σ)
    (h1 : m.step sh (runSeq m sh n1 s) = none) (h2 : m.step sh (runSeq m sh n2 s) = none) :
    runSeq m sh n1 s = runSeq m sh n2 s := by
  by_cases hle : n1 ≤ n2
  · have := runSeq_stable m sh n1 (n2 - n1) s h1
    rw [show n1 + (n2 - n1) = n2 by omega] at this
    exact this.symm
  · have := runSeq_stable m sh n2 (n1 - n2) s h2
    rw [show n2 + (n1 - n2) = n1 by omega] at this
    exact this

theorem stepAt_length (ms : List (Machine Sh σ)) (sh : Sh) (i : Nat) (sts : List σ) :
    (stepAt ms sh i sts).length = sts.length := by
  unfold stepAt
  split
  · split
    · exact List.length_set
    · rfl
  · rfl

theorem runSched_length (ms : List (Machine Sh σ)) (sh : Sh) (sched : List Nat) (sts : List σ) :
    (runSched ms sh sched sts).length = sts.length := by
  induction sched generalizing sts with
  | nil => rfl
  | cons i sched ih =>
    show (runSched ms sh sched (stepAt ms sh i sts)).length = _
    rw [ih, stepAt_length]

/-- a step of thread `j` does not touch thread `i ≠ j` -/
theorem stepAt_get_ne (ms : List (Machine Sh σ)) (sh : Sh) (i j : Nat) (sts : List σ)
    (hne : j ≠ i) : (stepAt ms sh j sts)[i]? = sts[i]? := by
  unfold stepAt
  split
  · split
    · exact List.getElem?_set_ne hne
    · rfl
  · rfl

/-- a step of thread `i` is a step of thread `i` running alone -/
theorem stepAt_get_self (ms : List (Machine Sh σ)) (sh : Sh) (i : Nat) (sts : List σ)
    (m : Machine Sh σ) (s : σ) (hm : ms[i]? = some m) (hs : sts[i]? = some s) :
    (stepAt ms sh i sts)[i]? = some (stepOrStay m sh s) := by
  have hlt : i < sts.length := (List.getElem?_eq_some_iff.mp hs).1
  unfold stepAt stepOrStay
  rw [hm, hs]
  simp only
  cases m.step sh s with
  | none => exact hs
  | some s' => simp only; rw [List.getElem?_set_self hlt]

/-- C19, interleaving: for EVERY schedule, the private state of thread `i` after the interleaved
run is its state after running ALONE for as many steps as the schedule gave it — no matter how
the steps of the other threads were interleaved with its own. -/
theorem C19_interleave_commutes (ms : List (Machine Sh σ)) (sh : Sh) (sched : List Nat)
    (sts : List σ) (i : Nat) (m : Machine Sh σ) (s : σ)
    (hm : ms[i]? = some m) (hs : sts[i]? = some s) :
    (runSched ms sh sched sts)[i]? = some (runSeq m sh (sched.count i) s) := by
  induction sched generalizing sts s with
  | nil => exact hs
  | cons j sched ih =>
    show (runSched ms sh sched (stepAt ms sh j sts))[i]? = _
    by_cases hji : j = i
    · subst hji
      rw [List.count_cons_self, runSeq_succ]
      exact ih _ _ (stepAt_get_self ms sh j sts m s hm hs)
    · rw [List.count_cons_of_ne hji]
      exact ih _ _ ((stepAt_get_ne ms sh i j sts hji).trans hs)

/-- a schedule is complete for the start states `sts` if afterwards every thread has finished -/
def Complete (ms : List (Machine Sh σ)) (sh : Sh) (sched : List Nat) (sts : List σ) : Prop :=
  ∀ (i : Nat) (m : Machine Sh σ) (s' : σ),
    ms[i]? = some m → (runSched ms sh sched sts)[i]? = some s' → m.step sh s' = none

/-- under a complete schedule every thread ends in its sequential final state: whatever `n`
steps suffice for thread `i` to finish alone, the interleaved run leaves it exactly there -/
theorem C19_complete_sequential (ms : List (Machine Sh σ)) (sh : Sh) (sched : List Nat)
    (sts : List σ) (hc : Complete ms sh sched sts) (i : Nat) (m : Machine Sh σ) (s : σ) (n : Nat)
    (hm : ms[i]? = some m) (hs : sts[i]? = some s) (hn : m.step sh (runSeq m sh n s) = none) :
    (runSched ms sh sched sts)[i]? = some (runSeq m sh n s) := by
  have h := C19_interleave_commutes ms sh sched sts i m s hm hs
  rw [h]
  exact congrArg some (runSeq_final_unique m sh _ n s (hc i m _ hm h) hn)

/-- all complete schedules produce the same final states (every state belongs to a thread) -/
theorem C19_schedule_independent (ms : List (Machine Sh σ)) (sh : Sh) (sched1 sched2 : List Nat)
    (sts : List σ) (hlen : sts.length ≤ ms.length)
    (h1 : Complete ms sh sched1 sts) (h2 : Complete ms sh sched2 sts) :
    runSched ms sh sched1 sts = runSched ms sh sched2 sts := by
  apply List.ext_getElem?
  intro i
  by_cases hi : i < sts.length
  · have hs : sts[i]? = some sts[i] := List.getElem?_eq_getElem hi
    have hm : ms[i]? = some (ms[i]'(by omega)) := List.getElem?_eq_getElem (by omega)
    have e1 := C19_interleave_commutes ms sh sched1 sts i _ _ hm hs
    have e2 := C19_interleave_commutes ms sh sched2 sts i _ _ hm hs
    rw [e1, e2]
    exact congrArg some (runSeq_final_unique _ sh _ _ _ (h1 i _ _ hm e1) (h2 i _ _ hm e2))
  · rw [List.getElem?_eq_none (by rw [runSched_length]; omega),
      List.getElem?_eq_none (by rw [runSched_length]; omega)]

/-! ## (8) the evaluator as a thread: concurrent evaluations of one parsed program -/

theorem evalMachine_step_done (env : EvalEnv κ V) (prog : List (ETok κ)) (s : EvSt V)
    (o : Out V) (h : s.res = some o) : (evalMachine env).step prog s = none := by
  simp only [evalMachine, h]

theorem evalMachine_done_res (env : EvalEnv κ V) (prog : List (ETok κ)) (s : EvSt V)
    (h : (evalMachine env).step prog s = none) : s.res.isSome = true := by
  cases hr : s.res with
  | some o => rfl
  | none =>
    simp only [evalMachine, hr] at h
    split at h
    · exact absurd h (by simp)
    · split at h <;> exact absurd h (by simp)

/-- running alone: from program counter `pc` with stack `stk`, `prog.length - pc + 1` steps
finish with the result of the pure evaluator on the rest of the program -/
theorem evalMachine_runSeq (env : EvalEnv κ V) (prog : List (ETok κ)) :
    ∀ (k pc : Nat) (stk : List V), prog.length - pc ≤ k →
      (runSeq (evalMachine env) prog (k+1) ⟨pc, stk, none⟩).res
        = some (run env (prog.drop pc) stk) := by
  intro k
  induction k with
  | zero =>
    intro pc stk hk
    have hge : prog.length ≤ pc := by omega
    have hget : prog[pc]? = none := List.getElem?_eq_none hge
    rw [runSeq_succ]
    show (stepOrStay (evalMachine env) prog ⟨pc, stk, none⟩).res = _
    simp only [stepOrStay, evalMachine, hget]
    rw [List.drop_eq_nil_of_le hge, run_nil]
  | succ k ih =>
    intro pc stk hk
    rw [runSeq_succ]
    cases hget : prog[pc]? with
    | none =>
      have hge : prog.length ≤ pc := List.getElem?_eq_none_iff.mp hget
      have hst : stepOrStay (evalMachine env) prog ⟨pc, stk, none⟩
          = ⟨pc, stk, some (finalOut stk)⟩ := by
        simp only [stepOrStay, evalMachine, hget]
      rw [hst, runSeq_finished _ _ _ _ (evalMachine_step_done env prog _ _ rfl)]
      show some _ = _
      rw [List.drop_eq_nil_of_le hge, run_nil]
    | some t =>
      have hlt : pc < prog.length := (List.getElem?_eq_some_iff.mp hget).1
      have hdrop : prog.drop pc = t :: prog.drop (pc+1) := by
        rw [List.drop_eq_getElem_cons hlt]
        congr 1
        exact (List.getElem?_eq_some_iff.mp hget).2
      rw [hdrop, run_cons]
      cases hev : evalStep env t stk with
      | ok st' =>
        have hst : stepOrStay (evalMachine env) prog ⟨pc, stk, none⟩ = ⟨pc+1, st', none⟩ := by
          simp only [stepOrStay, evalMachine, hget, hev]
        rw [hst]
        exact ih (pc+1) st' (by omega)
      | err c =>
        have hst : stepOrStay (evalMachine env) prog ⟨pc, stk, none⟩
            = ⟨pc, stk, some (.err c)⟩ := by
          simp only [stepOrStay, evalMachine, hget, hev]
        rw [hst, runSeq_finished _ _ _ _ (evalMachine_step_done env prog _ _ rfl)]
        rfl
      | panic c =>
        have hst : stepOrStay (evalMachine env) prog ⟨pc, stk, none⟩
            = ⟨pc, stk, some (.panic c)⟩ := by
          simp only [stepOrStay, evalMachine, hget, hev]
        rw [hst, runSeq_finished _ _ _ _ (evalMachine_step_done env prog _ _ rfl)]
        rfl

/-- a thread running alone computes `evaluate env prog` -/
theorem evalMachine_sequential (env : EvalEnv κ V) (prog : List (ETok κ)) :
    (runSeq (evalMachine env) prog (prog.length + 1) EvSt.init).res = some (evaluate env prog) :=
  evalMachine_runSeq env prog prog.length 0 [] (by omega)

/-- C19, concurrency: `envs.length` threads evaluate ONE parsed program, each with its own
environment (its own variable collection) and its own stack, interleaved by an arbitrary
schedule.  Whenever thread `i` has finished, its result is `evaluate envs[i] prog` — the result
of the sequential evaluation. -/
theorem C19_concurrent_eval (envs : List (EvalEnv κ V)) (prog : List (ETok κ)) (sched : List Nat)
    (i : Nat) (env : EvalEnv κ V) (s' : EvSt V) (henv : envs[i]? = some env)
    (hs' : (runSched (envs.map evalMachine) prog sched (envs.map fun _ => EvSt.init))[i]? = some s')
    (hdone : s'.res.isSome = true) : s'.res = some (evaluate env prog) := by
  have hm : (envs.map evalMachine)[i]? = some (evalMachine env) := by
    rw [List.getElem?_map, henv]; rfl
  have hs : (envs.map fun _ => (EvSt.init : EvSt V))[i]? = some EvSt.init := by
    rw [List.getElem?_map, henv]; rfl
  have h := C19_interleave_commutes (envs.map evalMachine) prog sched _ i _ _ hm hs
  rw [h] at hs'
  have he := Option.some.inj hs'
  obtain ⟨o, ho⟩ := Option.isSome_iff_exists.mp hdone
  have hfin1 : (evalMachine env).step prog (runSeq (evalMachine env) prog (sched.count i) EvSt.init)
      = none := by rw [he]; exact evalMachine_step_done env prog s' o ho
  have hseq := evalMachine_sequential env prog
  obtain ⟨o2, ho2⟩ : ∃ o2, (runSeq (evalMachine env) prog (prog.length + 1) EvSt.init).res = some o2 :=
    ⟨_, hseq⟩
  have hfin2 := evalMachine_step_done env prog _ o2 ho2
  have := runSeq_final_unique (evalMachine env) prog _ _ EvSt.init hfin1 hfin2
  rw [← he, this]
  exact hseq

/-- … and a schedule that gives thread `i` at least `prog.length + 1` steps does finish it -/
theorem C19_concurrent_eval_enough (envs : List (EvalEnv κ V)) (prog : List (ETok κ))
    (sched : List Nat) (i : Nat) (env : EvalEnv κ V) (henv : envs[i]? = some env)
    (hn : prog.length + 1 ≤ sched.count i) :
    ((runSched (envs.map evalMachine) prog sched (envs.map fun _ => EvSt.init))[i]?).map (·.res)
      = some (some (evaluate env prog)) := by
  have hm : (envs.map evalMachine)[i]? = some (evalMachine env) := by
    rw [List.getElem?_map, henv]; rfl
  have hs : (envs.map fun _ => (EvSt.init : EvSt V))[i]? = some EvSt.init := by
    rw [List.getElem?_map, henv]; rfl
  rw [C19_interleave_commutes (envs.map evalMachine) prog sched _ i _ _ hm hs]
  have hseq := evalMachine_sequential env prog
  have hfin := evalMachine_step_done env prog _ _ hseq
  have := runSeq_stable (evalMachine env) prog (prog.length + 1) (sched.count i - (prog.length + 1))
    EvSt.init hfin
  rw [show prog.length + 1 + (sched.count i - (prog.length + 1)) = sched.count i by omega] at this
  rw [this]
  exact congrArg some hseq

end Verif

/-! ## the concrete calculator -/
namespace Verif

/-- VariableCollection.FindByName compares upper-cased names -/
def calcKeyEq (a b : List Rune) : Bool := upperStr a == upperStr b

/-- C19 for `calcEnv` (variant operations, default functions, a variable collection `vars`):
load the parsed program and the variable collection into a heap; after any sequence `jobs` of
other evaluations of the same parsed program, the heap evaluation returns the value of the pure
evaluator `evaluate (calcEnv m dec vars) p`. -/
theorem C19_calc (m : Mgr) (dec : String → Verif.V) (vars : List (List Rune × Verif.V))
    (p : List (ETok String)) (h : Heap Verif.V) (jobs : List (EvalEnv String Verif.V × VarTab)) :
    readBack (runH (calcEnv m dec vars) calcKeyEq
        (loadVars vars (loadProg (calcEnv m dec vars) p h).2).1 (loadProg (calcEnv m dec vars) p h).1 []
        (heapAfter calcKeyEq (loadProg (calcEnv m dec vars) p h).1 jobs
          (loadVars vars (loadProg (calcEnv m dec vars) p h).2).2))
      = evaluate (calcEnv m dec vars) p :=
  C19_load_eval (calcEnv m dec vars) calcKeyEq vars (fun _ => rfl) p h jobs

end Verif

/-! ## non-vacuity (kernel-evaluated) -/
namespace C19Demo
open Verif

/-- a counter that counts up to the shared limit -/
def counter : Machine Nat Nat where
  step limit s := if s < limit then some (s + 1) else none

/-- two counters, two complete schedules, the same final states = the sequential ones -/
example : runSched [counter, counter] 3 [0, 1, 0, 1, 0, 1, 0, 1] [0, 1] = [3, 3] := by decide
example : runSched [counter, counter] 3 [1, 1, 1, 0, 0, 1, 0, 0, 0] [0, 1] = [3, 3] := by decide
example : [runSeq counter 3 10 0, runSeq counter 3 10 1] = [3, 3] := by decide
/-- an incomplete schedule: thread 0 got two steps, thread 1 one step -/
example : runSched [counter, counter] 3 [0, 1, 0] [0, 1] = [runSeq counter 3 2 0, runSeq counter 3 1 1] := by
  decide

/-- natural numbers with `+`, `*`, one function `f(a, b) = a + 2 * b`; variables by exact name -/
def env (vars : List (List Rune × Nat)) : EvalEnv Nat Nat where
  ofConst n := n
  ofArgc n := n
  asArgc v := some v
  lookupVar name := (List.find? (fun e => e.1 == name) vars).map (·.2)
  hasFn n := n == [102]
  callFn _ args := match args with
    | [a, b] => .ok (a + 2 * b)
    | _ => .err "ARGS"
  binop op v w := match op with
    | .plus => .ok (v + w)
    | .star => .ok (v * w)
    | _ => .err "UNSUPPORTED"
  unop _ _ := .err "UNSUPPORTED"

def keyEq (a b : List Rune) : Bool := a == b

/-- `f(x, 3) * y` in postfix: x 3 <2> f y * -/
def prog : List (ETok Nat) :=
  [⟨.variable, [120], none, 0⟩, ⟨.constant, [], some 3, 0⟩, ⟨.constant, [], none, 2⟩,
   ⟨.function, [102], none, 0⟩, ⟨.variable, [121], none, 0⟩, ⟨.star, [], none, 0⟩]

def varsA : List (List Rune × Nat) := [([120], 1), ([121], 10)]
def varsB : List (List Rune × Nat) := [([120], 5), ([121], 2)]

/-- the heap: program constants first, then the cells of the two variable collections -/
def hProg := loadProg (env []) prog (Heap.empty : Heap Nat)
def hA := loadVars varsA hProg.2
def hB := loadVars varsB hA.2
def h0 : Heap Nat := hB.2

example : h0.cells = [3, 2, 1, 10, 5, 2] := by decide
example : evaluate (env varsA) prog = .ok 70 := by decide
example : evaluate (env varsB) prog = .ok 22 := by decide

/-- evaluation under A: result 70 in a fresh cell; two cells allocated (`f(..)` and `*`), the six
old ones untouched -/
example : runH (env varsA) keyEq hA.1 hProg.1 [] h0 = (.ok 7, ⟨[3, 2, 1, 10, 5, 2, 7, 70]⟩) := by
  decide
example : readBack (runH (env varsA) keyEq hA.1 hProg.1 [] h0) = evaluate (env varsA) prog := by
  decide
/-- A, then B, then A again on the heaps left behind: 70, 22, 70 -/
example :
    let r1 := runH (env varsA) keyEq hA.1 hProg.1 [] h0
    let r2 := runH (env varsB) keyEq hB.1 hProg.1 [] r1.2
    let r3 := runH (env varsA) keyEq hA.1 hProg.1 [] r2.2
    (readBack r1, readBack r2, readBack r3) = (.ok 70, .ok 22, .ok 70) ∧
    r3.2.cells = [3, 2, 1, 10, 5, 2, 7, 70, 11, 22, 7, 70] := by decide
/-- an error path returns the heap too: unknown variable under an empty table, nothing written -/
example : runH (env []) keyEq [] hProg.1 [] h0 = (.err "VAR_NOT_FOUND", h0) := by decide

/-- two threads (A and B) on the shared program, two different complete schedules -/
example :
    (runSched [evalMachine (env varsA), evalMachine (env varsB)] prog
      [0, 1, 0, 1, 0, 1, 0, 1, 0, 1, 0, 1, 0, 1] [EvSt.init, EvSt.init]).map (·.res)
    = [some (.ok 70), some (.ok 22)] := by decide
example :
    (runSched [evalMachine (env varsA), evalMachine (env varsB)] prog
      [1, 1, 1, 0, 0, 0, 0, 1, 1, 1, 1, 0, 0, 0] [EvSt.init, EvSt.init]).map (·.res)
    = [some (.ok 70), some (.ok 22)] := by decide

end C19Demo
