package main

import (
	"github.com/pip-services3-gox/pip-services3-expressions-gox/tokenizers"
	"github.com/pip-services3-gox/pip-services3-expressions-gox/calculator/parsers"
	"time"
	"fmt"
	"strings"
)

// C02: the parser accepts exactly the grammar.  C18 (expression part): variable discovery.

func propC02(c *Ctx) {
	// (1) exhaustive token sequences over one representative per syntactic class
	maxL := 4
	if c.Thorough {
		maxL = 5
	}
	var rec func(cur []string)
	rec = func(cur []string) {
		if len(cur) > 0 {
			runParseCase(c, strings.Join(cur, " "), fmt.Sprintf("exhaustive-len:%d", len(cur)))
		}
		if len(cur) == maxL {
			return
		}
		for _, t := range classToks {
			rec(append(cur, t.lex))
		}
	}
	rec(nil)
	c.Notes = append(c.Notes, fmt.Sprintf("exhaustive: all sequences of length <= %d over 18 token classes (constant, identifier, ( ) [ ] , + - * ^ = AND NOT IS NULL IN LIKE); generated sentences (all operators, calls, indexes, 3 parenthesisation modes, random spacing/comments/keyword case) and their token-level mutants (insert, delete, replace, swap, duplicate); oracle = membership in the expression grammar decided by an independent CFG recogniser", maxL))
	// quoted identifiers spelled like keywords, operators and punctuation, in every grammatical slot of short sentences
	for _, q := range []string{"\"and\"", "\"AND\"", "\"or\"", "\"not\"", "\"is\"", "\"null\"", "\"in\"", "\"like\"", "\"true\"", "\"FALSE\"", "\"xor\"", "\"+\"", "\"-\"", "\"(\"", "\")\"", "\",\"", "\"<=\"", "\"[\""} {
		for _, tpl := range []string{"%s", "%s + 1", "1 + %s", "1 %s 2", "a %s NULL", "a IS %s NULL", "f(1 %s 2)", "NOT %s", "%s[0]", "f(%s)", "a IS %s", "(%s)", "- %s"} {
			runParseCase(c, fmt.Sprintf(tpl, q), "quoted-identifier-like-keyword")
		}
	}
	for _, u := range []string{"?", "#", "@", "$", "~", "&", "|", ";", ":", "{", "😀"} {
		for _, tpl := range []string{"%s", "a %s + 1", "2 %s + 3", "f(%s a, 3)", "x[%s 0]", "1 + %s", "%s 1.5", "a %s 'x'", "%s TRUE", "1 %s 2 %s 3"} {
			runParseCase(c, strings.ReplaceAll(tpl, "%s", u), "foreign-symbol")
		}
	}
	// numbers that end in an incomplete exponent: the characters after the mantissa are tokens of their own (2e+x is 2 e + x,
	// no sentence), astral characters anywhere
	for _, t := range []string{"2e+x", "7E+(3)", "1.5e+ 2", "2e-x", "3E-", "2e", "2e+", "1e+5x", "2e+5", "2e-5", "1.e+x", ".5e+x", "2e + x", "2 e+x", "2e+-3", "2e++3", "x + 2e+",
		"00000000000000000042", "000000000000000000000000000007 + 1", "0000000000009223372036854775807", "00000000000000000000.5", "-00000000000000000042",
		"3.5e38", "1e39", "4e38 + 1", "1 + 1e999", "99999999999999999999", "a[99999999999999999999]", "-3.5e38",
		"\f", "\v", "\x1f", " \f ", "/* only a comment */", "/* c */ \f", "\x00", "\x01 \x02",
		"x Iſ NULL", "x iſ not null", "falſe OR x", "a lıke 'b'", "x ıs null", "x ıN (1)", "nuLL", "TRUE aNd fAlSe", "x Iſ nuLL", "not falſe", "1 ıN 2", "x \u212a", "TRU\u0395",
		"1 + 😀 2", "😀", "1 😀", "a + \U00010000", "\uffff 1", "1 \uffff + 2", "f(😀)", "'😀' + 😀"} {
		runParseCase(c, t, "incomplete-exponent / astral")
	}
	// token lists made by hand: a number token whose text is no number is no constant - the sequence is rejected with a code
	for _, tk := range []struct {
		typ  int
		text string
	}{{tokenizers.Float, "1.2.3"}, {tokenizers.Float, "x.y"}, {tokenizers.Float, ""}, {tokenizers.Float, "1,5"}, {tokenizers.Integer, "12a"}, {tokenizers.Integer, ""}, {tokenizers.Integer, "1.5"}, {tokenizers.Float, "--1"}, {tokenizers.Integer, "0x"}} {
		op := fmt.Sprintf("handtok %d %s", tk.typ, strRunes(tk.text))
		c.record(op, true)
		c.count("hand-made-number-token")
		got := safeCall(func() string {
			p := parsers.NewExpressionParser()
			err := p.ParseTokens([]*tokenizers.Token{tokenizers.NewToken(tk.typ, tk.text, 1, 1)})
			if err == nil {
				var r []string
				for _, t := range p.ResultTokens() {
					r = append(r, encETok(t))
				}
				return "accepted as " + strings.Join(r, " ")
			}
			return "err " + errCode(err)
		})
		if !strings.HasPrefix(got, "err ") || got == "err <empty-code>" {
			c.fail(Failure{Kind: "oracle", Op: op, Impl: got, Note: fmt.Sprintf("a number token with the text %q is no constant of the language: the token sequence must be rejected with an error code, it was %s", tk.text, got)})
		}
	}
	// a parser that rejected very deep inputs before accepts the next sentence like a new one
	{
		op := "deepreject"
		c.record(op, true)
		c.count("deep-rejected-history")
		note := ""
		st := safeCallT(120*time.Second, func() string {
			p := parsers.NewExpressionParser()
			for i := 0; i < 4; i++ {
				for _, deep := range []string{strings.Repeat("(", 70000), strings.Repeat("f(", 35000), "a" + strings.Repeat("[b", 35000), strings.Repeat("(", 30000) + "1 +"} {
					if err := p.ParseString(deep); err == nil {
						note = "an unclosed nesting of tens of thousands of levels was accepted"
						return ""
					}
				}
			}
			for _, e := range []string{"(1)", "MAX(1, 2)", "'abc'[1]", "((a + b) * (c - d))"} {
				if err := p.ParseString(e); err != nil {
					note = fmt.Sprintf("after 16 rejected deeply nested inputs the parser rejects %q with %s; a new parser accepts it", e, errCode(err))
					return ""
				}
			}
			return ""
		})
		if st != "" || note != "" {
			c.fail(Failure{Kind: "oracle", Op: op, Impl: st, Note: note})
		}
	}
	propScaleExpressions(c, "C02")
	// (2) generated sentences + (3) token-level mutants of any size
	g := newExGen(c)
	n := 1500
	if c.Thorough {
		n = 40000
	}
	vocab := []string{"1", "a", "(", ")", "[", "]", ",", "+", "-", "*", "/", "%", "^", "=", "<>", "!=", ">", "<", ">=", "<=", "<<", ">>", "AND", "OR", "XOR", "NOT", "IS", "IN", "NULL", "LIKE", "f", "'s'", "TRUE",
		// quoted identifiers are variables whatever they spell; string constants likewise stay constants
		"\"and\"", "\"null\"", "\"+\"", "\"true\"", "\"is\"", "\"not\"", "\",\"", "'and'", "'+'", "\"(\"",
		// characters that are not symbols of the language, before and after constants of every kind
		"?", "#", "@", "$", "~", "`", "\\", "&", "|", ";", ":", "{", "}", "😀", "§"}
	for i := 0; i < n; i++ {
		e := g.gen(1 + c.Rng.Intn(5))
		mode := c.Rng.Intn(3)
		toks := g.toks(e, 0, mode)
		expr := g.render(toks, c.Rng.Intn(2) == 0)
		o := runParseCase(c, expr, fmt.Sprintf("generated-sentence:mode%d", mode))
		// direct oracle for sentences: compiled to the post-order of the tree
		var want, vars []string
		e.postorder(&want, &vars)
		if o.status == "" && o.code == "" && strings.Join(o.result, " ") != strings.Join(want, " ") {
			c.fail(Failure{Kind: "oracle", Op: "expr " + strRunes(expr), Impl: o.implLine(),
				Note: fmt.Sprintf("%q compiled to %s, the post-order of its syntax tree is %s", expr, strings.Join(o.result, " "), strings.Join(want, " "))})
		}
		// mutants
		for m := 0; m < 4; m++ {
			mt := append([]string(nil), toks...)
			for k := 1 + c.Rng.Intn(2); k > 0 && len(mt) > 0; k-- {
				p := c.Rng.Intn(len(mt))
				switch c.Rng.Intn(5) {
				case 0:
					mt = append(mt[:p], append([]string{vocab[c.Rng.Intn(len(vocab))]}, mt[p:]...)...)
				case 1:
					mt = append(mt[:p], mt[p+1:]...)
				case 2:
					mt[p] = vocab[c.Rng.Intn(len(vocab))]
				case 3:
					q := c.Rng.Intn(len(mt))
					mt[p], mt[q] = mt[q], mt[p]
				case 4:
					mt = append(mt[:p], append([]string{mt[p]}, mt[p:]...)...)
				}
			}
			runParseCase(c, strings.Join(mt, " "), "mutant")
		}
	}
}

func init() {
	props["C02"] = propC02
	replays["C02"] = replayParse
}
