package main

import (
	"github.com/pip-services3-gox/pip-services3-expressions-gox/calculator/parsers"
	"fmt"
	"strings"

	"github.com/pip-services3-gox/pip-services3-expressions-gox/calculator"
	"github.com/pip-services3-gox/pip-services3-expressions-gox/calculator/functions"
	"github.com/pip-services3-gox/pip-services3-expressions-gox/calculator/variables"
	"github.com/pip-services3-gox/pip-services3-expressions-gox/variants"
)

// C18: variables are discovered exactly and names resolve case-insensitively; collections behave
// as ordered lists.

func runVarsCase(c *Ctx, e *ex, expr string) {
	op := "vars " + strRunes(expr)
	var want, post []string
	e.postorder(&post, &want)
	c.record(op, len(want) >= 2)
	c.count("vars-case")
	var note string
	impl := safeCall(func() string {
		calc := calculator.NewExpressionCalculator()
		// pre-existing entries (different letter case) must be kept with their values
		pre := []string{}
		if len(want) > 0 {
			w := want[len(want)-1]
			pre = append(pre, strings.ToUpper(w))
			calc.DefaultVariables().Add(variables.NewVariable(strings.ToUpper(w), variants.VariantFromInteger(77)))
		}
		if err := calc.SetExpression(expr); err != nil {
			return "err " + errCode(err)
		}
		// (1) exact discovery, once each, first-occurrence order
		got := []string{}
		p := calculatorParserNames(calc, expr)
		got = append(got, p...)
		if strings.Join(got, "\x00") != strings.Join(want, "\x00") {
			note = fmt.Sprintf("variable names %q, identifiers in variable position (first occurrence order) are %q", got, want)
		}
		// (2) automatic variables: exactly one entry per name compared case-insensitively
		all := calc.DefaultVariables().GetAll()
		seen := map[string]int{}
		for _, v := range all {
			seen[strings.ToUpper(v.Name())]++
		}
		for _, w := range want {
			if seen[strings.ToUpper(w)] != 1 && note == "" {
				note = fmt.Sprintf("default collection holds %d entries for %q", seen[strings.ToUpper(w)], w)
			}
		}
		if len(seen) != countCI(want) && note == "" {
			note = fmt.Sprintf("default collection has %d distinct names, expression has %d", len(seen), countCI(want))
		}
		for _, pn := range pre {
			v := calc.DefaultVariables().FindByName(pn)
			if (v == nil || v.Name() != pn || v.Value().Type() != variants.Integer || v.Value().AsInteger() != 77) && note == "" {
				note = "an entry that was already in the collection was not kept with its value"
			}
		}
		// (3) the same holds on a calculator with a history: the collection edited, or automatic variables
		// switched on, between two SetExpression calls with the same text
		complete := func(cl *calculator.ExpressionCalculator) string {
			sn := map[string]int{}
			for _, v := range cl.DefaultVariables().GetAll() {
				sn[strings.ToUpper(v.Name())]++
			}
			for _, w := range want {
				if sn[strings.ToUpper(w)] != 1 {
					return fmt.Sprintf("%d entries for %q", sn[strings.ToUpper(w)], w)
				}
			}
			return ""
		}
		if len(want) > 0 && note == "" {
			h1 := calculator.NewExpressionCalculator()
			h1.SetExpression(expr)
			h1.DefaultVariables().RemoveByName(want[0])
			h1.SetExpression(expr)
			if m := complete(h1); m != "" {
				note = "after SetExpression, RemoveByName(" + want[0] + ") on the default collection and SetExpression of the same text again, the default collection holds " + m
			}
			h2 := calculator.NewExpressionCalculator()
			h2.SetExpression(expr)
			h2.DefaultVariables().Clear()
			h2.SetExpression(expr)
			if m := complete(h2); m != "" && note == "" {
				note = "after SetExpression, Clear of the default collection and SetExpression of the same text again, the default collection holds " + m
			}
			h3 := calculator.NewExpressionCalculator()
			h3.SetAutoVariables(false)
			h3.SetExpression(expr)
			h3.SetAutoVariables(true)
			h3.SetExpression(expr)
			if m := complete(h3); m != "" && note == "" {
				note = "after switching automatic variables on and setting the same text again, the default collection holds " + m
			}
		}
		if len(want) > 0 && note == "" {
			// discovery happens when the expression is set: an entry the application removes afterwards stays removed,
			// and evaluating over the default collection reports it as missing
			h4 := calculator.NewExpressionCalculator()
			h4.SetExpression(expr)
			h4.DefaultVariables().RemoveByName(want[0])
			r, err := h4.Evaluate()
			if h4.DefaultVariables().FindByName(want[0]) != nil {
				note = "after RemoveByName(" + want[0] + ") on the default collection, Evaluate() put the entry back"
			} else if err == nil {
				note = "after RemoveByName(" + want[0] + ") on the default collection, Evaluate() succeeded (" + outcome(r, err) + ") although the variable does not exist"
			}
		}
		if countCI(want) >= 2 && note == "" {
			// the automatically created entries are separate cells: assigning one in place leaves the others empty
			h5 := calculator.NewExpressionCalculator()
			h5.SetExpression(expr)
			vs := h5.DefaultVariables().GetAll()
			if len(vs) >= 2 {
				vs[0].Value().SetAsInteger(5)
				for _, o := range vs[1:] {
					if o.Value().Type() != variants.Null {
						note = fmt.Sprintf("assigning the automatic variable %q in place changed the automatic variable %q", vs[0].Name(), o.Name())
						break
					}
				}
				if v := variables.NewVariable("fresh", nil); v.Value().Type() != variants.Null && note == "" {
					note = "a variable created without a value is not empty after another variable was assigned in place"
				}
			}
		}
		var names []string
		for _, v := range all {
			names = append(names, strRunes(v.Name()))
		}
		return "ok " + strings.Join(names, " ")
	})
	if strings.HasPrefix(impl, "panic:") {
		c.fail(Failure{Kind: "oracle", Op: op, Impl: impl, Note: "panicked"})
		return
	}
	if note != "" {
		c.fail(Failure{Kind: "oracle", Op: op, Impl: impl, Note: note})
	}
	// model correspondence of the variable list is part of the `parse` op (C02 stream)
	runParseCase(c, expr, "vars-parse")
}

func countCI(names []string) int {
	m := map[string]bool{}
	for _, n := range names {
		m[strings.ToUpper(n)] = true
	}
	return len(m)
}

func calculatorParserNames(calc *calculator.ExpressionCalculator, expr string) []string {
	o := runParser(expr)
	return o.vars
}

// resolution: case-insensitive, first added wins; missing names are reported by name
func runResolveCase(c *Ctx, names []string, lookup string) {
	op := fmt.Sprintf("resolve %s ? %s", strings.Join(mapStr(names, strRunes), " "), strRunes(lookup))
	c.record(op, len(names) >= 2)
	c.count("resolve-case")
	var note string
	impl := safeCall(func() string {
		vars := variables.NewVariableCollection()
		for i, n := range names {
			vars.Add(variables.NewVariable(n, variants.VariantFromInteger(i)))
		}
		want := -1
		for i, n := range names {
			if strings.ToUpper(n) == strings.ToUpper(lookup) {
				want = i
				break
			}
		}
		calc := calculator.NewExpressionCalculator()
		calc.SetAutoVariables(false)
		if err := calc.SetExpression("\"" + strings.ReplaceAll(lookup, "\"", "\"\"") + "\""); err != nil {
			return "err " + errCode(err)
		}
		r, err := calc.EvaluateUsingVariables(vars)
		if want >= 0 {
			if err != nil || r.Type() != variants.Integer || r.AsInteger() != want {
				note = fmt.Sprintf("lookup of %q must resolve to entry #%d (first added wins)", lookup, want)
			}
			return "ok"
		}
		if err == nil || errCode(err) != "VAR_NOT_FOUND" || !strings.Contains(err.Error(), lookup) {
			note = fmt.Sprintf("missing variable %q must be reported by an error naming it", lookup)
		}
		// functions likewise
		calc2 := calculator.NewExpressionCalculator()
		if err := calc2.SetExpression("nosuch_" + "fn(1)"); err == nil {
			_, e2 := calc2.Evaluate()
			if e2 == nil || errCode(e2) != "FUNC_NOT_FOUND" || !strings.Contains(e2.Error(), "nosuch_fn") {
				note = "missing function must be reported by an error naming it"
			}
		}
		return "ok"
	})
	if strings.HasPrefix(impl, "panic:") || note != "" {
		c.fail(Failure{Kind: "oracle", Op: op, Impl: impl, Note: note})
	}
}

func mapStr(xs []string, f func(string) string) []string {
	out := make([]string, len(xs))
	for i, x := range xs {
		out[i] = f(x)
	}
	return out
}

// collection operation sequences against a plain list model (both collections)
func runCollCase(c *Ctx, ops []string) {
	op := "coll " + strings.Join(ops, " ")
	c.record(op, len(ops) >= 4)
	c.count("coll-case")
	type ent struct {
		name string
		id   int
	}
	var note string
	impl := safeCall(func() string {
		vars := variables.NewVariableCollection()
		funcs := functions.NewFunctionCollection()
		var list []ent
		var outs []string
		k := 0
		find := func(n string) int {
			for i, e := range list {
				if strings.ToUpper(e.name) == strings.ToUpper(n) {
					return i
				}
			}
			return -1
		}
		for _, o := range ops {
			p := strings.SplitN(o, ":", 2)
			arg := ""
			if len(p) == 2 {
				arg = string(parseRunes(p[1]))
			}
			switch p[0] {
			case "a":
				vars.Add(variables.NewVariable(arg, variants.VariantFromInteger(k)))
				funcs.Add(functions.NewDelegatedFunction(arg, func(ps []*variants.Variant, o variants.IVariantOperations) (*variants.Variant, error) {
					return nil, nil
				}))
				list = append(list, ent{arg, k})
				k++
			case "f":
				w := find(arg)
				g := vars.FindIndexByName(arg)
				g2 := funcs.FindIndexByName(arg)
				if (g != w || g2 != w) && note == "" {
					note = fmt.Sprintf("FindIndexByName(%q) = %d / %d, list model says %d", arg, g, g2, w)
				}
				outs = append(outs, fmt.Sprint(g))
			case "l":
				v := vars.Locate(arg)
				if find(arg) < 0 {
					list = append(list, ent{arg, k})
					v.SetValue(variants.VariantFromInteger(k))
					funcs.Add(functions.NewDelegatedFunction(arg, func(ps []*variants.Variant, o variants.IVariantOperations) (*variants.Variant, error) {
						return nil, nil
					}))
				}
				k++
			case "r":
				var i int
				fmt.Sscanf(p[1], "%d", &i)
				if i < len(list) {
					vars.Remove(i)
					funcs.Remove(i)
					list = append(list[:i:i], list[i+1:]...)
				}
			case "n":
				vars.RemoveByName(arg)
				funcs.RemoveByName(arg)
				if i := find(arg); i >= 0 {
					list = append(list[:i:i], list[i+1:]...)
				}
			case "c":
				vars.Clear()
				funcs.Clear()
				list = nil
			}
			if vars.Length() != len(list) || funcs.Length() != len(list) {
				if note == "" {
					note = fmt.Sprintf("after %s: length %d / %d, list model %d", o, vars.Length(), funcs.Length(), len(list))
				}
			}
		}
		var names []string
		for i, v := range vars.GetAll() {
			names = append(names, fmt.Sprintf("%s=%d", strRunes(v.Name()), v.Value().AsInteger()))
			if i < len(list) && (v.Name() != list[i].name || v.Value().AsInteger() != list[i].id || funcs.Get(i).Name() != list[i].name) && note == "" {
				note = fmt.Sprintf("entry %d is %q, list model has %q", i, v.Name(), list[i].name)
			}
		}
		return strings.Join(outs, " ") + " | " + strings.Join(names, " ")
	})
	if strings.HasPrefix(impl, "panic:") {
		c.fail(Failure{Kind: "oracle", Op: op, Impl: impl, Note: "collection operation panicked"})
		return
	}
	if note != "" {
		c.fail(Failure{Kind: "oracle", Op: op, Impl: impl, Note: note})
		return
	}
	c.model(op, impl, "model")
}

// the variable collection is an input of every evaluation: a variable removed and another one of the same name (or another
// name) added - the number of entries unchanged - is seen by the next evaluation, as by a new calculator
func propVariableReplacement(c *Ctx) {
	for _, sc := range []struct{ expr, rem, add string }{{"a + b", "a", "a"}, {"a + b", "a", "A"}, {"a * 10 + b", "b", "B"}, {"a + b", "b", "c"}, {"a + b + a", "a", "a"}, {"Max(a, b)", "a", "a"}} {
		for _, def := range []bool{false, true} {
			op := fmt.Sprintf("varrepl %s %s %s %v", strRunes(sc.expr), sc.rem, sc.add, def)
			c.record(op, true)
			c.count("variable-replaced")
			note := ""
			st := safeCall(func() string {
				calc := calculator.NewExpressionCalculator()
				calc.SetAutoVariables(false)
				calc.SetExpression(sc.expr)
				coll := variables.NewVariableCollection()
				if def {
					coll = calc.DefaultVariables().(*variables.VariableCollection)
				}
				coll.Add(variables.NewVariable("a", variants.VariantFromInteger(1)))
				coll.Add(variables.NewVariable("b", variants.VariantFromInteger(2)))
				ev := func(cc *calculator.ExpressionCalculator, vs *variables.VariableCollection) string {
					if def {
						return outcome(cc.Evaluate())
					}
					return outcome(cc.EvaluateUsingVariables(vs))
				}
				ev(calc, coll)
				coll.RemoveByName(sc.rem)
				coll.Add(variables.NewVariable(sc.add, variants.VariantFromInteger(100)))
				got := ev(calc, coll)
				fresh := calculator.NewExpressionCalculator()
				fresh.SetAutoVariables(false)
				fresh.SetExpression(sc.expr)
				fcoll := variables.NewVariableCollection()
				if def {
					fcoll = fresh.DefaultVariables().(*variables.VariableCollection)
				}
				for _, v := range coll.GetAll() {
					fcoll.Add(variables.NewVariable(v.Name(), v.Value().Clone()))
				}
				if want := ev(fresh, fcoll); got != want {
					note = fmt.Sprintf("%q: after %q was removed and %q = 100 added (the collection has as many entries as before) the calculator gives %s, a new calculator with that collection gives %s", sc.expr, sc.rem, sc.add, got, want)
				}
				return ""
			})
			if st != "" || note != "" {
				c.fail(Failure{Kind: "oracle", Op: op, Impl: st, Note: note})
			}
		}
	}
}

// many distinct variables with early ones recurring late; the name list of an EARLIER expression, still held by the caller,
// after the parser went on to another expression
func propManyVariables(c *Ctx) {
	for _, n := range []int{63, 64, 65, 66, 130, 300} {
		var parts, want []string
		for i := 0; i < n; i++ {
			parts = append(parts, fmt.Sprintf("v%d", i))
			want = append(want, fmt.Sprintf("v%d", i))
		}
		parts = append(parts, "v3", "v0", fmt.Sprintf("v%d", n-1), "v64", "v1")
		if n <= 64 {
			want = append(want, "v64")
		}
		expr := strings.Join(parts, " + ")
		op := fmt.Sprintf("manyvars %d", n)
		c.record(op, true)
		c.count("many-variables")
		note := ""
		st := safeCall(func() string {
			p := parsers.NewExpressionParser()
			if err := p.ParseString(expr); err != nil {
				return "rejected " + errCode(err)
			}
			got := p.VariableNames()
			if strings.Join(got, " ") != strings.Join(want, " ") {
				note = fmt.Sprintf("an expression over %d distinct variables with early ones repeated at the end reports %d names (%s …), expected %d, each once in order of first occurrence", n, len(got), strings.Join(got[max(0, len(got)-6):], " "), len(want))
				return ""
			}
			held := append([]string(nil), got...)
			p.ParseString("zz + yy * zz")
			if strings.Join(got, " ") != strings.Join(held, " ") {
				note = fmt.Sprintf("the name list returned for the first expression reads %q … after the parser parsed another expression", strings.Join(got[:3], " "))
				return ""
			}
			if second := strings.Join(p.VariableNames(), " "); second != "zz yy" {
				note = "the second expression reports the variables " + second
			}
			return ""
		})
		if st != "" || note != "" {
			c.fail(Failure{Kind: "oracle", Op: op, Impl: st, Note: note})
		}
	}
}

func propC18(c *Ctx) {
	propScaleCollections(c)
	propVariableReplacement(c)
	propManyVariables(c)
	propScaleExpressions(c, "C18")
	g := newExGen(c)
	g.vars = []string{"a", "A", "b", "xyz", "XyZ", "_v1", "\"my var\"", "\"MY VAR\"", "é1", "É1", "iſ_x", "IS_X", "\"a\"", "Max", "null_1", "\"a[\"", "\"a{\"", "\"f@\"", "\"f`\""}
	g.consts = append(g.consts, "'a'", "'xyz'")
	g.funcs = []string{"Max", "a", "xyz", "If"}
	n := 1500
	if c.Thorough {
		n = 30000
	}
	for i := 0; i < n; i++ {
		e := g.gen(1 + c.Rng.Intn(5))
		expr := g.render(g.toks(e, 0, c.Rng.Intn(3)), c.Rng.Intn(2) == 0)
		runVarsCase(c, e, expr)
	}
	// names that differ in one bit of a character that is no letter are different names
	namePool := []string{"a", "A", "b", "B", "ab", "Ab", "é", "É", "x y", "iſ", "IS", "K", "k", "ı", "I", "i", "a[", "a{", "f@", "f`", "x^", "x~", "n]", "n}", "q\\", "q|", "t\x00", "t "}
	for i := 0; i < n; i++ {
		k := 1 + c.Rng.Intn(5)
		names := make([]string, k)
		for j := range names {
			names[j] = namePool[c.Rng.Intn(len(namePool))]
		}
		runResolveCase(c, names, namePool[c.Rng.Intn(len(namePool))])
		m := 2 + c.Rng.Intn(10)
		if c.Thorough {
			m = 2 + c.Rng.Intn(30)
		}
		ops := make([]string, m)
		cnt := 0
		for j := range ops {
			nm := strRunes(namePool[c.Rng.Intn(len(namePool))])
			switch c.Rng.Intn(9) {
			case 0, 1, 2:
				ops[j] = "a:" + nm
				cnt++
			case 3, 4:
				ops[j] = "f:" + nm
			case 5:
				ops[j] = "l:" + nm
				cnt++
			case 6:
				ops[j] = fmt.Sprintf("r:%d", c.Rng.Intn(cnt+1))
			case 7:
				ops[j] = "n:" + nm
			default:
				ops[j] = "f:" + nm
				if c.Rng.Intn(6) == 0 {
					ops[j] = "c"
				}
			}
		}
		runCollCase(c, ops)
	}
	if mustacheVars != nil {
		mustacheVars(c)
	}
	c.Notes = append(c.Notes, fmt.Sprintf("%d generated expressions with identifiers in every syntactic position (variables, function names, string constants, quoted identifiers, the same name in different letter case, Unicode case pairs) checked for exact discovery + automatic variables with a pre-existing differently-cased entry; %d resolution cases (first added wins, missing names reported); %d random collection operation sequences (add, find, locate, remove by index/name, clear) on VariableCollection and FunctionCollection against a list model", n, n, n))
}

var mustacheVars func(c *Ctx)

func replayC18(c *Ctx, op string) {
	if strings.HasPrefix(op, "manyvars ") {
		propManyVariables(c)
		return
	}
	if strings.HasPrefix(op, "varrepl ") {
		propVariableReplacement(c)
		return
	}
	f := strings.Fields(op)
	switch f[0] {
	case "coll":
		runCollCase(c, f[1:])
	case "expr":
		runParseCase(c, string(parseRunes(f[1])), "replay")
	case "vars":
		runParseCase(c, string(parseRunes(f[1])), "replay")
	}
}

func init() {
	props["C18"] = propC18
	replays["C18"] = replayC18
}
