package main

import (
	"runtime"
	"sync"
	"fmt"
	"strings"

	ctok "github.com/pip-services3-gox/pip-services3-expressions-gox/calculator/tokenizers"
	"github.com/pip-services3-gox/pip-services3-expressions-gox/csv"
	rio "github.com/pip-services3-gox/pip-services3-expressions-gox/io"
	"github.com/pip-services3-gox/pip-services3-expressions-gox/tokenizers"
	"github.com/pip-services3-gox/pip-services3-expressions-gox/tokenizers/generic"
)

// C14: quote encoding and decoding are inverse and total for all Unicode text.

// one state object per kind for the whole run: the states must not remember anything between
// calls (a tokenizer shares one quote state between all its quote characters)
var sharedQuoteStates = map[string]tokenizers.IQuoteState{}

func quoteState(st string) tokenizers.IQuoteState {
	if q, ok := sharedQuoteStates[st]; ok {
		return q
	}
	q := newQuoteState(st)
	sharedQuoteStates[st] = q
	return q
}

func newQuoteState(st string) tokenizers.IQuoteState {
	switch st {
	case "g":
		return generic.NewGenericQuoteState()
	case "e":
		return ctok.NewExpressionQuoteState()
	}
	return csv.NewCsvQuoteState()
}

func runQuoteCase(c *Ctx, st string, q rune, what string, text []rune) {
	op := fmt.Sprintf("quote %s %d %s %s", st, q, what, runesStr(text))
	qs := quoteState(st)
	var oracle string
	impl := safeCall(func() string {
		switch what {
		case "enc":
			enc := qs.EncodeString(string(text), q)
			dec := qs.DecodeString(enc, q)
			if dec != string(text) {
				oracle = fmt.Sprintf("decode(encode(%q)) = %q", string(text), dec)
			}
			if st != "g" {
				// the encoded form placed in a stream (followed by a non-quote) is read back as ONE token
				stream := enc + "x"
				sc := rio.NewStringScanner(stream)
				t := qs.NextToken(sc, nil)
				if t.Value() != enc && oracle == "" {
					oracle = fmt.Sprintf("encoded form %q read back as token %q", enc, t.Value())
				} else if qs.DecodeString(t.Value(), q) != string(text) && oracle == "" {
					oracle = "decoded token value differs from the original"
				}
			}
			if st != "g" && oracle == "" && q < 0xffff && !(st == "c" && q == ',') && !(st == "e" && q == '+') {
				// … and through the tokenizer that owns such a state, configured with q as its quote character
				kind := fmt.Sprintf("c:44:%d", q)
				tail := ",x"
				if st == "e" {
					kind = fmt.Sprintf("Ke|D:%d:%d:q", q, q)
					tail = "+x"
				}
				for _, o := range []int{0, 64} {
					toks, status := tokenizeImpl(kind, o, enc+tail)
					want := enc
					if o == 64 {
						want = string(text)
					}
					if status != "" || len(toks) < 2 || string(toks[0].Val) != want {
						got := status
						if len(toks) > 0 {
							got = string(toks[0].Val)
						}
						oracle = fmt.Sprintf("the encoded form %q followed by %q, read by a tokenizer with quote character %q (decodeStrings=%v): first token %q, expected %q", enc, tail, string(q), o == 64, got, want)
						break
					}
				}
			}
			// what a state answers does not depend on what it was asked before: the SAME string encoded and then decoded,
			// decoded and then encoded, on this long-lived state and on a new one
			fresh := newQuoteState(st)
			e1 := qs.EncodeString(string(text), q)
			d1 := qs.DecodeString(string(text), q)
			e2 := qs.EncodeString(string(text), q)
			if oracle == "" && (e1 != enc || e2 != enc || d1 != fresh.DecodeString(string(text), q)) {
				oracle = fmt.Sprintf("encode / decode / encode of the same string %q on one state gives %q, %q, %q; a new state gives %q, %q, %q", string(text), e1, d1, e2, enc, fresh.DecodeString(string(text), q), enc)
			}
			d3 := qs.DecodeString(enc, q)
			e3 := qs.EncodeString(enc, q)
			if oracle == "" && (d3 != string(text) || e3 != newQuoteState(st).EncodeString(enc, q)) {
				oracle = fmt.Sprintf("decode then encode of %q on one state gives %q, %q; expected %q, %q", enc, d3, e3, string(text), newQuoteState(st).EncodeString(enc, q))
			}
			return strRunes(enc)
		case "dec":
			return strRunes(qs.DecodeString(string(text), q))
		case "tok":
			sc := rio.NewStringScanner(string(text))
			t := qs.NextToken(sc, nil)
			return fmt.Sprintf("%d:%s:%d:%d %d", t.Type(), strRunes(t.Value()), t.Line(), t.Column(), sc.Peek())
		}
		return "?"
	})
	hasQ := false
	for _, r := range text {
		if r == q {
			hasQ = true
		}
	}
	c.record(op, hasQ)
	c.count("state:" + st)
	c.count("what:" + what)
	if strings.HasPrefix(impl, "panic:") {
		c.fail(Failure{Kind: "oracle", Op: op, Impl: impl, Note: "quote state panicked"})
		return
	}
	if oracle != "" {
		c.fail(Failure{Kind: "oracle", Op: op, Impl: impl, Note: oracle})
		return
	}
	c.model(op, impl, "model")
}

// tens of millions of DIFFERENT literals of one length decoded on ONE long-lived state (from all cores): each answer is the
// literal without its quotes - whatever the state remembered of the literals before (a lossy memo keyed by a 32-bit
// digest shows up after a few million)
func propC14Bulk(c *Ctx, st string, n int) {
	op := fmt.Sprintf("quotebulk %s %d", st, n)
	c.record(op, true)
	c.count("bulk-decodes-on-one-state")
	qs := quoteState(st)
	workers := runtime.NumCPU()
	bad := make(chan string, workers)
	var wg sync.WaitGroup
	for w := 0; w < workers; w++ {
		wg.Add(1)
		go func(w int) {
			defer wg.Done()
			defer func() {
				if r := recover(); r != nil {
					bad <- fmt.Sprint("panic: ", r)
				}
			}()
			buf := make([]byte, 0, 32)
			for i := 0; i < n/workers; i++ {
				buf = buf[:0]
				buf = append(buf, '\'', 'o', 'r', 'd', 'e', 'r', ' ')
				// 12 letters drawn from a counter-based generator: neighbours in time differ in every position
				x := uint64(w)<<40 + uint64(i) + 0x9e3779b97f4a7c15
				x ^= x >> 30
				x *= 0xbf58476d1ce4e5b9
				x ^= x >> 27
				x *= 0x94d049bb133111eb
				x ^= x >> 31
				for k := 0; k < 12; k++ {
					buf = append(buf, byte('a'+x%26))
					x /= 26
				}
				buf = append(buf, '\'')
				lit := string(buf)
				if got := qs.DecodeString(lit, '\''); got != lit[1:len(lit)-1] {
					bad <- fmt.Sprintf("literal #%d of worker %d: %s decodes to %q", i, w, lit, got)
					return
				}
			}
		}(w)
	}
	wg.Wait()
	close(bad)
	if msg, ok := <-bad; ok {
		c.fail(Failure{Kind: "oracle", Op: op, Impl: msg, Note: fmt.Sprintf("%d different literals decoded on one state: %s", n, msg)})
	}
}

func propC14(c *Ctx) {
	bulk := 1 << 25
	if c.Thorough {
		bulk = 1 << 27
	}
	for _, st := range []string{"e", "c", "g"} {
		propC14Bulk(c, st, bulk)
	}
	states := []string{"g", "e", "c"}
	quotes := []rune{'\'', '"', 0xab, 0x201c, 0x100, 0xff, 0x101, 0x1f600, 0xfffd, '`', '\\', ' ', '\t', 'a', '0', ',', 0x80, 0x7f, 0x81, 0x7ff, 0x800, '%', '$', '{', '*', '.', '^', '[', '(', '|', '?', '&', '#'}
	maxL := 4
	if c.Thorough {
		maxL = 6
	}
	for _, st := range states {
		for _, q := range quotes {
			other := rune('"')
			if q == '"' {
				other = '\''
			}
			alpha := []rune{q, other, 'a', 0xe9, 0x4e16, 0x1f600, ' ', '\n'}
			if !c.Thorough && q != '\'' && q != '"' {
				alpha = []rune{q, other, 'a', 0x4e16}
			}
			sst, qq := st, q
			enumStrings(alpha, maxL, func(s []rune) {
				t := append([]rune(nil), s...)
				runQuoteCase(c, sst, qq, "enc", t)
				runQuoteCase(c, sst, qq, "dec", t)
				if len(t) > 0 && t[0] == qq {
					runQuoteCase(c, sst, qq, "tok", t)
				}
			})
		}
	}
	c.Notes = append(c.Notes, fmt.Sprintf("exhaustive: all strings of length <= %d over {quote, other quote, ASCII, 2-/3-/4-byte rune, space, newline} x 4 quote characters x 3 quote states, for encode+decode+stream read-back, raw decode (lone quotes, unterminated literals) and state tokenization", maxL))
	// characters with a special role in some encoding layer: U+FFFD (what a decoder substitutes for malformed bytes, but also an
	// ordinary character), NUL, DEL, BOM, non-characters, the ends of the planes, the first runes of each UTF-8 length
	for _, sp := range []rune{0xfffd, 0, 0x7f, 0xfeff, 0xfffe, 0xffff, 0x10ffff, 0xd7ff, 0xe000, 0x80, 0xff, 0x100, 0x7ff, 0x800, 0x10000, '\r', '\t', '\\'} {
		for _, st := range states {
			for _, q := range []rune{'\'', '"', 0xab} {
				sst, qq := st, q
				enumStrings([]rune{q, 'a', sp}, 3, func(s []rune) {
					t := append([]rune(nil), s...)
					runQuoteCase(c, sst, qq, "enc", t)
					runQuoteCase(c, sst, qq, "dec", t)
				})
			}
		}
	}
	// alternate the quote character from call to call on the shared state objects
	for _, st := range states {
		for _, t := range [][]rune{[]rune("it's"), []rune("a\"b"), []rune("''a'"), []rune("x"), {}, []rune("\"\""), []rune("'\"'")} {
			for _, q := range []rune{'\'', '"', '\'', 0xab, '"'} {
				runQuoteCase(c, st, q, "enc", t)
				runQuoteCase(c, st, q, "dec", append(append([]rune{q}, t...), q))
			}
		}
	}
	n := 3000
	if c.Thorough {
		n = 60000
	}
	for i := 0; i < n; i++ {
		st := states[c.Rng.Intn(3)]
		q := quotes[c.Rng.Intn(len(quotes))]
		t := randInput(c, 30)
		for j := range t {
			if c.Rng.Intn(5) == 0 {
				t[j] = q
			}
		}
		runQuoteCase(c, st, q, []string{"enc", "dec"}[c.Rng.Intn(2)], t)
		if len(t) > 0 {
			t[0] = q
			runQuoteCase(c, st, q, "tok", t)
		}
	}
}

func replayC14(c *Ctx, op string) {
	f := strings.Fields(op)
	if len(f) == 3 && f[0] == "quotebulk" {
		var n int
		fmt.Sscanf(f[2], "%d", &n)
		propC14Bulk(c, f[1], 2*n) // a statistical finding: the replay decodes twice as many
		return
	}
	if len(f) != 5 {
		return
	}
	var q int
	fmt.Sscanf(f[2], "%d", &q)
	runQuoteCase(c, f[1], rune(q), f[3], parseRunes(f[4]))
}

func init() {
	props["C14"] = propC14
	replays["C14"] = replayC14
}
