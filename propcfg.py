"""Per-property configuration used by ./check (what is proved where, what the streams cover)."""

COMMON_TB = [
    "Lean 4.33 kernel (lake build); thorough tier additionally re-checks the .olean with leanchecker",
    "standard axioms only where #print axioms shows them: propext, Classical.choice, Quot.sound; no sorry/admit/axiom/native_decide/bv_decide (audited on every run)",
    "the hand-written Lean model is tied to /repo by the differential correspondence run of this check (harness/ calls the real Go code in-process and compares with the compiled model `vdrv`); the Go harness, its generators and the Lean compiler that produces vdrv are trusted",
]

COMMON_ASSUME = [
    "Go strings enter the model as []rune (valid UTF-8 / scalar values); 64-bit int platform",
    "theorems are about the Lean model; correspondence of model and code is checked by execution on the generated cases, not proved",
]

PROPS = {
    "C11": {
        "module": "Verif.Props.C11",
        "rule": "exhaustive: every content up to length 4 (thorough 5) over {x,LF,CR} x every sequence of 6 (thorough 7) operations over {read,unread,unreadMany 2,reset}, observing line/column/peek/peekLine/peekColumn after every operation; plus random contents up to length 40 over a wider alphabet with up to 60 operations incl. peeks. A case is non-trivial when the content has a line break and the sequence un-reads; distinct = distinct op lines.",
        "explanation": "Theorems: for every content and every operation history line/column are the function lcUpTo(position) (C11_line_column_position_only), read/unread/unreadMany/reset/peek specs, unread∘read = id, peeked line/column = those after the next read. The stream compares Go's StringScanner with the model after every operation and with a fresh forward scan (direct oracle).",
        "trusted_base": COMMON_TB + ["modelled: io/StringScanner.go statement by statement (position shifted by one); the recomputation loop of Unread is modelled by the forward-scan function lcUpTo"],
        "assumptions": COMMON_ASSUME,
    },
    "C17": {
        "module": "Verif.Props.C17",
        "rule": "exhaustive: every history of length <= 2 (thorough 3) over 88 operations (28 endpoint pairs from {0,'a',0xFF,0x100,0x101,0x2000,0xFFFE} x refs {A,B,nil}; AddDefaultInterval x 3 refs; Clear), each probed at all boundary values +-1, -1, 0xFFFF, 0x10000; plus random histories of length 3..8 with random endpoints up to 0x11000 (incl. ranges on which AddInterval panics). Returned references are compared by identity. Non-trivial = history of at least two operations.",
        "explanation": "Theorem C17_lookup_latest: for every history and every character, Lookup = reference of the most recent covering registration after the last Clear (spec), uniformly below/above U+0100; corollaries none_disables, latest_wins. The stream compares CharReferenceMap with the model and the Lean Spec and with an independent Go oracle.",
        "trusted_base": COMMON_TB + ["modelled: tokenizers/utilities/CharReferenceMap.go and CharReferenceInterval.go; the 256-entry table is a List, AddInterval's loop is structural recursion"],
        "assumptions": COMMON_ASSUME + ["AddInterval panics (start > end, or start > 0xFFFE with end >= 0xFFFF) are outside the property; the model flags them and the stream checks the implementation panics on exactly those"],
    },
    "C14": {
        "module": "Verif.Props.C14",
        "rule": "exhaustive: every string of length <= 4 (thorough 6) over {quote, other quote, ASCII letter, 2-/3-/4-byte rune, space, newline} x 4 quote characters (', \", U+00AB, U+201C) x 3 quote states, each as (a) encode then decode then stream read-back, (b) raw decode of arbitrary text (lone quotes, unterminated literals), (c) state tokenization of text starting with the quote; plus random strings up to length 30. Non-trivial = the text contains the quote character.",
        "explanation": "Theorems: decode(encode v) = v for the generic and the escaping codec for all v and q (C14_decode_encode_generic/_esc, via undoubleQ_doubleQ); decode leaves non-literals unchanged and never lengthens (totality is by construction: the model functions are total and use no partial indexing); C14_token_roundtrip: for the expression/CSV state the encoded form followed by a non-quote is read back as exactly one token with that value, consuming exactly its length, and decodes to the original. The stream compares EncodeString/DecodeString/NextToken of the three Go quote states with the model and checks the round trip directly on the implementation.",
        "trusted_base": COMMON_TB + ["modelled: GenericQuoteState, ExpressionQuoteState, CsvQuoteState (Encode/Decode/NextToken); strings.ReplaceAll on a one-rune / two-rune pattern is modelled as the rune-list functions doubleQ / undoubleQ"],
        "assumptions": COMMON_ASSUME,
    },
    "C16": {
        "module": "Verif.Props.C16",
        "rule": "exhaustive: every ordered selection of <= 2 (thorough 3) of the 39 strings of length 1..3 over {<,=,>} registered with distinct token types x inputs of length <= 4 over the same alphabet (quick samples the length-4 inputs), each tree read twice (the D03 pattern); plus random tables of 1..7 symbols of length 1..4 over a wider alphabet incl. non-Latin runes and re-registrations, with inputs built from the registered symbols, each tree read three times. Non-trivial = at least one multi-character symbol and an input of length >= 2.",
        "explanation": "Theorems: trie invariant build_inv (a path is a node iff it is a non-empty prefix of a registered symbol; valid iff returnable; type = latest registration, Symbol for an implicit first rune); C16_next_is_longest: for every registration list (types != Unknown) and every scanner position with a next character the symbol state returns the longest returnable prefix of the remaining input (else the single next character) with its type, consuming exactly its length; corollaries no_unregistered_prefix, multichar_is_registered, add_monotone, add_keeps_node. The stream compares SymbolRootNode (Add/NextToken on the real trie) with the model and with an independent longest-prefix oracle, and checks repeated reads give the same tokens.",
        "trusted_base": COMMON_TB + ["modelled: SymbolNode/SymbolRootNode as a finite map path -> (valid, tokenType); the per-node CharReferenceMap of children is abstracted to map lookup (its behaviour is C17); symbol runes are assumed in 1..U+FFFE (Add panics above, drops U+0000 from the text)"],
        "assumptions": COMMON_ASSUME + ["registered token types differ from Unknown (with Unknown the first-rune node is re-typed by a later registration: shown necessary by the proof, documented in DESIGN.md)"],
    },
    "C04": {
        "module": "Verif.Props.C04",
        "rule": "exhaustive: every string of length <= 3 (thorough 4) over the 24-character class alphabet (one representative per character class that selects a different state or branch: letter, digit, . - / * e + both quotes < > = ! { } # , space CR LF Latin-1 BMP astral) and every string of length 4 (thorough 5) over a 16-character sub-alphabet, for the generic, expression, mustache and csv tokenizers with all options off; plus random character soup and kind-specific lexeme soup up to length 60 for 9 tokenizer configurations (6 csv separator/quote configurations). Oracle: values concatenate to the input, no empty token but the final Eof. Non-trivial = input of length >= 2.",
        "explanation": "Theorems (generic, expression and every csv configuration): C04_lossless — with all options off the token values concatenate to exactly the input, the last token is the end-of-input marker and every other token is non-empty; rawSpec_lossless — the segmentation is contiguous. They rest on per-state segment lemmas (each state moves exactly a contiguous slice across the cursor, incl. the number/comment fall-back paths and the EOF slot) and on RawContract for the four configurations. The mustache override is covered by the correspondence stream and the direct oracle only (stated in DESIGN.md).",
        "trusted_base": COMMON_TB + ["modelled: AbstractTokenizer.ReadNextToken/TokenizeBuffer, all generic/expression/csv/mustache states, the four tokenizer constructors (dispatch tables written out in Model/Tokenizer.lean and checked against the code by the differential run)"],
        "assumptions": COMMON_ASSUME + ["the theorem for the mustache tokenizer is not proved (its ReadNextToken override is modelled and compared, not covered by C04_lossless)"],
    },
    "C12": {
        "module": "Verif.Props.C12",
        "rule": "exhaustive: every string of length <= 3 (thorough 4) over a 13-character alphabet containing LF and CR x 7 option sets x 4 tokenizers; random multi-line character soup and lexeme soup up to length 50 x all 128 option sets. Oracle: every token reports the forward-scan line/column of the first character of the raw token it stems from (start offsets obtained by aligning with the implementation's own option-free stream); the Eof token sits one column past the last character. Non-trivial = multi-line input with more than two raw tokens.",
        "explanation": "Theorems (generic, expression, every csv configuration, all 128 option sets): C12_positions — every token of tokenize cfg o c is the Eof token (at line of the whole input, column+1) or reports posOf c r.start = lcUpTo c (r.start+1) for a whole raw token r of the input; C12_eof_position, C12_eof_last. Built on C11 (line/column = function of the position), the per-state position lemmas and the factorisation of C15.",
        "trusted_base": COMMON_TB + ["modelled: as for C04; positions are those of the Scanner model proved position-only in C11"],
        "assumptions": COMMON_ASSUME + ["mustache tokenizer: correspondence and oracle only"],
    },
    "C15": {
        "module": "Verif.Props.C15",
        "rule": "exhaustive: every string of length <= 2 (thorough 3) over the 24-character class alphabet x all 128 option sets x 4 tokenizers; random character soup and kind-specific lexeme soup (multi-character symbols, comments, quoted literals, mustache tags, unknown characters) up to length 40 x all 128 option sets. Oracle: the stream under option set o equals the implementation's own option-free stream with whole tokens dropped/rewritten (using the implementation's own DecodeString), plus the per-option postconditions. Non-trivial = some option on and more than two raw tokens.",
        "explanation": "Theorems (generic, expression, every csv configuration): C15_options_factor — for all 128 option sets and every input, tokenize cfg o c = postSpec applied to the option-free segmentation rawSpec (+ Eof unless skipEof): enabling an option never changes how the text is cut; corollaries no_unknown, no_comment, no_eof_when_skipEof, no_adjacent_ws, ws_single_space, numbers_unified, off_untouched. The mustache tokenizer (mode tracking repaired in D23) is covered by the correspondence stream and oracle only.",
        "trusted_base": COMMON_TB + ["modelled: as for C04, including the seven options, HasNextToken/NextToken caching and LastTokenType"],
        "assumptions": COMMON_ASSUME + ["mustache tokenizer: correspondence and oracle only"],
    },
    "C01": {
        "module": "Verif.Props.C01",
        "rule": "random syntax trees (depth 1..5, thorough up to 10) over all 21 binary operators, prefix NOT, unary sign, IS [NOT] NULL, calls of arity 0..3 and indexes, each printed with minimal, random and full parenthesisation, random spacing/comments/keyword case, evaluated under random assignments of integer/long/float/double/string/boolean/null/array/time values with both managers; plus the complete operator-pair matrix `7 op1 2 op2 3` in both nestings (441 x 2). Oracle: direct evaluation of the abstract tree in Go with the manager's own operations. The compiled program (ResultTokens) and the assignment are also evaluated by the Lean evaluator model. Non-trivial = program of at least three tokens.",
        "explanation": "Theorems: run_postorder / C01_calc_eq_tree — for every well-levelled tree and every environment (any variant operations, variables, functions) the stack machine run on the tree's post-order returns exactly the value (or the first error) of the direct tree evaluation, operands in written order, call arguments in written order; C01_parens_irrelevant, C01_unary_plus_irrelevant; C01_left_assoc / C01_right_nesting_needs_parens / C01_precedence_table (the level of every operator, pairwise disjoint); C01_no_stack_panic. Together with C02_complete (the parser compiles a sentence to the post-order of its tree) this gives calculator = tree value at token level; whitespace/comments/keyword case are the tokenizer's business (C04/C13/C15 + correspondence).",
        "trusted_base": COMMON_TB + ["modelled: ExpressionCalculator.EvaluateUsingVariablesAndFunctions and CalculationStack as a stack machine parametric in the variant operations (Model/ExprEval.lean); its instantiation with the value/function models (Model/Calc.lean) is what the driver runs", "host terms (math.Pow, float formatting/parsing, clock) are not compared: an evaluation whose model result depends on one is counted as host-dependent"],
        "assumptions": COMMON_ASSUME + ["evalTree is the reference semantics of a syntax tree (Spec/ExprGrammar.lean); LIKE / NOT LIKE have no variant operation and evaluate to an INTERNAL error on both sides"],
    },
    "C02": {
        "module": "Verif.Props.C02",
        "rule": "exhaustive: every token sequence of length <= 4 (thorough 5) over 18 token classes (constant, identifier, ( ) [ ] , + - * ^ = AND NOT IS NULL IN LIKE) rendered as an expression string; generated sentences (all operators, calls, indexes; 3 parenthesisation modes; random spacing/comments/keyword case) and 4 token-level mutants each (insert, delete, replace, swap, duplicate over the full operator vocabulary). Oracle: the implementation accepts iff the sequence of its own initial-token types is a sentence of the expression grammar, decided by an independent memoised CFG recogniser; accepted generated sentences must compile to the post-order of their tree. The initial tokens are also parsed by the Lean parser model (accept/reject for rejections, exact program + variable list for acceptances). Non-trivial = at least three tokens.",
        "explanation": "Theorems: C02_complete_bound — every sentence (token sequence of a well-levelled tree) is accepted with the driver's fuel and compiled to the tree's post-order with the variables in order of first occurrence; C02_no_silent_skip — whatever is accepted IS the token sequence of a well-levelled tree whose post-order is the output (so nothing is skipped, substituted or ignored); C02_accepts_iff; C02_fuel_suffices (termination); C02_reject_has_code; matchTypes_spec (the multi-token matcher, D09).",
        "trusted_base": COMMON_TB + ["modelled: ExpressionParser.performSyntaxAnalysis… (14 mutually recursive functions over the remaining token list), matchTokensWithTypes; completeLexicalAnalysis is exercised by the harness (initial tokens are taken from the implementation), the tokenizer by C04/C13"],
        "assumptions": COMMON_ASSUME + ["the property fixes that a rejection carries an error code, not which one: for rejected inputs only accept/reject is compared with the model"],
    },
    "C06": {
        "module": "Verif.Props.C06",
        "rule": "operator x type x type matrix: 19 binary operators x 2 managers x ordered pairs drawn from ~130 boundary values of 10 variant types (integers incl. min/max/2^53+1, floats incl. NaN/Inf/-0, strings incl. empty/non-ASCII/numeric text, booleans, null, time spans, date-times, arrays incl. empty and nested) — a seeded tenth of the pairs in the quick tier, all of them in the thorough tier — plus Not/Negative on every value. Direct oracles on the implementation: exactly one of result/error and no panic, Null propagation, comparison consistency (a<=b iff a<b or a=b; a<>b iff not a=b; a<b iff b>a at equal types), '^' = math.Pow of the converted operands. Every case is also evaluated by the Lean value model (floats compared as bit patterns, NaN canonicalised; results depending on host text formatting/parsing are produced as host terms and not compared). Non-trivial = both operands non-null.",
        "explanation": "Theorems (for every value, both managers): C06_never_panics; C06_null_propagates (+ equality/inequality/NOT cases); C06_second_converted (the second operand is converted to the first operand's type, then the same-type table applies); C06_host_arithmetic / C06_host_comparisons (the table IS the host arithmetic of each type: Int64 wrap-around, truncated division, IEEE float operators, list append, lexicographic string order, saturating date difference); C06_result_type; comparison consistency C06_more_is_flipped_less, C06_lessEqual_iff, C06_moreEqual_iff, C06_notEqual_is_not_equal (strLt proved a strict total order; float <= excluded because Lean's float operations are opaque); C06_div_by_zero, C06_negative_shift, C06_index_out_of_range, C06_ok_only_if_supported / C06_supported_is_defined; list semantics C06_getElement_list, C06_in_list_iff. '^' is the host function math.Pow applied to the converted operands (checked by the oracle).",
        "trusted_base": COMMON_TB + ["modelled: AbstractVariantOperations (21 operators), TypeSafe/TypeUnsafe Convert; Integer/Long = Int64, Float/Double = Lean Float32/Float (same IEEE operations as Go, verified bit-exactly by the stream); host functions (float formatting/parsing, date parsing, math.Pow) appear as symbolic host terms"],
        "assumptions": COMMON_ASSUME + ["Object values are outside the supported value set and not generated"],
    },
    "C07": {
        "module": "Verif.Props.C07",
        "rule": "every value of the boundary pool (10 types) plus 6 x 200 (thorough 20000) random integers/longs/doubles/floats/decimal strings/time spans x all 11 target types x both managers; round-trip chains integer<->long, integer/long<->double within 2^53, integer/long<->time span (ms), integer/long<->date-time (s), integer/long/boolean<->string, float->double, boolean<->numeric checked directly on the implementation; type-safe results compared with the whitelist and with the type-unsafe manager. Non-trivial = target differs from the source type and is neither Object nor Null.",
        "explanation": "Theorems: C07_convert_type (a successful conversion has exactly the requested type), C07_convert_id / C07_convert_null; C07_safe_whitelist, C07_safe_rejects (every other conversion is an error), C07_safe_agrees; round trips C07_int_long_int, C07_long_int_long, C07_bool_int/long/str_bool, C07_int/long_timespan (|n| <= 9223372036854, bound shown tight), C07_int/long_datetime, C07_int_str_int / C07_long_str_long for ALL 64-bit integers (parseDecInt (showInt i) = i, via Nat.toDigits lemmas; needs the D28 repair). Round trips through float/double are stated as host-operation facts only (Lean floats are opaque) and carried by the stream.",
        "trusted_base": COMMON_TB + ["modelled: TypeUnsafeVariantOperations.Convert + convertFromX, TypeSafeVariantOperations.Convert, the commons-gox converters they call for strings (decimal integers exactly; everything else as host terms)"],
        "assumptions": COMMON_ASSUME,
    },
}


# Tie A theorems (Verif/Props/TieA.lean) and inventories each property depends on
_TOK_TIES = ["generic_dispatch_tie", "expression_dispatch_tie", "mustache_dispatch_tie", "csv_tie", "wordChars_tie",
             "cfg_from_facts", "tokenTypes_tie", "charmap_tie"]
_TIES = {
    "C01": ["levelOps_tie", "matchPatterns_tie", "evalDispatch_tie", "etOp_tie", "exprTokenTypes_tie", "operators_tie", "keywords_tie"],
    "C02": ["levelOps_tie", "matchPatterns_tie", "exprTokenTypes_tie", "operators_tie"],
    "C03": ["*"],
    "C04": _TOK_TIES, "C05": _TOK_TIES, "C12": _TOK_TIES, "C15": _TOK_TIES,
    "C13": _TOK_TIES + ["keywords_tie", "upperToAscii_tie"],
    "C09": ["csv_tie", "tokenTypes_tie", "charmap_tie", "decode_tie"],
    "C16": ["generic_dispatch_tie", "expression_dispatch_tie", "mustache_dispatch_tie", "csv_tie", "tokenTypes_tie", "charmap_tie"],
    "C17": ["charmap_tie"],
    "C14": ["decode_tie"],
    "C06": ["variantTypes_tie"], "C07": ["variantTypes_tie"], "C20": ["variantTypes_tie"],
    "C08": ["fnNames_tie", "fnCalculators_tie", "variantTypes_tie"],
    "C10": ["mustacheTypes_tie", "mustache_dispatch_tie", "tokenTypes_tie"],
    "C18": ["keywords_tie", "fnNames_tie", "exprTokenTypes_tie", "mustacheTypes_tie"],
    "C19": ["evalDispatch_tie", "etOp_tie"],
}
_INVENTORIES = {"C03": ["panic_sites"], "C19": ["write_effects"]}
for _k, _v in PROPS.items():
    _v["ties"] = _TIES.get(_k, [])
    _v["inventories"] = _INVENTORIES.get(_k, [])
