/-
C01 at token level (Props/C01.lean), numeric constants (Props/C01Lit.lean) and at text level
(Props/C01Text.lean: the whole pipeline from the characters of a rendered tree to its value).
-/
import Verif.Props.C01
import Verif.Props.C01Text
import Verif.Props.C03Text
import Verif.Props.ClauseExamples
