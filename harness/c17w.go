package main

import (
	"fmt"
	"strconv"
	"strings"

	ctok "github.com/pip-services3-gox/pip-services3-expressions-gox/calculator/tokenizers"
	"github.com/pip-services3-gox/pip-services3-expressions-gox/csv"
	rio "github.com/pip-services3-gox/pip-services3-expressions-gox/io"
	"github.com/pip-services3-gox/pip-services3-expressions-gox/tokenizers"
	"github.com/pip-services3-gox/pip-services3-expressions-gox/tokenizers/generic"
)

// C17 at the level of the states that own a character map: the word-character map of every word state (generic, expression,
// csv) and the whitespace map of the whitespace state answer with the latest covering registration; what the constructor
// registered counts as the earliest registrations.
// op: wchars <gw|ew|cw|gb> <lo:hi:0|1 | C>~… <probe>

type wcOp struct {
	lo, hi int
	en     bool
	clear  bool
}

func (o wcOp) String() string {
	if o.clear {
		return "C"
	}
	e := 0
	if o.en {
		e = 1
	}
	return fmt.Sprintf("%d:%d:%d", o.lo, o.hi, e)
}

type charClassState interface {
	NextToken(scanner rio.IScanner, tokenizer tokenizers.ITokenizer) *tokenizers.Token
}

func newClassState(kind string) charClassState {
	switch kind {
	case "gw":
		return generic.NewGenericWordState()
	case "ew":
		return ctok.NewExpressionWordState()
	case "cw":
		return csv.NewCsvWordState([]rune{','}, []rune{'"'})
	}
	return generic.NewGenericWhitespaceState()
}

func applyWc(st charClassState, o wcOp) {
	switch s := st.(type) {
	case interface {
		SetWordChars(rune, rune, bool)
		ClearWordChars()
	}:
		if o.clear {
			s.ClearWordChars()
		} else {
			s.SetWordChars(rune(o.lo), rune(o.hi), o.en)
		}
	case interface {
		SetWhitespaceChars(rune, rune, bool)
		ClearWhitespaceChars()
	}:
		if o.clear {
			s.ClearWhitespaceChars()
		} else {
			s.SetWhitespaceChars(rune(o.lo), rune(o.hi), o.en)
		}
	}
}

// does the state accept the character as one of its class? (a one-character content: the token is that character or empty)
func accepts(st charClassState, ch rune) bool {
	t := st.NextToken(rio.NewStringScanner(string(ch)), nil)
	return t != nil && t.Value() == string(ch)
}

// … and as a LATER character of a token: after `lead` (a character the state accepts), is ch still part of the token?
func acceptsAfter(st charClassState, lead, ch rune) bool {
	t := st.NextToken(rio.NewStringScanner(string([]rune{lead, ch, lead})), nil)
	return t != nil && strings.HasPrefix(t.Value(), string([]rune{lead, ch}))
}

func runWcCase(c *Ctx, kind string, ops []wcOp, probe rune) {
	ss := make([]string, len(ops))
	for i, o := range ops {
		ss[i] = o.String()
	}
	op := fmt.Sprintf("wchars %s %s %d", kind, strings.Join(ss, "~"), probe)
	c.record(op, len(ops) >= 2)
	c.count("class-state:" + kind)
	var got, want bool
	positional := ""
	st := safeCall(func() string {
		s := newClassState(kind)
		for _, o := range ops {
			applyWc(s, o)
		}
		got = accepts(s, probe)
		// the same answer for a later character of a token, after a character the configured state accepts
		for _, lead := range []rune{'a', ' ', 'Z', '5'} {
			if lead != probe && accepts(s, lead) {
				if after := acceptsAfter(s, lead, probe); after != got {
					positional = fmt.Sprintf("as the first character of a token U+%04X is accepted: %v; directly after %q: %v", probe, got, string(lead), after)
				}
				break
			}
		}
		want = accepts(newClassState(kind), probe) // what the constructor registered
		for _, o := range ops {
			if o.clear {
				want = false
			} else if o.lo <= int(probe) && int(probe) <= o.hi {
				want = o.en
			}
		}
		return ""
	})
	if st != "" {
		c.fail(Failure{Kind: "oracle", Op: op, Impl: st, Note: "a character-class state must not panic"})
		return
	}
	if got != want {
		c.fail(Failure{Kind: "oracle", Op: op, Impl: fmt.Sprint(got), Note: fmt.Sprintf("after %s the state %s answers %v for U+%04X; the latest covering registration says %v", strings.Join(ss, " "), kind, got, probe, want)})
	} else if positional != "" {
		c.fail(Failure{Kind: "oracle", Op: op, Impl: fmt.Sprint(got), Note: fmt.Sprintf("after %s the state %s: %s - the character map alone decides", strings.Join(ss, " "), kind, positional)})
	}
}

func propClassStates(c *Ctx) {
	hist := [][]wcOp{
		{{lo: 0, hi: 0x7f, en: true}}, {{lo: 9, hi: 13, en: true}}, {{lo: 0, hi: 0xfffe, en: true}}, {{lo: 10, hi: 10, en: true}}, {{lo: 13, hi: 13, en: true}, {lo: 32, hi: 32, en: true}},
		{{lo: 0, hi: 0xff, en: false}, {lo: 10, hi: 13, en: true}}, {{clear: true}, {lo: 0, hi: 0x20, en: true}}, {{lo: 'a', hi: 'z', en: false}, {lo: 'm', hi: 'm', en: true}},
		{{lo: 0x100, hi: 0xfffe, en: false}, {lo: 0x400, hi: 0x4ff, en: true}, {lo: 0x410, hi: 0x41f, en: false}}, {{lo: 0, hi: 0xfffe, en: true}, {clear: true}},
		{{lo: 44, hi: 44, en: true}, {lo: 34, hi: 34, en: true}}, {{lo: 0xff, hi: 0x100, en: false}}, {{lo: 0x100, hi: 0x100, en: false}, {lo: 0xff, hi: 0xff, en: false}},
	}
	hist = append(hist, []wcOp{{lo: 0x3b1, hi: 0x3c9, en: true}, {lo: 0x3c9, hi: 0x3c9, en: false}}, []wcOp{{clear: true}, {lo: 0x3b1, hi: 0x3c9, en: true}, {lo: 0x3c9, hi: 0x3d0, en: false}, {lo: 0x3b0, hi: 0x3b1, en: false}},
		[]wcOp{{clear: true}, {lo: 0x61, hi: 0x7a, en: true}, {lo: 0x7a, hi: 0x7a, en: false}, {lo: 0x60, hi: 0x61, en: false}})
	hist = append(hist, []wcOp{{lo: 0x400, hi: 0x4ff, en: false}, {lo: 0x370, hi: 0x3ff, en: true}}, []wcOp{{lo: 0x400, hi: 0x4ff, en: false}, {lo: 0x500, hi: 0x52f, en: true}, {lo: 0x3ff, hi: 0x400, en: true}},
		[]wcOp{{lo: 0x100, hi: 0xfffe, en: true}, {lo: 0x400, hi: 0x4ff, en: false}, {lo: 0x100, hi: 0x3ff, en: true}, {lo: 0x500, hi: 0xfffe, en: true}})
	hist = append(hist, []wcOp{{lo: 0x300, hi: 0x36f, en: false}}, []wcOp{{lo: 0x300, hi: 0x36f, en: false}, {lo: 0x301, hi: 0x301, en: true}}, []wcOp{{lo: 0x200b, hi: 0x200f, en: false}, {lo: 0xfe00, hi: 0xfe0f, en: false}})
	probes := []rune{9, 10, 13, 32, 44, 34, 'a', 'm', 'z', '-', '_', '0', 0xe9, 0xff, 0x100, 0x101, 0x300, 0x301, 0x302, 0x36f, 0x3b0, 0x3b1, 0x3b2, 0x3c8, 0x3c9, 0x3ca, 0x3d0, 0x3ff, 0x60, 0x61, 0x62, 0x79, 0x7a, 0x7b, 0x400, 0x415, 0x420, 0x4ff, 0x500, 0x200d, 0xfe0f, 0xfffe}
	for _, k := range []string{"gw", "ew", "cw", "gb"} {
		for _, h := range hist {
			for _, p := range probes {
				runWcCase(c, k, h, p)
			}
		}
	}
	n := 300
	if c.Thorough {
		n = 20000
	}
	for i := 0; i < n; i++ {
		k := []string{"gw", "ew", "cw", "gb"}[c.Rng.Intn(4)]
		var h []wcOp
		for j := 1 + c.Rng.Intn(5); j > 0; j-- {
			r := cfgRanges[c.Rng.Intn(len(cfgRanges))]
			hi := r[1]
			if hi > 0xfffe {
				hi = 0xfffe
			}
			if c.Rng.Intn(12) == 0 {
				h = append(h, wcOp{clear: true})
			} else {
				h = append(h, wcOp{lo: r[0], hi: hi, en: c.Rng.Intn(2) == 0})
			}
		}
		for _, o := range h {
			for _, p := range []int{o.lo, o.hi, o.lo - 1, o.hi + 1, (o.lo + o.hi) / 2, 10, 13} {
				if !o.clear && p >= 0 && p <= 0xfffe {
					runWcCase(c, k, h, rune(p))
				}
			}
		}
	}
	c.Notes = append(c.Notes, "character-class states (generic / expression / csv word state, whitespace state): histories of SetWordChars / ClearWordChars resp. SetWhitespaceChars / ClearWhitespaceChars, every probe answered by the latest covering registration (the constructor's registrations first)")
}

func replayWc(c *Ctx, op string) bool {
	f := strings.Fields(op)
	if len(f) != 4 || f[0] != "wchars" {
		return false
	}
	var ops []wcOp
	for _, s := range strings.Split(f[2], "~") {
		if s == "C" {
			ops = append(ops, wcOp{clear: true})
			continue
		}
		p := strings.Split(s, ":")
		if len(p) != 3 {
			return true
		}
		lo, _ := strconv.Atoi(p[0])
		hi, _ := strconv.Atoi(p[1])
		ops = append(ops, wcOp{lo: lo, hi: hi, en: p[2] == "1"})
	}
	pr, _ := strconv.Atoi(f[3])
	runWcCase(c, f[1], ops, rune(pr))
	return true
}
