/-
Pointer-level model of variants/Variant.go for C20: variant objects are heap cells, an array
payload is a list of references to element objects.  This makes the sharing the library has by
design (Assign / SetAsObject(*Variant) / SetAsArray copy the LIST, not the element objects)
and the isolation it promises (Clone shares nothing; indexed growth pads with fresh objects)
expressible, so that in-place mutation of an element through the pointer `GetByIndex` hands out
can be part of the streams.  After the `fix:` repairs D26, D27 and the deep Clone.
-/
import Verif.Model.Variant

namespace Verif

/-- a variant object: a scalar (non-array) value, or an array of references to element objects -/
inductive HCell where
  | scalar (v : V)
  | arr (elems : List Nat)

structure VHeap where
  cells : List HCell

namespace VHeap

def alloc (h : VHeap) (c : HCell) : VHeap × Nat := (⟨h.cells ++ [c]⟩, h.cells.length)

def write (h : VHeap) (r : Nat) (c : HCell) : VHeap := ⟨h.cells.set r c⟩

def cell (h : VHeap) (r : Nat) : HCell := h.cells.getD r (.scalar .null)

mutual
/-- allocate fresh objects for a (deep) value; returns the cell for the value itself -/
def build (h : VHeap) : V → VHeap × HCell
  | .array es =>
    let r := buildList h es
    (r.1, .arr r.2)
  | v => (h, .scalar v)
def buildList (h : VHeap) : List V → VHeap × List Nat
  | [] => (h, [])
  | e :: es =>
    let r1 := build h e
    let a := r1.1.alloc r1.2
    let r2 := buildList a.1 es
    (r2.1, a.2 :: r2.2)
end

/-- allocate a fresh object holding the deep value `v` -/
def allocV (h : VHeap) (v : V) : VHeap × Nat :=
  let r := build h v
  r.1.alloc r.2

/-- deep value of an object (fuel bounds the nesting depth; cyclic arrays are not generated) -/
def read (h : VHeap) : Nat → Nat → V
  | 0, _ => .null
  | f+1, r =>
    match h.cell r with
    | .scalar v => v
    | .arr es => .array (es.map (read h f))

/-- pad a reference list with fresh Null objects up to length `n` -/
def pad (h : VHeap) (es : List Nat) : Nat → VHeap × List Nat
  | 0 => (h, es)
  | k+1 =>
    let a := h.alloc (.scalar .null)
    pad a.1 (es ++ [a.2]) k

/-- `SetLength` on the object `r`; `none` = Go panics -/
def setLength (h : VHeap) (r : Nat) (n : Nat) : Option VHeap :=
  match h.cell r with
  | .arr es =>
    let p := pad h es (n - es.length)
    some (p.1.write r (.arr p.2))
  | _ => none

/-- `SetByIndex(i, e)` with a fresh element object for the deep value `e` -/
def setByIndex (h : VHeap) (r : Nat) (i : Int) (e : V) : Option VHeap :=
  match h.cell r with
  | .arr es =>
    if i < 0 then none
    else
      let k := i.toNat
      let p := pad h es (k + 1 - es.length)
      let a := p.1.allocV e
      some (a.1.write r (.arr (p.2.set k a.2)))
  | _ => none

/-- reference of element `i`; `none` = Go panics -/
def elemRef (h : VHeap) (r : Nat) (i : Int) : Option Nat :=
  match h.cell r with
  | .arr es => if i < 0 then none else es[i.toNat]?
  | _ => none

/-- `Assign(src)` into the existing object `dst`: type and payload copied, an array payload as
an own list of the SAME element objects -/
def assign (h : VHeap) (dst src : Nat) : VHeap := h.write dst (h.cell src)

/-- in-place `elem.Assign(v)` on element `i` of object `r` for a deep value `v` -/
def mutElem (h : VHeap) (r : Nat) (i : Int) (v : V) : Option VHeap :=
  match elemRef h r i with
  | some er =>
    let b := build h v
    some (b.1.write er b.2)
  | none => none

/-- `Clone`: a fresh object with fresh copies of all element objects (deep) -/
def clone (h : VHeap) (fuel : Nat) (r : Nat) : VHeap × Nat := h.allocV (h.read fuel r)

end VHeap
end Verif
