package main

import (
	"fmt"
	"regexp"
	"strconv"
	"strings"
	"time"

	"github.com/pip-services3-gox/pip-services3-expressions-gox/calculator"
	ctok "github.com/pip-services3-gox/pip-services3-expressions-gox/calculator/tokenizers"
	"github.com/pip-services3-gox/pip-services3-expressions-gox/mustache"
	mtok "github.com/pip-services3-gox/pip-services3-expressions-gox/mustache/tokenizers"
	"github.com/pip-services3-gox/pip-services3-expressions-gox/tokenizers"
)

// C12, last sentence: positions quoted in syntax-error messages point at a token of the input.  The message of every
// rejected expression / template that quotes a position ("… at line L and column C") is compared with the positions of
// the tokens of that text (all options off): (L, C) must be the position of one of them.

var errPosRe = regexp.MustCompile(`at line (-?\d+) and column (-?\d+)`)

func runErrPosCase(c *Ctx, what string, text string) {
	op := fmt.Sprintf("errpos %s %s", what, strRunes(text))
	var msg string
	st := safeCallT(5*time.Second, func() string {
		var err error
		if what == "e" {
			err = calculator.NewExpressionCalculator().SetExpression(text)
		} else {
			err = mustache.NewMustacheTemplate().SetTemplate(text)
		}
		if err != nil {
			msg = err.Error()
		}
		return ""
	})
	m := errPosRe.FindStringSubmatch(msg)
	c.record(op, m != nil)
	if st != "" || m == nil {
		c.count("errpos:no-position-quoted")
		return
	}
	c.count("errpos:position-quoted")
	line, _ := strconv.Atoi(m[1])
	col, _ := strconv.Atoi(m[2])
	var t tokenizers.ITokenizer
	if what == "e" {
		t = ctok.NewExpressionTokenizer()
	} else {
		t = mtok.NewMustacheTokenizer()
	}
	setOpts(t, 0)
	var toks []tk
	safeCallT(5*time.Second, func() string { toks = conv(t.TokenizeBuffer(strings.Trim(text, " \t\r\n"))); return "" })
	// the parsers trim the text first: positions are those within the trimmed text
	var where []string
	for _, k := range toks {
		if k.Line == line && k.Col == col {
			return
		}
		where = append(where, fmt.Sprintf("%d:%d", k.Line, k.Col))
	}
	c.fail(Failure{Kind: "oracle", Op: op, Impl: msg, Note: fmt.Sprintf("the error %q quotes position %d:%d, but no token of the text starts there (tokens start at %s)", msg, line, col, strings.Join(where, " "))})
}

func propErrorPositions(c *Ctx) {
	bad := []string{"a +", "(a", "a b", "a ]", "?", "4e38", "-4e38", "99999999999999999999", "a IS", "f(1,", "1 +* 2", "x[1", "NOT", "a IN", "'abc", "1 2", "a + 1e999", "f(1 2)", "a[1 2]", "a NOT b", ")", "1 + ?"}
	pre := []string{"", "   ", "x +\n", "x +\n  ", "x\n+\r\n  y *\n\t", "/* c\n c */ 1 +\n      ", "1 + 2 +\n\n\n "}
	for _, p := range pre {
		for _, b := range bad {
			runErrPosCase(c, "e", p+b)
			runErrPosCase(c, "e", p+b+"\n + 1")
		}
	}
	tbad := []string{"{{a", "{{#a}}x", "x{{/a}}", "{{#a}}x{{/b}}", "{{a}}}", "{{{a}}", "{{/}}", "{{}}", "{{a b}}", "{{#if}}", "{{^}}x"}
	tpre := []string{"", "text ", "line one\nline two ", "a\r\nb\n  {{x}} ", "{{#s}}\n  in "}
	for _, p := range tpre {
		for _, b := range tbad {
			runErrPosCase(c, "m", p+b)
			runErrPosCase(c, "m", p+b+"\n tail {{y}}")
		}
	}
	c.Notes = append(c.Notes, "error positions: 22 kinds of rejected expressions and 11 kinds of rejected templates behind 7 / 5 multi-line prefixes; every position quoted in an error message must be the start of a token of the text")
}

func replayErrPos(c *Ctx, op string) bool {
	f := strings.Fields(op)
	if len(f) != 3 || f[0] != "errpos" {
		return false
	}
	runErrPosCase(c, f[1], string(parseRunes(f[2])))
	return true
}
