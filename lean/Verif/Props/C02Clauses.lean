/-
C02, the minor clauses of the statement, each as a theorem of its own (round 7 of the seeded changes asked for
them): a rejection CARRIES an error code; only the EMPTY token sequence is the empty expression — a non-empty
sequence that holds no expression token (the parser is handed a whitespace token, say) is rejected.
-/
import Verif.Props.C02
import Verif.Model.Pipeline

namespace Verif

/-- every rejection carries a code, and the code is never the empty string nor the model's fuel marker -/
theorem C02_rejection_carries_code (toks : List Tok) (c : String)
    (h : (performParsing toks).code = some c) (hf : c ≠ "OUT_OF_FUEL") : c ≠ "" := by
  unfold ParseOutcome.code at h
  split at h
  · cases h
  · rename_i e _
    injection h with h
    subst h
    cases e <;> decide
  · rename_i e _
    injection h with h
    subst h
    cases e <;> first | decide | exact absurd rfl hf

/-- the empty token sequence is the empty expression -/
theorem C02_empty_sequence_accepted : performParsing [] = .ok [] [] := rfl

/-- a non-empty token sequence whose tokens are all skipped by the lexical analysis (whitespace tokens) is no
sentence: it is rejected with UNEXPECTED_END — it is NOT taken for the empty expression -/
theorem C02_blank_sequence_rejected (toks : List Tok) (hne : toks ≠ [])
    (hb : lexAnalysis toks = .ok []) : performParsing toks = .synErr .unexpectedEnd := by
  unfold performParsing
  have : toks.isEmpty = false := by cases toks <;> simp_all
  simp only [this, Bool.false_eq_true, if_false, hb]
  rfl

/-- in particular a sequence of whitespace tokens -/
theorem C02_whitespace_only_rejected (toks : List Tok) (hne : toks ≠ [])
    (hw : ∀ t ∈ toks, t.typ = TT.whitespace) : performParsing toks = .synErr .unexpectedEnd := by
  apply C02_blank_sequence_rejected toks hne
  clear hne
  induction toks with
  | nil => rfl
  | cons t ts ih =>
    have ht : t.typ = TT.whitespace := hw t (List.mem_cons_self ..)
    have hts : ∀ x ∈ ts, x.typ = TT.whitespace := fun x hx => hw x (List.mem_cons_of_mem _ hx)
    unfold lexAnalysis
    have hl : lexTok t = .ok none := by
      unfold lexTok
      simp [ht]
    rw [hl]
    exact ih hts

/-- Non-vacuity: the token list of the text "\f" (one whitespace token) -/
example : performParsing [⟨TT.whitespace, [12], 1, 1⟩] = .synErr .unexpectedEnd :=
  C02_whitespace_only_rejected _ (by simp) (by intro t ht; simp at ht; subst ht; rfl)

end Verif
