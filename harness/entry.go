package main

import (
	"fmt"
	"github.com/pip-services3-gox/pip-services3-expressions-gox/variants"
	"strings"
	"time"

	"github.com/pip-services3-gox/pip-services3-expressions-gox/calculator"
	"github.com/pip-services3-gox/pip-services3-expressions-gox/calculator/functions"
	"github.com/pip-services3-gox/pip-services3-expressions-gox/calculator/parsers"
	ctok "github.com/pip-services3-gox/pip-services3-expressions-gox/calculator/tokenizers"
	"github.com/pip-services3-gox/pip-services3-expressions-gox/calculator/variables"
	"github.com/pip-services3-gox/pip-services3-expressions-gox/mustache"
	mparsers "github.com/pip-services3-gox/pip-services3-expressions-gox/mustache/parsers"
	mtok "github.com/pip-services3-gox/pip-services3-expressions-gox/mustache/tokenizers"
	"github.com/pip-services3-gox/pip-services3-expressions-gox/tokenizers"
)

// The properties speak about what the library computes, not about one entry point: every public way of
// asking the same question must give the same answer.  These passes run a sample of the cases of the
// tokenizer, parser, calculator and template streams through the other entry points and compare with
// the main one (which is the one compared with the model and the oracles).

func valuesOf(ts []tk) string {
	p := make([]string, len(ts))
	for i, t := range ts {
		p[i] = runesStr(t.Val)
	}
	return strings.Join(p, " ")
}

// tokapi <kind> <opts> <runes>
func checkTokEntryPoints(c *Ctx, kind string, opts int, input []rune, main []tk) {
	op := fmt.Sprintf("tokapi %s %d %s", kind, opts, runesStr(input))
	c.count("entry-points:tokenizer")
	var note string
	st := safeCallT(5*time.Second, func() string {
		in := string(input)
		// TokenizeStream
		t1 := newTokenizer(kind)
		setOpts(t1, opts)
		if got := showTks(conv(t1.TokenizeStream(newScanner(in)))); got != showTks(main) {
			note = "TokenizeStream gives " + got + ", TokenizeBuffer " + showTks(main)
			return ""
		}
		// ...ToStrings
		t2 := newTokenizer(kind)
		setOpts(t2, opts)
		vs := t2.TokenizeBufferToStrings(in)
		t3 := newTokenizer(kind)
		setOpts(t3, opts)
		vs2 := t3.TokenizeStreamToStrings(newScanner(in))
		want := make([]string, len(main))
		for i, t := range main {
			want[i] = string(t.Val)
		}
		if strings.Join(vs, "\x00") != strings.Join(want, "\x00") || len(vs) != len(want) {
			note = fmt.Sprintf("TokenizeBufferToStrings gives %q, the token values are %q", vs, want)
			return ""
		}
		if strings.Join(vs2, "\x00") != strings.Join(want, "\x00") || len(vs2) != len(want) {
			note = fmt.Sprintf("TokenizeStreamToStrings gives %q, the token values are %q", vs2, want)
			return ""
		}
		// explicit iteration
		t4 := newTokenizer(kind)
		setOpts(t4, opts)
		t4.SetReader(newScanner(in))
		var it []*tokenizers.Token
		for n := 0; t4.HasNextToken() && n < len(input)+8; n++ {
			it = append(it, t4.NextToken())
		}
		if got := showTks(conv(it)); got != showTks(main) {
			note = "the HasNextToken/NextToken loop gives " + got + ", TokenizeBuffer " + showTks(main)
		}
		return ""
	})
	if st != "" || note != "" {
		c.fail(Failure{Kind: "oracle", Op: op, Impl: st, Note: "entry points disagree: " + note})
	}
}

func exprTokens(expr string) []*tokenizers.Token {
	expr = strings.Trim(expr, " \t\r\n")
	if expr == "" {
		return []*tokenizers.Token{}
	}
	t := ctok.NewExpressionTokenizer()
	t.SetSkipWhitespaces(true)
	t.SetSkipComments(true)
	t.SetSkipEof(true)
	t.SetDecodeStrings(true)
	return t.TokenizeBuffer(expr)
}

// parseapi <runes>: ParseTokens / SetOriginalTokens on the tokens ParseString would produce
func checkParseEntryPoints(c *Ctx, expr string, o parseOut) {
	if o.status != "" {
		return
	}
	op := "parseapi " + strRunes(expr)
	c.count("entry-points:parser")
	want := o.reuseLine()
	var note string
	st := safeCallT(5*time.Second, func() string {
		toks := exprTokens(expr)
		p := parsers.NewExpressionParser()
		got := func(err error) string {
			if err != nil {
				return "err " + errCode(err)
			}
			var res []string
			for _, t := range p.ResultTokens() {
				res = append(res, encETok(t))
			}
			return "ok " + strings.Join(res, " ") + " ; " + strings.Join(p.VariableNames(), ",")
		}
		if g := got(p.ParseTokens(toks)); g != want {
			note = "ParseTokens answers " + g + ", ParseString " + want
			return ""
		}
		if len(p.OriginalTokens()) != len(toks) {
			note = fmt.Sprintf("OriginalTokens after ParseTokens has %d tokens, %d were given", len(p.OriginalTokens()), len(toks))
			return ""
		}
		p = parsers.NewExpressionParser()
		if g := got(p.SetOriginalTokens(toks)); g != want {
			note = "SetOriginalTokens answers " + g + ", ParseString " + want
			return ""
		}
		p = parsers.NewExpressionParser()
		if g := got(p.SetExpression(expr)); g != want {
			note = "SetExpression answers " + g + ", ParseString " + want
		}
		return ""
	})
	if st != "" || note != "" {
		c.fail(Failure{Kind: "oracle", Op: op, Impl: st, Note: "entry points disagree: " + note})
	}
}

// evalapi <m> <runes> ; binds: the other ways of evaluating the same expression under the same values
func checkEvalEntryPoints(c *Ctx, m string, expr string, binds []binding, main string) {
	if strings.HasPrefix(main, "parse-err") || main == "hang" || strings.HasPrefix(main, "panic:") {
		return
	}
	op := strings.TrimSpace(fmt.Sprintf("evalapi %s %s ; %s", m, strRunes(expr), bindsStr(binds)))
	c.count("entry-points:calculator")
	var note string
	st := safeCallT(5*time.Second, func() string {
		mk := func() *variables.VariableCollection {
			vars := variables.NewVariableCollection()
			for _, b := range binds {
				vars.Add(variables.NewVariable(b.name, b.val))
			}
			return vars
		}
		// (a) tokens instead of text
		c1 := calculator.NewExpressionCalculator()
		c1.SetVariantOperations(mgrOf(m))
		c1.SetOriginalTokens(exprTokens(expr))
		if g := outcome(c1.EvaluateUsingVariables(mk())); g != main {
			note = "SetOriginalTokens + EvaluateUsingVariables gives " + g + ", SetExpression + EvaluateUsingVariables " + main
			return ""
		}
		// (b) caller-supplied function collection equal to the default one
		c2 := calculator.NewExpressionCalculator()
		c2.SetVariantOperations(mgrOf(m))
		c2.SetExpression(expr)
		if g := outcome(c2.EvaluateUsingVariablesAndFunctions(mk(), functions.NewDefaultFunctionCollection())); g != main {
			note = "EvaluateUsingVariablesAndFunctions with a default function collection gives " + g + ", EvaluateUsingVariables " + main
			return ""
		}
		// (b') the same calculator object again with another function collection: every default function
		// wrapped (same results, calls counted).  The supplied collection must be the one that is called.
		calls := 0
		wrapped := functions.NewFunctionCollection()
		for _, f := range functions.NewDefaultFunctionCollection().GetAll() {
			inner := f
			wrapped.Add(functions.NewDelegatedFunction(inner.Name(), func(params []*variants.Variant, ops variants.IVariantOperations) (*variants.Variant, error) {
				calls++
				return inner.Calculate(params, ops)
			}))
		}
		nFn := 0
		for _, t := range c2.ResultTokens() {
			if t.Type() == parsers.Function {
				nFn++
			}
		}
		if g := outcome(c2.EvaluateUsingVariablesAndFunctions(mk(), wrapped)); g != main && !strings.Contains(main, "H") {
			note = "evaluating the same parsed expression again with an equivalent caller-supplied function collection gives " + g + " instead of " + main
			return ""
		}
		if strings.HasPrefix(main, "ok") && calls != nFn {
			note = fmt.Sprintf("the expression has %d call(s) but the caller-supplied function collection was called %d time(s) on the second evaluation", nFn, calls)
			return ""
		}
		// (c) the default variables of the calculator (automatic variables on), values set by name;
		// only when every variable of the expression is bound exactly once (an unbound automatic
		// variable is Null, not missing)
		c3 := calculator.NewExpressionCalculator()
		c3.SetVariantOperations(mgrOf(m))
		c3.SetExpression(expr)
		bound := map[string]int{}
		for _, b := range binds {
			bound[strings.ToUpper(b.name)]++
		}
		okc := true
		for _, v := range c3.DefaultVariables().GetAll() {
			if bound[strings.ToUpper(v.Name())] != 1 {
				okc = false
			}
		}
		if okc {
			for _, b := range binds {
				if v := c3.DefaultVariables().FindByName(b.name); v != nil {
					v.SetValue(b.val)
				}
			}
			if g := outcome(c3.Evaluate()); g != main {
				note = "Evaluate() over the default variables gives " + g + ", EvaluateUsingVariables " + main
			}
		}
		return ""
	})
	if st != "" || note != "" {
		c.fail(Failure{Kind: "oracle", Op: op, Impl: st, Note: "entry points disagree: " + note})
	}
}

// tplapi <runes> ; vars
func checkTplEntryPoints(c *Ctx, src string, vars map[string]string, main string) {
	op := strings.TrimSpace(fmt.Sprintf("tplapi %s ; %s", strRunes(src), varsStr(vars)))
	c.count("entry-points:template")
	var note string
	st := safeCallT(5*time.Second, func() string {
		res := func(r string, err error) string {
			if err != nil {
				return "err " + errCode(err)
			}
			return "ok " + strRunes(r)
		}
		own := func() map[string]string {
			m := map[string]string{}
			for k, v := range vars {
				m[k] = v
			}
			return m
		}
		// (a) default variables + Evaluate()
		t1 := mustache.NewMustacheTemplate()
		t1.SetAutoVariables(false)
		if err := t1.SetTemplate(src); err != nil {
			if g := "err " + errCode(err); g != main {
				note = "a second SetTemplate answers " + g + ", the first " + main
			}
			return ""
		}
		t1.SetDefaultVariables(own())
		if g := res(t1.Evaluate()); g != main {
			note = "SetDefaultVariables + Evaluate() gives " + g + ", EvaluateWithVariables " + main
			return ""
		}
		// (a0) the defaults are given BEFORE the template is set, automatic variables on, keys in ANOTHER letter case than
		// the template spells them: no second entry may shadow them (names are matched case-insensitively)
		t0 := mustache.NewMustacheTemplate()
		flipped := map[string]string{}
		unambiguous := true
		folded := map[string]bool{}
		for k, v := range vars {
			if folded[strings.ToLower(k)] {
				unambiguous = false // two keys that differ in case only: which one wins depends on their spelling
			}
			folded[strings.ToLower(k)] = true
			if strings.ToLower(swapCase(k)) != strings.ToLower(k) {
				unambiguous = false // a character whose case mappings do not round-trip (long s, Kelvin sign, …)
			}
			flipped[swapCase(k)] = v
		}
		if unambiguous {
			t0.SetDefaultVariables(flipped)
			t0.SetTemplate(src)
			if g := res(t0.Evaluate()); g != main {
				note = "default variables set before the template (keys in the other letter case) + Evaluate() gives " + g + ", EvaluateWithVariables " + main
				return ""
			}
		}
		// (a') an explicitly passed map is used as it is, also when it is empty, whatever the defaults hold
		t1b := mustache.NewMustacheTemplate()
		t1b.SetTemplate(src) // automatic variables on: the defaults get one entry per name ...
		for k := range t1b.DefaultVariables() {
			t1b.DefaultVariables()[k] = "DEFAULT" // ... and a value the explicit map does not have
		}
		if g := res(t1b.EvaluateWithVariables(own())); g != main {
			note = "with non-empty default variables EvaluateWithVariables(explicit map) gives " + g + ", without defaults " + main
			return ""
		}
		// (a'') ... in particular an explicitly passed EMPTY map means "no variable is defined"
		t1c := mustache.NewMustacheTemplate()
		t1c.SetAutoVariables(false)
		t1c.SetTemplate(src)
		emptyRef := res(t1c.EvaluateWithVariables(map[string]string{}))
		if g := res(t1b.EvaluateWithVariables(map[string]string{})); g != emptyRef {
			note = "with non-empty default variables EvaluateWithVariables(empty map) gives " + g + ", without defaults " + emptyRef
			return ""
		}
		// (b) tokens instead of text
		trimmed := strings.Trim(src, " \t\r\n")
		if trimmed != "" {
			tz := mtok.NewMustacheTokenizer()
			tz.SetSkipWhitespaces(true)
			tz.SetSkipComments(true)
			tz.SetSkipEof(true)
			tz.SetDecodeStrings(true)
			toks := tz.TokenizeBuffer(trimmed)
			t2 := mustache.NewMustacheTemplate()
			t2.SetAutoVariables(false)
			if err := t2.SetOriginalTokens(toks); err != nil {
				note = "SetOriginalTokens rejects (" + errCode(err) + ") the tokens of a template SetTemplate accepts"
				return ""
			}
			if g := res(t2.EvaluateWithVariables(own())); g != main {
				note = "SetOriginalTokens + EvaluateWithVariables gives " + g + ", SetTemplate + EvaluateWithVariables " + main
				return ""
			}
			p := mparsers.NewMustacheParser()
			if err := p.ParseTokens(toks); err != nil {
				note = "MustacheParser.ParseTokens rejects (" + errCode(err) + ") the tokens of an accepted template"
			}
		}
		return ""
	})
	if st != "" || note != "" {
		c.fail(Failure{Kind: "oracle", Op: op, Impl: st, Note: "entry points disagree: " + note})
	}
}

// replayEntry handles tokapi / parseapi / evalapi / tplapi lines
func replayEntry(c *Ctx, op string) bool {
	f := strings.Fields(op)
	if len(f) < 2 {
		return false
	}
	switch f[0] {
	case "tokapi":
		if len(f) != 4 {
			return true
		}
		var opts int
		fmt.Sscanf(f[2], "%d", &opts)
		in := parseRunes(f[3])
		ts, st := tokenizeImpl(f[1], opts, string(in))
		c.record(op, true)
		if st == "" {
			checkTokEntryPoints(c, f[1], opts, in, ts)
		}
		return true
	case "parseapi":
		e := string(parseRunes(f[1]))
		c.record(op, true)
		checkParseEntryPoints(c, e, runParser(e))
		return true
	case "evalapi":
		st := parseEvalStep(f[2:])
		out, _, _ := evalWith(st.expr, f[1], st.binds)
		c.record(op, true)
		checkEvalEntryPoints(c, f[1], st.expr, st.binds, out)
		return true
	case "tplapi":
		st := parseTplStep(f[1:])
		main := tplSeq([]tplStep{st})
		c.record(op, true)
		checkTplEntryPoints(c, st.src, st.vars, main)
		return true
	}
	return false
}
