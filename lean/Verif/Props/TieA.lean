/-
Tie A — the constants of the hand-written model equal the facts regenerated from /repo's source
text on every run (Verif/Gen/Facts.lean, Verif/Gen/CaseMap.lean).  A source edit that changes a
table (moves an operator to another level, swaps the operands of an operation, registers a
function under another calculator, changes a dispatch range, a keyword, a symbol …) changes the
generated file and one of these `decide`-checked theorems stops compiling.
-/
import Verif.Gen.Facts
import Verif.Gen.CaseMap
import Verif.Model.Tokenizer
import Verif.Model.ExprParser
import Verif.Model.Calc
import Verif.Model.Mustache

namespace Verif
namespace TieA
open Gen

/-! ### expression language -/

def etName : ET → String
  | .unknown => "Unknown" | .leftBrace => "LeftBrace" | .rightBrace => "RightBrace"
  | .leftSquareBrace => "LeftSquareBrace" | .rightSquareBrace => "RightSquareBrace"
  | .plus => "Plus" | .minus => "Minus" | .star => "Star" | .slash => "Slash" | .procent => "Procent"
  | .power => "Power" | .equal => "Equal" | .notEqual => "NotEqual" | .more => "More" | .less => "Less"
  | .equalMore => "EqualMore" | .equalLess => "EqualLess" | .shiftLeft => "ShiftLeft"
  | .shiftRight => "ShiftRight" | .and => "And" | .or => "Or" | .xor => "Xor" | .is => "Is" | .in_ => "In"
  | .notIn => "NotIn" | .element => "Element" | .null => "Null" | .not => "Not" | .like => "Like"
  | .notLike => "NotLike" | .isNull => "IsNull" | .isNotNull => "IsNotNull" | .comma => "Comma"
  | .unary => "Unary" | .function => "Function" | .variable => "Variable" | .constant => "Constant"

/-- the iota order of ExpressionTokenType.go is the numbering of the model -/
theorem exprTokenTypes_tie : exprTokenTypes = ET.all.map etName ∧
    (ET.all.map ET.toNat) = List.range 37 := by decide

theorem keywords_tie : Gen.keywords.map strOf = Verif.keywords := by decide

/-- the per-level operator sets read off the `token.Type() == X || …` conditions -/
theorem levelOps_tie :
    levelOps = [("performSyntaxAnalysis", Parser.ops0.map etName),
                ("performSyntaxAnalysisAtLevel1", [etName .not]),
                ("performSyntaxAnalysisAtLevel2", Parser.ops2.map etName),
                ("performSyntaxAnalysisAtLevel3", Parser.ops3.map etName),
                ("performSyntaxAnalysisAtLevel4", Parser.ops4.map etName),
                ("performSyntaxAnalysisAtLevel5", Parser.ops5.map etName)] := by decide

/-- the multi-token forms of level 3, in the order the parser tries them -/
theorem matchPatterns_tie :
    matchPatterns = [[ET.not, ET.like], [ET.is, ET.null], [ET.is, ET.not, ET.null], [ET.not, ET.in_]].map
      (·.map etName) := by decide

/-- keyword / symbol → operator token type table of completeLexicalAnalysis -/
theorem operators_tie :
    operators.length = operatorTypes.length ∧
    operators = ["(", ")", "[", "]", "+", "-", "*", "/", "%", "^", "=", "<>", "!=", ">", "<", ">=", "<=",
                 "<<", ">>", "AND", "OR", "XOR", "NOT", "IS", "IN", "NULL", "LIKE", ","] ∧
    operatorTypes = ([ET.leftBrace, .rightBrace, .leftSquareBrace, .rightSquareBrace, .plus, .minus, .star,
                 .slash, .procent, .power, .equal, .notEqual, .notEqual, .more, .less, .equalMore, .equalLess,
                 .shiftLeft, .shiftRight, .and, .or, .xor, .not, .is, .in_, .null, .like, .comma].map etName) := by
  decide

def opName : Op → String
  | .add => "Add" | .sub => "Sub" | .mul => "Mul" | .div => "Div" | .mod => "Mod" | .pow => "Pow"
  | .and => "And" | .or => "Or" | .xor => "Xor" | .lsh => "Lsh" | .rsh => "Rsh" | .not => "Not"
  | .neg => "Negative" | .equal => "Equal" | .notEqual => "NotEqual" | .more => "More" | .less => "Less"
  | .moreEqual => "MoreEqual" | .lessEqual => "LessEqual" | .in_ => "In" | .getElement => "GetElement"

/-- the evaluator's dispatch: which IVariantOperations method each token type calls and in which
operand order, operands named by the order in which the case pops them off the stack: `pop1` is popped
first (the operand written last), so `M(pop2, pop1)` is `M(left, right)`; `In` receives (pop1, pop2): the
container, written last, first -/
theorem evalDispatch_tie :
    evalDispatch =
      [("And", "And", "pop2,pop1"), ("Or", "Or", "pop2,pop1"), ("Xor", "Xor", "pop2,pop1"),
       ("Not", "Not", "pop1"),
       ("Plus", "Add", "pop2,pop1"), ("Minus", "Sub", "pop2,pop1"), ("Star", "Mul", "pop2,pop1"),
       ("Slash", "Div", "pop2,pop1"), ("Procent", "Mod", "pop2,pop1"), ("Power", "Pow", "pop2,pop1"),
       ("Unary", "Negative", "pop1"), ("ShiftLeft", "Lsh", "pop2,pop1"), ("ShiftRight", "Rsh", "pop2,pop1"),
       ("Equal", "Equal", "pop2,pop1"), ("NotEqual", "NotEqual", "pop2,pop1"), ("More", "More", "pop2,pop1"),
       ("Less", "Less", "pop2,pop1"), ("EqualMore", "MoreEqual", "pop2,pop1"),
       ("EqualLess", "LessEqual", "pop2,pop1"),
       ("In", "In", "pop1,pop2"), ("NotIn", "In", "pop1,pop2"), ("Element", "GetElement", "pop2,pop1")] := by
  decide

/-- … and the model's `etOp` is that table (written order operands) -/
theorem etOp_tie :
    (evalDispatch.filter (fun e => e.2.2 == "pop2,pop1" && e.1 != "Element")).map (fun e => (e.1, e.2.1)) =
      ([ET.and, .or, .xor, .plus, .minus, .star, .slash, .procent, .power, .shiftLeft, .shiftRight, .equal,
        .notEqual, .more, .less, .equalMore, .equalLess].map fun t => (etName t, ((etOp t).map opName).getD "")) := by
  decide

/-! ### functions -/

theorem fnNames_tie : fnRegistrations.map (·.1) = fnNames := by decide

/-- aliases share a calculator exactly as the model assumes (Random = Rnd, Ln = Log, Ceiling = Ceil,
Truncate = Trunc, Sqr = Sqrt) and every other name has its own -/
theorem fnCalculators_tie :
    fnRegistrations.map (·.2) =
      ["ticks", "timeSpan", "now", "date", "dayOfWeek", "min", "max", "sum", "if", "choose", "e", "pi", "rnd", "rnd",
       "abs", "acos", "asin", "atan", "exp", "log", "log", "log10", "ceil", "ceil", "floor", "round", "trunc", "trunc",
       "cos", "sin", "tan", "sqrt", "sqrt", "empty", "null", "contains", "array"].map (· ++ "FunctionCalculator") := by
  decide

/-! ### tokenizers -/

def stateOfStr : String → Option StateId
  | "c.SymbolState()" => some .symbol
  | "c.WhitespaceState()" => some .whitespace
  | "c.WordState()" => some .word
  | "c.NumberState()" => some .number
  | "c.QuoteState()" => some .quote
  | "c.CommentState()" => some .comment
  | _ => none

def dispatchOf (calls : List Call) : List (Nat × Nat × StateId) :=
  calls.filterMap fun c =>
    if c.method == "SetCharacterState" then
      match c.nums, c.idents with
      | [lo, hi], [st] => (stateOfStr st).map fun s => (lo, hi, s)
      | _, _ => none
    else none

def ttOfStr : String → Nat
  | "tokenizers.Symbol" => TT.symbol
  | "tokenizers.Eol" => TT.eol
  | _ => TT.unknown

def symbolsOf (calls : List Call) : List (List Rune × Nat) :=
  calls.filterMap fun c =>
    if c.method == "Add" then
      match c.texts, c.idents with
      | [t], [ty] => some (t, ttOfStr ty)
      | _, _ => none
    else none

def charsOf (m : String) (calls : List Call) : List (Nat × Nat × Bool) :=
  calls.filterMap fun c =>
    if c.method == m then
      match c.nums, c.idents with
      | [lo, hi], [b] => some (lo, hi, b == "true")
      | _, _ => none
    else none

theorem generic_dispatch_tie :
    dispatchOf genericTokenizer =
      [(0, 0xff, .symbol), (0, 32, .whitespace), (97, 122, .word), (65, 90, .word), (0xc0, 0xff, .word),
       (0x100, 0xffff, .word), (45, 45, .number), (48, 57, .number), (46, 46, .number), (34, 34, .quote),
       (39, 39, .quote), (35, 35, .comment)] ∧
    symbolsOf genericTokenizer = [([60, 62], TT.symbol), ([60, 61], TT.symbol), ([62, 61], TT.symbol)] := by
  decide

theorem expression_dispatch_tie :
    dispatchOf expressionTokenizer =
      [(0, 0xffff, .symbol), (0, 32, .whitespace), (97, 122, .word), (65, 90, .word), (0xc0, 0xff, .word),
       (95, 95, .word), (48, 57, .number), (45, 45, .number), (46, 46, .number), (34, 34, .quote),
       (39, 39, .quote), (47, 47, .comment)] ∧
    symbolsOf expressionSymbolState =
      [([60, 61], TT.symbol), ([62, 61], TT.symbol), ([60, 62], TT.symbol), ([33, 61], TT.symbol),
       ([62, 62], TT.symbol), ([60, 60], TT.symbol)] := by
  decide

theorem mustache_dispatch_tie :
    dispatchOf mustacheTokenizer =
      [(0, 0xff, .symbol), (0, 32, .whitespace), (97, 122, .word), (65, 90, .word), (48, 57, .word),
       (95, 95, .word), (0xc0, 0xff, .word), (0x100, 0xfffe, .word), (34, 34, .quote), (39, 39, .quote)] ∧
    symbolsOf mustacheTokenizer =
      [([123, 123], TT.symbol), ([125, 125], TT.symbol), ([123, 123, 123], TT.symbol), ([125, 125, 125], TT.symbol)] := by
  decide

theorem csv_tie :
    dispatchOf csvAssignStates = [(0, 0xffff, .word), (13, 13, .symbol), (10, 10, .symbol)] ∧
    (csvAssignStates.filter (fun c => c.method == "SetCharacterState" && c.nums.isEmpty)).map (·.idents) =
      [["fieldSeparator", "fieldSeparator", "c.SymbolState()"], ["quoteSymbol", "quoteSymbol", "c.QuoteState()"]] ∧
    symbolsOf Gen.csvSymbolState = [([10], TT.eol), ([13], TT.eol), ([13, 10], TT.eol), ([10, 13], TT.eol)] ∧
    charsOf "SetWordChars" Gen.csvWordState = [(0, 0xffff, true), (13, 13, false), (10, 10, false)] ∧
    (Gen.csvWordState.filter (fun c => c.method == "SetWordChars" && c.nums.isEmpty)).map (·.idents) =
      [["fieldSeparator", "fieldSeparator", "false"], ["quoteSymbol", "quoteSymbol", "false"]] := by
  decide

theorem wordChars_tie :
    charsOf "SetWordChars" genericWordState =
      [(97, 122, true), (65, 90, true), (48, 57, true), (45, 45, true), (95, 95, true), (0xc0, 0xff, true),
       (0x100, 0xffff, true)] ∧
    charsOf "SetWordChars" expressionWordState =
      [(97, 122, true), (65, 90, true), (48, 57, true), (95, 95, true), (0xc0, 0xff, true), (0x100, 0xffff, true)] ∧
    charsOf "SetWhitespaceChars" genericWhitespaceState = [(0, 32, true)] := by
  decide

/-- the model's configurations are built from exactly these lists -/
theorem cfg_from_facts :
    genericCfg.dispatch = setStates CharMap.empty (dispatchOf genericTokenizer) ∧
    expressionCfg.dispatch = setStates CharMap.empty (dispatchOf expressionTokenizer) ∧
    mustacheCfg.dispatch = setStates CharMap.empty (dispatchOf mustacheTokenizer) := by
  rw [generic_dispatch_tie.1, expression_dispatch_tie.1, mustache_dispatch_tie.1]
  exact ⟨rfl, rfl, rfl⟩

/-! ### character maps, quote states, case mapping -/

/-- clamp constants of AddInterval and the repaired return expression of Lookup (D02) -/
theorem charmap_tie :
    addIntervalLiterals = ["65535", "65534", "256", "256", "256", "256"] ∧
    lookupReturn = "interval.Reference()" := by decide

/-- DecodeString indexes the rune slice with its own length in all three quote states (D08) -/
theorem decode_tie :
    exprDecodeCond = "len(runes) >= 2 && runes[0] == quoteSymbol && runes[len(runes)-1] == quoteSymbol" ∧
    csvDecodeCond = exprDecodeCond ∧ genericDecodeCond = exprDecodeCond := by decide

/-- the only runes whose upper case is an ASCII letter are a–z, U+0131 and U+017F: the model's
`upperRune` (keyword test) agrees with Go's `strings.ToUpper` wherever an ASCII keyword can result -/
theorem upperToAscii_tie :
    upperToAscii = ((List.range 26).map fun i => (97 + i, 65 + i)) ++ [(305, 73), (383, 83)] ∧
    upperToAscii.all (fun e => upperRune e.1 == e.2) = true := by decide

theorem tokenTypes_tie :
    tokenTypes = ["Unknown", "Eof", "Eol", "Float", "Integer", "HexDecimal", "Number", "Symbol", "Quoted", "Word",
                  "Keyword", "Whitespace", "Comment", "Special"] ∧
    [TT.unknown, TT.eof, TT.eol, TT.float, TT.integer, TT.hexDecimal, TT.number, TT.symbol, TT.quoted, TT.word,
     TT.keyword, TT.whitespace, TT.comment, TT.special] = List.range 14 := by decide

theorem variantTypes_tie :
    variantTypes = ["Null", "Integer", "Long", "Float", "Double", "String", "Boolean", "DateTime", "TimeSpan",
                    "Object", "Array"] ∧ VT.all.map VT.toNat = List.range 11 := by decide

theorem mustacheTypes_tie :
    mustacheTokenTypes = ["TokenUnknown", "TokenValue", "TokenVariable", "TokenEscapedVariable", "TokenSection",
                          "TokenInvertedSection", "TokenSectionEnd", "TokenPartial", "TokenComment"] ∧
    [MT.unknown, MT.value, MT.variable, MT.escapedVariable, MT.section, MT.invertedSection, MT.sectionEnd,
     MT.partial_, MT.comment].map MT.toNat = List.range 9 ∧
    mustacheLexStates = ["StateValue", "StateOperator1", "StateOperator2", "StateVariable", "StateComment",
                         "StateClosure"] := by decide

/-! ### variant operations: which operand types each operator has a case for, which conversions exist

`Gen.opCases`, `Gen.unsafeConvCases`, `Gen.safeConvCases` list every `case <Type>:` of the type switches in
variants/*.go with the text of its body.  The support theorems tie the *set of cases* to the model's
behaviour on a sample value of each type; the body theorems pin the case bodies themselves (an operand
swap, a changed setter or a changed formula breaks them). -/

def vtName : VT → String
  | .null => "Null" | .integer => "Integer" | .long => "Long" | .float => "Float" | .double => "Double"
  | .string => "String" | .boolean => "Boolean" | .dateTime => "DateTime" | .timeSpan => "TimeSpan"
  | .object => "Object" | .array => "Array"

/-- a value of each type on which no case fails for a reason other than the type (non-zero, in range) -/
def sampleV : VT → V
  | .null => .null | .integer => .int 3 | .long => .long 3 | .float => .float (Float32.ofBits 0x40400000)
  | .double => .double (Float.ofBits 0x4008000000000000) | .string => .str [51] | .boolean => .bool true
  | .dateTime => .dateTime 3 0 | .timeSpan => .timeSpan 3 | .object => .object 0 | .array => .array [.int 3]

def isOpErr : R → Bool
  | .err c => c == "OP_NOT_SUPPORTED"
  | _ => false

def isConvErr : R → Bool
  | .err c => c == "CONV_NOT_SUPPORTED"
  | _ => false

def hasCase (cases : List (String × String × String)) (fn : String) (label : String) : Bool :=
  cases.any fun e => e.1 == fn && e.2.1 == label

def typeSwitchOps : List Op :=
  [.add, .sub, .mul, .div, .mod, .pow, .and, .or, .xor, .lsh, .rsh, .equal, .notEqual, .more, .less, .moreEqual, .lessEqual]

/-- second operand: of the first one's type, an integer count for the shifts -/
def sampleArg (op : Op) (t : VT) : V :=
  match op with
  | .lsh | .rsh => .int 3
  | _ => sampleV t

/-- a binary operator supports an operand type exactly when its type switch has a case for it -/
theorem opSupport_tie :
    ∀ op ∈ typeSwitchOps, ∀ t ∈ VT.all, t ≠ .null →
      hasCase opCases (opName op) (vtName t) = !isOpErr (binopCore .unsafe_ op (sampleV t) (sampleArg op t)) := by
  decide

theorem unopSupport_tie :
    ∀ op ∈ [Op.not, Op.neg], ∀ t ∈ VT.all, t ≠ .null →
      hasCase opCases (opName op) (vtName t) = !isOpErr (unop op (sampleV t)) := by
  decide

/-- the type-unsafe manager converts `from → to` exactly when `convertFrom<from>` has a case for `to`
(`to` = Null, the source type, Object and String are answered before the switch) -/
theorem unsafeConv_tie :
    ∀ f ∈ VT.all, ∀ t ∈ VT.all, t ≠ .null → t ≠ f → t ≠ .object → t ≠ .string →
      (hasCase unsafeConvCases "Convert" (vtName f) && hasCase unsafeConvCases ("convertFrom" ++ vtName f) (vtName t))
        = !isConvErr (convertUnsafe (sampleV f) t) := by
  decide

/-- the type-safe manager's whitelist -/
theorem safeConv_tie :
    ∀ f ∈ VT.all, ∀ t ∈ VT.all, t ≠ .null → t ≠ f → t ≠ .object →
      (hasCase safeConvCases ("convertFrom" ++ vtName f) (vtName t)
        && (safeConvCases.any fun e => e.1 == "Convert" && e.2.1 == vtName f && e.2.2 != "break"))
        = !isConvErr (convertSafe (sampleV f) t) := by
  decide

/-! ### reset completeness of the long-lived objects (C05)

The fields of each object, and the fields its reset method assigns.  Every field that processing an input
writes (everything except the configuration: tokenizer object, options, states, collections, flags) is
assigned by the reset: nothing of an earlier input can survive it.  The object model `Model/Objects.lean`
mirrors exactly these field lists. -/

def fieldsOf (k : String) : List String := ((resetFacts.find? (·.1 == k)).map (·.2.1)).getD []
def resetOf (k : String) : List String := ((resetFacts.find? (·.1 == k)).map (·.2.2)).getD []

theorem parserReset_tie :
    fieldsOf "ExpressionParser.Clear" = ["tokenizer", "expression", "originalTokens", "initialTokens",
      "currentTokenIndex", "variableNames", "resultTokens"] ∧
    ((fieldsOf "ExpressionParser.Clear").filter (· != "tokenizer")).all (resetOf "ExpressionParser.Clear").contains = true := by
  decide

theorem mustacheParserReset_tie :
    fieldsOf "MustacheParser.Clear" = ["tokenizer", "template", "originalTokens", "initialTokens",
      "currentTokenIndex", "variableNames", "resultTokens"] ∧
    ((fieldsOf "MustacheParser.Clear").filter (· != "tokenizer")).all (resetOf "MustacheParser.Clear").contains = true := by
  decide

/-- `SetReader` assigns the three per-input fields of the tokenizer and advances the input counter (the other
fifteen are configuration); the mustache tokenizer re-derives its mode fields whenever the counter moved, i.e. on
every `SetReader`, also of the same scanner object (D34) -/
theorem tokenizerReset_tie :
    resetOf "AbstractTokenizer.SetReader" = ["Scanner", "NextTokenValue", "LastTokenType", "ReaderVersion"] ∧
    (fieldsOf "AbstractTokenizer.SetReader").filter (fun f => !(resetOf "AbstractTokenizer.SetReader").contains f) =
      ["Overrides", "mp", "skipUnknown", "skipWhitespaces", "skipComments", "skipEof", "mergeWhitespaces",
       "unifyNumbers", "decodeStrings", "commentState", "numberState", "quoteState", "symbolState",
       "whitespaceState", "wordState"] ∧
    fieldsOf "MustacheTokenizer.ReadNextToken" = ["special", "specialState", "readerVersion"] ∧
    resetOf "MustacheTokenizer.ReadNextToken" = ["readerVersion", "special"] := by
  decide

/-- the calculator and the template keep no per-input state of their own (their parser does) -/
theorem calculatorFields_tie :
    fieldsOf "ExpressionCalculator.Clear" = ["defaultVariables", "defaultFunctions", "variantOperations", "parser",
      "autoVariables"] ∧
    fieldsOf "MustacheTemplate.Clear" = ["defaultVariables", "parser", "autoVariables"] := by
  decide

end TieA
end Verif
