package main

import (
	"github.com/pip-services3-gox/pip-services3-expressions-gox/tokenizers"
	"unicode"
	"fmt"
	"regexp"
	"strings"
	"time"

	"github.com/pip-services3-gox/pip-services3-expressions-gox/calculator"
	"github.com/pip-services3-gox/pip-services3-expressions-gox/calculator/parsers"
	"github.com/pip-services3-gox/pip-services3-expressions-gox/calculator/variables"
	"github.com/pip-services3-gox/pip-services3-expressions-gox/mustache"
)

// Long-lived instances.  C01, C02 and C10 are stated for every calculator / parser / template,
// not only for one that has never been used: every case of those streams is therefore also run on
// ONE instance that has served all earlier cases of the run, and must give what a fresh instance
// gives.  A difference is reduced to the last two inputs (replayable as evalseq / parseseq /
// tplseq); when two steps do not reproduce it, the failure names the length of the history.

type evalStep struct {
	expr      string
	binds     []binding
	viaTokens bool // SetOriginalTokens(tokens of expr) instead of SetExpression(expr)
	mgr       string // "u" / "s": SetVariantOperations(...) is called before this step; "" leaves the calculator as it is
}

var (
	sharedCalc   = map[string]*calculator.ExpressionCalculator{}
	sharedHist   = map[string][]evalStep{}
	sharedParser *parsers.ExpressionParser
	parserHist   []string
	sharedTpl    *mustache.MustacheTemplate
	tplHist      []tplStep
)

type tplStep struct {
	src  string
	vars map[string]string
}

func evalOn(calc *calculator.ExpressionCalculator, st evalStep) string {
	if st.mgr != "" {
		calc.SetVariantOperations(mgrOf(st.mgr))
	}
	if st.viaTokens {
		// the calculator's SetOriginalTokens drops the parser's error: the outcome is judged on the evaluation
		calc.SetOriginalTokens(exprTokens(st.expr))
	} else if err := calc.SetExpression(st.expr); err != nil {
		return "parse-err " + errCode(err)
	}
	vars := variables.NewVariableCollection()
	for _, b := range st.binds {
		vars.Add(variables.NewVariable(b.name, b.val))
	}
	r, err := calc.EvaluateUsingVariables(vars)
	return outcome(r, err)
}

func evalSeqOp(m string, steps []evalStep) string {
	parts := make([]string, len(steps))
	for i, st := range steps {
		pre := ""
		if st.mgr != "" {
			pre = "M" + st.mgr
		}
		if st.viaTokens {
			pre += "T"
		}
		parts[i] = strings.TrimSpace(pre + strRunes(st.expr) + " ; " + bindsStr(st.binds))
	}
	return "evalseq " + m + " " + strings.Join(parts, " ;; ")
}

// run the steps in order on one new calculator; returns the last outcome
func evalSeq(m string, steps []evalStep) string {
	return safeCallT(5*time.Second, func() string {
		calc := calculator.NewExpressionCalculator()
		calc.SetVariantOperations(mgrOf(m))
		out := ""
		for _, st := range steps {
			out = evalOn(calc, st)
		}
		return out
	})
}

// shortest history found (suffixes of growing length, then greedy removal of single steps) on which
// run(history) still differs from fresh; nil if even the whole history does not reproduce it
func shrinkHist[T any](hist []T, fresh string, run func([]T) string) []T {
	var found []T
	for k := 2; ; k *= 2 {
		if k > len(hist) {
			k = len(hist)
		}
		suf := hist[len(hist)-k:]
		if run(suf) != fresh {
			found = append([]T(nil), suf...)
			break
		}
		if k == len(hist) {
			return nil
		}
	}
	for i := 0; i < len(found)-1; {
		cand := append(append([]T(nil), found[:i]...), found[i+1:]...)
		if run(cand) != fresh {
			found = cand
		} else {
			i++
		}
	}
	return found
}

var intLexRe = regexp.MustCompile(`(^|[ (,\[])([0-9]+)($|[ ),\]])`)

// quoteIntegers turns the first integer constant standing between blanks / brackets into a string constant
func quoteIntegers(expr string) string {
	return intLexRe.ReplaceAllString(expr, "${1}'${2}'${3}")
}

// swapCase: the same text with the case of every letter flipped (equal under case folding, different as text)
func swapCase(s string) string {
	return strings.Map(func(r rune) rune {
		if unicode.IsUpper(r) {
			return unicode.ToLower(r)
		}
		if unicode.IsLower(r) {
			return unicode.ToUpper(r)
		}
		return r
	}, s)
}

const reuseSpan = 40 // a long-lived instance serves this many cases, then a new one takes over

func reuseEval(c *Ctx, m string, cur evalStep, fresh string) {
	// one long-lived calculator serves both operations managers: the manager is installed with
	// SetVariantOperations before each step, also after the calculator has evaluated under the other one
	cur.mgr = m
	m = ""
	calc := sharedCalc[m]
	if calc == nil {
		calc = calculator.NewExpressionCalculator()
		sharedCalc[m] = calc
		sharedHist[m] = nil
	}
	if decoy := quoteIntegers(cur.expr); decoy != cur.expr && c.Rng.Intn(3) == 0 {
		// a different expression whose tokens, once decoded, spell the same characters ('2' + 3 vs 2 + 3),
		// handed over as tokens just before
		d := evalStep{expr: decoy, binds: cur.binds, viaTokens: true, mgr: cur.mgr}
		safeCallT(3*time.Second, func() string { return evalOn(calc, d) })
		sharedHist[m] = append(sharedHist[m], d)
	}
	if decoy := swapCase(cur.expr); decoy != cur.expr && c.Rng.Intn(4) == 0 {
		// the neighbour in the history differs in letter case only (keywords and names are case-insensitive, string
		// constants and reported spellings are not)
		d := evalStep{expr: decoy, binds: cur.binds, mgr: cur.mgr}
		safeCallT(3*time.Second, func() string { return evalOn(calc, d) })
		sharedHist[m] = append(sharedHist[m], d)
	}
	got := safeCallT(3*time.Second, func() string { return evalOn(calc, cur) })
	c.count("reused-calculator")
	sharedHist[m] = append(sharedHist[m], cur)
	hist := sharedHist[m]
	if got == fresh {
		if len(hist) >= reuseSpan {
			delete(sharedCalc, m)
		}
		return
	}
	delete(sharedCalc, m) // start over with a clean instance
	if min := shrinkHist(hist, fresh, func(h []evalStep) string { return evalSeq(m, h) }); min != nil {
		two := evalSeq(m, min)
		c.fail(Failure{Kind: "oracle", Op: evalSeqOp(cur.mgr, min), Impl: two, Spec: fresh,
			Note: fmt.Sprintf("a calculator that evaluated %d other expression(s) before (the last %q) gives %s for %q; a new calculator gives %s", len(min)-1, min[len(min)-2].expr, two, cur.expr, fresh)})
		return
	}
	c.fail(Failure{Kind: "oracle", Op: strings.TrimSpace(fmt.Sprintf("evalx %s %s ; %s", cur.mgr, strRunes(cur.expr), bindsStr(cur.binds))), Impl: got, Spec: fresh,
		Note: fmt.Sprintf("a calculator reused for %d evaluations gives %s for %q, a new calculator gives %s (not reproduced when the history is replayed)", len(hist), got, cur.expr, fresh)})
}

func parseOn(p *parsers.ExpressionParser, expr string) string {
	if strings.HasPrefix(expr, "\x00tok") {
		// a history step that hands over one artificial token (see reuseParse)
		var typ int
		rest := expr[len("\x00tok"):]
		i := strings.Index(rest, ":")
		fmt.Sscanf(rest[:i], "%d", &typ)
		p.ParseTokens([]*tokenizers.Token{tokenizers.NewToken(typ, rest[i+1:], 1, 1)})
		return "tokens"
	}
	err := p.ParseString(expr)
	var res []string
	for _, t := range p.ResultTokens() {
		res = append(res, encETok(t))
	}
	if err != nil {
		return "err " + errCode(err)
	}
	return "ok " + strings.Join(res, " ") + " ; " + strings.Join(p.VariableNames(), ",")
}

func parseSeq(steps []string) string {
	return safeCallT(5*time.Second, func() string {
		p := parsers.NewExpressionParser()
		out := ""
		for _, e := range steps {
			out = parseOn(p, e)
		}
		return out
	})
}

func parseSeqOp(steps []string) string {
	parts := make([]string, len(steps))
	for i, e := range steps {
		parts[i] = strRunes(e)
	}
	return "parseseq " + strings.Join(parts, " ;; ")
}

func (o parseOut) reuseLine() string {
	if o.code != "" {
		return "err " + o.code
	}
	return "ok " + strings.Join(o.result, " ") + " ; " + strings.Join(o.vars, ",")
}

func reuseParse(c *Ctx, expr string, o parseOut) {
	if o.status != "" {
		return
	}
	fresh := o.reuseLine()
	if sharedParser == nil {
		sharedParser = parsers.NewExpressionParser()
		parserHist = nil
	}
	p := sharedParser
	steps := []string{expr}
	if c.Rng.Intn(3) == 0 {
		steps = append(steps, expr) // the same text again: an "already compiled" short-cut must not change the answer
	}
	if decoy := swapCase(expr); decoy != expr && c.Rng.Intn(4) == 0 {
		// a neighbour that differs in letter case only
		safeCallT(3*time.Second, func() string { return parseOn(p, decoy) })
		parserHist = append(parserHist, decoy)
	}
	if t := strings.Trim(expr, " \t\r\n"); t != "" && c.Rng.Intn(4) == 0 {
		// handed over as tokens just before: ONE word token / ONE quoted token whose text is the whole expression (what no
		// tokenizer would produce) - the text itself must still be parsed as text afterwards
		typ := []int{tokenizers.Word, tokenizers.Quoted}[c.Rng.Intn(2)]
		safeCallT(3*time.Second, func() string {
			p.ParseTokens([]*tokenizers.Token{tokenizers.NewToken(typ, t, 1, 1)})
			return ""
		})
		parserHist = append(parserHist, fmt.Sprintf("\x00tok%d:%s", typ, t))
	}
	for _, e := range steps {
		got := safeCallT(3*time.Second, func() string { return parseOn(p, e) })
		c.count("reused-parser")
		parserHist = append(parserHist, e)
		hist := parserHist
		if got == fresh {
			continue
		}
		sharedParser = nil
		if min := shrinkHist(hist, fresh, parseSeq); min != nil {
			two := parseSeq(min)
			c.fail(Failure{Kind: "oracle", Op: parseSeqOp(min), Impl: two, Spec: fresh,
				Note: fmt.Sprintf("a parser that parsed %d other input(s) before (the last %q) answers %s for %q; a new parser answers %s", len(min)-1, min[len(min)-2], two, e, fresh)})
			return
		}
		c.fail(Failure{Kind: "oracle", Op: "expr " + strRunes(e), Impl: got, Spec: fresh,
			Note: fmt.Sprintf("a parser reused for %d inputs answers %s for %q, a new parser answers %s (not reproduced when the history is replayed)", len(hist), got, e, fresh)})
		return
	}
	if len(parserHist) >= reuseSpan {
		sharedParser = nil
	}
}

func tplOn(t *mustache.MustacheTemplate, st tplStep) string {
	err := t.SetTemplate(st.src)
	if err != nil {
		return "err " + errCode(err)
	}
	r, err := t.EvaluateWithVariables(st.vars)
	if err != nil {
		return "err " + errCode(err)
	}
	return "ok " + strRunes(r)
}

func tplSeq(steps []tplStep) string {
	return safeCallT(5*time.Second, func() string {
		t := mustache.NewMustacheTemplate()
		t.SetAutoVariables(false)
		out := ""
		for _, st := range steps {
			out = tplOn(t, st)
		}
		return out
	})
}

func tplSeqOp(steps []tplStep) string {
	parts := make([]string, len(steps))
	for i, st := range steps {
		parts[i] = strings.TrimSpace(strRunes(st.src) + " ; " + varsStr(st.vars))
	}
	return "tplseq " + strings.Join(parts, " ;; ")
}

func reuseTpl(c *Ctx, cur tplStep, fresh string) {
	if sharedTpl == nil {
		sharedTpl = mustache.NewMustacheTemplate()
		sharedTpl.SetAutoVariables(false)
		tplHist = nil
	}
	t := sharedTpl
	if c.Rng.Intn(3) == 0 {
		// the same text twice in a row: a "nothing changed" short-cut must not change the answer
		safeCallT(3*time.Second, func() string { return tplOn(t, cur) })
		tplHist = append(tplHist, cur)
	}
	if decoy := swapCase(cur.src); decoy != cur.src && c.Rng.Intn(4) == 0 {
		d := tplStep{decoy, cur.vars} // differs in letter case only: names are case-insensitive, text is not
		safeCallT(3*time.Second, func() string { return tplOn(t, d) })
		tplHist = append(tplHist, d)
	}
	got := safeCallT(3*time.Second, func() string { return tplOn(t, cur) })
	c.count("reused-template")
	tplHist = append(tplHist, cur)
	hist := tplHist
	if got == fresh {
		if len(hist) >= reuseSpan {
			sharedTpl = nil
		}
		return
	}
	sharedTpl = nil
	if min := shrinkHist(hist, fresh, tplSeq); min != nil {
		two := tplSeq(min)
		c.fail(Failure{Kind: "oracle", Op: tplSeqOp(min), Impl: two, Spec: fresh,
			Note: fmt.Sprintf("a template object that held %d other template(s) before (the last %q) renders %q as %s; a new one gives %s", len(min)-1, min[len(min)-2].src, cur.src, two, fresh)})
		return
	}
	c.fail(Failure{Kind: "oracle", Op: strings.TrimSpace(fmt.Sprintf("tpl %s ; %s", strRunes(cur.src), varsStr(cur.vars))), Impl: got, Spec: fresh,
		Note: fmt.Sprintf("a template object reused for %d templates gives %s for %q, a new one gives %s (not reproduced when the history is replayed)", len(hist), got, cur.src, fresh)})
}

// ---- replays ---------------------------------------------------------------

func splitSeq(f []string) [][]string {
	var out [][]string
	var cur []string
	for _, x := range f {
		if x == ";;" {
			out = append(out, cur)
			cur = nil
		} else {
			cur = append(cur, x)
		}
	}
	return append(out, cur)
}

func parseEvalStep(f []string) evalStep {
	st := evalStep{}
	if len(f) == 0 {
		return st
	}
	if strings.HasPrefix(f[0], "M") && len(f[0]) >= 2 {
		st.mgr = f[0][1:2]
		f[0] = f[0][2:]
	}
	if strings.HasPrefix(f[0], "T") {
		st.viaTokens = true
		f[0] = f[0][1:]
	}
	st.expr = string(parseRunes(f[0]))
	for _, b := range f[1:] {
		if b == ";" {
			continue
		}
		p := strings.SplitN(b, "=", 2)
		if len(p) == 2 {
			st.binds = append(st.binds, binding{string(parseRunes(p[0])), decVariant(p[1])})
		}
	}
	return st
}

func parseTplStep(f []string) tplStep {
	st := tplStep{vars: map[string]string{}}
	if len(f) == 0 {
		return st
	}
	st.src = string(parseRunes(f[0]))
	for _, b := range f[1:] {
		if b == ";" {
			continue
		}
		p := strings.SplitN(b, "=", 2)
		if len(p) == 2 {
			st.vars[string(parseRunes(p[0]))] = string(parseRunes(p[1]))
		}
	}
	return st
}

// replaySeq handles evalseq / parseseq / tplseq lines; true if the line was one of them
func replaySeq(c *Ctx, op string) bool {
	f := strings.Fields(op)
	if len(f) < 2 {
		return false
	}
	switch f[0] {
	case "evalseq":
		var steps []evalStep
		for _, p := range splitSeq(f[2:]) {
			steps = append(steps, parseEvalStep(p))
		}
		last := steps[len(steps)-1]
		lm := f[1]
		if last.mgr != "" {
			lm = last.mgr
		}
		fresh, _, _ := evalWith(last.expr, lm, last.binds)
		got := evalSeq(f[1], steps)
		c.record(op, true)
		if got != fresh {
			c.fail(Failure{Kind: "oracle", Op: op, Impl: got, Spec: fresh, Note: fmt.Sprintf("a calculator that evaluated %d other expression(s) before gives %s for %q; a new calculator gives %s", len(steps)-1, got, last.expr, fresh)})
		}
		return true
	case "parseseq":
		var steps []string
		for _, p := range splitSeq(f[1:]) {
			if len(p) > 0 {
				steps = append(steps, string(parseRunes(p[0])))
			}
		}
		if len(steps) == 0 {
			return true
		}
		last := steps[len(steps)-1]
		o := runParser(last)
		got := parseSeq(steps)
		c.record(op, true)
		if o.status == "" && got != o.reuseLine() {
			c.fail(Failure{Kind: "oracle", Op: op, Impl: got, Spec: o.reuseLine(), Note: fmt.Sprintf("a parser that parsed %d other input(s) before answers %s for %q; a new parser answers %s", len(steps)-1, got, last, o.reuseLine())})
		}
		return true
	case "tplseq":
		var steps []tplStep
		for _, p := range splitSeq(f[1:]) {
			steps = append(steps, parseTplStep(p))
		}
		last := steps[len(steps)-1]
		fresh := tplSeq([]tplStep{last})
		got := tplSeq(steps)
		c.record(op, true)
		if got != fresh {
			c.fail(Failure{Kind: "oracle", Op: op, Impl: got, Spec: fresh, Note: fmt.Sprintf("a template object that held %d other template(s) before renders %q as %s; a new one gives %s", len(steps)-1, last.src, got, fresh)})
		}
		return true
	}
	return false
}
