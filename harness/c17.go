package main

import (
	"fmt"
	"strings"

	"github.com/pip-services3-gox/pip-services3-expressions-gox/tokenizers/utilities"
)

// C17: character-class maps answer with the latest covering registration.

type refT struct{ id int }

var refA = &refT{1}
var refB = &refT{2}

// refA2 is another object with the same content as refA: references are compared by identity, not by content
var refA2 = &refT{1}

func refOf(s string) any {
	switch s {
	case "1":
		return refA
	case "2":
		return refB
	case "3":
		return refA2
	}
	return nil
}

func showRefAny(v any) string {
	if v == nil {
		return "n"
	}
	if p, ok := v.(*refT); ok {
		if p == refA {
			return "1"
		}
		if p == refB {
			return "2"
		}
		if p == refA2 {
			return "3"
		}
		if p == nil {
			return "typed-nil"
		}
		return "otherptr"
	}
	return fmt.Sprintf("not-the-stored-reference(%T)", v)
}

type mapOp struct {
	kind   byte // a d c
	lo, hi int
	ref    string
}

func (o mapOp) String() string {
	switch o.kind {
	case 'a':
		return fmt.Sprintf("a:%d:%d:%s", o.lo, o.hi, o.ref)
	case 'd':
		return "d:" + o.ref
	}
	return "c"
}

func parseMapOp(s string) mapOp {
	p := strings.Split(s, ":")
	switch p[0] {
	case "a":
		var lo, hi int
		fmt.Sscanf(p[1], "%d", &lo)
		fmt.Sscanf(p[2], "%d", &hi)
		return mapOp{'a', lo, hi, p[3]}
	case "d":
		return mapOp{'d', 0, 0, p[1]}
	}
	return mapOp{kind: 'c'}
}

// oracle: latest covering registration after the last clear, for the history ops[:n]
func cmapExpect(ops []mapOp, p int) string {
	if p < 0 {
		return "n"
	}
	for j := len(ops) - 1; j >= 0; j-- {
		o := ops[j]
		if o.kind == 'c' {
			break
		}
		lo, hi := o.lo, o.hi
		if o.kind == 'd' {
			lo, hi = 0, 0xfffe
		}
		if hi >= 0xffff {
			hi = 0xfffe
		}
		if lo <= p && p <= hi {
			return o.ref
		}
	}
	return "n"
}

func cmapLine(ops []mapOp, probes []int) string {
	var sb strings.Builder
	sb.WriteString("cmap")
	for _, o := range ops {
		sb.WriteByte(' ')
		sb.WriteString(o.String())
	}
	sb.WriteString(" ?")
	for _, p := range probes {
		fmt.Fprintf(&sb, " %d", p)
	}
	return sb.String()
}

// One map instance receives the whole history; it is probed after EVERY operation (lookups
// interleaved with registrations: a map that caches look-ups must still answer with the latest
// registration) and each prefix is compared with the model.
func runCmapCase(c *Ctx, ops []mapOp, probes []int) {
	opLine := cmapLine(ops, probes)
	var oracle string
	var prefixImpl []string
	impl := safeCall(func() string {
		m := utilities.NewCharReferenceMap()
		last := ""
		for n := 0; n <= len(ops); n++ {
			if n > 0 {
				o := ops[n-1]
				switch o.kind {
				case 'a':
					m.AddInterval(rune(o.lo), rune(o.hi), refOf(o.ref))
				case 'd':
					m.AddDefaultInterval(refOf(o.ref))
				case 'c':
					m.Clear()
				}
			}
			outs := make([]string, len(probes))
			for i, p := range probes {
				got := showRefAny(m.Lookup(rune(p)))
				outs[i] = got
				if exp := cmapExpect(ops[:n], p); got != exp && oracle == "" {
					oracle = fmt.Sprintf("after %d operation(s) Lookup(%#x) = %s, latest covering registration says %s", n, p, got, exp)
				}
			}
			last = strings.Join(outs, " ")
			prefixImpl = append(prefixImpl, last)
		}
		return last
	})
	straddle := false
	for _, o := range ops {
		if o.kind == 'a' && o.lo < 0x100 && o.hi >= 0x100 {
			straddle = true
		}
	}
	c.record(opLine, len(ops) >= 2)
	if straddle {
		c.count("history:has-straddling-range")
	}
	c.count(fmt.Sprintf("history-len:%d", len(ops)))
	if strings.HasPrefix(impl, "panic:") {
		// AddInterval panics exactly when the model says the history is not ok
		c.model(opLine, "panic", "model")
		return
	}
	if oracle != "" {
		c.fail(Failure{Kind: "oracle", Op: opLine, Impl: impl, Note: oracle})
		return
	}
	c.model(opLine, impl, "model|spec")
	// intermediate look-ups against the model as well (longer histories only: the exhaustive
	// enumeration already contains every prefix as a history of its own)
	if len(ops) > 3 {
		for n := 1; n < len(ops); n++ {
			c.model(cmapLine(ops[:n], probes), prefixImpl[n], "model|spec")
		}
	}
}

func propC17(c *Ctx) {
	propScaleTables(c, "C17")
	ends := []int{0, 'a', 0xff, 0x100, 0x101, 0x2000, 0xfffe}
	refs := []string{"1", "2", "n"}
	var alpha []mapOp
	for i, lo := range ends {
		for _, hi := range ends[i:] {
			for _, r := range refs {
				alpha = append(alpha, mapOp{'a', lo, hi, r})
			}
		}
	}
	for _, r := range refs {
		alpha = append(alpha, mapOp{'d', 0, 0, r})
	}
	alpha = append(alpha, mapOp{kind: 'c'})
	probeSet := map[int]bool{-1: true}
	for _, e := range ends {
		for d := -1; d <= 1; d++ {
			if e+d >= 0 {
				probeSet[e+d] = true
			}
		}
	}
	probeSet[0xffff] = true
	probeSet[0x10000] = true
	var probes []int
	for p := -1; p <= 0x10000; p++ {
		if probeSet[p] {
			probes = append(probes, p)
		}
	}
	// exhaustive: all histories of length <= 2 (quick) / <= 3 (thorough)
	maxL := 2
	if c.Thorough {
		maxL = 3
	}
	var rec func(cur []mapOp)
	rec = func(cur []mapOp) {
		runCmapCase(c, append([]mapOp(nil), cur...), probes)
		if len(cur) == maxL {
			return
		}
		for _, a := range alpha {
			rec(append(cur, a))
		}
	}
	rec(nil)
	c.Notes = append(c.Notes, fmt.Sprintf("exhaustive: all histories of length <= %d over %d operations (28 endpoint pairs x 3 refs, default x 3 refs, clear), %d probes each", maxL, len(alpha), len(probes)))
	// random longer histories, random endpoints
	nRand := 20000
	if c.Thorough {
		nRand = 300000
	}
	for i := 0; i < nRand; i++ {
		n := 3 + c.Rng.Intn(6)
		ops := make([]mapOp, n)
		for j := range ops {
			if c.Rng.Intn(3) == 0 {
				lo := c.Rng.Intn(0x11000)
				hi := lo + c.Rng.Intn(0x300)
				if c.Rng.Intn(4) == 0 {
					lo = c.Rng.Intn(0x180)
					hi = lo + c.Rng.Intn(0x180)
				}
				ops[j] = mapOp{'a', lo, hi, refs[c.Rng.Intn(3)]}
			} else {
				ops[j] = alpha[c.Rng.Intn(len(alpha))]
				if ops[j].kind == 'c' && c.Rng.Intn(3) != 0 {
					ops[j] = alpha[c.Rng.Intn(len(alpha)-1)]
				}
			}
		}
		pr := append([]int(nil), probes...)
		for _, o := range ops {
			if o.kind == 'a' {
				pr = append(pr, o.lo, o.hi, o.hi+1)
				if o.lo > 0 {
					pr = append(pr, o.lo-1)
				}
			}
		}
		runCmapCase(c, ops, pr)
	}
	// the consequence for tokenizers: user-configured ranges (states, word and whitespace characters,
	// symbols) on the generic and the expression tokenizer
	nTok := 3000
	if c.Thorough {
		nTok = 60000
	}
	propTokC(c, nTok)
	propClassStates(c)
	c.Notes = append(c.Notes, fmt.Sprintf("%d tokenizer configurations: 1..5 of SetCharacterState (7 states incl. nil) / ClearCharacterStates / SetWordChars / ClearWordChars / SetWhitespaceChars / ClearWhitespaceChars / SymbolState.Add over 18 boundary ranges and random ones, on the generic and expression tokenizers; oracles: GetCharacterState = latest covering registration on every input character and range endpoint, lossless tokens; token streams compared with the model", nTok))
}

func replayC17(c *Ctx, op string) {
	if replayTokC(c, op) || replayWc(c, op) {
		return
	}
	f := strings.Fields(op)
	var ops []mapOp
	var probes []int
	i := 1
	for ; i < len(f) && f[i] != "?"; i++ {
		ops = append(ops, parseMapOp(f[i]))
	}
	for i++; i < len(f); i++ {
		var p int
		fmt.Sscanf(f[i], "%d", &p)
		probes = append(probes, p)
	}
	runCmapCase(c, ops, probes)
}

func init() {
	props["C17"] = propC17
	replays["C17"] = replayC17
}
