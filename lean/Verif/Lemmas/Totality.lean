/-
Helper lemmas for C03 (totality / "result or error, never a panic, never out of fuel").

* §1  compiler correctness of the RPN machine with a BOUNDED argument-count round trip
      (`calcEnv` reads the count back from an `Int64`, so `asArgc (ofArgc n) = some n` only holds
      for `n < 2^63`; `run_postorder_bind` of Lemmas/EvalCorrect.lean asks it for every `n`);
* §2  the argument counts of a tree are bounded by the length of its token sequence;
* §3  `calcEnv` never panics in an operation / function call;
* §4  the template parser: fuel `length + 1` suffices, the remainder of a section is shorter;
* §5  lexical analysis only emits the seven "structural" token types, the parser's trees contain
      only renderable nodes, rendering such trees succeeds;
* §6  the mustache tokenizer: the final state of `drain`, progress of `readNext`.
-/
import Verif.Props.C01
import Verif.Props.C02
import Verif.Props.C05
import Verif.Props.C06
import Verif.Props.C08
import Verif.Props.C10
import Verif.Model.Calc

namespace Verif

section generic
variable {κ V : Type}

/-! ## §1 compiler correctness with a bounded argument-count round trip -/

namespace Expr

mutual
/-- every call node of the tree has fewer than `N` written arguments -/
def argcLt (N : Nat) : Expr κ → Bool
  | .const _ => true
  | .var _ => true
  | .paren e => argcLt N e
  | .call _ args => decide (argsLength args < N) && argcLtArgs N args
  | .neg e => argcLt N e
  | .pos e => argcLt N e
  | .index e i => argcLt N e && argcLt N i
  | .bin _ l r => argcLt N l && argcLt N r
  | .notLike l r => argcLt N l && argcLt N r
  | .notIn l r => argcLt N l && argcLt N r
  | .not e => argcLt N e
  | .isNull e => argcLt N e
  | .isNotNull e => argcLt N e
def argcLtArgs (N : Nat) : Args κ → Bool
  | .nil => true
  | .cons e rest => argcLt N e && argcLtArgs N rest
end

end Expr

/-- a Function token on a stack that holds the written arguments (last on top) under the count;
only the round trip of THIS count is needed -/
theorem evalStep_functionB (env : EvalEnv κ V) (name : List Rune) (vs st : List V)
    (hargc : env.asArgc (env.ofArgc vs.length) = some vs.length) :
    evalStep env ⟨.function, name, none, 0⟩ (env.ofArgc vs.length :: (vs.reverse ++ st)) =
      if env.hasFn name then (env.callFn name vs).bind fun r => .ok (r :: st)
      else .err "FUNC_NOT_FOUND" := by
  simp only [evalStep, hargc, popN_reverse]
  cases env.hasFn name <;> simp

open Expr in
mutual
/-- `run_postorder_bind` (Lemmas/EvalCorrect.lean) with the round trip of the argument count
required only below a bound `N` that dominates every argument count of the tree -/
theorem run_postorder_bindB (env : EvalEnv κ V) (N : Nat)
    (hargc : ∀ n, n < N → env.asArgc (env.ofArgc n) = some n) :
    ∀ (t : Expr κ), opsOk t = true → argcLt N t = true → ∀ (k : List (ETok κ)) (st : List V),
      run env (t.postorder ++ k) st = (evalTree env t).bind fun v => run env k (v :: st)
  | .const c, _, _, k, st => by
    simp only [postorder, evalTree, List.cons_append, List.nil_append, run_cons, evalStep_const,
      Out.bind_ok]
  | .var n, _, _, k, st => by
    simp only [postorder, evalTree, List.cons_append, List.nil_append, run_cons, evalStep_var]
    cases env.lookupVar n <;> rfl
  | .paren e, h, hb, k, st => by
    simp only [opsOk] at h
    simp only [argcLt] at hb
    simp only [postorder, evalTree]
    exact run_postorder_bindB env N hargc e h hb k st
  | .pos e, h, hb, k, st => by
    simp only [opsOk] at h
    simp only [argcLt] at hb
    simp only [postorder, evalTree]
    exact run_postorder_bindB env N hargc e h hb k st
  | .call n args, h, hb, k, st => by
    simp only [opsOk] at h
    simp only [argcLt, Bool.and_eq_true, decide_eq_true_eq] at hb
    simp only [postorder, evalTree, List.append_assoc, List.cons_append, List.nil_append]
    rw [run_postorderArgs_bindB env N hargc args h hb.2]
    cases ha : evalArgs env args with
    | err c => rfl
    | panic s => rfl
    | ok vs =>
      simp only [Out.bind_ok]
      have hlen := evalArgs_length env args vs ha
      rw [run_cons, evalStep_argc, Out.bind_ok, run_cons, ← hlen,
        evalStep_functionB env n vs st (hargc _ (by rw [hlen]; exact hb.1))]
      cases env.hasFn n
      · rfl
      · simp only [if_true, Out.bind_assoc, Out.bind_ok]
  | .neg e, h, hb, k, st => by
    simp only [opsOk] at h
    simp only [argcLt] at hb
    simp only [postorder, evalTree, List.append_assoc, List.cons_append, List.nil_append]
    rw [run_postorder_bindB env N hargc e h hb, Out.bind_assoc]
    congr 1; funext v
    rw [run_cons, evalStep_tk_unary env .unary (by decide), Out.bind_assoc]
    simp only [Out.bind_ok]
  | .not e, h, hb, k, st => by
    simp only [opsOk] at h
    simp only [argcLt] at hb
    simp only [postorder, evalTree, List.append_assoc, List.cons_append, List.nil_append]
    rw [run_postorder_bindB env N hargc e h hb, Out.bind_assoc]
    congr 1; funext v
    rw [run_cons, evalStep_tk_unary env .not (by decide), Out.bind_assoc]
    simp only [Out.bind_ok]
  | .isNull e, h, hb, k, st => by
    simp only [opsOk] at h
    simp only [argcLt] at hb
    simp only [postorder, evalTree, List.append_assoc, List.cons_append, List.nil_append]
    rw [run_postorder_bindB env N hargc e h hb, Out.bind_assoc]
    congr 1; funext v
    rw [run_cons, evalStep_tk_unary env .isNull (by decide), Out.bind_assoc]
    simp only [Out.bind_ok]
  | .isNotNull e, h, hb, k, st => by
    simp only [opsOk] at h
    simp only [argcLt] at hb
    simp only [postorder, evalTree, List.append_assoc, List.cons_append, List.nil_append]
    rw [run_postorder_bindB env N hargc e h hb, Out.bind_assoc]
    congr 1; funext v
    rw [run_cons, evalStep_tk_unary env .isNotNull (by decide), Out.bind_assoc]
    simp only [Out.bind_ok]
  | .index e i, h, hb, k, st => by
    simp only [opsOk, Bool.and_eq_true] at h
    simp only [argcLt, Bool.and_eq_true] at hb
    simp only [postorder, evalTree, List.append_assoc, List.cons_append, List.nil_append]
    rw [run_postorder_bindB env N hargc e h.1 hb.1, Out.bind_assoc]
    congr 1; funext v
    rw [run_postorder_bindB env N hargc i h.2 hb.2, Out.bind_assoc]
    congr 1; funext w
    rw [run_cons, evalStep_tk_binary env .element (by decide), Out.bind_assoc]
    simp only [Out.bind_ok]
  | .notIn l r, h, hb, k, st => by
    simp only [opsOk, Bool.and_eq_true] at h
    simp only [argcLt, Bool.and_eq_true] at hb
    simp only [postorder, evalTree, List.append_assoc, List.cons_append, List.nil_append]
    rw [run_postorder_bindB env N hargc l h.1 hb.1, Out.bind_assoc]
    congr 1; funext v
    rw [run_postorder_bindB env N hargc r h.2 hb.2, Out.bind_assoc]
    congr 1; funext w
    rw [run_cons, evalStep_tk_binary env .notIn (by decide), Out.bind_assoc]
    simp only [Out.bind_ok]
  | .notLike l r, h, hb, k, st => by
    simp only [opsOk, Bool.and_eq_true] at h
    simp only [argcLt, Bool.and_eq_true] at hb
    simp only [postorder, evalTree, List.append_assoc, List.cons_append, List.nil_append]
    rw [run_postorder_bindB env N hargc l h.1 hb.1, Out.bind_assoc]
    congr 1; funext v
    rw [run_postorder_bindB env N hargc r h.2 hb.2, Out.bind_assoc]
    cases evalTree env r <;> rfl
  | .bin op l r, h, hb, k, st => by
    simp only [opsOk, Bool.and_eq_true, Option.isSome_iff_ne_none] at h
    simp only [argcLt, Bool.and_eq_true] at hb
    simp only [postorder, evalTree, List.append_assoc, List.cons_append, List.nil_append]
    rw [run_postorder_bindB env N hargc l h.1.2 hb.1, Out.bind_assoc]
    congr 1; funext v
    rw [run_postorder_bindB env N hargc r h.2 hb.2, Out.bind_assoc]
    congr 1; funext w
    rw [run_cons, evalStep_tk_op env op h.1.1, Out.bind_assoc]
    simp only [Out.bind_ok]
theorem run_postorderArgs_bindB (env : EvalEnv κ V) (N : Nat)
    (hargc : ∀ n, n < N → env.asArgc (env.ofArgc n) = some n) :
    ∀ (a : Args κ), opsOkArgs a = true → argcLtArgs N a = true →
      ∀ (k : List (ETok κ)) (st : List V),
      run env (postorderArgs a ++ k) st =
        (evalArgs env a).bind fun vs => run env k (vs.reverse ++ st)
  | .nil, _, _, k, st => by
    simp only [postorderArgs, evalArgs, List.nil_append, Out.bind_ok, List.reverse_nil]
  | .cons e rest, h, hb, k, st => by
    simp only [opsOkArgs, Bool.and_eq_true] at h
    simp only [argcLtArgs, Bool.and_eq_true] at hb
    simp only [postorderArgs, evalArgs, List.append_assoc]
    rw [run_postorder_bindB env N hargc e h.1 hb.1, Out.bind_assoc]
    congr 1; funext v
    rw [run_postorderArgs_bindB env N hargc rest h.2 hb.2, Out.bind_assoc]
    congr 1; funext vs
    simp only [Out.bind_ok, List.reverse_cons, List.append_assoc, List.cons_append,
      List.nil_append]
end

/-- C01 (`C01_calc_eq_tree`) under the bounded round trip -/
theorem calc_eq_treeB (env : EvalEnv κ V) (N : Nat)
    (hargc : ∀ n, n < N → env.asArgc (env.ofArgc n) = some n)
    (t : Expr κ) (ht : Expr.opsOk t = true) (hb : Expr.argcLt N t = true) :
    evaluate env t.postorder = Expr.evalTree env t := by
  have h := run_postorder_bindB env N hargc t ht hb [] []
  rw [List.append_nil] at h
  rw [evaluate, h]
  cases Expr.evalTree env t <;> rfl

/-- `C01_no_stack_panic` under the bounded round trip -/
theorem no_stack_panicB (env : EvalEnv κ V) (N : Nat)
    (hargc : ∀ n, n < N → env.asArgc (env.ofArgc n) = some n)
    (t : Expr κ) (ht : Expr.opsOk t = true) (hb : Expr.argcLt N t = true)
    (hf : ∀ name args, ∀ s, env.callFn name args ≠ .panic s)
    (hbin : ∀ op v w s, env.binop op v w ≠ .panic s)
    (hu : ∀ op v s, env.unop op v ≠ .panic s) :
    ∀ s, evaluate env t.postorder ≠ .panic s := by
  intro s
  rw [calc_eq_treeB env N hargc t ht hb]
  exact evalTree_no_panic env hf hbin hu s t

/-! ## §2 the argument counts of a tree are bounded by the length of its token sequence -/

namespace Expr

theorem unparse_length_pos : ∀ t : Expr κ, 1 ≤ (unparse t).length := by
  intro t
  cases t <;> simp only [unparse, List.length_append, List.length_cons, List.length_nil] <;> omega

theorem unparseArgs_cons_length (e : Expr κ) (rest : Args κ) :
    (unparse e).length + (unparseArgs rest).length ≤ (unparseArgs (.cons e rest)).length := by
  cases rest with
  | nil => simp only [unparseArgs, List.length_nil]; omega
  | cons e' r =>
    simp only [unparseArgs, List.length_append, List.length_cons, List.length_nil]; omega

theorem argsLength_le : ∀ a : Args κ, argsLength a ≤ (unparseArgs a).length
  | .nil => by simp only [argsLength, unparseArgs, List.length_nil]; omega
  | .cons e rest => by
    have h1 := unparse_length_pos e
    have h2 := argsLength_le rest
    have h3 := unparseArgs_cons_length e rest
    simp only [argsLength]; omega

mutual
theorem argcLt_of_length (N : Nat) : ∀ t : Expr κ, (unparse t).length < N → argcLt N t = true
  | .const _, _ => rfl
  | .var _, _ => rfl
  | .paren e, h => by
    simp only [unparse, List.length_append, List.length_cons, List.length_nil] at h
    simp only [argcLt]; exact argcLt_of_length N e (by omega)
  | .call _ args, h => by
    simp only [unparse, List.length_append, List.length_cons, List.length_nil] at h
    have := argsLength_le args
    simp only [argcLt, Bool.and_eq_true, decide_eq_true_eq]
    exact ⟨by omega, argcLtArgs_of_length N args (by omega)⟩
  | .neg e, h => by
    simp only [unparse, List.length_append, List.length_cons, List.length_nil] at h
    simp only [argcLt]; exact argcLt_of_length N e (by omega)
  | .pos e, h => by
    simp only [unparse, List.length_append, List.length_cons, List.length_nil] at h
    simp only [argcLt]; exact argcLt_of_length N e (by omega)
  | .index e i, h => by
    simp only [unparse, List.length_append, List.length_cons, List.length_nil] at h
    simp only [argcLt, Bool.and_eq_true]
    exact ⟨argcLt_of_length N e (by omega), argcLt_of_length N i (by omega)⟩
  | .bin _ l r, h => by
    simp only [unparse, List.length_append, List.length_cons, List.length_nil] at h
    simp only [argcLt, Bool.and_eq_true]
    exact ⟨argcLt_of_length N l (by omega), argcLt_of_length N r (by omega)⟩
  | .notLike l r, h => by
    simp only [unparse, List.length_append, List.length_cons, List.length_nil] at h
    simp only [argcLt, Bool.and_eq_true]
    exact ⟨argcLt_of_length N l (by omega), argcLt_of_length N r (by omega)⟩
  | .notIn l r, h => by
    simp only [unparse, List.length_append, List.length_cons, List.length_nil] at h
    simp only [argcLt, Bool.and_eq_true]
    exact ⟨argcLt_of_length N l (by omega), argcLt_of_length N r (by omega)⟩
  | .not e, h => by
    simp only [unparse, List.length_append, List.length_cons, List.length_nil] at h
    simp only [argcLt]; exact argcLt_of_length N e (by omega)
  | .isNull e, h => by
    simp only [unparse, List.length_append, List.length_cons, List.length_nil] at h
    simp only [argcLt]; exact argcLt_of_length N e (by omega)
  | .isNotNull e, h => by
    simp only [unparse, List.length_append, List.length_cons, List.length_nil] at h
    simp only [argcLt]; exact argcLt_of_length N e (by omega)
theorem argcLtArgs_of_length (N : Nat) :
    ∀ a : Args κ, (unparseArgs a).length < N → argcLtArgs N a = true
  | .nil, _ => rfl
  | .cons e rest, h => by
    have h3 := unparseArgs_cons_length e rest
    simp only [argcLtArgs, Bool.and_eq_true]
    exact ⟨argcLt_of_length N e (by omega), argcLtArgs_of_length N rest (by omega)⟩
end

end Expr

end generic

/-! ## §3 `calcEnv` never panics in an operation or a function call -/

section calcEnvFacts

theorem R.toOut_ne_panic {r : R} (h : r.NoPanic) (s : String) : r.toOut ≠ .panic s := by
  cases r with
  | ok v => intro h'; cases h'
  | err c => intro h'; cases h'
  | panic s' => exact absurd rfl (h s')

theorem calcEnv_callFn_ne_panic (m : Mgr) (dec : String → V) (vars : List (List Rune × V))
    (name : List Rune) (args : List V) (s : String) :
    (calcEnv m dec vars).callFn name args ≠ .panic s :=
  R.toOut_ne_panic (fun s => C08_never_panics m name args s) s

theorem calcEnv_binop_ne_panic (m : Mgr) (dec : String → V) (vars : List (List Rune × V))
    (op : ET) (v w : V) (s : String) : (calcEnv m dec vars).binop op v w ≠ .panic s := by
  show (match op with
      | .in_ => (binop m .in_ w v).toOut
      | .notIn =>
        match binop m .in_ w v with
        | .ok (.bool r) => .ok (.bool (!r))
        | r => r.toOut
      | .element => (binop m .getElement v w).toOut
      | t =>
        match etOp t with
        | some op => (binop m op v w).toOut
        | none => .err "INTERNAL") ≠ Out.panic s
  split
  · exact R.toOut_ne_panic (binop_noPanic m _ _ _) s
  · split
    · intro h; cases h
    · exact R.toOut_ne_panic (binop_noPanic m _ _ _) s
  · exact R.toOut_ne_panic (binop_noPanic m _ _ _) s
  · split
    · exact R.toOut_ne_panic (binop_noPanic m _ _ _) s
    · intro h; cases h

theorem calcEnv_unop_ne_panic (m : Mgr) (dec : String → V) (vars : List (List Rune × V))
    (op : ET) (v : V) (s : String) : (calcEnv m dec vars).unop op v ≠ .panic s := by
  show (match op with
      | .not => (unop .not v).toOut
      | .unary => (unop .neg v).toOut
      | .isNull => .ok (.bool (v.typ == .null))
      | .isNotNull => .ok (.bool (v.typ != .null))
      | _ => .err "INTERNAL") ≠ Out.panic s
  split
  · exact R.toOut_ne_panic (fun s => C06_never_panics.2.1 _ _ s) s
  · exact R.toOut_ne_panic (fun s => C06_never_panics.2.1 _ _ s) s
  · intro h; cases h
  · intro h; cases h
  · intro h; cases h

theorem calcEnv_argc (m : Mgr) (dec : String → V) (vars : List (List Rune × V)) (n : Nat)
    (h : n < 2 ^ 63) : (calcEnv m dec vars).asArgc ((calcEnv m dec vars).ofArgc n) = some n := by
  show (if (Int64.ofNat n).toInt < 0 then some 0 else some (Int64.ofNat n).toInt.toNat) = some n
  rw [Int64.toInt_ofNat_of_lt h]
  have : ¬ ((n : Int) < 0) := by omega
  rw [if_neg this]
  simp

end calcEnvFacts

/-! ## §4 the template parser: fuel `length + 1` suffices -/

theorem parseSection_sec_nil (f : Nat) (v : List Rune) (t : MFlat) (h2 : isSection t.typ = true) :
    parseSection (f+1) v [t] = .error .unexpectedEnd := by
  have h1 : t.typ ≠ .sectionEnd := by
    intro h; rw [h] at h2; simp [isSection] at h2
  rw [parseSection.eq_def]; simp only [h1, h2, beq_iff_eq, if_false, if_true]

theorem MFlat.eta_end (t : MFlat) (h : t.typ = .sectionEnd) : t = ⟨.sectionEnd, t.value⟩ := by
  cases t; simp only at h; subst h; rfl

/-- the remainder returned by the section parser is strictly shorter than its input -/
theorem parseSection_rest_lt : ∀ (f : Nat) (var : List Rune) (l : List MFlat) (kids : MToks)
    (rest : List MFlat), parseSection f var l = .ok (kids, rest) → rest.length < l.length := by
  intro f
  induction f with
  | zero => intro var l kids rest h; rw [parseSection_zero] at h; cases h
  | succ f ih =>
    intro var l kids rest h
    cases l with
    | nil => rw [parseSection_nil] at h; cases h
    | cons t tl =>
      by_cases h1 : t.typ = .sectionEnd
      · rw [MFlat.eta_end t h1, parseSection_end] at h
        split at h
        · injection h with h; injection h with _ h; subst h
          simp only [List.length_cons]; omega
        · cases h
      · cases h2 : isSection t.typ with
        | false =>
          rw [parseSection_leaf f var t tl h1 h2] at h
          cases hp : parseSection f var tl with
          | error e => rw [hp] at h; cases h
          | ok r =>
            obtain ⟨sibs, rest2⟩ := r
            rw [hp] at h
            injection h with h; injection h with _ h; subst h
            have := ih var tl sibs rest2 hp
            simp only [List.length_cons]; omega
        | true =>
          cases tl with
          | nil => rw [parseSection_sec_nil f var t h2] at h; cases h
          | cons a b =>
            rw [parseSection_sec f var t (a :: b) h2 (by simp)] at h
            cases hp : parseSection f t.value (a :: b) with
            | error e => rw [hp] at h; cases h
            | ok r =>
              obtain ⟨kids1, rest1⟩ := r
              rw [hp] at h
              simp only at h
              cases hq : parseSection f var rest1 with
              | error e => rw [hq] at h; cases h
              | ok r2 =>
                obtain ⟨sibs, rest2⟩ := r2
                rw [hq] at h
                injection h with h; injection h with _ h; subst h
                have a1 := ih t.value (a :: b) kids1 rest1 hp
                have a2 := ih var rest1 sibs rest2 hq
                simp only [List.length_cons] at a1 ⊢; omega

/-- each recursive call consumes at least one token: fuel `length + 1` is never exhausted -/
theorem parseSection_fuel : ∀ (f : Nat) (var : List Rune) (l : List MFlat), l.length + 1 ≤ f →
    parseSection f var l ≠ .error .outOfFuel := by
  intro f
  induction f with
  | zero => intro var l h; omega
  | succ f ih =>
    intro var l hf
    cases l with
    | nil => rw [parseSection_nil]; intro h; cases h
    | cons t tl =>
      simp only [List.length_cons] at hf
      by_cases h1 : t.typ = .sectionEnd
      · rw [MFlat.eta_end t h1, parseSection_end]
        split <;> intro h <;> cases h
      · cases h2 : isSection t.typ with
        | false =>
          rw [parseSection_leaf f var t tl h1 h2]
          have := ih var tl (by omega)
          cases hp : parseSection f var tl with
          | error e =>
            simp only
            intro h; injection h with h; subst h; exact this hp
          | ok r => obtain ⟨a, b⟩ := r; simp only; intro h; cases h
        | true =>
          cases tl with
          | nil => rw [parseSection_sec_nil f var t h2]; intro h; cases h
          | cons a b =>
            rw [parseSection_sec f var t (a :: b) h2 (by simp)]
            have i1 := ih t.value (a :: b) (by simp only [List.length_cons] at hf ⊢; omega)
            cases hp : parseSection f t.value (a :: b) with
            | error e =>
              simp only
              intro h; injection h with h; subst h; exact i1 hp
            | ok r =>
              obtain ⟨kids1, rest1⟩ := r
              simp only
              have hl := parseSection_rest_lt f t.value (a :: b) kids1 rest1 hp
              have i2 := ih var rest1 (by simp only [List.length_cons] at hf hl; omega)
              cases hq : parseSection f var rest1 with
              | error e =>
                simp only
                intro h; injection h with h; subst h; exact i2 hq
              | ok r2 => obtain ⟨x, y⟩ := r2; simp only; intro h; cases h

theorem parseTop_fuel : ∀ (f : Nat) (l : List MFlat), l.length + 1 ≤ f →
    parseTop f l ≠ .error .outOfFuel := by
  intro f
  induction f with
  | zero => intro l h; omega
  | succ f ih =>
    intro l hf
    cases l with
    | nil => rw [parseTop_nil]; intro h; cases h
    | cons t tl =>
      simp only [List.length_cons] at hf
      by_cases h1 : t.typ = .sectionEnd
      · rw [MFlat.eta_end t h1, parseTop_end]; intro h; cases h
      · cases h2 : isSection t.typ with
        | false =>
          rw [parseTop_leaf f t tl h1 h2]
          have := ih tl (by omega)
          cases hp : parseTop f tl with
          | error e =>
            simp only
            intro h; injection h with h; subst h; exact this hp
          | ok r => simp only; intro h; cases h
        | true =>
          cases tl with
          | nil => rw [parseTop_sec_nil f t h2]; intro h; cases h
          | cons a b =>
            rw [parseTop_sec f t (a :: b) h2 (by simp)]
            have i1 := parseSection_fuel f t.value (a :: b)
              (by simp only [List.length_cons] at hf ⊢; omega)
            cases hp : parseSection f t.value (a :: b) with
            | error e =>
              simp only
              intro h; injection h with h; subst h; exact i1 hp
            | ok r =>
              obtain ⟨kids1, rest1⟩ := r
              simp only
              have hl := parseSection_rest_lt f t.value (a :: b) kids1 rest1 hp
              have i2 := ih rest1 (by simp only [List.length_cons] at hf hl; omega)
              cases hq : parseTop f rest1 with
              | error e =>
                simp only
                intro h; injection h with h; subst h; exact i2 hq
              | ok r2 => simp only; intro h; cases h

/-! ## §5 lexical analysis emits only structural token types; the parser's trees render -/

/-- the token types lexical analysis can emit: everything but Unknown and Partial -/
def MT.structural (t : MT) : Bool := t != .unknown && t != .partial_

def OutOK (l : List MFlat) : Prop := ∀ x ∈ l, x.typ.structural = true

theorem OutOK.snoc {l : List MFlat} (h : OutOK l) (x : MFlat) (hx : x.typ.structural = true) :
    OutOK (l ++ [x]) := by
  intro y hy
  rcases List.mem_append.mp hy with hy | hy
  · exact h y hy
  · rw [List.mem_singleton.mp hy]; exact hx

theorem lexClose_out (s : LexState) (v : List Rune) (s' : LexState)
    (h : lexClose s v = .ok s') (ho : OutOK s.out) : OutOK s'.out := by
  unfold lexClose at h
  split at h
  · cases h
  · have key : ∀ t : MT, t ≠ .partial_ →
        (if t == .unknown then (.error .internal : Except MErr LexState)
        else .ok { s with st := .value, op1 := [], op2 := [], var := [],
                          out := s.out ++ [⟨t, if t == .comment then [] else s.var⟩] }) = .ok s' →
        OutOK s'.out := by
      intro t htp ht
      split at ht
      · cases ht
      · rename_i hu
        cases ht
        refine ho.snoc _ ?_
        show t.structural = true
        cases t <;> first | rfl | exact absurd rfl htp | exact absurd rfl hu
    refine key _ ?_ h
    repeat' split
    all_goals decide

theorem lexStep_out (s : LexState) (t : Tok) (s' : LexState) (ho : OutOK s.out)
    (h : lexStep s t = .ok s') : OutOK s'.out := by
  obtain ⟨st, cl, o1, o2, vr, out⟩ := s
  cases st <;> simp [lexStep] at h <;> (repeat' split at h) <;>
    first
    | (cases h; done)
    | (cases h; exact ho)
    | (cases h; exact ho.snoc _ rfl)
    | (exact lexClose_out _ _ _ h ho)

theorem lexAll_out (toks : List Tok) (s s' : LexState) (ho : OutOK s.out)
    (h : lexAll s toks = .ok s') : OutOK s'.out := by
  induction toks generalizing s with
  | nil => cases h; exact ho
  | cons t ts ih =>
    simp only [lexAll] at h
    cases hs : lexStep s t with
    | error e => rw [hs] at h; cases h
    | ok s1 => rw [hs] at h; exact ih s1 (lexStep_out s t s1 ho hs) h

/-- lexical analysis never emits an Unknown or a Partial token -/
theorem lexical_out (toks : List Tok) (flat : List MFlat) (h : lexical toks = .ok flat) :
    OutOK flat := by
  unfold lexical at h
  cases hl : lexAll {} toks with
  | error e => rw [hl] at h; cases h
  | ok s =>
    rw [hl] at h
    simp only at h
    split at h
    · cases h
    · cases h
      exact lexAll_out toks {} s (fun x hx => by cases hx) hl

/-- the node types the renderer handles -/
def MT.renderable (t : MT) : Bool :=
  t == .value || t == .variable || t == .escapedVariable || t == .section ||
  t == .invertedSection || t == .comment

mutual
def MTok.renderable : MTok → Bool
  | .mk typ _ kids => typ.renderable && MToks.renderable kids
def MToks.renderable : MToks → Bool
  | .nil => true
  | .cons t rest => MTok.renderable t && MToks.renderable rest
end

theorem OutOK.head {t : MFlat} {l : List MFlat} (h : OutOK (t :: l)) : t.typ.structural = true :=
  h t List.mem_cons_self
theorem OutOK.tail {t : MFlat} {l : List MFlat} (h : OutOK (t :: l)) : OutOK l :=
  fun x hx => h x (List.mem_cons_of_mem _ hx)

theorem renderable_of_structural (t : MT) (h0 : t.structural = true) (h1 : t ≠ .sectionEnd) :
    t.renderable = true := by
  cases t <;> first | rfl | exact absurd rfl h1 | exact absurd h0 (by decide)

theorem parseSection_renderable : ∀ (f : Nat) (var : List Rune) (l : List MFlat) (kids : MToks)
    (rest : List MFlat), OutOK l → parseSection f var l = .ok (kids, rest) →
    kids.renderable = true ∧ OutOK rest := by
  intro f
  induction f with
  | zero => intro var l kids rest _ h; rw [parseSection_zero] at h; cases h
  | succ f ih =>
    intro var l kids rest ho h
    cases l with
    | nil => rw [parseSection_nil] at h; cases h
    | cons t tl =>
      by_cases h1 : t.typ = .sectionEnd
      · rw [MFlat.eta_end t h1, parseSection_end] at h
        split at h
        · injection h with h; injection h with h h'; subst h; subst h'
          exact ⟨rfl, ho.tail⟩
        · cases h
      · have hr := renderable_of_structural t.typ ho.head h1
        cases h2 : isSection t.typ with
        | false =>
          rw [parseSection_leaf f var t tl h1 h2] at h
          cases hp : parseSection f var tl with
          | error e => rw [hp] at h; cases h
          | ok r =>
            obtain ⟨sibs, rest2⟩ := r
            rw [hp] at h
            injection h with h; injection h with h h'; subst h; subst h'
            have := ih var tl sibs rest2 ho.tail hp
            refine ⟨?_, this.2⟩
            simp only [MToks.renderable, MTok.renderable, hr, this.1, Bool.and_self]
        | true =>
          cases tl with
          | nil => rw [parseSection_sec_nil f var t h2] at h; cases h
          | cons a b =>
            rw [parseSection_sec f var t (a :: b) h2 (by simp)] at h
            cases hp : parseSection f t.value (a :: b) with
            | error e => rw [hp] at h; cases h
            | ok r =>
              obtain ⟨kids1, rest1⟩ := r
              rw [hp] at h
              simp only at h
              cases hq : parseSection f var rest1 with
              | error e => rw [hq] at h; cases h
              | ok r2 =>
                obtain ⟨sibs, rest2⟩ := r2
                rw [hq] at h
                injection h with h; injection h with h h'; subst h; subst h'
                have a1 := ih t.value (a :: b) kids1 rest1 ho.tail hp
                have a2 := ih var rest1 sibs rest2 a1.2 hq
                refine ⟨?_, a2.2⟩
                simp only [MToks.renderable, MTok.renderable, hr, a1.1, a2.1, Bool.and_self]

theorem parseTop_renderable : ∀ (f : Nat) (l : List MFlat) (tree : MToks),
    OutOK l → parseTop f l = .ok tree → tree.renderable = true := by
  intro f
  induction f with
  | zero => intro l tree _ h; rw [parseTop_zero] at h; cases h
  | succ f ih =>
    intro l tree ho h
    cases l with
    | nil => rw [parseTop_nil] at h; cases h; rfl
    | cons t tl =>
      by_cases h1 : t.typ = .sectionEnd
      · rw [MFlat.eta_end t h1, parseTop_end] at h; cases h
      · have hr := renderable_of_structural t.typ ho.head h1
        cases h2 : isSection t.typ with
        | false =>
          rw [parseTop_leaf f t tl h1 h2] at h
          cases hp : parseTop f tl with
          | error e => rw [hp] at h; cases h
          | ok sibs =>
            rw [hp] at h
            injection h with h; subst h
            have := ih tl sibs ho.tail hp
            simp only [MToks.renderable, MTok.renderable, hr, this, Bool.and_self]
        | true =>
          cases tl with
          | nil => rw [parseTop_sec_nil f t h2] at h; cases h
          | cons a b =>
            rw [parseTop_sec f t (a :: b) h2 (by simp)] at h
            cases hp : parseSection f t.value (a :: b) with
            | error e => rw [hp] at h; cases h
            | ok r =>
              obtain ⟨kids1, rest1⟩ := r
              rw [hp] at h
              simp only at h
              cases hq : parseTop f rest1 with
              | error e => rw [hq] at h; cases h
              | ok sibs =>
                rw [hq] at h
                injection h with h; subst h
                have a1 := parseSection_renderable f t.value (a :: b) kids1 rest1 ho.tail hp
                have a2 := ih rest1 sibs a1.2 hq
                simp only [MToks.renderable, MTok.renderable, hr, a1.1, a2, Bool.and_self]

mutual
theorem renderTok_ok (vars : List (List Rune × List Rune)) :
    ∀ t : MTok, t.renderable = true → ∃ out, renderTok vars t = .ok out
  | .mk typ value kids, h => by
    simp only [MTok.renderable, Bool.and_eq_true] at h
    cases typ <;> first
      | exact absurd h.1 (by decide)
      | (simp only [renderTok]
         first
         | exact ⟨_, rfl⟩
         | (split
            · exact renderToks_ok vars kids h.2
            · exact ⟨_, rfl⟩))
theorem renderToks_ok (vars : List (List Rune × List Rune)) :
    ∀ ts : MToks, ts.renderable = true → ∃ out, renderToks vars ts = .ok out
  | .nil, _ => ⟨[], by simp only [renderToks]⟩
  | .cons t rest, h => by
    simp only [MToks.renderable, Bool.and_eq_true] at h
    obtain ⟨a, ha⟩ := renderTok_ok vars t h.1
    obtain ⟨b, hb⟩ := renderToks_ok vars rest h.2
    exact ⟨a ++ b, by simp only [renderToks, ha, hb]⟩
end

mutual
/-- the renderer has a single error: INTERNAL -/
theorem renderTok_err (vars : List (List Rune × List Rune)) :
    ∀ (t : MTok) (e : MErr), renderTok vars t = .error e → e = .internal
  | .mk typ value kids, e, h => by
    cases typ <;> simp only [renderTok] at h <;> first
      | (cases h; done)
      | (injection h with h; exact h.symm)
      | (split at h
         · exact renderToks_err vars kids e h
         · cases h)
theorem renderToks_err (vars : List (List Rune × List Rune)) :
    ∀ (ts : MToks) (e : MErr), renderToks vars ts = .error e → e = .internal
  | .nil, e, h => by simp only [renderToks] at h; cases h
  | .cons t rest, e, h => by
    simp only [renderToks] at h
    cases ha : renderTok vars t with
    | error e' =>
      rw [ha] at h; simp only at h
      injection h with h; subst h
      exact renderTok_err vars t e' ha
    | ok a =>
      rw [ha] at h; simp only at h
      cases hb : renderToks vars rest with
      | error e' =>
        rw [hb] at h; simp only at h
        injection h with h; subst h
        exact renderToks_err vars rest e' hb
      | ok b => rw [hb] at h; cases h
end

/-! ### lexical analysis has no fuel; the shape of `parseTemplate` -/

theorem lexClose_noFuel (s : LexState) (v : List Rune) : lexClose s v ≠ .error .outOfFuel := by
  intro h
  unfold lexClose at h
  split at h
  · cases h
  · have key : ∀ t : MT, (if t == .unknown then (.error .internal : Except MErr LexState)
        else .ok { s with st := .value, op1 := [], op2 := [], var := [],
                          out := s.out ++ [⟨t, if t == .comment then [] else s.var⟩] }) ≠
        .error .outOfFuel := by
      intro t ht
      split at ht <;> cases ht
    exact key _ h

theorem lexStep_noFuel (s : LexState) (t : Tok) : lexStep s t ≠ .error .outOfFuel := by
  intro h
  obtain ⟨st, cl, o1, o2, vr, out⟩ := s
  cases st <;> simp [lexStep] at h <;> (repeat' split at h) <;>
    first
    | (cases h; done)
    | (exact lexClose_noFuel _ _ h)

theorem lexAll_noFuel (toks : List Tok) (s : LexState) : lexAll s toks ≠ .error .outOfFuel := by
  induction toks generalizing s with
  | nil => intro h; cases h
  | cons t ts ih =>
    simp only [lexAll]
    cases hs : lexStep s t with
    | error e =>
      simp only
      intro h; injection h with h; subst h; exact lexStep_noFuel s t hs
    | ok s1 => exact ih s1

theorem lexical_noFuel (toks : List Tok) : lexical toks ≠ .error .outOfFuel := by
  unfold lexical
  cases hl : lexAll {} toks with
  | error e =>
    simp only
    intro h; injection h with h; subst h; exact lexAll_noFuel toks {} hl
  | ok s =>
    simp only
    split <;> intro h <;> cases h

/-- what `parseTemplate` computes, as a case distinction -/
theorem parseTemplate_cases (src : List Rune) :
    parseTemplate src = .ok ⟨.nil, []⟩ ∨
    (∃ e, lexical (tokenize mustacheCfg mustacheOpts (trimStr src)) = .error e ∧
      parseTemplate src = .error e) ∨
    parseTemplate src = .error .unexpectedEnd ∨
    (∃ flat, lexical (tokenize mustacheCfg mustacheOpts (trimStr src)) = .ok flat ∧
      parseTemplate src =
        match parseTop (flat.length + 1) flat with
        | .error e => .error e
        | .ok tree => .ok ⟨tree, lookupVars flat⟩) := by
  unfold parseTemplate
  simp only
  split
  · exact .inl rfl
  · split
    · exact .inl rfl
    · cases hl : lexical (tokenize mustacheCfg mustacheOpts (trimStr src)) with
      | error e => exact .inr (.inl ⟨e, rfl, rfl⟩)
      | ok flat =>
        cases flat with
        | nil => exact .inr (.inr (.inl rfl))
        | cons a b => exact .inr (.inr (.inr ⟨a :: b, rfl, rfl⟩))

/-! ## §6 the token loop: final state, progress of ReadNextToken, fuel -/

section tokenLoop
open Scanner

/-- the final state of the `drain` loop: the state in which `NextToken` answered `nil` — or the
state reached when the loop's fuel ran out -/
def drainState (cfg : Cfg) (o : Opts) : Nat → TState → TState
  | 0, st => st
  | f+1, st =>
    match (nextTok cfg o st).1 with
    | none => st
    | some _ => drainState cfg o f (nextTok cfg o st).2

theorem drainState_succ (cfg : Cfg) (o : Opts) (f : Nat) (st : TState) :
    drainState cfg o (f+1) st =
      match (nextTok cfg o st).1 with
      | none => st
      | some _ => drainState cfg o f (nextTok cfg o st).2 := rfl

/-- the part of `processRaw` after the Unknown filter and the string decoding -/
def procRest (o : Opts) (last pl pc : Nat) (t1 : Tok) : Option Tok :=
  if t1.typ == TT.comment && o.skipComments then none
  else if t1.typ == TT.whitespace && last == TT.whitespace && o.skipWhitespaces then none
  else
    let t2 : Tok := if t1.typ == TT.whitespace && o.mergeWhitespaces then { typ := TT.whitespace, value := [32], line := pl, col := pc } else t1
    let t3 : Tok := if o.unifyNumbers && isNumTyp t2.typ then { typ := TT.number, value := t2.value, line := pl, col := pc } else t2
    some t3

theorem processRaw_eq_rest (cfg : Cfg) (o : Opts) (last : Nat) (r : Raw) (pl pc : Nat) :
    processRaw cfg o last r pl pc =
      if r.tok.typ == TT.unknown && o.skipUnknown then none
      else procRest o last pl pc
        (match r.quote with
         | some q => if o.decodeStrings then { typ := r.tok.typ, value := decodeFor cfg q r.tok.value, line := pl, col := pc } else r.tok
         | none => r.tok) := rfl

theorem procRest_typ_ne_eof (o : Opts) (last pl pc : Nat) (t1 t : Tok)
    (h : procRest o last pl pc t1 = some t) (hr : t1.typ ≠ TT.eof) : t.typ ≠ TT.eof := by
  unfold procRest at h
  split at h
  · cases h
  · split at h
    · cases h
    · injection h with h
      subst h
      repeat' split
      all_goals first
        | exact (by decide : TT.number ≠ TT.eof)
        | exact (by decide : TT.whitespace ≠ TT.eof)
        | exact hr

/-- the option processing never turns a token into an Eof token -/
theorem processRaw_typ_ne_eof (cfg : Cfg) (o : Opts) (last : Nat) (r : Raw) (pl pc : Nat) (t : Tok)
    (h : processRaw cfg o last r pl pc = some t) (hr : r.tok.typ ≠ TT.eof) : t.typ ≠ TT.eof := by
  rw [processRaw_eq_rest] at h
  split at h
  · cases h
  · refine procRest_typ_ne_eof o last pl pc _ t h ?_
    cases r.quote with
    | none => exact hr
    | some q =>
      dsimp only
      split
      · exact hr
      · exact hr

/-- progress of one `readNextA` call that returns a token: the cursor moved forward, or the
token is the final Eof (cursor unchanged, `last` switches to Eof); and `last = Eof` is only ever
set at the end of the input.  No fuel hypothesis: running out of fuel answers `nil`. -/
theorem readNextA_progress (cfg : Cfg) (hc : RawContract cfg) (o : Opts) (f : Nat) (st : TState)
    (hw : st.s.WF) (t : Tok) (h : (readNextA cfg o f st).1 = some t) :
    ((readNextA cfg o f st).2.last = TT.eof → (readNextA cfg o f st).2.s.peek = none) ∧
    ((st.s.pos < st.s.content.length ∧ st.s.pos < (readNextA cfg o f st).2.s.pos) ∨
      (st.s.pos = (readNextA cfg o f st).2.s.pos ∧ st.last ≠ TT.eof ∧
        (readNextA cfg o f st).2.last = TT.eof)) := by
  induction f generalizing st with
  | zero => exact absurd h (by simp [readNextA])
  | succ f ih =>
    cases hpk : st.s.peek with
    | none =>
      rw [readNextA_none cfg o f st hpk] at h ⊢
      split at h
      · rename_i hcond
        rw [if_pos hcond]
        simp only [Bool.and_eq_true, bne_iff_ne, ne_eq] at hcond
        exact ⟨fun _ => hpk, .inr ⟨rfl, hcond.1, rfl⟩⟩
      · cases h
    | some ch =>
      rw [readNextA_some cfg o f st ch hpk] at h ⊢
      have hr := hc st.s ch hw hpk
      cases hp : processRaw cfg o st.last (rawNext cfg ch st.s).1 st.s.peekLine st.s.peekColumn with
      | some t' =>
        simp only
        refine ⟨fun hl => ?_, .inl ⟨(peek_some_lt hpk).1, hr.progress⟩⟩
        exact absurd hl (processRaw_typ_ne_eof cfg o _ _ _ _ t' hp hr.notEof)
      | none =>
        rw [hp] at h
        simp only at h ⊢
        have := ih { st with s := (rawNext cfg ch st.s).2 } hr.wf h
        refine ⟨this.1, .inl ⟨(peek_some_lt hpk).1, ?_⟩⟩
        have hprog : st.s.pos < (rawNext cfg ch st.s).2.pos := hr.progress
        rcases this.2 with h2 | h2
        · exact Nat.lt_trans hprog h2.2
        · have := h2.1
          simp only at this
          omega

theorem mustacheTail_fst (r : Option Tok × TState) : (mustacheTail r).1 = r.1 := by
  unfold mustacheTail
  split
  · split <;> rfl
  · rfl

theorem mustacheTail_snd (r : Option Tok × TState) :
    (mustacheTail r).2.s = r.2.s ∧ (mustacheTail r).2.last = r.2.last := by
  unfold mustacheTail
  split
  · split <;> exact ⟨rfl, rfl⟩
  · exact ⟨rfl, rfl⟩

/-- the text step never moves the cursor backwards, and a non-empty text token moves it forward -/
theorem spStep_mono (st : TState) (hw : st.s.WF) :
    st.s.pos ≤ (spStep st).2.pos ∧
    (st.special = true → (spStep st).1.value.isEmpty = false → st.s.pos < (spStep st).2.pos) := by
  unfold spStep
  cases st.special with
  | false => exact ⟨Nat.le_refl _, fun h => by cases h⟩
  | true =>
    simp only [if_true]
    by_cases hp : st.s.pos ≤ st.s.content.length
    · have hseg := specialState_seg_le (st.s.content.length + 2) st.s hw hp (by omega)
      refine ⟨hseg.mono, fun _ hne => ?_⟩
      have hlen : (specialState (st.s.content.length + 2) st.s).1.value.length ≠ 0 := by
        intro h0
        rw [List.length_eq_zero_iff.mp h0] at hne
        cases hne
      rw [hseg.seg, slice_length] at hlen
      omega
    · have hgt : st.s.pos > st.s.content.length := by omega
      have hrd : st.s.read = (none, st.s) := by
        unfold Scanner.read; rw [if_pos hgt]
      have h2 : (specialState (st.s.content.length + 2) st.s).2 = st.s := by
        unfold specialState
        simp only [hrd, specialLoop]
      have h1 : (specialState (st.s.content.length + 2) st.s).1.value = [] := by
        unfold specialState
        simp only [hrd, specialLoop]
      rw [h2, h1]
      exact ⟨Nat.le_refl _, fun _ h => by cases h⟩

/-- the invariant of the token loop: well-formed scanner, empty has-next cache, and `last = Eof`
only at the end of the input -/
structure LoopOK (st : TState) : Prop where
  wf : st.s.WF
  cache : st.cached = none
  eofAtEnd : st.last = TT.eof → st.s.content.length ≤ st.s.pos

/-- how many more tokens the loop can deliver: one per unread slot, one for Eof -/
def tokBudget (st : TState) : Nat :=
  (st.s.content.length + 1 - st.s.pos) + (if st.last = TT.eof then 0 else 1)

theorem peek_none_of_ge {s : Scanner} (h : s.content.length ≤ s.pos) : s.peek = none := by
  rw [peek_eq]; exact List.getElem?_eq_none_iff.mpr h

/-- **progress of ReadNextToken** (all four kinds, the mustache override included): a call that
returns a token keeps the loop invariant and strictly lowers the budget -/
theorem readNext_progress (cfg : Cfg) (hc : RawContract cfg) (o : Opts) (st : TState)
    (hi : LoopOK st) (t : Tok) (h : (readNext cfg o st).1 = some t) :
    LoopOK (readNext cfg o st).2 ∧ (readNext cfg o st).2.s.content = st.s.content ∧
    tokBudget (readNext cfg o st).2 < tokBudget st := by
  have hspec := readNext_spec cfg hc o st hi.wf
  have hcache : (readNext cfg o st).2.cached = none := by rw [readNext_cached, hi.cache]
  -- the two facts that drive everything
  have key : ((readNext cfg o st).2.last = TT.eof →
        (readNext cfg o st).2.s.peek = none ∨ (readNext cfg o st).2.last = st.last) ∧
      (st.s.pos < (readNext cfg o st).2.s.pos ∧
          ((readNext cfg o st).2.last = st.last ∨ st.last ≠ TT.eof) ∨
        (st.s.pos ≤ (readNext cfg o st).2.s.pos ∧ st.last ≠ TT.eof ∧
          (readNext cfg o st).2.last = TT.eof)) := by
    by_cases hk : cfg.kind = .mustache
    · rw [readNext_mustache cfg hk o st] at h ⊢
      have hm := spStep_mono st hi.wf
      split
      · rename_i hcond
        simp only [Bool.and_eq_true, Bool.not_eq_true'] at hcond
        exact ⟨fun _ => .inr rfl, .inl ⟨hm.2 hcond.1 hcond.2, .inl rfl⟩⟩
      · rename_i hcond
        rw [if_neg hcond] at h
        rw [mustacheTail_fst] at h
        obtain ⟨hspw, hspc⟩ := specialStep_wf st hi.wf
        have hA := readNextA_progress cfg hc o (st.s.content.length + 3)
          { st with s := (spStep st).2, special := false } hspw t h
        obtain ⟨e1, e2⟩ := mustacheTail_snd (readNextA cfg o (st.s.content.length + 3)
          { st with s := (spStep st).2, special := false })
        rw [e1, e2]
        refine ⟨fun hl => .inl (hA.1 hl), ?_⟩
        rcases hA.2 with h2 | h2
        · have h21 : (spStep st).2.pos < (spStep st).2.content.length := h2.1
          rw [hspc] at h21
          have hne : st.last ≠ TT.eof := fun hl => by
            have := hi.eofAtEnd hl
            omega
          exact .inl ⟨Nat.lt_of_le_of_lt hm.1 h2.2, .inr hne⟩
        · exact .inr ⟨by have := h2.1; simp only at this; omega, h2.2.1, h2.2.2⟩
    · rw [readNext_eq cfg hk o st] at h ⊢
      have hA := readNextA_progress cfg hc o (st.s.content.length + 3) st hi.wf t h
      refine ⟨fun hl => .inl (hA.1 hl), ?_⟩
      rcases hA.2 with h2 | h2
      · have hne : st.last ≠ TT.eof := fun hl => by
          have := hi.eofAtEnd hl
          omega
        exact .inl ⟨h2.2, .inr hne⟩
      · exact .inr ⟨by omega, h2.2.1, h2.2.2⟩
  generalize readNext cfg o st = r at hspec hcache key
  obtain ⟨hwf', hcont, _⟩ := hspec
  have hpos' : r.2.s.pos ≤ r.2.s.content.length + 1 := hwf'.1
  have hmono : st.s.pos ≤ r.2.s.pos := by
    rcases key.2 with h2 | h2
    · exact Nat.le_of_lt h2.1
    · exact h2.1
  refine ⟨⟨hwf', hcache, fun hl => ?_⟩, hcont, ?_⟩
  · rcases key.1 hl with h1 | h1
    · exact peek_none_ge h1
    · rw [hcont]
      exact Nat.le_trans (hi.eofAtEnd (by rw [← h1]; exact hl)) hmono
  · unfold tokBudget
    rw [hcont]
    rw [hcont] at hpos'
    rcases key.2 with ⟨h2, h3⟩ | ⟨h2, h3, h4⟩
    · have hlt : st.s.pos < st.s.content.length + 1 := by omega
      rcases h3 with h3 | h3
      · rw [h3]
        by_cases hq : st.last = TT.eof
        · rw [if_pos hq]; omega
        · rw [if_neg hq]; omega
      · rw [if_neg h3]
        split <;> omega
    · rw [if_pos h4, if_neg h3]; omega

theorem nextTok_of_empty (cfg : Cfg) (o : Opts) (st : TState) (h : st.cached = none) :
    nextTok cfg o st = readNext cfg o st := by
  unfold nextTok; rw [h]

/-- progress of NextToken on a state of the token loop -/
theorem nextTok_progress (cfg : Cfg) (hc : RawContract cfg) (o : Opts) (st : TState)
    (hi : LoopOK st) (t : Tok) (h : (nextTok cfg o st).1 = some t) :
    LoopOK (nextTok cfg o st).2 ∧ (nextTok cfg o st).2.s.content = st.s.content ∧
    tokBudget (nextTok cfg o st).2 < tokBudget st := by
  rw [nextTok_of_empty cfg o st hi.cache] at h ⊢
  exact readNext_progress cfg hc o st hi t h

theorem loopOK_start (c : List Rune) : LoopOK (TState.start c) :=
  ⟨new_wf c, rfl, fun h => absurd h (show TT.unknown ≠ TT.eof by decide)⟩

theorem tokBudget_start (c : List Rune) : tokBudget (TState.start c) = c.length + 2 := rfl

/-- the loop delivers at most `tokBudget` tokens -/
theorem drain_length_le (cfg : Cfg) (hc : RawContract cfg) (o : Opts) (f : Nat) :
    ∀ st : TState, LoopOK st → (drain cfg o f st).length ≤ tokBudget st := by
  induction f with
  | zero => intro st _; exact Nat.zero_le _
  | succ f ih =>
    intro st hi
    rw [drain_succ]
    cases h : (nextTok cfg o st).1 with
    | none => exact Nat.zero_le _
    | some t =>
      obtain ⟨hi', _, hlt⟩ := nextTok_progress cfg hc o st hi t h
      have := ih _ hi'
      simp only [List.length_cons]
      omega

/-- once the fuel exceeds the budget it no longer matters: the list ends because NextToken
answered `nil`, not because the loop ran out of fuel -/
theorem drain_fuel_irrelevant (cfg : Cfg) (hc : RawContract cfg) (o : Opts) (f : Nat) :
    ∀ (st : TState) (f' : Nat), LoopOK st → tokBudget st < f → tokBudget st < f' →
      drain cfg o f st = drain cfg o f' st := by
  induction f with
  | zero => intro st f' _ h; omega
  | succ f ih =>
    intro st f' hi hf hf'
    obtain ⟨g, rfl⟩ : ∃ g, f' = g + 1 := ⟨f' - 1, by omega⟩
    rw [drain_succ, drain_succ]
    cases h : (nextTok cfg o st).1 with
    | none => rfl
    | some t =>
      obtain ⟨hi', _, hlt⟩ := nextTok_progress cfg hc o st hi t h
      simp only
      rw [ih _ g hi' (by omega) (by omega)]

/-- with fuel above the budget the loop stops in a state where NextToken answers `nil` -/
theorem drainState_complete (cfg : Cfg) (hc : RawContract cfg) (o : Opts) (f : Nat) :
    ∀ st : TState, LoopOK st → tokBudget st < f →
      LoopOK (drainState cfg o f st) ∧ (drainState cfg o f st).s.content = st.s.content ∧
      (nextTok cfg o (drainState cfg o f st)).1 = none := by
  induction f with
  | zero => intro st _ h; omega
  | succ f ih =>
    intro st hi hf
    rw [drainState_succ]
    cases h : (nextTok cfg o st).1 with
    | none => exact ⟨hi, rfl, h⟩
    | some t =>
      obtain ⟨hi', hcont, hlt⟩ := nextTok_progress cfg hc o st hi t h
      simp only
      obtain ⟨a, b, c⟩ := ih _ hi' (by omega)
      exact ⟨a, b.trans hcont, c⟩

/-- a `nil` answer of ReadNextToken (mustache override included) means "input exhausted, Eof
already reported or suppressed" — never "the model's inner fuel ran out" -/
theorem readNext_none_exhausted (cfg : Cfg) (hc : RawContract cfg) (o : Opts) (st : TState)
    (hw : st.s.WF) (h : (readNext cfg o st).1 = none) :
    (readNext cfg o st).2.s.peek = none ∧ (readNext cfg o st).2.last = TT.eof := by
  by_cases hk : cfg.kind = .mustache
  · obtain ⟨hspw, hspc⟩ := specialStep_wf st hw
    rw [readNext_mustache cfg hk o st] at h ⊢
    split
    · rename_i hcond; rw [if_pos hcond] at h; cases h
    · rename_i hcond
      rw [if_neg hcond, mustacheTail_fst] at h
      have hA := readNextA_spec cfg hc o (st.s.content.length + 3)
        { st with s := (spStep st).2, special := false } hspw
        (by show (spStep st).2.content.length + 1 - (spStep st).2.pos < _
            rw [hspc]; omega)
      obtain ⟨e1, e2⟩ := mustacheTail_snd (readNextA cfg o (st.s.content.length + 3)
        { st with s := (spStep st).2, special := false })
      rw [e1, e2]
      exact hA.2.2 h
  · rw [readNext_eq cfg hk o st] at h ⊢
    exact (readNextA_spec cfg hc o (st.s.content.length + 3) st hw (wf_fuel st.s hw 1)).2.2 h

end tokenLoop

end Verif
