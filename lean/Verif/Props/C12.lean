/-
C12 — every token reports the line/column of its first character.

`posOf c k = lcUpTo c (k+1)` (Spec/Stream.lean, Model/Scanner.lean) is the line/column a fresh
forward scan reports right after consuming the character at offset `k`.  Every token of the
stream — whatever the options did to it — carries `posOf c r.start` of the raw token `r` it was
made from, and `r` is a non-empty slice of the input starting at `r.start`.  The Eof token
reports the position one column past the end of a full forward scan.
-/
import Verif.Lemmas.MainLoop
import Verif.Spec.Stream

namespace Verif
open Scanner

/-- **C12**: for every option setting, every token of the stream is the Eof token, or reports
the forward-scan position of the first character of a whole, non-empty raw token of the input. -/
theorem C12_positions (cfg : Cfg) (hk : cfg.kind ≠ .mustache) (hc : RawContract cfg) (o : Opts)
    (c : List Rune) :
    ∀ t ∈ tokenize cfg o c, t = eofTok c ∨
      ∃ r ∈ rawSpec cfg (c.length + 2) (Scanner.new c),
        (t.line, t.col) = posOf c r.start ∧
        r.value = slice c r.start (r.start + r.value.length) ∧ r.value ≠ [] := by
  intro t ht
  rw [tokenize_eq_streamSpec cfg hk hc] at ht
  unfold streamSpec at ht
  have hok := rawSpec_ok cfg hc (c.length + 1) (Scanner.new c) (c.length + 2)
    (by show c.length + 1 - 0 ≤ _; omega) (new_wf c) (by show c.length + 1 - 0 < _; omega)
  rcases List.mem_append.mp ht with h | h
  · obtain ⟨l', r, hr, hp⟩ := mem_postSpec cfg o c _ _ t h
    obtain ⟨_, _, _, _, _, h6⟩ := processSpec_some cfg o c l' r t hp
    have hm := hok.mem r hr
    exact Or.inr ⟨r, hr, h6, hm.2.1, hm.1⟩
  · split at h
    · exact absurd h List.not_mem_nil
    · exact Or.inl (List.mem_singleton.mp h)

theorem C12_generic (o : Opts) (c : List Rune) :
    ∀ t ∈ tokenize genericCfg o c, t = eofTok c ∨
      ∃ r ∈ rawSpec genericCfg (c.length + 2) (Scanner.new c),
        (t.line, t.col) = posOf c r.start ∧
        r.value = slice c r.start (r.start + r.value.length) ∧ r.value ≠ [] :=
  C12_positions genericCfg (by decide) rawContract_generic o c

theorem C12_expression (o : Opts) (c : List Rune) :
    ∀ t ∈ tokenize expressionCfg o c, t = eofTok c ∨
      ∃ r ∈ rawSpec expressionCfg (c.length + 2) (Scanner.new c),
        (t.line, t.col) = posOf c r.start ∧
        r.value = slice c r.start (r.start + r.value.length) ∧ r.value ≠ [] :=
  C12_positions expressionCfg (by decide) rawContract_expression o c

theorem C12_csv (seps quotes : List Rune) (o : Opts) (c : List Rune) :
    ∀ t ∈ tokenize (csvCfg seps quotes) o c, t = eofTok c ∨
      ∃ r ∈ rawSpec (csvCfg seps quotes) (c.length + 2) (Scanner.new c),
        (t.line, t.col) = posOf c r.start ∧
        r.value = slice c r.start (r.start + r.value.length) ∧ r.value ≠ [] :=
  C12_positions (csvCfg seps quotes) (show Kind.csv ≠ Kind.mustache by decide)
    (rawContract_csv seps quotes) o c

/-- with all options off the correspondence is one-to-one and in order: the i-th token IS the
i-th raw token stamped with the position of its first character -/
theorem C12_positions_off (cfg : Cfg) (hk : cfg.kind ≠ .mustache) (hc : RawContract cfg)
    (c : List Rune) :
    tokenize cfg Opts.allOff c =
      (rawSpec cfg (c.length + 2) (Scanner.new c)).map
        (fun r => (⟨r.typ, r.value, (posOf c r.start).1, (posOf c r.start).2⟩ : Tok))
      ++ [eofTok c] := by
  rw [tokenize_eq_streamSpec cfg hk hc]
  unfold streamSpec
  rw [postSpec_allOff]
  rfl

/-- **C12 (Eof)**: the Eof token is empty and sits on the last line of a forward scan over the
whole input, one column past its last column. -/
theorem C12_eof_position (c : List Rune) :
    (eofTok c).typ = TT.eof ∧ (eofTok c).value = [] ∧
    ((eofTok c).line, (eofTok c).col) = ((lcUpTo c c.length).1, (lcUpTo c c.length).2 + 1) :=
  ⟨rfl, rfl, rfl⟩

/-- the model's Eof token is that token: any token of type Eof in the stream equals `eofTok c` -/
theorem C12_eof_is_eofTok (cfg : Cfg) (hk : cfg.kind ≠ .mustache) (hc : RawContract cfg) (o : Opts)
    (c : List Rune) : ∀ t ∈ tokenize cfg o c, t.typ = TT.eof → t = eofTok c := by
  intro t ht hty
  rw [tokenize_eq_streamSpec cfg hk hc] at ht
  unfold streamSpec at ht
  have hok := rawSpec_ok cfg hc (c.length + 1) (Scanner.new c) (c.length + 2)
    (by show c.length + 1 - 0 ≤ _; omega) (new_wf c) (by show c.length + 1 - 0 < _; omega)
  rcases List.mem_append.mp ht with h | h
  · obtain ⟨l', r, hr, hp⟩ := mem_postSpec cfg o c _ _ t h
    exact absurd hty (processSpec_typ_ne_eof cfg o c l' r t hp (hok.mem r hr).2.2.2)
  · split at h
    · exact absurd h List.not_mem_nil
    · exact List.mem_singleton.mp h

/-- … and unless skipEof is set it is the last token of the stream -/
theorem C12_eof_last (cfg : Cfg) (hk : cfg.kind ≠ .mustache) (hc : RawContract cfg) (o : Opts)
    (c : List Rune) (h : o.skipEof = false) : (tokenize cfg o c).getLast? = some (eofTok c) := by
  rw [tokenize_eq_streamSpec cfg hk hc]
  unfold streamSpec
  rw [h]
  simp only [Bool.false_eq_true, if_false]
  exact List.getLast?_concat

/-- non-vacuity: two lines through the generic tokenizer; the quoted token on line 2 and the Eof
token one column past the end -/
example : (tokenize genericCfg Opts.allOff [97, 32, 32, 60, 61, 10, 39, 49, 39]).map
      (fun t => (t.typ, t.line, t.col))
    = [(TT.word, 1, 1), (TT.whitespace, 1, 2), (TT.symbol, 1, 4), (TT.whitespace, 2, 0),
       (TT.quoted, 2, 1), (TT.eof, 2, 4)] := by decide

end Verif
