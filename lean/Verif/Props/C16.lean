/-
C16 — the symbol state returns the longest registered symbol that is a prefix of the remaining
input (or the single next character), with that symbol's type and text, consuming exactly that
many characters.  SPEC: Verif/Spec/Symbols.lean.
-/
import Verif.Model.States
import Verif.Props.C11
import Verif.Lemmas.Seg
import Verif.Spec.Symbols

namespace Verif
open Scanner

/-! ## (a) the finite map: `get` after `set` / `ensure` / `ensureLine` / `add` -/
namespace SymTab

theorem find_setL (p q : List Rune) (v : Bool × Nat) (l : List (List Rune × (Bool × Nat))) :
    (setL p v l).find? (fun e => e.1 == q) =
      if p = q then some (p, v) else l.find? (fun e => e.1 == q) := by
  induction l with
  | nil =>
    by_cases h : p = q
    · simp [setL, h]
    · simp [setL, h]
  | cons e es ih =>
    unfold setL
    by_cases he : e.1 = p
    · simp only [he, beq_self_eq_true, if_true]
      by_cases h : p = q
      · simp [h]
      · simp [h, he]
    · have he' : (e.1 == p) = false := by simpa using he
      simp only [he', Bool.false_eq_true, if_false, List.find?_cons]
      by_cases heq : e.1 = q
      · have : ¬ p = q := fun h => he (heq.trans h.symm)
        simp [heq, this]
      · have heq' : (e.1 == q) = false := by simpa using heq
        simp only [heq', ih]

theorem get_set (t : SymTab) (p q : List Rune) (v : Bool × Nat) :
    (t.set p v).get q = if p = q then some v else t.get q := by
  unfold get set
  simp only [find_setL]
  split <;> simp

theorem get_set_same (t : SymTab) (p : List Rune) (v : Bool × Nat) :
    (t.set p v).get p = some v := by
  rw [get_set]; simp

theorem get_set_other (t : SymTab) (p q : List Rune) (v : Bool × Nat) (h : p ≠ q) :
    (t.set p v).get q = t.get q := by
  rw [get_set]; simp [h]

theorem get_empty (p : List Rune) : SymTab.empty.get p = none := rfl

/-- `ensure` never changes an existing node -/
theorem ensure_get_some (t : SymTab) (p q : List Rune) (x : Bool × Nat) (h : t.get q = some x) :
    (t.ensure p).get q = some x := by
  unfold ensure
  split
  · exact h
  · rename_i hn
    by_cases hpq : p = q
    · subst hpq; rw [h] at hn; simp at hn
    · rw [get_set_other _ _ _ _ hpq]; exact h

theorem ensure_get_other (t : SymTab) (p q : List Rune) (h : p ≠ q) :
    (t.ensure p).get q = t.get q := by
  unfold ensure
  split
  · rfl
  · exact get_set_other _ _ _ _ h

theorem ensure_get_new (t : SymTab) (p : List Rune) (h : t.get p = none) :
    (t.ensure p).get p = some (false, TT.unknown) := by
  unfold ensure
  simp [h, get_set_same]

/-- `ensureLine` never changes an existing node -/
theorem ensureLine_get_some (t : SymTab) (pre rest q : List Rune) (x : Bool × Nat)
    (h : t.get q = some x) : (ensureLine t pre rest).get q = some x := by
  induction rest generalizing t pre with
  | nil => exact h
  | cons c rest ih =>
    unfold ensureLine
    exact ih _ _ (ensure_get_some t _ q x h)

/-- `ensureLine` creates an (invalid, Unknown) node for every missing prefix on the line -/
theorem ensureLine_get_new (t : SymTab) (pre rest q : List Rune) (h : t.get q = none)
    (k : Nat) (hk1 : 1 ≤ k) (hk2 : k ≤ rest.length) (hq : q = pre ++ rest.take k) :
    (ensureLine t pre rest).get q = some (false, TT.unknown) := by
  induction rest generalizing t pre k with
  | nil => simp at hk2; omega
  | cons c rest ih =>
    unfold ensureLine
    by_cases hk : k = 1
    · subst hk
      have hq' : q = pre ++ [c] := by simpa using hq
      apply ensureLine_get_some
      rw [hq']; rw [hq'] at h
      exact ensure_get_new t _ h
    · obtain ⟨k', rfl⟩ : ∃ k', k = k' + 1 := ⟨k - 1, by omega⟩
      have hq' : q = (pre ++ [c]) ++ rest.take k' := by simpa using hq
      have hk2' : k' ≤ rest.length := by simpa using hk2
      have hne : pre ++ [c] ≠ q := by
        intro e
        have hl := congrArg List.length e
        rw [hq'] at hl
        simp only [List.length_append, List.length_take, List.length_cons, List.length_nil] at hl
        omega
      apply ih (t.ensure (pre ++ [c])) (pre ++ [c]) _ k' (by omega) hk2' hq'
      rw [ensure_get_other _ _ _ hne]; exact h

/-- … and nothing else -/
theorem ensureLine_get_none (t : SymTab) (pre rest q : List Rune) (h : t.get q = none)
    (hq : ∀ k, 1 ≤ k → k ≤ rest.length → q ≠ pre ++ rest.take k) :
    (ensureLine t pre rest).get q = none := by
  induction rest generalizing t pre with
  | nil => exact h
  | cons c rest ih =>
    unfold ensureLine
    have hne : pre ++ [c] ≠ q := by
      intro e
      exact hq 1 (Nat.le_refl _) (by simp) (by simp [← e])
    apply ih
    · rw [ensure_get_other _ _ _ hne]; exact h
    · intro k hk1 hk2 e
      exact hq (k+1) (by omega) (by simp; omega) (by simpa using e)

/-- step 1+2 of `add`: make sure the first-rune node exists and is a valid `Symbol` node
unless it already carries a type -/
def addFirst (t : SymTab) (c0 : Rune) : SymTab :=
  if (((t.ensure [c0]).get [c0]).map (·.2)) == some TT.unknown
  then (t.ensure [c0]).set [c0] (true, TT.symbol) else t.ensure [c0]

theorem add_cons (t : SymTab) (c0 : Rune) (rest : List Rune) (typ : Nat) :
    t.add (c0 :: rest) typ = (ensureLine (addFirst t c0) [c0] rest).set (c0 :: rest) (true, typ) :=
  rfl

/-- what `addFirst` leaves in the first-rune node -/
def firstFix (o : Option (Bool × Nat)) : Bool × Nat :=
  match o with
  | none => (true, TT.symbol)
  | some x => if x.2 = TT.unknown then (true, TT.symbol) else x

theorem addFirst_get_first (t : SymTab) (c0 : Rune) :
    (addFirst t c0).get [c0] = some (firstFix (t.get [c0])) := by
  unfold addFirst
  cases h : t.get [c0] with
  | none =>
    rw [ensure_get_new t _ h]
    simp [get_set_same, firstFix]
  | some x =>
    rw [ensure_get_some t _ _ x h]
    by_cases hx : x.2 = TT.unknown
    · simp [hx, get_set_same, firstFix]
    · simp [hx, firstFix, ensure_get_some t _ _ x h]

theorem addFirst_get_other (t : SymTab) (c0 : Rune) (q : List Rune) (h : [c0] ≠ q) :
    (addFirst t c0).get q = t.get q := by
  unfold addFirst
  split
  · rw [get_set_other _ _ _ _ h, ensure_get_other _ _ _ h]
  · rw [ensure_get_other _ _ _ h]

/-! `get` after `add (c0 :: rest) typ`, by the position of the queried path -/

theorem add_get_self (t : SymTab) (c0 : Rune) (rest : List Rune) (typ : Nat) :
    (t.add (c0 :: rest) typ).get (c0 :: rest) = some (true, typ) := by
  rw [add_cons, get_set_same]

theorem add_get_first (t : SymTab) (c0 : Rune) (rest : List Rune) (typ : Nat) (hne : rest ≠ []) :
    (t.add (c0 :: rest) typ).get [c0] = some (firstFix (t.get [c0])) := by
  rw [add_cons, get_set_other _ _ _ _ (by simpa using hne)]
  exact ensureLine_get_some _ _ _ _ _ (addFirst_get_first t c0)

/-- a strict inner prefix (length ≥ 2) of the new symbol: created invalid/Unknown if missing,
unchanged otherwise -/
theorem add_get_inner (t : SymTab) (c0 : Rune) (rest : List Rune) (typ : Nat) (k : Nat)
    (hk1 : 1 ≤ k) (hk2 : k < rest.length) :
    (t.add (c0 :: rest) typ).get (c0 :: rest.take k) =
      some ((t.get (c0 :: rest.take k)).getD (false, TT.unknown)) := by
  have hne : c0 :: rest ≠ c0 :: rest.take k := by
    intro e
    have := congrArg List.length e
    simp only [List.length_cons, List.length_take] at this
    omega
  have hne1 : [c0] ≠ c0 :: rest.take k := by
    intro e
    have := congrArg List.length e
    simp only [List.length_cons, List.length_take, List.length_nil] at this
    omega
  rw [add_cons, get_set_other _ _ _ _ hne]
  cases h : t.get (c0 :: rest.take k) with
  | some x =>
    apply ensureLine_get_some
    rw [addFirst_get_other _ _ _ hne1]; simpa using h
  | none =>
    apply ensureLine_get_new _ _ _ _ _ k hk1 (by omega) (by simp)
    rw [addFirst_get_other _ _ _ hne1]; exact h

/-- any path that is not a non-empty prefix of the new symbol is untouched -/
theorem add_get_off (t : SymTab) (c0 : Rune) (rest : List Rune) (typ : Nat) (q : List Rune)
    (hq : q = [] ∨ ¬ q <+: c0 :: rest) :
    (t.add (c0 :: rest) typ).get q = t.get q := by
  have hne : c0 :: rest ≠ q := by
    rcases hq with rfl | h
    · simp
    · intro e; exact h (e ▸ List.prefix_refl _)
  have hne1 : [c0] ≠ q := by
    rcases hq with rfl | h
    · simp
    · intro e; exact h (e ▸ by simp)
  rw [add_cons, get_set_other _ _ _ _ hne]
  have hline : ∀ k, 1 ≤ k → k ≤ rest.length → q ≠ [c0] ++ rest.take k := by
    intro k _ _ e
    rcases hq with rfl | h
    · simp at e
    · apply h; rw [e]
      simpa using List.take_prefix k rest
  cases h : t.get q with
  | some x =>
    apply ensureLine_get_some
    rw [addFirst_get_other _ _ _ hne1]; exact h
  | none =>
    apply ensureLine_get_none _ _ _ _ _ hline
    rw [addFirst_get_other _ _ _ hne1]; exact h

end SymTab

/-! ## facts about the SPEC functions -/

theorem registered_iff (regs : Regs) (p : List Rune) :
    registered regs p = true ↔ ∃ r ∈ regs, r.1 = p := by
  simp [registered, List.any_eq_true]

theorem isNode_iff (regs : Regs) (p : List Rune) :
    isNode regs p = true ↔ p ≠ [] ∧ ∃ r ∈ regs, p <+: r.1 := by
  simp [isNode, List.any_eq_true, List.isPrefixOf_iff_prefix]

theorem returnable_iff (regs : Regs) (p : List Rune) :
    returnable regs p = true ↔
      registered regs p = true ∨ (p.length = 1 ∧ ∃ r ∈ regs, r.1.take 1 = p) := by
  simp [returnable, registered, List.any_eq_true]

theorem registered_snoc (regs : Regs) (r : List Rune × Nat) (p : List Rune) :
    registered (regs ++ [r]) p = (registered regs p || r.1 == p) := by
  simp [registered, List.any_append]

theorem isNode_snoc (regs : Regs) (r : List Rune × Nat) (p : List Rune) :
    isNode (regs ++ [r]) p = (isNode regs p || (!p.isEmpty && p.isPrefixOf r.1)) := by
  simp only [isNode, List.any_append, List.any_cons, List.any_nil, Bool.or_false]
  cases p.isEmpty <;> simp

theorem returnable_snoc (regs : Regs) (r : List Rune × Nat) (p : List Rune) :
    returnable (regs ++ [r]) p =
      (returnable regs p || (r.1 == p || (p.length == 1 && r.1.take 1 == p))) := by
  simp only [returnable, List.any_append, List.any_cons, List.any_nil, Bool.or_false]
  cases List.any regs (fun r => r.1 == p) <;> cases (r.1 == p) <;> cases (p.length == 1) <;>
    cases List.any regs (fun r => List.take 1 r.1 == p) <;> cases (List.take 1 r.1 == p) <;> rfl

theorem specType_snoc (regs : Regs) (r : List Rune × Nat) (p : List Rune) :
    specType (regs ++ [r]) p = if r.1 == p then r.2 else specType regs p := by
  unfold specType
  rw [List.reverse_append, List.reverse_singleton, List.singleton_append, List.find?_cons]
  cases h : (r.1 == p) <;> simp

theorem nodeType_snoc (regs : Regs) (r : List Rune × Nat) (p : List Rune) :
    nodeType (regs ++ [r]) p =
      if r.1 == p then r.2 else nodeType regs p := by
  have h1 : (List.any (regs ++ [r]) fun r => r.1 == p) = (registered regs p || r.1 == p) :=
    registered_snoc regs r p
  have h2 : (List.any regs fun r => r.1 == p) = registered regs p := rfl
  unfold nodeType
  rw [h1, h2, specType_snoc]
  cases h : (r.1 == p) <;> simp

/-- a registered path is a node (symbols are non-empty) -/
theorem isNode_of_registered (regs : Regs) (hok : ∀ r ∈ regs, regOk r = true) (p : List Rune)
    (h : registered regs p = true) : isNode regs p = true := by
  obtain ⟨r, hr, rfl⟩ := (registered_iff regs p).mp h
  refine (isNode_iff regs _).mpr ⟨?_, r, hr, List.prefix_refl _⟩
  have := hok r hr
  intro e
  simp [regOk, e] at this

/-- the type reported for a registered symbol is a real type -/
theorem specType_ne_unknown (regs : Regs) (hok : ∀ r ∈ regs, regOk r = true) (p : List Rune) :
    specType regs p ≠ TT.unknown := by
  unfold specType
  split
  · rename_i r hf
    have hm := List.mem_of_find?_eq_some hf
    have := hok r (by simpa using hm)
    simp [regOk] at this
    exact this.2
  · decide

theorem specType_of_not_registered (regs : Regs) (p : List Rune)
    (h : registered regs p = false) : specType regs p = TT.symbol := by
  unfold specType
  have : regs.reverse.find? (fun r => r.1 == p) = none := by
    rw [List.find?_eq_none]
    intro r hr hrp
    have : registered regs p = true :=
      (registered_iff regs p).mpr ⟨r, by simpa using hr, by simpa using hrp⟩
    rw [h] at this; cases this
  rw [this]

/-- a one-rune node is the first rune of a registered symbol -/
theorem first_of_isNode (regs : Regs) (p : List Rune) (h : isNode regs p = true)
    (hl : p.length = 1) : ∃ r ∈ regs, r.1.take 1 = p := by
  obtain ⟨_, r, hr, hpre⟩ := (isNode_iff regs p).mp h
  refine ⟨r, hr, ?_⟩
  have := List.prefix_iff_eq_take.mp hpre
  rw [hl] at this; exact this.symm

theorem returnable_of_isNode_one (regs : Regs) (p : List Rune) (h : isNode regs p = true)
    (hl : p.length = 1) : returnable regs p = true :=
  (returnable_iff regs p).mpr (Or.inr ⟨hl, first_of_isNode regs p h hl⟩)

/-- everything returnable is a node -/
theorem isNode_of_returnable (regs : Regs) (hok : ∀ r ∈ regs, regOk r = true) (p : List Rune)
    (h : returnable regs p = true) : isNode regs p = true := by
  rcases (returnable_iff regs p).mp h with h | ⟨hl, r, hr, hp⟩
  · exact isNode_of_registered regs hok p h
  · refine (isNode_iff regs p).mpr ⟨?_, r, hr, ?_⟩
    · intro e; rw [e] at hl; simp at hl
    · rw [← hp]; exact List.take_prefix 1 r.1

/-- nodes are prefix-closed -/
theorem isNode_prefix (regs : Regs) (p q : List Rune) (hq : isNode regs q = true)
    (hp : p <+: q) (hne : p ≠ []) : isNode regs p = true := by
  obtain ⟨_, r, hr, hpre⟩ := (isNode_iff regs q).mp hq
  exact (isNode_iff regs p).mpr ⟨hne, r, hr, hp.trans hpre⟩

/-- the closed form of the trie contents -/
def nodeVal (regs : Regs) (p : List Rune) : Option (Bool × Nat) :=
  if isNode regs p then some (returnable regs p, nodeType regs p) else none

/-- one registration preserves "the table holds exactly `nodeVal regs`" -/
theorem add_inv (t : SymTab) (regs : Regs) (hok : ∀ r ∈ regs, regOk r = true)
    (r : List Rune × Nat) (hr : regOk r = true)
    (h : ∀ p, t.get p = nodeVal regs p) (p : List Rune) :
    (t.add r.1 r.2).get p = nodeVal (regs ++ [r]) p := by
  obtain ⟨sym, typ⟩ := r
  have hr' : sym ≠ [] ∧ typ ≠ TT.unknown := by
    simp [regOk] at hr
    exact ⟨by intro e; simp [e] at hr, hr.2⟩
  cases sym with
  | nil => exact absurd rfl hr'.1
  | cons c0 rest =>
  simp only
  unfold nodeVal
  rw [isNode_snoc, returnable_snoc, nodeType_snoc]
  simp only
  by_cases hpre : p <+: c0 :: rest
  case neg =>
    -- D: not a prefix of the new symbol
    rw [SymTab.add_get_off _ _ _ _ _ (Or.inr hpre), h p]
    have e1 : (c0 :: rest == p) = false := by
      simp only [beq_eq_false_iff_ne, ne_eq]
      intro e; exact hpre (e ▸ List.prefix_refl _)
    have e2 : p.isPrefixOf (c0 :: rest) = false := by
      rw [Bool.eq_false_iff]; intro e
      exact hpre (List.isPrefixOf_iff_prefix.mp e)
    have e3 : ([c0] == p) = false := by
      simp only [beq_eq_false_iff_ne, ne_eq]
      intro e; exact hpre (e ▸ List.take_prefix 1 (c0 :: rest))
    simp [e1, e2, e3, nodeVal]
  case pos =>
  by_cases hnil : p = []
  · -- D: the empty path
    rw [SymTab.add_get_off _ _ _ _ _ (Or.inl hnil), h p]
    subst hnil
    simp [nodeVal, isNode]
  · have hpt := List.prefix_iff_eq_take.mp hpre
    have hlen : 1 ≤ p.length := by
      cases p with
      | nil => exact absurd rfl hnil
      | cons _ _ => simp
    have hle : p.length ≤ rest.length + 1 := by simpa using hpre.length_le
    have hp : p = c0 :: rest.take (p.length - 1) := by
      obtain ⟨n, hn⟩ : ∃ n, p.length = n + 1 := ⟨p.length - 1, by omega⟩
      rw [hn] at hpt
      rw [hn]; simpa using hpt
    have hpfx : p.isPrefixOf (c0 :: rest) = true := List.isPrefixOf_iff_prefix.mpr hpre
    have hemp : p.isEmpty = false := by
      cases p with
      | nil => exact absurd rfl hnil
      | cons _ _ => rfl
    by_cases hA : p = c0 :: rest
    · -- A: the symbol itself
      subst hA
      rw [SymTab.add_get_self]
      simp
    · have hne : (c0 :: rest == p) = false := by
        simp only [beq_eq_false_iff_ne, ne_eq]; exact fun e => hA e.symm
      have hlt : p.length - 1 < rest.length := by
        rcases Nat.lt_or_ge (p.length - 1) rest.length with h | h
        · exact h
        · exfalso; apply hA
          rw [hp, List.take_of_length_le h]
      by_cases hB : p.length = 1
      · -- B: the first-rune node
        have hp1 : p = [c0] := by rw [hp, hB]; simp
        have hrest : rest ≠ [] := by
          intro e; apply hA; rw [hp1, e]
        subst hp1
        rw [SymTab.add_get_first _ _ _ _ hrest, h [c0]]
        simp only [hne, hemp, hpfx, Bool.not_false, Bool.and_self, Bool.or_true, if_true,
          Bool.false_eq_true, if_false]
        have e3 : (List.take 1 (c0 :: rest) == [c0]) = true := by simp
        simp only [e3, List.length_singleton, beq_self_eq_true, Bool.and_self, Bool.or_true]
        unfold nodeVal
        cases hn : isNode regs [c0] with
        | true =>
          have hret := returnable_of_isNode_one regs [c0] hn rfl
          have hty : nodeType regs [c0] ≠ TT.unknown := by
            unfold nodeType
            split
            · exact specType_ne_unknown regs hok _
            · simp [TT.symbol, TT.unknown]
          simp [SymTab.firstFix, hret, hty]
        | false =>
          have hreg : registered regs [c0] = false := by
            rw [Bool.eq_false_iff]; intro e
            rw [isNode_of_registered regs hok _ e] at hn; cases hn
          have hreg' : (List.any regs fun r => r.1 == [c0]) = false := hreg
          simp [SymTab.firstFix, nodeType, hreg']
      · -- C: a strict inner prefix of length ≥ 2
        have hk1 : 1 ≤ p.length - 1 := by omega
        have hget := SymTab.add_get_inner t c0 rest typ (p.length - 1) hk1 hlt
        rw [← hp] at hget
        rw [hget, h p]
        have hB' : (p.length == 1) = false := by simpa using hB
        simp only [hne, hemp, hpfx, hB', Bool.not_false, Bool.and_self, Bool.or_true, if_true,
          Bool.false_eq_true, if_false, Bool.false_and, Bool.or_false]
        unfold nodeVal
        cases hn : isNode regs p with
        | true => simp
        | false =>
          have hreg : registered regs p = false := by
            rw [Bool.eq_false_iff]; intro e
            rw [isNode_of_registered regs hok _ e] at hn; cases hn
          have hreg' : (List.any regs fun r => r.1 == p) = false := hreg
          simp [returnable, nodeType, hreg', hB']

theorem foldl_add_get (more : Regs) (t : SymTab) (regs : Regs)
    (hok : ∀ r ∈ regs, regOk r = true) (hmore : ∀ r ∈ more, regOk r = true)
    (h : ∀ p, t.get p = nodeVal regs p) (p : List Rune) :
    (more.foldl (fun t r => t.add r.1 r.2) t).get p = nodeVal (regs ++ more) p := by
  induction more generalizing t regs p with
  | nil => simpa using h p
  | cons r more ih =>
    rw [List.foldl_cons]
    have hok' : ∀ x ∈ regs ++ [r], regOk x = true := by
      intro x hx
      rcases List.mem_append.mp hx with hx | hx
      · exact hok x hx
      · exact hmore x (by simp at hx; simp [hx])
    have := ih (t.add r.1 r.2) (regs ++ [r]) hok' (fun x hx => hmore x (by simp [hx]))
      (add_inv t regs hok r (hmore r (by simp)) h) p
    simpa using this

/-- **C16 (a)**, closed form: the trie built from `regs` holds exactly `nodeVal regs`. -/
theorem build_get (regs : Regs) (hok : ∀ r ∈ regs, regOk r = true) (p : List Rune) :
    (build regs).get p = nodeVal regs p := by
  have := foldl_add_get regs SymTab.empty [] (by simp) hok
    (by intro q; simp [nodeVal, isNode, SymTab.get_empty]) p
  simpa [build] using this

/-- **C16 (a)** the trie invariant: a path is a node iff it is a non-empty prefix of a
registered symbol; the node is valid iff the path is returnable; and it carries the type of
the latest registration of that path (`Symbol` for an implicit first-rune node, `Unknown` for
an inner node that was never registered). -/
theorem build_inv (regs : Regs) (hok : ∀ r ∈ regs, regOk r = true) (p : List Rune)
    (v : Bool) (ty : Nat) :
    (build regs).get p = some (v, ty) ↔
      (p ≠ [] ∧ ∃ r ∈ regs, p <+: r.1) ∧ v = returnable regs p ∧
      ty = (if regs.any (fun r => r.1 == p) then specType regs p
            else if p.length == 1 then TT.symbol else TT.unknown) := by
  rw [build_get regs hok, ← isNode_iff]
  unfold nodeVal
  cases isNode regs p with
  | true =>
    simp only [if_true, Option.some.injEq, Prod.mk.injEq, true_and, nodeType]
    constructor
    · rintro ⟨h1, h2⟩; exact ⟨h1.symm, h2.symm⟩
    · rintro ⟨h1, h2⟩; exact ⟨h1.symm, h2.symm⟩
  | false => simp

/-! ### consequences of the invariant used by the walk -/

theorem build_isSome (regs : Regs) (hok : ∀ r ∈ regs, regOk r = true) (p : List Rune) :
    ((build regs).get p).isSome = isNode regs p := by
  rw [build_get regs hok, nodeVal]
  cases isNode regs p <;> simp

/-- valid nodes = returnable paths -/
theorem build_valid (regs : Regs) (hok : ∀ r ∈ regs, regOk r = true) (p : List Rune) :
    (build regs).valid p = returnable regs p := by
  unfold SymTab.valid
  rw [build_get regs hok, nodeVal]
  cases hn : isNode regs p with
  | true => simp
  | false =>
    cases hr : returnable regs p with
    | false => simp
    | true => rw [isNode_of_returnable regs hok p hr] at hn; cases hn

/-- a returnable path carries its SPEC type -/
theorem build_typeOf (regs : Regs) (hok : ∀ r ∈ regs, regOk r = true) (p : List Rune)
    (hr : returnable regs p = true) : (build regs).typeOf p = specType regs p := by
  unfold SymTab.typeOf
  rw [build_get regs hok, nodeVal, isNode_of_returnable regs hok p hr]
  simp only [if_true, Option.map_some, Option.getD_some, nodeType]
  cases hreg : registered regs p with
  | true =>
    have : (List.any regs fun r => r.1 == p) = true := hreg
    simp [this]
  | false =>
    have hreg' : (List.any regs fun r => r.1 == p) = false := hreg
    rcases (returnable_iff regs p).mp hr with h | ⟨hl, _⟩
    · rw [hreg] at h; cases h
    · simp [hreg', hl, specType_of_not_registered regs p hreg]

/-! ## (b) the walk: `deepest` and `unreadToValid` as pure list functions + cursor arithmetic -/

/-- the path `deepest` ends on, as a function of the remaining input only -/
def walk (t : SymTab) : List Rune → List Rune → List Rune
  | path, [] => path
  | path, c :: rest => if (t.get (path ++ [c])).isSome then walk t (path ++ [c]) rest else path

/-- the path `unreadToValid` ends on -/
def back (t : SymTab) : Nat → List Rune → List Rune
  | 0, path => path
  | f+1, path => if !t.valid path && path.length > 1 then back t f path.dropLast else path

theorem drop_pos_cons (s : Scanner) (h : s.pos < s.content.length) :
    s.content.drop s.pos = s.content[s.pos] :: s.content.drop (s.pos + 1) :=
  List.drop_eq_getElem_cons h

/-- `deepest` with enough fuel: the path is `walk` of the remaining input, and the cursor has
moved by exactly the number of runes appended (failed look-aheads are un-read). -/
theorem deepest_spec (t : SymTab) (f : Nat) (path : List Rune) (s : Scanner)
    (hp : s.pos ≤ s.content.length) (hf : s.content.length + 1 ≤ f + s.pos) :
    (t.deepest f path s).1 = walk t path (s.content.drop s.pos) ∧
    (t.deepest f path s).2.pos + path.length = s.pos + (t.deepest f path s).1.length ∧
    (t.deepest f path s).2.content = s.content := by
  induction f generalizing path s with
  | zero => omega
  | succ f ih =>
    unfold SymTab.deepest
    by_cases hlt : s.pos < s.content.length
    · have hr := read_pos_lt s hlt
      rw [drop_pos_cons s hlt]
      simp only [hr.1, walk]
      split
      · have hc := read_content s
        have := ih (path ++ [s.content[s.pos]]) (s.read).2 (by rw [hr.2, hc]; omega)
          (by rw [hr.2, hc]; omega)
        rw [hr.2, hc] at this
        refine ⟨this.1, ?_, this.2.2⟩
        have h2 := this.2.1
        simp only [List.length_append, List.length_singleton] at h2
        omega
      · refine ⟨rfl, ?_, ?_⟩
        · simp only [unread_pos, hr.2]; omega
        · rw [unread_content, read_content]
    · have heq : s.pos = s.content.length := by omega
      have hr := read_pos_eq s heq
      have hd : s.content.drop s.pos = [] := by rw [heq]; simp
      rw [hd]
      simp only [hr.1, walk, true_and]
      refine ⟨?_, ?_⟩
      · simp only [unread_pos, hr.2]; omega
      · rw [unread_content, read_content]

/-- `unreadToValid`: the path is `back`, the cursor moves back by the runes dropped -/
theorem unreadToValid_spec (t : SymTab) (f : Nat) (path : List Rune) (s : Scanner)
    (hp : path.length ≤ s.pos) :
    (t.unreadToValid f path s).1 = back t f path ∧
    (t.unreadToValid f path s).2.pos + path.length = s.pos + (t.unreadToValid f path s).1.length ∧
    (t.unreadToValid f path s).2.content = s.content := by
  induction f generalizing path s with
  | zero => exact ⟨rfl, rfl, rfl⟩
  | succ f ih =>
    unfold SymTab.unreadToValid back
    split
    · rename_i hc
      have hl : path.length > 1 := by
        simp only [Bool.and_eq_true, decide_eq_true_eq] at hc; exact hc.2
      have := ih path.dropLast s.unread (by simp only [List.length_dropLast, unread_pos]; omega)
      simp only [List.length_dropLast, unread_pos, unread_content] at this
      refine ⟨this.1, ?_, this.2.2⟩
      have h2 := this.2.1
      omega
    · exact ⟨rfl, rfl, rfl⟩

/-- `walk` appends a prefix of the input and stops at the first non-node -/
theorem walk_spec (t : SymTab) (path rest : List Rune) :
    ∃ k, k ≤ rest.length ∧ walk t path rest = path ++ rest.take k ∧
      (k < rest.length → (t.get (path ++ rest.take (k+1))).isSome = false) := by
  induction rest generalizing path with
  | nil => exact ⟨0, Nat.le_refl _, by simp [walk], by simp⟩
  | cons c rest ih =>
    unfold walk
    split
    · obtain ⟨k, hk, hw, hstop⟩ := ih (path ++ [c])
      refine ⟨k+1, by simp; omega, by rw [hw]; simp, ?_⟩
      intro hlt
      have := hstop (by simpa using hlt)
      simpa using this
    · rename_i hn
      refine ⟨0, by simp, by simp, ?_⟩
      intro _
      simpa using hn

theorem take_dropLast_of_le (l : List Rune) (m : Nat) (h : m ≤ l.length - 1) :
    l.dropLast.take m = l.take m := by
  rw [List.dropLast_eq_take, List.take_take, Nat.min_eq_left h]

/-- `back` with enough fuel returns the longest prefix that is valid or has length 1 -/
theorem back_spec (t : SymTab) (f : Nat) (path : List Rune)
    (hne : 1 ≤ path.length) (hf : path.length ≤ f + 1) :
    ∃ m, 1 ≤ m ∧ m ≤ path.length ∧ back t f path = path.take m ∧
      (t.valid (path.take m) = true ∨ m = 1) ∧
      ∀ j, m < j → j ≤ path.length → t.valid (path.take j) = false := by
  induction f generalizing path with
  | zero =>
    have h1 : path.length = 1 := by omega
    exact ⟨1, Nat.le_refl _, hne, by rw [← h1]; simp [back], Or.inr rfl, fun j h1 h2 => by omega⟩
  | succ f ih =>
    unfold back
    split
    · rename_i hc
      simp only [Bool.and_eq_true, Bool.not_eq_true', decide_eq_true_eq] at hc
      obtain ⟨hv, hl⟩ := hc
      obtain ⟨m, hm1, hm2, hb, hval, hmax⟩ :=
        ih path.dropLast (by simp only [List.length_dropLast]; omega)
          (by simp only [List.length_dropLast]; omega)
      simp only [List.length_dropLast] at hm2
      rw [take_dropLast_of_le path m hm2] at hb hval
      refine ⟨m, hm1, by omega, hb, hval, ?_⟩
      intro j hj1 hj2
      by_cases hj : j = path.length
      · rw [hj, List.take_length]; exact hv
      · have := hmax j hj1 (by simp only [List.length_dropLast]; omega)
        rwa [take_dropLast_of_le path j (by omega)] at this
    · rename_i hc
      refine ⟨path.length, hne, Nat.le_refl _, by simp, ?_, fun j h1 h2 => by omega⟩
      simp only [Bool.and_eq_true, Bool.not_eq_true', decide_eq_true_eq, not_and] at hc
      rw [List.take_length]
      cases hv : t.valid path with
      | true => exact Or.inl rfl
      | false => exact Or.inr (by have := hc hv; omega)

/-! ### the SPEC `longest` in recursive form -/

/-- the longest returnable prefix among `input.take n, …, input.take 1` -/
def longestUpTo (regs : Regs) (input : List Rune) : Nat → Option (List Rune)
  | 0 => none
  | n+1 => if returnable regs (input.take (n+1)) then some (input.take (n+1))
           else longestUpTo regs input n

theorem longest_scan_eq (regs : Regs) (input : List Rune) (n : Nat) :
    ((List.range n).reverse.map (fun k => input.take (k+1))).find? (returnable regs) =
      longestUpTo regs input n := by
  induction n with
  | zero => rfl
  | succ n ih =>
    rw [List.range_succ, List.reverse_append, List.reverse_singleton, List.singleton_append,
      List.map_cons, List.find?_cons, longestUpTo, ih]
    cases returnable regs (input.take (n+1)) <;> rfl

/-- the readable SPEC and the recursive form agree -/
theorem longest_eq (regs : Regs) (input : List Rune) :
    longest regs input = longestUpTo regs input input.length :=
  longest_scan_eq regs input input.length

theorem longestUpTo_some (regs : Regs) (input : List Rune) (n m : Nat) (hm1 : 1 ≤ m) (hm2 : m ≤ n)
    (hr : returnable regs (input.take m) = true)
    (hmax : ∀ j, m < j → j ≤ n → returnable regs (input.take j) = false) :
    longestUpTo regs input n = some (input.take m) := by
  induction n with
  | zero => omega
  | succ n ih =>
    unfold longestUpTo
    by_cases h : m = n + 1
    · subst h; simp [hr]
    · rw [hmax (n+1) (by omega) (Nat.le_refl _)]
      simp only [Bool.false_eq_true, if_false]
      exact ih (by omega) (fun j h1 h2 => hmax j h1 (by omega))

theorem longestUpTo_none (regs : Regs) (input : List Rune) (n : Nat)
    (hmax : ∀ j, 1 ≤ j → j ≤ n → returnable regs (input.take j) = false) :
    longestUpTo regs input n = none := by
  induction n with
  | zero => rfl
  | succ n ih =>
    unfold longestUpTo
    rw [hmax (n+1) (by omega) (Nat.le_refl _)]
    simp only [Bool.false_eq_true, if_false]
    exact ih (fun j h1 h2 => hmax j h1 (by omega))

/-- `nextToken` on a character that starts no registered symbol -/
theorem nextToken_miss (t : SymTab) (f : Nat) (s : Scanner) (c : Rune)
    (hr : (s.read).1 = some c) (hn : (t.get [c]).isSome = false) :
    t.nextToken f s =
      ({ typ := TT.symbol, value := [c], line := (s.read).2.line, col := (s.read).2.col }, (s.read).2) := by
  unfold SymTab.nextToken
  simp only [hr, hn, Bool.false_eq_true, if_false]

/-- `nextToken` on a character that starts a registered symbol -/
theorem nextToken_hit (t : SymTab) (f : Nat) (s : Scanner) (c : Rune)
    (hr : (s.read).1 = some c) (hn : (t.get [c]).isSome = true) :
    t.nextToken f s =
      ({ typ := t.typeOf (t.unreadToValid (t.deepest f [c] (s.read).2).1.length
                    (t.deepest f [c] (s.read).2).1 (t.deepest f [c] (s.read).2).2).1,
         value := (t.unreadToValid (t.deepest f [c] (s.read).2).1.length
                    (t.deepest f [c] (s.read).2).1 (t.deepest f [c] (s.read).2).2).1,
         line := (s.read).2.line, col := (s.read).2.col },
       (t.unreadToValid (t.deepest f [c] (s.read).2).1.length
                    (t.deepest f [c] (s.read).2).1 (t.deepest f [c] (s.read).2).2).2) := by
  unfold SymTab.nextToken
  simp only [hr, hn, if_true]

theorem take_prefix_take' (l : List Rune) (a b : Nat) (h : a ≤ b) : l.take a <+: l.take b := by
  have : l.take a = (l.take b).take a := by rw [List.take_take, Nat.min_eq_left h]
  rw [this]; exact List.take_prefix _ _

/-- core of C16 (b) as an explicit case distinction -/
theorem C16_core (regs : Regs) (hok : ∀ r ∈ regs, regOk r = true)
    (s : Scanner) (hp : s.pos < s.content.length) :
    (longest regs (s.content.drop s.pos) = none ∧
      ((build regs).nextToken (s.content.length + 2) s).1.value = (s.content.drop s.pos).take 1 ∧
      ((build regs).nextToken (s.content.length + 2) s).1.typ = TT.symbol ∧
      ((build regs).nextToken (s.content.length + 2) s).2.pos = s.pos + 1 ∧
      ((build regs).nextToken (s.content.length + 2) s).2.content = s.content) ∨
    (∃ p, longest regs (s.content.drop s.pos) = some p ∧ returnable regs p = true ∧
      ((build regs).nextToken (s.content.length + 2) s).1.value = p ∧
      ((build regs).nextToken (s.content.length + 2) s).1.typ = specType regs p ∧
      ((build regs).nextToken (s.content.length + 2) s).2.pos = s.pos + p.length ∧
      ((build regs).nextToken (s.content.length + 2) s).2.content = s.content) := by
  have hr := read_pos_lt s hp
  have hrest := drop_pos_cons s hp
  have hlen : (s.content.drop s.pos).length = s.content.length - s.pos := List.length_drop
  generalize s.content[s.pos] = c at hr hrest
  generalize hrest' : s.content.drop (s.pos + 1) = rest' at hrest
  generalize s.content.drop s.pos = rest at hrest hlen ⊢
  have hlen' : rest'.length + 1 = rest.length := by rw [hrest]; rfl
  have htake1 : rest.take 1 = [c] := by rw [hrest]; rfl
  cases hn : ((build regs).get [c]).isSome with
  | false =>
    left
    rw [nextToken_miss (build regs) _ s c hr.1 hn]
    refine ⟨?_, htake1.symm, rfl, hr.2, read_content s⟩
    rw [longest_eq]
    apply longestUpTo_none
    intro j hj1 hj2
    rw [Bool.eq_false_iff]; intro hret
    have h1 := isNode_of_returnable regs hok _ hret
    have h2 : isNode regs [c] = true :=
      isNode_prefix regs [c] _ h1 (htake1 ▸ take_prefix_take' rest 1 j hj1) (by simp)
    rw [← build_isSome regs hok, hn] at h2; cases h2
  | true =>
    right
    rw [nextToken_hit (build regs) _ s c hr.1 hn]
    have hs1c : (s.read).2.content = s.content := read_content s
    obtain ⟨hd1, hd2, hd3⟩ := deepest_spec (build regs) (s.content.length + 2) [c] (s.read).2
      (by rw [hr.2, hs1c]; omega) (by rw [hr.2, hs1c]; omega)
    rw [hr.2, hs1c, hrest'] at hd1
    rw [hr.2] at hd2
    rw [hs1c] at hd3
    obtain ⟨k, hk, hw, hstop⟩ := walk_spec (build regs) [c] rest'
    generalize (build regs).deepest (s.content.length + 2) [c] (s.read).2 = D at hd1 hd2 hd3 ⊢
    have hD1 : D.1 = rest.take (k+1) := by rw [hd1, hw, hrest]; rfl
    have hDlen : D.1.length = k + 1 := by
      rw [hD1, List.length_take]; omega
    simp only [List.length_singleton] at hd2
    obtain ⟨hu1, hu2, hu3⟩ := unreadToValid_spec (build regs) D.1.length D.1 D.2 (by omega)
    obtain ⟨m, hm1, hm2, hb, hval, hmax⟩ := back_spec (build regs) D.1.length D.1 (by omega) (by omega)
    have htk : ∀ j, j ≤ k + 1 → D.1.take j = rest.take j := by
      intro j hj; rw [hD1, List.take_take, Nat.min_eq_left hj]
    rw [hb, htk m (by omega)] at hu1
    rw [htk m (by omega)] at hval
    rw [hu3, hd3]
    generalize (build regs).unreadToValid D.1.length D.1 D.2 = U at hu1 hu2 ⊢
    have hret : returnable regs (rest.take m) = true := by
      rcases hval with hv | h1
      · rw [← build_valid regs hok]; exact hv
      · rw [h1, htake1]
        exact returnable_of_isNode_one regs [c] (by rw [← build_isSome regs hok]; exact hn) rfl
    have hUlen : U.1.length = m := by rw [hu1, List.length_take]; omega
    refine ⟨rest.take m, ?_, hret, hu1, ?_, ?_, rfl⟩
    · rw [longest_eq]
      apply longestUpTo_some regs rest rest.length m hm1 (by omega) hret
      intro j hj1 hj2
      by_cases hjk : j ≤ k + 1
      · have := hmax j hj1 (by omega)
        rw [htk j hjk, build_valid regs hok] at this
        exact this
      · rw [Bool.eq_false_iff]; intro hrj
        have h1 := isNode_of_returnable regs hok _ hrj
        have hne : rest.take (k+2) ≠ [] := by rw [hrest]; simp
        have h2 := isNode_prefix regs (rest.take (k+2)) _ h1
          (take_prefix_take' rest (k+2) j (by omega)) hne
        have h3 := hstop (by omega)
        have e : rest.take (k+2) = [c] ++ rest'.take (k+1) := by rw [hrest]; rfl
        rw [e, ← build_isSome regs hok, h3] at h2
        cases h2
    · show (build regs).typeOf U.1 = _
      rw [hu1]; exact build_typeOf regs hok _ hret
    · show U.2.pos = _
      rw [← hu1, hUlen]; omega

/-! ## the property theorems -/

/-- **C16 (b)**: for any legal set of registrations (any lengths, shared prefixes, any order,
re-registrations) and any scanner state with a next character, the symbol state returns the
longest returnable prefix of the remaining input — the longest registered symbol, or the
single next character when no registered symbol of length ≥ 2 matches — with the type of its
latest registration (`Symbol` for an unregistered single character) and its exact text, and
advances the cursor by exactly its length.  Fuel `content.length + 2` is sufficient. -/
theorem C16_next_is_longest (regs : Regs) (hok : ∀ r ∈ regs, regOk r = true)
    (s : Scanner) (hw : s.WF) (hp : s.pos < s.content.length) :
    let r := (build regs).nextToken (s.content.length + 2) s
    let rest := s.content.drop s.pos
    match longest regs rest with
    | some p => r.1.value = p ∧ r.1.typ = specType regs p ∧ r.2.pos = s.pos + p.length ∧
                r.2.content = s.content
    | none   => r.1.value = rest.take 1 ∧ r.1.typ = TT.symbol ∧ r.2.pos = s.pos + 1 ∧
                r.2.content = s.content := by
  intro r rest
  have _ := hw
  rcases C16_core regs hok s hp with ⟨hl, h⟩ | ⟨p, hl, _, h⟩
  · have hl' : longest regs rest = none := hl
    rw [hl']; exact h
  · have hl' : longest regs rest = some p := hl
    rw [hl']; exact h

/-- **C16 (c1)**: a proper prefix of a registered symbol that was not itself registered is
never returned as a multi-character token: whatever is returned is either `returnable`
(registered, or a first rune of a registered symbol) or the single next character. -/
theorem C16_no_unregistered_prefix (regs : Regs) (hok : ∀ r ∈ regs, regOk r = true)
    (s : Scanner) (hp : s.pos < s.content.length) :
    let v := ((build regs).nextToken (s.content.length + 2) s).1.value
    returnable regs v = true ∨ v = (s.content.drop s.pos).take 1 := by
  intro v
  rcases C16_core regs hok s hp with ⟨_, h, _⟩ | ⟨p, _, hr, h, _⟩
  · exact Or.inr h
  · left
    have : v = p := h
    rw [this]; exact hr

/-- … in particular a returned token of length ≥ 2 was registered verbatim. -/
theorem C16_multichar_is_registered (regs : Regs) (hok : ∀ r ∈ regs, regOk r = true)
    (s : Scanner) (hp : s.pos < s.content.length)
    (h2 : 2 ≤ ((build regs).nextToken (s.content.length + 2) s).1.value.length) :
    ∃ r ∈ regs, r.1 = ((build regs).nextToken (s.content.length + 2) s).1.value := by
  rcases C16_no_unregistered_prefix regs hok s hp with h | h
  · rcases (returnable_iff regs _).mp h with h | ⟨h1, _⟩
    · exact (registered_iff regs _).mp h
    · omega
  · rw [h, List.length_take] at h2; omega

/-- **C16 (c2)**: registering further symbols (other than `p` itself) never alters the type
reported for `p`, and `p` stays returnable (so its text is still reported whenever it is the
longest match). -/
theorem C16_add_monotone (regs more : Regs) (p : List Rune) (h : ∀ r ∈ more, r.1 ≠ p) :
    specType (regs ++ more) p = specType regs p ∧
    (returnable regs p = true → returnable (regs ++ more) p = true) := by
  constructor
  · unfold specType
    have hnone : more.reverse.find? (fun r => r.1 == p) = none := by
      rw [List.find?_eq_none]
      intro r hr hrp
      exact h r (by simpa using hr) (by simpa using hrp)
    rw [List.reverse_append, List.find?_append, hnone]
    rfl
  · intro hr
    unfold returnable at hr ⊢
    simp only [List.any_append]
    simp only [Bool.or_eq_true, Bool.and_eq_true] at hr ⊢
    rcases hr with h1 | ⟨h1, h2⟩
    · exact Or.inl (Or.inl h1)
    · exact Or.inr ⟨h1, Or.inl h2⟩

/-- the trie itself: a later registration of another symbol leaves the stored type of an
already registered `p` unchanged and keeps it valid -/
theorem C16_add_keeps_node (regs : Regs) (hok : ∀ r ∈ regs, regOk r = true)
    (r : List Rune × Nat) (hr : regOk r = true) (p : List Rune)
    (hreg : registered regs p = true) (hne : r.1 ≠ p) :
    ((build regs).add r.1 r.2).get p = (build regs).get p := by
  have hok' : ∀ x ∈ regs ++ [r], regOk x = true := by
    intro x hx
    rcases List.mem_append.mp hx with hx | hx
    · exact hok x hx
    · simp at hx; rw [hx]; exact hr
  have h1 := add_inv (build regs) regs hok r hr (build_get regs hok) p
  rw [h1, build_get regs hok]
  have hn := isNode_of_registered regs hok p hreg
  have hreg2 : registered (regs ++ [r]) p = true := by rw [registered_snoc, hreg]; rfl
  have hn2 := isNode_of_registered (regs ++ [r]) hok' p hreg2
  have hbeq : (r.1 == p) = false := by simpa using hne
  have hret : returnable regs p = true := (returnable_iff regs p).mpr (Or.inl hreg)
  have hret2 : returnable (regs ++ [r]) p = true := (returnable_iff _ p).mpr (Or.inl hreg2)
  unfold nodeVal
  rw [hn, hn2, hret, hret2, nodeType_snoc, hbeq]
  rfl

/-- the result state is again well formed (line/column stay a function of the position) -/
theorem deepest_wf (t : SymTab) (f : Nat) (path : List Rune) (s : Scanner) (hw : s.WF) :
    (t.deepest f path s).2.WF := by
  induction f generalizing path s with
  | zero => exact hw
  | succ f ih =>
    unfold SymTab.deepest
    split
    · exact unread_wf _ (read_wf s hw)
    · split
      · exact ih _ _ (read_wf s hw)
      · exact unread_wf _ (read_wf s hw)

theorem unreadToValid_wf (t : SymTab) (f : Nat) (path : List Rune) (s : Scanner) (hw : s.WF) :
    (t.unreadToValid f path s).2.WF := by
  induction f generalizing path s with
  | zero => exact hw
  | succ f ih =>
    unfold SymTab.unreadToValid
    split
    · exact ih _ _ (unread_wf s hw)
    · exact hw

theorem nextToken_wf (t : SymTab) (f : Nat) (s : Scanner) (hw : s.WF) :
    (t.nextToken f s).2.WF := by
  cases hr : (s.read).1 with
  | none =>
    unfold SymTab.nextToken
    simp only [hr]
    exact read_wf s hw
  | some c =>
    cases hn : (t.get [c]).isSome with
    | true =>
      rw [nextToken_hit t f s c hr hn]
      exact unreadToValid_wf _ _ _ _ (deepest_wf _ _ _ _ (read_wf s hw))
    | false =>
      rw [nextToken_miss t f s c hr hn]
      exact read_wf s hw

/-! ## non-vacuity: concrete evaluations -/

/-- `<=`:7, `<`:13, `<<=`:2 on input `<<x`: `<<` is a node but was never registered, so the
walk backs up to `<` and reports the type `<` was registered with. -/
example :
    let regs : Regs := [([60, 61], 7), ([60], 13), ([60, 60, 61], 2)]
    let r := (build regs).nextToken 5 (Scanner.new [60, 60, 120])
    (∀ x ∈ regs, regOk x = true) ∧ longest regs [60, 60, 120] = some [60] ∧
    r.1.value = [60] ∧ r.1.typ = 13 ∧ r.2.pos = 1 := by decide

/-- same table on `<<=x`: the three-character symbol wins, with its own type. -/
example :
    let regs : Regs := [([60, 61], 7), ([60], 13), ([60, 60, 61], 2)]
    let r := (build regs).nextToken 6 (Scanner.new [60, 60, 61, 120])
    longest regs [60, 60, 61, 120] = some [60, 60, 61] ∧
    r.1.value = [60, 60, 61] ∧ r.1.typ = 2 ∧ r.2.pos = 3 := by decide

/-- an unregistered first rune (`!` of `!=`) is an implicit `Symbol`; an unknown character is
returned alone. -/
example :
    let regs : Regs := [([33, 61], 9)]
    ((build regs).nextToken 4 (Scanner.new [33, 120])).1 = ⟨TT.symbol, [33], 1, 1⟩ ∧
    longest regs [33, 120] = some [33] ∧ specType regs [33] = TT.symbol ∧
    ((build regs).nextToken 4 (Scanner.new [120, 33])).1 = ⟨TT.symbol, [120], 1, 1⟩ ∧
    longest regs [120, 33] = none := by decide

end Verif
