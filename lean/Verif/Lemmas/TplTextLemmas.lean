/-
Helpers for the TEXT level of C10 (Props/C10Text.lean): from the source text of a template to the
token sequence the lexical analysis of the Mustache parser consumes.

* §1  the mustache configuration as character classes (`mustache_dispatch`, `isWordStartM`) and as
      a registration list (`mustacheRegs`, so the longest-match theory of C16 / C13 applies);
* §2  what the symbol state cuts off in front of `{{`, `{{{`, `}}`, `}}}` and operator runes;
* §3  one segmentation step (`Cuts`) for the lexemes that occur inside a tag: brackets, operator
      runes, names, blanks;
* §4  the mode-alternating segmentation `mRawSpec` as a fuel-free function of the offset
      (`mRawFrom`) and its value on a mode-annotated lexeme sequence (`MSeg`, `mRawFrom_of_seg`);
* §5  what `mustacheOpts` (skipWhitespaces, skipComments, skipEof, decodeStrings) do to such a
      sequence, as far as the lexical analysis can see it (`lexical_tokenize_of_seg`);
* §6  `trimStr`, `textLen` on texts in front of a tag.
-/
import Verif.Props.C13
import Verif.Props.MustacheTok
import Verif.Props.C10

namespace Verif
open Scanner

set_option linter.unusedSimpArgs false

/-! ## §1 the mustache configuration -/

/-- the mustache dispatch map, newest registration first -/
theorem mustache_dispatch (c : Nat) : mustacheCfg.dispatch.lookup c =
    if 39 ≤ c ∧ c ≤ 39 then some .quote else if 34 ≤ c ∧ c ≤ 34 then some .quote
    else if 0x100 ≤ c ∧ c ≤ 0xfffe then some .word else if 0xc0 ≤ c ∧ c ≤ 0xff then some .word
    else if 95 ≤ c ∧ c ≤ 95 then some .word else if 48 ≤ c ∧ c ≤ 57 then some .word
    else if 65 ≤ c ∧ c ≤ 90 then some .word
    else if 97 ≤ c ∧ c ≤ 122 then some .word else if 0 ≤ c ∧ c ≤ 32 then some .whitespace
    else if 0 ≤ c ∧ c ≤ 0xff then some .symbol else none := by
  show (setStates CharMap.empty _).lookup c = _
  rw [setStates_lookup]
  simp only [MapOp.spec, List.map, List.reverse_cons, List.reverse_nil, List.nil_append,
    List.cons_append, MapOp.specRevD, CharMap.clampEnd]
  simp only [ge_iff_le, Nat.reduceLeDiff, if_false, if_true]

/-- mustache tokenizer: runes dispatched to the word state: a–z, A–Z, 0–9, `_`, U+00C0–U+00FF,
U+0100–U+FFFE (the word state then reads the generic word characters: these and `-`) -/
def isWordStartM (c : Nat) : Bool :=
  inR 97 122 c || inR 65 90 c || inR 48 57 c || inR 95 95 c || inR 0xc0 0xff c || inR 0x100 0xfffe c

theorem isWordStartM_iff (c : Nat) : isWordStartM c = true ↔
    (97 ≤ c ∧ c ≤ 122) ∨ (65 ≤ c ∧ c ≤ 90) ∨ (48 ≤ c ∧ c ≤ 57) ∨ (95 ≤ c ∧ c ≤ 95) ∨
    (0xc0 ≤ c ∧ c ≤ 0xff) ∨ (0x100 ≤ c ∧ c ≤ 0xfffe) := by
  simp only [isWordStartM, Bool.or_eq_true, inR_iff, or_assoc]

theorem mustache_dispatch_word (c : Nat) (h : isWordStartM c = true) :
    mustacheCfg.dispatch.lookup c = some .word := by
  rw [mustache_dispatch]
  rw [isWordStartM_iff] at h
  rcases h with h | h | h | h | h | h <;> ifs_omega

theorem mustache_dispatch_ws (c : Nat) (h : isWs c = true) :
    mustacheCfg.dispatch.lookup c = some .whitespace := by
  rw [mustache_dispatch]; rw [isWs_iff] at h; ifs_omega

theorem isWordCharG_of_startM (c : Nat) (h : isWordStartM c = true) : isWordCharG c = true := by
  rw [isWordStartM_iff] at h; rw [isWordCharG_iff]; omega

/-- a name starts neither with a brace nor with a blank -/
theorem isWordStartM_ne (c : Nat) (h : isWordStartM c = true) :
    c ≠ 123 ∧ c ≠ 125 ∧ isWs c = false := by
  rw [isWordStartM_iff] at h
  refine ⟨by omega, by omega, ?_⟩
  cases hw : isWs c with
  | false => rfl
  | true => rw [isWs_iff] at hw; omega

/-- the symbol table of the mustache tokenizer as a registration list -/
def mustacheRegs : Regs :=
  regsOf [("{{", TT.symbol), ("}}", TT.symbol), ("{{{", TT.symbol), ("}}}", TT.symbol)]

theorem mustache_symbols : mustacheCfg.symbols = build mustacheRegs := addSyms_eq_build _

theorem mustacheRegs_eq : mustacheRegs =
    [([123, 123], 7), ([125, 125], 7), ([123, 123, 123], 7), ([125, 125, 125], 7)] := by decide

theorem mustacheRegs_ok : ∀ r ∈ mustacheRegs, regOk r = true := by decide
theorem mustacheRegs_len : ∀ r ∈ mustacheRegs, r.1.length ≤ 3 := by decide
theorem mustacheRegs_typ : ∀ r ∈ mustacheRegs, r.2 = TT.symbol := by decide

/-! ## §2 the longest match in front of brackets and operator runes -/

/-- `{{` not followed by a third `{` -/
theorem symCut_m_open2 (rest : List Rune) (h : ∀ x, rest.head? = some x → x ≠ 123) :
    symCut mustacheRegs (123 :: 123 :: rest) = [123, 123] := by
  rw [symCut_take mustacheRegs 3 (by omega) mustacheRegs_len]
  unfold symCut
  rw [longest_eq]
  cases rest with
  | nil => simp [longestUpTo, returnable, mustacheRegs_eq]
  | cons x xs =>
    have hx : x ≠ 123 := h x rfl
    have hx' : 123 ≠ x := fun e => hx e.symm
    simp [longestUpTo, returnable, mustacheRegs_eq, hx, hx']

/-- `}}` not followed by a third `}` -/
theorem symCut_m_close2 (rest : List Rune) (h : ∀ x, rest.head? = some x → x ≠ 125) :
    symCut mustacheRegs (125 :: 125 :: rest) = [125, 125] := by
  rw [symCut_take mustacheRegs 3 (by omega) mustacheRegs_len]
  unfold symCut
  rw [longest_eq]
  cases rest with
  | nil => simp [longestUpTo, returnable, mustacheRegs_eq]
  | cons x xs =>
    have hx : x ≠ 125 := h x rfl
    have hx' : 125 ≠ x := fun e => hx e.symm
    simp [longestUpTo, returnable, mustacheRegs_eq, hx, hx']

/-- `{{{`, whatever follows -/
theorem symCut_m_open3 (rest : List Rune) :
    symCut mustacheRegs (123 :: 123 :: 123 :: rest) = [123, 123, 123] := by
  rw [symCut_take mustacheRegs 3 (by omega) mustacheRegs_len]
  unfold symCut
  rw [longest_eq]
  simp [longestUpTo, returnable, mustacheRegs_eq]

/-- `}}}`, whatever follows -/
theorem symCut_m_close3 (rest : List Rune) :
    symCut mustacheRegs (125 :: 125 :: 125 :: rest) = [125, 125, 125] := by
  rw [symCut_take mustacheRegs 3 (by omega) mustacheRegs_len]
  unfold symCut
  rw [longest_eq]
  simp [longestUpTo, returnable, mustacheRegs_eq]

/-- a rune that is not a brace stands alone, whatever follows -/
theorem symCut_m_single (a : Rune) (rest : List Rune) (h1 : a ≠ 123) (h2 : a ≠ 125) :
    symCut mustacheRegs (a :: rest) = [a] := by
  have h1' : 123 ≠ a := fun e => h1 e.symm
  have h2' : 125 ≠ a := fun e => h2 e.symm
  rw [symCut_take mustacheRegs 3 (by omega) mustacheRegs_len]
  unfold symCut
  rw [longest_eq]
  cases rest with
  | nil => simp [longestUpTo, returnable, mustacheRegs_eq, h1, h2, h1', h2']
  | cons x xs =>
    cases xs with
    | nil => simp [longestUpTo, returnable, mustacheRegs_eq, h1, h2, h1', h2']
    | cons y ys => simp [longestUpTo, returnable, mustacheRegs_eq, h1, h2, h1', h2']

/-! ## §3 one segmentation step inside a tag -/

/-- a symbol step of the mustache tokenizer -/
theorem cuts_m_symbol (s : Scanner) (hw : s.WF) (c : Rune) (lex rest : List Rune)
    (hhead : lex.head? = some c) (hin : s.content.drop s.pos = lex ++ rest)
    (hd : mustacheCfg.dispatch.lookup c = some .symbol)
    (hcut : symCut mustacheRegs (lex ++ rest) = lex) :
    Cuts mustacheCfg s TT.symbol lex none rest :=
  symbol_step mustacheCfg rawContract_mustache mustacheRegs mustache_symbols mustacheRegs_ok
    mustacheRegs_typ (by decide) s hw c lex rest hhead hin hd hcut

/-- a name: a word-start rune, then word characters, in front of something that is not a word
character, is one `Word` token -/
theorem cuts_m_word (s : Scanner) (hw : s.WF) (c : Rune) (w rest : List Rune)
    (hin : s.content.drop s.pos = (c :: w) ++ rest)
    (hstart : isWordStartM c = true) (hall : ∀ x ∈ w, isWordCharG x = true)
    (hb : ∀ x, rest.head? = some x → isWordCharG x = false) :
    Cuts mustacheCfg s TT.word (c :: w) none rest := by
  have h := rawNext_span mustacheCfg s hw .word TT.word (inMap mustacheCfg.wordChars) c w rest hin
    (mustache_dispatch_word c hstart) (by decide) rfl
    (by
      intro x hx
      show inMap genericWordChars x = true
      rw [inMap_genericWordChars]
      rcases List.mem_cons.mp hx with rfl | hx
      · exact isWordCharG_of_startM _ hstart
      · exact hall x hx)
    (by intro x hx; show inMap genericWordChars x = false; rw [inMap_genericWordChars]; exact hb x hx)
  apply Cuts.of_value mustacheCfg rawContract_mustache s hw c w rest hin
  refine ⟨?_, h.2.1, h.2.2⟩
  rw [h.1]; rfl

/-- a run of blanks in front of a non-blank is one `Whitespace` token -/
theorem cuts_m_ws (s : Scanner) (hw : s.WF) (c : Rune) (w rest : List Rune)
    (hin : s.content.drop s.pos = (c :: w) ++ rest)
    (hall : ∀ x ∈ c :: w, isWs x = true) (hb : ∀ x, rest.head? = some x → isWs x = false) :
    Cuts mustacheCfg s TT.whitespace (c :: w) none rest := by
  have h := rawNext_span mustacheCfg s hw .whitespace TT.whitespace (inMap mustacheCfg.wsChars) c w
    rest hin (mustache_dispatch_ws c (hall c List.mem_cons_self)) (by decide) rfl
    (by intro x hx; show inMap defaultWsChars x = true; rw [inMap_defaultWsChars]; exact hall x hx)
    (by intro x hx; show inMap defaultWsChars x = false; rw [inMap_defaultWsChars]; exact hb x hx)
  apply Cuts.of_value mustacheCfg rawContract_mustache s hw c w rest hin
  refine ⟨?_, h.2.1, h.2.2⟩
  rw [h.1]; rfl

/-! ## §4 the segmentation as a function of the offset; mode-annotated lexeme sequences -/

/-- `mRawSpec` from offset `p` on in mode `m` (`true` = text), with the fuel of `mRawSpec` -/
def mRawFrom (c : List Rune) (m : Bool) (p : Nat) : List RawTok :=
  mRawSpecA c (2 * c.length + 4) m p

theorem mRawSpec_eq_from (c : List Rune) : mRawSpec c = mRawFrom c true 0 := rfl

theorem mRawFrom_end (c : List Rune) (m : Bool) (p : Nat) (h : c.length ≤ p) :
    mRawFrom c m p = [] := mRawSpecA_end c _ m p h

theorem mRawFrom_text_empty (c : List Rune) (p : Nat) (h : textLen (c.drop p) = 0) :
    mRawFrom c true p = mRawFrom c false p := by
  unfold mRawFrom
  rw [show 2 * c.length + 4 = (2 * c.length + 3) + 1 from rfl, mRawSpecA_text_empty c _ p h]
  exact mRawSpecA_fuel c false p _ _ (by show 2 * (c.length - p) + 0 < _; omega)
    (by show 2 * (c.length - p) + 0 < _; omega)

theorem mRawFrom_text (c : List Rune) (p : Nat) (h : textLen (c.drop p) ≠ 0) :
    mRawFrom c true p =
      ⟨TT.special, (c.drop p).take (textLen (c.drop p)), p, none⟩
        :: mRawFrom c true (p + textLen (c.drop p)) := by
  have h0 : textLen (c.drop (p + textLen (c.drop p))) = 0 := by
    rw [← List.drop_drop]; exact textLen_drop _
  rw [mRawFrom_text_empty c _ h0]
  unfold mRawFrom
  rw [show 2 * c.length + 4 = (2 * c.length + 3) + 1 from rfl, mRawSpecA_text c _ p h]
  congr 1
  exact mRawSpecA_fuel c false _ _ _
    (by show 2 * (c.length - (p + textLen (c.drop p))) + 0 < _; omega)
    (by show 2 * (c.length - (p + textLen (c.drop p))) + 0 < _; omega)

theorem mRawFrom_tag (c : List Rune) (p : Nat) (ch : Rune) (h : c[p]? = some ch) :
    mRawFrom c false p =
      ⟨(rawNext mustacheCfg ch (scanAt c p)).1.tok.typ, (rawNext mustacheCfg ch (scanAt c p)).1.tok.value,
        p, (rawNext mustacheCfg ch (scanAt c p)).1.quote⟩
        :: mRawFrom c
             ((rawNext mustacheCfg ch (scanAt c p)).1.tok.typ == TT.symbol
               && isClose (rawNext mustacheCfg ch (scanAt c p)).1.tok.value)
             (p + (rawNext mustacheCfg ch (scanAt c p)).1.tok.value.length) := by
  unfold mRawFrom
  rw [show 2 * c.length + 4 = (2 * c.length + 3) + 1 from rfl, mRawSpecA_tag c _ p ch h]
  congr 1
  have hb := Bool.toNat_le ((rawNext mustacheCfg ch (scanAt c p)).1.tok.typ == TT.symbol
    && isClose (rawNext mustacheCfg ch (scanAt c p)).1.tok.value)
  obtain ⟨h1, h2, _⟩ := scanAt_raw_len c p ch h
  exact mRawSpecA_fuel c _ _ _ _ (by omega) (by omega)

/-- a tag-mode step, given what one segmentation step cuts off -/
theorem mRawFrom_cuts (c : List Rune) (p : Nat) (typ : Nat) (lex : List Rune) (q : Option Rune)
    (rest : List Rune) (h : Cuts mustacheCfg (scanAt c p) typ lex q rest) :
    mRawFrom c false p =
      ⟨typ, lex, p, q⟩ :: mRawFrom c (typ == TT.symbol && isClose lex) (p + lex.length) := by
  obtain ⟨ch, hpk, _, h1, h2, h3, _⟩ := h
  have hget : c[p]? = some ch := by rw [← hpk, peek_eq]; rfl
  rw [mRawFrom_tag c p ch hget, h1, h2, h3]

/-- A lexeme sequence annotated with the tokenizer mode (`true` = text mode) in which its first
lexeme is read:
* text mode, a text lexeme `t`: `t` is exactly the text in front of the next `{{` (or the end);
* text mode, no text in front of the next `{{`: the sequence is read in tag mode;
* tag mode: one segmentation step cuts the lexeme off; the mode switches back to text after a
  closing `}}` / `}}}`.
The side conditions on a tag-mode lexeme say that the tokenizer options of the Mustache parser
leave it alone. -/
inductive MSeg : Bool → List Lexeme → Prop where
  | nil (m : Bool) : MSeg m []
  | text (t : List Rune) (ls : List Lexeme) (hne : t ≠ [])
      (hlen : textLen (t ++ lexText ls) = t.length) (hrest : MSeg true ls) :
      MSeg true (⟨TT.special, t, none⟩ :: ls)
  | enter (ls : List Lexeme) (h0 : textLen (lexText ls) = 0) (hrest : MSeg false ls) : MSeg true ls
  | tag (l : Lexeme) (ls : List Lexeme) (hne : l.text ≠ []) (hq : l.quote = none)
      (hty : l.typ ≠ TT.comment) (hws : l.typ = TT.whitespace → isCloser l.text = false)
      (hcut : ∀ s : Scanner, s.WF → s.content.drop s.pos = l.text ++ lexText ls →
        Cuts mustacheCfg s l.typ l.text l.quote (lexText ls))
      (hrest : MSeg (l.typ == TT.symbol && isClose l.text) ls) : MSeg false (l :: ls)

/-- **the segmentation of an annotated lexeme sequence is the sequence** -/
theorem mRawFrom_of_seg {m : Bool} {ls : List Lexeme} (h : MSeg m ls) :
    ∀ (c : List Rune) (p : Nat), c.drop p = lexText ls → mRawFrom c m p = expectRaw p ls := by
  induction h with
  | nil m =>
    intro c p hd
    have : c.length ≤ p := by
      have := congrArg List.length hd
      simp only [lexText, List.map_nil, List.flatten_nil, List.length_nil, List.length_drop] at this
      omega
    rw [mRawFrom_end c m p this]; rfl
  | text t ls hne hlen _ ih =>
    intro c p hd
    rw [lexText_cons] at hd
    have hd' : c.drop p = t ++ lexText ls := hd
    have htl : textLen (c.drop p) = t.length := by rw [hd', hlen]
    have hpos : t.length ≠ 0 := fun h0 => hne (List.length_eq_zero_iff.mp h0)
    rw [mRawFrom_text c p (by rw [htl]; exact hpos), htl, hd', List.take_left]
    show _ :: _ = _ :: _
    congr 1
    apply ih
    rw [← List.drop_drop, hd', List.drop_left]
  | enter ls h0 _ ih =>
    intro c p hd
    rw [mRawFrom_text_empty c p (by rw [hd]; exact h0)]
    exact ih c p hd
  | tag l ls hne hq hty hws hcut _ ih =>
    intro c p hd
    rw [lexText_cons] at hd
    have hlt : p < c.length := by
      have := congrArg List.length hd
      rw [List.length_drop, List.length_append] at this
      have : 0 < l.text.length := List.length_pos_iff.mpr hne
      omega
    have hc := hcut (scanAt c p) (scanAt_wf c p (by omega)) hd
    rw [mRawFrom_cuts c p l.typ l.text l.quote (lexText ls) hc]
    show _ :: _ = _ :: _
    congr 1
    apply ih
    rw [← List.drop_drop, hd, List.drop_left]

/-- a sequence that starts in front of `{{` (or is empty) can be read in tag mode right away -/
theorem MSeg.toTag {ls : List Lexeme} (h : MSeg true ls) (h0 : textLen (lexText ls) = 0) :
    MSeg false ls := by
  cases h with
  | nil => exact MSeg.nil false
  | text t ls' hne hlen _ =>
    rw [lexText_cons] at h0
    have : t.length = 0 := by
      have h0' : textLen (t ++ lexText ls') = 0 := h0
      omega
    exact absurd (List.length_eq_zero_iff.mp this) hne
  | enter _ _ hrest => exact hrest

/-- every tag-mode lexeme of an annotated sequence is plain: not read by the quote state, not a
comment, and a blank run is not a bracket -/
theorem MSeg.plain {m : Bool} {ls : List Lexeme} (h : MSeg m ls) :
    ∀ l ∈ ls, l.quote = none ∧ l.typ ≠ TT.comment ∧
      (l.typ = TT.whitespace → isCloser l.text = false) := by
  induction h with
  | nil m => intro l hl; exact absurd hl List.not_mem_nil
  | text t ls _ _ _ ih =>
    intro l hl
    rcases List.mem_cons.mp hl with rfl | hl
    · exact ⟨rfl, (show TT.special ≠ TT.comment by decide),
        fun h => absurd h (show TT.special ≠ TT.whitespace by decide)⟩
    · exact ih l hl
  | enter ls _ _ ih => exact ih
  | tag l' ls _ hq hty hws _ _ ih =>
    intro l hl
    rcases List.mem_cons.mp hl with rfl | hl
    · exact ⟨hq, hty, hws⟩
    · exact ih l hl

/-! ### the lexemes of a tag, each in front of what follows it -/

def lxSym (v : List Rune) : Lexeme := ⟨TT.symbol, v, none⟩
def lxWord (v : List Rune) : Lexeme := ⟨TT.word, v, none⟩
def lxWs : Lexeme := ⟨TT.whitespace, [32], none⟩
def lxText (v : List Rune) : Lexeme := ⟨TT.special, v, none⟩

/-- the first rune of what follows satisfies `P` (nothing following is fine) -/
def HeadP (P : Rune → Prop) (l : List Rune) : Prop := ∀ x, l.head? = some x → P x

theorem HeadP.nil (P : Rune → Prop) : HeadP P [] := fun _ h => by cases h

theorem HeadP.cons {P : Rune → Prop} (a : Rune) (l : List Rune) (h : P a) : HeadP P (a :: l) := by
  intro x hx
  simp only [List.head?_cons, Option.some.injEq] at hx
  exact hx ▸ h

theorem HeadP.append_of_ne {P : Rune → Prop} (a b : List Rune) (h : HeadP P a) (hne : a ≠ []) :
    HeadP P (a ++ b) := by
  cases a with
  | nil => exact absurd rfl hne
  | cons x xs => exact HeadP.cons x _ (h x rfl)

/-- a valid name: a word-start rune followed by word characters -/
def nameOK (n : List Rune) : Bool := wordShape isWordStartM isWordCharG n

theorem nameOK_cons {n : List Rune} (h : nameOK n = true) :
    ∃ c w, n = c :: w ∧ isWordStartM c = true ∧ ∀ x ∈ w, isWordCharG x = true := by
  cases n with
  | nil => cases h
  | cons c w =>
    simp only [nameOK, wordShape, Bool.and_eq_true, List.all_eq_true] at h
    exact ⟨c, w, rfl, h.1, h.2⟩

theorem nameOK_ne_nil {n : List Rune} (h : nameOK n = true) : n ≠ [] := by
  obtain ⟨c, w, rfl, _⟩ := nameOK_cons h; exact List.cons_ne_nil _ _

/-- a name starts neither with a brace nor with a blank -/
theorem nameOK_head {n : List Rune} (h : nameOK n = true) (P : Rune → Prop)
    (hP : ∀ c, isWordStartM c = true → P c) (rest : List Rune) : HeadP P (n ++ rest) := by
  obtain ⟨c, w, rfl, hs, _⟩ := nameOK_cons h
  exact HeadP.cons c _ (hP c hs)

theorem mseg_open2 (ls : List Lexeme) (h : HeadP (· ≠ 123) (lexText ls)) (hrest : MSeg false ls) :
    MSeg true (lxSym sOpen2 :: ls) := by
  have htag : MSeg false (lxSym sOpen2 :: ls) := by
    refine MSeg.tag (lxSym sOpen2) ls (by decide) rfl (by decide) (fun h => absurd h (by decide))
      ?_ hrest
    intro s hw hin
    exact cuts_m_symbol s hw 123 sOpen2 _ rfl hin (by decide) (symCut_m_open2 _ h)
  exact MSeg.enter _ (by rw [lexText_cons]; rfl) htag

theorem mseg_open3 (ls : List Lexeme) (hrest : MSeg false ls) : MSeg true (lxSym sOpen3 :: ls) := by
  have htag : MSeg false (lxSym sOpen3 :: ls) := by
    refine MSeg.tag (lxSym sOpen3) ls (by decide) rfl (by decide) (fun h => absurd h (by decide))
      ?_ hrest
    intro s hw hin
    exact cuts_m_symbol s hw 123 sOpen3 _ rfl hin (by decide) (symCut_m_open3 _)
  exact MSeg.enter _ (by rw [lexText_cons]; rfl) htag

theorem mseg_close2 (ls : List Lexeme) (h : HeadP (· ≠ 125) (lexText ls)) (hrest : MSeg true ls) :
    MSeg false (lxSym sClose2 :: ls) := by
  refine MSeg.tag (lxSym sClose2) ls (by decide) rfl (by decide) (fun h => absurd h (by decide))
    ?_ hrest
  intro s hw hin
  exact cuts_m_symbol s hw 125 sClose2 _ rfl hin (by decide) (symCut_m_close2 _ h)

theorem mseg_close3 (ls : List Lexeme) (hrest : MSeg true ls) : MSeg false (lxSym sClose3 :: ls) := by
  refine MSeg.tag (lxSym sClose3) ls (by decide) rfl (by decide) (fun h => absurd h (by decide))
    ?_ hrest
  intro s hw hin
  exact cuts_m_symbol s hw 125 sClose3 _ rfl hin (by decide) (symCut_m_close3 _)

/-- an operator rune `#`, `^`, `/`, `!` -/
theorem mseg_op (a : Rune) (ha : a = 35 ∨ a = 94 ∨ a = 47 ∨ a = 33) (ls : List Lexeme)
    (hrest : MSeg false ls) : MSeg false (lxSym [a] :: ls) := by
  have hm : (TT.symbol == TT.symbol && isClose [a]) = false := by
    rcases ha with rfl | rfl | rfl | rfl <;> decide
  have h1 : a ≠ 123 := by rcases ha with rfl | rfl | rfl | rfl <;> decide
  have h2 : a ≠ 125 := by rcases ha with rfl | rfl | rfl | rfl <;> decide
  refine MSeg.tag (lxSym [a]) ls (List.cons_ne_nil _ _) rfl (show TT.symbol ≠ TT.comment by decide)
    (fun h => absurd h (show TT.symbol ≠ TT.whitespace by decide)) ?_
    (by show MSeg (TT.symbol == TT.symbol && isClose [a]) ls; rw [hm]; exact hrest)
  intro s hw hin
  refine cuts_m_symbol s hw a [a] _ rfl hin ?_ (symCut_m_single a _ h1 h2)
  rcases ha with rfl | rfl | rfl | rfl <;> decide

theorem mseg_word (n : List Rune) (hn : nameOK n = true) (ls : List Lexeme)
    (h : HeadP (fun x => isWordCharG x = false) (lexText ls)) (hrest : MSeg false ls) :
    MSeg false (lxWord n :: ls) := by
  obtain ⟨c, w, rfl, hs, hall⟩ := nameOK_cons hn
  refine MSeg.tag (lxWord (c :: w)) ls (List.cons_ne_nil _ _) rfl
    (show TT.word ≠ TT.comment by decide)
    (fun h => absurd h (show TT.word ≠ TT.whitespace by decide)) ?_ hrest
  intro s hw hin
  exact cuts_m_word s hw c w _ hin hs hall h

theorem mseg_ws (ls : List Lexeme) (h : HeadP (fun x => isWs x = false) (lexText ls))
    (hrest : MSeg false ls) : MSeg false (lxWs :: ls) := by
  refine MSeg.tag lxWs ls (by decide) rfl (by decide) (fun _ => by decide) ?_ hrest
  intro s hw hin
  exact cuts_m_ws s hw 32 [] _ hin (by decide) h

/-! ## §5 the tokenizer options of the Mustache parser, seen from the lexical analysis -/

/-- the lexical analysis reads only type and text of a token -/
theorem lexAll_congr_tv (a b : List Tok)
    (h : a.map (fun t => (t.typ, t.value)) = b.map (fun t => (t.typ, t.value))) :
    ∀ s : LexState, lexAll s a = lexAll s b := by
  induction a generalizing b with
  | nil =>
    cases b with
    | nil => intro s; rfl
    | cons y ys => cases h
  | cons x xs ih =>
    cases b with
    | nil => cases h
    | cons y ys =>
      intro s
      simp only [List.map_cons, List.cons.injEq, Prod.mk.injEq] at h
      obtain ⟨⟨h1, h2⟩, h3⟩ := h
      have hstep : lexStep s x = lexStep s y := by
        obtain ⟨ty, v, l, c⟩ := x
        obtain ⟨ty', v', l', c'⟩ := y
        simp only at h1 h2
        subst h1; subst h2
        rw [lexStep_pos s ty v l c, lexStep_pos s ty v l' c']
      simp only [lexAll, hstep]
      cases lexStep s y with
      | error e => rfl
      | ok s' => exact ih ys h3 s'

theorem lexical_congr (a b : List Tok) (h : lexAll {} a = lexAll {} b) : lexical a = lexical b := by
  unfold lexical; rw [h]

/-- the tokens of a lexeme sequence, positions erased -/
def lexToks (ls : List Lexeme) : List Tok := ls.map (fun l => ⟨l.typ, l.text, 0, 0⟩)

theorem lexToks_append (a b : List Lexeme) : lexToks (a ++ b) = lexToks a ++ lexToks b :=
  List.map_append

theorem expectRaw_tv (p : Nat) (ls : List Lexeme) :
    (expectRaw p ls).map (fun r => (r.typ, r.value)) = (lexToks ls).map (fun t => (t.typ, t.value)) := by
  induction ls generalizing p with
  | nil => rfl
  | cons l ls ih =>
    simp only [expectRaw, lexToks, List.map_cons, List.map_map] at ih ⊢
    rw [ih]

theorem isWsTok_tv (t t' : Tok) (h1 : t.typ = t'.typ) (h2 : t.value = t'.value) :
    isWsTok t = isWsTok t' := by
  unfold isWsTok; rw [h1, h2]

/-- what `mustacheOpts` do to a plain raw token: only a blank run directly after a blank run is
dropped; every other token comes through with its type and text -/
theorem processSpec_mustacheOpts (c : List Rune) (last : Nat) (r : RawTok) (hq : r.quote = none)
    (hty : r.typ ≠ TT.comment) :
    processSpec mustacheCfg mustacheOpts c last r =
      if r.typ = TT.whitespace ∧ last = TT.whitespace then none
      else some ⟨r.typ, r.value, (posOf c r.start).1, (posOf c r.start).2⟩ := by
  have h2 : (r.typ == TT.comment) = false := beq_false_of_ne hty
  unfold processSpec
  simp only [mustacheOpts, hq, h2, Bool.and_false, Bool.false_and, Bool.and_true, Bool.false_eq_true,
    if_false, Bool.and_eq_true, beq_iff_eq]

/-- the non-blank tokens (all the lexical analysis looks at) of the option-processed stream are
those of the raw list -/
theorem postSpec_mustacheOpts_filter (c : List Rune) (raws : List RawTok)
    (hp : ∀ r ∈ raws, r.quote = none ∧ r.typ ≠ TT.comment ∧
      (r.typ = TT.whitespace → isCloser r.value = false)) :
    ∀ last, ((postSpec mustacheCfg mustacheOpts c last raws).filter (fun t => !isWsTok t)).map
        (fun t => (t.typ, t.value)) =
      ((raws.map (fun r => (⟨r.typ, r.value, 0, 0⟩ : Tok))).filter (fun t => !isWsTok t)).map
        (fun t => (t.typ, t.value)) := by
  induction raws with
  | nil => intro last; rfl
  | cons r rs ih =>
    intro last
    obtain ⟨hq, hty, hws⟩ := hp r List.mem_cons_self
    have ih' := ih (fun r' hr' => hp r' (List.mem_cons_of_mem _ hr'))
    rw [postSpec_cons, processSpec_mustacheOpts c last r hq hty]
    by_cases hcase : r.typ = TT.whitespace ∧ last = TT.whitespace
    · rw [if_pos hcase]
      simp only
      have hw : isWsTok (⟨r.typ, r.value, 0, 0⟩ : Tok) = true := by
        unfold isWsTok
        simp only [hcase.1, hws hcase.1, beq_self_eq_true, Bool.not_false, Bool.and_self]
      rw [List.map_cons, List.filter_cons, hw]
      simp only [Bool.not_true, Bool.false_eq_true, if_false]
      exact ih' last
    · rw [if_neg hcase]
      simp only
      have hw : isWsTok (⟨r.typ, r.value, (posOf c r.start).1, (posOf c r.start).2⟩ : Tok)
          = isWsTok (⟨r.typ, r.value, 0, 0⟩ : Tok) := isWsTok_tv _ _ rfl rfl
      rw [List.map_cons, List.filter_cons, List.filter_cons, hw]
      cases isWsTok (⟨r.typ, r.value, 0, 0⟩ : Tok) with
      | true =>
        simp only [Bool.not_true, Bool.false_eq_true, if_false]
        exact ih' _
      | false =>
        simp only [Bool.not_false, if_true, List.map_cons]
        rw [ih' _]

/-- **from the annotated lexeme sequence of a text to its lexical analysis**: the lexical
analysis of the mustache token stream of `lexText ls` is that of the lexemes themselves -/
theorem lexical_tokenize_of_seg (ls : List Lexeme) (h : MSeg true ls) :
    lexical (tokenize mustacheCfg mustacheOpts (lexText ls)) = lexical (lexToks ls) := by
  have hraw : mRawSpec (lexText ls) = expectRaw 0 ls := by
    rw [mRawSpec_eq_from]
    exact mRawFrom_of_seg h (lexText ls) 0 rfl
  have hplain : ∀ r ∈ expectRaw 0 ls, r.quote = none ∧ r.typ ≠ TT.comment ∧
      (r.typ = TT.whitespace → isCloser r.value = false) := by
    have hp := h.plain
    have key : ∀ (p : Nat) (ks : List Lexeme),
        (∀ l ∈ ks, l.quote = none ∧ l.typ ≠ TT.comment ∧
          (l.typ = TT.whitespace → isCloser l.text = false)) →
        ∀ r ∈ expectRaw p ks, r.quote = none ∧ r.typ ≠ TT.comment ∧
          (r.typ = TT.whitespace → isCloser r.value = false) := by
      intro p ks
      induction ks generalizing p with
      | nil => intro _ r hr; exact absurd hr List.not_mem_nil
      | cons k ks ih =>
        intro hk r hr
        simp only [expectRaw, List.mem_cons] at hr
        rcases hr with rfl | hr
        · exact hk k List.mem_cons_self
        · exact ih _ (fun l hl => hk l (List.mem_cons_of_mem _ hl)) r hr
    exact key 0 ls hp
  apply lexical_congr
  rw [tokenize_mustache_eq, mStreamSpec, hraw]
  have hskip : mustacheOpts.skipEof = true := rfl
  rw [hskip]
  simp only [if_true, List.append_nil]
  rw [lexAll_filter_ws, lexAll_filter_ws {} (lexToks ls)]
  apply lexAll_congr_tv
  rw [postSpec_mustacheOpts_filter _ _ hplain]
  have e : (expectRaw 0 ls).map (fun r => (⟨r.typ, r.value, 0, 0⟩ : Tok)) = lexToks ls := by
    have key : ∀ (p : Nat) (ks : List Lexeme),
        (expectRaw p ks).map (fun r => (⟨r.typ, r.value, 0, 0⟩ : Tok)) = lexToks ks := by
      intro p ks
      induction ks generalizing p with
      | nil => rfl
      | cons k ks ih =>
        simp only [expectRaw, lexToks, List.map_cons] at ih ⊢
        rw [ih]
    exact key 0 ls
  rw [e]

/-! ## §6 `trimStr`; a text in front of a tag -/

theorem dropWhile_of_head_false {α : Type} (p : α → Bool) (l : List α)
    (h : ∀ x, l.head? = some x → p x = false) : l.dropWhile p = l := by
  cases l with
  | nil => rfl
  | cons a t => rw [List.dropWhile_cons, h a rfl]; rfl

/-- a source that neither begins nor ends with a blank is not changed by the trimming of
`ParseString` -/
theorem trimStr_id (s : List Rune) (h1 : ∀ x, s.head? = some x → isTrimRune x = false)
    (h2 : ∀ x, s.getLast? = some x → isTrimRune x = false) : trimStr s = s := by
  unfold trimStr
  rw [dropWhile_of_head_false _ s h1, dropWhile_of_head_false _ s.reverse (by rwa [List.head?_reverse]),
    List.reverse_reverse]

/-- the text in front of `{{ …` only depends on the text -/
theorem textLen_before_tag (s r : List Rune) (h1 : textLen s = s.length)
    (h2 : s.getLast? ≠ some 123) : textLen (s ++ 123 :: 123 :: r) = s.length := by
  induction s with
  | nil => rfl
  | cons a t ih =>
    cases t with
    | nil =>
      have ha : a ≠ 123 := by simpa using h2
      have : (a == 123) = false := beq_false_of_ne ha
      simp only [List.cons_append, List.nil_append, textLen_cons, this, Bool.false_and,
        Bool.false_eq_true, if_false, List.head?_cons, beq_self_eq_true, Bool.and_self, if_true,
        List.length_cons, List.length_nil]
    | cons b t' =>
      have hc : ¬ ((a == 123 && (b :: t').head? == some 123) = true) := by
        intro hc
        rw [textLen_cons, if_pos hc] at h1
        simp at h1
      rw [textLen_cons, if_neg hc] at h1
      have h1' : textLen (b :: t') = (b :: t').length := by
        simp only [List.length_cons] at h1 ⊢; omega
      have h2' : (b :: t').getLast? ≠ some 123 := by
        rw [List.getLast?_cons_cons] at h2; exact h2
      have := ih h1' h2'
      rw [List.cons_append, textLen_cons]
      have hc' : ¬ ((a == 123 && ((b :: t') ++ 123 :: 123 :: r).head? == some 123) = true) := hc
      rw [if_neg hc', this]
      simp only [List.length_cons]

end Verif
