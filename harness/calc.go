package main

import (
	"strconv"
	"fmt"
	ctok "github.com/pip-services3-gox/pip-services3-expressions-gox/calculator/tokenizers"
	"github.com/pip-services3-gox/pip-services3-expressions-gox/tokenizers"
	"math"
	"strings"
	"time"

	"github.com/pip-services3-gox/pip-services3-commons-gox/errors"
	"github.com/pip-services3-gox/pip-services3-expressions-gox/calculator/parsers"
	"github.com/pip-services3-gox/pip-services3-expressions-gox/variants"
)

// ---- expression parser: shared runner for C02 C18 C01 C03 ----------------------------------------

func encVariant(v *variants.Variant) string {
	if v == nil {
		return "nil"
	}
	switch v.Type() {
	case variants.Null:
		return "n"
	case variants.Integer:
		return fmt.Sprintf("i%d", v.AsInteger())
	case variants.Long:
		return fmt.Sprintf("l%d", v.AsLong())
	case variants.Float:
		f := v.AsFloat()
		if f != f {
			return "fNaN"
		}
		return fmt.Sprintf("f%08x", math.Float32bits(f))
	case variants.Double:
		d := v.AsDouble()
		if d != d {
			return "dNaN"
		}
		return fmt.Sprintf("d%016x", math.Float64bits(d))
	case variants.String:
		rs := []rune(v.AsString())
		parts := make([]string, len(rs))
		for i, r := range rs {
			parts[i] = fmt.Sprint(int(r))
		}
		return "s" + strings.Join(parts, ".")
	case variants.Boolean:
		if v.AsBoolean() {
			return "b1"
		}
		return "b0"
	case variants.DateTime:
		t := v.AsDateTime()
		return encTime(t)
	case variants.TimeSpan:
		return fmt.Sprintf("p%d", int64(v.AsTimeSpan()))
	case variants.Array:
		var parts []string
		for _, e := range v.AsArray() {
			parts = append(parts, encVariant(e))
		}
		return "a[" + strings.Join(parts, "/") + "]"
	case variants.Object:
		return "o"
	}
	return "?"
}

func encETok(t *parsers.ExpressionToken) string {
	switch t.Type() {
	case parsers.Variable:
		return "35:" + strRunes(safeStr(t.Value()))
	case parsers.Function:
		return "34:" + strRunes(safeStr(t.Value()))
	case parsers.Constant:
		return "36:" + encVariant(t.Value())
	}
	return fmt.Sprint(t.Type())
}

func safeStr(v *variants.Variant) string {
	if v != nil && v.Type() == variants.String {
		return v.AsString()
	}
	return ""
}

func errCode(err error) string {
	if err == nil {
		return ""
	}
	if ae, ok := err.(*errors.ApplicationError); ok {
		if ae.Code == "" {
			return "<empty-code>"
		}
		return ae.Code
	}
	return "<not-an-application-error>"
}

type parseOut struct {
	status  string // "" | panic:… | hang
	code    string // error code, "" if accepted
	initial []string
	result  []string
	vars    []string
	lexical bool // rejected by the lexical analysis (unknown symbol, constant out of range): no complete token list
}

func runParser(expr string) parseOut {
	var o parseOut
	o.status = safeCallT(3*time.Second, func() string {
		p := parsers.NewExpressionParser()
		err := p.ParseString(expr)
		o.code = errCode(err)
		o.lexical = o.code == "UNKNOWN_SYMBOL" || (err != nil && strings.Contains(err.Error(), "is out of range"))
		for _, t := range p.InitialTokens() {
			o.initial = append(o.initial, encETok(t))
		}
		for _, t := range p.ResultTokens() {
			o.result = append(o.result, encETok(t))
		}
		o.vars = p.VariableNames()
		return ""
	})
	return o
}

func (o parseOut) implLine() string {
	if o.status != "" {
		if strings.HasPrefix(o.status, "panic:") {
			return "panic"
		}
		return o.status
	}
	if o.code != "" {
		return "err " + o.code
	}
	out, vars := "-", "-"
	if len(o.result) > 0 {
		out = strings.Join(o.result, " ")
	}
	if len(o.vars) > 0 {
		var vs []string
		for _, v := range o.vars {
			vs = append(vs, strRunes(v))
		}
		vars = strings.Join(vs, " ")
	}
	return "ok " + out + " ; " + vars
}

// ---- independent reference: the expression grammar as a CFG, decided by a memoised recogniser --

type gsym int

const (
	nE gsym = iota
	nL1
	nL2
	nL3
	nL4
	nL5
	nL6
	nS
	nP
	nARGS
	numNT
)

func isNT(s int) bool { return s < 0 }

// productions: negative numbers = nonterminal -(id+1); non-negative = ExpressionTokenType code
func nt(n gsym) int { return -int(n) - 1 }

var grammar = map[gsym][][]int{}

func init() {
	add := func(lhs gsym, rhs ...int) { grammar[lhs] = append(grammar[lhs], rhs) }
	add(nE, nt(nL1))
	for _, op := range []int{parsers.And, parsers.Or, parsers.Xor} {
		add(nE, nt(nE), op, nt(nL1))
	}
	add(nL1, parsers.Not, nt(nL2))
	add(nL1, nt(nL2))
	add(nL2, nt(nL3))
	for _, op := range []int{parsers.Equal, parsers.NotEqual, parsers.More, parsers.Less, parsers.EqualMore, parsers.EqualLess} {
		add(nL2, nt(nL2), op, nt(nL3))
	}
	add(nL3, nt(nL4))
	for _, op := range []int{parsers.Plus, parsers.Minus, parsers.Like} {
		add(nL3, nt(nL3), op, nt(nL4))
	}
	add(nL3, nt(nL3), parsers.Not, parsers.Like, nt(nL4))
	add(nL3, nt(nL3), parsers.Is, parsers.Null)
	add(nL3, nt(nL3), parsers.Is, parsers.Not, parsers.Null)
	add(nL3, nt(nL3), parsers.Not, parsers.In, nt(nL4))
	add(nL4, nt(nL5))
	for _, op := range []int{parsers.Star, parsers.Slash, parsers.Procent} {
		add(nL4, nt(nL4), op, nt(nL5))
	}
	add(nL5, nt(nL6))
	for _, op := range []int{parsers.Power, parsers.In, parsers.ShiftLeft, parsers.ShiftRight} {
		add(nL5, nt(nL5), op, nt(nL6))
	}
	add(nL6, nt(nS))
	add(nL6, nt(nS), parsers.LeftSquareBrace, nt(nE), parsers.RightSquareBrace)
	add(nS, nt(nP))
	add(nS, parsers.Plus, nt(nP))
	add(nS, parsers.Minus, nt(nP))
	add(nP, parsers.Constant)
	add(nP, parsers.Variable)
	add(nP, parsers.LeftBrace, nt(nE), parsers.RightBrace)
	add(nP, parsers.Variable, parsers.LeftBrace, parsers.RightBrace)
	add(nP, parsers.Variable, parsers.LeftBrace, nt(nARGS), parsers.RightBrace)
	add(nARGS, nt(nE))
	add(nARGS, nt(nARGS), parsers.Comma, nt(nE))
}

type cfgRec struct {
	toks []int
	memo map[[3]int]int8
}

// derives: does nonterminal n derive toks[i:j] ?
func (r *cfgRec) derives(n gsym, i, j int) bool {
	if i >= j {
		return false // no nullable nonterminal
	}
	key := [3]int{int(n), i, j}
	if v, ok := r.memo[key]; ok {
		return v == 1
	}
	r.memo[key] = 0 // left-recursive re-entry on the same span fails (no unit cycles)
	res := false
	for _, rhs := range grammar[n] {
		if r.seq(rhs, i, j) {
			res = true
			break
		}
	}
	if res {
		r.memo[key] = 1
	} else {
		r.memo[key] = 0
	}
	return res
}

func (r *cfgRec) seq(rhs []int, i, j int) bool {
	if len(rhs) == 0 {
		return i == j
	}
	if len(rhs) > j-i {
		return false
	}
	s := rhs[0]
	if s >= 0 {
		return r.toks[i] == s && r.seq(rhs[1:], i+1, j)
	}
	n := gsym(-s - 1)
	if len(rhs) == 1 {
		return r.derivesNoSelf(n, i, j, rhs)
	}
	for k := i + 1; k <= j-(len(rhs)-1); k++ {
		if r.derives(n, i, k) && r.seq(rhs[1:], k, j) {
			return true
		}
	}
	return false
}

func (r *cfgRec) derivesNoSelf(n gsym, i, j int, _ []int) bool { return r.derives(n, i, j) }

func cfgAccepts(types []int) bool {
	if len(types) == 0 {
		return false
	}
	r := &cfgRec{toks: types, memo: map[[3]int]int8{}}
	return r.derives(nE, 0, len(types))
}

// ---- class alphabet for exhaustive token sequences ------------------------------------------------

type tokClass struct {
	lex string
	typ int
}

var classToks = []tokClass{
	{"1", parsers.Constant}, {"a", parsers.Variable}, {"(", parsers.LeftBrace}, {")", parsers.RightBrace},
	{"[", parsers.LeftSquareBrace}, {"]", parsers.RightSquareBrace}, {",", parsers.Comma},
	{"+", parsers.Plus}, {"-", parsers.Minus}, {"*", parsers.Star}, {"^", parsers.Power}, {"=", parsers.Equal},
	{"AND", parsers.And}, {"NOT", parsers.Not}, {"IS", parsers.Is}, {"NULL", parsers.Null}, {"IN", parsers.In}, {"LIKE", parsers.Like},
}

var allOpLex = map[int][]string{
	parsers.Plus: {"+"}, parsers.Minus: {"-"}, parsers.Star: {"*"}, parsers.Slash: {"/"}, parsers.Procent: {"%"}, parsers.Power: {"^"},
	parsers.Equal: {"="}, parsers.NotEqual: {"<>", "!="}, parsers.More: {">"}, parsers.Less: {"<"}, parsers.EqualMore: {">="}, parsers.EqualLess: {"<="},
	parsers.ShiftLeft: {"<<"}, parsers.ShiftRight: {">>"}, parsers.And: {"AND"}, parsers.Or: {"OR"}, parsers.Xor: {"XOR"},
	parsers.In: {"IN"}, parsers.Like: {"LIKE"}, parsers.Not: {"NOT"}, parsers.Is: {"IS"}, parsers.Null: {"NULL"},
}

// operator spellings of the expression language and their token-type codes
var opCodes = map[string]int{"(": 1, ")": 2, "[": 3, "]": 4, "+": 5, "-": 6, "*": 7, "/": 8, "%": 9, "^": 10, "=": 11, "<>": 12, "!=": 12,
	">": 13, "<": 14, ">=": 15, "<=": 16, "<<": 17, ">>": 18, "AND": 19, "OR": 20, "XOR": 21, "IS": 22, "IN": 23, "NULL": 26, "NOT": 27, "LIKE": 28, ",": 32}

// lexClassOracle: the class of every tokenizer token decides the class of the expression token, independently
// of the parser — a Word (identifier or "quoted identifier") is a variable whatever it spells, a Quoted token
// a string constant, numbers constants, TRUE/FALSE Boolean constants, other keywords and symbols operators
func lexClassOracle(expr string, initial []string) string {
	var want []string
	for _, t := range exprTokens(expr) {
		switch t.Type() {
		case tokenizers.Whitespace, tokenizers.Comment:
			continue
		case tokenizers.Word:
			want = append(want, "35:"+strRunes(t.Value()))
		case tokenizers.Quoted:
			if t.Value() == "" {
				want = append(want, "36:s")
			} else {
				want = append(want, "36:s"+strings.ReplaceAll(strRunes(t.Value()), ",", "."))
			}
		case tokenizers.Integer, tokenizers.Float:
			want = append(want, "36:")
		case tokenizers.Keyword, tokenizers.Symbol:
			up := strings.ToUpper(t.Value())
			if t.Type() == tokenizers.Keyword && (up == "TRUE" || up == "FALSE") {
				want = append(want, map[string]string{"TRUE": "36:b1", "FALSE": "36:b0"}[up])
			} else if code, ok := opCodes[up]; ok {
				want = append(want, fmt.Sprint(code))
			} else {
				return "" // unknown symbol: rejected by the lexical analysis, handled elsewhere
			}
		default:
			return ""
		}
	}
	if len(want) != len(initial) {
		return fmt.Sprintf("the tokenizer delivers %d significant tokens, the lexical analysis %d expression tokens", len(want), len(initial))
	}
	for i, w := range want {
		g := initial[i]
		if w == "36:" {
			if !strings.HasPrefix(g, "36:i") && !strings.HasPrefix(g, "36:f") {
				return fmt.Sprintf("token #%d is a number but became %s", i, g)
			}
			continue
		}
		if g != w {
			return fmt.Sprintf("token #%d (class decided by the tokenizer) should become %s but became %s", i, w, g)
		}
	}
	return ""
}

// foreignToken returns the first token of the text that no class of the expression language admits: a symbol or
// keyword outside the operator table, an Unknown token (a character the tokenizer has no state for), an empty word
func foreignToken(expr string) string {
	// the tokens of the text with NOTHING skipped (whatever options the constructor or the parser may have set)
	var toks []*tokenizers.Token
	if e := strings.Trim(expr, " \t\r\n"); e != "" {
		t := ctok.NewExpressionTokenizer()
		setOpts(t, 8|64)
		toks = t.TokenizeBuffer(e)
	}
	for _, t := range toks {
		switch t.Type() {
		case tokenizers.Symbol, tokenizers.Keyword:
			up := strings.ToUpper(t.Value())
			if _, ok := opCodes[up]; !ok && up != "TRUE" && up != "FALSE" {
				return t.Value()
			}
		case tokenizers.Whitespace, tokenizers.Comment, tokenizers.Integer, tokenizers.Float, tokenizers.Quoted:
		case tokenizers.Word:
			if t.Value() == "" {
				return "\"\""
			}
		default:
			return t.Value()
		}
	}
	return ""
}

func typesOfInitial(initial []string) []int {
	out := make([]int, len(initial))
	for i, s := range initial {
		var n int
		fmt.Sscanf(s, "%d", &n)
		out[i] = n
	}
	return out
}

// runParseCase: one expression string through the real parser; oracle = CFG membership of the
// implementation's own initial-token types; correspondence = model parse of the same tokens.
func runParseCase(c *Ctx, expr string, label string) parseOut {
	o := runParser(expr)
	op := "parse " + strings.Join(o.initial, " ")
	if len(o.initial) == 0 {
		op = "parse"
	}
	full := op + " # " + strRunes(expr)
	c.record(full, len(o.initial) >= 3)
	c.count(label)
	impl := o.implLine()
	if o.status != "" {
		c.fail(Failure{Kind: "oracle", Op: "expr " + strRunes(expr), Impl: impl, Note: fmt.Sprintf("SetExpression(%q) did not return normally: %s", expr, o.status)})
		return o
	}
	if o.status == "" && o.lexical && o.code == "ERROR_AT" {
		// rejected before the syntax analysis because a numeric constant is "out of range": some constant of the text must be
		justified := false
		if e := strings.Trim(expr, " \t\r\n"); e != "" {
			t := ctok.NewExpressionTokenizer()
			setOpts(t, 8)
			for _, k := range t.TokenizeBuffer(e) {
				if k.Type() == tokenizers.Integer {
					if _, err := strconv.ParseInt(k.Value(), 10, 64); err != nil {
						justified = true
					}
				} else if k.Type() == tokenizers.Float {
					if _, err := strconv.ParseFloat(k.Value(), 32); err != nil {
						justified = true
					}
				}
			}
		}
		if !justified {
			c.fail(Failure{Kind: "oracle", Op: "expr " + strRunes(expr), Impl: o.implLine(), Note: fmt.Sprintf("%q was rejected because of a numeric constant, but every integer constant of it fits 64 bits and every float constant is a finite 32-bit float", expr)})
			return o
		}
	}
	if o.status == "" && o.lexical && o.code == "UNKNOWN_SYMBOL" && foreignToken(expr) == "" {
		c.fail(Failure{Kind: "oracle", Op: "expr " + strRunes(expr), Impl: o.implLine(), Note: fmt.Sprintf("%q was rejected with UNKNOWN_SYMBOL although every token of it is a symbol, keyword, word, number or string of the expression language", expr)})
		return o
	}
	if o.status == "" {
		if bad := foreignToken(expr); bad != "" && !o.lexical {
			c.fail(Failure{Kind: "oracle", Op: "expr " + strRunes(expr), Impl: o.implLine(), Note: fmt.Sprintf("the token %q is not a symbol of the expression language; the text must be rejected as such (UNKNOWN_SYMBOL), it was %s", bad, o.implLine())})
			return o
		}
	}
	if o.code == "<empty-code>" || o.code == "<not-an-application-error>" {
		c.fail(Failure{Kind: "oracle", Op: "expr " + strRunes(expr), Impl: impl, Note: fmt.Sprintf("%q was rejected, but the error carries no error code (%s)", expr, o.code)})
		return o
	}
	if o.status == "" {
		// nothing of the text may be lost on the way to the parser: the tokens of the text, nothing skipped, spell the text
		if e := strings.Trim(expr, " \t\r\n"); e != "" {
			var sb strings.Builder
			st := safeCallT(3*time.Second, func() string {
				t := ctok.NewExpressionTokenizer()
				setOpts(t, 0)
				for _, k := range t.TokenizeBuffer(e) {
					sb.WriteString(k.Value())
				}
				return ""
			})
			if st == "" && sb.String() != e {
				c.fail(Failure{Kind: "oracle", Op: "expr " + strRunes(expr), Impl: o.implLine(), Note: fmt.Sprintf("the tokens of %q spell %q: characters were dropped or changed before the parser saw them (no input may be reinterpreted by ignoring parts of it)", e, sb.String())})
				return o
			}
		}
	}
	if !o.lexical && o.status == "" {
		if msg := lexClassOracle(expr, o.initial); msg != "" {
			c.fail(Failure{Kind: "oracle", Op: "expr " + strRunes(expr), Impl: o.implLine(), Note: msg})
			return o
		}
	}
	if c.Prop == "C02" {
		reuseParse(c, expr, o)
		if c.Evals%4 == 0 {
			checkParseEntryPoints(c, expr, o)
		}
	}
	// text level: the model's trim + tokenizer + lexical analysis must produce the same initial tokens
	if o.lexical {
		c.model("lex "+strRunes(expr), "err "+o.code, "model")
	} else if len(o.initial) == 0 {
		c.model("lex "+strRunes(expr), "ok -", "model")
	} else {
		c.model("lex "+strRunes(expr), "ok "+strings.Join(o.initial, " "), "model")
	}
	if o.lexical {
		c.count("lexical-reject")
		return o // rejected before syntax analysis; nothing to compare at token level
	}
	if len(o.initial) == 0 {
		c.count("empty")
		// only the empty token sequence is the empty expression: a token sequence that is not empty (the parser is handed a
		// whitespace token, say) but holds no expression token is no sentence, to be rejected
		if n := len(exprTokens(expr)); n > 0 && o.code == "" {
			c.fail(Failure{Kind: "oracle", Op: "expr " + strRunes(expr), Impl: impl, Note: fmt.Sprintf("the text %q gives the parser %d token(s), none of them an expression token; that is no sentence of the grammar but it was accepted", expr, n)})
		}
		return o
	}
	if len(o.initial) > 80 {
		// the recogniser is cubic; long sentences are checked against the model and the post-order oracle only
		c.count("grammar:too-long-for-the-recogniser")
		if o.code != "" {
			c.model(op, "err", "errprefix")
			return o
		}
		c.model(op, impl, "model")
		return o
	}
	acc := cfgAccepts(typesOfInitial(o.initial))
	if acc {
		c.count("grammar:sentence")
	} else {
		c.count("grammar:non-sentence")
	}
	if acc && o.code != "" {
		c.fail(Failure{Kind: "oracle", Op: "expr " + strRunes(expr), Impl: impl, Note: fmt.Sprintf("%q is a sentence of the grammar but was rejected with %s", expr, o.code)})
		return o
	}
	if !acc && o.code == "" {
		c.fail(Failure{Kind: "oracle", Op: "expr " + strRunes(expr), Impl: impl, Note: fmt.Sprintf("%q is not a sentence of the grammar but was accepted (compiled to %s)", expr, strings.Join(o.result, " "))})
		return o
	}
	if o.code != "" {
		// the property fixes that there is a code, not which one: compare accept/reject only
		c.model(op, "err", "errprefix")
		c.count("errcode:" + o.code)
		return o
	}
	c.model(op, impl, "model")
	return o
}

func replayParse(c *Ctx, op string) {
	if replaySeq(c, op) || replayEntry(c, op) {
		return
	}
	f := strings.Fields(op)
	if len(f) == 2 && (f[0] == "expr" || f[0] == "lex") {
		runParseCase(c, string(parseRunes(f[1])), "replay")
	}
}
