/-
C05 for the long-lived objects: parser, calculator, template.

Over the object model `Model/Objects.lean` (fields = the generated field lists of `TieA.parserReset_tie` /
`tokenizerReset_tie`): whatever an object processed before — any state of its per-input fields, any state of
the tokenizer it owns — the outcome for the next input is the outcome of the stateless pipeline
(`parseString`, `calculate`, `renderTemplate`), i.e. of a freshly constructed object.
-/
import Verif.Model.Objects
import Verif.Props.C05

namespace Verif

theorem ParserObj.tokens_eq (p : ParserObj) (text : List Rune) :
    p.tokens (trimBlank text) = tokenizeExpression text := by
  unfold ParserObj.tokens tokenizeExpression
  simp only [C05_history_independent]

/-- **parser**: the outcome of `ParseString` does not depend on the object's past -/
theorem C05_parser_history_independent (p : ParserObj) (text : List Rune) :
    (p.parseString text).2 = parseString text := by
  show performParsing (p.clear.tokens (trimBlank text)) = performParsing (tokenizeExpression text)
  rw [ParserObj.tokens_eq]

/-- … nor do the fields a caller can read back afterwards -/
theorem C05_parser_fields_history_independent (p q : ParserObj) (text : List Rune) :
    (p.parseString text).1.expression = (q.parseString text).1.expression ∧
    (p.parseString text).1.originalTokens = (q.parseString text).1.originalTokens ∧
    (p.parseString text).1.initialTokens = (q.parseString text).1.initialTokens ∧
    (p.parseString text).1.resultTokens = (q.parseString text).1.resultTokens ∧
    (p.parseString text).1.variableNames = (q.parseString text).1.variableNames ∧
    (p.parseString text).1.currentTokenIndex = (q.parseString text).1.currentTokenIndex := by
  simp [ParserObj.parseString, ParserObj.finish, ParserObj.tokens_eq, ParserObj.clear]

/-- any two pasts: the next outcome is the same -/
theorem C05_parser_two_pasts (p q : ParserObj) (text : List Rune) :
    (p.parseString text).2 = (q.parseString text).2 := by
  rw [C05_parser_history_independent, C05_parser_history_independent]

theorem ParserObj.resultTokens_after (p : ParserObj) (text : List Rune) (prog : List (ETok V))
    (pv : List (List Rune)) (h : Verif.parseString text = .ok prog pv) :
    (p.parseString text).1.resultTokens = prog := by
  have h2 : (p.parseString text).2 = .ok prog pv := by rw [C05_parser_history_independent, h]
  show (match performParsing (p.clear.tokens (trimBlank text)) with | .ok prog _ => prog | _ => []) = prog
  have h3 : performParsing (p.clear.tokens (trimBlank text)) = .ok prog pv := h2
  rw [h3]

/-- **calculator**: `SetExpression` + `EvaluateUsingVariables` on an object with any past = `calculate` -/
theorem C05_calculator_history_independent (c : CalcObj) (text : List Rune) (vars : List (List Rune × V)) :
    (c.run text vars).2 = calculate c.mgr text vars := by
  show (match (c.parser.parseString text).2 with
        | .ok _ _ => Except.ok ((c.setExpression text).1.evaluate vars)
        | .lexErr e => .error e.code
        | .synErr e => .error e.code) = calculate c.mgr text vars
  rw [C05_parser_history_independent]
  unfold calculate
  cases h : parseString text with
  | ok prog pv =>
    show Except.ok (Verif.evaluate (textEnv c.mgr vars) (c.parser.parseString text).1.resultTokens) = _
    rw [ParserObj.resultTokens_after c.parser text prog pv h]
  | lexErr e => rfl
  | synErr e => rfl

theorem CalcObj.run_mgr (c : CalcObj) (text : List Rune) (vars : List (List Rune × V)) :
    (c.run text vars).1.mgr = c.mgr := rfl

/-- **every finite history of uses of one calculator**: each outcome is that of a fresh calculator -/
theorem C05_calculator_histories (c : CalcObj) (hist : List (List Rune × List (List Rune × V))) :
    c.runAll hist = hist.map (fun e => calculate c.mgr e.1 e.2) := by
  induction hist generalizing c with
  | nil => rfl
  | cons e rest ih =>
    obtain ⟨text, vars⟩ := e
    show (c.run text vars).2 :: (c.run text vars).1.runAll rest = _
    rw [ih, C05_calculator_history_independent, CalcObj.run_mgr]
    rfl

theorem templateOutcome_eq (src : List Rune) :
    templateOutcome (trimStr src) (tokenize mustacheCfg mustacheOpts (trimStr src)) = parseTemplate src := rfl

/-- **template**: `SetTemplate` + `EvaluateWithVariables` on an object with any past = `renderTemplate` -/
theorem C05_template_history_independent (t : TemplateObj) (src : List Rune)
    (vars : List (List Rune × List Rune)) :
    (t.render src vars).2 = renderTemplate src vars := by
  have hs : (t.setTemplate src).2 = parseTemplate src := by
    show templateOutcome (trimStr src) (t.tokens (trimStr src)) = _
    unfold TemplateObj.tokens
    rw [C05_history_independent, templateOutcome_eq]
  have ht : ∀ p, parseTemplate src = .ok p → (t.setTemplate src).1.tree = p.tree := by
    intro p hp
    show (match templateOutcome (trimStr src) (t.tokens (trimStr src)) with | .ok p => p.tree | .error _ => .nil) = _
    have : templateOutcome (trimStr src) (t.tokens (trimStr src)) = .ok p := by rw [← hp]; exact hs
    rw [this]
  show (match (t.setTemplate src).2 with
        | .error e => .error e
        | .ok _ => renderToks vars (t.setTemplate src).1.tree) = renderTemplate src vars
  rw [hs]
  unfold renderTemplate
  cases hp : parseTemplate src with
  | error e => rfl
  | ok p => simp only; rw [ht p hp]

/-- Non-vacuity: an object that just failed on an unterminated literal and one that never saw anything give the
same outcome -/
example (text : List Rune) :
    ((ParserObj.new.parseString (strOf "'abc")).1.parseString text).2 = (ParserObj.new.parseString text).2 :=
  C05_parser_two_pasts _ _ text

end Verif
