/-
C01 at TEXT level — the whole pipeline (trim, expression tokenizer under the parser's options,
completeLexicalAnalysis, syntax analysis, RPN evaluation) on the text of a syntax tree.

For every well-levelled tree `t : Expr V` whose leaves can be written (`Printable t`), the text
`renderText t` — the tokens `t.unparse` spelled canonically with ONE blank between consecutive
tokens — is

  * tokenized into exactly its lexemes, blanks included          (`tokenizeExpression_render`),
  * analysed into the sentence `t.unparse`                        (`lexAnalysis_render`),
  * parsed to the post-order of `t` and its variables             (`C01_text_parseString`),
  * evaluated to the value of the tree                            (`C01_text_calculate`),

and the same holds with any non-empty runs of blanks / tabs / line breaks in the gaps
(`…_ws`, `C01_text_whitespace_irrelevant`).

SPEC: Spec/ExprGrammar.lean (trees), Spec/Lexemes.lean (lexemes); MODEL: Model/Pipeline.lean.
Uses C13 (lexeme round trip, via `rawSpec_of_chain` + `lexOKE_step`), C15 (options factor through
the option-free segmentation), C14 (quote decoding), C02 (parser completeness with the driver's
fuel), C01 (RPN machine = tree evaluator), C01Lit (integer decoding).

Model observation: lexical analysis puts the NAME of a variable on the token as a string payload
(`⟨.variable, name, some (.str name), 0⟩`), the grammar SPEC writes variable tokens without
payload, and the parser copies the token to its output.  So the parsed program is
`t.postorder.map varDecor`, not `t.postorder`; parser and evaluator are shown not to read that
payload (`Parser.p0_map`, `evaluate_varDecor`).
-/
import Verif.Lemmas.TextLemmas
import Verif.Props.C14
import Verif.Props.C02

namespace Verif
open Expr

/-! ## rendering a syntax tree as text -/

/-- operator and punctuation token types that occur in sentences: lexical class and canonical
spelling (`<>` for "not equal"; the result types `notIn`, `notLike`, `isNull`, `isNotNull`,
`unary`, `element`, `function` are never written) -/
def opTable : List (ET × Nat × String) :=
  [(.leftBrace, TT.symbol, "("), (.rightBrace, TT.symbol, ")"),
   (.leftSquareBrace, TT.symbol, "["), (.rightSquareBrace, TT.symbol, "]"),
   (.plus, TT.symbol, "+"), (.minus, TT.symbol, "-"), (.star, TT.symbol, "*"),
   (.slash, TT.symbol, "/"), (.procent, TT.symbol, "%"), (.power, TT.symbol, "^"),
   (.equal, TT.symbol, "="), (.notEqual, TT.symbol, "<>"), (.more, TT.symbol, ">"),
   (.less, TT.symbol, "<"), (.equalMore, TT.symbol, ">="), (.equalLess, TT.symbol, "<="),
   (.shiftLeft, TT.symbol, "<<"), (.shiftRight, TT.symbol, ">>"),
   (.and, TT.keyword, "AND"), (.or, TT.keyword, "OR"), (.xor, TT.keyword, "XOR"),
   (.not, TT.keyword, "NOT"), (.is, TT.keyword, "IS"), (.in_, TT.keyword, "IN"),
   (.null, TT.keyword, "NULL"), (.like, TT.keyword, "LIKE"), (.comma, TT.symbol, ",")]

def opLexeme (ty : ET) : Option Lexeme :=
  (opTable.find? (fun e => e.1 == ty)).map fun e => ⟨e.2.1, strOf e.2.2, none⟩

/-- the lexeme that spells a parser token, `none` when the token cannot be written:
* a constant: a non-negative integer by its decimal digits, a Boolean as `TRUE` / `FALSE`, a
  string single-quoted with inner quotes doubled (other constants are not rendered);
* a variable / function name: itself, when it is an identifier of the expression tokenizer and
  not a keyword;
* an operator or punctuation token: its canonical spelling. -/
def tokLexeme (tok : ETok V) : Option Lexeme :=
  match tok.typ with
  | .constant =>
    if tok.name.isEmpty && tok.argc == 0 then
      match tok.cst with
      | some (.int i) => if 0 ≤ i.toInt then some ⟨TT.integer, natDigits i.toInt.toNat, none⟩ else none
      | some (.bool b) => some ⟨TT.keyword, strOf (if b then "TRUE" else "FALSE"), none⟩
      | some (.str s) => some ⟨TT.quoted, encodeEsc 39 s, some 39⟩
      | _ => none
    else none
  | .variable =>
    if tok.cst.isNone && tok.argc == 0 && wordShape isWordStartE isWordCharE tok.name &&
        !isKeyword tok.name then some ⟨TT.word, tok.name, none⟩
    else none
  | ty =>
    if tok.name.isEmpty && tok.cst.isNone && tok.argc == 0 then opLexeme ty else none

/-- what lexical analysis makes of a written token: a Variable token also carries its name as a
string payload (`unparse` leaves the payload empty; neither parser nor evaluator reads it) -/
def varDecor (tok : ETok V) : ETok V :=
  if tok.typ == .variable && !tok.name.isEmpty then { tok with cst := some (.str tok.name) } else tok

def tokLex (tok : ETok V) : Lexeme := (tokLexeme tok).getD ⟨TT.unknown, [], none⟩

/-- every token of the sentence can be written -/
def Printable (t : Expr V) : Bool := t.unparse.all fun tok => (tokLexeme tok).isSome

/-- the lexemes of the sentence with a blank run in every gap (`ws[i]`, then single blanks) -/
def renderLexemes (t : Expr V) (ws : List (List Rune)) : List Lexeme :=
  interleave (t.unparse.map tokLex) ws

def renderTextWs (t : Expr V) (ws : List (List Rune)) : List Rune := lexText (renderLexemes t ws)

/-- the sentence written with one blank between consecutive tokens -/
def renderText (t : Expr V) : List Rune := renderTextWs t []

/-! ## (a) one token -/

theorem lexTok_symbol (v : List Rune) (ln col : Nat) :
    lexTok ⟨TT.symbol, v, ln, col⟩ =
      match lookupOperator v with
      | some ty => .ok (some ⟨ty, [], none, 0⟩)
      | none => .error .unknownSymbol := rfl

theorem lexTok_keyword (v : List Rune) (ln col : Nat) :
    lexTok ⟨TT.keyword, v, ln, col⟩ =
      if upperFullStr v == strOf "TRUE" then .ok (some ⟨.constant, [], some (.bool true), 0⟩)
      else if upperFullStr v == strOf "FALSE" then .ok (some ⟨.constant, [], some (.bool false), 0⟩)
      else match lookupOperator v with
        | some ty => .ok (some ⟨ty, [], none, 0⟩)
        | none => .error .unknownSymbol := rfl

theorem lexTok_word (v : List Rune) (ln col : Nat) :
    lexTok ⟨TT.word, v, ln, col⟩ =
      if v.isEmpty then .error .unknownSymbol
      else .ok (some ⟨.variable, v, some (.str v), 0⟩) := rfl

theorem lexTok_integer (v : List Rune) (ln col : Nat) :
    lexTok ⟨TT.integer, v, ln, col⟩ =
      match decodeInt v with
      | some i => .ok (some ⟨.constant, [], some (.int i), 0⟩)
      | none => .error .constRange := rfl

theorem lexTok_quoted (v : List Rune) (ln col : Nat) :
    lexTok ⟨TT.quoted, v, ln, col⟩ = .ok (some ⟨.constant, [], some (.str v), 0⟩) := rfl

/-- the runes that may follow a rendered lexeme -/
def blankNexts : List (Option Rune) := [none, some 32, some 9, some 13, some 10]

theorem mem_blankNexts (nx : Option Rune) (h : ∀ c, nx = some c → isBlankR c = true) :
    nx ∈ blankNexts := by
  cases nx with
  | none => simp [blankNexts]
  | some c =>
    have := h c rfl
    simp only [isBlankR, Bool.or_eq_true, beq_iff_eq] at this
    rcases this with ((h | h) | h) | h <;> subst h <;> simp [blankNexts]

/-- the decidable facts about one row of `opTable` -/
def opRowOK (e : ET × Nat × String) : Bool :=
  (strOf e.2.2).all (fun c => decide (c < 97)) &&
  ((operatorTable.find? (fun x => strOf x.1 == strOf e.2.2)).map (·.2) == some e.1) &&
  (e.2.1 == TT.symbol || (e.2.1 == TT.keyword && strOf e.2.2 != strOf "TRUE" &&
    strOf e.2.2 != strOf "FALSE")) &&
  blankNexts.all (fun nx => lexOKE ⟨e.2.1, strOf e.2.2, none⟩ nx) &&
  (match (strOf e.2.2).head? with | some c => !isWs c | none => false) &&
  (match (strOf e.2.2).getLast? with | some c => !isBlankR c | none => false)

theorem opTable_ok : ∀ e ∈ opTable, opRowOK e = true := by decide


theorem varDecor_plain (ty : ET) (n : Nat) : varDecor ⟨ty, [], none, n⟩ = ⟨ty, [], none, n⟩ := by
  simp [varDecor]

theorem varDecor_tokMap : Parser.TokMap varDecor where
  typ := fun t => by unfold varDecor; split <;> rfl
  name := fun t => by unfold varDecor; split <;> rfl
  plain := varDecor_plain
  fn := fun nm => by simp [varDecor]

/-- an operator / punctuation token -/
theorem opLexeme_ok (ty : ET) (l : Lexeme) (h : opLexeme ty = some l) :
    TokLexOK l ⟨ty, [], none, 0⟩ := by
  unfold opLexeme at h
  cases hf : opTable.find? (fun e => e.1 == ty) with
  | none => rw [hf] at h; cases h
  | some e =>
    rw [hf] at h
    simp only [Option.map_some, Option.some.injEq] at h
    subst h
    have hty : e.1 = ty := by simpa using List.find?_some hf
    have hrow := opTable_ok e (List.mem_of_find?_eq_some hf)
    simp only [opRowOK, Bool.and_eq_true, List.all_eq_true, decide_eq_true_eq, beq_iff_eq,
      Bool.or_eq_true, bne_iff_ne, ne_eq] at hrow
    obtain ⟨⟨⟨⟨⟨h97, hfind⟩, hcls⟩, hok⟩, hfirst⟩, hlast⟩ := hrow
    rw [hty] at hfind
    have hlook : lookupOperator (strOf e.2.2) = some ty := by
      rw [lookupOperator_upper _ h97]; exact hfind
    refine ⟨?_, ?_, ?_, ?_, ?_, ?_⟩
    · show e.2.1 ≠ TT.whitespace
      rcases hcls with h | h
      · rw [h]; decide
      · rw [h.1.1]; decide
    · show e.2.1 ≠ TT.comment
      rcases hcls with h | h
      · rw [h]; decide
      · rw [h.1.1]; decide
    · intro nx hnx
      exact hok nx (mem_blankNexts nx hnx)
    · intro ln col
      show lexTok ⟨e.2.1, strOf e.2.2, ln, col⟩ = _
      rcases hcls with h | h
      · rw [h, lexTok_symbol, hlook]
      · obtain ⟨⟨hk, ht⟩, hf'⟩ := h
        rw [hk, lexTok_keyword, upperFullStr_id _ h97, hlook]
        have e1 : (strOf e.2.2 == strOf "TRUE") = false := beq_false_of_ne ht
        have e2 : (strOf e.2.2 == strOf "FALSE") = false := beq_false_of_ne hf'
        simp only [e1, e2, Bool.false_eq_true, if_false]
    · show ∃ c, (strOf e.2.2).head? = some c ∧ isWs c = false
      cases hh : (strOf e.2.2).head? with
      | none => rw [hh] at hfirst; cases hfirst
      | some c =>
        rw [hh] at hfirst
        exact ⟨c, rfl, by simpa using hfirst⟩
    · show ∃ d, (strOf e.2.2).getLast? = some d ∧ isBlankR d = false
      cases hh : (strOf e.2.2).getLast? with
      | none => rw [hh] at hlast; cases hlast
      | some c =>
        rw [hh] at hlast
        exact ⟨c, rfl, by simpa using hlast⟩

theorem blankNexts_word : ∀ nx ∈ blankNexts, headIs isWordCharE nx = false := by decide
theorem blankNexts_num : ∀ nx ∈ blankNexts,
    (!headIs isDigit nx && nx != some 46 && nx != some 101 && nx != some 69) = true := by decide
theorem blankNexts_quote : ∀ nx ∈ blankNexts, nx ≠ some 39 := by decide

theorem isWordStartE_not_ws (c : Nat) (h : isWordStartE c = true) : isWs c = false := by
  cases hw : isWs c with
  | false => rfl
  | true =>
    simp only [isWs, isWordStartE, inR, Bool.and_eq_true, Bool.or_eq_true, decide_eq_true_eq] at hw h
    omega

theorem isWordCharE_not_blank (c : Nat) (h : isWordCharE c = true) : isBlankR c = false := by
  cases hw : isBlankR c with
  | false => rfl
  | true =>
    simp only [isBlankR, Bool.or_eq_true, beq_iff_eq] at hw
    rcases hw with ((hw | hw) | hw) | hw <;> subst hw <;> revert h <;> decide

/-- an identifier -/
theorem wordLexeme_ok (nm : List Rune) (hs : wordShape isWordStartE isWordCharE nm = true)
    (hk : isKeyword nm = false) :
    TokLexOK ⟨TT.word, nm, none⟩ ⟨.variable, nm, some (.str nm), 0⟩ := by
  cases nm with
  | nil => simp [wordShape] at hs
  | cons c w =>
    have hs' := hs
    simp only [wordShape, Bool.and_eq_true, List.all_eq_true] at hs'
    refine ⟨show TT.word ≠ TT.whitespace by decide, show TT.word ≠ TT.comment by decide, ?_, ?_,
      ⟨c, rfl, isWordStartE_not_ws c hs'.1⟩, ?_⟩
    · intro nx hnx
      have := blankNexts_word nx (mem_blankNexts nx hnx)
      simp [lexOKE, hs, hk, this]
    · intro ln col
      show lexTok ⟨TT.word, c :: w, ln, col⟩ = _
      rw [lexTok_word]; rfl
    · have hall : ∀ x ∈ c :: w, isWordCharE x = true := by
        intro x hx
        rcases List.mem_cons.mp hx with rfl | hx
        · have := hs'.1
          simp only [isWordStartE, isWordCharE, Bool.or_eq_true] at this ⊢
          rcases this with ((h | h) | h) | h <;> simp [h]
        · exact hs'.2 x hx
      have hne : (c :: w) ≠ [] := List.cons_ne_nil _ _
      refine ⟨(c :: w).getLast hne, List.getLast?_eq_some_getLast hne, ?_⟩
      exact isWordCharE_not_blank _ (hall _ (List.getLast_mem hne))


theorem isDigitR_not_ws (c : Nat) (h : isDigitR c = true) : isWs c = false ∧ isBlankR c = false := by
  rw [isDigitR_iff] at h
  constructor
  · cases hw : isWs c with
    | false => rfl
    | true =>
      simp only [isWs, inR, Bool.and_eq_true, decide_eq_true_eq] at hw
      omega
  · cases hw : isBlankR c with
    | false => rfl
    | true =>
      simp only [isBlankR, Bool.or_eq_true, beq_iff_eq] at hw
      rcases hw with ((hw | hw) | hw) | hw <;> subst hw <;> exact absurd h (by decide)

theorem lexOKE_integer (ds : List Rune) (nx : Option Rune)
    (h : numShapeE TT.integer ds nx = true) : lexOKE ⟨TT.integer, ds, none⟩ nx = true := by
  simp [lexOKE, h]

/-- a non-negative integer constant -/
theorem intLexeme_ok (i : Int64) (h : 0 ≤ i.toInt) :
    TokLexOK ⟨TT.integer, natDigits i.toInt.toNat, none⟩ ⟨.constant, [], some (.int i), 0⟩ := by
  have hne := natDigits_ne_nil i.toInt.toNat
  have hd := natDigits_digits i.toInt.toNat
  refine ⟨show TT.integer ≠ TT.whitespace by decide, show TT.integer ≠ TT.comment by decide,
    ?_, ?_, ?_, ?_⟩
  · intro nx hnx
    exact lexOKE_integer _ nx
      (numShapeE_digits _ hne hd nx (blankNexts_num nx (mem_blankNexts nx hnx)))
  · intro ln col
    show lexTok ⟨TT.integer, natDigits i.toInt.toNat, ln, col⟩ = _
    rw [lexTok_integer, decodeInt_int64 i h]
  · cases hh : natDigits i.toInt.toNat with
    | nil => exact absurd hh hne
    | cons c w =>
      refine ⟨c, rfl, (isDigitR_not_ws c (hd c ?_)).1⟩
      rw [hh]; exact List.mem_cons_self
  · exact ⟨_, List.getLast?_eq_some_getLast hne, (isDigitR_not_ws _ (hd _ (List.getLast_mem hne))).2⟩

/-- a Boolean constant -/
theorem boolLexeme_ok (b : Bool) :
    TokLexOK ⟨TT.keyword, strOf (if b then "TRUE" else "FALSE"), none⟩
      ⟨.constant, [], some (.bool b), 0⟩ := by
  have h97 : ∀ c ∈ strOf (if b then "TRUE" else "FALSE"), c < 97 := by cases b <;> decide
  have hok : ∀ nx ∈ blankNexts,
      lexOKE ⟨TT.keyword, strOf (if b then "TRUE" else "FALSE"), none⟩ nx = true := by
    cases b <;> decide
  refine ⟨show TT.keyword ≠ TT.whitespace by decide, show TT.keyword ≠ TT.comment by decide,
    fun nx hnx => hok nx (mem_blankNexts nx hnx), ?_, ?_, ?_⟩
  · intro ln col
    show lexTok ⟨TT.keyword, strOf (if b then "TRUE" else "FALSE"), ln, col⟩ = _
    rw [lexTok_keyword, upperFullStr_id _ h97]
    cases b
    · have e1 : (strOf "FALSE" == strOf "TRUE") = false := by decide
      simp [e1]
    · simp
  · cases b
    · exact ⟨70, by decide, by decide⟩
    · exact ⟨84, by decide, by decide⟩
  · exact ⟨69, by cases b <;> decide, by decide⟩

theorem decodeFor_expression (q : Rune) (v : List Rune) :
    decodeFor expressionCfg q v = decodeEsc q v := rfl

/-- a string constant, single-quoted with inner quotes doubled -/
theorem strLexeme_ok (s : List Rune) :
    TokLexOK ⟨TT.quoted, encodeEsc 39 s, some 39⟩ ⟨.constant, [], some (.str s), 0⟩ := by
  refine ⟨show TT.quoted ≠ TT.whitespace by decide, show TT.quoted ≠ TT.comment by decide,
    ?_, ?_, ⟨39, by simp [encodeEsc], by decide⟩, ⟨39, ?_, by decide⟩⟩
  · intro nx hnx
    have := blankNexts_quote nx (mem_blankNexts nx hnx)
    simp [lexOKE, quotedShapeE, C14_decode_encode_esc, this]
  · intro ln col
    show lexTok ⟨TT.quoted, decodeFor expressionCfg 39 (encodeEsc 39 s), ln, col⟩ = _
    rw [decodeFor_expression, C14_decode_encode_esc, lexTok_quoted]
  · show ([39] ++ doubleQ 39 s ++ [39]).getLast? = some 39
    exact List.getLast?_concat

/-- **(a) one token**: the lexeme of a printable token is a well-formed lexeme of its class in
front of a blank or the end of the text, it starts and ends with a non-blank rune, and the
tokenizer's token for it (string decoding on) is analysed back to the token (a Variable token
with its name as payload) -/
theorem tokLexeme_ok (tok : ETok V) (l : Lexeme) (h : tokLexeme tok = some l) :
    TokLexOK l (varDecor tok) := by
  obtain ⟨ty, nm, c, a⟩ := tok
  unfold tokLexeme at h
  simp only at h
  split at h
  · -- constant
    split at h
    · rename_i hcond
      simp only [Bool.and_eq_true, List.isEmpty_iff, beq_iff_eq] at hcond
      obtain ⟨rfl, rfl⟩ := hcond
      have hdec : ∀ v : V, varDecor ⟨.constant, [], some v, 0⟩ = ⟨.constant, [], some v, 0⟩ := by
        intro v; simp [varDecor]
      split at h
      · rename_i i
        split at h
        · rename_i hi
          injection h with h; subst h
          rw [hdec]; exact intLexeme_ok i hi
        · cases h
      · rename_i b
        injection h with h; subst h
        rw [hdec]; exact boolLexeme_ok b
      · rename_i s
        injection h with h; subst h
        rw [hdec]; exact strLexeme_ok s
      · cases h
    · cases h
  · -- variable
    split at h
    · rename_i hcond
      simp only [Bool.and_eq_true, Option.isNone_iff_eq_none, beq_iff_eq, Bool.not_eq_true'] at hcond
      obtain ⟨⟨⟨rfl, rfl⟩, hs⟩, hk⟩ := hcond
      injection h with h; subst h
      have hne : nm ≠ [] := by intro h0; subst h0; simp [wordShape] at hs
      have : varDecor ⟨.variable, nm, none, 0⟩ = ⟨.variable, nm, some (.str nm), 0⟩ := by
        cases nm with
        | nil => exact absurd rfl hne
        | cons x w => simp [varDecor]
      rw [this]; exact wordLexeme_ok nm hs hk
    · cases h
  · -- operators and punctuation
    split at h
    · rename_i hcond
      simp only [Bool.and_eq_true, List.isEmpty_iff, Option.isNone_iff_eq_none, beq_iff_eq] at hcond
      obtain ⟨⟨rfl, rfl⟩, rfl⟩ := hcond
      rw [varDecor_plain]
      exact opLexeme_ok _ l h
    · cases h

/-- the per-token statement in plain form -/
theorem lexTok_tokLexeme (tok : ETok V) (l : Lexeme) (h : tokLexeme tok = some l) (ln col : Nat) :
    lexTok ⟨l.typ, (match l.quote with
                    | some q => decodeFor expressionCfg q l.text
                    | none => l.text), ln, col⟩ = .ok (some (varDecor tok)) :=
  (tokLexeme_ok tok l h).lex ln col


/-! ## (b) tokenizer + lexical analysis on the rendered text -/

/-- lexeme and expected expression token, token by token -/
def tokPairs (t : Expr V) : List (Lexeme × ETok V) :=
  t.unparse.map fun tok => (tokLex tok, varDecor tok)

theorem tokPairs_fst (t : Expr V) : (tokPairs t).map (·.1) = t.unparse.map tokLex := by
  simp [tokPairs, List.map_map]

theorem tokPairs_snd (t : Expr V) : (tokPairs t).map (·.2) = t.unparse.map varDecor := by
  simp [tokPairs, List.map_map]

theorem tokPairs_ne_nil (t : Expr V) : tokPairs t ≠ [] := by
  have h := Expr.unparse_length_posT t
  intro h0
  have := congrArg List.length h0
  simp only [tokPairs, List.length_map, List.length_nil] at this
  omega

theorem tokPairs_ok (t : Expr V) (hp : Printable t = true) :
    ∀ p ∈ tokPairs t, TokLexOK p.1 p.2 := by
  intro p hmem
  simp only [tokPairs, List.mem_map] at hmem
  obtain ⟨tok, htok, rfl⟩ := hmem
  simp only [Printable, List.all_eq_true] at hp
  have hs := hp tok htok
  cases hl : tokLexeme tok with
  | none => rw [hl] at hs; cases hs
  | some l =>
    have : tokLex tok = l := by simp [tokLex, hl]
    simp only [this]
    exact tokLexeme_ok tok l hl

theorem renderLexemes_eq (t : Expr V) (ws : List (List Rune)) :
    renderLexemes t ws = interleave ((tokPairs t).map (·.1)) ws := by
  rw [tokPairs_fst]; rfl

/-- the rendered lexemes cannot merge -/
theorem render_separated (t : Expr V) (hp : Printable t = true) (ws : List (List Rune))
    (hws : ∀ w ∈ ws, blankRun w = true) : SeparatedE (renderLexemes t ws) := by
  rw [renderLexemes_eq]
  exact separated_interleave _ (tokPairs_ok t hp) ws hws

/-- the rendered text starts and ends with a non-blank rune: trimming does nothing -/
theorem render_trim (t : Expr V) (hp : Printable t = true) (ws : List (List Rune)) :
    trimBlank (renderTextWs t ws) = renderTextWs t ws ∧ (renderTextWs t ws).isEmpty = false := by
  have hok := tokPairs_ok t hp
  unfold renderTextWs
  rw [renderLexemes_eq]
  cases hps : tokPairs t with
  | nil => exact absurd hps (tokPairs_ne_nil t)
  | cons p ps =>
    rw [hps] at hok
    obtain ⟨c, hc, hcw⟩ := interleave_head p ps (hok p List.mem_cons_self) ws
    obtain ⟨d, hd, hdb⟩ := interleave_last (p :: ps) (List.cons_ne_nil _ _) hok ws
    refine ⟨trimBlank_id _ c d hc (isWs_false_isBlankR c hcw) hd hdb, ?_⟩
    cases hx : lexText (interleave (List.map (fun x => x.fst) (p :: ps)) ws) with
    | nil => rw [hx] at hc; cases hc
    | cons a r => rfl

/-- **(b1) the tokenizer under the parser's options on the rendered text**: the lexemes one by
one — the blank runs included — each at its offset, strings decoded, no Eof token -/
theorem tokenizeExpression_render (t : Expr V) (hp : Printable t = true) (ws : List (List Rune))
    (hws : ∀ w ∈ ws, blankRun w = true) :
    tokenizeExpression (renderTextWs t ws) =
      postSpec expressionCfg exprOpts (renderTextWs t ws) TT.unknown
        (expectRaw 0 (renderLexemes t ws)) := by
  obtain ⟨htrim, hne⟩ := render_trim t hp ws
  unfold tokenizeExpression
  simp only [htrim, hne, Bool.false_eq_true, if_false]
  rw [C15_expression]
  unfold streamSpec
  have h := rawSpec_of_chain expressionCfg (fun l rest => lexOKE l rest.head? = true)
    (fun s l rest hw hin hok => lexOKE_step s l rest hw hin hok) (renderLexemes t ws)
    (Scanner.new (renderTextWs t ws)) ((renderTextWs t ws).length + 2) (Scanner.new_wf _)
    (by simp [Scanner.new, renderTextWs]) (render_separated t hp ws hws) (by simp [Scanner.new])
  have e : min (Scanner.new (renderTextWs t ws)).pos (Scanner.new (renderTextWs t ws)).content.length
      = 0 := by simp [Scanner.new]
  rw [h, e]
  simp [exprOpts]

/-- **(b2) lexical analysis of the tokenizer's output is the sentence** (Variable tokens with
their name as payload) -/
theorem lexAnalysis_render (t : Expr V) (hp : Printable t = true) (ws : List (List Rune))
    (hws : ∀ w ∈ ws, blankRun w = true) :
    lexAnalysis (tokenizeExpression (renderTextWs t ws)) = .ok (t.unparse.map varDecor) := by
  rw [tokenizeExpression_render t hp ws hws, renderLexemes_eq,
    lexAnalysis_interleave _ _ (tokPairs_ok t hp), tokPairs_snd]

/-! ## (c) `ParseString` -/

/-- **(c) the parser on the rendered text**: the post-order of the tree (Variable tokens with
their name as payload) and its variables in order of first occurrence — whatever blank runs
separate the tokens -/
theorem C01_text_parseString_ws (t : Expr V) (hw : t.wl = true) (hp : Printable t = true)
    (ws : List (List Rune)) (hws : ∀ w ∈ ws, blankRun w = true) :
    parseString (renderTextWs t ws) =
      .ok (t.postorder.map varDecor) (Expr.addVars [] t.varOcc) := by
  have hlex := lexAnalysis_render t hp ws hws
  have hpos := Expr.unparse_length_posT t
  unfold parseString performParsing
  have hne : (tokenizeExpression (renderTextWs t ws)).isEmpty = false := by
    cases hx : tokenizeExpression (renderTextWs t ws) with
    | cons a r => rfl
    | nil =>
      rw [hx] at hlex
      simp only [lexAnalysis, Except.ok.injEq] at hlex
      have := congrArg List.length hlex
      simp only [List.length_nil, List.length_map] at this
      omega
  simp only [hne, Bool.false_eq_true, if_false, hlex]
  have hnat := Parser.p0_map varDecor_tokMap (syntaxFuel (t.unparse.map varDecor).length)
    ⟨t.unparse, [], []⟩
  have hcomp := Complete.complete_p0_bound t hw [] [] (syntaxFuel (t.unparse.map varDecor).length)
    (by simp [syntaxFuel])
  rw [hcomp] at hnat
  simp only [Parser.mapSt, Parser.mapE, List.map_nil, List.nil_append] at hnat
  rw [hnat]
  rfl

theorem C01_text_parseString (t : Expr V) (hw : t.wl = true) (hp : Printable t = true) :
    parseString (renderText t) = .ok (t.postorder.map varDecor) (Expr.addVars [] t.varOcc) :=
  C01_text_parseString_ws t hw hp [] (fun _ h => absurd h List.not_mem_nil)

/-- **whitespace never changes the result**: any non-empty runs of blanks, tabs and line breaks
in the gaps parse to the same program and variable list as single blanks -/
theorem C01_text_whitespace_irrelevant (t : Expr V) (hw : t.wl = true) (hp : Printable t = true)
    (ws : List (List Rune)) (hws : ∀ w ∈ ws, blankRun w = true) :
    parseString (renderTextWs t ws) = parseString (renderText t) := by
  rw [C01_text_parseString_ws t hw hp ws hws, C01_text_parseString t hw hp]

/-! ## (d) the calculator -/

theorem textEnv_argc (m : Mgr) (vars : List (List Rune × V)) (n : Nat) (h : n < 2 ^ 63) :
    (textEnv m vars).asArgc ((textEnv m vars).ofArgc n) = some n := by
  show (if (Int64.ofNat n).toInt < 0 then some 0 else some (Int64.ofNat n).toInt.toNat) = some n
  rw [Int64.toInt_ofNat_of_lt h]
  have : ¬ ((n : Int) < 0) := by omega
  rw [if_neg this]
  simp

/-- the evaluator does not read the payload lexical analysis puts on Variable tokens -/
theorem evaluate_varDecor {κ' : Type} (env : EvalEnv V κ') (prog : List (ETok V)) :
    evaluate env (prog.map varDecor) = evaluate env prog := by
  unfold evaluate
  apply run_map_congr
  intro tok st
  apply evalStep_congr
  · exact varDecor_tokMap.typ tok
  · exact varDecor_tokMap.name tok
  · unfold varDecor; split <;> rfl
  · intro hc
    unfold varDecor
    split
    · rename_i hv
      rw [hc] at hv
      cases hv
    · rfl

/-- **(d) C01 at text level**: the calculator evaluates the rendered text of a well-levelled,
printable tree (of fewer than 2^63 tokens) to the value of the tree -/
theorem C01_text_calculate_ws (m : Mgr) (t : Expr V) (hw : t.wl = true) (hp : Printable t = true)
    (hlen : t.unparse.length < 2 ^ 63) (ws : List (List Rune))
    (hws : ∀ w ∈ ws, blankRun w = true) (vars : List (List Rune × V)) :
    calculate m (renderTextWs t ws) vars = .ok (Expr.evalTree (textEnv m vars) t) := by
  unfold calculate
  rw [C01_text_parseString_ws t hw hp ws hws]
  simp only
  rw [evaluate_varDecor,
    calc_eq_treeT (textEnv m vars) (2 ^ 63) (fun n hn => textEnv_argc m vars n hn) t
      (C01_wl_opsOk t hw) (Expr.argcBelow_of_length (2 ^ 63) t hlen)]

theorem C01_text_calculate (m : Mgr) (t : Expr V) (hw : t.wl = true) (hp : Printable t = true)
    (hlen : t.unparse.length < 2 ^ 63) (vars : List (List Rune × V)) :
    calculate m (renderText t) vars = .ok (Expr.evalTree (textEnv m vars) t) :=
  C01_text_calculate_ws m t hw hp hlen [] (fun _ h => absurd h List.not_mem_nil) vars

/-! ## `Printable` is a condition on the leaves only -/

/-- constants that can be written: non-negative integers, Booleans, strings -/
def constPrintable : V → Bool
  | .int i => decide (0 ≤ i.toInt)
  | .bool _ => true
  | .str _ => true
  | _ => false

/-- names that can be written: identifiers of the expression tokenizer that are not keywords -/
def namePrintable (n : List Rune) : Bool := wordShape isWordStartE isWordCharE n && !isKeyword n

mutual
def leavesOK : Expr V → Bool
  | .const v => constPrintable v
  | .var n => namePrintable n
  | .paren e => leavesOK e
  | .call n args => namePrintable n && leavesOKArgs args
  | .neg e => leavesOK e
  | .pos e => leavesOK e
  | .index e i => leavesOK e && leavesOK i
  | .bin _ l r => leavesOK l && leavesOK r
  | .notLike l r => leavesOK l && leavesOK r
  | .notIn l r => leavesOK l && leavesOK r
  | .not e => leavesOK e
  | .isNull e => leavesOK e
  | .isNotNull e => leavesOK e
def leavesOKArgs : Args V → Bool
  | .nil => true
  | .cons e rest => leavesOK e && leavesOKArgs rest
end

def tokOK (tok : ETok V) : Bool := (tokLexeme tok).isSome

theorem tokOK_const (v : V) (h : constPrintable v = true) : tokOK ⟨.constant, [], some v, 0⟩ = true := by
  cases v <;> simp_all [constPrintable, tokOK, tokLexeme]

theorem tokOK_name (n : List Rune) (h : namePrintable n = true) : tokOK ⟨.variable, n, none, 0⟩ = true := by
  simp only [namePrintable, Bool.and_eq_true, Bool.not_eq_true'] at h
  simp [tokOK, tokLexeme, h.1, h.2]

/-- every operator of the level table, and every punctuation / keyword token `unparse` emits,
has a spelling -/
theorem tokOK_op (op : ET) (h : Expr.opLevel op ≠ none) : tokOK (Expr.tk op) = true := by
  cases op <;> first | rfl | exact absurd rfl h

theorem tokOK_punct : ∀ ty ∈ [ET.leftBrace, .rightBrace, .leftSquareBrace, .rightSquareBrace, .comma,
    .minus, .plus, .not, .like, .in_, .is, .null], tokOK (Expr.tk ty) = true := by decide

mutual
theorem all_tokOK_unparse : ∀ t : Expr V, t.wl = true → leavesOK t = true →
    t.unparse.all tokOK = true
  | .const v, _, hl => by
    simp only [leavesOK] at hl
    simp only [unparse, List.all_cons, List.all_nil, Bool.and_true]
    exact tokOK_const v hl
  | .var n, _, hl => by
    simp only [leavesOK] at hl
    simp only [unparse, List.all_cons, List.all_nil, Bool.and_true]
    exact tokOK_name n hl
  | .paren e, hw, hl => by
    simp only [wl] at hw
    simp only [leavesOK] at hl
    simp only [unparse, List.all_append, List.all_cons, List.all_nil, Bool.and_true,
      all_tokOK_unparse e hw hl, tokOK_punct .leftBrace (by simp), tokOK_punct .rightBrace (by simp)]
  | .call n args, hw, hl => by
    simp only [wl] at hw
    simp only [leavesOK, Bool.and_eq_true] at hl
    simp only [unparse, List.all_append, List.all_cons, List.all_nil, Bool.and_true,
      all_tokOK_unparseArgs args hw hl.2, tokOK_name n hl.1,
      tokOK_punct .leftBrace (by simp), tokOK_punct .rightBrace (by simp)]
  | .neg e, hw, hl => by
    simp only [wl, Bool.and_eq_true] at hw
    simp only [leavesOK] at hl
    simp only [unparse, List.all_append, List.all_cons, List.all_nil, Bool.and_true,
      all_tokOK_unparse e hw.1 hl, tokOK_punct .minus (by simp)]
  | .pos e, hw, hl => by
    simp only [wl, Bool.and_eq_true] at hw
    simp only [leavesOK] at hl
    simp only [unparse, List.all_append, List.all_cons, List.all_nil, Bool.and_true,
      all_tokOK_unparse e hw.1 hl, tokOK_punct .plus (by simp)]
  | .index e i, hw, hl => by
    simp only [wl, Bool.and_eq_true] at hw
    simp only [leavesOK, Bool.and_eq_true] at hl
    simp only [unparse, List.all_append, List.all_cons, List.all_nil, Bool.and_true,
      all_tokOK_unparse e hw.1.1 hl.1, all_tokOK_unparse i hw.1.2 hl.2,
      tokOK_punct .leftSquareBrace (by simp), tokOK_punct .rightSquareBrace (by simp)]
  | .bin op l r, hw, hl => by
    simp only [leavesOK, Bool.and_eq_true] at hl
    have hop : Expr.opLevel op ≠ none := by
      intro h0; simp [wl, h0] at hw
    cases hk : Expr.opLevel op with
    | none => exact absurd hk hop
    | some k =>
      simp only [wl, hk, Bool.and_eq_true] at hw
      simp only [unparse, List.all_append, List.all_cons, List.all_nil, Bool.and_true,
        all_tokOK_unparse l hw.1.1.1 hl.1, all_tokOK_unparse r hw.1.1.2 hl.2, tokOK_op op hop]
  | .notLike l r, hw, hl => by
    simp only [wl, Bool.and_eq_true] at hw
    simp only [leavesOK, Bool.and_eq_true] at hl
    simp only [unparse, List.all_append, List.all_cons, List.all_nil, Bool.and_true,
      all_tokOK_unparse l hw.1.1.1 hl.1, all_tokOK_unparse r hw.1.1.2 hl.2,
      tokOK_punct .not (by simp), tokOK_punct .like (by simp)]
  | .notIn l r, hw, hl => by
    simp only [wl, Bool.and_eq_true] at hw
    simp only [leavesOK, Bool.and_eq_true] at hl
    simp only [unparse, List.all_append, List.all_cons, List.all_nil, Bool.and_true,
      all_tokOK_unparse l hw.1.1.1 hl.1, all_tokOK_unparse r hw.1.1.2 hl.2,
      tokOK_punct .not (by simp), tokOK_punct .in_ (by simp)]
  | .not e, hw, hl => by
    simp only [wl, Bool.and_eq_true] at hw
    simp only [leavesOK] at hl
    simp only [unparse, List.all_append, List.all_cons, List.all_nil, Bool.and_true,
      all_tokOK_unparse e hw.1 hl, tokOK_punct .not (by simp)]
  | .isNull e, hw, hl => by
    simp only [wl, Bool.and_eq_true] at hw
    simp only [leavesOK] at hl
    simp only [unparse, List.all_append, List.all_cons, List.all_nil, Bool.and_true,
      all_tokOK_unparse e hw.1 hl, tokOK_punct .is (by simp), tokOK_punct .null (by simp)]
  | .isNotNull e, hw, hl => by
    simp only [wl, Bool.and_eq_true] at hw
    simp only [leavesOK] at hl
    simp only [unparse, List.all_append, List.all_cons, List.all_nil, Bool.and_true,
      all_tokOK_unparse e hw.1 hl, tokOK_punct .is (by simp), tokOK_punct .not (by simp),
      tokOK_punct .null (by simp)]
theorem all_tokOK_unparseArgs : ∀ a : Args V, Expr.wlArgs a = true → leavesOKArgs a = true →
    (Expr.unparseArgs a).all tokOK = true
  | .nil, _, _ => rfl
  | .cons e .nil, hw, hl => by
    simp only [wlArgs, Bool.and_eq_true] at hw
    simp only [leavesOKArgs, Bool.and_eq_true] at hl
    simp only [unparseArgs]
    exact all_tokOK_unparse e hw.1 hl.1
  | .cons e (.cons e' rest), hw, hl => by
    simp only [wlArgs, Bool.and_eq_true] at hw
    simp only [leavesOKArgs, Bool.and_eq_true] at hl
    simp only [unparseArgs, List.all_append, List.all_cons, List.all_nil, Bool.and_true] 
    rw [all_tokOK_unparse e hw.1 hl.1, tokOK_punct .comma (by simp)]
    have := all_tokOK_unparseArgs (.cons e' rest) (by simp only [wlArgs, Bool.and_eq_true]; exact hw.2)
      (by simp only [leavesOKArgs, Bool.and_eq_true]; exact hl.2)
    simp [this]
end

/-- **`Printable` only restricts the leaves** of a well-levelled tree: constants must be
non-negative integers, Booleans or strings; variable and function names identifiers that are
not keywords -/
theorem Printable_of_leaves (t : Expr V) (hw : t.wl = true) (hl : leavesOK t = true) :
    Printable t = true := all_tokOK_unparse t hw hl


/-! ## non-vacuity: `a + 2 * Max ( b , 3 ) > 7 AND name = 'it''s'` -/

def exampleText : Expr V :=
  .bin .and
    (.bin .more
      (.bin .plus (.var (strOf "a"))
        (.bin .star (.const (.int 2))
          (.call (strOf "Max") (.cons (.var (strOf "b")) (.cons (.const (.int 3)) .nil)))))
      (.const (.int 7)))
    (.bin .equal (.var (strOf "name")) (.const (.str (strOf "it's"))))

theorem exampleText_wl : exampleText.wl = true := by decide
theorem exampleText_leaves : leavesOK exampleText = true := by decide
theorem exampleText_printable : Printable exampleText = true := by decide

theorem exampleText_render :
    renderText exampleText = strOf "a + 2 * Max ( b , 3 ) > 7 AND name = 'it''s'" := by decide

/-- the same sentence with wider gaps (two blanks, a tab, a line break, CR LF) -/
theorem exampleText_render_ws :
    renderTextWs exampleText [[32, 32], [9], [10], [13, 10]] =
      strOf "a  +\t2\n*\r\nMax ( b , 3 ) > 7 AND name = 'it''s'" := by decide

/-- the program: `a 2 b 3 #2 Max * + 7 > name 'it's' = AND` with the variables `a b name` -/
theorem exampleText_parse :
    parseString (strOf "a + 2 * Max ( b , 3 ) > 7 AND name = 'it''s'") =
      .ok (exampleText.postorder.map varDecor) [strOf "a", strOf "b", strOf "name"] := by
  rw [← exampleText_render, C01_text_parseString exampleText exampleText_wl exampleText_printable]
  rfl

theorem exampleText_parse_ws :
    parseString (strOf "a  +\t2\n*\r\nMax ( b , 3 ) > 7 AND name = 'it''s'") =
      parseString (strOf "a + 2 * Max ( b , 3 ) > 7 AND name = 'it''s'") := by
  rw [← exampleText_render, ← exampleText_render_ws]
  exact C01_text_whitespace_irrelevant exampleText exampleText_wl exampleText_printable _
    (by decide)

/-- a tree that cannot be written: a negative integer constant (the expression tokenizer has no
signed numbers; write `.neg (.const (.int 5))` instead) -/
example : Printable (.const (.int (-5))) = false := by decide
/-- … and a variable named like a keyword -/
example : Printable (.var (strOf "Like")) = false := by decide

end Verif
