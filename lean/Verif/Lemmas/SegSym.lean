/-
Segment lemmas, part 2: the symbol table (`deepest`, `unreadToValid`, `nextToken`), the csv
symbol state, the number states (generic and expression) and the peek-position wrapper fact.
Every state moves a contiguous slice of the content across the cursor (`SegOK`) and reports
the position of the first character of that slice (`lcUpTo c (p0+1)`).
-/
import Verif.Lemmas.Seg

namespace Verif
open Scanner

/-! ### small list / scanner helpers -/

theorem slice_length (c : List Rune) (a b : Nat) : (slice c a b).length = min b c.length - a := by
  simp [slice]

theorem slice_succ' (c : List Rune) (a k : Nat) (ch : Rune) (hk : c[k]? = some ch) (ha : a ≤ k) :
    slice c a (k+1) = slice c a k ++ [ch] := by
  obtain ⟨hlt, hget⟩ := List.getElem?_eq_some_iff.mp hk
  rw [slice_succ c a k hlt ha, hget]

theorem slice_one (c : List Rune) (k : Nat) (ch : Rune) (hk : c[k]? = some ch) :
    slice c k (k+1) = [ch] := by
  rw [slice_succ' c k k ch hk (Nat.le_refl _), slice_self]; rfl

theorem slice_append (c : List Rune) (a b d : Nat) (hab : a ≤ b) (hbd : b ≤ d) (hb : b ≤ c.length) :
    slice c a b ++ slice c b d = slice c a d := by
  unfold slice
  have h1 : c.take b = (c.take d).take b := by
    rw [List.take_take]
    have : min b d = b := by omega
    rw [this]
  have h2 : a ≤ ((c.take d).take b).length := by
    rw [← h1, List.length_take]; omega
  rw [h1, ← List.drop_append_of_le_length h2, List.take_append_drop]

/-- the first component of `read` is the character under the cursor (none at / after the end) -/
theorem read_fst (s : Scanner) : (s.read).1 = s.content[s.pos]? := by
  rw [← C11_peek_is_next, peek_eq]

theorem read_snd_pos (s : Scanner) (h : s.pos ≤ s.content.length) : (s.read).2.pos = s.pos + 1 := by
  have := (C11_read_spec s).2
  simpa [h] using this

theorem unreadMany_pos (n : Nat) (s : Scanner) : (s.unreadMany n).pos = s.pos - n := by
  induction n generalizing s with
  | zero => rfl
  | succ n ih =>
    show ((s.unread).unreadMany n).pos = s.pos - (n+1)
    rw [ih, unread_pos]; omega

/-- a well-formed scanner is determined by its content and position -/
theorem Scanner.wf_ext (s s' : Scanner) (hw : s.WF) (hw' : s'.WF) (hc : s'.content = s.content)
    (hp : s'.pos = s.pos) : s' = s := by
  obtain ⟨_, h2⟩ := hw
  obtain ⟨_, h2'⟩ := hw'
  rw [hc, hp, ← h2] at h2'
  have e1 := congrArg Prod.fst h2'
  have e2 := congrArg Prod.snd h2'
  simp only at e1 e2
  cases s; cases s'
  simp only at hc hp e1 e2
  subst hc; subst hp; subst e1; subst e2
  rfl

/-- the position reported right after the first read of a state entered at `s` -/
theorem read_lc (s : Scanner) (hw : s.WF) (hp : s.pos ≤ s.content.length) :
    ((s.read).2.line, (s.read).2.col) = lcUpTo s.content (s.pos + 1) := by
  have h := (read_wf s hw).2
  rw [read_content, read_snd_pos s hp] at h
  exact h

/-! ### 1. symbol table -/

/-- `DeepestRead` invariant: the path is the slice consumed since the token start; the read
of a non-matching character (or of the EOF slot) is undone by `unread`. -/
theorem deepest_inv (t : SymTab) (f : Nat) {c : List Rune} {p0 : Nat} (path : List Rune)
    (s : Scanner) (hc : s.content = c) (hw : s.WF) (hle : s.pos ≤ c.length) (hlt : p0 < s.pos)
    (hpath : path = slice c p0 s.pos) :
    (t.deepest f path s).1 = slice c p0 (t.deepest f path s).2.pos ∧
    (t.deepest f path s).2.pos ≤ c.length ∧ p0 < (t.deepest f path s).2.pos ∧
    (t.deepest f path s).2.WF ∧ (t.deepest f path s).2.content = c := by
  induction f generalizing path s with
  | zero => exact ⟨hpath, hle, hlt, hw, hc⟩
  | succ f ih =>
    have hun : (s.read).2.unread = s := C11_unread_read s hw (by rw [hc]; exact hle)
    simp only [SymTab.deepest]
    split
    · rw [hun]; exact ⟨hpath, hle, hlt, hw, hc⟩
    · rename_i ch hch
      split
      · rw [read_fst, hc] at hch
        obtain ⟨hlt', _⟩ := List.getElem?_eq_some_iff.mp hch
        have hr := read_snd_pos s (by rw [hc]; exact hle)
        apply ih
        · rw [read_content, hc]
        · exact read_wf s hw
        · rw [hr]; omega
        · rw [hr]; omega
        · rw [hr, slice_succ' c p0 s.pos ch hch (by omega), ← hpath]
      · rw [hun]; exact ⟨hpath, hle, hlt, hw, hc⟩

/-- `UnreadToValid` invariant: each step drops the last rune of the path and un-reads once.
(`path.length = s.pos - p0` follows from `hpath` and `hle`, so it is not a hypothesis.) -/
theorem unreadToValid_inv (t : SymTab) (f : Nat) {c : List Rune} {p0 : Nat} (path : List Rune)
    (s : Scanner) (hc : s.content = c) (hw : s.WF) (hle : s.pos ≤ c.length) (hlt : p0 < s.pos)
    (hpath : path = slice c p0 s.pos) :
    (t.unreadToValid f path s).1 = slice c p0 (t.unreadToValid f path s).2.pos ∧
    (t.unreadToValid f path s).2.pos ≤ c.length ∧ p0 < (t.unreadToValid f path s).2.pos ∧
    (t.unreadToValid f path s).2.WF ∧ (t.unreadToValid f path s).2.content = c := by
  induction f generalizing path s with
  | zero => exact ⟨hpath, hle, hlt, hw, hc⟩
  | succ f ih =>
    simp only [SymTab.unreadToValid]
    split
    · rename_i hcond
      have hlen : path.length = s.pos - p0 := by
        rw [hpath, slice_length]; omega
      have h1 : path.length > 1 := by
        simp only [Bool.and_eq_true, decide_eq_true_eq] at hcond
        exact hcond.2
      apply ih
      · rw [unread_content, hc]
      · exact unread_wf s hw
      · rw [unread_pos]; omega
      · rw [unread_pos]; omega
      · rw [unread_pos, hpath]
        have hk : s.pos - 1 < c.length := by omega
        have hs := slice_succ c p0 (s.pos - 1) hk (by omega)
        have e : s.pos - 1 + 1 = s.pos := by omega
        rw [e] at hs
        rw [hs, List.dropLast_concat]
    · exact ⟨hpath, hle, hlt, hw, hc⟩

/-- `SymbolRootNode.NextToken`, for any well-formed scanner at position `p0` over `c`. -/
theorem symNextToken_seg' (t : SymTab) (f : Nat) {c : List Rune} {p0 : Nat} (s' : Scanner)
    (hc : s'.content = c) (hpos : s'.pos = p0) (hw : s'.WF) (hp : p0 < c.length) :
    SegOK c p0 (t.nextToken f s').1.value (t.nextToken f s').2 := by
  have hr : (s'.read).2.pos = p0 + 1 := by
    rw [read_snd_pos s' (by rw [hc, hpos]; omega), hpos]
  have hrc : (s'.read).2.content = c := by rw [read_content, hc]
  have hrw := read_wf s' hw
  have hfst : (s'.read).1 = c[p0]? := by rw [read_fst, hc, hpos]
  simp only [SymTab.nextToken]
  split
  · rename_i hnone
    rw [hfst] at hnone
    have := List.getElem?_eq_none_iff.mp hnone
    omega
  · rename_i ch hch
    rw [hfst] at hch
    have h1 : [ch] = slice c p0 (p0 + 1) := (slice_one c p0 ch hch).symm
    split
    · have hd := deepest_inv t f (c := c) (p0 := p0) [ch] (s'.read).2 hrc hrw (by rw [hr]; omega) (by rw [hr]; omega)
        (by rw [hr]; exact h1)
      obtain ⟨hd1, hd2, hd3, hd4, hd5⟩ := hd
      have hu := unreadToValid_inv t (t.deepest f [ch] (s'.read).2).1.length
        (t.deepest f [ch] (s'.read).2).1 (t.deepest f [ch] (s'.read).2).2 hd5 hd4 hd2 hd3 hd1
      obtain ⟨hu1, hu2, hu3, hu4, hu5⟩ := hu
      refine ⟨hu5, hu4, Nat.le_of_lt hu3, ?_⟩
      simp only
      rw [Nat.min_eq_left hu2]
      exact hu1
    · refine ⟨hrc, hrw, by rw [hr]; omega, ?_⟩
      simp only
      rw [hr]
      have : min (p0 + 1) c.length = p0 + 1 := by omega
      rw [this]; exact h1

theorem symNextToken_seg (t : SymTab) (f : Nat) (s : Scanner) (hw : s.WF)
    (hp : s.pos < s.content.length) :
    SegOK s.content s.pos (t.nextToken f s).1.value (t.nextToken f s).2 :=
  symNextToken_seg' t f s rfl rfl hw hp

/-- the symbol token is stamped with the position of its first character -/
theorem symNextToken_pos (t : SymTab) (f : Nat) (s : Scanner) (hw : s.WF)
    (hp : s.pos < s.content.length) :
    ((t.nextToken f s).1.line, (t.nextToken f s).1.col) = lcUpTo s.content (s.pos + 1) := by
  have h := read_lc s hw (Nat.le_of_lt hp)
  simp only [SymTab.nextToken]
  split
  · exact h
  · split
    · exact h
    · exact h

theorem symNextToken_pos' (t : SymTab) (f : Nat) {c : List Rune} {p0 : Nat} (s' : Scanner)
    (hc : s'.content = c) (hpos : s'.pos = p0) (hw : s'.WF) (hp : p0 < c.length) :
    ((t.nextToken f s').1.line, (t.nextToken f s').1.col) = lcUpTo c (p0 + 1) := by
  subst hc; subst hpos
  exact symNextToken_pos t f s' hw hp

/-! ### csv symbol state -/

theorem csvSymbolState_seg (t : SymTab) (f : Nat) (s : Scanner) (hw : s.WF)
    (hp : s.pos < s.content.length) :
    SegOK s.content s.pos (csvSymbolState t f s).1.value (csvSymbolState t f s).2 := by
  have hr : (s.read).2.pos = s.pos + 1 := read_snd_pos s (Nat.le_of_lt hp)
  have hrw := read_wf s hw
  simp only [csvSymbolState]
  split
  · rename_i ch hch
    rw [read_fst] at hch
    split
    · refine ⟨read_content s, hrw, by rw [hr]; omega, ?_⟩
      simp only
      rw [hr]
      have : min (s.pos + 1) s.content.length = s.pos + 1 := by omega
      rw [this]; exact (slice_one _ _ ch hch).symm
    · exact symNextToken_seg' t f (s.read).2.unread (by rw [unread_content, read_content])
        (by rw [unread_pos, hr]; omega) (unread_wf _ hrw) hp
  · rename_i hnone
    rw [read_fst] at hnone
    have := List.getElem?_eq_none_iff.mp hnone
    omega

theorem csvSymbolState_pos (t : SymTab) (f : Nat) (s : Scanner) (hw : s.WF)
    (hp : s.pos < s.content.length) :
    ((csvSymbolState t f s).1.line, (csvSymbolState t f s).1.col) = lcUpTo s.content (s.pos + 1) := by
  have h := read_lc s hw (Nat.le_of_lt hp)
  have hr : (s.read).2.pos = s.pos + 1 := read_snd_pos s (Nat.le_of_lt hp)
  simp only [csvSymbolState]
  split
  · split
    · exact h
    · exact symNextToken_pos' t f (s.read).2.unread (by rw [unread_content, read_content])
        (by rw [unread_pos, hr]; omega) (unread_wf _ (read_wf s hw)) hp
  · exact h

/-! ### 2. number states -/

/-- a scanner with the same content and position as a finished one is finished too -/
theorem SegOK.of_same_pos {c : List Rune} {p0 : Nat} {v : List Rune} {s1 : Scanner}
    (h : SegOK c p0 v s1) (s2 : Scanner) (hc : s2.content = c) (hw : s2.WF)
    (hpos : s2.pos = s1.pos) : SegOK c p0 v s2 :=
  ⟨hc, hw, by rw [hpos]; exact h.mono, by rw [hpos]; exact h.seg⟩

/-- the fall-back rewind of the number state: un-read the pending look-ahead (or, at the end,
the EOF slot) and then one slot per accumulated rune: the cursor is back at the token start. -/
theorem LoopInv.rewind {c : List Rune} {p0 : Nat} {acc : List Rune} {nx : Option Rune} {s : Scanner}
    (h : LoopInv c p0 acc nx s) :
    ((if nx.isNone then (unreadIfNotEof nx s).unread else unreadIfNotEof nx s).unreadMany
        acc.length).pos = p0 ∧
    ((if nx.isNone then (unreadIfNotEof nx s).unread else unreadIfNotEof nx s).unreadMany
        acc.length).WF ∧
    ((if nx.isNone then (unreadIfNotEof nx s).unread else unreadIfNotEof nx s).unreadMany
        acc.length).content = c := by
  have hst := h.started
  have hlen := congrArg List.length h.seg
  rw [List.length_append, slice_length] at hlen
  cases nx with
  | none =>
    have he := h.eof
    have e : (if (none : Option Rune).isNone then (unreadIfNotEof none s).unread
        else unreadIfNotEof none s) = s.unread := rfl
    rw [e]
    refine ⟨?_, unreadMany_wf _ _ (unread_wf s h.wf), ?_⟩
    · rw [unreadMany_pos, unread_pos]
      simp only [Option.toList_none, List.length_nil] at hlen
      omega
    · rw [unreadMany_content, unread_content, h.content]
  | some ch =>
    obtain ⟨hle, _⟩ := h.pos_le
    have e : (if (some ch : Option Rune).isNone then (unreadIfNotEof (some ch) s).unread
        else unreadIfNotEof (some ch) s) = s.unread := rfl
    rw [e]
    refine ⟨?_, unreadMany_wf _ _ (unread_wf s h.wf), ?_⟩
    · rw [unreadMany_pos, unread_pos]
      simp only [Option.toList_some, List.length_singleton] at hlen
      omega
    · rw [unreadMany_content, unread_content, h.content]

/-! the stages of `numberState`, named so that each can carry the loop invariant -/

/-- after the optional leading `-` -/
def nsA (s : Scanner) : RW :=
  if (s.read).1 == some 45 then ⟨[45], ((s.read).2.read).1, ((s.read).2.read).2⟩
  else ⟨[], (s.read).1, (s.read).2⟩

/-- after the integer digits -/
def nsB (f : Nat) (s : Scanner) : RW := readWhile isDigit f (nsA s).acc (nsA s).nx (nsA s).s

/-- after the optional `.` -/
def nsC (f : Nat) (s : Scanner) : RW :=
  if (nsB f s).nx == some 46 then
    ⟨(nsB f s).acc ++ [46], ((nsB f s).s.read).1, ((nsB f s).s.read).2⟩
  else nsB f s

/-- after the fraction digits -/
def nsD (f : Nat) (s : Scanner) : RW :=
  if (nsB f s).nx == some 46 then readWhile isDigit f (nsC f s).acc (nsC f s).nx (nsC f s).s
  else nsC f s

def nsGot (f : Nat) (s : Scanner) : Bool :=
  decide ((nsB f s).acc.length > (nsA s).acc.length) ||
    decide ((nsD f s).acc.length > (nsC f s).acc.length)

/-- the scanner handed to the symbol state on the fall-back path -/
def nsBack (f : Nat) (s : Scanner) : Scanner :=
  (if (nsD f s).nx.isNone then (unreadIfNotEof (nsD f s).nx (nsD f s).s).unread
   else unreadIfNotEof (nsD f s).nx (nsD f s).s).unreadMany (nsD f s).acc.length

theorem numberState_eq (sym : Scanner → Tok × Scanner) (f : Nat) (s : Scanner) :
    numberState sym f s =
      if !(nsGot f s) then sym (nsBack f s)
      else ({ typ := if (nsB f s).nx == some 46 then TT.float else TT.integer,
              value := (nsD f s).acc, line := (s.read).2.line, col := (s.read).2.col },
            unreadIfNotEof (nsD f s).nx (nsD f s).s) := rfl

theorem nsA_inv (s : Scanner) (hw : s.WF) (hp : s.pos ≤ s.content.length) :
    LoopInv s.content s.pos (nsA s).acc (nsA s).nx (nsA s).s := by
  have h1 := LoopInv.first s hw hp
  unfold nsA
  split
  · rename_i hc
    rw [eq_of_beq hc] at h1
    exact h1.step
  · exact h1

theorem nsB_inv (f : Nat) (s : Scanner) (hw : s.WF) (hp : s.pos ≤ s.content.length) :
    LoopInv s.content s.pos (nsB f s).acc (nsB f s).nx (nsB f s).s :=
  readWhile_inv isDigit f _ _ _ (nsA_inv s hw hp)

theorem nsC_inv (f : Nat) (s : Scanner) (hw : s.WF) (hp : s.pos ≤ s.content.length) :
    LoopInv s.content s.pos (nsC f s).acc (nsC f s).nx (nsC f s).s := by
  have h1 := nsB_inv f s hw hp
  unfold nsC
  split
  · rename_i hc
    rw [eq_of_beq hc] at h1
    exact h1.step
  · exact h1

theorem nsD_inv (f : Nat) (s : Scanner) (hw : s.WF) (hp : s.pos ≤ s.content.length) :
    LoopInv s.content s.pos (nsD f s).acc (nsD f s).nx (nsD f s).s := by
  have h1 := nsC_inv f s hw hp
  unfold nsD
  split
  · exact readWhile_inv isDigit f _ _ _ h1
  · exact h1

/-- the scanner handed to `sym` on the fall-back path is back at exactly `s.pos` -/
theorem nsBack_spec (f : Nat) (s : Scanner) (hw : s.WF) (hp : s.pos ≤ s.content.length) :
    (nsBack f s).pos = s.pos ∧ (nsBack f s).WF ∧ (nsBack f s).content = s.content :=
  (nsD_inv f s hw hp).rewind

/-- (consequence of `wf_ext`) it is in fact the very scanner the state was entered with -/
theorem nsBack_eq (f : Nat) (s : Scanner) (hw : s.WF) (hp : s.pos ≤ s.content.length) :
    nsBack f s = s := by
  obtain ⟨h1, h2, h3⟩ := nsBack_spec f s hw hp
  exact Scanner.wf_ext s _ hw h2 h3 h1

theorem numberState_seg (sym : Scanner → Tok × Scanner) (f : Nat) (s : Scanner) (hw : s.WF)
    (hp : s.pos < s.content.length)
    (hsym : ∀ s', s'.WF → s'.content = s.content → s'.pos = s.pos →
      SegOK s.content s.pos (sym s').1.value (sym s').2) :
    SegOK s.content s.pos (numberState sym f s).1.value (numberState sym f s).2 := by
  rw [numberState_eq]
  split
  · obtain ⟨h1, h2, h3⟩ := nsBack_spec f s hw (Nat.le_of_lt hp)
    exact hsym _ h2 h3 h1
  · exact (nsD_inv f s hw (Nat.le_of_lt hp)).finish

theorem numberState_pos (sym : Scanner → Tok × Scanner) (f : Nat) (s : Scanner) (hw : s.WF)
    (hp : s.pos < s.content.length)
    (hsymPos : ∀ s', s'.WF → s'.content = s.content → s'.pos = s.pos →
      ((sym s').1.line, (sym s').1.col) = lcUpTo s.content (s.pos + 1)) :
    ((numberState sym f s).1.line, (numberState sym f s).1.col) = lcUpTo s.content (s.pos + 1) := by
  rw [numberState_eq]
  split
  · obtain ⟨h1, h2, h3⟩ := nsBack_spec f s hw (Nat.le_of_lt hp)
    exact hsymPos _ h2 h3 h1
  · exact read_lc s hw (Nat.le_of_lt hp)

/-! ### expression number state (exponent part, peek-based) -/

/-- invariant of the peek-based loops: `acc` is the slice from `q` to the cursor, and the
cursor has not consumed the EOF slot -/
structure PInv (c : List Rune) (q : Nat) (acc : List Rune) (s : Scanner) : Prop where
  content : s.content = c
  wf : s.WF
  ge : q ≤ s.pos
  le : s.pos ≤ c.length
  seg : acc = slice c q s.pos

theorem PInv.init (s : Scanner) (hw : s.WF) (hle : s.pos ≤ s.content.length) :
    PInv s.content s.pos [] s :=
  ⟨rfl, hw, Nat.le_refl _, hle, (slice_self _ _).symm⟩

theorem PInv.step {c : List Rune} {q : Nat} {acc : List Rune} {s : Scanner} {ch : Rune}
    (h : PInv c q acc s) (hpk : s.peek = some ch) : PInv c q (acc ++ [ch]) (s.read).2 := by
  rw [peek_eq, h.content] at hpk
  obtain ⟨hlt, _⟩ := List.getElem?_eq_some_iff.mp hpk
  have hr := read_snd_pos s (by rw [h.content]; exact h.le)
  have hge := h.ge
  refine ⟨by rw [read_content, h.content], read_wf s h.wf, by rw [hr]; omega, by rw [hr]; omega, ?_⟩
  rw [hr, slice_succ' c q s.pos ch hpk hge, ← h.seg]

theorem readWhilePeek_inv (p : Rune → Bool) (f : Nat) {c : List Rune} {q : Nat} (acc : List Rune)
    (s : Scanner) (h : PInv c q acc s) :
    PInv c q (readWhilePeek p f acc s).1 (readWhilePeek p f acc s).2 := by
  induction f generalizing acc s with
  | zero => exact h
  | succ f ih =>
    simp only [readWhilePeek]
    split
    · exact h
    · rename_i ch hpk
      split
      · exact ih _ _ (h.step hpk)
      · exact h

/-- `unreadMany acc.length` undoes a peek-based run -/
theorem PInv.rewind {c : List Rune} {q : Nat} {acc : List Rune} {s : Scanner} (h : PInv c q acc s) :
    (s.unreadMany acc.length).pos = q ∧ (s.unreadMany acc.length).WF ∧
    (s.unreadMany acc.length).content = c := by
  have hlen := congrArg List.length h.seg
  rw [slice_length] at hlen
  have h1 := h.ge
  have h2 := h.le
  refine ⟨?_, unreadMany_wf _ _ h.wf, by rw [unreadMany_content, h.content]⟩
  rw [unreadMany_pos]; omega

/-- scanner after `e` / `E` and the optional sign -/
def expS3 (s1 : Scanner) : Scanner :=
  if ((s1.read).2.peek == some 45 || (s1.read).2.peek == some 43) then ((s1.read).2.read).2
  else (s1.read).2

/-- the runes consumed so far by the exponent part -/
def expAcc2 (s1 : Scanner) : List Rune :=
  if ((s1.read).2.peek == some 45 || (s1.read).2.peek == some 43) then
    [(s1.read).1.getD 0, ((s1.read).2.peek).getD 0]
  else [(s1.read).1.getD 0]

theorem exprNumberState_eq (sym : Scanner → Tok × Scanner) (f : Nat) (s : Scanner) :
    exprNumberState sym f s =
      if s.peek == some 45 then sym s
      else if (numberState sym f s).1.typ != TT.integer && (numberState sym f s).1.typ != TT.float then
        numberState sym f s
      else if (numberState sym f s).2.peek != some 101 && (numberState sym f s).2.peek != some 69 then
        numberState sym f s
      else
        match (expS3 (numberState sym f s).2).peek with
        | none => ((numberState sym f s).1,
            (expS3 (numberState sym f s).2).unreadMany (expAcc2 (numberState sym f s).2).length)
        | some c =>
          if !isDigit c then ((numberState sym f s).1,
            (expS3 (numberState sym f s).2).unreadMany (expAcc2 (numberState sym f s).2).length)
          else
            ({ typ := TT.float,
               value := (numberState sym f s).1.value ++
                 (readWhilePeek isDigit f (expAcc2 (numberState sym f s).2)
                   (expS3 (numberState sym f s).2)).1,
               line := s.peekLine, col := s.peekColumn },
             (readWhilePeek isDigit f (expAcc2 (numberState sym f s).2)
               (expS3 (numberState sym f s).2)).2) := rfl

theorem exp_inv {c : List Rune} (s1 : Scanner) (hw : s1.WF) (hc : s1.content = c) {e : Rune}
    (hpk : s1.peek = some e) : PInv c s1.pos (expAcc2 s1) (expS3 s1) := by
  have hlt : s1.pos < s1.content.length := by
    rw [peek_eq] at hpk
    exact (List.getElem?_eq_some_iff.mp hpk).1
  have h0 : PInv c s1.pos [] s1 := by
    have := PInv.init s1 hw (Nat.le_of_lt hlt)
    rw [hc] at this; exact this
  have h1 : PInv c s1.pos [e] (s1.read).2 := h0.step hpk
  have he : (s1.read).1.getD 0 = e := by
    rw [← C11_peek_is_next, hpk]; rfl
  unfold expAcc2 expS3
  rw [he]
  by_cases hs : ((s1.read).2.peek == some 45 || (s1.read).2.peek == some 43) = true
  · rw [if_pos hs, if_pos hs]
    cases hpk2 : (s1.read).2.peek with
    | none => rw [hpk2] at hs; exact absurd hs (by decide)
    | some x => exact h1.step hpk2
  · rw [if_neg hs, if_neg hs]
    exact h1

theorem exprNumberState_seg (sym : Scanner → Tok × Scanner) (f : Nat) (s : Scanner) (hw : s.WF)
    (hp : s.pos < s.content.length)
    (hsym : ∀ s', s'.WF → s'.content = s.content → s'.pos = s.pos →
      SegOK s.content s.pos (sym s').1.value (sym s').2) :
    SegOK s.content s.pos (exprNumberState sym f s).1.value (exprNumberState sym f s).2 := by
  have hg := numberState_seg sym f s hw hp hsym
  rw [exprNumberState_eq]
  split
  · exact hsym s hw rfl rfl
  · split
    · exact hg
    · split
      · exact hg
      · rename_i hcond
        -- an `e` / `E` is pending after the number
        have hex : ∃ e, (numberState sym f s).2.peek = some e := by
          cases hpk : (numberState sym f s).2.peek with
          | none => rw [hpk] at hcond; exact absurd (by decide) hcond
          | some e => exact ⟨e, rfl⟩
        obtain ⟨e, hpk⟩ := hex
        have hinv := exp_inv (numberState sym f s).2 hg.wf hg.content hpk
        have hlt1 : (numberState sym f s).2.pos < s.content.length := by
          rw [peek_eq, hg.content] at hpk
          exact (List.getElem?_eq_some_iff.mp hpk).1
        have hback : SegOK s.content s.pos (numberState sym f s).1.value
            ((expS3 (numberState sym f s).2).unreadMany (expAcc2 (numberState sym f s).2).length) := by
          obtain ⟨r1, r2, r3⟩ := hinv.rewind
          exact hg.of_same_pos _ r3 r2 r1
        split
        · exact hback
        · split
          · exact hback
          · have hwv := readWhilePeek_inv isDigit f _ _ hinv
            have hmono := hg.mono
            have hge := hwv.ge
            have hle := hwv.le
            refine ⟨hwv.content, hwv.wf, by simp only; omega, ?_⟩
            simp only
            have hv := hg.seg
            rw [Nat.min_eq_left (Nat.le_of_lt hlt1)] at hv
            rw [Nat.min_eq_left hle, hv, hwv.seg]
            exact slice_append _ _ _ _ hmono hge (Nat.le_of_lt hlt1)

/-! ### 3. peek position and re-tagging wrappers (`exprWordState` style) -/

/-- when a next character exists, the peeked line/column are those of that character -/
theorem peekLC_eq (s : Scanner) (hw : s.WF) (hp : s.pos < s.content.length) :
    (s.peekLine, s.peekColumn) = lcUpTo s.content (s.pos + 1) := by
  rw [C11_peekLC_next s hp]
  have h := (read_wf s hw).2
  rw [read_content, (read_pos_lt s hp).2] at h
  exact h

/-- a token rebuilt with the same value (other type / position stamp) is still `SegOK` -/
theorem segOK_retag {c : List Rune} {p0 : Nat} (g : Scanner → Tok × Scanner) (s : Scanner)
    (h : SegOK c p0 (g s).1.value (g s).2) (typ line col : Nat) :
    SegOK c p0 ({ typ := typ, value := (g s).1.value, line := line, col := col } : Tok).value (g s).2 :=
  h

/-- the wrapper shape: run `g`, keep its value and scanner, restamp type and peeked position -/
theorem wrapState_seg (g : Scanner → Tok × Scanner) (retype : Nat → Nat) (s : Scanner)
    (h : SegOK s.content s.pos (g s).1.value (g s).2) :
    SegOK s.content s.pos
      (({ typ := retype (g s).1.typ, value := (g s).1.value, line := s.peekLine,
          col := s.peekColumn } : Tok), (g s).2).1.value
      (({ typ := retype (g s).1.typ, value := (g s).1.value, line := s.peekLine,
          col := s.peekColumn } : Tok), (g s).2).2 :=
  h

theorem wrapState_pos (g : Scanner → Tok × Scanner) (retype : Nat → Nat) (s : Scanner)
    (hw : s.WF) (hp : s.pos < s.content.length) :
    ((({ typ := retype (g s).1.typ, value := (g s).1.value, line := s.peekLine,
          col := s.peekColumn } : Tok), (g s).2).1.line,
     (({ typ := retype (g s).1.typ, value := (g s).1.value, line := s.peekLine,
          col := s.peekColumn } : Tok), (g s).2).1.col) = lcUpTo s.content (s.pos + 1) :=
  peekLC_eq s hw hp

/-! ### position of the expression number token -/

theorem exprNumberState_pos (sym : Scanner → Tok × Scanner) (f : Nat) (s : Scanner) (hw : s.WF)
    (hp : s.pos < s.content.length)
    (hsymPos : ∀ s', s'.WF → s'.content = s.content → s'.pos = s.pos →
      ((sym s').1.line, (sym s').1.col) = lcUpTo s.content (s.pos + 1)) :
    ((exprNumberState sym f s).1.line, (exprNumberState sym f s).1.col) =
      lcUpTo s.content (s.pos + 1) := by
  have hg := numberState_pos sym f s hw hp hsymPos
  rw [exprNumberState_eq]
  split
  · exact hsymPos s hw rfl rfl
  · split
    · exact hg
    · split
      · exact hg
      · split
        · exact hg
        · split
          · exact hg
          · exact peekLC_eq s hw hp

/-! ### the contracts are satisfiable: the symbol table's `nextToken` meets both -/

theorem symNextToken_contract (t : SymTab) (f : Nat) (s : Scanner) (hp : s.pos < s.content.length) :
    ∀ s', s'.WF → s'.content = s.content → s'.pos = s.pos →
      SegOK s.content s.pos (t.nextToken f s').1.value (t.nextToken f s').2 :=
  fun s' hw' hc' hp' => symNextToken_seg' t f s' hc' hp' hw' hp

theorem symNextToken_contractPos (t : SymTab) (f : Nat) (s : Scanner) (hp : s.pos < s.content.length) :
    ∀ s', s'.WF → s'.content = s.content → s'.pos = s.pos →
      ((t.nextToken f s').1.line, (t.nextToken f s').1.col) = lcUpTo s.content (s.pos + 1) :=
  fun s' hw' hc' hp' => symNextToken_pos' t f s' hc' hp' hw' hp

/-- non-vacuity: number state over the symbol table's `nextToken`, closed statement -/
theorem numberState_sym_seg (t : SymTab) (f f' : Nat) (s : Scanner) (hw : s.WF)
    (hp : s.pos < s.content.length) :
    SegOK s.content s.pos (numberState (t.nextToken f') f s).1.value
      (numberState (t.nextToken f') f s).2 :=
  numberState_seg _ f s hw hp (symNextToken_contract t f' s hp)

theorem exprNumberState_sym_seg (t : SymTab) (f f' : Nat) (s : Scanner) (hw : s.WF)
    (hp : s.pos < s.content.length) :
    SegOK s.content s.pos (exprNumberState (t.nextToken f') f s).1.value
      (exprNumberState (t.nextToken f') f s).2 :=
  exprNumberState_seg _ f s hw hp (symNextToken_contract t f' s hp)

end Verif
