/-
Foundations for C13 / C09 (lexeme round trips): the reading loops as *pure functions of the
remaining input*.

`Lemmas/Seg.lean` shows that every loop moves "a slice" across the cursor.  Here the slice is
identified: `readWhile p` accumulates exactly `takeWhile p` of the remaining input
(`readWhile_takeWhile`), the span states return `takeWhile p`, and the glue lemma
`rawNext_after` turns "the raw token has the value `lex`" into "the scanner stands right after
`lex`" using the segmentation contract.
-/
import Verif.Lemmas.MainLoop
import Verif.Props.C14

namespace Verif
open Scanner

/-! ### list helpers -/

theorem takeWhile_append_stop (p : Rune → Bool) (w rest : List Rune)
    (hall : ∀ x ∈ w, p x = true) (hb : ∀ x, rest.head? = some x → p x = false) :
    (w ++ rest).takeWhile p = w := by
  induction w with
  | nil =>
    cases rest with
    | nil => rfl
    | cons r rs =>
      have := hb r rfl
      simp [this]
  | cons a w ih =>
    have ha := hall a List.mem_cons_self
    simp only [List.cons_append, List.takeWhile_cons, ha, if_true]
    rw [ih (fun x hx => hall x (List.mem_cons_of_mem _ hx))]

theorem drop_drop_eq (c : List Rune) (a b : Nat) : (c.drop a).drop b = c.drop (a + b) := by
  rw [List.drop_drop]

/-- the remaining input seen from a position with a next character -/
theorem drop_of_peek {s : Scanner} {ch : Rune} (h : s.peek = some ch) :
    s.content.drop s.pos = ch :: s.content.drop (s.pos + 1) := by
  obtain ⟨hlt, hget⟩ := peek_some_lt h
  rw [List.drop_eq_getElem_cons hlt]
  have e := List.getElem?_eq_getElem hlt
  rw [e] at hget
  rw [Option.some.inj hget]

theorem peek_of_drop {s : Scanner} {ch : Rune} {t : List Rune}
    (h : s.content.drop s.pos = ch :: t) : s.peek = some ch := by
  rw [peek_drop, h]; rfl

theorem pos_lt_of_drop {s : Scanner} {ch : Rune} {t : List Rune}
    (h : s.content.drop s.pos = ch :: t) : s.pos < s.content.length :=
  (peek_some_lt (peek_of_drop h)).1

/-! ### what the loop invariant says about the remaining input -/

/-- with the loop invariant the cursor is determined by the accumulator -/
theorem LoopInv.pos_eq {c : List Rune} {p0 : Nat} {acc : List Rune} {nx : Option Rune}
    {s : Scanner} (h : LoopInv c p0 acc nx s) : s.pos = p0 + acc.length + 1 := by
  have hlen := congrArg List.length h.seg
  rw [List.length_append, slice_length] at hlen
  have hst := h.started
  cases nx with
  | none =>
    have he := h.eof
    simp only [Option.toList_none, List.length_nil] at hlen
    omega
  | some ch =>
    obtain ⟨hle, _⟩ := h.pos_le
    simp only [Option.toList_some, List.length_singleton] at hlen
    omega

/-- the input from the token start = accumulator, look-ahead, unread rest -/
theorem LoopInv.split {c : List Rune} {p0 : Nat} {acc : List Rune} {nx : Option Rune}
    {s : Scanner} (h : LoopInv c p0 acc nx s) :
    c.drop p0 = acc ++ (nx.toList ++ c.drop s.pos) := by
  have hseg := h.seg
  have hst := h.started
  rw [← List.append_assoc, hseg]
  unfold slice
  cases nx with
  | none =>
    have he := h.eof
    have h1 : min s.pos c.length = c.length := by omega
    have h2 : c.drop s.pos = [] := List.drop_eq_nil_of_le (by omega)
    rw [h1, h2, List.take_length, List.append_nil]
  | some ch =>
    obtain ⟨hle, _⟩ := h.pos_le
    have h1 : min s.pos c.length = s.pos := by omega
    rw [h1]
    have hle' : p0 ≤ (c.take s.pos).length := by rw [List.length_take]; omega
    rw [← List.drop_append_of_le_length hle', List.take_append_drop]

/-- look-ahead and unread rest = the input after the accumulated runes -/
theorem LoopInv.ahead {c : List Rune} {p0 : Nat} {acc : List Rune} {nx : Option Rune}
    {s : Scanner} (h : LoopInv c p0 acc nx s) :
    nx.toList ++ c.drop s.pos = (c.drop p0).drop acc.length := by
  rw [h.split, List.drop_left]

theorem LoopInv.nx_eq {c : List Rune} {p0 : Nat} {acc : List Rune} {nx : Option Rune}
    {s : Scanner} (h : LoopInv c p0 acc nx s) :
    nx = ((c.drop p0).drop acc.length).head? := by
  rw [← h.ahead]
  cases nx with
  | none =>
    have he := h.eof
    have h2 : c.drop s.pos = [] := List.drop_eq_nil_of_le (by omega)
    rw [h2]; rfl
  | some ch => rfl

/-! ### 1. `readWhile` = `takeWhile` -/

/-- **`readWhile` accumulates exactly `takeWhile p` of the remaining input** (look-ahead
included), for every fuel that covers the remaining slots (callers pass `content.length + 2`). -/
theorem readWhile_acc (p : Rune → Bool) (f : Nat) {c : List Rune} {p0 : Nat} (acc : List Rune)
    (nx : Option Rune) (s : Scanner) (h : LoopInv c p0 acc nx s) (hf : c.length + 2 ≤ f + s.pos) :
    (readWhile p f acc nx s).acc = acc ++ ((c.drop p0).drop acc.length).takeWhile p := by
  induction f generalizing acc nx s with
  | zero =>
    have h1 := h.wf.1
    rw [h.content] at h1
    omega
  | succ f ih =>
    have ha := h.ahead
    cases nx with
    | none =>
      have he := h.eof
      have h2 : c.drop s.pos = [] := List.drop_eq_nil_of_le (by omega)
      rw [h2] at ha
      simp only [Option.toList_none, List.append_nil] at ha
      rw [← ha]
      simp [readWhile]
    | some ch =>
      simp only [Option.toList_some, List.singleton_append] at ha
      simp only [readWhile]
      split
      · rename_i hp
        rw [ih _ _ _ h.step (by rw [h.read_pos]; omega)]
        have hs := h.step.ahead
        rw [← ha, List.takeWhile_cons, if_pos hp]
        have e : (c.drop p0).drop (acc ++ [ch]).length = c.drop s.pos := by
          have : (c.drop p0).drop (acc ++ [ch]).length = ((c.drop p0).drop acc.length).drop 1 := by
            simp only [List.drop_drop, List.length_append, List.length_singleton, Nat.add_assoc]
          rw [this, ← ha]; rfl
        rw [e]
        simp
      · rename_i hp
        rw [← ha, List.takeWhile_cons, if_neg hp, List.append_nil]

/-- **readWhile_takeWhile**, in the form asked for: started with a pending character `ch` and
the unread rest `rest`, the loop accumulates `takeWhile p (ch :: rest)`, its look-ahead is the
first rune that fails `p` (`none` at the end of the input), and the cursor has advanced by
exactly the number of accumulated runes — it stands just behind the first non-`p` rune, or
behind the end-of-input slot. -/
theorem readWhile_takeWhile (p : Rune → Bool) (f : Nat) {c : List Rune} {p0 : Nat}
    (acc : List Rune) (ch : Rune) (s : Scanner) (h : LoopInv c p0 acc (some ch) s)
    (hf : c.length + 2 ≤ f + s.pos) :
    (readWhile p f acc (some ch) s).acc = acc ++ (ch :: c.drop s.pos).takeWhile p ∧
    (readWhile p f acc (some ch) s).nx = ((ch :: c.drop s.pos).dropWhile p).head? ∧
    (readWhile p f acc (some ch) s).s.pos = s.pos + ((ch :: c.drop s.pos).takeWhile p).length ∧
    LoopInv c p0 (readWhile p f acc (some ch) s).acc (readWhile p f acc (some ch) s).nx
      (readWhile p f acc (some ch) s).s := by
  have hacc := readWhile_acc p f acc (some ch) s h hf
  have hinv := readWhile_inv p f acc (some ch) s h
  have ha := h.ahead
  simp only [Option.toList_some, List.singleton_append] at ha
  rw [← ha] at hacc
  refine ⟨hacc, ?_, ?_, hinv⟩
  · rw [hinv.nx_eq, hacc, List.length_append, ← List.drop_drop, ← ha]
    generalize (ch :: c.drop s.pos) = l
    induction l with
    | nil => rfl
    | cons a l ih =>
      rw [List.takeWhile_cons, List.dropWhile_cons]
      split
      · simpa using ih
      · rfl
  · rw [hinv.pos_eq, hacc, h.pos_eq, List.length_append]; omega

/-! ### span states -/

/-- the word / whitespace / `#`-comment state returns `takeWhile p` of the remaining input -/
theorem spanState_value (typ : Nat) (p : Rune → Bool) (f : Nat) (s : Scanner) (hw : s.WF)
    (hp : s.pos ≤ s.content.length) (hf : s.content.length + 1 ≤ f + s.pos) :
    (spanState typ p f s).1.value = (s.content.drop s.pos).takeWhile p := by
  have h0 := LoopInv.first s hw hp
  have hpos : (s.read).2.pos = s.pos + 1 := read_snd_pos s hp
  have := readWhile_acc p f [] _ _ h0 (by rw [hpos]; omega)
  simpa [spanState] using this

theorem spanState_typ (typ : Nat) (p : Rune → Bool) (f : Nat) (s : Scanner) :
    (spanState typ p f s).1.typ = typ := rfl

/-! ### `rawNext` through a dispatched state -/

/-- when the dispatched state returns a non-empty value, `rawNext` returns that token -/
theorem rawNext_of_state (cfg : Cfg) (c : Rune) (s : Scanner) (sid : StateId)
    (hd : cfg.dispatch.lookup c = some sid)
    (hne : (runState cfg sid (s.content.length + 2) s).1.value ≠ []) :
    (rawNext cfg c s).1.tok = (runState cfg sid (s.content.length + 2) s).1 ∧
    (rawNext cfg c s).1.quote = (if sid = .quote then some c else none) ∧
    (rawNext cfg c s).2 = (runState cfg sid (s.content.length + 2) s).2 := by
  have he : (runState cfg sid (s.content.length + 2) s).1.value.isEmpty = false := by
    cases h : (runState cfg sid (s.content.length + 2) s).1.value with
    | nil => exact absurd h hne
    | cons a t => rfl
  unfold rawNext
  simp only [hd, he, Bool.false_eq_true, if_false]
  refine ⟨trivial, ?_, trivial⟩
  cases sid <;> simp

/-- **glue**: once the raw token is known to be `lex` (a prefix of the remaining input), the
segmentation contract places the scanner right after `lex`: same content, well formed, the
number of consumed characters is `pos + lex.length`, and the remaining input is `rest`. -/
theorem rawNext_after (cfg : Cfg) (hc : RawContract cfg) (s : Scanner) (hw : s.WF) (ch : Rune)
    (hpk : s.peek = some ch) (lex rest : List Rune) (hin : s.content.drop s.pos = lex ++ rest)
    (hv : (rawNext cfg ch s).1.tok.value = lex) :
    (rawNext cfg ch s).2.WF ∧ (rawNext cfg ch s).2.content = s.content ∧
    min (rawNext cfg ch s).2.pos s.content.length = s.pos + lex.length ∧
    (rawNext cfg ch s).2.content.drop (rawNext cfg ch s).2.pos = rest := by
  have hr := hc s ch hw hpk
  have hlt := (peek_some_lt hpk).1
  have hseg := hr.seg
  rw [hv] at hseg
  have hlen := congrArg List.length hseg
  rw [slice_length] at hlen
  have hprog := hr.progress
  have hwf := hr.wf.1
  rw [hr.content] at hwf
  have hlen2 := congrArg List.length hin
  rw [List.length_drop, List.length_append] at hlen2
  have hmin : min (rawNext cfg ch s).2.pos s.content.length = s.pos + lex.length := by omega
  refine ⟨hr.wf, hr.content, hmin, ?_⟩
  rw [hr.content]
  by_cases hle : (rawNext cfg ch s).2.pos ≤ s.content.length
  · have e : (rawNext cfg ch s).2.pos = s.pos + lex.length := by omega
    rw [e, ← List.drop_drop, hin, List.drop_left]
  · have hr0 : rest.length = 0 := by omega
    rw [List.drop_eq_nil_of_le (by omega)]
    exact (List.length_eq_zero_iff.mp hr0).symm

end Verif
