/-
Model of variants/Variant.go (as values), TypeUnsafeVariantOperations.go,
TypeSafeVariantOperations.go and AbstractVariantOperations.go, after the `fix:` repairs
(D14 zero divisor, D15 power, D16 negative shift, D17 index range, D18 long→time span,
D19 type-safe Object source, D28 exact decimal integers).

* `Integer` (Go `int`, 64-bit on the supported platform) and `Long` are `Int64` with wrap-around.
* `Float`/`Double` are Lean's `Float32`/`Float` (IEEE binary32/binary64; the kernel treats their
  arithmetic as opaque, so theorems say "the result is the host operation applied to …").
  Their *comparisons* (`== != < > <= >=`, `!= 0`) are the bit-level IEEE comparisons of
  `Verif/Model/FloatCmp.lean` on `toBits`, which the kernel evaluates and whose order laws are proved.
* Host functions that are not modelled (float formatting/parsing, date/duration parsing and
  formatting, `math.Pow`) are returned symbolically as `V.host tag args` and resolved by the
  harness with Go's own functions.
-/
import Verif.Model.Scanner
import Verif.Model.FloatCmp

namespace Verif

/-- variants/VariantType.go -/
inductive VT where
  | null | integer | long | float | double | string | boolean | dateTime | timeSpan | object | array
  deriving Repr, DecidableEq

def VT.toNat : VT → Nat
  | .null => 0 | .integer => 1 | .long => 2 | .float => 3 | .double => 4 | .string => 5
  | .boolean => 6 | .dateTime => 7 | .timeSpan => 8 | .object => 9 | .array => 10

def VT.all : List VT :=
  [.null, .integer, .long, .float, .double, .string, .boolean, .dateTime, .timeSpan, .object, .array]

def VT.ofCode (n : Nat) : VT := (VT.all.find? (fun t => t.toNat == n)).getD .null

inductive V where
  | null
  | int (v : Int64)
  | long (v : Int64)
  | float (v : Float32)
  | double (v : Float)
  | str (v : List Rune)
  | bool (v : Bool)
  /-- instant: Unix seconds and nanoseconds within the second -/
  | dateTime (sec : Int) (nsec : Nat)
  /-- duration in nanoseconds -/
  | timeSpan (ns : Int64)
  | object (id : Nat)
  | array (elems : List V)
  /-- result of an un-modelled host function applied to arguments (resolved by the harness) -/
  | host (tag : String) (args : List V)

def V.typ : V → VT
  | .null => .null | .int _ => .integer | .long _ => .long | .float _ => .float
  | .double _ => .double | .str _ => .string | .bool _ => .boolean | .dateTime _ _ => .dateTime
  | .timeSpan _ => .timeSpan | .object _ => .object | .array _ => .array
  | .host _ _ => .object

/-- result of an operation: value, error code, or a Go panic (none remain after the repairs;
kept so that "never panics" is a theorem and not a convention) -/
inductive R where
  | ok (v : V)
  | err (code : String)
  | panic (site : String)

def R.bind (r : R) (f : V → R) : R :=
  match r with
  | .ok v => f v
  | .err c => .err c
  | .panic s => .panic s

/-! ### host-level helpers -/

def showNat (n : Nat) : List Rune := (toString n).toList.map Char.toNat
def showInt (i : Int) : List Rune := (toString i).toList.map Char.toNat

def minI64 : Int64 := Int64.minValue

/-- Go (amd64) `int64(x)` for a float64: truncation, "integer indefinite" on NaN / overflow.
The range test is bit-level: `0x43e0000000000000` is 2^63, `0xc3e0000000000000` is -2^63. -/
def f64ToI64 (x : Float) : Int64 :=
  if fIsNaN x || f64Le 0x43e0000000000000 x.toBits || f64Lt x.toBits 0xc3e0000000000000
  then minI64 else x.toInt64

def i64ToF64 (i : Int64) : Float := Float.ofInt i.toInt
def i64ToF32 (i : Int64) : Float32 := Float32.ofInt i.toInt

/-- Go `x << n` / `x >> n` for a non-negative count -/
def shl64 (x : Int64) (n : Int64) : Int64 := if n.toInt ≥ 64 then 0 else x <<< n
def shr64 (x : Int64) (n : Int64) : Int64 :=
  if n.toInt ≥ 64 then (if x.toInt < 0 then -1 else 0) else x >>> n

/-- exact decimal integer literal `[+-]?[0-9]+` (what `strconv.ParseInt(s, 10, 64)` accepts) -/
def parseDecDigits : List Rune → Option Nat
  | [] => none
  | cs => if cs.all (fun c => 48 ≤ c && c ≤ 57) then some (cs.foldl (fun a c => a * 10 + (c - 48)) 0) else none

def parseDecInt (s : List Rune) : Option Int64 :=
  let (neg, ds) : Bool × List Rune :=
    match s with
    | 45 :: r => (true, r)
    | 43 :: r => (false, r)
    | r => (false, r)
  match parseDecDigits ds with
  | none => none
  | some n =>
    let i : Int := if neg then -(n : Int) else (n : Int)
    if -9223372036854775808 ≤ i ∧ i ≤ 9223372036854775807 then some (Int64.ofInt i) else none

def lowerAscii (c : Rune) : Rune := if 65 ≤ c && c ≤ 90 then c + 32 else c
def strOfS (s : String) : List Rune := s.toList.map Char.toNat

/-- commons `BooleanConverter.ToBoolean` on a string (default false) -/
def strToBool (s : List Rune) : Bool :=
  let v := s.map lowerAscii
  [strOfS "1", strOfS "true", strOfS "t", strOfS "yes", strOfS "y"].contains v

/-- lexicographic order on rune lists (= Go's byte-wise order on valid UTF-8) -/
def strLt : List Rune → List Rune → Bool
  | [], [] => false
  | [], _ :: _ => true
  | _ :: _, [] => false
  | a :: as, b :: bs => if a < b then true else if a > b then false else strLt as bs

def zeroTimeSec : Int := -62135596800

/-- `time.Unix(sec, 0)`: Go stores `sec + 62135596800` in an int64 (seconds since year 1), which wraps for
the last 62135596800 values below 2^63; the model keeps the mathematical value "stored seconds minus the
offset", so ordering and `Unix()` (which wraps back) are exact. -/
def unixSec (i : Int64) : Int := (Int64.ofInt (i.toInt + 62135596800)).toInt - 62135596800

def clampI64 (i : Int) : Int64 :=
  if i > 9223372036854775807 then Int64.maxValue
  else if i < -9223372036854775808 then Int64.minValue else Int64.ofInt i

/-- `time.Duration.Milliseconds()` -/
def nsToMs (ns : Int64) : Int64 := ns / 1000000

/-! ### `StringConverter.ToString(value.AsObject())`: `none` = host-dependent text -/
mutual
def vToStr : V → Option (List Rune)
  | .null => some []
  | .int v => some (showInt v.toInt)
  | .long v => some (showInt v.toInt)
  | .float _ => none
  | .double _ => none
  | .str s => some s
  | .bool b => some (strOfS (if b then "true" else "false"))
  | .dateTime _ _ => none
  | .timeSpan ns => some (showInt (nsToMs ns).toInt)
  | .object _ => none
  | .array es => vsToStr es true
  | .host _ _ => none
/-- elements are printed with `Variant.String()` ("null" for Null) and joined by commas -/
def vsToStr : List V → Bool → Option (List Rune)
  | [], _ => some []
  | e :: es, first =>
    let one : Option (List Rune) := match e with
      | .null => some (strOfS "null")
      | e => vToStr e
    match one, vsToStr es false with
    | some a, some b => some ((if first then [] else [44]) ++ a ++ b)
    | _, _ => none
end

def convErr : R := .err "CONV_NOT_SUPPORTED"

/-- TypeUnsafeVariantOperations.Convert -/
def convertUnsafe (v : V) (t : VT) : R :=
  if t == .null then .ok .null
  else if t == v.typ || t == .object then .ok v
  else if t == .string then
    match vToStr v with
    | some s => .ok (.str s)
    | none => .ok (.host "toString" [v])
  else
    match v, t with
    | .null, .integer => .ok (.int 0)
    | .null, .long => .ok (.long 0)
    | .null, .float => .ok (.float 0)
    | .null, .double => .ok (.double 0)
    | .null, .boolean => .ok (.bool false)
    | .null, .dateTime => .ok (.dateTime zeroTimeSec 0)
    | .null, .timeSpan => .ok (.timeSpan 0)
    | .null, .array => .ok (.array [])
    | .int i, .long => .ok (.long i)
    | .int i, .float => .ok (.float (i64ToF32 i))
    | .int i, .double => .ok (.double (i64ToF64 i))
    | .int i, .dateTime => .ok (.dateTime (unixSec i) 0)
    | .int i, .timeSpan => .ok (.timeSpan (i * 1000000))
    | .int i, .boolean => .ok (.bool (i != 0))
    | .long i, .integer => .ok (.int i)
    | .long i, .float => .ok (.float (i64ToF32 i))
    | .long i, .double => .ok (.double (i64ToF64 i))
    | .long i, .dateTime => .ok (.dateTime (unixSec i) 0)
    | .long i, .timeSpan => .ok (.timeSpan (i * 1000000))
    | .long i, .boolean => .ok (.bool (i != 0))
    | .float f, .integer => .ok (.int (f64ToI64 f.toFloat))
    | .float f, .long => .ok (.long (f64ToI64 f.toFloat))
    | .float f, .double => .ok (.double f.toFloat)
    | .float f, .boolean => .ok (.bool (fNonZero32 f))
    | .double d, .integer => .ok (.int (f64ToI64 d))
    | .double d, .long => .ok (.long (f64ToI64 d))
    | .double d, .float => .ok (.float d.toFloat32)
    | .double d, .boolean => .ok (.bool (fNonZero d))
    | .dateTime s _, .integer => .ok (.int (Int64.ofInt s))
    | .dateTime s _, .long => .ok (.long (Int64.ofInt s))
    | .timeSpan ns, .integer => .ok (.int (nsToMs ns))
    | .timeSpan ns, .long => .ok (.long (nsToMs ns))
    | .str s, .integer =>
      match parseDecInt s with
      | some i => .ok (.int i)
      | none => .ok (.host "strToInteger" [v])
    | .str s, .long =>
      match parseDecInt s with
      | some i => .ok (.long i)
      | none => .ok (.host "strToLong" [v])
    | .str _, .float => .ok (.host "strToFloat" [v])
    | .str _, .double => .ok (.host "strToDouble" [v])
    | .str _, .dateTime => .ok (.host "strToDateTime" [v])
    | .str _, .timeSpan => .ok (.host "strToTimeSpan" [v])
    | .str s, .boolean => .ok (.bool (strToBool s))
    | .bool b, .integer => .ok (.int (if b then 1 else 0))
    | .bool b, .long => .ok (.long (if b then 1 else 0))
    | .bool b, .float => .ok (.float (if b then 1 else 0))
    | .bool b, .double => .ok (.double (if b then 1 else 0))
    | _, _ => convErr

/-- TypeSafeVariantOperations.Convert -/
def convertSafe (v : V) (t : VT) : R :=
  if t == .null then .ok .null
  else if t == v.typ || t == .object then .ok v
  else
    match v, t with
    | .int i, .long => .ok (.long i)
    | .int i, .float => .ok (.float (i64ToF32 i))
    | .int i, .double => .ok (.double (i64ToF64 i))
    | .long i, .float => .ok (.float (i64ToF32 i))
    | .long i, .double => .ok (.double (i64ToF64 i))
    | .float f, .double => .ok (.double f.toFloat)
    | _, _ => convErr

inductive Mgr where
  | unsafe_ | safe
  deriving Repr, DecidableEq

def isHostV (v : V) : Bool := match v with | .host _ _ => true | _ => false

/-- the manager's Convert; a host-dependent value stays host-dependent -/
def convert (m : Mgr) (v : V) (t : VT) : R :=
  if isHostV v then .ok (.host "convert" [v])
  else match m with
  | .unsafe_ => convertUnsafe v t
  | .safe => convertSafe v t

/-! ### the operators of AbstractVariantOperations -/

inductive Op where
  | add | sub | mul | div | mod | pow | and | or | xor | lsh | rsh | not | neg
  | equal | notEqual | more | less | moreEqual | lessEqual | in_ | getElement
  deriving Repr, DecidableEq

def opErr : R := .err "OP_NOT_SUPPORTED"

/-- `date1.Sub(date2)` (saturating) -/
def dtSub (s1 : Int) (n1 : Nat) (s2 : Int) (n2 : Nat) : Int64 :=
  clampI64 ((s1 - s2) * 1000000000 + ((n1 : Int) - (n2 : Int)))

def dtLt (s1 : Int) (n1 : Nat) (s2 : Int) (n2 : Nat) : Bool := s1 < s2 || (s1 == s2 && n1 < n2)
def dtEq (s1 : Int) (n1 : Nat) (s2 : Int) (n2 : Nat) : Bool := s1 == s2 && n1 == n2

/-- the type switch of a binary operator once the second operand has the first one's type -/
def arithCore (op : Op) (a b : V) : R :=
  match op, a, b with
  | .add, .int x, .int y => .ok (.int (x + y))
  | .add, .long x, .long y => .ok (.long (x + y))
  | .add, .float x, .float y => .ok (.float (x + y))
  | .add, .double x, .double y => .ok (.double (x + y))
  | .add, .timeSpan x, .timeSpan y => .ok (.timeSpan (x + y))
  | .add, .str x, .str y => .ok (.str (x ++ y))
  | .sub, .int x, .int y => .ok (.int (x - y))
  | .sub, .long x, .long y => .ok (.long (x - y))
  | .sub, .float x, .float y => .ok (.float (x - y))
  | .sub, .double x, .double y => .ok (.double (x - y))
  | .sub, .timeSpan x, .timeSpan y => .ok (.timeSpan (x - y))
  | .sub, .dateTime s1 n1, .dateTime s2 n2 => .ok (.timeSpan (dtSub s1 n1 s2 n2))
  | .mul, .int x, .int y => .ok (.int (x * y))
  | .mul, .long x, .long y => .ok (.long (x * y))
  | .mul, .float x, .float y => .ok (.float (x * y))
  | .mul, .double x, .double y => .ok (.double (x * y))
  | .div, .int x, .int y => if y == 0 then .err "DIV_BY_ZERO" else .ok (.int (x / y))
  | .div, .long x, .long y => if y == 0 then .err "DIV_BY_ZERO" else .ok (.long (x / y))
  | .div, .float x, .float y => .ok (.float (x / y))
  | .div, .double x, .double y => .ok (.double (x / y))
  | .mod, .int x, .int y => if y == 0 then .err "DIV_BY_ZERO" else .ok (.int (x % y))
  | .mod, .long x, .long y => if y == 0 then .err "DIV_BY_ZERO" else .ok (.long (x % y))
  | .and, .int x, .int y => .ok (.int (x &&& y))
  | .and, .long x, .long y => .ok (.long (x &&& y))
  | .and, .bool x, .bool y => .ok (.bool (x && y))
  | .or, .int x, .int y => .ok (.int (x ||| y))
  | .or, .long x, .long y => .ok (.long (x ||| y))
  | .or, .bool x, .bool y => .ok (.bool (x || y))
  | .xor, .int x, .int y => .ok (.int (x ^^^ y))
  | .xor, .long x, .long y => .ok (.long (x ^^^ y))
  | .xor, .bool x, .bool y => .ok (.bool ((x && !y) || (!x && y)))
  | .equal, .int x, .int y => .ok (.bool (x == y))
  | .equal, .long x, .long y => .ok (.bool (x == y))
  | .equal, .float x, .float y => .ok (.bool (fEq32 x y))
  | .equal, .double x, .double y => .ok (.bool (fEq x y))
  | .equal, .str x, .str y => .ok (.bool (x == y))
  | .equal, .bool x, .bool y => .ok (.bool (x == y))
  | .equal, .timeSpan x, .timeSpan y => .ok (.bool (x == y))
  | .equal, .dateTime s1 n1, .dateTime s2 n2 => .ok (.bool (dtEq s1 n1 s2 n2))
  | .equal, .object x, .object y => .ok (.bool (x == y))
  | .notEqual, .int x, .int y => .ok (.bool (x != y))
  | .notEqual, .long x, .long y => .ok (.bool (x != y))
  | .notEqual, .float x, .float y => .ok (.bool (!fEq32 x y))
  | .notEqual, .double x, .double y => .ok (.bool (!fEq x y))
  | .notEqual, .str x, .str y => .ok (.bool (x != y))
  | .notEqual, .bool x, .bool y => .ok (.bool (x != y))
  | .notEqual, .timeSpan x, .timeSpan y => .ok (.bool (x != y))
  | .notEqual, .dateTime s1 n1, .dateTime s2 n2 => .ok (.bool (!dtEq s1 n1 s2 n2))
  | .notEqual, .object x, .object y => .ok (.bool (x != y))
  | .more, .int x, .int y => .ok (.bool (x > y))
  | .more, .long x, .long y => .ok (.bool (x > y))
  | .more, .float x, .float y => .ok (.bool (fLt32 y x))
  | .more, .double x, .double y => .ok (.bool (fLt y x))
  | .more, .str x, .str y => .ok (.bool (strLt y x))
  | .more, .timeSpan x, .timeSpan y => .ok (.bool (x > y))
  | .more, .dateTime s1 n1, .dateTime s2 n2 => .ok (.bool (dtLt s2 n2 s1 n1))
  | .less, .int x, .int y => .ok (.bool (x < y))
  | .less, .long x, .long y => .ok (.bool (x < y))
  | .less, .float x, .float y => .ok (.bool (fLt32 x y))
  | .less, .double x, .double y => .ok (.bool (fLt x y))
  | .less, .str x, .str y => .ok (.bool (strLt x y))
  | .less, .timeSpan x, .timeSpan y => .ok (.bool (x < y))
  | .less, .dateTime s1 n1, .dateTime s2 n2 => .ok (.bool (dtLt s1 n1 s2 n2))
  | .moreEqual, .int x, .int y => .ok (.bool (x ≥ y))
  | .moreEqual, .long x, .long y => .ok (.bool (x ≥ y))
  | .moreEqual, .float x, .float y => .ok (.bool (fLe32 y x))
  | .moreEqual, .double x, .double y => .ok (.bool (fLe y x))
  | .moreEqual, .str x, .str y => .ok (.bool (!strLt x y))
  | .moreEqual, .timeSpan x, .timeSpan y => .ok (.bool (x ≥ y))
  | .moreEqual, .dateTime s1 n1, .dateTime s2 n2 => .ok (.bool (dtLt s2 n2 s1 n1 || dtEq s1 n1 s2 n2))
  | .lessEqual, .int x, .int y => .ok (.bool (x ≤ y))
  | .lessEqual, .long x, .long y => .ok (.bool (x ≤ y))
  | .lessEqual, .float x, .float y => .ok (.bool (fLe32 x y))
  | .lessEqual, .double x, .double y => .ok (.bool (fLe x y))
  | .lessEqual, .str x, .str y => .ok (.bool (!strLt y x))
  | .lessEqual, .timeSpan x, .timeSpan y => .ok (.bool (x ≤ y))
  | .lessEqual, .dateTime s1 n1, .dateTime s2 n2 => .ok (.bool (dtLt s1 n1 s2 n2 || dtEq s1 n1 s2 n2))
  | _, _, _ => opErr

/-- `arithCore`, except that an un-modelled (host) second operand makes the result host-dependent -/
def arith (op : Op) (a b : V) : R :=
  match b with
  | .host _ _ => .ok (.host "arith" [a, b])
  | _ => arithCore op a b

/-- operators whose second operand is converted to the first operand's type -/
def sameTypeOps : List Op :=
  [.add, .sub, .mul, .div, .mod, .and, .or, .xor, .equal, .notEqual, .more, .less, .moreEqual, .lessEqual]

def isNumeric (v : V) : Bool :=
  match v with
  | .int _ => true | .long _ => true | .float _ => true | .double _ => true | _ => false

def toDoubleOf (r : R) : Option Float :=
  match r with
  | .ok (.double d) => some d
  | _ => none

/-- `Equal(a, b)` (needed by `In`) -/
def equalOp (m : Mgr) (a b : V) : R :=
  if a.typ == .null && b.typ == .null then .ok (.bool true)
  else if a.typ == .null || b.typ == .null then .ok (.bool false)
  else (convert m b a.typ).bind fun b' => arith .equal a b'

/-- `In(container, element)` over the elements of an array -/
def inLoop (m : Mgr) (elem : V) : List V → R
  | [] => .ok (.bool false)
  | e :: es =>
    match equalOp m elem e with
    | .ok (.bool true) => .ok (.bool true)
    | .ok (.host t a) => .ok (.host "in" [.host t a])   -- membership depends on a host conversion
    | .ok _ => inLoop m elem es
    | .err c => .err c
    | .panic s => .panic s

/-- a binary operator of IVariantOperations: `op(value1, value2)` -/
def binopCore (m : Mgr) (op : Op) (a b : V) : R :=
  match op with
  | .equal =>
    equalOp m a b
  | .notEqual =>
    if a.typ == .null && b.typ == .null then .ok (.bool false)
    else if a.typ == .null || b.typ == .null then .ok (.bool true)
    else (convert m b a.typ).bind fun b' => arith .notEqual a b'
  | .pow =>
    if a.typ == .null || b.typ == .null then .ok .null
    else if isNumeric a then
      (convert m a .double).bind fun a' => (convert m b .double).bind fun b' =>
        match a', b' with
        | .double _, .double _ => .ok (.host "pow" [a', b'])
        | _, _ => .ok (.host "pow" [a', b'])
    else opErr
  | .lsh =>
    if a.typ == .null || b.typ == .null then .ok .null
    else (convert m b .integer).bind fun b' =>
      match b' with
      | .int n =>
        if n < 0 then .err "NEGATIVE_SHIFT"
        else (match a with
          | .int x => .ok (.int (shl64 x n))
          | .long x => .ok (.long (shl64 x n))
          | _ => opErr)
      | _ => .ok (.host "shift-count" [b'])
  | .rsh =>
    if a.typ == .null || b.typ == .null then .ok .null
    else (convert m b .integer).bind fun b' =>
      match b' with
      | .int n =>
        if n < 0 then .err "NEGATIVE_SHIFT"
        else (match a with
          | .int x => .ok (.int (shr64 x n))
          | .long x => .ok (.long (shr64 x n))
          | _ => opErr)
      | _ => .ok (.host "shift-count" [b'])
  | .in_ =>
    -- In(value1 = container, value2 = element)
    if a.typ == .null || b.typ == .null then .ok .null
    else match a with
      | .array es => inLoop m b es
      | _ => equalOp m a b
  | .getElement =>
    if a.typ == .null || b.typ == .null then .ok .null
    else (convert m b .integer).bind fun b' =>
      match b' with
      | .int i =>
        (match a with
         | .array es =>
           if i < 0 || i.toInt ≥ es.length then .err "INDEX_OUT_OF_RANGE"
           else .ok (es.getD i.toInt.toNat .null)
         | .str s =>
           if i < 0 || i.toInt ≥ s.length then .err "INDEX_OUT_OF_RANGE"
           else .ok (.str [s.getD i.toInt.toNat 0])
         | _ => opErr)
      | _ => .ok (.host "index" [b'])
  | .not => opErr
  | .neg => opErr
  | op =>
    if a.typ == .null || b.typ == .null then .ok .null
    else (convert m b a.typ).bind fun b' => arith op a b'

/-- `binopCore`, except that host-dependent operands give a host-dependent result -/
def binop (m : Mgr) (op : Op) (a b : V) : R :=
  if isHostV a || isHostV b then .ok (.host "op" [a, b]) else binopCore m op a b

/-- Not / Negative -/
def unop (op : Op) (a : V) : R :=
  match op, a with
  | _, .host t x => .ok (.host "unop" [.host t x])
  | .not, .null => .ok (.bool true)
  | .not, .int x => .ok (.int (~~~ x))
  | .not, .long x => .ok (.long (~~~ x))
  | .not, .bool x => .ok (.bool (!x))
  | .neg, .null => .ok .null
  | .neg, .int x => .ok (.int (-x))
  | .neg, .long x => .ok (.long (-x))
  | .neg, .float x => .ok (.float (-x))
  | .neg, .double x => .ok (.double (-x))
  | _, _ => opErr

end Verif
