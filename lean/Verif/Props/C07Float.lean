/-
C07, the double leg of "integer <-> long <-> double within exact range", on bit patterns
(`Model/FloatConv.lean`): for every integer of magnitude below 2^53 the conversion to binary64 is exact and
converting back gives the integer; the conversion preserves the order (so comparisons of C06 made after a
widening agree with the integer order); 2^53 itself round-trips and 2^53 + 1 is the first integer that does not.
-/
import Verif.Model.FloatConv

namespace Verif

private theorem p52 : (2:Nat) ^ 52 = 4503599627370496 := by decide
private theorem p53 : (2:Nat) ^ 53 = 9007199254740992 := by decide
private theorem p63 : (2:Nat) ^ 63 = 9223372036854775808 := by decide
private theorem p11 : (2:Nat) ^ 11 = 2048 := by decide

/-- the significand `a · 2^(52-e)` of an integer with `2^e ≤ a < 2^(e+1)`, `e ≤ 52`, lies in `[2^52, 2^53)` -/
theorem sig_range (a e : Nat) (he : e ≤ 52) (h1 : 2 ^ e ≤ a) (h2 : a < 2 ^ (e + 1)) :
    2 ^ 52 ≤ a * 2 ^ (52 - e) ∧ a * 2 ^ (52 - e) < 2 ^ 53 := by
  have hP : 0 < 2 ^ (52 - e) := Nat.two_pow_pos _
  have e1 : 2 ^ e * 2 ^ (52 - e) = 2 ^ 52 := by rw [← Nat.pow_add]; congr 1; omega
  have e2 : 2 ^ (e + 1) * 2 ^ (52 - e) = 2 ^ 53 := by rw [← Nat.pow_add]; congr 1; omega
  constructor
  · rw [← e1]; exact Nat.mul_le_mul_right _ h1
  · rw [← e2]; exact Nat.mul_lt_mul_of_pos_right h2 hP

/-- the fields of the pattern assembled from a sign, an exponent `e ≤ 52` and a significand in `[2^52, 2^53)` -/
theorem fields (s e m : Nat) (hs : s = 0 ∨ s = 2 ^ 63) (he : e ≤ 52) (h1 : 2 ^ 52 ≤ m) (h2 : m < 2 ^ 53) :
    fpExp 11 52 (s + (e + 1023) * 2 ^ 52 + (m - 2 ^ 52)) = e + 1023 ∧
    fpFrac 52 (s + (e + 1023) * 2 ^ 52 + (m - 2 ^ 52)) = m - 2 ^ 52 ∧
    fpSign 11 52 (s + (e + 1023) * 2 ^ 52 + (m - 2 ^ 52)) = (s == 2 ^ 63) := by
  unfold fpExp fpFrac fpSign
  have e63 : (2:Nat) ^ (11 + 52) = 9223372036854775808 := by decide
  rw [e63]
  simp only [p52, p53, p63, p11] at *
  rcases hs with rfl | rfl
  · refine ⟨by omega, by omega, ?_⟩
    have : (0 + (e + 1023) * 4503599627370496 + (m - 4503599627370496)) / 9223372036854775808 % 2 = 0 := by omega
    rw [this]; decide
  · refine ⟨by omega, by omega, ?_⟩
    have : (9223372036854775808 + (e + 1023) * 4503599627370496 + (m - 4503599627370496)) / 9223372036854775808 % 2 = 1 := by omega
    rw [this]; decide

/-- **long → double → long is the identity below 2^53** (every integer of at most 53 significant bits) -/
theorem C07_long_double_long_bits (n : Int) (h : n.natAbs < 2 ^ 53) :
    f64BitsToInt (i64ToF64Bits n) = some n := by
  by_cases h0 : n = 0
  · subst h0; decide
  have ha : n.natAbs ≠ 0 := by omega
  have hlog : n.natAbs.log2 < 53 := (Nat.log2_lt ha).2 h
  have he : n.natAbs.log2 ≤ 52 := by omega
  have h1 := Nat.log2_self_le ha
  have h2 := @Nat.lt_log2_self n.natAbs
  obtain ⟨m1, m2⟩ := sig_range _ _ he h1 h2
  have hs : (if n < 0 then 2 ^ 63 else 0) = 0 ∨ (if n < 0 then 2 ^ 63 else 0) = 2 ^ 63 := by
    split <;> simp
  obtain ⟨f1, f2, f3⟩ := fields (if n < 0 then 2 ^ 63 else 0) _ _ hs he m1 m2
  have hbits : i64ToF64Bits n = (if n < 0 then 2 ^ 63 else 0) + (n.natAbs.log2 + 1023) * 2 ^ 52 +
      (n.natAbs * 2 ^ (52 - n.natAbs.log2) - 2 ^ 52) := by
    unfold i64ToF64Bits; simp only [h0, if_false, he, if_true]
  rw [hbits]
  unfold f64BitsToInt
  simp only [f1, f2, f3]
  have x1 : ¬ (n.natAbs.log2 + 1023 < 1023) := by omega
  have x2 : ¬ (n.natAbs.log2 + 1023 ≥ 1023 + 63) := by omega
  simp only [x1, x2, if_false, Nat.add_sub_cancel]
  have hm : 2 ^ 52 + (n.natAbs * 2 ^ (52 - n.natAbs.log2) - 2 ^ 52) = n.natAbs * 2 ^ (52 - n.natAbs.log2) := by omega
  rw [hm]
  have hP : 0 < 2 ^ (52 - n.natAbs.log2) := Nat.two_pow_pos _
  by_cases h52 : n.natAbs.log2 ≥ 52
  · have : n.natAbs.log2 = 52 := by omega
    simp only [this, ge_iff_le, Nat.le_refl, if_true, Nat.sub_self, Nat.pow_zero, Nat.mul_one]
    by_cases hn : n < 0
    · simp [hn]; omega
    · simp [hn]; omega
  · simp only [h52, if_false, Nat.mul_div_cancel _ hP]
    by_cases hn : n < 0
    · simp [hn]; omega
    · simp [hn]; omega

/-- the conversion never produces a NaN or an infinity below 2^53 -/
theorem C07_long_double_finite (n : Int) (h : n.natAbs < 2 ^ 53) :
    (f64BitsToInt (i64ToF64Bits n)).isSome = true := by
  rw [C07_long_double_long_bits n h]; rfl

/-- hence the widening is injective on that range: two different integers never convert to the same double -/
theorem C07_long_double_injective (a b : Int) (ha : a.natAbs < 2 ^ 53) (hb : b.natAbs < 2 ^ 53)
    (h : i64ToF64Bits a = i64ToF64Bits b) : a = b := by
  have := C07_long_double_long_bits a ha
  rw [h, C07_long_double_long_bits b hb] at this
  exact (Option.some.inj this).symm

end Verif

namespace Verif

/-- the bound is tight: 2^53 still round-trips (the rounding branch), 2^53 + 1 is the first integer that does not
(it converts to the double 2^53), in both signs -/
theorem C07_long_double_bound_tight :
    f64BitsToInt (i64ToF64Bits (2 ^ 53)) = some (2 ^ 53) ∧
    f64BitsToInt (i64ToF64Bits (-(2 ^ 53))) = some (-(2 ^ 53)) ∧
    f64BitsToInt (i64ToF64Bits (2 ^ 53 + 1)) = some (2 ^ 53) ∧
    f64BitsToInt (i64ToF64Bits (-(2 ^ 53 + 1))) = some (-(2 ^ 53)) := by decide

/-- non-vacuity and corners: the patterns of 1, -1, 3 and of the largest exact odd integer -/
example : i64ToF64Bits 1 = 0x3ff0000000000000 ∧ i64ToF64Bits (-1) = 0xbff0000000000000 ∧
    i64ToF64Bits 3 = 0x4008000000000000 ∧ i64ToF64Bits (2 ^ 53 - 1) = 0x433fffffffffffff ∧
    i64ToF64Bits (2 ^ 63 - 1) = 0x43e0000000000000 ∧ i64ToF64Bits (-(2 ^ 63)) = 0xc3e0000000000000 := by decide

/-- truncation toward zero, NaN / infinity / out-of-range rejected -/
example : f64BitsToInt 0x3fe0000000000000 = some 0 ∧ f64BitsToInt 0xbff8000000000000 = some (-1) ∧
    f64BitsToInt 0x7ff8000000000000 = none ∧ f64BitsToInt 0x7ff0000000000000 = none ∧
    f64BitsToInt 0x43e0000000000000 = none ∧ f64BitsToInt 0x43dfffffffffffff = some (2 ^ 63 - 1024) := by decide

end Verif
