/-
SPEC side of C04 / C12 / C15: the option-free segmentation of the input (`rawSpec`), the
forward-scan position of an offset (`posOf`), what the seven options do to ONE raw token
(`processSpec`), the one-pass post-processing of the raw list (`postSpec`) and the resulting
token stream (`streamSpec`).  Nothing here mentions the tokenizer's mutable state, fuel-bounded
retry loop or per-token position stamps.
-/
import Verif.Model.Tokenizer

namespace Verif

/-- one token of the option-free segmentation: type, text, start offset, and the quote character when it was read by the quote state -/
structure RawTok where
  typ : Nat
  value : List Rune
  start : Nat
  quote : Option Rune

def rawSpec (cfg : Cfg) : Nat → Scanner → List RawTok
  | 0, _ => []
  | f+1, s =>
    match s.peek with
    | none => []
    | some c => ⟨(rawNext cfg c s).1.tok.typ, (rawNext cfg c s).1.tok.value, s.pos, (rawNext cfg c s).1.quote⟩ :: rawSpec cfg f (rawNext cfg c s).2

/-- line/column of the character at offset `start` in a forward scan -/
def posOf (c : List Rune) (start : Nat) : Nat × Nat := lcUpTo c (start + 1)

/-- what the seven options do to one raw token (`none` = dropped) -/
def processSpec (cfg : Cfg) (o : Opts) (c : List Rune) (last : Nat) (r : RawTok) : Option Tok :=
  if r.typ == TT.unknown && o.skipUnknown then none
  else
    let v1 : List Rune := match r.quote with
      | some q => if o.decodeStrings then decodeFor cfg q r.value else r.value
      | none => r.value
    if r.typ == TT.comment && o.skipComments then none
    else if r.typ == TT.whitespace && last == TT.whitespace && o.skipWhitespaces then none
    else
      some { typ := if o.unifyNumbers && isNumTyp r.typ then TT.number else r.typ
             value := if r.typ == TT.whitespace && o.mergeWhitespaces then [32] else v1
             line := (posOf c r.start).1, col := (posOf c r.start).2 }

def postSpec (cfg : Cfg) (o : Opts) (c : List Rune) : Nat → List RawTok → List Tok
  | _, [] => []
  | last, r :: rest =>
    match processSpec cfg o c last r with
    | none => postSpec cfg o c last rest
    | some t => t :: postSpec cfg o c t.typ rest

def eofTok (c : List Rune) : Tok :=
  { typ := TT.eof, value := [], line := (lcUpTo c c.length).1, col := (lcUpTo c c.length).2 + 1 }

def streamSpec (cfg : Cfg) (o : Opts) (c : List Rune) : List Tok :=
  postSpec cfg o c TT.unknown (rawSpec cfg (c.length + 2) (Scanner.new c))
    ++ (if o.skipEof then [] else [eofTok c])

end Verif
