/-
SPEC side of C04 / C12 / C15 for the MUSTACHE tokenizer: the mode-alternating, option-free
segmentation of a template (`mRawSpec`) and the token stream the seven options make of it
(`mStreamSpec`).

* TEXT mode (the tokenizer starts in it): ONE token of type Special holding the text up to, but
  excluding, the next `{{` (or up to the end of the input); nothing when that text is empty.
  Then TAG mode.
* TAG mode: the ordinary option-free tokens of `mustacheCfg` (`rawNext`, the same single step
  `rawSpec` of Spec/Stream.lean iterates), one after the other, until a Symbol token whose text
  is `}}` or `}}}` has been produced; then TEXT mode again.
* The input ends the segmentation in either mode.

The options are applied by the SAME one-pass `postSpec` / `processSpec` as for the other three
tokenizers.  Two facts (proved in Lemmas/MustacheTokLemmas.lean) make this the model's behaviour:
`processSpec` is the identity on a Special token (`processSpec_special`: the text token of the
model does not go through the option processing at all) and it never drops or rewrites a closing
Symbol (`processSpec_close`), so the mode switch — which the model performs on the token
RETURNED by the option-processing main loop — can be described on the raw stream.  The model does
not record the text token in its LastTokenType whereas `postSpec` does record `Special`; the only
reader of that field is the skipWhitespaces test "previous token was Whitespace", and in the model
the previous token of a text token is a closing Symbol or nothing, so the difference cannot be
observed (this is part of what `tokenize_mustache_eq` proves).

Nothing here mentions the tokenizer's mutable state (`special` flag, LastTokenType, cache), the
retry loop of the main loop or per-token position stamps.
-/
import Verif.Spec.Stream

namespace Verif

/-- the scanner standing at offset `p` of `c` (line / column = those of a forward scan) -/
def scanAt (c : List Rune) (p : Nat) : Scanner :=
  { content := c, pos := p, line := (lcUpTo c p).1, col := (lcUpTo c p).2 }

/-- length of the template text at the head of `l`: the runes before the first `{{` -/
def textLen : List Rune → Nat
  | [] => 0
  | a :: rest => if a == 123 && rest.head? == some 123 then 0 else textLen rest + 1

/-- a closing Symbol `}}` / `}}}`: the token that ends TAG mode -/
def RawTok.isCloser (r : RawTok) : Bool := r.typ == TT.symbol && isClose r.value

/-- the segmentation from offset `p` on; `text = true`: TEXT mode.  (`fuel` only makes the
recursion structural: every second step consumes at least one rune, `2 * length + 4` is never
exhausted — `mRawSpecA_fuel` in Lemmas/MustacheTokLemmas.lean.) -/
def mRawSpecA (c : List Rune) : Nat → Bool → Nat → List RawTok
  | 0, _, _ => []
  | f+1, true, p =>
    if textLen (c.drop p) = 0 then mRawSpecA c f false p
    else ⟨TT.special, (c.drop p).take (textLen (c.drop p)), p, none⟩
           :: mRawSpecA c f false (p + textLen (c.drop p))
  | f+1, false, p =>
    match c[p]? with
    | none => []
    | some ch =>
      ⟨(rawNext mustacheCfg ch (scanAt c p)).1.tok.typ, (rawNext mustacheCfg ch (scanAt c p)).1.tok.value,
        p, (rawNext mustacheCfg ch (scanAt c p)).1.quote⟩
        :: mRawSpecA c f
             ((rawNext mustacheCfg ch (scanAt c p)).1.tok.typ == TT.symbol
               && isClose (rawNext mustacheCfg ch (scanAt c p)).1.tok.value)
             (p + (rawNext mustacheCfg ch (scanAt c p)).1.tok.value.length)

/-- the option-free segmentation of a whole template -/
def mRawSpec (c : List Rune) : List RawTok := mRawSpecA c (2 * c.length + 4) true 0

/-- the token stream of the mustache tokenizer -/
def mStreamSpec (o : Opts) (c : List Rune) : List Tok :=
  postSpec mustacheCfg o c TT.unknown (mRawSpec c) ++ (if o.skipEof then [] else [eofTok c])

end Verif
