/-
The evaluator of Model/ExprEval.lean re-expressed over an explicit heap, so that "what an
evaluation writes" becomes expressible (C19).

* `Heap V` : a list of cells; the ONLY mutation is `alloc` (append).  There is no overwrite
  operation: the evaluator (ExpressionCalculator.EvaluateUsingVariablesAndFunctions) never
  assigns through a pointer it did not create itself — every operator / function call builds a
  fresh `*Variant` for its result, constants and variables are pushed by reference.
* a compiled program is a `List (ETok Ref)`: the payload of a Constant token is the reference of
  a pre-allocated cell (both for literal constants and for the argument-count constants the
  parser emits in front of Function tokens);
* a variable table is a `List (List Rune × Ref)` searched with a key comparison `keyEq`
  (VariableCollection.FindByName: first match wins);
* `evalStepH` / `runH` mirror `evalStep` / `run` with a stack of references.  They use the SAME
  `EvalEnv` functions `asArgc`, `hasFn`, `callFn`, `binop`, `unop` on the values read from the
  operand cells; `ofConst`, `ofArgc`, `lookupVar` are NOT used (their results live in the heap).
  The final heap is returned on every path (also on errors and panics).
* the function table is the pair of pure functions `hasFn` / `callFn` of the environment; `runH`
  returns no environment, so it cannot change it.
-/
import Verif.Model.ExprEval

namespace Verif

abbrev Ref := Nat

/-- allocation = append; there is NO overwrite operation -/
structure Heap (V : Type) where
  cells : List V
  deriving Repr, DecidableEq

namespace Heap
variable {V : Type}

def empty : Heap V := ⟨[]⟩

def alloc (h : Heap V) (v : V) : Heap V × Ref := (⟨h.cells ++ [v]⟩, h.cells.length)

def read (h : Heap V) (r : Ref) : Option V := h.cells[r]?

/-- read a list of references; `none` if one of them dangles -/
def readAll (h : Heap V) : List Ref → Option (List V)
  | [] => some []
  | r :: rs =>
    match h.read r, readAll h rs with
    | some v, some vs => some (v :: vs)
    | _, _ => none

end Heap

/-- variable table: names with the references of the cells holding their values -/
abbrev VarTab := List (List Rune × Ref)

/-- VariableCollection.FindByName on the table: first entry whose name matches -/
def VarTab.find (keyEq : List Rune → List Rune → Bool) (tbl : VarTab) (name : List Rune) :
    Option Ref :=
  (List.find? (fun e => keyEq e.1 name) tbl).map (·.2)

variable {κ V : Type}

/-- allocate ONE fresh cell for a computed result and push its reference -/
def pushNew (h : Heap V) (st : List Ref) (o : Out V) : Out (List Ref) × Heap V :=
  match o with
  | .ok v => (.ok ((h.alloc v).2 :: st), (h.alloc v).1)
  | .err c => (.err c, h)
  | .panic s => (.panic s, h)

/-- one token of the heap program against the stack of references -/
def evalStepH (env : EvalEnv κ V) (keyEq : List Rune → List Rune → Bool) (vars : VarTab)
    (t : ETok Ref) (st : List Ref) (h : Heap V) : Out (List Ref) × Heap V :=
  match t.typ with
  | .constant =>
    match t.cst with
    | some r => (.ok (r :: st), h)
    | none => (.panic "constant token without a value", h)
  | .variable =>
    match vars.find keyEq t.name with
    | some r => (.ok (r :: st), h)
    | none => (.err "VAR_NOT_FOUND", h)
  | .function =>
    if !env.hasFn t.name then (.err "FUNC_NOT_FOUND", h)
    else match st with
      | [] => (.panic "Stack is empty.", h)
      | cnt :: st1 =>
        match h.read cnt with
        | none => (.panic "dangling reference", h)
        | some cv =>
          match env.asArgc cv with
          | none => (.panic "argument count is not an integer", h)
          | some n =>
            match popN n st1 [] with
            | none => (.panic "Stack is empty.", h)
            | some (args, st2) =>
              match h.readAll args with
              | none => (.panic "dangling reference", h)
              | some vs => pushNew h st2 (env.callFn t.name vs)
  | ty =>
    if binaryTypes.contains ty then
      match st with
      | r2 :: r1 :: st1 =>
        match h.read r1, h.read r2 with
        | some v1, some v2 => pushNew h st1 (env.binop ty v1 v2)
        | _, _ => (.panic "dangling reference", h)
      | _ => (.panic "Stack is empty.", h)
    else if unaryTypes.contains ty then
      match st with
      | r :: st1 =>
        match h.read r with
        | some v => pushNew h st1 (env.unop ty v)
        | none => (.panic "dangling reference", h)
      | [] => (.panic "Stack is empty.", h)
    else (.err "INTERNAL", h)

/-- the evaluation loop over the heap: result reference (or error) and the final heap -/
def runH (env : EvalEnv κ V) (keyEq : List Rune → List Rune → Bool) (vars : VarTab) :
    List (ETok Ref) → List Ref → Heap V → Out Ref × Heap V
  | [], [r], h => (.ok r, h)
  | [], _, h => (.err "INTERNAL", h)
  | t :: ts, st, h =>
    match evalStepH env keyEq vars t st h with
    | (.ok st', h') => runH env keyEq vars ts st' h'
    | (.err c, h') => (.err c, h')
    | (.panic s, h') => (.panic s, h')

/-- the value an evaluation returned, read back through the final heap -/
def readBack (r : Out Ref × Heap V) : Out V :=
  match r.1 with
  | .ok ref =>
    match r.2.read ref with
    | some v => .ok v
    | none => .panic "dangling reference"
  | .err c => .err c
  | .panic s => .panic s

/-! ### loading a pure program / a variable list into a heap -/

/-- the value a Constant token of the pure program denotes -/
def constVal (env : EvalEnv κ V) (t : ETok κ) : V :=
  match t.cst with
  | some c => env.ofConst c
  | none => env.ofArgc t.argc

def loadTok (env : EvalEnv κ V) (t : ETok κ) (h : Heap V) : ETok Ref × Heap V :=
  if t.typ = .constant then
    (⟨t.typ, t.name, some (h.alloc (constVal env t)).2, t.argc⟩, (h.alloc (constVal env t)).1)
  else (⟨t.typ, t.name, none, t.argc⟩, h)

/-- "parsing": every constant gets its own cell -/
def loadProg (env : EvalEnv κ V) : List (ETok κ) → Heap V → List (ETok Ref) × Heap V
  | [], h => ([], h)
  | t :: ts, h =>
    ((loadTok env t h).1 :: (loadProg env ts (loadTok env t h).2).1,
     (loadProg env ts (loadTok env t h).2).2)

/-- a variable collection: every value gets its own cell -/
def loadVars : List (List Rune × V) → Heap V → VarTab × Heap V
  | [], h => ([], h)
  | e :: es, h =>
    ((e.1, (h.alloc e.2).2) :: (loadVars es (h.alloc e.2).1).1, (loadVars es (h.alloc e.2).1).2)

/-! ### threads as deterministic step machines over a shared immutable part -/

/-- a thread: one deterministic step over the shared part `Sh` (read-only: `step` cannot return
a new `Sh`) and its private state; `none` = finished -/
structure Machine (Sh σ : Type) where
  step : Sh → σ → Option σ

variable {Sh σ : Type}

/-- run alone for at most `n` steps (a finished thread stays where it is) -/
def runSeq (m : Machine Sh σ) (sh : Sh) : Nat → σ → σ
  | 0, s => s
  | n+1, s =>
    match m.step sh s with
    | none => s
    | some s' => runSeq m sh n s'

/-- thread `i` makes one step (nothing happens if `i` is no thread or the thread has finished) -/
def stepAt (ms : List (Machine Sh σ)) (sh : Sh) (i : Nat) (sts : List σ) : List σ :=
  match ms[i]?, sts[i]? with
  | some m, some s =>
    match m.step sh s with
    | some s' => sts.set i s'
    | none => sts
  | _, _ => sts

/-- a schedule picks which thread moves next -/
def runSched (ms : List (Machine Sh σ)) (sh : Sh) : List Nat → List σ → List σ
  | [], sts => sts
  | i :: sched, sts => runSched ms sh sched (stepAt ms sh i sts)

/-! ### the evaluator as such a thread -/

/-- private state of one evaluation: program counter into the shared program, value stack,
result once finished -/
structure EvSt (V : Type) where
  pc : Nat
  stack : List V
  res : Option (Out V)
  deriving Repr, DecidableEq

/-- the end of the evaluation loop: exactly one value must be left on the stack -/
def finalOut (stk : List V) : Out V :=
  match stk with
  | [v] => .ok v
  | _ => .err "INTERNAL"

/-- one evaluation thread: the compiled program is the SHARED part, the environment (its own
variable collection) and the stack are private -/
def evalMachine (env : EvalEnv κ V) : Machine (List (ETok κ)) (EvSt V) where
  step prog s :=
    match s.res with
    | some _ => none
    | none =>
      match prog[s.pc]? with
      | none =>
        some { s with res := some (finalOut s.stack) }
      | some t =>
        match evalStep env t s.stack with
        | .ok st' => some { pc := s.pc + 1, stack := st', res := none }
        | .err c => some { s with res := some (.err c) }
        | .panic p => some { s with res := some (.panic p) }

def EvSt.init : EvSt V := { pc := 0, stack := [], res := none }

end Verif
