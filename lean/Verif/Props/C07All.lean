/-
C07: types and round trips (Props/C07.lean) and the units the statement names (Props/C07Clauses.lean).
-/
import Verif.Props.C07
import Verif.Props.C07Clauses
