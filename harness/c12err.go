package main

import (
	"fmt"
	"regexp"
	"strconv"
	"strings"
	"time"

	"github.com/pip-services3-gox/pip-services3-expressions-gox/calculator"
	ctok "github.com/pip-services3-gox/pip-services3-expressions-gox/calculator/tokenizers"
	"github.com/pip-services3-gox/pip-services3-expressions-gox/mustache"
	mtok "github.com/pip-services3-gox/pip-services3-expressions-gox/mustache/tokenizers"
	"github.com/pip-services3-gox/pip-services3-expressions-gox/tokenizers"
)

// C12, last sentence: positions quoted in syntax-error messages point at a token of the input.  The message of every
// rejected expression / template that quotes a position ("… at line L and column C") is compared with the positions of
// the tokens of that text (all options off): (L, C) must be the position of one of them.

var errPosRe = regexp.MustCompile(`at line (-?\d+) and column (-?\d+)`)

// expect >= 0: the rune offset (within the trimmed text) of the token the error must point at
func runErrPosCase(c *Ctx, what string, text string, expect ...int) {
	op := fmt.Sprintf("errpos %s %s", what, strRunes(text))
	var msg string
	st := safeCallT(5*time.Second, func() string {
		var err error
		if what == "e" {
			err = calculator.NewExpressionCalculator().SetExpression(text)
		} else {
			err = mustache.NewMustacheTemplate().SetTemplate(text)
		}
		if err != nil {
			msg = err.Error()
		}
		return ""
	})
	m := errPosRe.FindStringSubmatch(msg)
	c.record(op, m != nil)
	if st != "" || m == nil {
		c.count("errpos:no-position-quoted")
		return
	}
	c.count("errpos:position-quoted")
	line, _ := strconv.Atoi(m[1])
	col, _ := strconv.Atoi(m[2])
	var t tokenizers.ITokenizer
	if what == "e" {
		t = ctok.NewExpressionTokenizer()
	} else {
		t = mtok.NewMustacheTokenizer()
	}
	setOpts(t, 0)
	var toks []tk
	safeCallT(5*time.Second, func() string { toks = conv(t.TokenizeBuffer(strings.Trim(text, " \t\r\n"))); return "" })
	// the parsers trim the text first: positions are those within the trimmed text
	if len(expect) == 1 && expect[0] >= 0 {
		trimmed := strings.Trim(text, " \t\r\n")
		wl, wc := freshLC(trimmed, expect[0]+1)
		if line != wl || col != wc {
			c.fail(Failure{Kind: "oracle", Op: fmt.Sprintf("%s %d", op, expect[0]), Impl: msg, Note: fmt.Sprintf("the error %q quotes position %d:%d; the offending token - the first one the parser cannot use, at offset %d of %q - starts at %d:%d", msg, line, col, expect[0], trimmed, wl, wc)})
		}
		return
	}
	var where []string
	for _, k := range toks {
		if k.Line == line && k.Col == col {
			return
		}
		where = append(where, fmt.Sprintf("%d:%d", k.Line, k.Col))
	}
	c.fail(Failure{Kind: "oracle", Op: op, Impl: msg, Note: fmt.Sprintf("the error %q quotes position %d:%d, but no token of the text starts there (tokens start at %s)", msg, line, col, strings.Join(where, " "))})
}

func propErrorPositions(c *Ctx) {
	bad := []string{"a +", "(a", "a b", "a ]", "?", "4e38", "-4e38", "99999999999999999999", "a IS", "f(1,", "1 +* 2", "x[1", "NOT", "a IN", "'abc", "1 2", "a + 1e999", "f(1 2)", "a[1 2]", "a NOT b", ")", "1 + ?"}
	pre := []string{"", "   ", "x +\n", "x +\n  ", "x\n+\r\n  y *\n\t", "/* c\n c */ 1 +\n      ", "1 + 2 +\n\n\n ", "\f", "\v ", " \f\v x +", "\f\n"}
	for _, p := range pre {
		for _, b := range bad {
			runErrPosCase(c, "e", p+b)
			runErrPosCase(c, "e", p+b+"\n + 1")
		}
	}
	// the offending token of the canonical malformed expressions: the first token the parser cannot use
	offending := []struct {
		text string
		off  int
	}{{"a b", 2}, {"a ]", 2}, {"a IS", 2}, {"1 +* 2", 3}, {"1 2", 2}, {"f(1 2)", 4}, {"a[1 2]", 4}, {"a NOT b", 2}, {")", 0}, {"a IS b", 2}, {"(1,2)", 2}, {"f(,1)", 2},
		{"a[]", 2}, {"()", 1}, {"a = = b", 4}, {"1 ? 2", 2}, {"4e38", 0}, {"99999999999999999999", 0}, {"1 + ?", 4}, {"y * 4e38", 4}, {"f(1, 2 3)", 7}, {"(a + (b c))", 8}}
	for _, p := range pre {
		for _, b := range offending {
			full := p + b.text
			trimmed := strings.Trim(full, " \t\r\n")
			at := len([]rune(trimmed)) - len([]rune(b.text)) + b.off
			runErrPosCase(c, "e", full, at)
		}
	}
	tbad := []string{"{{a", "{{#a}}x", "x{{/a}}", "{{#a}}x{{/b}}", "{{a}}}", "{{{a}}", "{{/}}", "{{}}", "{{a b}}", "{{#if}}", "{{^}}x"}
	tpre := []string{"", "text ", "line one\nline two ", "a\r\nb\n  {{x}} ", "{{#s}}\n  in "}
	for _, p := range tpre {
		for _, b := range tbad {
			runErrPosCase(c, "m", p+b)
			runErrPosCase(c, "m", p+b+"\n tail {{y}}")
		}
	}
	c.Notes = append(c.Notes, "error positions: 22 kinds of rejected expressions and 11 kinds of rejected templates behind 7 / 5 multi-line prefixes; every position quoted in an error message must be the start of a token of the text")
}

func replayErrPos(c *Ctx, op string) bool {
	f := strings.Fields(op)
	if (len(f) != 3 && len(f) != 4) || f[0] != "errpos" {
		return false
	}
	if len(f) == 4 {
		at, _ := strconv.Atoi(f[3])
		runErrPosCase(c, f[1], string(parseRunes(f[2])), at)
		return true
	}
	runErrPosCase(c, f[1], string(parseRunes(f[2])))
	return true
}
