#!/bin/sh
# Build the framework from files on disk only (offline).
set -e
cd "$(dirname "$0")"
export GOFLAGS=-mod=mod GOPROXY=off GOSUMDB=off GOTOOLCHAIN=local CGO_ENABLED=0
mkdir -p .work evidence replays
(cd lean && lake build Verif Verif.All vdrv)
cp /repo/go.sum harness/go.sum
(cd harness && go build -tags verif -o ../.work/vh .)
echo setup-ok
