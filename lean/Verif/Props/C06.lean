/-
C06 — variant operators: arithmetic of the first operand's type, Null propagation,
mutually consistent comparisons, list semantics of membership and indexing, and
"an undefined operation yields an error rather than a wrong value or a crash".

Float *arithmetic* facts are stated as "the result is the host operation applied to the operands".
Float *comparisons* are the bit-level IEEE comparisons of `Verif/Model/FloatCmp.lean` on `toBits`
(`fLt`, `fEq`, `fLe`, `fLt32`, …), so the consistency laws of section 6 hold for floats too,
NaN included (`Verif/Lemmas/FloatCmpLemmas.lean`).
-/
import Verif.Model.Value
import Verif.Lemmas.ValueLemmas
import Verif.Lemmas.FloatCmpLemmas
namespace Verif

/-! ## 1. result or error, never a crash -/

theorem binopCore_noPanic (m : Mgr) (op : Op) (a b : V) : (binopCore m op a b).NoPanic := by
    have hbind : ∀ t (f : V → R), (∀ v, (f v).NoPanic) → ((convert m b t).bind f).NoPanic :=
      fun t f hf => (convert_noPanic m b t).bind hf
    cases op <;> simp only [binopCore]
    case equal => exact equalOp_noPanic m a b
    case notEqual =>
      split
      · exact .ok _
      split
      · exact .ok _
      exact hbind _ _ fun _ => arith_noPanic _ _ _
    case pow =>
      split
      · exact .ok _
      split
      · refine (convert_noPanic m a _).bind fun a' => hbind _ _ fun b' => ?_
        split <;> exact .ok _
      · exact .err _
    case lsh =>
      split
      · exact .ok _
      refine hbind _ _ fun b' => ?_
      split
      · split
        · exact .err _
        · split <;> first | exact .ok _ | exact .err _
      · exact .ok _
    case rsh =>
      split
      · exact .ok _
      refine hbind _ _ fun b' => ?_
      split
      · split
        · exact .err _
        · split <;> first | exact .ok _ | exact .err _
      · exact .ok _
    case in_ =>
      split
      · exact .ok _
      split
      · exact inLoop_noPanic _ _ _
      · exact equalOp_noPanic _ _ _
    case getElement =>
      split
      · exact .ok _
      refine hbind _ _ fun b' => ?_
      split
      · split
        · split <;> first | exact .ok _ | exact .err _
        · split <;> first | exact .ok _ | exact .err _
        · exact .err _
      · exact .ok _
    case not => exact .err _
    case neg => exact .err _
    all_goals
      split
      · exact .ok _
      · exact hbind _ _ fun _ => arith_noPanic _ _ _

/-- holds for all operands, host-dependent ones included -/
theorem C06_never_panics :
    (∀ m op a b s, binop m op a b ≠ .panic s) ∧
    (∀ op a s, unop op a ≠ .panic s) ∧
    (∀ m v t s, convert m v t ≠ .panic s) := by
  refine ⟨?_, ?_, ?_⟩
  · intro m op a b
    show (binop m op a b).NoPanic
    unfold binop
    split
    · exact .ok _
    · exact binopCore_noPanic m op a b
  · intro op a
    show (unop op a).NoPanic
    unfold unop
    split <;> first | exact .ok _ | exact .err _
  · intro m v t
    exact convert_noPanic m v t

/-! ## 2. Null propagation

Each fact is proved for `binopCore` (no side condition) and then for the public `binop`, where a
host-dependent operand makes the whole result host-dependent (`binop_host_left/right`), so the
operands must not be host-dependent. -/

theorem C06_null_propagates_core (m : Mgr) (op : Op) (a b : V)
    (h1 : op ≠ .equal) (h2 : op ≠ .notEqual) (h3 : op ≠ .not) (h4 : op ≠ .neg)
    (h : a.typ = .null ∨ b.typ = .null) : binopCore m op a b = .ok .null := by
  have h' : (a.typ == VT.null || b.typ == VT.null) = true := by simpa using h
  cases op <;> simp only [binopCore, h', if_true] <;> contradiction

theorem C06_null_propagates (m : Mgr) (op : Op) (a b : V)
    (ha : isHostV a = false) (hb : isHostV b = false)
    (h1 : op ≠ .equal) (h2 : op ≠ .notEqual) (h3 : op ≠ .not) (h4 : op ≠ .neg)
    (h : a.typ = .null ∨ b.typ = .null) : binop m op a b = .ok .null := by
  rw [binop_of_not_host m op ha hb]; exact C06_null_propagates_core m op a b h1 h2 h3 h4 h

/-- the precise form: Null on one side, anything that is not host-dependent on the other -/
theorem C06_null_propagates_left (m : Mgr) (op : Op) (b : V) (hb : isHostV b = false)
    (h1 : op ≠ .equal) (h2 : op ≠ .notEqual) (h3 : op ≠ .not) (h4 : op ≠ .neg) :
    binop m op .null b = .ok .null :=
  C06_null_propagates m op .null b rfl hb h1 h2 h3 h4 (.inl rfl)

theorem C06_null_propagates_right (m : Mgr) (op : Op) (a : V) (ha : isHostV a = false)
    (h1 : op ≠ .equal) (h2 : op ≠ .notEqual) (h3 : op ≠ .not) (h4 : op ≠ .neg) :
    binop m op a .null = .ok .null :=
  C06_null_propagates m op a .null ha rfl h1 h2 h3 h4 (.inr rfl)

/-- … and Null against a host-dependent operand is host-dependent, for every operator -/
theorem C06_null_host (m : Mgr) (op : Op) (tag : String) (args : List V) :
    binop m op .null (.host tag args) = .ok (.host "op" [.null, .host tag args]) ∧
    binop m op (.host tag args) .null = .ok (.host "op" [.host tag args, .null]) := ⟨rfl, rfl⟩

/-- as *binary* operators `not` and `neg` are not defined at all -/
theorem C06_not_neg_binary_core (m : Mgr) (a b : V) :
    binopCore m .not a b = opErr ∧ binopCore m .neg a b = opErr := ⟨rfl, rfl⟩

theorem C06_not_neg_binary (m : Mgr) (a b : V) (ha : isHostV a = false) (hb : isHostV b = false) :
    binop m .not a b = opErr ∧ binop m .neg a b = opErr := by
  rw [binop_of_not_host m _ ha hb, binop_of_not_host m _ ha hb]; exact ⟨rfl, rfl⟩

theorem C06_neg_null : unop .neg .null = .ok .null := rfl
theorem C06_not_null : unop .not .null = .ok (.bool true) := rfl

theorem C06_equal_null_core (m : Mgr) (a b : V) :
    (a.typ = .null → b.typ = .null → binopCore m .equal a b = .ok (.bool true)) ∧
    (a.typ = .null → b.typ ≠ .null → binopCore m .equal a b = .ok (.bool false)) ∧
    (a.typ ≠ .null → b.typ = .null → binopCore m .equal a b = .ok (.bool false)) := by
  refine ⟨?_, ?_, ?_⟩ <;> intro ha hb <;> simp [binopCore, equalOp, ha, hb]

theorem C06_equal_null (m : Mgr) (a b : V) (hha : isHostV a = false) (hhb : isHostV b = false) :
    (a.typ = .null → b.typ = .null → binop m .equal a b = .ok (.bool true)) ∧
    (a.typ = .null → b.typ ≠ .null → binop m .equal a b = .ok (.bool false)) ∧
    (a.typ ≠ .null → b.typ = .null → binop m .equal a b = .ok (.bool false)) := by
  rw [binop_of_not_host m _ hha hhb]; exact C06_equal_null_core m a b

theorem C06_notEqual_null_core (m : Mgr) (a b : V) :
    (a.typ = .null → b.typ = .null → binopCore m .notEqual a b = .ok (.bool false)) ∧
    (a.typ = .null → b.typ ≠ .null → binopCore m .notEqual a b = .ok (.bool true)) ∧
    (a.typ ≠ .null → b.typ = .null → binopCore m .notEqual a b = .ok (.bool true)) := by
  refine ⟨?_, ?_, ?_⟩ <;> intro ha hb <;> simp [binopCore, ha, hb]

theorem C06_notEqual_null (m : Mgr) (a b : V) (hha : isHostV a = false) (hhb : isHostV b = false) :
    (a.typ = .null → b.typ = .null → binop m .notEqual a b = .ok (.bool false)) ∧
    (a.typ = .null → b.typ ≠ .null → binop m .notEqual a b = .ok (.bool true)) ∧
    (a.typ ≠ .null → b.typ = .null → binop m .notEqual a b = .ok (.bool true)) := by
  rw [binop_of_not_host m _ hha hhb]; exact C06_notEqual_null_core m a b

/-! ## 3. the second operand is converted to the first operand's type -/

theorem C06_second_converted_core (m : Mgr) (op : Op) (a b : V)
    (hop : op ∈ sameTypeOps) (h1 : op ≠ .equal) (h2 : op ≠ .notEqual)
    (ha : a.typ ≠ .null) (hb : b.typ ≠ .null) :
    binopCore m op a b = (convert m b a.typ).bind (fun b' => arith op a b') := by
  cases op <;> simp [sameTypeOps] at hop h1 h2 <;> simp [binopCore, ha, hb]

theorem C06_second_converted (m : Mgr) (op : Op) (a b : V)
    (hha : isHostV a = false) (hhb : isHostV b = false)
    (hop : op ∈ sameTypeOps) (h1 : op ≠ .equal) (h2 : op ≠ .notEqual)
    (ha : a.typ ≠ .null) (hb : b.typ ≠ .null) :
    binop m op a b = (convert m b a.typ).bind (fun b' => arith op a b') := by
  rw [binop_of_not_host m op hha hhb]; exact C06_second_converted_core m op a b hop h1 h2 ha hb

theorem C06_second_converted_equal_core (m : Mgr) (a b : V)
    (ha : a.typ ≠ .null) (hb : b.typ ≠ .null) :
    binopCore m .equal a b = (convert m b a.typ).bind (fun b' => arith .equal a b') := by
  simp [binopCore, equalOp, ha, hb]

theorem C06_second_converted_equal (m : Mgr) (a b : V)
    (hha : isHostV a = false) (hhb : isHostV b = false)
    (ha : a.typ ≠ .null) (hb : b.typ ≠ .null) :
    binop m .equal a b = (convert m b a.typ).bind (fun b' => arith .equal a b') := by
  rw [binop_of_not_host m _ hha hhb]; exact C06_second_converted_equal_core m a b ha hb

theorem C06_second_converted_notEqual_core (m : Mgr) (a b : V)
    (ha : a.typ ≠ .null) (hb : b.typ ≠ .null) :
    binopCore m .notEqual a b = (convert m b a.typ).bind (fun b' => arith .notEqual a b') := by
  simp [binopCore, ha, hb]

theorem C06_second_converted_notEqual (m : Mgr) (a b : V)
    (hha : isHostV a = false) (hhb : isHostV b = false)
    (ha : a.typ ≠ .null) (hb : b.typ ≠ .null) :
    binop m .notEqual a b = (convert m b a.typ).bind (fun b' => arith .notEqual a b') := by
  rw [binop_of_not_host m _ hha hhb]; exact C06_second_converted_notEqual_core m a b ha hb

/-- in the situation of `C06_second_converted` the conversion is the manager's own table -/
theorem C06_second_converted_mgr (m : Mgr) (b : V) (t : VT) (hhb : isHostV b = false) :
    convert m b t = match m with
      | .unsafe_ => convertUnsafe b t
      | .safe => convertSafe b t := convert_of_not_host m t hhb

/-! ## 4. the arithmetic table -/

theorem C06_host_arithmetic :
    -- add
    (∀ x y, arith .add (.int x) (.int y) = .ok (.int (x + y))) ∧
    (∀ x y, arith .add (.long x) (.long y) = .ok (.long (x + y))) ∧
    (∀ x y, arith .add (.float x) (.float y) = .ok (.float (x + y))) ∧
    (∀ x y, arith .add (.double x) (.double y) = .ok (.double (x + y))) ∧
    (∀ x y, arith .add (.timeSpan x) (.timeSpan y) = .ok (.timeSpan (x + y))) ∧
    (∀ x y, arith .add (.str x) (.str y) = .ok (.str (x ++ y))) ∧
    -- sub
    (∀ x y, arith .sub (.int x) (.int y) = .ok (.int (x - y))) ∧
    (∀ x y, arith .sub (.long x) (.long y) = .ok (.long (x - y))) ∧
    (∀ x y, arith .sub (.float x) (.float y) = .ok (.float (x - y))) ∧
    (∀ x y, arith .sub (.double x) (.double y) = .ok (.double (x - y))) ∧
    (∀ x y, arith .sub (.timeSpan x) (.timeSpan y) = .ok (.timeSpan (x - y))) ∧
    (∀ s1 n1 s2 n2, arith .sub (.dateTime s1 n1) (.dateTime s2 n2) = .ok (.timeSpan (dtSub s1 n1 s2 n2))) ∧
    -- mul
    (∀ x y, arith .mul (.int x) (.int y) = .ok (.int (x * y))) ∧
    (∀ x y, arith .mul (.long x) (.long y) = .ok (.long (x * y))) ∧
    (∀ x y, arith .mul (.float x) (.float y) = .ok (.float (x * y))) ∧
    (∀ x y, arith .mul (.double x) (.double y) = .ok (.double (x * y))) ∧
    -- div / mod
    (∀ x y, y ≠ 0 → arith .div (.int x) (.int y) = .ok (.int (x / y))) ∧
    (∀ x y, y ≠ 0 → arith .div (.long x) (.long y) = .ok (.long (x / y))) ∧
    (∀ x y, arith .div (.float x) (.float y) = .ok (.float (x / y))) ∧
    (∀ x y, arith .div (.double x) (.double y) = .ok (.double (x / y))) ∧
    (∀ x y, y ≠ 0 → arith .mod (.int x) (.int y) = .ok (.int (x % y))) ∧
    (∀ x y, y ≠ 0 → arith .mod (.long x) (.long y) = .ok (.long (x % y))) ∧
    -- and / or / xor
    (∀ x y, arith .and (.int x) (.int y) = .ok (.int (x &&& y))) ∧
    (∀ x y, arith .and (.long x) (.long y) = .ok (.long (x &&& y))) ∧
    (∀ x y, arith .and (.bool x) (.bool y) = .ok (.bool (x && y))) ∧
    (∀ x y, arith .or (.int x) (.int y) = .ok (.int (x ||| y))) ∧
    (∀ x y, arith .or (.long x) (.long y) = .ok (.long (x ||| y))) ∧
    (∀ x y, arith .or (.bool x) (.bool y) = .ok (.bool (x || y))) ∧
    (∀ x y, arith .xor (.int x) (.int y) = .ok (.int (x ^^^ y))) ∧
    (∀ x y, arith .xor (.long x) (.long y) = .ok (.long (x ^^^ y))) ∧
    (∀ x y, arith .xor (.bool x) (.bool y) = .ok (.bool (x != y))) := by
  refine ⟨?_, ?_, ?_, ?_, ?_, ?_, ?_, ?_, ?_, ?_, ?_, ?_, ?_, ?_, ?_, ?_, ?_, ?_, ?_, ?_, ?_, ?_, ?_, ?_,
    ?_, ?_, ?_, ?_, ?_, ?_, ?_⟩
  all_goals first
    | (intro x y; rfl)
    | (intro s1 n1 s2 n2; rfl)
    | (intro x y h; simp [arith, arithCore, h])
    | (intro x y; cases x <;> cases y <;> rfl)

/-- comparisons on each type (the value inside `.bool` is the host comparison; for Float / Double
the bit-level IEEE comparison of the operands' bit patterns) -/
theorem C06_host_comparisons :
    (∀ x y : Int64, arith .equal (.int x) (.int y) = .ok (.bool (x == y)) ∧
      arith .notEqual (.int x) (.int y) = .ok (.bool (x != y)) ∧
      arith .less (.int x) (.int y) = .ok (.bool (x < y)) ∧
      arith .more (.int x) (.int y) = .ok (.bool (x > y)) ∧
      arith .lessEqual (.int x) (.int y) = .ok (.bool (x ≤ y)) ∧
      arith .moreEqual (.int x) (.int y) = .ok (.bool (x ≥ y))) ∧
    (∀ x y : Int64, arith .equal (.long x) (.long y) = .ok (.bool (x == y)) ∧
      arith .notEqual (.long x) (.long y) = .ok (.bool (x != y)) ∧
      arith .less (.long x) (.long y) = .ok (.bool (x < y)) ∧
      arith .more (.long x) (.long y) = .ok (.bool (x > y)) ∧
      arith .lessEqual (.long x) (.long y) = .ok (.bool (x ≤ y)) ∧
      arith .moreEqual (.long x) (.long y) = .ok (.bool (x ≥ y))) ∧
    (∀ x y : Float32, arith .equal (.float x) (.float y) = .ok (.bool (f32Eq x.toBits y.toBits)) ∧
      arith .notEqual (.float x) (.float y) = .ok (.bool (!f32Eq x.toBits y.toBits)) ∧
      arith .less (.float x) (.float y) = .ok (.bool (f32Lt x.toBits y.toBits)) ∧
      arith .more (.float x) (.float y) = .ok (.bool (f32Lt y.toBits x.toBits)) ∧
      arith .lessEqual (.float x) (.float y) = .ok (.bool (f32Le x.toBits y.toBits)) ∧
      arith .moreEqual (.float x) (.float y) = .ok (.bool (f32Le y.toBits x.toBits))) ∧
    (∀ x y : Float, arith .equal (.double x) (.double y) = .ok (.bool (f64Eq x.toBits y.toBits)) ∧
      arith .notEqual (.double x) (.double y) = .ok (.bool (!f64Eq x.toBits y.toBits)) ∧
      arith .less (.double x) (.double y) = .ok (.bool (f64Lt x.toBits y.toBits)) ∧
      arith .more (.double x) (.double y) = .ok (.bool (f64Lt y.toBits x.toBits)) ∧
      arith .lessEqual (.double x) (.double y) = .ok (.bool (f64Le x.toBits y.toBits)) ∧
      arith .moreEqual (.double x) (.double y) = .ok (.bool (f64Le y.toBits x.toBits))) ∧
    (∀ x y : Int64, arith .equal (.timeSpan x) (.timeSpan y) = .ok (.bool (x == y)) ∧
      arith .notEqual (.timeSpan x) (.timeSpan y) = .ok (.bool (x != y)) ∧
      arith .less (.timeSpan x) (.timeSpan y) = .ok (.bool (x < y)) ∧
      arith .more (.timeSpan x) (.timeSpan y) = .ok (.bool (x > y)) ∧
      arith .lessEqual (.timeSpan x) (.timeSpan y) = .ok (.bool (x ≤ y)) ∧
      arith .moreEqual (.timeSpan x) (.timeSpan y) = .ok (.bool (x ≥ y))) ∧
    (∀ x y : List Rune, arith .equal (.str x) (.str y) = .ok (.bool (x == y)) ∧
      arith .notEqual (.str x) (.str y) = .ok (.bool (x != y)) ∧
      arith .less (.str x) (.str y) = .ok (.bool (strLt x y)) ∧
      arith .more (.str x) (.str y) = .ok (.bool (strLt y x)) ∧
      arith .lessEqual (.str x) (.str y) = .ok (.bool (!strLt y x)) ∧
      arith .moreEqual (.str x) (.str y) = .ok (.bool (!strLt x y))) ∧
    (∀ s1 n1 s2 n2, arith .equal (.dateTime s1 n1) (.dateTime s2 n2) = .ok (.bool (dtEq s1 n1 s2 n2)) ∧
      arith .notEqual (.dateTime s1 n1) (.dateTime s2 n2) = .ok (.bool (!dtEq s1 n1 s2 n2)) ∧
      arith .less (.dateTime s1 n1) (.dateTime s2 n2) = .ok (.bool (dtLt s1 n1 s2 n2)) ∧
      arith .more (.dateTime s1 n1) (.dateTime s2 n2) = .ok (.bool (dtLt s2 n2 s1 n1)) ∧
      arith .lessEqual (.dateTime s1 n1) (.dateTime s2 n2) = .ok (.bool (dtLt s1 n1 s2 n2 || dtEq s1 n1 s2 n2)) ∧
      arith .moreEqual (.dateTime s1 n1) (.dateTime s2 n2) = .ok (.bool (dtLt s2 n2 s1 n1 || dtEq s1 n1 s2 n2))) ∧
    (∀ x y : Bool, arith .equal (.bool x) (.bool y) = .ok (.bool (x == y)) ∧
      arith .notEqual (.bool x) (.bool y) = .ok (.bool (x != y))) ∧
    (∀ x y : Nat, arith .equal (.object x) (.object y) = .ok (.bool (x == y)) ∧
      arith .notEqual (.object x) (.object y) = .ok (.bool (x != y))) := by
  refine ⟨?_, ?_, ?_, ?_, ?_, ?_, ?_, ?_, ?_⟩
  all_goals first
    | (intro x y; exact ⟨rfl, rfl, rfl, rfl, rfl, rfl⟩)
    | (intro s1 n1 s2 n2; exact ⟨rfl, rfl, rfl, rfl, rfl, rfl⟩)
    | (intro x y; exact ⟨rfl, rfl⟩)

/-! ## 5. result types -/

theorem C06_result_type (op : Op) (a b r : V)
    (hop : op ∈ [Op.add, .sub, .mul, .div, .mod, .and, .or, .xor])
    (h : arithCore op a b = .ok r) :
    r.typ = a.typ ∨ (op = .sub ∧ a.typ = .dateTime ∧ r.typ = .timeSpan) := by
  unfold arithCore at h
  split at h
  all_goals first
    | (injection h with h; subst h; first | exact .inl rfl | exact .inr ⟨rfl, rfl, rfl⟩)
    | (split at h
       · cases h
       · injection h with h; subst h; exact .inl rfl)
    | (exfalso; simp at hop; done)
    | (simp [opErr] at h; done)

theorem C06_result_type_cmp (op : Op) (a b r : V)
    (hop : op ∈ [Op.equal, .notEqual, .more, .less, .moreEqual, .lessEqual])
    (h : arithCore op a b = .ok r) : r.typ = .boolean := by
  unfold arithCore at h
  split at h
  all_goals first
    | (exfalso; simp at hop; done)
    | (injection h with h; subst h; rfl)
    | (simp [opErr] at h; done)


/-! ## 6. comparisons are mutually consistent -/

/-- `a > b` is `b < a`, for every pair of operands (both sides are `opErr` when the operand
types differ or the type has no order) -/
theorem C06_more_is_flipped_less (a b : V) : arithCore .more a b = arithCore .less b a := by
  cases a <;> cases b <;> rfl

/-- `a <= b` iff `a < b` or `a = b`, on EVERY type that has an order (Float / Double included:
with a NaN operand all three comparisons are false) -/
theorem C06_lessEqual_iff (a b : V) (lt eq : Bool)
    (hlt : arithCore .less a b = .ok (.bool lt)) (heq : arithCore .equal a b = .ok (.bool eq)) :
    arithCore .lessEqual a b = .ok (.bool (lt || eq)) := by
  cases a <;> cases b <;> simp [arithCore, opErr] at hlt heq
  case int.int x y => subst hlt heq; exact congrArg (fun b => R.ok (.bool b)) (Int64.decide_le_eq x y)
  case long.long x y => subst hlt heq; exact congrArg (fun b => R.ok (.bool b)) (Int64.decide_le_eq x y)
  case float.float x y => subst hlt heq; exact congrArg (fun b => R.ok (.bool b)) (fLe32_iff_lt_or_eq x y)
  case double.double x y => subst hlt heq; exact congrArg (fun b => R.ok (.bool b)) (fLe_iff_lt_or_eq x y)
  case timeSpan.timeSpan x y => subst hlt heq; exact congrArg (fun b => R.ok (.bool b)) (Int64.decide_le_eq x y)
  case str.str x y => subst hlt heq; exact congrArg (fun b => R.ok (.bool b)) (not_strLt_flip x y)
  case dateTime.dateTime s1 n1 s2 n2 => subst hlt heq; rfl

/-- `a >= b` iff `a > b` or `a = b`, on EVERY type that has an order (Float / Double included) -/
theorem C06_moreEqual_iff (a b : V) (gt eq : Bool)
    (hgt : arithCore .more a b = .ok (.bool gt)) (heq : arithCore .equal a b = .ok (.bool eq)) :
    arithCore .moreEqual a b = .ok (.bool (gt || eq)) := by
  cases a <;> cases b <;> simp [arithCore, opErr] at hgt heq
  case int.int x y => subst hgt heq; exact congrArg (fun b => R.ok (.bool b)) (Int64.decide_ge_eq x y)
  case long.long x y => subst hgt heq; exact congrArg (fun b => R.ok (.bool b)) (Int64.decide_ge_eq x y)
  case float.float x y =>
    subst hgt heq
    refine congrArg (fun b => R.ok (.bool b)) ?_
    rw [fEq32_comm x y]; exact fLe32_iff_lt_or_eq y x
  case double.double x y =>
    subst hgt heq
    refine congrArg (fun b => R.ok (.bool b)) ?_
    rw [fEq_comm x y]; exact fLe_iff_lt_or_eq y x
  case timeSpan.timeSpan x y => subst hgt heq; exact congrArg (fun b => R.ok (.bool b)) (Int64.decide_ge_eq x y)
  case str.str x y =>
    subst hgt heq
    refine congrArg (fun b => R.ok (.bool b)) ?_
    have := not_strLt_flip y x
    have hc : (y == x) = (x == y) := by
      rw [Bool.eq_iff_iff, beq_iff_eq, beq_iff_eq]; exact eq_comm
    rw [this, hc]
  case dateTime.dateTime s1 n1 s2 n2 => subst hgt heq; rfl

/-- the former statements (with the float exclusions) are corollaries -/
theorem C06_lessEqual_iff_nonfloat (a b : V) (lt eq : Bool)
    (_hf : a.typ ≠ .float) (_hd : a.typ ≠ .double)
    (hlt : arithCore .less a b = .ok (.bool lt)) (heq : arithCore .equal a b = .ok (.bool eq)) :
    arithCore .lessEqual a b = .ok (.bool (lt || eq)) := C06_lessEqual_iff a b lt eq hlt heq

theorem C06_moreEqual_iff_nonfloat (a b : V) (gt eq : Bool)
    (_hf : a.typ ≠ .float) (_hd : a.typ ≠ .double)
    (hgt : arithCore .more a b = .ok (.bool gt)) (heq : arithCore .equal a b = .ok (.bool eq)) :
    arithCore .moreEqual a b = .ok (.bool (gt || eq)) := C06_moreEqual_iff a b gt eq hgt heq

/-- "this value is a Float / Double NaN" (decided on the bit pattern) -/
def V.isNaN : V → Bool
  | .float x => fIsNaN32 x
  | .double x => fIsNaN x
  | _ => false

/-- `a <= b` is `not (b < a)` (totality), on every ordered type; for Float / Double provided
neither operand is a NaN (with a NaN both `<=` and `>` are false: `C06_float_nan_unordered`) -/
theorem C06_lessEqual_is_not_more (a b : V) (gt : Bool)
    (hna : a.isNaN = false) (hnb : b.isNaN = false)
    (hgt : arithCore .more a b = .ok (.bool gt)) :
    arithCore .lessEqual a b = .ok (.bool (!gt)) := by
  cases a <;> cases b <;> simp [arithCore, opErr, V.isNaN] at hgt hna hnb
  case int.int x y =>
    subst hgt; refine congrArg (fun b => R.ok (.bool b)) ?_
    rw [Bool.eq_iff_iff]; simp [Int64.le_iff_toInt_le, Int64.lt_iff_toInt_lt]
  case long.long x y =>
    subst hgt; refine congrArg (fun b => R.ok (.bool b)) ?_
    rw [Bool.eq_iff_iff]; simp [Int64.le_iff_toInt_le, Int64.lt_iff_toInt_lt]
  case float.float x y =>
    subst hgt; exact congrArg (fun b => R.ok (.bool b)) (fLe32_eq_not_lt x y hna hnb)
  case double.double x y =>
    subst hgt; exact congrArg (fun b => R.ok (.bool b)) (fLe_eq_not_lt x y hna hnb)
  case timeSpan.timeSpan x y =>
    subst hgt; refine congrArg (fun b => R.ok (.bool b)) ?_
    rw [Bool.eq_iff_iff]; simp [Int64.le_iff_toInt_le, Int64.lt_iff_toInt_lt]
  case str.str x y => subst hgt; rfl
  case dateTime.dateTime s1 n1 s2 n2 =>
    subst hgt; exact congrArg (fun b => R.ok (.bool b)) (dtLe_eq_not_flip s1 n1 s2 n2)

/-- the former statement (non-float types) is a corollary -/
theorem C06_lessEqual_is_not_more_nonfloat (a b : V) (gt : Bool)
    (hf : a.typ ≠ .float) (hd : a.typ ≠ .double)
    (hgt : arithCore .more a b = .ok (.bool gt)) :
    arithCore .lessEqual a b = .ok (.bool (!gt)) := by
  refine C06_lessEqual_is_not_more a b gt ?_ ?_ hgt
  all_goals (cases a <;> cases b <;> simp [arithCore, opErr, V.typ] at hgt hf hd <;> rfl)

/-- `a <> b` iff not `a = b`, on every type with an equality (floats included) -/
theorem C06_notEqual_is_not_equal (a b : V) (e : Bool)
    (h : arithCore .equal a b = .ok (.bool e)) : arithCore .notEqual a b = .ok (.bool (!e)) := by
  cases a <;> cases b <;> simp [arithCore, opErr] at h <;> subst h <;> rfl

/-- equality is symmetric on every type with an equality (floats included) -/
theorem C06_equal_symm (a b : V) : arithCore .equal a b = arithCore .equal b a := by
  cases a <;> cases b <;> simp [arithCore, opErr]
  case float.float x y => exact fEq32_comm x y
  case double.double x y => exact fEq_comm x y
  case dateTime.dateTime s1 n1 s2 n2 =>
    simp only [dtEq]; rw [Bool.eq_iff_iff]; simp; constructor <;> (rintro ⟨h1, h2⟩; exact ⟨h1.symm, h2.symm⟩)
  all_goals (rw [Bool.eq_iff_iff]; simp only [beq_iff_eq]; exact eq_comm)

/-- `<` is asymmetric on every ordered type (floats included) -/
theorem C06_less_asymm (a b : V)
    (h : arithCore .less a b = .ok (.bool true)) : arithCore .less b a = .ok (.bool false) := by
  cases a <;> cases b <;> simp [arithCore, opErr] at h ⊢
  case int.int x y => simp only [Int64.lt_iff_toInt_lt, Int64.le_iff_toInt_le] at *; omega
  case long.long x y => simp only [Int64.lt_iff_toInt_lt, Int64.le_iff_toInt_le] at *; omega
  case float.float x y => exact fLt32_asymm x y h
  case double.double x y => exact fLt_asymm x y h
  case timeSpan.timeSpan x y => simp only [Int64.lt_iff_toInt_lt, Int64.le_iff_toInt_le] at *; omega
  case str.str x y =>
    have := not_strLt_flip x y
    rw [h] at this; simpa using this
  case dateTime.dateTime s1 n1 s2 n2 =>
    simp only [dtLt, Bool.or_eq_true, Bool.and_eq_true, decide_eq_true_eq, beq_iff_eq] at h
    simp only [dtLt, Bool.or_eq_false_iff, Bool.and_eq_false_imp, decide_eq_false_iff_not, beq_iff_eq]
    omega

/-- `<` is transitive on Float / Double (and so, by `C06_more_is_flipped_less`, is `>`) -/
theorem C06_float_less_trans (a b c : V) (hf : a.typ = .float ∨ a.typ = .double)
    (h1 : arithCore .less a b = .ok (.bool true)) (h2 : arithCore .less b c = .ok (.bool true)) :
    arithCore .less a c = .ok (.bool true) := by
  cases a <;> simp [V.typ] at hf <;> cases b <;> simp [arithCore, opErr] at h1 <;>
    cases c <;> simp [arithCore, opErr] at h2 ⊢
  case float.float.float x y z => exact fLt32_trans x y z h1 h2
  case double.double.double x y z => exact fLt_trans x y z h1 h2

/-- a NaN operand (of type Float / Double, on either side) is unordered: the four order
comparisons and equality are `false`, inequality is `true` -/
theorem C06_float_nan_unordered (a b : V) (ht : a.typ = b.typ)
    (hf : a.typ = .float ∨ a.typ = .double) (hn : a.isNaN = true ∨ b.isNaN = true) :
    arithCore .less a b = .ok (.bool false) ∧ arithCore .more a b = .ok (.bool false) ∧
    arithCore .lessEqual a b = .ok (.bool false) ∧ arithCore .moreEqual a b = .ok (.bool false) ∧
    arithCore .equal a b = .ok (.bool false) ∧ arithCore .notEqual a b = .ok (.bool true) := by
  cases a <;> simp [V.typ] at hf <;> cases b <;> simp [V.typ] at ht
  case float.float x y =>
    simp only [V.isNaN] at hn
    rcases hn with hn | hn
    · obtain ⟨h1, h2, h3, _, h5, h6⟩ := fNaN32_unordered x y hn
      simp [arithCore, h1, h2, h3, h5, h6]
    · obtain ⟨h1, h2, _, h4, h5, h6⟩ := fNaN32_unordered y x hn
      simp [arithCore, h1, h2, h4, h5, h6]
  case double.double x y =>
    simp only [V.isNaN] at hn
    rcases hn with hn | hn
    · obtain ⟨h1, h2, h3, _, h5, h6⟩ := fNaN_unordered x y hn
      simp [arithCore, h1, h2, h3, h5, h6]
    · obtain ⟨h1, h2, _, h4, h5, h6⟩ := fNaN_unordered y x hn
      simp [arithCore, h1, h2, h4, h5, h6]

/-- trichotomy on Float / Double without NaN: exactly one of `<`, `=`, `>` holds -/
theorem C06_float_trichotomy (a b : V) (ht : a.typ = b.typ)
    (hf : a.typ = .float ∨ a.typ = .double) (hna : a.isNaN = false) (hnb : b.isNaN = false) :
    ∃ lt eq gt : Bool, arithCore .less a b = .ok (.bool lt) ∧ arithCore .equal a b = .ok (.bool eq) ∧
      arithCore .more a b = .ok (.bool gt) ∧
      ((lt = true ∧ eq = false ∧ gt = false) ∨ (lt = false ∧ eq = true ∧ gt = false) ∨
       (lt = false ∧ eq = false ∧ gt = true)) := by
  cases a <;> simp [V.typ] at hf <;> cases b <;> simp [V.typ] at ht
  case float.float x y => exact ⟨_, _, _, rfl, rfl, rfl, f32f_trichotomy x y hna hnb⟩
  case double.double x y => exact ⟨_, _, _, rfl, rfl, rfl, f_trichotomy x y hna hnb⟩

/-- a Float / Double equals itself iff it is not a NaN -/
theorem C06_float_equal_self (a : V) (hf : a.typ = .float ∨ a.typ = .double) :
    arithCore .equal a a = .ok (.bool (!a.isNaN)) := by
  cases a <;> simp [V.typ] at hf
  case float x => exact congrArg (fun b => R.ok (.bool b)) (fEq32_self x)
  case double x => exact congrArg (fun b => R.ok (.bool b)) (fEq_self x)


/-! ## 7. undefined operations are errors -/

theorem C06_div_by_zero :
    (∀ x, arith .div (.int x) (.int 0) = .err "DIV_BY_ZERO") ∧
    (∀ x, arith .div (.long x) (.long 0) = .err "DIV_BY_ZERO") ∧
    (∀ x, arith .mod (.int x) (.int 0) = .err "DIV_BY_ZERO") ∧
    (∀ x, arith .mod (.long x) (.long 0) = .err "DIV_BY_ZERO") :=
  ⟨fun _ => rfl, fun _ => rfl, fun _ => rfl, fun _ => rfl⟩

/-- the same through the public operator, for both managers -/
theorem C06_div_by_zero_binop (m : Mgr) (x : Int64) :
    binop m .div (.int x) (.int 0) = .err "DIV_BY_ZERO" ∧
    binop m .mod (.int x) (.int 0) = .err "DIV_BY_ZERO" ∧
    binop m .div (.long x) (.long 0) = .err "DIV_BY_ZERO" ∧
    binop m .mod (.long x) (.long 0) = .err "DIV_BY_ZERO" := by
  cases m <;> exact ⟨rfl, rfl, rfl, rfl⟩

/-- an Integer count is its own conversion to Integer, under both managers -/
theorem convert_int_integer (m : Mgr) (n : Int64) : convert m (.int n) .integer = .ok (.int n) := by
  cases m <;> rfl

theorem C06_negative_shift (m : Mgr) (a : V) (n : Int64)
    (hh : isHostV a = false) (ha : a.typ ≠ .null) (hn : n < 0) :
    binop m .lsh a (.int n) = .err "NEGATIVE_SHIFT" ∧
    binop m .rsh a (.int n) = .err "NEGATIVE_SHIFT" := by
  have hb : (V.int n).typ = VT.integer := rfl
  rw [binop_of_not_host m _ hh rfl, binop_of_not_host m _ hh rfl]
  simp [binopCore, ha, hb, convert_int_integer, R.bind, hn]

theorem C06_shift_defined (m : Mgr) (x n : Int64) (hn : ¬ n < 0) :
    binop m .lsh (.int x) (.int n) = .ok (.int (shl64 x n)) ∧
    binop m .rsh (.int x) (.int n) = .ok (.int (shr64 x n)) ∧
    binop m .lsh (.long x) (.int n) = .ok (.long (shl64 x n)) ∧
    binop m .rsh (.long x) (.int n) = .ok (.long (shr64 x n)) := by
  simp [binop, binopCore, isHostV, V.typ, convert_int_integer, R.bind, hn]

theorem C06_shift_unsupported (m : Mgr) (a : V) (n : Int64) (hh : isHostV a = false) (hn : ¬ n < 0)
    (ha : a.typ ≠ .null) (hi : a.typ ≠ .integer) (hl : a.typ ≠ .long) :
    binop m .lsh a (.int n) = opErr ∧ binop m .rsh a (.int n) = opErr := by
  rw [binop_of_not_host m _ hh rfl, binop_of_not_host m _ hh rfl]
  cases a <;> simp [V.typ] at ha hi hl <;>
    simp [binopCore, V.typ, convert_int_integer, R.bind, hn]

theorem C06_index_out_of_range (m : Mgr) (i : Int64) :
    (∀ es : List V, i < 0 ∨ i.toInt ≥ es.length →
      binop m .getElement (.array es) (.int i) = .err "INDEX_OUT_OF_RANGE") ∧
    (∀ s : List Rune, i < 0 ∨ i.toInt ≥ s.length →
      binop m .getElement (.str s) (.int i) = .err "INDEX_OUT_OF_RANGE") := by
  constructor <;> intro es h
  · have h' : (decide (i < 0) || decide (i.toInt ≥ es.length)) = true := by simpa using h
    simp only [binop, binopCore, isHostV, Bool.or_self, Bool.false_eq_true, if_false, V.typ, convert_int_integer, R.bind, h']; rfl
  · have h' : (decide (i < 0) || decide (i.toInt ≥ es.length)) = true := by simpa using h
    simp only [binop, binopCore, isHostV, Bool.or_self, Bool.false_eq_true, if_false, V.typ, convert_int_integer, R.bind, h']; rfl

/-- the combinations (operator, operand type) for which the same-type switch is defined -/
def arithSupported : Op → VT → Bool
  | .add, t => [VT.integer, .long, .float, .double, .timeSpan, .string].contains t
  | .sub, t => [VT.integer, .long, .float, .double, .timeSpan, .dateTime].contains t
  | .mul, t => [VT.integer, .long, .float, .double].contains t
  | .div, t => [VT.integer, .long, .float, .double].contains t
  | .mod, t => [VT.integer, .long].contains t
  | .and, t => [VT.integer, .long, .boolean].contains t
  | .or, t => [VT.integer, .long, .boolean].contains t
  | .xor, t => [VT.integer, .long, .boolean].contains t
  | .equal, t => [VT.integer, .long, .float, .double, .string, .boolean, .timeSpan, .dateTime, .object].contains t
  | .notEqual, t => [VT.integer, .long, .float, .double, .string, .boolean, .timeSpan, .dateTime, .object].contains t
  | .more, t => [VT.integer, .long, .float, .double, .string, .timeSpan, .dateTime].contains t
  | .less, t => [VT.integer, .long, .float, .double, .string, .timeSpan, .dateTime].contains t
  | .moreEqual, t => [VT.integer, .long, .float, .double, .string, .timeSpan, .dateTime].contains t
  | .lessEqual, t => [VT.integer, .long, .float, .double, .string, .timeSpan, .dateTime].contains t
  | _, _ => false

/-- the only outcomes of the type switch: a value, "division by zero", or "not supported" -/
theorem C06_unsupported_is_error (op : Op) (a b : V) :
    arithCore op a b = opErr ∨ arithCore op a b = .err "DIV_BY_ZERO" ∨ ∃ r, arithCore op a b = .ok r := by
  unfold arithCore
  split
  all_goals first
    | exact .inr (.inr ⟨_, rfl⟩)
    | exact .inl rfl
    | (split
       · exact .inr (.inl rfl)
       · exact .inr (.inr ⟨_, rfl⟩))

/-- a value is produced only for equal operand types in the supported table -/
theorem C06_ok_only_if_supported (op : Op) (a b r : V) (h : arithCore op a b = .ok r) :
    a.typ = b.typ ∧ arithSupported op a.typ = true := by
  unfold arithCore at h
  split at h
  all_goals first
    | exact ⟨rfl, rfl⟩
    | (simp [opErr] at h; done)

private theorem divmod_cases (x y : Int64) (mk : Int64 → V) (f : Int64 → Int64 → Int64) :
    (∃ r, (if y == 0 then R.err "DIV_BY_ZERO" else .ok (mk (f x y))) = .ok r) ∨
    (y = 0 ∧ (if y == 0 then R.err "DIV_BY_ZERO" else .ok (mk (f x y))) = .err "DIV_BY_ZERO") := by
  by_cases hy : y = 0
  · subst hy; exact .inr ⟨rfl, rfl⟩
  · left; refine ⟨mk (f x y), ?_⟩; simp [hy]

/-- … and conversely everything in the table is defined, up to division by zero -/
theorem C06_supported_is_defined (op : Op) (a b : V)
    (ht : a.typ = b.typ) (hs : arithSupported op a.typ = true)
    (ha : ∀ tag args, a ≠ .host tag args) (hb : ∀ tag args, b ≠ .host tag args) :
    (∃ r, arithCore op a b = .ok r) ∨
    ((op = .div ∨ op = .mod) ∧ (b = .int 0 ∨ b = .long 0) ∧ arithCore op a b = .err "DIV_BY_ZERO") := by
  cases a <;> cases b <;> simp [V.typ] at ht
  case host.host => exact absurd rfl (ha _ _)
  case host.object => exact absurd rfl (ha _ _)
  case object.host => exact absurd rfl (hb _ _)
  all_goals cases op <;> simp [arithSupported, V.typ] at hs
  all_goals first
    | exact .inl ⟨_, rfl⟩
    | skip
  case int.int.div x y =>
    rcases divmod_cases x y V.int (· / ·) with h | ⟨h, h'⟩
    · exact .inl h
    · subst h; exact .inr ⟨.inl rfl, .inl rfl, rfl⟩
  case int.int.mod x y =>
    rcases divmod_cases x y V.int (· % ·) with h | ⟨h, h'⟩
    · exact .inl h
    · subst h; exact .inr ⟨.inr rfl, .inl rfl, rfl⟩
  case long.long.div x y =>
    rcases divmod_cases x y V.long (· / ·) with h | ⟨h, h'⟩
    · exact .inl h
    · subst h; exact .inr ⟨.inl rfl, .inr rfl, rfl⟩
  case long.long.mod x y =>
    rcases divmod_cases x y V.long (· % ·) with h | ⟨h, h'⟩
    · exact .inl h
    · subst h; exact .inr ⟨.inr rfl, .inr rfl, rfl⟩

theorem C06_unsupported_instances :
    (∀ x y, arithCore .mul (.str x) (.str y) = opErr) ∧
    (∀ x y, arithCore .mod (.double x) (.double y) = opErr) ∧
    (∀ x y, arithCore .mod (.float x) (.float y) = opErr) ∧
    (∀ x y, arithCore .sub (.str x) (.str y) = opErr) ∧
    (∀ x y, arithCore .add (.bool x) (.bool y) = opErr) ∧
    (∀ x y, arithCore .less (.bool x) (.bool y) = opErr) ∧
    (∀ x y, arithCore .and (.double x) (.double y) = opErr) ∧
    (∀ s1 n1 s2 n2, arithCore .add (.dateTime s1 n1) (.dateTime s2 n2) = opErr) ∧
    (∀ x y, arithCore .add (.array x) (.array y) = opErr) ∧
    (∀ x y, arithCore .add (.int x) (.long y) = opErr) :=
  ⟨fun _ _ => rfl, fun _ _ => rfl, fun _ _ => rfl, fun _ _ => rfl, fun _ _ => rfl,
   fun _ _ => rfl, fun _ _ => rfl, fun _ _ _ _ => rfl, fun _ _ => rfl, fun _ _ => rfl⟩

/-! ## 8. list semantics of indexing and membership -/

theorem C06_getElement_list (m : Mgr) (i : Int64) (es : List V)
    (h0 : 0 ≤ i.toInt) (h1 : i.toInt < es.length) :
    binop m .getElement (.array es) (.int i) = .ok (es.getD i.toInt.toNat .null) := by
  have h' : (decide (i < 0) || decide (i.toInt ≥ es.length)) = false := by
    simp [Int64.lt_iff_toInt_lt]; omega
  simp only [binop, binopCore, isHostV, Bool.or_self, Bool.false_eq_true, if_false, V.typ, convert_int_integer, R.bind, h']; rfl

theorem C06_getElement_string (m : Mgr) (i : Int64) (s : List Rune)
    (h0 : 0 ≤ i.toInt) (h1 : i.toInt < s.length) :
    binop m .getElement (.str s) (.int i) = .ok (.str [s.getD i.toInt.toNat 0]) := by
  have h' : (decide (i < 0) || decide (i.toInt ≥ s.length)) = false := by
    simp [Int64.lt_iff_toInt_lt]; omega
  simp only [binop, binopCore, isHostV, Bool.or_self, Bool.false_eq_true, if_false, V.typ, convert_int_integer, R.bind, h']; rfl

/-- in range, the element returned is the list's element at that position -/
theorem C06_getElement_list_get (m : Mgr) (i : Int64) (es : List V)
    (h0 : 0 ≤ i.toInt) (h1 : i.toInt.toNat < es.length) :
    binop m .getElement (.array es) (.int i) = .ok (es[i.toInt.toNat]) := by
  rw [C06_getElement_list m i es h0 (by omega)]
  rw [List.getD_eq_getElem?_getD, List.getElem?_eq_getElem h1]; rfl

theorem C06_getElement_unsupported (m : Mgr) (a : V) (i : Int64) (hh : isHostV a = false)
    (ha : a.typ ≠ .null) (h1 : a.typ ≠ .array) (h2 : a.typ ≠ .string) :
    binop m .getElement a (.int i) = opErr := by
  rw [binop_of_not_host m _ hh rfl]
  cases a <;> simp [V.typ] at ha h1 h2 <;> simp [binopCore, V.typ, convert_int_integer, R.bind]

/-- "this result is the Boolean true" -/
def R.isTrue : R → Bool
  | .ok (.bool true) => true
  | _ => false

theorem R.isTrue_iff (r : R) : r.isTrue = true ↔ r = .ok (.bool true) := by
  unfold R.isTrue
  split <;> simp_all

/-- "this comparison result lets the membership loop move on": a value that is neither `true`
nor host-dependent -/
def R.inSkip : R → Bool
  | .ok (.bool true) => false
  | .ok (.host _ _) => false
  | .ok _ => true
  | _ => false

theorem R.inSkip_iff (r : R) :
    r.inSkip = true ↔ ∃ v, r = .ok v ∧ v ≠ .bool true ∧ isHostV v = false := by
  unfold R.inSkip
  split
  · simp
  · simp [isHostV]
  · rename_i v h1 h2
    constructor
    · intro _
      refine ⟨v, rfl, fun h => h1 h, ?_⟩
      cases v <;> simp [isHostV]
      exact h2 _ _ rfl
    · intro _; rfl
  · rename_i h1 h2 h3
    constructor
    · intro h; cases h
    · rintro ⟨v, rfl, hv1, hv2⟩
      cases v <;> first | exact absurd rfl (h3 _) | (simp [isHostV] at hv2)

/-- the loop's answer at the first comparison that does not let it move on -/
def inOutcome : R → R
  | .ok (.host t a) => .ok (.host "in" [.host t a])
  | r => r

/-! one step of the loop -/

theorem C06_in_step_true (m : Mgr) (x e : V) (es : List V)
    (h : equalOp m x e = .ok (.bool true)) : inLoop m x (e :: es) = .ok (.bool true) := by
  unfold inLoop; rw [h]

/-- a host-dependent comparison result makes the whole membership test host-dependent -/
theorem C06_in_step_host (m : Mgr) (x e : V) (es : List V) (t : String) (a : List V)
    (h : equalOp m x e = .ok (.host t a)) :
    inLoop m x (e :: es) = .ok (.host "in" [.host t a]) := by
  unfold inLoop; rw [h]

/-- an error in a comparison is the result of the membership test -/
theorem C06_in_list_error (m : Mgr) (x e : V) (es : List V) (c : String)
    (h : equalOp m x e = .err c) : inLoop m x (e :: es) = .err c := by
  unfold inLoop; rw [h]

theorem C06_in_step_skip (m : Mgr) (x e : V) (es : List V)
    (h : (equalOp m x e).inSkip = true) : inLoop m x (e :: es) = inLoop m x es := by
  obtain ⟨v, hv, h1, h2⟩ := (R.inSkip_iff _).1 h
  rw [inLoop, hv]
  split
  · rename_i heq; injection heq with heq; exact absurd heq h1
  · rename_i heq; injection heq with heq; subst heq; simp [isHostV] at h2
  · rfl
  · rename_i heq; cases heq
  · rename_i heq; cases heq

theorem C06_in_skip_prefix (m : Mgr) (x : V) (pre rest : List V)
    (h : ∀ e ∈ pre, (equalOp m x e).inSkip = true) :
    inLoop m x (pre ++ rest) = inLoop m x rest := by
  induction pre with
  | nil => rfl
  | cons p pre ih =>
    rw [List.cons_append, C06_in_step_skip m x p _ (h p (List.mem_cons_self ..))]
    exact ih fun e he => h e (List.mem_cons_of_mem _ he)

/-- complete, unconditional description of the loop: the answer is decided by the first element
whose comparison is `true`, host-dependent, or an error; if there is none the answer is `false` -/
theorem C06_in_first_decisive (m : Mgr) (x : V) (es : List V) :
    inLoop m x es =
      match es.find? (fun e => !(equalOp m x e).inSkip) with
      | none => .ok (.bool false)
      | some e => inOutcome (equalOp m x e) := by
  induction es with
  | nil => rfl
  | cons e es ih =>
    cases hs : (equalOp m x e).inSkip
    · rw [List.find?_cons_of_pos (by simp [hs])]
      show inLoop m x (e :: es) = inOutcome (equalOp m x e)
      unfold inLoop
      split
      · rename_i heq; rw [heq]; rfl
      · rename_i heq; rw [heq]; rfl
      · rename_i v h1 h2 heq
        have : (equalOp m x e).inSkip = true := by
          rw [R.inSkip_iff]
          refine ⟨v, heq, fun h => h1 h, ?_⟩
          cases v <;> simp [isHostV]
          exact h2 _ _ rfl
        rw [hs] at this; cases this
      · rename_i heq; rw [heq]; rfl
      · rename_i heq; rw [heq]; rfl
    · rw [List.find?_cons_of_neg (by simp [hs]), C06_in_step_skip m x e es hs]
      exact ih

/-- when every comparison yields a value that is not host-dependent, membership is `List.any`
of "equal to the element" -/
theorem C06_in_list (m : Mgr) (x : V) (es : List V)
    (hok : ∀ e ∈ es, ∃ v, equalOp m x e = .ok v ∧ isHostV v = false) :
    inLoop m x es = .ok (.bool (es.any fun e => (equalOp m x e).isTrue)) := by
  induction es with
  | nil => rfl
  | cons e es ih =>
    have ih := ih fun e' he' => hok e' (List.mem_cons_of_mem _ he')
    obtain ⟨v, hv, hh⟩ := hok e (List.mem_cons_self ..)
    rw [List.any_cons]
    cases ht : (equalOp m x e).isTrue
    · have hs : (equalOp m x e).inSkip = true := by
        rw [R.inSkip_iff]
        refine ⟨v, hv, ?_, hh⟩
        intro hvt; subst hvt; rw [hv] at ht; cases ht
      rw [C06_in_step_skip m x e es hs, ih]; rfl
    · rw [C06_in_step_true m x e es ((R.isTrue_iff _).1 ht)]; rfl

/-- exact characterisation without side conditions: membership holds iff some element compares
equal and every earlier comparison gave a value that is neither an error nor host-dependent -/
theorem C06_in_list_iff (m : Mgr) (x : V) (es : List V) :
    inLoop m x es = .ok (.bool true) ↔
      ∃ pre e post, es = pre ++ e :: post ∧ equalOp m x e = .ok (.bool true) ∧
        ∀ e' ∈ pre, ∃ v, equalOp m x e' = .ok v ∧ isHostV v = false := by
  constructor
  · intro h
    induction es with
    | nil => simp [inLoop] at h
    | cons e0 es ih =>
      cases hs : (equalOp m x e0).inSkip
      · rw [C06_in_first_decisive, List.find?_cons_of_pos (by simp [hs])] at h
        have h : inOutcome (equalOp m x e0) = .ok (.bool true) := h
        refine ⟨[], e0, es, rfl, ?_, by simp⟩
        unfold inOutcome at h
        split at h
        · injection h with h; cases h
        · exact h
      · rw [C06_in_step_skip m x e0 es hs] at h
        obtain ⟨pre, e, post, h1, h2, h3⟩ := ih h
        obtain ⟨v, hv, _, hh⟩ := (R.inSkip_iff _).1 hs
        refine ⟨e0 :: pre, e, post, by simp [h1], h2, ?_⟩
        intro e' he'
        rcases List.mem_cons.1 he' with rfl | he'
        · exact ⟨v, hv, hh⟩
        · exact h3 e' he'
  · rintro ⟨pre, e, post, rfl, h2, h3⟩
    induction pre with
    | nil => exact C06_in_step_true m x e post h2
    | cons p pre ih =>
      have ih := ih fun e' he' => h3 e' (List.mem_cons_of_mem _ he')
      obtain ⟨v, hv, hh⟩ := h3 p (List.mem_cons_self ..)
      rw [List.cons_append]
      by_cases hvt : v = .bool true
      · subst hvt; exact C06_in_step_true m x p _ hv
      · rw [C06_in_step_skip m x p _ ((R.inSkip_iff _).2 ⟨v, hv, hvt, hh⟩)]; exact ih

/-- a host-dependent comparison result before any `true` (and before any error) makes the whole
result host-dependent -/
theorem C06_in_host_elem (m : Mgr) (x : V) (pre post : List V) (e : V) (t : String) (a : List V)
    (hpre : ∀ e' ∈ pre, (equalOp m x e').inSkip = true)
    (he : equalOp m x e = .ok (.host t a)) :
    inLoop m x (pre ++ e :: post) = .ok (.host "in" [.host t a]) := by
  rw [C06_in_skip_prefix m x pre _ hpre]; exact C06_in_step_host m x e post t a he

/-- … and conversely a host-dependent membership result has exactly that origin -/
theorem C06_in_host_iff (m : Mgr) (x : V) (es : List V) (tag : String) (args : List V) :
    inLoop m x es = .ok (.host tag args) ↔
      ∃ pre e post t a, es = pre ++ e :: post ∧ (∀ e' ∈ pre, (equalOp m x e').inSkip = true) ∧
        equalOp m x e = .ok (.host t a) ∧ tag = "in" ∧ args = [.host t a] := by
  constructor
  · intro h
    induction es with
    | nil => simp [inLoop] at h
    | cons e0 es ih =>
      cases hs : (equalOp m x e0).inSkip
      · rw [C06_in_first_decisive, List.find?_cons_of_pos (by simp [hs])] at h
        have h : inOutcome (equalOp m x e0) = .ok (.host tag args) := h
        unfold inOutcome at h
        split at h
        · rename_i t a heq
          injection h with h; injection h with h1 h2
          exact ⟨[], e0, es, t, a, rfl, by simp, heq, h1.symm, h2.symm⟩
        · -- a bare host comparison result would have been rewritten by `inOutcome`
          rename_i hne
          exact absurd h (hne _ _)
      · rw [C06_in_step_skip m x e0 es hs] at h
        obtain ⟨pre, e, post, t, a, h1, h2, h3, h4, h5⟩ := ih h
        refine ⟨e0 :: pre, e, post, t, a, by simp [h1], ?_, h3, h4, h5⟩
        intro e' he'
        rcases List.mem_cons.1 he' with rfl | he'
        · exact hs
        · exact h2 e' he'
  · rintro ⟨pre, e, post, t, a, rfl, h2, h3, rfl, rfl⟩
    exact C06_in_host_elem m x pre post e t a h2 h3

/-- an error before any `true` / host-dependent comparison is the result -/
theorem C06_in_error_elem (m : Mgr) (x : V) (pre post : List V) (e : V) (c : String)
    (hpre : ∀ e' ∈ pre, (equalOp m x e').inSkip = true)
    (he : equalOp m x e = .err c) :
    inLoop m x (pre ++ e :: post) = .err c := by
  rw [C06_in_skip_prefix m x pre _ hpre]; exact C06_in_list_error m x e post c he

/-- the answer is `false` exactly when every comparison lets the loop move on -/
theorem C06_in_false_iff (m : Mgr) (x : V) (es : List V) :
    inLoop m x es = .ok (.bool false) ↔ ∀ e ∈ es, (equalOp m x e).inSkip = true := by
  constructor
  · intro h
    induction es with
    | nil => simp
    | cons e0 es ih =>
      cases hs : (equalOp m x e0).inSkip
      · rw [C06_in_first_decisive, List.find?_cons_of_pos (by simp [hs])] at h
        have h : inOutcome (equalOp m x e0) = .ok (.bool false) := h
        unfold inOutcome at h
        split at h
        · injection h with h; cases h
        · rw [h] at hs; simp [R.inSkip] at hs
      · rw [C06_in_step_skip m x e0 es hs] at h
        intro e he
        rcases List.mem_cons.1 he with rfl | he
        · exact hs
        · exact ih h e he
  · intro h
    have := C06_in_skip_prefix m x es [] h
    rw [List.append_nil] at this
    rw [this]; rfl

/-- the public operator: membership in an array runs the loop, for non-null operands -/
theorem C06_in_array_core (m : Mgr) (x : V) (es : List V) (hx : x.typ ≠ .null) :
    binopCore m .in_ (.array es) x = inLoop m x es := by
  have ha : (V.array es).typ = .array := rfl
  simp [binopCore, ha, hx]

theorem C06_in_array (m : Mgr) (x : V) (es : List V) (hh : isHostV x = false) (hx : x.typ ≠ .null) :
    binop m .in_ (.array es) x = inLoop m x es := by
  rw [binop_of_not_host m _ rfl hh]; exact C06_in_array_core m x es hx

/-- comparing with a host-dependent *element* of the container: the element is converted
(`convert_host`), `arith` returns a host-dependent value … -/
theorem C06_equalOp_host_elem (m : Mgr) (x : V) (tag : String) (args : List V)
    (hx : x.typ ≠ .null) :
    equalOp m x (.host tag args) = .ok (.host "arith" [x, .host "convert" [.host tag args]]) := by
  have hb : (V.host tag args).typ = .object := rfl
  simp [equalOp, hx, hb, convert_host, R.bind, arith]

/-- … so membership becomes host-dependent at that element (unless decided earlier) -/
theorem C06_in_host_array_elem (m : Mgr) (x : V) (pre post : List V) (tag : String) (args : List V)
    (hx : x.typ ≠ .null) (hpre : ∀ e' ∈ pre, (equalOp m x e').inSkip = true) :
    inLoop m x (pre ++ .host tag args :: post) =
      .ok (.host "in" [.host "arith" [x, .host "convert" [.host tag args]]]) :=
  C06_in_host_elem m x pre post _ _ _ hpre (C06_equalOp_host_elem m x tag args hx)

/-! ## non-vacuity -/

example : binop .unsafe_ .add (.int 2) (.str (strOfS "40")) = .ok (.int 42) := by rfl
example : binop .safe .add (.int 2) (.str (strOfS "40")) = .err "CONV_NOT_SUPPORTED" := by rfl
example : binop .safe .add (.long 2) (.int 40) = .ok (.long 42) := by rfl
example : binop .unsafe_ .div (.int 7) (.bool false) = .err "DIV_BY_ZERO" := by rfl
example : binop .unsafe_ .in_ (.array [.int 1, .str (strOfS "2"), .null]) (.int 2) = .ok (.bool true) := by rfl
/-- the differential-run witness: `In(["a", 1, null], 0L)` depends on the host's conversion of "a" -/
example : binop .unsafe_ .in_ (.array [.str (strOfS "a"), .int 1, .null]) (.long 0) =
    .ok (.host "in" [.host "arith" [.long 0, .host "strToLong" [.str (strOfS "a")]]]) := by rfl
example : binop .unsafe_ .in_ (.array [.int 1, .null]) (.long 0) = .ok (.bool false) := by rfl
example : binop .unsafe_ .getElement (.array [.int 1, .int 5]) (.long 1) = .ok (.int 5) := by rfl
example : binop .unsafe_ .getElement (.array [.int 1, .int 5]) (.int 2) = .err "INDEX_OUT_OF_RANGE" := by rfl
example : binop .unsafe_ .lsh (.int 1) (.int (-1)) = .err "NEGATIVE_SHIFT" := by rfl
example : binop .unsafe_ .lessEqual (.str (strOfS "ab")) (.str (strOfS "b")) = .ok (.bool true) := by rfl

end Verif
