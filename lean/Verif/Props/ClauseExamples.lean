/-
Kernel-checked instances of the corners that rounds 7–10 of the seeded changes went for, stated on the model (whose
case tables are regenerated from the Go runtime on every run, `Gen/CaseMap.lean`), plus one small general law about
numeric constants.  They pin down, as theorems, the behaviour the harness oracles of those rounds demand.
-/
import Verif.Model.Pipeline
import Verif.Model.Calc
import Verif.Model.Mustache
import Verif.Model.States

namespace Verif

/-! ### numeric constants: leading zeros never matter, however many (C01 / C02) -/

theorem clause_foldl_zeros (k : Nat) (ds : List Rune) (acc : Nat) :
    (List.replicate k (48 : Rune) ++ ds).foldl (fun a c => a * 10 + (c - 48)) acc =
      ds.foldl (fun a c => a * 10 + (c - 48)) (acc * 10 ^ k) := by
  induction k generalizing acc with
  | zero => simp
  | succ n ih =>
    rw [List.replicate_succ, List.cons_append, List.foldl_cons, ih]
    congr 1
    simp [Nat.pow_succ, Nat.mul_assoc, Nat.mul_comm 10]

/-- a digit string and the same digits behind any number of zeros denote the same number -/
theorem clause_decNat_zeros (k : Nat) (ds : List Rune) (hne : ds ≠ []) (hd : ds.all isDigitR = true) :
    decNat (List.replicate k 48 ++ ds) = decNat ds := by
  unfold decNat
  have h1 : (List.replicate k (48 : Rune) ++ ds).isEmpty = false := by
    cases ds with
    | nil => exact absurd rfl hne
    | cons d r => cases k <;> simp [List.replicate_succ]
  have h2 : (List.replicate k (48 : Rune) ++ ds).all isDigitR = true := by
    rw [List.all_append, hd, Bool.and_true, List.all_replicate]
    cases k <;> simp [isDigitR]
  have h3 : ds.isEmpty = false := by cases ds <;> simp_all
  simp only [h1, h2, h3, hd, Bool.not_true, Bool.or_self, Bool.false_eq_true, if_false]
  rw [clause_foldl_zeros]
  simp

/-- … so a constant of twenty characters that fits 64 bits is a constant (C02-T) -/
theorem clause_decodeInt_zeros (k : Nat) (ds : List Rune) (hne : ds ≠ []) (hd : ds.all isDigitR = true) :
    decodeInt (List.replicate k 48 ++ ds) = decodeInt ds := by
  unfold decodeInt
  rw [clause_decNat_zeros k ds hne hd]

example : decodeInt (List.replicate 18 48 ++ [52, 50]) = some 42 := by decide

/-! ### names: variables compare UPPER-case forms, template names LOWER-case forms; the two mappings differ -/

/-- `TK` (Kelvin sign) and `Tk` are different variables although their lower-case forms coincide (C01-P) -/
theorem vars_kelvin_distinct :
    upperStr [84, 0x212a] ≠ upperStr [84, 107] ∧ lowerFullStr [84, 0x212a] = lowerFullStr [84, 107] ∧
    upperStr [120, 0x212b] ≠ upperStr [120, 0xe5] ∧ lowerFullStr [120, 0x212b] = lowerFullStr [120, 0xe5] := by
  decide +kernel

/-- an entry answers only for names with the same upper-case form: a later entry is found past an earlier one whose
upper-case form differs -/
theorem findVar_second (n1 n2 : List Rune) (a b : V) (h : (upperStr n1 == upperStr n2) = false) :
    findVar [(n1, a), (n2, b)] n2 = some b := by
  unfold findVar
  simp only [List.find?_cons, h]
  simp

/-- … hence the Kelvin-sign variable does not answer for `Tk` -/
theorem findVar_kelvin (a b : V) : findVar [([84, 0x212a], a), ([84, 107], b)] [84, 107] = some b :=
  findVar_second _ _ a b (by decide +kernel)

/-- template names: `DİL` is found by `{{dil}}` (İ maps to i), `ΣΑΣ` is NOT found by `{{σας}}` (final sigma), `SET` is not
found by `{{ſet}}` (long s) — exactly what lower-casing gives, not what case folding would (C10-P, C10-Q) -/
theorem template_names_lowercase :
    getVariable [([68, 0x130, 76], [118])] [100, 105, 108] = some [118] ∧
    getVariable [([0x3a3, 0x391, 0x3a3], [118])] [0x3c3, 0x3b1, 0x3c2] = none ∧
    getVariable [([0x3a3, 0x391, 0x3a3], [118])] [0x3c3, 0x3b1, 0x3c3] = some [118] ∧
    getVariable [([83, 69, 84], [118])] [0x17f, 101, 116] = none := by decide +kernel

/-- of two keys that differ in case only the smaller one wins, whichever was asked for before (C05-K, C19-R) -/
theorem template_smallest_key_wins :
    getVariable [([78, 97, 109, 101], [66]), ([78, 65, 77, 69], [65])] [110, 97, 109, 101] = some [65] ∧
    getVariable [([78, 65, 77, 69], [65]), ([78, 97, 109, 101], [66])] [110, 97, 109, 101] = some [65] := by decide +kernel

/-! ### symbols: any character may start or continue a symbol, U+0000 and U+FEFF included (D35, C16-P) -/

theorem symbol_with_nul :
    ((SymTab.empty.add [61] TT.symbol).add [0, 61] TT.keyword).valid [0, 61] = true ∧
    ((SymTab.empty.add [61] TT.symbol).add [0, 61] TT.keyword).typeOf [0, 61] = TT.keyword ∧
    ((SymTab.empty.add [61] TT.symbol).add [0xfeff, 61] TT.keyword).typeOf [61] = TT.symbol := by decide

end Verif
