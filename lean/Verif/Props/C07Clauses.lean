/-
C07, the units the statement names: integers and longs convert to time spans counted in MILLISECONDS (the model
holds a time span in nanoseconds, as Go's time.Duration does) and to date-times counted in UNIX SECONDS, and back.
-/
import Verif.Props.C07

namespace Verif

/-- n ↦ a time span of n milliseconds (n · 10⁶ ns, in Go's wrapping Duration arithmetic), for both integer types and
both managers' unsafe conversion -/
theorem C07_timespan_is_milliseconds (n : Int64) :
    convertUnsafe (.int n) .timeSpan = .ok (.timeSpan (n * 1000000)) ∧
    convertUnsafe (.long n) .timeSpan = .ok (.timeSpan (n * 1000000)) := ⟨rfl, rfl⟩

/-- a time span ↦ its whole milliseconds (truncated division, as Go's `/` on Duration) -/
theorem C07_timespan_to_milliseconds (ns : Int64) :
    convertUnsafe (.timeSpan ns) .long = .ok (.long (ns / 1000000)) ∧
    convertUnsafe (.timeSpan ns) .integer = .ok (.int (ns / 1000000)) := ⟨rfl, rfl⟩

/-- n ↦ the instant n seconds after the Unix epoch, no sub-second part -/
theorem C07_datetime_is_unix_seconds (n : Int64) :
    convertUnsafe (.int n) .dateTime = .ok (.dateTime (unixSec n) 0) ∧
    convertUnsafe (.long n) .dateTime = .ok (.dateTime (unixSec n) 0) := ⟨rfl, rfl⟩

/-- … and `unixSec n` IS n for every n that `time.Unix` does not wrap (all but the last 62135596800 values) -/
theorem C07_datetime_seconds_exact (n : Int64) (h : n.toInt ≤ 9223372036854775807 - 62135596800) :
    convertUnsafe (.long n) .dateTime = .ok (.dateTime n.toInt 0) := by
  rw [(C07_datetime_is_unix_seconds n).2, unixSec_eq n h]

/-- a date-time ↦ its Unix seconds, the sub-second part dropped -/
theorem C07_datetime_to_seconds (s : Int) (sub : Nat) :
    convertUnsafe (.dateTime s sub) .long = .ok (.long (Int64.ofInt s)) ∧
    convertUnsafe (.dateTime s sub) .integer = .ok (.int (Int64.ofInt s)) := ⟨rfl, rfl⟩

/-- Non-vacuity: 1500 ↦ 1.5 s; 1.5 s ↦ 1500 -/
example : convertUnsafe (.int 1500) .timeSpan = .ok (.timeSpan 1500000000) ∧
    convertUnsafe (.timeSpan 1500000000) .long = .ok (.long 1500) := ⟨rfl, rfl⟩

end Verif
