package main

import (
	"strconv"
	"os"
	"math"
	"github.com/pip-services3-gox/pip-services3-expressions-gox/calculator/functions"
	"fmt"
	"github.com/pip-services3-gox/pip-services3-expressions-gox/calculator"
	"github.com/pip-services3-gox/pip-services3-expressions-gox/calculator/variables"
	"strings"
	"time"

	"github.com/pip-services3-gox/pip-services3-expressions-gox/variants"
)

// C03: untrusted input never crashes the library: a result or an error, always.

var exprSoupAlpha = []string{"a", "1", ".", "-", "+", "*", "/", "(", ")", "[", "]", ",", "'", "\"", "<", "=", ">", "!", " ", "é", "^", "%", "e", "N"}

var boundaryEnvs = func() [][]binding {
	vals := []*variants.Variant{vNull(), vInt(0), vInt(-1), vInt(9223372036854775807), vInt(-9223372036854775808), vLong(64), vLong(-1), vLong(math.MinInt64), vFloat(1.5),
		vDouble(0), vStr(""), vStr("é"), vStr("héllo"), vStr("世界"), vStr("abc"), vBool(true), vArr(), vArr(vInt(1), vNull()), evalVarValues[len(evalVarValues)-2], evalVarValues[len(evalVarValues)-1], evalVarValues[len(evalVarValues)-4]}
	var out [][]binding
	for _, v := range vals {
		out = append(out, []binding{{"a", v}, {"e", v}, {"N", vInt(2)}})
	}
	return out
}()

func runCrashExpr(c *Ctx, expr string, envs [][]binding, label string) {
	// parse (C02's runner also checks the grammar oracle and the model)
	o := runParseCase(c, expr, label)
	if o.status != "" || o.code != "" {
		return
	}
	for _, env := range envs {
		runEvalCase(c, nil, expr, "u", env, label+":eval")
	}
}

func runCrashTok(c *Ctx, kind string, opts int, input string) {
	op := fmt.Sprintf("tokraw %s %d %s", kind, opts, strRunes(input))
	ts, st := tokenizeImpl(kind, opts, input)
	c.record(op, len(input) >= 2)
	c.count("tokenize:" + kind[:1])
	if st != "" {
		c.fail(Failure{Kind: "oracle", Op: op, Impl: st, Note: fmt.Sprintf("tokenizing %q did not return normally", input)})
		return
	}
	// the model sees what Go's []rune conversion makes of the input (invalid UTF-8 → U+FFFD)
	c.model(tokOpLine(kind, opts, []rune(input)), showTks(ts), "model")
}

func propC03(c *Ctx) {
	maxL := 3
	if c.Thorough {
		maxL = 4
	}
	noEnv := [][]binding{nil}
	var rec func(cur []string)
	rec = func(cur []string) {
		if len(cur) > 0 {
			envs := noEnv
			if len(cur) <= 2 || c.Thorough {
				envs = boundaryEnvs[:6]
			}
			runCrashExpr(c, strings.Join(cur, ""), envs, fmt.Sprintf("expr-soup-len:%d", len(cur)))
		}
		if len(cur) == maxL {
			return
		}
		for _, a := range exprSoupAlpha {
			rec(append(cur, a))
		}
	}
	rec(nil)
	// indexing, shifting, dividing and calling with every boundary value on either side
	for _, e := range []string{"a[0]", "a[1]", "a[2]", "a[5]", "a[-1]", "e[N]", "a[e]", "1 / a", "1 % a", "1 << a", "a >> N", "a ^ N", "N ^ a",
		"a << e", "a >> e", "a / e", "a % e", "a ^ e", "a[e]", "a * e", "a - e", "a AND e", "a OR e", "a XOR e", "a >= e", "a <> e",
		"a IN e", "a NOT IN e", "Min(a, e)", "Max(a, N, e)", "Sum(a, e)", "If(a, 1, 2)", "Choose(a, 1, 2)", "Abs(a)", "Sqrt(a)", "Trunc(a)",
		"Contains(a, e)", "Date(a)", "DayOfWeek(a)", "TimeSpan(a)", "TimeSpan(1, 2, 3, 4, a)", "TimeSpan(1, 2, 3, a, 5)", "TimeSpan(1, 2, a)", "TimeSpan(a, 2, 3, 4)", "TimeSpan(1, a, e, 4, 5)",
		"Date(2020, 1, 2, 3, 4, 5, a)", "Date(2020, 1, 2, 3, 4, a)", "Date(a, 1, 2)", "Date(2020, a)", "Date(2020, 1, 2, a, e)", "If(a, e, N)", "Choose(a, e, N, 1)", "Round(a) + Ceil(e)", "Contains(1, a)", "Array(a, e)[1]", "-a", "NOT a", "a IS NULL", "a + e", "a = e", "a < e", "a LIKE e"} {
		for _, env := range boundaryEnvs {
			for _, env2 := range boundaryEnvs[:8] {
				mixed := []binding{env[0], env2[1], env[2]}
				runEvalCase(c, nil, e, "u", mixed, "operator-boundary-matrix")
			}
		}
	}
	// malformed expressions whose offending token is long and not ASCII (error messages quote it)
	for _, tok := range []string{"'Привет, как твои дела сегодня?'", "_цена_товара_без_всякой_скидки", "'日本語のテキストをここに書きます'", "x" + strings.Repeat("é", 39), "'" + strings.Repeat("😀", 12) + "'",
		strings.Repeat("я", 20), strings.Repeat("я", 21), strings.Repeat("я", 40), strings.Repeat("я", 41), "'" + strings.Repeat("ß", 19) + "'", "\"" + strings.Repeat("ц", 30) + "\""} {
		for _, tpl := range []string{"1 %s", "%s %s", "(%s", "a + %s %s", "f(1 %s)", "a[1 %s]", "%s +", "%s IS", "? %s", "%s ?"} {
			runCrashExpr(c, strings.ReplaceAll(tpl, "%s", tok), noEnv, "long-non-ascii-offender")
		}
	}
	n := 1500
	if c.Thorough {
		n = 40000
	}
	g := newExGen(c)
	g.funcs = []string{"Max", "Min", "Sum", "If", "Choose", "Abs", "Acos", "Sqrt", "Date", "DayOfWeek", "TimeSpan", "Contains", "Array", "Trunc", "nosuch", "Empty", "Ticks"}
	g.vars = []string{"a", "e", "N", "zz"}
	for i := 0; i < n; i++ {
		// lexeme soup, character soup, generated trees under boundary environments, mutants
		ls := string(lexSoup(c, "e", 10))
		runCrashExpr(c, ls, boundaryEnvs[c.Rng.Intn(len(boundaryEnvs)):][:1], "lexeme-soup")
		runCrashExpr(c, string(randInput(c, 20)), noEnv, "char-soup")
		e := g.gen(1 + c.Rng.Intn(4))
		expr := g.render(g.toks(e, 0, c.Rng.Intn(3)), false)
		for k := 0; k < 3; k++ {
			runEvalCase(c, e, expr, []string{"u", "s"}[c.Rng.Intn(2)], boundaryEnvs[c.Rng.Intn(len(boundaryEnvs))], "tree-boundary-env")
		}
		// tokenizers incl. invalid UTF-8
		in := string(randInput(c, 16))
		if c.Rng.Intn(3) == 0 {
			b := []byte(in)
			if len(b) > 0 {
				b[c.Rng.Intn(len(b))] = byte(0x80 + c.Rng.Intn(0x7f))
			}
			in = string(b)
		}
		k := []string{"g", "e", "m", "c:44:34", "c:59,9:34,39", "c:1046:171", "C:59:39,8220", "c:65292:12300,8222"}[c.Rng.Intn(8)]
		runCrashTok(c, k, allOpts[c.Rng.Intn(128)], in)
		if strings.HasPrefix(strings.ToLower(k), "c:") {
			// CSV soup built from the configuration's own separators and quotes (multi-byte ones included):
			// lone, doubled and unclosed quotes at every position, in particular at the very end
			p := strings.Split(k, ":")
			alpha := append(append([]rune("ab\n\r,\"é"), parseRunes(p[1])...), parseRunes(p[2])...)
			alpha = append(alpha, parseRunes(p[2])...)
			var sb strings.Builder
			for j := c.Rng.Intn(7); j > 0; j-- {
				sb.WriteRune(alpha[c.Rng.Intn(len(alpha))])
			}
			runCrashTok(c, k, allOpts[c.Rng.Intn(128)]|64*c.Rng.Intn(2), sb.String())
		}
	}
	// every string of length <= 2 over {a , quote, separator} for the multi-byte CSV configurations, decoding on and off
	for _, k := range []string{"c:1046:171", "c:65292:12300,8222", "C:59:39,8220"} {
		p := strings.Split(k, ":")
		alpha := append(append([]rune("a,\n"), parseRunes(p[1])...), parseRunes(p[2])...)
		for _, x := range alpha {
			runCrashTok(c, k, 64, string([]rune{x}))
			for _, y := range alpha {
				runCrashTok(c, k, 64, string([]rune{x, y}))
				runCrashTok(c, k, 0, string([]rune{x, y}))
				for _, z := range alpha {
					runCrashTok(c, k, 64, string([]rune{x, y, z}))
				}
			}
		}
	}
	propScaleExpressions(c, "C03")
	// user-supplied functions failing in every way a Go function can: the failure surfaces as an error
	runUserFunctionFailures(c)
	// object histories: no sequence of calls on one calculator may panic either
	for i := 0; i < n/10+20; i++ {
		runCalcHistory(c, g)
	}
	// evaluate, change the variable collection (shrink, clear, re-order, grow), evaluate again without setting the expression anew
	for _, e := range []string{"a + b", "b * 2", "Max(a, b)", "x + 1", "a[0]", "b", "a + b + x"} {
		set := "set:" + strRunes(e)
		for _, mid := range [][]string{{"vrem:b"}, {"vrem:a"}, {"vclear"}, {"vrem:a", "vadd:a"}, {"vadd:x", "vrem:a"}, {"vrem:b", "vrem:a"}, {"vadd:x"}, {"vclear", "vadd:b"}} {
			for _, ev := range []string{"evalv", "eval"} {
				steps := append(append([]string{set, ev}, mid...), ev, ev)
				runCalcHistorySteps(c, steps)
				runCalcHistorySteps(c, append(append([]string{set, ev, ev}, mid...), ev, "clear", ev))
			}
		}
	}
	if crashTemplates != nil {
		crashTemplates(c)
	}
	c.Notes = append(c.Notes, fmt.Sprintf("exhaustive: every string of length <= %d over 24 significant expression characters through SetExpression and, when accepted, Evaluate under up to 6 boundary variable assignments; %d rounds of lexeme soup, character soup (incl. astral, U+FFFF, NUL), generated trees (all function families) under boundary environments (extreme integers, NaN/Inf, empty/non-ASCII strings, empty arrays, nulls, time values) with both managers, and the 4 tokenizers x random option sets on inputs incl. invalid UTF-8; every call classified value / error / panic / neither / both / hang", maxL, n))
}

type weird struct{ a, b int }

type panickyErr struct{}

func (panickyErr) Error() string { panic("Error() fails") }

type panickyStringer struct{}

func (panickyStringer) String() string { panic("String() fails") }

type panickyPtrStringer struct{ s string }

func (p *panickyPtrStringer) String() string { return p.s }

// a user function that re-enters the calculator it is called from (an Eval('<text>') helper): whatever the nested
// expression is, the outer evaluation ends with a value or an error
func runReentrantFunctions(c *Ctx) {
	for _, nested := range []string{"1 + (2 + (3 + 4))", "2 * 3", "1 +", "x", "Max(1, 2, 3) + 1 * 2 - 3", "((((1))))", "1 + 2 + 3 + 4 + 5 + 6 + 7 + 8", "Eval()", ""} {
		for _, outer := range []string{"1 + Eval()", "Eval()", "Eval() + Eval()", "Max(Eval(), 1) * 2", "1 + 2 * Eval() - 3 + 4 * 5", "NOT (Eval() = 1)"} {
			op := "reenter " + strRunes(nested) + " " + strRunes(outer)
			c.record(op, true)
			c.count("reentrant-function")
			st := safeCallT(3*time.Second, func() string {
				calc := calculator.NewExpressionCalculator()
				depth := 0
				calc.DefaultFunctions().Add(functions.NewDelegatedFunction("Eval", func(p []*variants.Variant, o variants.IVariantOperations) (*variants.Variant, error) {
					depth++
					if depth > 3 {
						return variants.VariantFromInteger(0), nil
					}
					if err := calc.SetExpression(nested); err != nil {
						return nil, err
					}
					return calc.Evaluate()
				}))
				if err := calc.SetExpression(outer); err != nil {
					return "parse-err"
				}
				r, err := calc.Evaluate()
				if (r == nil) == (err == nil) {
					return "neither-or-both"
				}
				return ""
			})
			if st != "" && st != "parse-err" {
				c.fail(Failure{Kind: "oracle", Op: op, Impl: st, Note: fmt.Sprintf("a function that sets %q on its own calculator and evaluates it, called from %q: the evaluation must end with a value or an error", nested, outer)})
			}
		}
	}
}

func runUserFunctionFailures(c *Ctx) {
	runReentrantFunctions(c)
	var nilMap map[string]int
	var nilPtr *weird
	fails := map[string]func(){
		"err":       nil, // returns an error (handled separately)
		"str":       func() { panic("text") },
		"error":     func() { panic(fmt.Errorf("wrapped")) },
		"int":       func() { panic(42) },
		"float":     func() { panic(1.5) },
		"struct":    func() { panic(weird{1, 2}) },
		"ptr":       func() { panic(&weird{}) },
		"nilmap":    func() { nilMap["k"] = 1 },
		"nilderef":  func() { _ = nilPtr.a },
		"index":     func() { _ = []int{}[c.Rng.Intn(1)+1] },
		"stringer":  func() { panic(time.Second) },
		"runeslice": func() { panic([]rune("x")) },
		// panic values whose own methods fail: a typed-nil error pointer (its Error() dereferences nil), an error and a
		// Stringer whose methods panic themselves
		"typednilerr":   func() { var e *os.PathError; panic(e) },
		"typednilerr2":  func() { var e *strconv.NumError; panic(error(e)) },
		"panickyerr":    func() { panic(panickyErr{}) },
		"panickystr":    func() { panic(panickyStringer{}) },
		"typednilstr":   func() { var e *panickyPtrStringer; panic(e) },
		"panicnil":      func() { panic(nil) },
		"errnilpayload": func() { panic(&os.PathError{}) },
	}
	for name, f := range fails {
		for _, expr := range []string{"Boom()", "1 + Boom()", "Boom() = 1", "NOT Boom()", "Max(1, Boom())", "Array(1, Boom())[0]", "Boom(1, 2) + Boom()"} {
			op := "userfn " + name + " " + strRunes(expr)
			c.record(op, true)
			c.count("user-function-failure")
			fn := f
			st := safeCallT(3*time.Second, func() string {
				calc := calculator.NewExpressionCalculator()
				funcs := functions.NewDefaultFunctionCollection()
				funcs.Add(functions.NewDelegatedFunction("Boom", func(p []*variants.Variant, o variants.IVariantOperations) (*variants.Variant, error) {
					if fn == nil {
						return nil, fmt.Errorf("plain error")
					}
					fn()
					return variants.VariantFromInteger(1), nil
				}))
				if err := calc.SetExpression(expr); err != nil {
					return "parse-err"
				}
				r, err := calc.EvaluateUsingVariablesAndFunctions(nil, funcs)
				if (r == nil) == (err == nil) {
					return "neither-or-both"
				}
				if err == nil {
					return "value-although-the-function-failed"
				}
				return ""
			})
			if st != "" {
				c.fail(Failure{Kind: "oracle", Op: op, Impl: st, Note: fmt.Sprintf("a user function failing with %s inside %q must surface as an error of the evaluation", name, expr)})
			}
		}
	}
}

var crashTemplates func(c *Ctx)

// a random history of calls on ONE calculator: SetExpression / Evaluate / EvaluateUsingVariables / Clear /
// edits of the default variables and of a caller-supplied collection that is reused across evaluations
func runCalcHistory(c *Ctx, g *exGen) {
	exprs := []string{"x * 2", "x + 1", "b * 2", "a + b", "Max(a, b)", "a[0]", "1 +", "y", "'s' + x"}
	var steps []string
	nSteps := 3 + c.Rng.Intn(6)
	for i := 0; i < nSteps; i++ {
		switch c.Rng.Intn(8) {
		case 0, 1:
			steps = append(steps, "set:"+strRunes(exprs[c.Rng.Intn(len(exprs))]))
		case 2:
			steps = append(steps, "eval")
		case 3:
			steps = append(steps, "evalv")
		case 4:
			steps = append(steps, "clear")
		case 5:
			steps = append(steps, "vclear")
		case 6:
			steps = append(steps, "vadd:"+[]string{"a", "b", "x", "A"}[c.Rng.Intn(4)])
		default:
			steps = append(steps, "vrem:"+[]string{"a", "b", "x"}[c.Rng.Intn(3)])
		}
	}
	runCalcHistorySteps(c, steps)
}

func runCalcHistorySteps(c *Ctx, steps []string) {
	op := "calchist " + strings.Join(steps, " ")
	c.record(op, len(steps) >= 4)
	c.count("calculator-history")
	at := ""
	st := safeCallT(5*time.Second, func() string {
		calc := calculator.NewExpressionCalculator()
		own := variables.NewVariableCollection()
		for _, n := range []string{"a", "b"} {
			own.Add(variables.NewVariable(n, vInt(3)))
		}
		for i, s := range steps {
			at = fmt.Sprintf("step %d (%s)", i, s)
			p := strings.SplitN(s, ":", 2)
			switch p[0] {
			case "set":
				calc.SetExpression(string(parseRunes(p[1])))
			case "eval":
				if r, err := calc.Evaluate(); (r == nil) == (err == nil) {
					return "neither-or-both"
				}
			case "evalv":
				if r, err := calc.EvaluateUsingVariables(own); (r == nil) == (err == nil) {
					return "neither-or-both"
				}
			case "clear":
				calc.Clear()
			case "vclear":
				own.Clear()
				calc.DefaultVariables().Clear()
			case "vadd":
				own.Add(variables.NewVariable(p[1], vInt(5)))
			case "vrem":
				own.RemoveByName(p[1])
				calc.DefaultVariables().RemoveByName(p[1])
			}
		}
		return ""
	})
	if st != "" {
		c.fail(Failure{Kind: "oracle", Op: op, Impl: st, Note: "a sequence of calls on one calculator must return normally, each evaluation with exactly one of a result or an error; failed at " + at})
	}
}

func replayC03(c *Ctx, op string) {
	f := strings.Fields(op)
	switch f[0] {
	case "tokraw":
		var o int
		fmt.Sscanf(f[2], "%d", &o)
		in := ""
		if len(f) > 3 {
			in = string(parseRunes(f[3]))
		}
		runCrashTok(c, f[1], o, in)
	case "tok":
		replayTok(c, op)
	case "calchist":
		runCalcHistorySteps(c, f[1:])
	default:
		replayEval(c, op)
		if tplReplay != nil {
			tplReplay(c, op)
		}
	}
}

var tplReplay func(c *Ctx, op string)

func init() {
	props["C03"] = propC03
	replays["C03"] = replayC03
}
