package main

import (
	"fmt"
	"math"
	"math/big"
	"regexp"
	"strconv"
	"strings"
	"time"

	"github.com/pip-services3-gox/pip-services3-expressions-gox/variants"
)

// C06 operators, C07 conversions

func vInt(i int) *variants.Variant        { return variants.VariantFromInteger(i) }
func vLong(i int64) *variants.Variant     { return variants.VariantFromLong(i) }
func vFloat(f float32) *variants.Variant  { return variants.VariantFromFloat(f) }
func vDouble(f float64) *variants.Variant { return variants.VariantFromDouble(f) }
func vStr(s string) *variants.Variant     { return variants.VariantFromString(s) }
func vBool(b bool) *variants.Variant      { return variants.VariantFromBoolean(b) }
func vNull() *variants.Variant            { return variants.EmptyVariant() }
func vSpan(d time.Duration) *variants.Variant {
	return variants.VariantFromTimeSpan(d)
}
func vTime(t time.Time) *variants.Variant { return variants.VariantFromDateTime(t) }

// encTime prints the seconds a time.Time stores (seconds since year 1, an int64 that wraps for time.Unix
// arguments within 62135596800 of 2^63) minus the Unix offset, as a mathematical integer.
func encTime(t time.Time) string {
	internal := t.Unix() + 62135596800
	s := new(big.Int).Sub(big.NewInt(internal), big.NewInt(62135596800))
	return fmt.Sprintf("t%s.%d", s.String(), t.Nanosecond())
}

// encArg is encVariant for an operand on an op line: a date-time held in a zone other than Local carries
// the zone as a suffix (`@name:offset`), so that a replay rebuilds the same representation; the model and
// every result encoding ignore zones (operators see instants only)
func encArg(v *variants.Variant) string {
	s := encVariant(v)
	if v != nil && v.Type() == variants.DateTime {
		t := v.AsDateTime()
		if name := t.Location().String(); name != "Local" {
			_, off := t.Zone()
			s += fmt.Sprintf("@%s:%d", name, off)
		}
	}
	return s
}

func vArr(es ...*variants.Variant) *variants.Variant {
	return variants.VariantFromArray(es)
}

var ints = []int64{0, 1, -1, 2, 3, 7, 10, 63, 64, 65, 1000, math.MaxInt64, math.MinInt64, 1<<53 + 1, -(1<<53 + 1), 16777217, 4294967296,
	-62135596800, 253402300799, 1<<60 + 1<<36 + 1, 1<<55 + 1<<31 + 1, -(1<<62 + 1<<38 + 1), 1<<60 + 1<<37 + 1<<36 - 1}

func valuePool() map[string][]*variants.Variant {
	p := map[string][]*variants.Variant{}
	for _, i := range ints {
		p["int"] = append(p["int"], vInt(int(i)))
		p["long"] = append(p["long"], vLong(i))
	}
	for _, f := range []float32{0, float32(math.Copysign(0, -1)), 1, -1, 1.5, 0.1, 2, 3, math.MaxFloat32, float32(math.NaN()), float32(math.Inf(1)), float32(math.Inf(-1)), 16777216, 1e10, -2.5} {
		p["float"] = append(p["float"], vFloat(f))
	}
	for _, f := range []float64{0, math.Copysign(0, -1), 1, -1.5, 0.1, 0.5, 2, 3, 9007199254740992, 1e300, math.NaN(), math.Inf(1), math.Inf(-1), 1e19, -1e19, 2.5,
		-0.5, -2.5, -3.5, 0.49999999999999994, 4503599627370497, -4503599627370497, 1.4999999999999998, 2.0000000000000004, -0.9} {
		p["double"] = append(p["double"], vDouble(f))
	}
	for _, s := range []string{"", "a", "ab", "b", "é", "世", "1", "12", "-5", "+7", "007", "1.5", "abc", "true", "Yes", "N", "9007199254740993", "-9223372036854775808", "9223372036854775808", "x y", "0", "1e3", "010", "0x10", "0b11", "0o17", "-010", "0777", "1_000", "h\u00e9llo", "\u65e5\u672c\u8a9eabc", "\u20acuro"} {
		p["str"] = append(p["str"], vStr(s))
	}
	p["bool"] = []*variants.Variant{vBool(true), vBool(false)}
	p["null"] = []*variants.Variant{vNull()}
	for _, d := range []time.Duration{0, time.Millisecond, -time.Millisecond, 1500 * time.Millisecond, time.Hour, math.MaxInt64, math.MinInt64, 999999, 1} {
		p["span"] = append(p["span"], vSpan(d))
	}
	for _, t := range []time.Time{time.Unix(0, 0), time.Unix(1000000000, 0), time.Unix(-1, 0), time.Unix(1600000000, 500), {}, time.Date(2020, 2, 29, 12, 0, 0, 0, time.UTC), time.Unix(253402300799, 0),
		// the same instants held in other representations (zone): operators see instants only
		time.Unix(1000000000, 0).UTC(), time.Unix(1000000000, 0).In(time.FixedZone("E", 3600)), time.Unix(0, 0).In(time.FixedZone("W", -7200))} {
		p["time"] = append(p["time"], vTime(t))
	}
	p["arr"] = []*variants.Variant{vArr(), vArr(vInt(1), vInt(2)), vArr(vStr("a"), vInt(1), vNull()), vArr(vDouble(1.5)), vArr(vArr(vInt(1))), vArr(vStr("12"), vLong(2)),
		vArr(vDouble(2.5), vInt(2)), vArr(vBool(true), vStr("true")), vArr(vInt(0), vDouble(2), vFloat(1.5)), vArr(vLong(7), vStr("7"), vStr("x"))}
	return p
}

var typeNames = []string{"null", "int", "long", "float", "double", "str", "bool", "time", "span", "arr"}

type binFn func(ops variants.IVariantOperations, a, b *variants.Variant) (*variants.Variant, error)

var binOpsV = []struct {
	name string
	f    binFn
}{
	{"add", func(o variants.IVariantOperations, a, b *variants.Variant) (*variants.Variant, error) {
		return o.Add(a, b)
	}},
	{"sub", func(o variants.IVariantOperations, a, b *variants.Variant) (*variants.Variant, error) {
		return o.Sub(a, b)
	}},
	{"mul", func(o variants.IVariantOperations, a, b *variants.Variant) (*variants.Variant, error) {
		return o.Mul(a, b)
	}},
	{"div", func(o variants.IVariantOperations, a, b *variants.Variant) (*variants.Variant, error) {
		return o.Div(a, b)
	}},
	{"mod", func(o variants.IVariantOperations, a, b *variants.Variant) (*variants.Variant, error) {
		return o.Mod(a, b)
	}},
	{"pow", func(o variants.IVariantOperations, a, b *variants.Variant) (*variants.Variant, error) {
		return o.Pow(a, b)
	}},
	{"and", func(o variants.IVariantOperations, a, b *variants.Variant) (*variants.Variant, error) {
		return o.And(a, b)
	}},
	{"or", func(o variants.IVariantOperations, a, b *variants.Variant) (*variants.Variant, error) {
		return o.Or(a, b)
	}},
	{"xor", func(o variants.IVariantOperations, a, b *variants.Variant) (*variants.Variant, error) {
		return o.Xor(a, b)
	}},
	{"lsh", func(o variants.IVariantOperations, a, b *variants.Variant) (*variants.Variant, error) {
		return o.Lsh(a, b)
	}},
	{"rsh", func(o variants.IVariantOperations, a, b *variants.Variant) (*variants.Variant, error) {
		return o.Rsh(a, b)
	}},
	{"equal", func(o variants.IVariantOperations, a, b *variants.Variant) (*variants.Variant, error) {
		return o.Equal(a, b)
	}},
	{"notEqual", func(o variants.IVariantOperations, a, b *variants.Variant) (*variants.Variant, error) {
		return o.NotEqual(a, b)
	}},
	{"more", func(o variants.IVariantOperations, a, b *variants.Variant) (*variants.Variant, error) {
		return o.More(a, b)
	}},
	{"less", func(o variants.IVariantOperations, a, b *variants.Variant) (*variants.Variant, error) {
		return o.Less(a, b)
	}},
	{"moreEqual", func(o variants.IVariantOperations, a, b *variants.Variant) (*variants.Variant, error) {
		return o.MoreEqual(a, b)
	}},
	{"lessEqual", func(o variants.IVariantOperations, a, b *variants.Variant) (*variants.Variant, error) {
		return o.LessEqual(a, b)
	}},
	{"in", func(o variants.IVariantOperations, a, b *variants.Variant) (*variants.Variant, error) {
		return o.In(a, b)
	}},
	{"getElement", func(o variants.IVariantOperations, a, b *variants.Variant) (*variants.Variant, error) {
		return o.GetElement(a, b)
	}},
}

func mgrOf(m string) variants.IVariantOperations {
	if m == "s" {
		return variants.NewTypeSafeVariantOperations()
	}
	return variants.NewTypeUnsafeVariantOperations()
}

// outcome of a (result, error) pair in the model's syntax
func outcome(v *variants.Variant, err error) string {
	switch {
	case v != nil && err != nil:
		return "both"
	case v == nil && err == nil:
		return "neither"
	case err != nil:
		return "err " + errCode(err)
	}
	return "ok " + encVariant(v)
}

var decimalRe = regexp.MustCompile(`^[+-]?[0-9]+$`)

var powRe = regexp.MustCompile(`Hpow\(d([0-9a-fNa]+);d([0-9a-fNa]+)\)`)

func bitsToF64(s string) float64 {
	if s == "NaN" {
		return math.NaN()
	}
	u, _ := strconv.ParseUint(s, 16, 64)
	return math.Float64frombits(u)
}

func encF64(f float64) string {
	if f != f {
		return "dNaN"
	}
	return fmt.Sprintf("d%016x", math.Float64bits(f))
}

// resolveHost evaluates the host terms the harness knows with Go's own functions; returns
// ok=false when an unresolved host term remains (the case is then not compared).
func resolveHost(model string) (string, bool) {
	for {
		m := powRe.FindStringSubmatchIndex(model)
		if m == nil {
			break
		}
		a := bitsToF64(model[m[2]:m[3]])
		b := bitsToF64(model[m[4]:m[5]])
		model = model[:m[0]] + encF64(math.Pow(a, b)) + model[m[1]:]
	}
	for _, f := range hostFns {
		model = f(model)
	}
	return model, !strings.Contains(model, "H")
}

var hostFns []func(string) string

func runOpCase(c *Ctx, m string, opIdx int, a, b *variants.Variant) string {
	o := binOpsV[opIdx]
	op := fmt.Sprintf("op %s %s %s %s", m, o.name, encArg(a), encArg(b))
	var first *variants.Variant
	impl := safeCall(func() string {
		r, err := o.f(mgrOf(m), a, b)
		first = r
		return outcome(r, err)
	})
	c.record(op, a.Type() != variants.Null && b.Type() != variants.Null)
	c.count("op:" + o.name)
	// a result is the caller's own object: writing to it must not change what the same operation returns
	// next time (no result may alias a shared object such as the package-level Empty variant)
	if first != nil && first != a && first != b && o.name != "getElement" && strings.HasPrefix(impl, "ok") {
		again := safeCall(func() string {
			first.SetAsString("\u00a7written-by-the-caller")
			return outcome(o.f(mgrOf(m), a, b))
		})
		if again != impl {
			c.fail(Failure{Kind: "oracle", Op: op, Impl: again, Spec: impl, Note: "after the caller wrote to the first result, the same operation on the same operands returns " + again + " instead of " + impl + ": results share an object"})
			return impl
		}
	}
	if strings.HasPrefix(impl, "panic:") || impl == "both" || impl == "neither" {
		c.fail(Failure{Kind: "oracle", Op: op, Impl: impl, Note: "an operator must return exactly one of a result or an error, and never panic"})
		return impl
	}
	if strings.HasPrefix(impl, "ok") {
		c.count("outcome:value")
	} else {
		c.count("outcome:" + impl)
	}
	// Null propagation
	if (a.Type() == variants.Null || b.Type() == variants.Null) && o.name != "equal" && o.name != "notEqual" && impl != "ok n" {
		c.fail(Failure{Kind: "oracle", Op: op, Impl: impl, Note: "Null must propagate through this operator"})
		return impl
	}
	c.model(op, impl, "model-host")
	return impl
}

func asBoolOutcome(s string) (bool, bool) {
	if s == "ok b1" {
		return true, true
	}
	if s == "ok b0" {
		return false, true
	}
	return false, false
}

func opIndex(name string) int {
	for i, o := range binOpsV {
		if o.name == name {
			return i
		}
	}
	return -1
}

func propC06(c *Ctx) {
	propScaleValues(c, "C06")
	pool := valuePool()
	var all []*variants.Variant
	for _, tn := range typeNames {
		all = append(all, pool[tn]...)
	}
	frac := 10
	if c.Thorough {
		frac = 1
	}
	for _, m := range []string{"u", "s"} {
		for _, a := range all {
			for _, b := range all {
				// a value with itself (the SAME object on both sides) is always tried
				if frac > 1 && a != b && c.Rng.Intn(frac) != 0 {
					continue
				}
				res := map[string]string{}
				for i, o := range binOpsV {
					res[o.name] = runOpCase(c, m, i, a, b)
				}
				// comparison consistency on the implementation itself
				lt, ok1 := asBoolOutcome(res["less"])
				le, ok2 := asBoolOutcome(res["lessEqual"])
				eq, ok3 := asBoolOutcome(res["equal"])
				ne, ok4 := asBoolOutcome(res["notEqual"])
				opl := fmt.Sprintf("op %s less %s %s", m, encArg(a), encArg(b))
				if ok1 && ok2 && ok3 && le != (lt || eq) {
					c.fail(Failure{Kind: "oracle", Op: opl, Impl: res["less"] + " / " + res["lessEqual"] + " / " + res["equal"], Note: "a<=b must be a<b or a=b"})
				}
				gt, ok5 := asBoolOutcome(res["more"])
				ge, ok6 := asBoolOutcome(res["moreEqual"])
				if ok5 && ok6 && ok3 && ge != (gt || eq) {
					c.fail(Failure{Kind: "oracle", Op: fmt.Sprintf("op %s moreEqual %s %s", m, encArg(a), encArg(b)), Impl: res["more"] + " / " + res["moreEqual"] + " / " + res["equal"], Note: "a>=b must be a>b or a=b"})
				}
				if a.Type() == b.Type() && ok6 {
					leRev := safeCall(func() string { return outcome(mgrOf(m).LessEqual(b, a)) })
					if l, ok := asBoolOutcome(leRev); ok && l != ge {
						c.fail(Failure{Kind: "oracle", Op: fmt.Sprintf("op %s moreEqual %s %s", m, encArg(a), encArg(b)), Impl: res["moreEqual"] + " vs LessEqual(b,a) " + leRev, Note: "a>=b must equal b<=a for operands of one type"})
					}
				}
				// indexing follows list semantics
				if b.Type() == variants.Integer && (a.Type() == variants.String || a.Type() == variants.Array) {
					i := b.AsInteger()
					want := "err INDEX_OUT_OF_RANGE"
					if a.Type() == variants.String {
						rs := []rune(a.AsString())
						if i >= 0 && i < len(rs) {
							want = "ok " + encVariant(vStr(string(rs[i])))
						}
					} else if i >= 0 && i < a.Length() {
						want = "ok " + encVariant(a.GetByIndex(i))
					}
					if res["getElement"] != want {
						c.fail(Failure{Kind: "oracle", Op: fmt.Sprintf("op %s getElement %s %s", m, encArg(a), encArg(b)), Impl: res["getElement"], Note: "indexing must follow list semantics: expected " + want})
					}
				}
				// a decimal numeral as second operand of an integer: the host addition of its decimal value
				if (a.Type() == variants.Integer || a.Type() == variants.Long) && b.Type() == variants.String && m == "u" {
					if n, err := strconv.ParseInt(b.AsString(), 10, 64); err == nil && decimalRe.MatchString(b.AsString()) {
						want := "ok l"
						var av int64
						if a.Type() == variants.Long {
							av = a.AsLong()
						} else {
							want = "ok i"
							av = int64(a.AsInteger())
						}
						want += strconv.FormatInt(av+n, 10)
						if res["add"] != want {
							c.fail(Failure{Kind: "oracle", Op: fmt.Sprintf("op %s add %s %s", m, encArg(a), encArg(b)), Impl: res["add"], Note: "the second operand is the decimal numeral " + b.AsString() + ": expected " + want})
						}
					}
				}
				// membership follows list semantics: x IN [e...] iff some x = e (the element converted to x's type),
				// the first failing comparison being the error
				if a.Type() == variants.Array && b.Type() != variants.Null {
					want := safeCall(func() string {
						for _, e := range a.AsArray() {
							eq, err := mgrOf(m).Equal(b, e)
							if err != nil {
								return "err " + errCode(err)
							}
							if eq.Type() == variants.Boolean && eq.AsBoolean() {
								return "ok b1"
							}
						}
						return "ok b0"
					})
					if res["in"] != want {
						c.fail(Failure{Kind: "oracle", Op: fmt.Sprintf("op %s in %s %s", m, encArg(a), encArg(b)), Impl: res["in"], Note: "membership must follow list semantics (x IN [e...] iff some x = e): expected " + want})
					}
				}
				// a container that is not an array is compared with the item by the container's equality: x IN c = (c = x)
				if a.Type() != variants.Array && a.Type() != variants.Null && b.Type() != variants.Null {
					want := safeCall(func() string { return outcome(mgrOf(m).Equal(a, b)) })
					if res["in"] != want {
						c.fail(Failure{Kind: "oracle", Op: fmt.Sprintf("op %s in %s %s", m, encArg(a), encArg(b)), Impl: res["in"], Note: "membership in a non-array container is the container's equality with the item: expected " + want})
					}
				}
				if ok3 && ok4 && ne == eq {
					c.fail(Failure{Kind: "oracle", Op: opl, Impl: res["equal"] + " / " + res["notEqual"], Note: "a<>b must be not a=b"})
				}
				if a.Type() == b.Type() && ok1 {
					gtRev := safeCall(func() string { return outcome(mgrOf(m).More(b, a)) })
					if g, ok := asBoolOutcome(gtRev); ok && g != lt {
						c.fail(Failure{Kind: "oracle", Op: opl, Impl: res["less"] + " vs More(b,a) " + gtRev, Note: "a<b must equal b>a for operands of one type"})
					}
				}
				// '^' is true exponentiation for numeric first operands
				if (a.Type() == variants.Integer || a.Type() == variants.Long || a.Type() == variants.Float || a.Type() == variants.Double) && m == "u" &&
					(b.Type() == variants.Integer || b.Type() == variants.Long || b.Type() == variants.Float || b.Type() == variants.Double) {
					ad, _ := mgrOf("u").Convert(a, variants.Double)
					bd, _ := mgrOf("u").Convert(b, variants.Double)
					want := "ok " + encF64(math.Pow(ad.AsDouble(), bd.AsDouble()))
					if res["pow"] != want {
						c.fail(Failure{Kind: "oracle", Op: fmt.Sprintf("op %s pow %s %s", m, encArg(a), encArg(b)), Impl: res["pow"], Note: "'^' must be exponentiation: expected " + want})
					}
				}
			}
		}
	}
	// float and double arithmetic is the host's IEEE arithmetic of that type, bit for bit (signed zeros, infinities, NaN)
	encF32 := func(f float32) string {
		if f != f {
			return "fNaN"
		}
		return fmt.Sprintf("f%08x", math.Float32bits(f))
	}
	for _, a := range all {
		for _, b := range all {
			if a.Type() != b.Type() || (a.Type() != variants.Float && a.Type() != variants.Double) {
				continue
			}
			for _, name := range []string{"add", "sub", "mul", "div"} {
				got := runOpCase(c, "u", opIndex(name), a, b)
				want := ""
				if a.Type() == variants.Float {
					x, y := a.AsFloat(), b.AsFloat()
					want = "ok " + encF32(map[string]float32{"add": x + y, "sub": x - y, "mul": x * y, "div": x / y}[name])
				} else {
					x, y := a.AsDouble(), b.AsDouble()
					want = "ok " + encF64(map[string]float64{"add": x + y, "sub": x - y, "mul": x * y, "div": x / y}[name])
				}
				if got != want {
					c.fail(Failure{Kind: "oracle", Op: fmt.Sprintf("op u %s %s %s", name, encArg(a), encArg(b)), Impl: got, Note: "the IEEE result of the first operand's type is " + want})
				}
			}
		}
		if a.Type() == variants.Float || a.Type() == variants.Double {
			got := safeCall(func() string { return outcome(mgrOf("u").Negative(a)) })
			want := ""
			if a.Type() == variants.Float {
				want = "ok " + encF32(-a.AsFloat())
			} else {
				want = "ok " + encF64(-a.AsDouble())
			}
			if got != want {
				c.fail(Failure{Kind: "oracle", Op: fmt.Sprintf("op u neg %s", encArg(a)), Impl: got, Note: "the IEEE negation is " + want})
			}
		}
	}
	// mixed numeric operands: the second operand is converted to the first operand's type by the HOST conversion of that
	// type (one rounding: float32(int64), not float32(float64(int64))), under both managers where the type-safe one permits
	// the widening; then the IEEE operation of the first operand's type applies
	for _, a := range all {
		if a.Type() != variants.Float && a.Type() != variants.Double {
			continue
		}
		for _, b := range all {
			if b.Type() != variants.Integer && b.Type() != variants.Long && !(a.Type() == variants.Double && b.Type() == variants.Float) {
				continue
			}
			for _, m := range []string{"u", "s"} {
				for _, name := range []string{"add", "sub", "mul", "div"} {
					got := runOpCase(c, m, opIndex(name), a, b)
					want := ""
					if a.Type() == variants.Float {
						x := a.AsFloat()
						var y float32
						if b.Type() == variants.Integer {
							y = float32(b.AsInteger())
						} else {
							y = float32(b.AsLong())
						}
						want = "ok " + encF32(map[string]float32{"add": x + y, "sub": x - y, "mul": x * y, "div": x / y}[name])
					} else {
						x := a.AsDouble()
						var y float64
						switch b.Type() {
						case variants.Integer:
							y = float64(b.AsInteger())
						case variants.Long:
							y = float64(b.AsLong())
						default:
							y = float64(b.AsFloat())
						}
						want = "ok " + encF64(map[string]float64{"add": x + y, "sub": x - y, "mul": x * y, "div": x / y}[name])
					}
					if got != want {
						c.fail(Failure{Kind: "oracle", Op: fmt.Sprintf("op %s %s %s %s", m, name, encArg(a), encArg(b)), Impl: got, Note: "the second operand converted by the host conversion of the first operand's type, then the IEEE operation, gives " + want})
					}
				}
			}
		}
	}
	// indexing follows list semantics, for every string and array of the pool and every small index (not sampled); strings
	// with bytes that are no valid UTF-8 have the replacement character at those places (what ranging over them gives)
	withBytes := append(append([]*variants.Variant(nil), all...), vStr("a\xe9b"), vStr("\xff"), vStr("ab\x80"), vStr("\xe4\xb8"), vStr("x\xf0\x9f\x98"), vStr("é\xe9"))
	for _, a := range withBytes {
		if a.Type() != variants.String && a.Type() != variants.Array {
			continue
		}
		for i := -2; i <= 40; i++ {
			got := runOpCase(c, "u", opIndex("getElement"), a, vInt(i))
			want := "err INDEX_OUT_OF_RANGE"
			if a.Type() == variants.String {
				if rs := []rune(a.AsString()); i >= 0 && i < len(rs) {
					want = "ok " + encVariant(vStr(string(rs[i])))
				}
			} else if i >= 0 && i < a.Length() {
				want = "ok " + encVariant(a.GetByIndex(i))
			}
			if got != want {
				c.fail(Failure{Kind: "oracle", Op: fmt.Sprintf("op u getElement %s %s", encArg(a), encArg(vInt(i))), Impl: got, Note: "indexing must follow list semantics: expected " + want})
			}
		}
	}
	// the host arithmetic of the other types, for operands of one type: integers (two's complement wrap-around, truncated
	// division), strings (concatenation, byte-wise order), booleans, time spans
	b2s := func(b bool) string {
		if b {
			return "ok b1"
		}
		return "ok b0"
	}
	for _, a := range all {
		for _, b := range all {
			if a.Type() != b.Type() {
				continue
			}
			want := map[string]string{}
			switch a.Type() {
			case variants.Integer, variants.Long:
				var x, y int64
				pre := "ok l"
				if a.Type() == variants.Long {
					x, y = a.AsLong(), b.AsLong()
				} else {
					x, y, pre = int64(a.AsInteger()), int64(b.AsInteger()), "ok i"
				}
				num := func(v int64) string { return pre + strconv.FormatInt(v, 10) }
				want["add"], want["sub"], want["mul"] = num(x+y), num(x-y), num(x*y)
				want["and"], want["or"], want["xor"] = num(x&y), num(x|y), num(x^y)
				if y != 0 && !(x == math.MinInt64 && y == -1) {
					want["div"], want["mod"] = num(x/y), num(x%y)
				}
				want["less"], want["more"], want["equal"], want["lessEqual"], want["moreEqual"], want["notEqual"] = b2s(x < y), b2s(x > y), b2s(x == y), b2s(x <= y), b2s(x >= y), b2s(x != y)
			case variants.String:
				x, y := a.AsString(), b.AsString()
				want["add"] = "ok " + encVariant(vStr(x+y))
				want["less"], want["more"], want["equal"], want["lessEqual"], want["moreEqual"], want["notEqual"] = b2s(x < y), b2s(x > y), b2s(x == y), b2s(x <= y), b2s(x >= y), b2s(x != y)
			case variants.Boolean:
				x, y := a.AsBoolean(), b.AsBoolean()
				want["and"], want["or"], want["xor"], want["equal"], want["notEqual"] = b2s(x && y), b2s(x || y), b2s(x != y), b2s(x == y), b2s(x != y)
			case variants.TimeSpan:
				x, y := a.AsTimeSpan(), b.AsTimeSpan()
				want["add"], want["sub"] = "ok "+encVariant(vSpan(x+y)), "ok "+encVariant(vSpan(x-y))
				want["less"], want["more"], want["equal"], want["lessEqual"], want["moreEqual"], want["notEqual"] = b2s(x < y), b2s(x > y), b2s(x == y), b2s(x <= y), b2s(x >= y), b2s(x != y)
			case variants.DateTime:
				x, y := a.AsDateTime(), b.AsDateTime()
				want["less"], want["more"], want["equal"], want["lessEqual"], want["moreEqual"], want["notEqual"] = b2s(x.Before(y)), b2s(x.After(y)), b2s(x.Equal(y)), b2s(!x.After(y)), b2s(!x.Before(y)), b2s(!x.Equal(y))
			default:
				continue
			}
			for name, w := range want {
				if got := runOpCase(c, "u", opIndex(name), a, b); got != w {
					c.fail(Failure{Kind: "oracle", Op: fmt.Sprintf("op u %s %s %s", name, encArg(a), encArg(b)), Impl: got, Note: "the host arithmetic of the operands' type gives " + w})
				}
			}
		}
	}
	// a whole number as second operand of a float is converted to float ONCE (nearest float32 of the integer, not of its
	// double): integers above 2^53 that sit just above a float32 rounding midpoint show the difference
	var wholes []int64
	for k := uint(54); k <= 62; k++ {
		wholes = append(wholes, int64(1)<<k+int64(1)<<(k-24)+1, -(int64(1)<<k + int64(1)<<(k-24) + 1), int64(1)<<k+3*(int64(1)<<(k-24))-1)
	}
	wholes = append(wholes, 16777217, 9007199254740993, math.MaxInt64, math.MinInt64+1)
	for _, n := range wholes {
		for _, nv := range []*variants.Variant{vLong(n), vInt(int(n))} {
			for _, f := range []float32{0, 1, -2.5} {
				for _, name := range []string{"add", "sub", "mul", "equal", "less"} {
					got := runOpCase(c, "u", opIndex(name), vFloat(f), nv)
					y := float32(n)
					want := map[string]string{"add": "ok " + encF32(f+y), "sub": "ok " + encF32(f-y), "mul": "ok " + encF32(f*y), "equal": b2s(f == y), "less": b2s(f < y)}[name]
					if got != want {
						c.fail(Failure{Kind: "oracle", Op: fmt.Sprintf("op u %s %s %s", name, encArg(vFloat(f)), encArg(nv)), Impl: got, Note: fmt.Sprintf("%d converted to float is %v (one rounding): expected %s", n, y, want)})
					}
				}
			}
		}
	}
	// membership among date-times is equality of instants, whatever representation (zone) the values carry
	inst := time.Unix(1700000000, 0)
	reps := []time.Time{inst.UTC(), inst.In(time.FixedZone("E", 3600)), inst.In(time.FixedZone("W", -7200)), inst.Local()}
	for _, x := range reps {
		for _, y := range reps {
			for _, arr := range []*variants.Variant{vArr(vTime(y)), vArr(vTime(inst.Add(time.Hour)), vTime(y)), vArr(vTime(y), vTime(y))} {
				if got := runOpCase(c, "u", opIndex("in"), arr, vTime(x)); got != "ok b1" {
					c.fail(Failure{Kind: "oracle", Op: fmt.Sprintf("op u in %s %s", encArg(arr), encArg(vTime(x))), Impl: got, Note: "the list holds the same instant (in another zone): membership follows equality, expected ok b1"})
				}
			}
			if got := runOpCase(c, "u", opIndex("in"), vArr(vTime(inst.Add(time.Second))), vTime(x)); got != "ok b0" {
				c.fail(Failure{Kind: "oracle", Op: "op u in <other instant>", Impl: got, Note: "another instant is not a member"})
			}
		}
	}
	// shifts follow the host's integer semantics for every non-negative count: counts of 64 and more (also those whose low 5, 6
	// or 32 bits are zero) shift everything out
	for _, a := range all {
		if a.Type() != variants.Integer && a.Type() != variants.Long {
			continue
		}
		var av int64
		if a.Type() == variants.Long {
			av = a.AsLong()
		} else {
			av = int64(a.AsInteger())
		}
		for _, n := range []int64{0, 1, 5, 31, 32, 33, 62, 63, 64, 65, 127, 128, 255, 256, 1 << 16, 1 << 31, 1<<32 - 1, 1 << 32, 1<<32 + 1, 1<<32 + 63, 1 << 33, 1 << 62, math.MaxInt64} {
			for _, bv := range []*variants.Variant{vLong(n), vInt(int(n))} {
				for _, name := range []string{"lsh", "rsh"} {
					got := runOpCase(c, "u", opIndex(name), a, bv)
					var w int64
					switch {
					case name == "lsh" && n < 64:
						w = av << uint(n)
					case name == "rsh" && n < 64:
						w = av >> uint(n)
					case name == "rsh" && av < 0:
						w = -1
					}
					want := "ok l" + strconv.FormatInt(w, 10)
					if a.Type() == variants.Integer {
						want = "ok i" + strconv.FormatInt(w, 10)
					}
					if got != want {
						c.fail(Failure{Kind: "oracle", Op: fmt.Sprintf("op u %s %s %s", name, encArg(a), encArg(bv)), Impl: got, Note: fmt.Sprintf("%d %s %d in the first operand's integer arithmetic is %s", av, name, n, want)})
					}
				}
			}
		}
	}
	// unary
	for _, a := range all {
		for _, name := range []string{"not", "neg"} {
			op := fmt.Sprintf("op u %s %s", name, encArg(a))
			nm := name
			impl := safeCall(func() string {
				if nm == "not" {
					return outcome(mgrOf("u").Not(a))
				}
				return outcome(mgrOf("u").Negative(a))
			})
			c.record(op, true)
			if strings.HasPrefix(impl, "panic:") || impl == "both" || impl == "neither" {
				c.fail(Failure{Kind: "oracle", Op: op, Impl: impl, Note: "an operator must return exactly one of a result or an error"})
				continue
			}
			// the result is the caller's own: writing into it changes nothing the operator returns next time
			again := safeCall(func() string {
				un := func() (*variants.Variant, error) {
					if nm == "not" {
						return mgrOf("u").Not(a)
					}
					return mgrOf("u").Negative(a)
				}
				if r, err := un(); err == nil && r != nil && r != a {
					r.SetAsString("\u00a7written-by-the-caller")
				}
				return outcome(un())
			})
			if again != impl {
				c.fail(Failure{Kind: "oracle", Op: op, Impl: again, Spec: impl, Note: "after the caller wrote to the first result, the same operation returns " + again + " instead of " + impl + ": results share an object"})
				continue
			}
			c.model(op, impl, "model-host")
		}
	}
	c.Notes = append(c.Notes, fmt.Sprintf("operator x type x type matrix: 19 binary operators x 2 managers x ordered pairs from %d boundary values of 10 types (1/%d of the pairs sampled in this tier), plus Not/Negative on every value; direct oracles: exactly-one-of result/error, Null propagation, comparison consistency, '^' = math.Pow", len(all), frac))
}

func replayC06(c *Ctx, op string) {
	f := strings.Fields(op)
	if len(f) == 5 && f[0] == "cellconv" {
		v1, v2 := decVariant(f[2]), decVariant(f[3])
		var t int
		fmt.Sscanf(f[4], "%d", &t)
		if v1 != nil && v2 != nil {
			mg := mgrOf(f[1])
			cell := variants.EmptyVariant()
			got := safeCall(func() string {
				cell.Assign(v1)
				mg.Convert(cell, variants.VariantType(t))
				cell.Assign(v2)
				return outcome(mg.Convert(cell, variants.VariantType(t)))
			})
			want := safeCall(func() string { return outcome(mgrOf(f[1]).Convert(v2.Clone(), variants.VariantType(t))) })
			c.record(op, true)
			if got != want {
				c.fail(Failure{Kind: "oracle", Op: op, Impl: got, Spec: want, Note: "re-conversion of a re-assigned Variant on the same manager differs from a new manager on a new Variant"})
			}
		}
		return
	}
	if len(f) == 5 && f[0] == "op" {
		a, b := decVariant(f[3]), decVariant(f[4])
		if a != nil && b != nil && opIndex(f[2]) >= 0 {
			runOpCase(c, f[1], opIndex(f[2]), a, b)
		}
	}
	if len(f) == 4 && f[0] == "conv" {
		a := decVariant(f[2])
		var t int
		fmt.Sscanf(f[3], "%d", &t)
		if a != nil {
			runConvCase(c, f[1], a, variants.VariantType(t))
		}
	}
}

// decVariant: inverse of encVariant (for replays)
func decVariant(s string) *variants.Variant {
	if s == "" {
		return nil
	}
	switch s[0] {
	case 'n':
		return vNull()
	case 'i':
		n, _ := strconv.ParseInt(s[1:], 10, 64)
		return vInt(int(n))
	case 'l':
		n, _ := strconv.ParseInt(s[1:], 10, 64)
		return vLong(n)
	case 'f':
		if s == "fNaN" {
			return vFloat(float32(math.NaN()))
		}
		u, _ := strconv.ParseUint(s[1:], 16, 32)
		return vFloat(math.Float32frombits(uint32(u)))
	case 'd':
		return vDouble(bitsToF64(s[1:]))
	case 's':
		if len(s) == 1 {
			return vStr("")
		}
		var rs []rune
		for _, p := range strings.Split(s[1:], ".") {
			n, _ := strconv.Atoi(p)
			rs = append(rs, rune(n))
		}
		return vStr(string(rs))
	case 'b':
		return vBool(s == "b1")
	case 'p':
		n, _ := strconv.ParseInt(s[1:], 10, 64)
		return vSpan(time.Duration(n))
	case 't':
		zone := ""
		if i := strings.IndexByte(s, '@'); i >= 0 {
			zone, s = s[i+1:], s[:i]
		}
		p := strings.Split(s[1:], ".")
		bs, _ := new(big.Int).SetString(p[0], 10)
		ns, _ := strconv.ParseInt(p[1], 10, 64)
		sec := int64(new(big.Int).And(bs, new(big.Int).SetUint64(math.MaxUint64)).Uint64())
		t := time.Unix(sec, ns)
		if zp := strings.Split(zone, ":"); len(zp) == 2 {
			off, _ := strconv.Atoi(zp[1])
			if zp[0] == "UTC" {
				t = t.UTC()
			} else {
				t = t.In(time.FixedZone(zp[0], off))
			}
		}
		return vTime(t)
	case 'a':
		inner := s[2 : len(s)-1]
		var es []*variants.Variant
		depth, start := 0, 0
		for i := 0; i <= len(inner); i++ {
			if i == len(inner) || (inner[i] == '/' && depth == 0) {
				if i > start {
					es = append(es, decVariant(inner[start:i]))
				}
				start = i + 1
			} else if inner[i] == '[' {
				depth++
			} else if inner[i] == ']' {
				depth--
			}
		}
		return vArr(es...)
	}
	return nil
}

// ---- C07 ------------------------------------------------------------------------------------

func runConvCase(c *Ctx, m string, a *variants.Variant, t variants.VariantType) string {
	op := fmt.Sprintf("conv %s %s %d", m, encArg(a), int(t))
	var res *variants.Variant
	mg := mgrOf(m) // one manager for the conversion and its repetition: nothing the first call produced may be remembered
	impl := safeCall(func() string {
		r, err := mg.Convert(a, t)
		res = r
		return outcome(r, err)
	})
	c.record(op, a.Type() != t && t != variants.Object && t != variants.Null)
	c.count(fmt.Sprintf("target:%d", int(t)))
	if res != nil && res != a && strings.HasPrefix(impl, "ok") {
		again := safeCall(func() string {
			if c.Evals%2 == 0 {
				res.SetAsString("\u00a7written-by-the-caller")
			} else {
				res.SetAsInteger(res.Length() + 43)
			}
			r2, err := mg.Convert(a.Clone(), t) // an equal value in another object, the same manager
			if g := outcome(r2, err); g != impl {
				return g
			}
			r2, err = mg.Convert(a, t)
			res = r2
			return outcome(r2, err)
		})
		if again != impl {
			c.fail(Failure{Kind: "oracle", Op: op, Impl: again, Spec: impl, Note: "after the caller wrote to the first result, the same conversion returns " + again + " instead of " + impl + ": results share an object"})
			return impl
		}
	}
	if strings.HasPrefix(impl, "panic:") || impl == "both" || impl == "neither" {
		c.fail(Failure{Kind: "oracle", Op: op, Impl: impl, Note: "a conversion must return exactly one of a result or an error"})
		return impl
	}
	if strings.HasPrefix(impl, "ok") {
		// delivers exactly the requested type; Object / own type → the unchanged value
		if t == variants.Object || t == a.Type() {
			if encVariant(res) != encVariant(a) {
				c.fail(Failure{Kind: "oracle", Op: op, Impl: impl, Note: "requesting Object or the value's own type must return the unchanged value"})
				return impl
			}
		} else if res.Type() != t {
			c.fail(Failure{Kind: "oracle", Op: op, Impl: impl, Note: fmt.Sprintf("successful conversion returned type %d instead of the requested type %d", res.Type(), t)})
			return impl
		}
		// the units named by the property: time spans count in milliseconds, date-times in Unix seconds
		if a.Type() == variants.Integer || a.Type() == variants.Long {
			var n int64
			if a.Type() == variants.Long {
				n = a.AsLong()
			} else {
				n = int64(a.AsInteger())
			}
			if t == variants.TimeSpan && n > -1<<40 && n < 1<<40 && res.AsTimeSpan() != time.Duration(n)*time.Millisecond {
				c.fail(Failure{Kind: "oracle", Op: op, Impl: impl, Note: fmt.Sprintf("%d converted to a time span must be %d milliseconds, got %v", n, n, res.AsTimeSpan())})
				return impl
			}
			if t == variants.DateTime && !res.AsDateTime().Equal(time.Unix(n, 0)) {
				c.fail(Failure{Kind: "oracle", Op: op, Impl: impl, Note: fmt.Sprintf("%d converted to a date-time must be %d seconds after the Unix epoch, got %v", n, n, res.AsDateTime())})
				return impl
			}
		}
		if a.Type() == variants.TimeSpan && (t == variants.Long || t == variants.Integer) {
			want := int64(a.AsTimeSpan() / time.Millisecond)
			got := int64(0)
			if t == variants.Long {
				got = res.AsLong()
			} else {
				got = int64(res.AsInteger())
			}
			if got != want {
				c.fail(Failure{Kind: "oracle", Op: op, Impl: impl, Note: fmt.Sprintf("the time span %v converted to an integer type must be %d (milliseconds), got %d", a.AsTimeSpan(), want, got)})
				return impl
			}
		}
		if a.Type() == variants.DateTime && (t == variants.Long || t == variants.Integer) {
			want := a.AsDateTime().Unix()
			got := int64(0)
			if t == variants.Long {
				got = res.AsLong()
			} else {
				got = int64(res.AsInteger())
			}
			if got != want {
				c.fail(Failure{Kind: "oracle", Op: op, Impl: impl, Note: fmt.Sprintf("the date-time %v converted to an integer type must be %d (Unix seconds), got %d", a.AsDateTime(), want, got)})
				return impl
			}
		}
		if a.Type() == variants.String && (t == variants.Integer || t == variants.Long) && decimalRe.MatchString(a.AsString()) {
			if n, err := strconv.ParseInt(a.AsString(), 10, 64); err == nil {
				want := "ok " + map[variants.VariantType]string{variants.Integer: "i", variants.Long: "l"}[t] + strconv.FormatInt(n, 10)
				if impl != want {
					c.fail(Failure{Kind: "oracle", Op: op, Impl: impl, Note: "a decimal numeral converts to its decimal value: expected " + want})
					return impl
				}
			}
		}
		if m == "s" {
			// whitelist + agreement with the unsafe manager
			okPair := t == variants.Null || t == variants.Object || t == a.Type() ||
				(a.Type() == variants.Integer && (t == variants.Long || t == variants.Float || t == variants.Double)) ||
				(a.Type() == variants.Long && (t == variants.Float || t == variants.Double)) ||
				(a.Type() == variants.Float && t == variants.Double)
			if !okPair {
				c.fail(Failure{Kind: "oracle", Op: op, Impl: impl, Note: "the type-safe manager permits only the numeric widenings"})
				return impl
			}
			u := safeCall(func() string { return outcome(mgrOf("u").Convert(a, t)) })
			if u != impl {
				c.fail(Failure{Kind: "oracle", Op: op, Impl: impl, Note: "type-safe result differs from the type-unsafe result " + u})
				return impl
			}
		}
	}
	c.model(op, impl, "model-host")
	return impl
}

// lossless round trips: (source type, via type, predicate on the source value)
func roundTrips(c *Ctx, a *variants.Variant) {
	u := mgrOf("u")
	check := func(via variants.VariantType, label string) {
		op := fmt.Sprintf("conv u %s %d", encArg(a), int(via))
		r := safeCall(func() string {
			x, err := u.Convert(a, via)
			if err != nil {
				return "err1"
			}
			y, err := u.Convert(x, a.Type())
			if err != nil {
				return "err2"
			}
			return encVariant(y)
		})
		c.count("roundtrip:" + label)
		if r != encVariant(a) {
			c.fail(Failure{Kind: "oracle", Op: op, Impl: r, Note: fmt.Sprintf("round trip %s: %s came back as %s", label, encVariant(a), r)})
		}
	}
	abs := func(i int64) uint64 {
		if i < 0 {
			return uint64(-i)
		}
		return uint64(i)
	}
	switch a.Type() {
	case variants.Integer, variants.Long:
		var i int64
		if a.Type() == variants.Integer {
			i = int64(a.AsInteger())
			check(variants.Long, "integer<->long")
		} else {
			i = a.AsLong()
			check(variants.Integer, "long<->integer")
		}
		if abs(i) <= 1<<53 {
			check(variants.Double, "int/long<->double (exact range)")
		}
		if abs(i) <= 9223372036854 {
			check(variants.TimeSpan, "int/long<->time span (ms)")
		}
		if abs(i) <= 253402300799 {
			check(variants.DateTime, "int/long<->date-time (s)")
		}
		check(variants.String, "int/long<->string")
	case variants.Float:
		check(variants.Double, "float->double")
	case variants.DateTime:
		if a.AsDateTime().Nanosecond() == 0 {
			check(variants.Long, "date-time<->long (s)")
			check(variants.Integer, "date-time<->integer (s)")
		}
	case variants.TimeSpan:
		if int64(a.AsTimeSpan())%1000000 == 0 {
			check(variants.Long, "time span<->long (ms)")
		}
	case variants.Boolean:
		check(variants.Integer, "boolean<->integer")
		check(variants.Long, "boolean<->long")
		check(variants.Float, "boolean<->float")
		check(variants.Double, "boolean<->double")
		check(variants.String, "boolean<->string")
	}
}

func propC07(c *Ctx) {
	propScaleValues(c, "C07")
	pool := valuePool()
	var all []*variants.Variant
	for _, tn := range typeNames {
		all = append(all, pool[tn]...)
	}
	n := 200
	if c.Thorough {
		n = 20000
	}
	for i := 0; i < n; i++ {
		x := c.Rng.Int63() >> uint(c.Rng.Intn(63))
		if c.Rng.Intn(2) == 0 {
			x = -x
		}
		all = append(all, vInt(int(x)), vLong(x), vDouble(float64(x)/7), vFloat(float32(x)/3), vStr(strconv.FormatInt(x, 10)), vSpan(time.Duration(x)))
		// integers that round differently when narrowed to float32 via float64 (double rounding)
		k := uint(54 + c.Rng.Intn(9))
		y := int64(1)<<k + int64(1)<<(k-24) + 1
		if c.Rng.Intn(2) == 0 {
			y = -y
		}
		all = append(all, vLong(y), vInt(int(y)), vTime(time.Unix(x%253402300799, 0)))
	}
	// seconds counts beyond what milliseconds or nanoseconds in 64 bits can hold
	for _, n := range []int64{9223372036854776, -9223372036854776, 9223372036854775, 9223372037, -9223372037, 1 << 62, -(1 << 62), 1 << 53, 253402300800, -62135596801} {
		all = append(all, vLong(n), vInt(int(n)))
	}
	// date-times in zones with daylight saving: the repeated hour when it ends, the skipped hour when it starts, both
	// representations of one instant
	for _, zn := range []string{"America/New_York", "Europe/Berlin", "Australia/Lord_Howe"} {
		if loc, err := time.LoadLocation(zn); err == nil {
			for _, sec := range []int64{1636263000, 1636266600, 1636270200, 1615705200, 1615708800, 1635640200, 1635643800, 1635647400, 1617496200, 1617499800} {
				all = append(all, vTime(time.Unix(sec, 0).In(loc)), vTime(time.Unix(sec, 500).In(loc)))
			}
		}
	}
	for _, a := range all {
		for t := 0; t <= 10; t++ {
			for _, m := range []string{"u", "s"} {
				runConvCase(c, m, a, variants.VariantType(t))
			}
		}
		roundTrips(c, a)
	}
	// a Variant is a mutable cell and a manager a long-lived object: converting the same cell again after its content was
	// replaced, on the same manager, gives what a new manager gives for a new Variant holding the new content
	base := pool["str"]
	base = append(base, pool["int"]...)
	base = append(base, pool["bool"]...)
	base = append(base, pool["double"]...)
	for _, m := range []string{"u", "s"} {
		mg := mgrOf(m)
		cell := variants.EmptyVariant()
		for i, v1 := range base {
			for j, v2 := range base {
				if !c.Thorough && (i*31+j*17)%5 != 0 && !(v1.Type() == variants.String && v2.Type() == variants.String) {
					continue
				}
				for _, t := range []variants.VariantType{variants.Long, variants.Integer, variants.Boolean, variants.Double, variants.String, variants.Float} {
					op := fmt.Sprintf("cellconv %s %s %s %d", m, encArg(v1), encArg(v2), int(t))
					got := safeCall(func() string {
						cell.Assign(v1)
						mg.Convert(cell, t)
						cell.Assign(v2)
						return outcome(mg.Convert(cell, t))
					})
					want := safeCall(func() string { return outcome(mgrOf(m).Convert(v2.Clone(), t)) })
					c.record(op, v1.Type() == v2.Type())
					c.count("cell-reconversion")
					if got != want {
						c.fail(Failure{Kind: "oracle", Op: op, Impl: got, Spec: want, Note: fmt.Sprintf("a Variant that held %s was converted, then assigned %s and converted again on the same manager: got %s; a new manager gives %s for a new Variant holding %s", encArg(v1), encArg(v2), got, want, encArg(v2))})
					}
				}
			}
		}
	}
	c.Notes = append(c.Notes, fmt.Sprintf("every value of the boundary pool (10 types) plus %d random integers/longs/doubles/floats/decimal strings/time spans x 11 target types x 2 managers; round-trip chains integer<->long, int/long<->double within 2^53, int/long<->time span, int/long<->date-time, int/long/boolean<->string, float->double, boolean<->numeric; host-dependent texts (float formatting, date parsing) are produced by the model as host terms and not compared", 6*n))
}

func init() {
	props["C06"] = propC06
	props["C07"] = propC07
	replays["C06"] = replayC06
	replays["C07"] = replayC06
}
