/-
C11: the cursor laws (Props/C11.lean) and the unbounded line count (Props/C11Clauses.lean).
-/
import Verif.Props.C11
import Verif.Props.C11Clauses
