// vh — differential / oracle harness for the Lean model of pip-services3-expressions-gox.
//
// usage: vh -prop C11 -tier quick|thorough -seed N -vdrv <path> -out <summary.json> [-replay <file>]
//
// For every case the harness (1) runs the REAL library in-process, (2) evaluates the
// property's direct oracle on the implementation's own output, (3) sends the same op line to
// the Lean model driver and compares the answers.  It never decides a verdict on its own: it
// writes a summary that ./check turns into evidence and a verdict.
package main

import (
	"bufio"
	"encoding/json"
	"flag"
	"fmt"
	"hash/fnv"
	"math/rand"
	"os"
	"os/exec"
	"sort"
	"strings"
	"time"
)

type Failure struct {
	Kind  string `json:"kind"` // oracle | correspondence | spec-mismatch
	Op    string `json:"op"`
	Impl  string `json:"impl"`
	Model string `json:"model,omitempty"`
	Spec  string `json:"spec,omitempty"`
	Note  string `json:"note,omitempty"`
}

type pendingCase struct {
	op   string
	impl string
	// cmp selects how the driver's answer is compared:
	//   "model"      driver line == impl
	//   "model|spec" driver line is "<model> | <spec>"; impl must equal both
	cmp string
}

type Ctx struct {
	Prop     string
	Tier     string
	Seed     int64
	Rng      *rand.Rand
	Vdrv     string
	Thorough bool

	pending  []pendingCase
	Evals    int
	distinct map[uint64]struct{}
	Nontriv  int
	Samples  []string
	Dist     map[string]int
	Failures []Failure
	TracesOK int
	Notes    []string
	MaxFail  int
}

func (c *Ctx) count(key string) { c.Dist[key]++ }

func hash64(s string) uint64 { h := fnv.New64a(); h.Write([]byte(s)); return h.Sum64() }

// Record one evaluated case.  nontrivial says whether the case is non-trivial by the
// property's stated rule; only distinct op lines are counted.
func (c *Ctx) record(op string, nontrivial bool) bool {
	c.Evals++
	h := hash64(op)
	if _, ok := c.distinct[h]; ok {
		return false
	}
	c.distinct[h] = struct{}{}
	if nontrivial {
		c.Nontriv++
	}
	if len(c.Samples) < 12 && (c.Evals%997 == 1 || len(c.Samples) < 3) {
		c.Samples = append(c.Samples, op)
	}
	return true
}

var hangCount int
var finishFn func()

func (c *Ctx) fail(f Failure) {
	if f.Impl == "hang" || strings.Contains(f.Note, "hang") {
		hangCount++
		defer func() {
			if hangCount >= 3 {
				// every abandoned call keeps spinning on a core: stop generating, report what we have
				c.Notes = append(c.Notes, "run cut short after 3 non-terminating calls")
				finishFn()
				os.Exit(0)
			}
		}()
	}
	// retain up to MaxFail failures per kind, preferring the shortest op lines
	n, worst := 0, -1
	for i := range c.Failures {
		if c.Failures[i].Kind == f.Kind {
			n++
			if worst < 0 || len(c.Failures[i].Op) > len(c.Failures[worst].Op) {
				worst = i
			}
		}
	}
	if n < c.MaxFail {
		c.Failures = append(c.Failures, f)
	} else if len(f.Op) < len(c.Failures[worst].Op) {
		c.Failures[worst] = f
	}
	c.count("FAIL:" + f.Kind)
}

// Queue a case for comparison against the model driver.
func (c *Ctx) model(op, impl, cmp string) {
	if len(op) > 6000 && (strings.HasPrefix(op, "tok c:") || strings.HasPrefix(op, "tok C:") || strings.HasPrefix(op, "tok D:") || strings.HasPrefix(op, "tok E:")) {
		// the csv model reads a long word character by character onto the end of a list (quadratic): inputs beyond ~1500
		// characters are judged by the direct oracles only
		c.count("csv-long-input(not compared with the model)")
		return
	}
	c.pending = append(c.pending, pendingCase{op, impl, cmp})
	if len(c.pending) >= 200000 {
		c.flush()
	}
}

func (c *Ctx) flush() {
	if len(c.pending) == 0 {
		return
	}
	cmd := exec.Command(c.Vdrv)
	stdin, err := cmd.StdinPipe()
	if err != nil {
		panic(err)
	}
	stdout, err := cmd.StdoutPipe()
	if err != nil {
		panic(err)
	}
	cmd.Stderr = os.Stderr
	if err := cmd.Start(); err != nil {
		fmt.Fprintln(os.Stderr, "cannot start vdrv:", err)
		os.Exit(3)
	}
	pend := c.pending
	c.pending = nil
	go func() {
		w := bufio.NewWriterSize(stdin, 1<<20)
		for _, p := range pend {
			w.WriteString(p.op)
			w.WriteByte('\n')
		}
		w.Flush()
		stdin.Close()
	}()
	sc := bufio.NewScanner(stdout)
	sc.Buffer(make([]byte, 1<<20), 1<<28)
	i := 0
	for sc.Scan() {
		if i >= len(pend) {
			break
		}
		line := sc.Text()
		p := pend[i]
		i++
		switch p.cmp {
		case "model":
			if line != p.impl {
				c.fail(Failure{Kind: "correspondence", Op: p.op, Impl: p.impl, Model: line})
			} else {
				c.TracesOK++
			}
		case "model-host":
			// the model may answer with host terms: resolve the ones we can with Go's own
			// functions, skip the comparison when an unresolved one remains
			ml, ok := resolveHost(line)
			if !ok {
				c.count("host-dependent(not compared)")
			} else if ml != p.impl {
				c.fail(Failure{Kind: "correspondence", Op: p.op, Impl: p.impl, Model: ml})
			} else {
				c.TracesOK++
			}
		case "errprefix":
			// accept/reject only: the model must reject too (any code)
			if !strings.HasPrefix(line, "err ") {
				c.fail(Failure{Kind: "correspondence", Op: p.op, Impl: "err <some code>", Model: line})
			} else {
				c.TracesOK++
			}
		case "model|spec":
			parts := strings.SplitN(line, " | ", 2)
			m, s := parts[0], ""
			if len(parts) == 2 {
				s = parts[1]
			}
			if p.impl != s {
				c.fail(Failure{Kind: "oracle", Op: p.op, Impl: p.impl, Model: m, Spec: s, Note: "implementation differs from the Lean Spec"})
			} else if p.impl != m {
				c.fail(Failure{Kind: "correspondence", Op: p.op, Impl: p.impl, Model: m, Spec: s})
			} else {
				c.TracesOK++
			}
		}
	}
	cmd.Wait()
	if i != len(pend) {
		c.fail(Failure{Kind: "correspondence", Op: pend[i].op, Impl: pend[i].impl, Model: "<driver stopped answering>"})
	}
}

// safeCall runs fn, turning a panic into "panic:<msg>".
func safeCall(fn func() string) (res string) {
	defer func() {
		if r := recover(); r != nil {
			msg := fmt.Sprint(r)
			if len(msg) > 80 {
				msg = msg[:80]
			}
			res = "panic:" + strings.ReplaceAll(msg, " ", "_")
		}
	}()
	return fn()
}

// safeCallT is safeCall with a watchdog: a call that does not return within d is reported as
// "hang" (the goroutine is abandoned).
func safeCallT(d time.Duration, fn func() string) string {
	ch := make(chan string, 1)
	go func() { ch <- safeCall(fn) }()
	select {
	case r := <-ch:
		return r
	case <-time.After(d):
	}
	// Not back in time: on a loaded machine a starved goroutine looks like a hang.  Give the same call
	// ten times longer before calling it one (a real endless loop is still reported, just later).
	select {
	case r := <-ch:
		slowCalls++
		return r
	case <-time.After(10 * d):
		return "hang"
	}
}

var slowCalls int

func runesStr(rs []rune) string {
	if len(rs) == 0 {
		return "-"
	}
	var sb strings.Builder
	for i, r := range rs {
		if i > 0 {
			sb.WriteByte(',')
		}
		fmt.Fprintf(&sb, "%d", r)
	}
	return sb.String()
}

func strRunes(s string) string { return runesStr([]rune(s)) }

func parseRunes(s string) []rune {
	if s == "-" || s == "" {
		return nil
	}
	var out []rune
	for _, p := range strings.Split(s, ",") {
		var n int
		fmt.Sscanf(p, "%d", &n)
		out = append(out, rune(n))
	}
	return out
}

type propFn func(c *Ctx)
type replayFn func(c *Ctx, op string)

var props = map[string]propFn{}
var replays = map[string]replayFn{}

type Summary struct {
	Prop     string         `json:"prop"`
	Tier     string         `json:"tier"`
	Seed     int64          `json:"seed"`
	Evals    int            `json:"evaluations"`
	Distinct int            `json:"distinct"`
	Nontriv  int            `json:"distinct_nontrivial"`
	TracesOK int            `json:"traces_validated_against_impl"`
	Samples  []string       `json:"samples"`
	Dist     map[string]int `json:"distribution"`
	Failures []Failure      `json:"failures"`
	Notes    []string       `json:"notes"`
	WallS    float64        `json:"wall_s"`
}

func main() {
	prop := flag.String("prop", "", "property id")
	tier := flag.String("tier", "quick", "quick|thorough")
	seed := flag.Int64("seed", 1, "seed")
	vdrv := flag.String("vdrv", "", "path to vdrv")
	out := flag.String("out", "", "summary json")
	replay := flag.String("replay", "", "file with op lines to replay")
	extract := flag.String("extract", "", "write the regenerated Lean facts (Tie A) into this directory and exit")
	flag.Parse()
	if *extract != "" {
		runExtract(*extract)
		return
	}
	t0 := time.Now()
	c := &Ctx{Prop: *prop, Tier: *tier, Seed: *seed, Rng: rand.New(rand.NewSource(*seed ^ int64(hash64(*prop)&0x7fffffff))),
		Vdrv: *vdrv, Thorough: *tier == "thorough", distinct: map[uint64]struct{}{}, Dist: map[string]int{}, MaxFail: 25}
	finishFn = func() {
		c.flush()
		sort.Slice(c.Failures, func(i, j int) bool {
			if c.Failures[i].Kind != c.Failures[j].Kind {
				return c.Failures[i].Kind == "oracle"
			}
			return len(c.Failures[i].Op) < len(c.Failures[j].Op)
		})
		s := Summary{Prop: *prop, Tier: *tier, Seed: *seed, Evals: c.Evals, Distinct: len(c.distinct), Nontriv: c.Nontriv,
			TracesOK: c.TracesOK, Samples: c.Samples, Dist: c.Dist, Failures: c.Failures, Notes: c.Notes, WallS: time.Since(t0).Seconds()}
		if s.Failures == nil {
			s.Failures = []Failure{}
		}
		data, _ := json.MarshalIndent(s, "", " ")
		if *out != "" {
			os.WriteFile(*out, data, 0644)
		} else {
			os.Stdout.Write(data)
		}
	}
	if *replay != "" {
		rf, ok := replays[*prop]
		if !ok {
			fmt.Fprintln(os.Stderr, "no replay for", *prop)
			os.Exit(3)
		}
		data, err := os.ReadFile(*replay)
		if err != nil {
			fmt.Fprintln(os.Stderr, err)
			os.Exit(3)
		}
		for _, l := range strings.Split(string(data), "\n") {
			l = strings.TrimSpace(l)
			if l == "" || strings.HasPrefix(l, "#") {
				continue
			}
			rf(c, l)
		}
	} else {
		f, ok := props[*prop]
		if !ok {
			fmt.Fprintln(os.Stderr, "unknown property", *prop)
			os.Exit(3)
		}
		f(c)
	}
	finishFn()
}
