/-
C08 — "Every default function, looked up by name in any letter case and called with a valid
number of arguments, returns the value its name denotes with a fixed result type … A wrong
argument count or an inapplicable argument yields an error — never a nil result without error
and never a silently substituted value."

Model: `Verif/Model/Funcs.lean` (`findFn`, `calcFn`, `callFn`).  `upperStr` (the full Unicode
upper-casing table) is never unfolded: every lookup fact holds for an arbitrary case mapping.
-/
import Verif.Model.Funcs
import Verif.Lemmas.ValueLemmas
import Verif.Lemmas.FuncLemmas
import Verif.Props.C06
import Verif.Props.C07
namespace Verif

/-! ## 1. no panics -/

/-- holds for every name, every argument count and all arguments (host-dependent included) -/
theorem C08_never_panics (m : Mgr) (name : List Rune) (args : List V) (s : String) :
    callFn m name args ≠ .panic s := by
  revert s
  show (callFn m name args).NoPanic
  unfold callFn
  split
  · split
    · exact .ok _
    · exact calcFn_noPanic m _ args
  · exact .err _

theorem C08_calc_never_panics (m : Mgr) (fn : String) (args : List V) (s : String) :
    calcFn m fn args ≠ .panic s := calcFn_noPanic m fn args s

/-! ## 2. lookup by name, in any letter case -/

/-- the lookup only looks at the upper-cased name: names that upper-case alike resolve alike -/
theorem C08_lookup_case {name name' : List Rune} (h : upperStr name = upperStr name') :
    findFn name = findFn name' := by
  unfold findFn
  rw [h]

theorem C08_call_case (m : Mgr) {name name' : List Rune} (args : List V)
    (h : upperStr name = upperStr name') : callFn m name args = callFn m name' args := by
  unfold callFn
  rw [C08_lookup_case h]

theorem C08_unknown (m : Mgr) {name : List Rune} (args : List V) (h : findFn name = none) :
    callFn m name args = .err "FUNC_NOT_FOUND" := by
  simp [callFn, h]

/-- a name is unknown exactly when no registered name upper-cases like it -/
theorem C08_unknown_iff (name : List Rune) :
    findFn name = none ↔ ∀ fn ∈ fnNames, upperStr (strOf fn) ≠ upperStr name := by
  simp [findFn, List.find?_eq_none]

/-- what is found is a registered name that upper-cases like the requested one -/
theorem C08_found {name : List Rune} {fn : String} (h : findFn name = some fn) :
    fn ∈ fnNames ∧ upperStr (strOf fn) = upperStr name := by
  unfold findFn at h
  refine ⟨List.mem_of_find?_eq_some h, ?_⟩
  have := List.find?_some h
  simpa using this

/-- first registration wins -/
theorem C08_first_wins {name : List Rune} {fn : String} {pre post : List String}
    (hsplit : fnNames = pre ++ fn :: post)
    (hpre : ∀ g ∈ pre, upperStr (strOf g) ≠ upperStr name)
    (hfn : upperStr (strOf fn) = upperStr name) : findFn name = some fn := by
  unfold findFn
  rw [hsplit, List.find?_append]
  have h1 : List.find? (fun f => upperStr (strOf f) == upperStr name) pre = none := by
    rw [List.find?_eq_none]
    intro g hg
    simpa using hpre g hg
  rw [h1]
  simp [hfn]

/-- every canonical name finds itself, provided the registered names are pairwise different
after upper-casing (a closed fact about the case table, which is not unfolded here) -/
theorem C08_canonical_found
    (hnd : (fnNames.map fun f => upperStr (strOf f)).Nodup) :
    ∀ fn ∈ fnNames, findFn (strOf fn) = some fn := by
  intro fn hfn
  obtain ⟨pre, post, hsplit⟩ := List.append_of_mem hfn
  refine C08_first_wins hsplit ?_ rfl
  intro g hg heq
  rw [hsplit, List.map_append, List.map_cons, List.nodup_append] at hnd
  exact hnd.2.2 _ (List.mem_map_of_mem hg) _ List.mem_cons_self heq

/-- a found function is called on the arguments as given (no host-dependent argument) … -/
theorem C08_call_found (m : Mgr) {name : List Rune} {fn : String} (args : List V)
    (h : findFn name = some fn) (hh : args.all (fun a => !isHostV a) = true) :
    callFn m name args = calcFn m fn args := by
  have : args.any isHostV = false := by
    rw [List.any_eq_false]
    intro a ha
    have := List.all_eq_true.1 hh a ha
    simpa using this
  simp [callFn, h, this]

/-- … and a host-dependent argument makes the whole call host-dependent -/
theorem C08_call_host (m : Mgr) {name : List Rune} {fn : String} (args : List V)
    (h : findFn name = some fn) (hh : args.any isHostV = true) :
    callFn m name args = .ok (.host fn args) := by
  simp [callFn, h, hh]

/-- the dispatch of `calcFn` covers exactly the registered names -/
theorem C08_calc_unregistered (m : Mgr) (fn : String) (args : List V) (h : fn ∉ fnNames) :
    calcFn m fn args = .err "FUNC_NOT_FOUND" := by
  simp [fnNames] at h
  simp [calcFn, mathFns, h]

/-! ## 3. argument counts -/

/-- functions without arguments -/
def arity0 : List String := ["Ticks", "Now", "Rnd", "Random", "E", "Pi", "Null"]

/-- functions of exactly one argument -/
def arity1 : List String :=
  ["DayOfWeek", "Abs"] ++ mathFns ++
  ["Ceil", "Ceiling", "Floor", "Round", "Trunc", "Truncate", "Sqr", "Sqrt", "Empty"]

/-- the table of rejected argument counts -/
def badArity (fn : String) (n : Nat) : Bool :=
  if arity0.contains fn then n != 0
  else if fn == "TimeSpan" then !(n == 1 || n == 3 || n == 4 || n == 5)
  else if fn == "Date" then n < 1 || 7 < n
  else if arity1.contains fn then n != 1
  else if fn == "Min" || fn == "Max" || fn == "Sum" then n < 2
  else if fn == "If" then n != 3
  else if fn == "Choose" then n < 3
  else if fn == "Contains" then n != 2
  else false   -- Array: any count

theorem badArity_unregistered (fn : String) (n : Nat) (h : fn ∉ fnNames) :
    badArity fn n = false := by
  simp [fnNames] at h
  simp [badArity, arity0, arity1, mathFns, h]

/-- the table mentions every registered name except `Array` -/
theorem badArity_table_complete :
    ∀ fn ∈ fnNames, fn = "Array" ∨ fn ∈ arity0 ∨ fn ∈ arity1 ∨
      fn ∈ ["TimeSpan", "Date", "Min", "Max", "Sum", "If", "Choose", "Contains"] := by
  decide

theorem C08_wrong_count (m : Mgr) (fn : String) (args : List V)
    (h : badArity fn args.length = true) : calcFn m fn args = wrongCount := by
  by_cases hfn : fn ∈ fnNames
  · simp only [fnNames, List.mem_cons, List.not_mem_nil, or_false] at hfn
    rcases hfn with rfl | rfl | rfl | rfl | rfl | rfl | rfl | rfl | rfl | rfl | rfl | rfl | rfl
      | rfl | rfl | rfl | rfl | rfl | rfl | rfl | rfl | rfl | rfl | rfl | rfl | rfl | rfl | rfl
      | rfl | rfl | rfl | rfl | rfl | rfl | rfl | rfl | rfl
    all_goals
      simp [badArity, arity0, arity1, mathFns] at h <;> simp [calcFn, mathFns, h]
  · rw [badArity_unregistered fn _ hfn] at h
    cases h

/-- through the lookup: a wrong number of (non-host) arguments is an error -/
theorem C08_wrong_count_call (m : Mgr) {name : List Rune} {fn : String} (args : List V)
    (hf : findFn name = some fn) (hh : args.all (fun a => !isHostV a) = true)
    (h : badArity fn args.length = true) : callFn m name args = .err "WRONG_PARAM_COUNT" := by
  rw [C08_call_found m args hf hh, C08_wrong_count m fn args h]
  rfl

/-- the readable form of the table -/
theorem C08_arity_table (n : Nat) :
    (∀ fn ∈ arity0, badArity fn n = (n != 0)) ∧
    (badArity "TimeSpan" n = !(n == 1 || n == 3 || n == 4 || n == 5)) ∧
    (badArity "Date" n = (decide (n < 1) || decide (7 < n))) ∧
    (∀ fn ∈ arity1, badArity fn n = (n != 1)) ∧
    (∀ fn ∈ ["Min", "Max", "Sum"], badArity fn n = decide (n < 2)) ∧
    (badArity "If" n = (n != 3)) ∧
    (badArity "Choose" n = decide (n < 3)) ∧
    (badArity "Contains" n = (n != 2)) ∧
    (badArity "Array" n = false) := by
  refine ⟨?_, ?_, ?_, ?_, ?_, ?_, ?_, ?_, ?_⟩
  all_goals simp [badArity, arity0, arity1, mathFns]

/-! ## 4. meaning -/

/-! ### Min / Max / Sum -/

theorem C08_min_fold (m : Mgr) (a b : V) (rest : List V) :
    calcFn m "Min" (a :: b :: rest) = foldSelect m .more a (b :: rest) := by
  have h : ¬ (rest.length + 1 + 1 < 2) := by omega
  simp [calcFn, h]

theorem C08_max_fold (m : Mgr) (a b : V) (rest : List V) :
    calcFn m "Max" (a :: b :: rest) = foldSelect m .less a (b :: rest) := by
  have h : ¬ (rest.length + 1 + 1 < 2) := by omega
  simp [calcFn, h]

theorem C08_sum_fold (m : Mgr) (a b : V) (rest : List V) :
    calcFn m "Sum" (a :: b :: rest) = foldAdd m a (b :: rest) := by
  have h : ¬ (rest.length + 1 + 1 < 2) := by omega
  simp [calcFn, h]

/-- as long as the comparisons answer with Booleans, Min / Max proceed like the selecting left
fold (`pre` is the part of the arguments already consumed) -/
theorem C08_foldSelect_prefix (m : Mgr) (cmp : Op) (cmpB : V → V → Bool) (a : V) (pre rest : List V)
    (h : ∀ x ∈ a :: pre, ∀ y ∈ pre, binop m cmp x y = .ok (.bool (cmpB x y))) :
    foldSelect m cmp a (pre ++ rest) = foldSelect m cmp (pre.foldl (selectStep cmpB) a) rest :=
  foldSelect_append_bool m cmp cmpB a pre rest h

/-- when every comparison returns a Boolean, the result is the left fold
`foldl (fun acc v => if cmp acc v then v else acc)` -/
theorem C08_foldSelect_bool (m : Mgr) (cmp : Op) (cmpB : V → V → Bool) (a : V) (vs : List V)
    (h : ∀ x ∈ a :: vs, ∀ y ∈ vs, binop m cmp x y = .ok (.bool (cmpB x y))) :
    foldSelect m cmp a vs = .ok (vs.foldl (fun acc v => if cmpB acc v then v else acc) a) := by
  have := foldSelect_append_bool m cmp cmpB a vs [] h
  rw [List.append_nil] at this
  rw [this]
  rfl

/-- the result of Min / Max is one of the arguments, unchanged -/
theorem C08_foldSelect_mem (m : Mgr) (cmp : Op) (cmpB : V → V → Bool) (a : V) (vs : List V)
    (h : ∀ x ∈ a :: vs, ∀ y ∈ vs, binop m cmp x y = .ok (.bool (cmpB x y))) :
    ∃ r ∈ a :: vs, foldSelect m cmp a vs = .ok r :=
  ⟨_, selectStep_mem cmpB a vs, C08_foldSelect_bool m cmp cmpB a vs h⟩

/-- one step, spelled out: what the next comparison's outcome does -/
theorem C08_foldSelect_step (m : Mgr) (cmp : Op) (acc v : V) (vs : List V) :
    (binop m cmp acc v = .ok (.bool true) → foldSelect m cmp acc (v :: vs) = foldSelect m cmp v vs) ∧
    (binop m cmp acc v = .ok (.bool false) → foldSelect m cmp acc (v :: vs) = foldSelect m cmp acc vs) ∧
    (∀ c, binop m cmp acc v = .err c → foldSelect m cmp acc (v :: vs) = .err c) ∧
    (∀ r, binop m cmp acc v = .ok r → (∀ b, r ≠ .bool b) → isHostV r = false →
      foldSelect m cmp acc (v :: vs) = .err "CALC_FAILED") ∧
    (∀ t x, binop m cmp acc v = .ok (.host t x) → foldSelect m cmp acc (v :: vs) = .ok (.host t x)) := by
  refine ⟨fun h => ?_, fun h => ?_, fun c h => ?_, fun r h hb hh => ?_, fun t x h => ?_⟩
  · rw [foldSelect, h]
  · rw [foldSelect, h]
  · rw [foldSelect, h]
  · rw [foldSelect, h]
    cases r <;> simp [isHostV] at hh hb ⊢ <;> first | rfl | (rename_i b; cases b <;> simp at hb)
  · rw [foldSelect, h]

/-- a Null among the (non-host) arguments: the comparison yields Null, not a Boolean, and the
function fails with CALC_FAILED (the recovered `AsBoolean` panic), once the fold reaches it -/
theorem C08_foldSelect_null (m : Mgr) (cmp : Op) (acc v : V) (vs : List V)
    (hcmp : cmp = .more ∨ cmp = .less)
    (ha : isHostV acc = false) (hv : isHostV v = false) (hn : acc.typ = .null ∨ v.typ = .null) :
    foldSelect m cmp acc (v :: vs) = .err "CALC_FAILED" := by
  have h : binop m cmp acc v = .ok .null := by
    rcases hcmp with rfl | rfl
    · exact C06_null_propagates m .more acc v ha hv (by decide) (by decide) (by decide) (by decide) hn
    · exact C06_null_propagates m .less acc v ha hv (by decide) (by decide) (by decide) (by decide) hn
  exact (C08_foldSelect_step m cmp acc v vs).2.2.2.1 .null h (fun b hb => by cases hb) rfl

/-- Sum is the left fold of `+` with error propagation -/
theorem C08_foldAdd (m : Mgr) (a : V) (vs : List V) :
    foldAdd m a vs = vs.foldl (fun r v => r.bind fun x => binop m .add x v) (.ok a) :=
  foldAdd_eq_foldl m a vs

theorem C08_foldAdd_step (m : Mgr) (acc v : V) (vs : List V) :
    (∀ r, binop m .add acc v = .ok r → foldAdd m acc (v :: vs) = foldAdd m r vs) ∧
    (∀ c, binop m .add acc v = .err c → foldAdd m acc (v :: vs) = .err c) := by
  refine ⟨fun r h => ?_, fun c h => ?_⟩ <;> rw [foldAdd, h] <;> rfl

/-- Null is absorbing for Sum (operator Null propagation, C06): once the running sum is Null it
stays Null — the result is the Null *value*, without an error -/
theorem C08_sum_null_absorbs (m : Mgr) (vs : List V) (h : ∀ v ∈ vs, isHostV v = false) :
    foldAdd m .null vs = .ok .null := by
  induction vs with
  | nil => rfl
  | cons v vs ih =>
    have hv := h v List.mem_cons_self
    have hb : binop m .add .null v = .ok .null :=
      C06_null_propagates m .add .null v rfl hv (by decide) (by decide) (by decide) (by decide)
        (.inl rfl)
    rw [foldAdd, hb]
    exact ih fun x hx => h x (List.mem_cons_of_mem _ hx)

example : calcFn .safe "Sum" [.int 3, .null, .int 2] = .ok .null := by rfl

example : calcFn .safe "Min" [.int 3, .int 1, .int 2] = .ok (.int 1) := by rfl
example : calcFn .safe "Max" [.int 3, .int 7, .int 2] = .ok (.int 7) := by rfl
example : calcFn .safe "Sum" [.int 3, .int 7, .int 2] = .ok (.int 12) := by rfl
example : calcFn .safe "Min" [.int 3, .null, .int 2] = .err "CALC_FAILED" := by rfl

/-! ### Min / Max / Sum on Integer arguments: the value the name denotes -/

/-- `Min` of Integers is their minimum: one of the arguments, below all of them -/
theorem C08_min_ints (m : Mgr) (a b : Int64) (xs : List Int64) :
    ∃ r, calcFn m "Min" (.int a :: .int b :: xs.map .int) = .ok (.int r) ∧
      r ∈ a :: b :: xs ∧ ∀ x ∈ a :: b :: xs, r ≤ x := by
  refine ⟨(b :: xs).foldl (fun acc v => if acc > v then v else acc) a, ?_, foldl_min_spec a (b :: xs)⟩
  rw [C08_min_fold]
  have := foldSelect_ints m .more (fun x y => decide (x > y)) (binop_more_int m) a (b :: xs)
  simpa using this

/-- `Max` of Integers is their maximum -/
theorem C08_max_ints (m : Mgr) (a b : Int64) (xs : List Int64) :
    ∃ r, calcFn m "Max" (.int a :: .int b :: xs.map .int) = .ok (.int r) ∧
      r ∈ a :: b :: xs ∧ ∀ x ∈ a :: b :: xs, x ≤ r := by
  refine ⟨(b :: xs).foldl (fun acc v => if acc < v then v else acc) a, ?_, foldl_max_spec a (b :: xs)⟩
  rw [C08_max_fold]
  have := foldSelect_ints m .less (fun x y => decide (x < y)) (binop_less_int m) a (b :: xs)
  simpa using this

/-- `Sum` of Integers is their (wrap-around) sum -/
theorem C08_sum_ints (m : Mgr) (a b : Int64) (xs : List Int64) :
    calcFn m "Sum" (.int a :: .int b :: xs.map .int) = .ok (.int ((b :: xs).foldl (· + ·) a)) := by
  rw [C08_sum_fold]
  have : ∀ (l : List Int64) (a : Int64), foldAdd m (.int a) (l.map .int) = .ok (.int (l.foldl (· + ·) a)) := by
    intro l
    induction l with
    | nil => intro a; rfl
    | cons x l ih =>
      intro a
      simp only [List.map_cons, foldAdd, binop_add_int, R.bind, List.foldl_cons]
      exact ih _
  exact this (b :: xs) a


/-! ### If / Choose -/

/-- `If(c, x, y)` returns exactly `x` or `y` — the argument itself, unchanged -/
theorem C08_if_select (m : Mgr) (c x y : V) (b : Bool) (h : convert m c .boolean = .ok (.bool b)) :
    calcFn m "If" [c, x, y] = .ok (if b then x else y) := by
  simp [calcFn, h, R.bind]

/-- a condition that cannot be converted to Boolean is an error -/
theorem C08_if_error (m : Mgr) (c x y : V) (e : String) (h : convert m c .boolean = .err e) :
    calcFn m "If" [c, x, y] = .err e := by
  simp [calcFn, h, R.bind]

private theorem i64_ofNat_toInt {n : Nat} (h : n < 2 ^ 63) : (Int64.ofNat n).toInt = n :=
  Int64.toInt_ofNat_of_lt h

/-- the complete behaviour of `Choose(i, a1, …, ak)` once the selector is an integer `k`;
`args` is the whole argument list, selector included (index 0 is the selector itself) -/
theorem C08_choose_spec (m : Mgr) (args : List V) (k : Int64)
    (hn : 3 ≤ args.length) (hlen : args.length < 2 ^ 63)
    (h : convert m (args.getD 0 .null) .integer = .ok (.int k)) :
    calcFn m "Choose" args =
      if k.toInt < 0 then .err "CALC_FAILED"
      else if k.toInt < args.length then .ok (args.getD k.toInt.toNat .null)
      else if k = Int64.maxValue then .err "CALC_FAILED"
      else .err "WRONG_PARAM_COUNT" := by
  have h3 : ¬ args.length < 3 := by omega
  simp only [calcFn]
  simp only [String.reduceBEq, Bool.false_eq_true, if_false, Bool.or_self, if_true, h3,
    withInt_ok h]
  have hN := i64_ofNat_toInt hlen
  have hk1 := Int64.toInt_lt k
  have hk0 := Int64.le_toInt k
  have hmax : Int64.maxValue.toInt = 2 ^ 63 - 1 := by decide
  have h1 : (1 : Int64).toInt = 1 := by decide
  have h0 : (0 : Int64).toInt = 0 := by decide
  by_cases hmx : k = Int64.maxValue
  · subst hmx
    have hadd : (Int64.maxValue + 1).toInt = -(2 ^ 63) := by decide
    have c1 : ¬ Int64.ofNat args.length < Int64.maxValue + 1 := by
      rw [Int64.lt_iff_toInt_lt, hN, hadd]; omega
    have c2 : ¬ Int64.maxValue < 0 := by decide
    have c3 : Int64.maxValue.toInt ≥ (args.length : Int) := by rw [hmax]; omega
    have c4 : ¬ Int64.maxValue.toInt < 0 := by rw [hmax]; omega
    have c5 : ¬ Int64.maxValue.toInt < (args.length : Int) := by omega
    simp [c1, c2, c3, c4, c5, calcFailed]
  · have hne : k.toInt ≠ 2 ^ 63 - 1 := by
      intro he; apply hmx; apply Int64.toInt_inj.1; rw [he, hmax]
    have hadd : (k + 1).toInt = k.toInt + 1 := by
      rw [Int64.toInt_add, h1]
      apply Int.bmod_eq_of_le <;> omega
    have hlt0 : (k < 0) ↔ k.toInt < 0 := by rw [Int64.lt_iff_toInt_lt, h0]
    have hwc : (Int64.ofNat args.length < k + 1) ↔ (args.length : Int) < k.toInt + 1 := by
      rw [Int64.lt_iff_toInt_lt, hN, hadd]
    simp only [hwc, hlt0, hmx, if_false]
    by_cases c1 : k.toInt < 0
    · have : ¬ ((args.length : Int) < k.toInt + 1) := by omega
      simp [c1, this, calcFailed]
    · by_cases c2 : k.toInt < (args.length : Int)
      · have : ¬ ((args.length : Int) < k.toInt + 1) := by omega
        have c3 : ¬ (k.toInt ≥ (args.length : Int)) := by omega
        simp [c1, c2, c3, this]
      · have : (args.length : Int) < k.toInt + 1 := by omega
        simp [c1, c2, this, wrongCount]

/-- `Choose(k, a1, …, an)` with `1 ≤ k ≤ n` returns `ak`, the argument itself -/
theorem C08_choose_select (m : Mgr) (i : V) (rest : List V) (k : Int64)
    (hn : 2 ≤ rest.length) (hlen : rest.length + 1 < 2 ^ 63)
    (h : convert m i .integer = .ok (.int k))
    (h1 : 1 ≤ k.toInt) (h2 : k.toInt < ((i :: rest).length : Int)) :
    ∃ hlt : k.toInt.toNat - 1 < rest.length,
      calcFn m "Choose" (i :: rest) = .ok rest[k.toInt.toNat - 1] := by
  have hspec := C08_choose_spec m (i :: rest) k (by simp; omega) (by simpa using hlen) (by simpa using h)
  have c1 : ¬ k.toInt < 0 := by omega
  have h2' := h2
  simp only [List.length_cons] at h2'
  have hlt : k.toInt.toNat - 1 < rest.length := by omega
  refine ⟨hlt, ?_⟩
  rw [hspec, if_neg c1, if_pos h2]
  obtain ⟨j, hj⟩ : ∃ j, k.toInt.toNat = j + 1 := ⟨k.toInt.toNat - 1, by omega⟩
  have hj' : j < rest.length := by omega
  simp only [hj, Nat.add_sub_cancel, List.getD_cons_succ]
  rw [List.getD_eq_getElem?_getD, List.getElem?_eq_getElem hj']
  rfl

/-- `Choose(0, …)` returns the selector argument itself (index 0 of the parameter list) -/
theorem C08_choose_zero (m : Mgr) (i : V) (rest : List V)
    (hn : 2 ≤ rest.length) (hlen : rest.length + 1 < 2 ^ 63)
    (h : convert m i .integer = .ok (.int 0)) :
    calcFn m "Choose" (i :: rest) = .ok i := by
  have hspec := C08_choose_spec m (i :: rest) 0 (by simp; omega) (by simpa using hlen) (by simpa using h)
  have h0 : (0 : Int64).toInt = 0 := by decide
  rw [hspec, h0]
  simp

/-- a negative selector is the recovered index panic … -/
theorem C08_choose_negative (m : Mgr) (i : V) (rest : List V) (k : Int64)
    (hn : 2 ≤ rest.length) (hlen : rest.length + 1 < 2 ^ 63)
    (h : convert m i .integer = .ok (.int k)) (hk : k.toInt < 0) :
    calcFn m "Choose" (i :: rest) = .err "CALC_FAILED" := by
  rw [C08_choose_spec m (i :: rest) k (by simp; omega) (by simpa using hlen) (by simpa using h),
    if_pos hk]

/-- … a selector past the last argument is a wrong parameter count (for the one selector value
`MaxInt64` the overflowing `index+1` defeats that check and the index panic is recovered) -/
theorem C08_choose_too_large (m : Mgr) (i : V) (rest : List V) (k : Int64)
    (hn : 2 ≤ rest.length) (hlen : rest.length + 1 < 2 ^ 63)
    (h : convert m i .integer = .ok (.int k)) (hk : ((i :: rest).length : Int) ≤ k.toInt) :
    calcFn m "Choose" (i :: rest) =
      if k = Int64.maxValue then .err "CALC_FAILED" else .err "WRONG_PARAM_COUNT" := by
  rw [C08_choose_spec m (i :: rest) k (by simp; omega) (by simpa using hlen) (by simpa using h),
    if_neg (by simp only [List.length_cons] at hk; omega), if_neg (by omega)]

theorem C08_choose_error (m : Mgr) (i : V) (rest : List V) (e : String) (hn : 2 ≤ rest.length)
    (h : convert m i .integer = .err e) : calcFn m "Choose" (i :: rest) = .err e := by
  have h3 : ¬ rest.length + 1 < 3 := by omega
  have h' : convert m ((i :: rest).getD 0 .null) .integer = .err e := by simpa using h
  simp only [calcFn]
  simp only [String.reduceBEq, Bool.false_eq_true, if_false, Bool.or_self, List.length_cons, h3,
    withInt_err h', if_true]

example : calcFn .safe "Choose" [.int 2, .str [97], .str [98], .str [99]] = .ok (.str [98]) := by rfl
example : calcFn .safe "Choose" [.int 0, .str [97], .str [98]] = .ok (.int 0) := by rfl
example : calcFn .safe "If" [.bool false, .str [97], .str [98]] = .ok (.str [98]) := by rfl

/-! ### Abs -/

/-- type-preserving; exact on Integer and Long -/
theorem C08_abs (m : Mgr) :
    (∀ x : Int64, calcFn m "Abs" [.int x] = .ok (.int (if x < 0 then -x else x))) ∧
    (∀ x : Int64, calcFn m "Abs" [.long x] = .ok (.long (if x < 0 then -x else x))) ∧
    (∀ x : Float32, calcFn m "Abs" [.float x] = .ok (.float x.abs)) ∧
    (∀ x : Float, calcFn m "Abs" [.double x] = .ok (.double x.abs)) :=
  ⟨fun _ => rfl, fun _ => rfl, fun _ => rfl, fun _ => rfl⟩

/-- every other type goes through the conversion to Double -/
theorem C08_abs_other (m : Mgr) (v : V) (hv : ¬ isNumeric v = true) :
    calcFn m "Abs" [v] = withDouble m "Abs" [v] v fun d => .ok (.double d.abs) := by
  cases v <;> simp [isNumeric] at hv <;> rfl

theorem C08_abs_other_ok (m : Mgr) (v : V) (d : Float) (hv : ¬ isNumeric v = true)
    (h : convert m v .double = .ok (.double d)) : calcFn m "Abs" [v] = .ok (.double d.abs) := by
  rw [C08_abs_other m v hv, withDouble_ok h]

theorem C08_abs_other_err (m : Mgr) (v : V) (e : String) (hv : ¬ isNumeric v = true)
    (h : convert m v .double = .err e) : calcFn m "Abs" [v] = .err e := by
  rw [C08_abs_other m v hv, withDouble_err h]

/-- the integer result is the mathematical absolute value (except for `MinInt64`, which has none
and stays itself, as in Go) -/
theorem C08_abs_exact (x : Int64) :
    (x ≠ Int64.minValue → (if x < 0 then -x else x).toInt = x.toInt.natAbs) ∧
    ((if Int64.minValue < 0 then -Int64.minValue else Int64.minValue) = Int64.minValue) := by
  refine ⟨fun hne => ?_, by decide⟩
  have h0 : (0 : Int64).toInt = 0 := by decide
  have hmin : Int64.minValue.toInt = -(2 ^ 63) := by decide
  have hk1 := Int64.toInt_lt x
  have hk0 := Int64.le_toInt x
  have hne' : x.toInt ≠ -(2 ^ 63) := by
    intro he; apply hne; apply Int64.toInt_inj.1; rw [he, hmin]
  split
  · rename_i hlt
    rw [Int64.lt_iff_toInt_lt, h0] at hlt
    rw [Int64.toInt_neg, Int.bmod_eq_of_le (by omega) (by omega)]
    omega
  · rename_i hlt
    rw [Int64.lt_iff_toInt_lt, h0] at hlt
    omega


/-! ### the one-argument numeric functions -/

/-- the host name a math function is evaluated with (`Ln` is Go's `math.Log`) -/
def hostMathName (fn : String) : String := if fn == "Ln" then "Log" else fn

/-- a math function is the host function applied to the argument converted to Double -/
theorem C08_unary_math (m : Mgr) (fn : String) (v : V) (d : Float) (hfn : fn ∈ mathFns)
    (h : convert m v .double = .ok (.double d)) :
    calcFn m fn [v] = .ok (.host (hostMathName fn) [.double d]) := by
  simp only [mathFns, List.mem_cons, List.not_mem_nil, or_false] at hfn
  rcases hfn with rfl | rfl | rfl | rfl | rfl | rfl | rfl | rfl | rfl | rfl <;>
    simp [calcFn, mathFns, hostMathName, withDouble, h, R.bind]

/-- an argument that cannot be converted to Double is an error -/
theorem C08_unary_math_err (m : Mgr) (fn : String) (v : V) (e : String) (hfn : fn ∈ mathFns)
    (h : convert m v .double = .err e) : calcFn m fn [v] = .err e := by
  simp only [mathFns, List.mem_cons, List.not_mem_nil, or_false] at hfn
  rcases hfn with rfl | rfl | rfl | rfl | rfl | rfl | rfl | rfl | rfl | rfl <;>
    simp [calcFn, mathFns, withDouble, h, R.bind]

/-- rounding functions and the square root: the host operation on the converted argument -/
theorem C08_rounding (m : Mgr) (v : V) (d : Float) (h : convert m v .double = .ok (.double d)) :
    calcFn m "Ceil" [v] = .ok (.double d.ceil) ∧
    calcFn m "Ceiling" [v] = .ok (.double d.ceil) ∧
    calcFn m "Floor" [v] = .ok (.double d.floor) ∧
    calcFn m "Round" [v] = .ok (.double d.round) ∧
    calcFn m "Trunc" [v] = .ok (.long (f64ToI64 d)) ∧
    calcFn m "Truncate" [v] = .ok (.long (f64ToI64 d)) ∧
    calcFn m "Sqr" [v] = .ok (.double d.sqrt) ∧
    calcFn m "Sqrt" [v] = .ok (.double d.sqrt) := by
  refine ⟨?_, ?_, ?_, ?_, ?_, ?_, ?_, ?_⟩ <;> simp [calcFn, mathFns, withDouble, h, R.bind]

theorem C08_rounding_err (m : Mgr) (fn : String) (v : V) (e : String)
    (hfn : fn ∈ ["Ceil", "Ceiling", "Floor", "Round", "Trunc", "Truncate", "Sqr", "Sqrt"])
    (h : convert m v .double = .err e) : calcFn m fn [v] = .err e := by
  simp only [List.mem_cons, List.not_mem_nil, or_false] at hfn
  rcases hfn with rfl | rfl | rfl | rfl | rfl | rfl | rfl | rfl <;>
    simp [calcFn, mathFns, withDouble, h, R.bind]

/-- `Random` is `Rnd`; the other aliases (`Ceiling`/`Ceil`, `Truncate`/`Trunc`, `Sqrt`/`Sqr`)
agree by `C08_rounding` and `C08_rounding_err` -/
theorem C08_alias_random (m : Mgr) (args : List V) :
    calcFn m "Random" args = calcFn m "Rnd" args := by
  simp [calcFn]

/-! ### Contains / Empty / Array / Null / constants -/

theorem C08_contains (m : Mgr) (a b : V) (x y : List Rune)
    (ha : convert m a .string = .ok (.str x)) (hb : convert m b .string = .ok (.str y)) :
    calcFn m "Contains" [a, b] = .ok (.bool (containsSub x y)) := by
  simp [calcFn, mathFns, ha, hb, R.bind]

/-- `containsSub` is "occurs as a contiguous sublist" -/
theorem C08_containsSub_iff (s sub : List Rune) : containsSub s sub = true ↔ sub <:+: s :=
  containsSub_iff s sub

theorem C08_contains_err (m : Mgr) (a b : V) (e : String) :
    (convert m a .string = .err e → calcFn m "Contains" [a, b] = .err e) ∧
    (∀ x, convert m a .string = .ok x → convert m b .string = .err e →
      calcFn m "Contains" [a, b] = .err e) := by
  refine ⟨fun ha => ?_, fun x ha hb => ?_⟩
  · simp [calcFn, mathFns, ha, R.bind]
  · simp [calcFn, mathFns, ha, hb, R.bind]

theorem C08_empty (m : Mgr) (v : V) :
    calcFn m "Empty" [v] = .ok (.bool (v.typ == .null)) ∧
    (calcFn m "Empty" [v] = .ok (.bool true) ↔ v = .null) := by
  have h : calcFn m "Empty" [v] = .ok (.bool (v.typ == .null)) := by simp [calcFn, mathFns]
  refine ⟨h, ?_⟩
  rw [h]
  cases v <;> simp [V.typ]

theorem C08_array (m : Mgr) (args : List V) : calcFn m "Array" args = .ok (.array args) := by
  simp [calcFn, mathFns]

theorem C08_null (m : Mgr) : calcFn m "Null" [] = .ok .null := by
  simp [calcFn]

/-- the constants (single precision, as in the implementation) and the host-provided values -/
theorem C08_constants (m : Mgr) :
    calcFn m "E" [] = .ok (.float (Float32.ofBits 0x402df854)) ∧
    calcFn m "Pi" [] = .ok (.float (Float32.ofBits 0x40490fdb)) ∧
    calcFn m "Ticks" [] = .ok (.host "ticks" []) ∧
    calcFn m "Now" [] = .ok (.host "now" []) ∧
    calcFn m "Rnd" [] = .ok (.host "rnd" []) ∧
    calcFn m "Random" [] = .ok (.host "rnd" []) := by
  refine ⟨?_, ?_, ?_, ?_, ?_, ?_⟩ <;> simp [calcFn]

/-! ### TimeSpan / Date / DayOfWeek -/

theorem convert_long_lit (m : Mgr) (x : Int64) : convert m (.long x) .long = .ok (.long x) := by
  cases m <;> simp [convert, isHostV, convertUnsafe, convertSafe, V.typ]

theorem convert_int_lit (m : Mgr) (x : Int64) : convert m (.int x) .integer = .ok (.int x) := by
  cases m <;> simp [convert, isHostV, convertUnsafe, convertSafe, V.typ]

/-- one argument: milliseconds -/
theorem C08_timespan_ms (m : Mgr) (v : V) (x : Int64) (h : convert m v .long = .ok (.long x)) :
    calcFn m "TimeSpan" [v] = .ok (.timeSpan (1000000 * x)) := by
  simp [calcFn, withLong, h, R.bind]

/-- days, hours, minutes [, seconds [, milliseconds]] -/
theorem C08_timespan_parts (m : Mgr) (a1 a2 a3 a4 a5 : V) (v1 v2 v3 v4 v5 : Int64)
    (h1 : convert m a1 .long = .ok (.long v1)) (h2 : convert m a2 .long = .ok (.long v2))
    (h3 : convert m a3 .long = .ok (.long v3)) (h4 : convert m a4 .long = .ok (.long v4))
    (h5 : convert m a5 .long = .ok (.long v5)) :
    calcFn m "TimeSpan" [a1, a2, a3] =
      .ok (.timeSpan (1000000 * ((((v1 * 24 + v2) * 60 + v3) * 60 + 0) * 1000 + 0))) ∧
    calcFn m "TimeSpan" [a1, a2, a3, a4] =
      .ok (.timeSpan (1000000 * ((((v1 * 24 + v2) * 60 + v3) * 60 + v4) * 1000 + 0))) ∧
    calcFn m "TimeSpan" [a1, a2, a3, a4, a5] =
      .ok (.timeSpan (1000000 * ((((v1 * 24 + v2) * 60 + v3) * 60 + v4) * 1000 + v5))) := by
  refine ⟨?_, ?_, ?_⟩ <;>
    simp [calcFn, withLong, h1, h2, h3, h4, h5, R.bind, convert_long_lit]

theorem C08_timespan_err (m : Mgr) (v : V) (e : String) (h : convert m v .long = .err e) :
    calcFn m "TimeSpan" [v] = .err e := by
  simp [calcFn, withLong, h, R.bind]

/-- one argument: Unix seconds (`unixSec` is the identity below 2^63 - 62135596800 and records the host's
wrap-around of the stored seconds above it, see `C07.unixSec_eq`) -/
theorem C08_date_seconds (m : Mgr) (v : V) (x : Int64) (h : convert m v .long = .ok (.long x)) :
    calcFn m "Date" [v] = .ok (.dateTime (unixSec x) 0) := by
  simp [calcFn, withLong, h, R.bind]

theorem C08_date_err (m : Mgr) (v : V) (e : String) (h : convert m v .long = .err e) :
    calcFn m "Date" [v] = .err e := by
  simp [calcFn, withLong, h, R.bind]

/-- year, month [, day [, hour [, minute [, second [, nanosecond]]]]]: the host's civil-date
construction on the converted parts, missing parts defaulting to day 1 and zeros -/
theorem C08_date_parts (m : Mgr) (a1 a2 a3 : V) (y mo d : Int64)
    (h1 : convert m a1 .integer = .ok (.int y)) (h2 : convert m a2 .integer = .ok (.int mo))
    (h3 : convert m a3 .integer = .ok (.int d)) :
    calcFn m "Date" [a1, a2] =
      .ok (.host "date" [.int y, .int mo, .int 1, .int 0, .int 0, .int 0, .int 0]) ∧
    calcFn m "Date" [a1, a2, a3] =
      .ok (.host "date" [.int y, .int mo, .int d, .int 0, .int 0, .int 0, .int 0]) := by
  refine ⟨?_, ?_⟩ <;> simp [calcFn, withInt, h1, h2, h3, R.bind, convert_int_lit]

theorem C08_date_parts_full (m : Mgr) (a1 a2 a3 a4 a5 a6 a7 : V) (y mo d h mi s ns : Int64)
    (h1 : convert m a1 .integer = .ok (.int y)) (h2 : convert m a2 .integer = .ok (.int mo))
    (h3 : convert m a3 .integer = .ok (.int d)) (h4 : convert m a4 .integer = .ok (.int h))
    (h5 : convert m a5 .integer = .ok (.int mi)) (h6 : convert m a6 .integer = .ok (.int s))
    (h7 : convert m a7 .integer = .ok (.int ns)) :
    calcFn m "Date" [a1, a2, a3, a4, a5, a6, a7] =
      .ok (.host "date" [.int y, .int mo, .int d, .int h, .int mi, .int s, .int ns]) := by
  simp [calcFn, withInt, h1, h2, h3, h4, h5, h6, h7, R.bind]

theorem C08_dayOfWeek (m : Mgr) (v : V) (s : Int) (ns : Nat)
    (h : convert m v .dateTime = .ok (.dateTime s ns)) :
    calcFn m "DayOfWeek" [v] = .ok (.int (Int64.ofInt (weekdayOf s))) ∧
    (Int64.ofInt (weekdayOf s)).toInt = weekdayOf s := by
  refine ⟨by simp [calcFn, h, R.bind], ?_⟩
  have := weekdayOf_range s
  rw [Int64.toInt_ofInt]
  apply Int.bmod_eq_of_le <;> simp [Int64.size] <;> omega

/-- Sunday = 0 … Saturday = 6; 1970-01-01 was a Thursday; the next day is the next weekday -/
theorem C08_weekday (s : Int) :
    (0 ≤ weekdayOf s ∧ weekdayOf s < 7) ∧ weekdayOf 0 = 4 ∧
    weekdayOf (s + 86400) = (weekdayOf s + 1) % 7 :=
  ⟨weekdayOf_range s, weekdayOf_epoch, weekdayOf_next_day s⟩

theorem C08_dayOfWeek_err (m : Mgr) (v : V) (e : String) (h : convert m v .dateTime = .err e) :
    calcFn m "DayOfWeek" [v] = .err e := by
  simp [calcFn, h, R.bind]

/-! ### fixed result types -/

/-- the functions whose result type does not depend on the arguments -/
def resultTypeTable : List (String × VT) :=
  [("E", .float), ("Pi", .float), ("Null", .null), ("TimeSpan", .timeSpan), ("Date", .dateTime),
   ("DayOfWeek", .integer), ("Ceil", .double), ("Ceiling", .double), ("Floor", .double),
   ("Round", .double), ("Trunc", .long), ("Truncate", .long), ("Sqr", .double), ("Sqrt", .double),
   ("Empty", .boolean), ("Contains", .boolean), ("Array", .array)] ++
  mathFns.map fun f => (f, VT.double)

def resultType (fn : String) : Option VT := (resultTypeTable.find? fun e => e.1 == fn).map (·.2)

theorem calcFn_okTyp (m : Mgr) (args : List V) :
    ∀ e ∈ resultTypeTable, (calcFn m e.1 args).OkTyp e.2 := by
  intro e he
  simp only [resultTypeTable, mathFns, List.map_cons, List.map_nil, List.cons_append,
    List.nil_append, List.mem_cons, List.not_mem_nil, or_false] at he
  rcases he with rfl | rfl | rfl | rfl | rfl | rfl | rfl | rfl | rfl | rfl | rfl | rfl | rfl
    | rfl | rfl | rfl | rfl | rfl | rfl | rfl | rfl | rfl | rfl | rfl | rfl | rfl | rfl
  all_goals
    simp [calcFn, mathFns]
    repeat' ot_step

theorem C08_result_type (m : Mgr) (fn : String) (args : List V) (t : VT) (r : V)
    (ht : resultType fn = some t) (h : calcFn m fn args = .ok r) (hh : isHostV r = false) :
    r.typ = t := by
  unfold resultType at ht
  cases hf : resultTypeTable.find? (fun e => e.1 == fn) with
  | none => simp [hf] at ht
  | some e =>
    rw [hf] at ht
    injection ht with ht
    have hmem := List.mem_of_find?_eq_some hf
    have hkey : e.1 = fn := by simpa using List.find?_some hf
    subst hkey ht
    exact calcFn_okTyp m args e hmem r h hh

/-- the readable form of the table -/
theorem C08_result_type_table :
    resultType "E" = some .float ∧ resultType "Pi" = some .float ∧ resultType "Null" = some .null ∧
    resultType "TimeSpan" = some .timeSpan ∧ resultType "Date" = some .dateTime ∧
    resultType "DayOfWeek" = some .integer ∧ resultType "Trunc" = some .long ∧
    resultType "Truncate" = some .long ∧ resultType "Empty" = some .boolean ∧
    resultType "Contains" = some .boolean ∧ resultType "Array" = some .array ∧
    (∀ fn ∈ ["Ceil", "Ceiling", "Floor", "Round", "Sqr", "Sqrt"] ++ mathFns,
      resultType fn = some .double) ∧
    (∀ fn ∈ ["Min", "Max", "Sum", "If", "Choose", "Abs", "Ticks", "Now", "Rnd", "Random"],
      resultType fn = none) := by
  decide

/-- the transcendental functions are evaluated by the host: in the model their successful result
is always a host term — the host function on the Double argument, or (argument not modelled) the
whole call — so `C08_result_type` holds vacuously for them; the Double type is the host's -/
theorem C08_math_result_host (m : Mgr) (fn : String) (args : List V) (r : V) (hfn : fn ∈ mathFns)
    (h : calcFn m fn args = .ok r) :
    (∃ d, r = .host (hostMathName fn) [.double d]) ∨ r = .host fn args := by
  simp only [mathFns, List.mem_cons, List.not_mem_nil, or_false] at hfn
  rcases hfn with rfl | rfl | rfl | rfl | rfl | rfl | rfl | rfl | rfl | rfl
  all_goals
    simp only [calcFn] at h
    simp only [String.reduceBEq, Bool.false_eq_true, if_false, Bool.or_self, mathFns,
      List.contains_cons, List.contains_nil, Bool.or_false, Bool.or_true, if_true] at h
    split at h
    · cases h
    · rcases withDouble_ok_cases h with ⟨d, hd⟩ | hr
      · injection hd with hd
        exact .inl ⟨d, hd.symm⟩
      · exact .inr hr


/-! ## 5. errors: which codes, and exactly when the count is wrong -/

macro "ec_step" : tactic => `(tactic| first
  | exact R.ErrIn.ok _
  | exact R.ErrIn.err (by decide)
  | exact foldSelect_errIn _ _ _ _
  | exact foldAdd_errIn _ _ _
  | (refine R.ErrIn.ite' (fun hif => ?_) (fun hif => ?_))
  | (apply withLong_errIn _ _ _ _ _ (convert_errIn' _); intro _)
  | (apply withInt_errIn _ _ _ _ _ (convert_errIn' _); intro _)
  | (apply withDouble_errIn _ _ _ _ _ (convert_errIn' _); intro _)
  | (apply R.ErrIn.bind (convert_errIn' _ _ _); intro _)
  | split)

theorem calcFn_errIn_accepted (m : Mgr) (fn : String) (args : List V) (hfn : fn ∈ fnNames)
    (hc : fn ≠ "Choose") (h : badArity fn args.length = false) :
    (calcFn m fn args).ErrIn calcCodes := by
  simp only [fnNames, List.mem_cons, List.not_mem_nil, or_false] at hfn
  rcases hfn with rfl | rfl | rfl | rfl | rfl | rfl | rfl | rfl | rfl | rfl | rfl | rfl | rfl
      | rfl | rfl | rfl | rfl | rfl | rfl | rfl | rfl | rfl | rfl | rfl | rfl | rfl | rfl | rfl
      | rfl | rfl | rfl | rfl | rfl | rfl | rfl | rfl | rfl
  all_goals
    simp [badArity, arity0, arity1, mathFns] at h
  all_goals
    first
    | exact absurd rfl hc
    | (simp [calcFn, mathFns, h]
       repeat' ec_step
       all_goals (exfalso; first | omega | (simp_all; done) | (simp_all; omega)))

/-- every error of a registered function called with an accepted argument count is an
operator / conversion error or the recovered panic — never "wrong parameter count" -/
theorem C08_accepted_count (m : Mgr) (fn : String) (args : List V) (hfn : fn ∈ fnNames)
    (hc : fn ≠ "Choose") (h : badArity fn args.length = false) :
    calcFn m fn args ≠ wrongCount := by
  intro he
  have := calcFn_errIn_accepted m fn args hfn hc h "WRONG_PARAM_COUNT" he
  revert this
  decide

/-- hence `badArity` is exactly the set of rejected argument counts (for `Choose` the selector can
additionally produce the same error, see `C08_choose_too_large`) -/
theorem C08_wrong_count_iff (m : Mgr) (fn : String) (args : List V) (hfn : fn ∈ fnNames)
    (hc : fn ≠ "Choose") : calcFn m fn args = wrongCount ↔ badArity fn args.length = true := by
  constructor
  · intro he
    cases hb : badArity fn args.length with
    | true => rfl
    | false => exact absurd he (C08_accepted_count m fn args hfn hc hb)
  · exact C08_wrong_count m fn args

/-- all error codes a call can produce -/
def callCodes : List String := opCodes ++ ["CALC_FAILED", "WRONG_PARAM_COUNT", "FUNC_NOT_FOUND"]

theorem convert_errIn'' (m : Mgr) (v : V) (t : VT) : (convert m v t).ErrIn callCodes :=
  (convert_errIn m v t).mono (by decide)

macro "ea_step" : tactic => `(tactic| first
  | exact R.ErrIn.ok _
  | exact R.ErrIn.err (by decide)
  | exact (foldSelect_errIn _ _ _ _).mono (by decide)
  | exact (foldAdd_errIn _ _ _).mono (by decide)
  | apply R.ErrIn.ite
  | (apply withLong_errIn _ _ _ _ _ (convert_errIn'' _); intro _)
  | (apply withInt_errIn _ _ _ _ _ (convert_errIn'' _); intro _)
  | (apply withDouble_errIn _ _ _ _ _ (convert_errIn'' _); intro _)
  | (apply R.ErrIn.bind (convert_errIn'' _ _ _); intro _)
  | split)

theorem calcFn_errIn (m : Mgr) (fn : String) (args : List V) : (calcFn m fn args).ErrIn callCodes := by
  unfold calcFn
  simp only []
  repeat' ea_step

/-- a call either succeeds or fails with one of the documented codes -/
theorem C08_error_codes (m : Mgr) (name : List Rune) (args : List V) (c : String)
    (h : callFn m name args = .err c) : c ∈ callCodes := by
  unfold callFn at h
  split at h
  · split at h
    · cases h
    · exact calcFn_errIn m _ args c h
  · injection h with h
    subst h
    decide

/-- a call has exactly two outcomes: a value, or an error with a code (no "nil without error") -/
theorem C08_value_or_error (m : Mgr) (name : List Rune) (args : List V) :
    (∃ v, callFn m name args = .ok v) ∨ (∃ c ∈ callCodes, callFn m name args = .err c) := by
  cases h : callFn m name args with
  | ok v => exact .inl ⟨v, rfl⟩
  | err c => exact .inr ⟨c, C08_error_codes m name args c h, rfl⟩
  | panic s => exact absurd h (C08_never_panics m name args s)

end Verif
